import DracoProofs.EbEncTraceI
import DracoProofs.EbTraceS2
import DracoProofs.EbConnSplitFreeI
/-
  ENCODER HALF for traversals WITH the symbol `S` and topology split events (standard traversal, no attribute data): what is
  proved of the abstract trace `DecSim.TraceS` (DracoProofs/EbTraceS.lean) for the result of a successful
  `encodeConnectivity`, WITHOUT `hnoS`.  Events in the decoder's list order: `conn.splits.toList.reverse`.

  PROVED
    * `traceS_base_of_run`: `size`, `distinct` (arbitrary start faces); every symbol other than `S` satisfies
      `DecSim.TraceAt` (`TrInv` of DracoProofs/EbEncTraceI.lean never used `hnoS`); for `S`: valid gate corner, gate neighbour
      boundary or decoded later, non-degenerate face, `0 < j` and the RIGHT neighbour `t.opp[Next P[j]] = P[j - 1]`
      (invariant `SN`: after `S` the right corner is on top of the stack, valid, unvisited, and is processed next).
    * `events_of_run`: `EvOK` (invariant `EvI`: an entry of `face_to_split_symbol_map_` is the id of an `S`; an event has an
      `E / R / L` source, an earlier `S` as split symbol, `edge ≤ 1`; events are recorded by source, right edge first), and
      every event names the LEFT neighbour of its `S` face (`EvG` + `ev_left`: the neighbour an event is about lies in the
      `S` face; it is not across the gate edge — `TrEnt.g` — nor across the right edge — `SN` — so it is across the left
      edge); `split_nodup`: the split ids are pairwise different.  `event_clause_of_run`: the event clause of `SAt`.
  NOT PROVED (named hypotheses of `traceS_of_run_partial2`): `hflags`; for every `S`: `¬ FanEarlier` and the NO-EVENT
  left-neighbour clause (`t.opp[Prev P[j]] = P[(stk j)[1]]`); `comps`; `init`.  These need the positional invariant of
  the encoder's corner stack with SEVERAL pending corners (the analogue of `EncTraceI.OPos` for `stk`).
-/
namespace Draco.EbEnc.EncTraceS
open Draco
open Draco.Eb hiding nextC prevC iabs
open Draco.EbEnc.EncCounts Draco.EbEnc.Coverage Draco.EbEnc.DecSim Draco.EbEnc.EncTraceI AttViews

/-! ## after `S` the right corner is processed next -/

/-- the corner after `P[i]` is the right neighbour of `P[i]` -/
def SFst (t : CT) (P : Array Nat) (i : Nat) : Prop := i + 1 < P.size ∧ P[i + 1]! = t.opp[Eb.nextC P[i]!]!

/-- every `S` is followed by its right corner; for an `S` that is the last symbol the right corner is pending (`Pend`) -/
def SN (t : CT) (sy P : Array Nat) (Pend : Nat → Prop) : Prop :=
  ∀ i, i < P.size → sy[i]! = topoS → SFst t P i ∨ (i + 1 = P.size ∧ Pend t.opp[Eb.nextC P[i]!]!)

def PendC (c : Nat) : Nat → Prop := fun y => y = c ∧ y ≠ inv
def PendSt (vf : Array Bool) (st : Array Nat) : Nat → Prop :=
  fun y => 0 < st.size ∧ st.back! = y ∧ y ≠ inv ∧ vf.getD (y / 3) false = false

theorem SN.mono {t : CT} {sy P : Array Nat} {A B : Nat → Prop} (h : SN t sy P A) (hab : ∀ y, A y → B y) : SN t sy P B := by
  intro i hi hs
  rcases h i hi hs with e | ⟨e1, e2⟩
  · exact Or.inl e
  · exact Or.inr ⟨e1, hab _ e2⟩

theorem SN.push {t : CT} {sy P : Array Nat} {A B : Nat → Prop} {c x : Nat} (h : SN t sy P A) (hsz : sy.size = P.size)
    (hA : ∀ y, A y → y = c) (hB : x = topoS → B t.opp[Eb.nextC c]!) : SN t (sy.push x) (P.push c) B := by
  intro i hi hs
  rw [Array.size_push] at hi
  by_cases hl : i = P.size
  · subst hl
    right
    rw [push_get!, if_pos hsz.symm] at hs
    refine ⟨by simp, ?_⟩
    rw [push_get!, if_pos rfl]
    exact hB hs
  · have hi' : i < P.size := by omega
    rw [push_get!, if_neg (by omega)] at hs
    left
    rcases h i hi' hs with ⟨e1, e2⟩ | ⟨e1, e2⟩
    · refine ⟨by simp; omega, ?_⟩
      rw [push_get!, push_get!, if_neg (by omega), if_neg (by omega)]
      exact e2
    · refine ⟨by simp; omega, ?_⟩
      rw [push_get!, push_get!, if_pos e1, if_neg (by omega)]
      exact (hA _ e2).symm

def SNin (t : CT) (s : InSt) : Prop :=
  s.2.2.2.2.1.size = s.2.2.2.2.2.1.size ∧ SN t s.2.2.2.2.1 s.2.2.2.2.2.1 (PendC s.2.2.2.2.2.2.2.2.2.2.2.1) ∧
  SN t s.2.2.2.2.1 s.2.2.2.2.2.1 (PendSt s.1 s.2.2.2.2.2.2.2.2.2.2.1)

def SNq (t : CT) (s : InSt) : Prop :=
  s.2.2.2.2.1.size = s.2.2.2.2.2.1.size ∧ SN t s.2.2.2.2.1 s.2.2.2.2.2.1 (PendSt s.1 s.2.2.2.2.2.2.2.2.2.2.1)

/-- after the `C` case, with the corner `c` already pushed on `processed` -/
theorem innerTail_sn {t : CT} {holeId : Array Nat} {valence : Bool} {vf' vh : Array Bool} {P : Array Nat}
    {splits : Array TopoSplit} {f2s : Array Nat} {lsid : Int} {nss : Nat} {stack : Array Nat}
    {nv face lastCorner vertId : Nat} {onB : Bool} {vv1 : Array Bool} {val : ValEnc} {sy : Array Nat}
    {c : Nat} {r : ForInStep InSt} (hsz : sy.size = P.size) (h : SN t sy P (PendC c))
    (hb : innerTail t holeId valence vf' vh (P.push c) splits f2s lsid nss stack nv face lastCorner vertId onB () vv1 val sy c
      = .ok r) :
    (∃ s', r = .yield s' ∧ SNin t s') ∨ (∃ s', r = .done s' ∧ SNq t s') := by
  have hA : ∀ y, PendC c y → y = c := fun y hy => hy.1
  have hsz' : ∀ x, (sy.push x).size = (P.push c).size := by intro x; simp [hsz]
  have hne : ∀ {x : Nat} {B : Nat → Prop}, x ≠ topoS → SN t (sy.push x) (P.push c) B :=
    fun hx => h.push hsz hA (fun e => absurd e hx)
  unfold innerTail at hb
  try simp only [] at hb
  obtain ⟨rc, hR, hb⟩ := (bind_ok_iff _ _ _).mp hb
  obtain ⟨lc, hL, hb⟩ := (bind_ok_iff _ _ _).mp hb
  obtain ⟨rv, hb, hrv1, hrv2⟩ := visited_absorb hb
  obtain ⟨lv, hb, hlv1, hlv2⟩ := visited_absorb hb
  rcases ite_ok hb with ⟨hrvt, hb⟩ | ⟨hrvf, hb⟩
  · over_splits hb =>
      rcases ite_ok hb with ⟨hlvt, hb⟩ | ⟨hlvf, hb⟩
      · over_splits hb =>
          obtain ⟨val1, hb⟩ := ite_bind_absorb hb
          exact Or.inr ⟨_, pure_ok hb, hsz' _, hne (by decide)⟩
      · obtain ⟨val1, hb⟩ := ite_bind_absorb hb
        exact Or.inl ⟨_, pure_ok hb, hsz' _, hne (by decide), hne (by decide)⟩
  · rcases ite_ok hb with ⟨hlvt, hb⟩ | ⟨hlvf, hb⟩
    · over_splits hb =>
        obtain ⟨val1, hb⟩ := ite_bind_absorb hb
        exact Or.inl ⟨_, pure_ok hb, hsz' _, hne (by decide), hne (by decide)⟩
    · -- S: the right corner goes on top of the stack
      have hrf : rv = false := by simpa using hrvf
      have hrne : (rc != inv) = true := by
        apply Classical.byContradiction
        intro hn
        have := hrv2 hn
        rw [hrf] at this; cases this
      have hrci : rc ≠ inv := by simpa using hrne
      have hnc : Eb.nextC c ≠ inv := by
        intro e
        unfold opposite at hR
        rw [e] at hR
        simp at hR
        have := pure_ok hR
        exact hrci this
      have erc : t.opp[Eb.nextC c]! = rc := by rw [← vget_eq]; exact (opposite_get hnc hR).2
      have hun : vf'.getD (rc / 3) false = false := by
        have := hrv1 hrne
        rw [hrf, faceOf_ne hrci] at this
        exact (rdB_get this).2
      have fin : ∀ {vv2 vh2 : Array Bool} {f2s' : Array Nat} {val1 : ValEnc} {x : Eb.R (ForInStep InSt)}, x = .ok r →
          x = pure (ForInStep.done (vf', vv2, vh2, val1, sy.push topoS, P.push c, splits, f2s', lsid, nss + 1,
            (stack.set! (stack.size - 1) lc).push rc, c, nv)) →
          (∃ s', r = .yield s' ∧ SNin t s') ∨ (∃ s', r = .done s' ∧ SNq t s') := by
        intro vv2 vh2 f2s' val1 x hx e
        rw [e] at hx
        refine Or.inr ⟨_, pure_ok hx, hsz' _, ?_⟩
        refine h.push hsz hA (fun _ => ?_)
        rw [erc]
        exact ⟨by simp, back!_push _ _, hrci, hun⟩
      obtain ⟨val1, hb⟩ := ite_bind_absorb hb
      rcases ite_ok hb with ⟨_, hb⟩ | ⟨_, hb⟩
      · obtain ⟨hole, _, hb⟩ := (bind_ok_iff _ _ _).mp hb
        obtain ⟨hv, _, hb⟩ := (bind_ok_iff _ _ _).mp hb
        rcases ite_ok hb with ⟨_, hb⟩ | ⟨_, hb⟩
        · obtain ⟨x, hx, hb⟩ := (bind_ok_iff _ _ _).mp hb
          obtain ⟨vv2, vh2⟩ := x
          obtain ⟨f2s', _, hb⟩ := (bind_ok_iff _ _ _).mp hb
          exact fin hb rfl
        · obtain ⟨f2s', _, hb⟩ := (bind_ok_iff _ _ _).mp hb
          exact fin hb rfl
      · obtain ⟨f2s', _, hb⟩ := (bind_ok_iff _ _ _).mp hb
        exact fin hb rfl

theorem innerBody_sn {t : CT} {holeId : Array Nat} {valence : Bool} {NF : Nat} (x : Nat) (s : InSt) (r : ForInStep InSt)
    (h : SNin t s) (hb : innerBody t holeId valence NF x s = .ok r) :
    (∃ s', r = .yield s' ∧ SNin t s') ∨ (∃ s', r = .done s' ∧ SNq t s') := by
  obtain ⟨vf, vv, vh, val, sy, P, sp, f2s, ls, nss, st, c, nv⟩ := s
  obtain ⟨hsz, h1, h2⟩ := h
  dsimp only at hsz h1 h2
  unfold innerBody at hb
  rcases ite_ok hb with ⟨_, hb⟩ | ⟨_, hb⟩
  · exact Or.inr ⟨_, pure_ok hb, hsz, h2⟩
  obtain ⟨vf', _, hb⟩ := (bind_ok_iff _ _ _).mp hb
  obtain ⟨vertId, _, hb⟩ := (bind_ok_iff _ _ _).mp hb
  obtain ⟨hid, _, hb⟩ := (bind_ok_iff _ _ _).mp hb
  obtain ⟨vis, _, hb⟩ := (bind_ok_iff _ _ _).mp hb
  rcases ite_ok hb with ⟨_, hb⟩ | ⟨_, hb⟩
  · obtain ⟨vv', _, hb⟩ := (bind_ok_iff _ _ _).mp hb
    rcases ite_ok hb with ⟨_, hb⟩ | ⟨_, hb⟩
    · obtain ⟨val1, hb⟩ := ite_bind_absorb hb
      obtain ⟨o, _, hb⟩ := (bind_ok_iff _ _ _).mp hb
      have hA : ∀ y, PendC c y → y = c := fun y hy => hy.1
      exact Or.inl ⟨_, pure_ok hb, by simp [hsz], h1.push hsz hA (fun e => absurd e (by decide)),
        h1.push hsz hA (fun e => absurd e (by decide))⟩
    · exact innerTail_sn hsz h1 hb
  · exact innerTail_sn hsz h1 hb


def SNst (t : CT) (s : StSt) : Prop :=
  s.2.2.2.2.2.2.2.2.2.2.2 = false ∧ s.2.2.2.2.1.size = s.2.2.2.2.2.1.size ∧
  SN t s.2.2.2.2.1 s.2.2.2.2.2.1 (PendSt s.1 s.2.2.2.2.2.2.2.2.2.2.1)

def SNstQ (t : CT) (s : StSt) : Prop :=
  s.2.2.2.2.2.2.2.2.2.2.1.size = 0 ∧ s.2.2.2.2.1.size = s.2.2.2.2.2.1.size ∧
  SN t s.2.2.2.2.1 s.2.2.2.2.2.1 (PendSt s.1 s.2.2.2.2.2.2.2.2.2.2.1)

theorem stackBody_sn {t : CT} {holeId : Array Nat} {valence : Bool} {NF : Nat} (x : Nat) (s : StSt) (r : ForInStep StSt)
    (h : SNst t s) (hb : stackBody t holeId valence NF x s = .ok r) :
    (∃ s', r = .yield s' ∧ SNst t s') ∨ (∃ s', r = .done s' ∧ SNstQ t s') := by
  obtain ⟨vf, vv, vh, val, sy, P, sp, f2s, ls, nss, st, fin⟩ := s
  obtain ⟨hfin, hsz, h1⟩ := h
  dsimp only at hfin hsz h1
  subst hfin
  unfold stackBody at hb
  rcases ite_ok hb with ⟨hemp, hb⟩ | ⟨hne, hb⟩
  · exact Or.inr ⟨_, pure_ok hb, Array.isEmpty_iff_size_eq_zero.mp hemp, hsz, h1⟩
  rcases ite_ok hb with ⟨hinv, hb⟩ | ⟨hninv, hb⟩
  · refine Or.inl ⟨_, pure_ok hb, rfl, hsz, h1.mono ?_⟩
    intro y ⟨_, e, hy, _⟩
    rw [← e] at hy
    exact absurd (by simpa using hinv) hy
  obtain ⟨b, hb1, hb⟩ := (bind_ok_iff _ _ _).mp hb
  rcases ite_ok hb with ⟨hvis, hb⟩ | ⟨hnvis, hb⟩
  · refine Or.inl ⟨_, pure_ok hb, rfl, hsz, h1.mono ?_⟩
    intro y ⟨_, e, _, hun⟩
    rw [← e, (rdB_get hb1).2, hvis] at hun
    cases hun
  obtain ⟨s2, hloop, hb⟩ := (bind_ok_iff _ _ _).mp hb
  have h2 := range_loop NF (innerBody t holeId valence NF) (fun _ => SNin t) (SNq t)
    (fun j s r _ hJ hr => innerBody_sn j s r hJ hr)
    (vf, vv, vh, val, sy, P, sp, f2s, ls, nss, st, st.back!, 0) s2
    ⟨hsz, h1.mono (fun y hy => ⟨hy.2.1.symm, hy.2.2.1⟩), h1⟩ hloop
  have hq : SNq t s2 := by
    rcases h2 with h | h
    · exact ⟨h.1, h.2.2⟩
    · exact h
  obtain ⟨vf2, vv2, vh2, val2, sy2, P2, sp2, f2s2, ls2, nss2, st2, c2, nv2⟩ := s2
  exact Or.inl ⟨_, pure_ok hb, rfl, hq.1, hq.2⟩

/-- between two calls: every `S` is followed by its right corner -/
def SNo (t : CT) (s : OSt) : Prop :=
  s.2.2.2.2.1.size = s.2.2.2.2.2.2.2.1.size ∧ SN t s.2.2.2.2.1 s.2.2.2.2.2.2.2.1 (fun _ => False)

theorem outerTail_sn {t : CT} {holeId : Array Nat} {valence : Bool} {nfa : Nat} {val : ValEnc} {sy : Array Nat}
    {sf : RAnsBitEnc} {sfs : Array Bool} {P : Array Nat} {sp : Array TopoSplit} {f2s : Array Nat} {ls : Int} {nss : Nat}
    {vf vv vh : Array Bool} {I : Array Nat} {from_ : Nat} {r : ForInStep OSt}
    (hsz : sy.size = P.size) (h : SN t sy P (fun _ => False))
    (hb : outerTail t holeId valence nfa val sy sf sfs P sp f2s ls nss () vf vv vh I from_ = .ok r) :
    ∃ s', r = .yield s' ∧ SNo t s' := by
  unfold outerTail at hb
  rcases ite_ok hb with ⟨_, hb⟩ | ⟨_, hb⟩
  · exact ⟨_, pure_ok hb, hsz, h⟩
  obtain ⟨s2, hloop, hb⟩ := (bind_ok_iff _ _ _).mp hb
  have h2 := range_loop _ (stackBody t holeId valence nfa) (fun _ => SNst t) (SNstQ t)
    (fun j s r _ hJ hr => stackBody_sn j s r hJ hr)
    (vf, vv, vh, val, sy, P, sp, f2s, ls, nss, #[from_], false) s2
    ⟨rfl, hsz, h.mono (fun _ hy => hy.elim)⟩ hloop
  obtain ⟨vf2, vv2, vh2, val2, sy2, P2, sp2, f2s2, ls2, nss2, st2, fin2⟩ := s2
  rcases ite_ok hb with ⟨_, hb⟩ | ⟨hfin, hb⟩
  · exact (throw_bind_ne hb).elim
  have hfin' : fin2 = true := by simpa using hfin
  rcases h2 with ⟨hf, _, _⟩ | ⟨hemp, hsz2, hq⟩
  · have : fin2 = false := hf
    rw [this] at hfin'; cases hfin'
  · refine ⟨_, pure_ok hb, hsz2, hq.mono ?_⟩
    intro y ⟨hp, _⟩
    have : st2.size = 0 := hemp
    omega

theorem outerBody_sn {t : CT} {holeId : Array Nat} {valence : Bool} {nfa : Nat}
    (cId : Nat) (s : OSt) (r : ForInStep OSt) (hI : SNo t s)
    (hb : outerBody t holeId valence nfa cId s = .ok r) : ∃ s', r = .yield s' ∧ SNo t s' := by
  obtain ⟨vf, vv, vh, val, sy, sf, sfs, P, ifc, sp, f2s, ls, nss⟩ := s
  obtain ⟨hsz, h1⟩ := hI
  dsimp only at hsz h1
  unfold outerBody at hb
  obtain ⟨b, hb1, hb⟩ := (bind_ok_iff _ _ _).mp hb
  rcases ite_ok hb with ⟨_, hb⟩ | ⟨hnv, hb⟩
  · exact ⟨_, pure_ok hb, hsz, h1⟩
  obtain ⟨d, hd, hb⟩ := (bind_ok_iff _ _ _).mp hb
  rcases ite_ok hb with ⟨_, hb⟩ | ⟨hnd, hb⟩
  · exact ⟨_, pure_ok hb, hsz, h1⟩
  obtain ⟨x, hx, hb⟩ := (bind_ok_iff _ _ _).mp hb
  obtain ⟨interior, sc⟩ := x
  simp only [] at hb
  rcases ite_ok hb with ⟨hint, hb⟩ | ⟨hnint, hb⟩
  · obtain ⟨v0, hv0, hb⟩ := (bind_ok_iff _ _ _).mp hb
    obtain ⟨v1, hv1, hb⟩ := (bind_ok_iff _ _ _).mp hb
    obtain ⟨v2, hv2, hb⟩ := (bind_ok_iff _ _ _).mp hb
    obtain ⟨vv1, hvv1, hb⟩ := (bind_ok_iff _ _ _).mp hb
    obtain ⟨vv2, hvv2, hb⟩ := (bind_ok_iff _ _ _).mp hb
    obtain ⟨vv3, hvv3, hb⟩ := (bind_ok_iff _ _ _).mp hb
    obtain ⟨vf', hvf', hb⟩ := (bind_ok_iff _ _ _).mp hb
    obtain ⟨oppId, hopp, hb⟩ := (bind_ok_iff _ _ _).mp hb
    obtain ⟨b2, _, hb⟩ := (bind_ok_iff _ _ _).mp hb
    rcases ite_ok hb with ⟨_, hb⟩ | ⟨_, hb⟩
    · exact outerTail_sn hsz h1 hb
    · exact outerTail_sn hsz h1 hb
  · obtain ⟨x2, hx2, hb⟩ := (bind_ok_iff _ _ _).mp hb
    obtain ⟨vv', vh'⟩ := x2
    simp only [] at hb
    exact outerTail_sn hsz h1 hb


/-- **from the final state of the main loop to the symbol part of the trace**: sizes, pairwise different faces, and
    `TraceAt` for every symbol face, over `P.reverse ++ I` -/
theorem traceS_face_of_state {t : CT} (hT : TblOK t) {holeId : Array Nat} (hH : HolesOK t holeId) {vf vv : Array Bool}
    {P sy : Array Nat} (hInv : Inv t vf vv P I) (hcl : Closed t vf) (hTr : TrInv t holeId I vf P sy inv)
    (hSN : SN t sy P (fun _ => False)) :
    sy.toList.reverse.length = P.size ∧ (P.reverse ++ I).size = P.size + I.size ∧
    (∀ i, i < (P.reverse ++ I).size → ∀ i', i' < (P.reverse ++ I).size →
      (P.reverse ++ I)[i]! / 3 = (P.reverse ++ I)[i']! / 3 → i = i') ∧
    (∀ j, j < sy.toList.reverse.length →
      (sy.toList.reverse[j]! ≠ 1 → TraceAt t (P.reverse ++ I) sy.toList.reverse j) ∧
      (sy.toList.reverse[j]! = 1 → (P.reverse ++ I)[j]! < t.numCorners ∧
        Later (P.reverse ++ I) j t.opp[(P.reverse ++ I)[j]!]! ∧
        (t.c2v[(P.reverse ++ I)[j]!]! ≠ t.c2v[Eb.nextC (P.reverse ++ I)[j]!]! ∧
          t.c2v[(P.reverse ++ I)[j]!]! ≠ t.c2v[Eb.prevC (P.reverse ++ I)[j]!]! ∧
          t.c2v[Eb.nextC (P.reverse ++ I)[j]!]! ≠ t.c2v[Eb.prevC (P.reverse ++ I)[j]!]!) ∧
        0 < j ∧ t.opp[Eb.nextC (P.reverse ++ I)[j]!]! = (P.reverse ++ I)[j - 1]!)) := by
  have hk := hT.ctok
  have hfit := hT.base.le
  obtain ⟨vC, vS, vL, vR, vE⟩ := topo_vals
  have hsz : (P.reverse ++ I).size = P.size + I.size := by simp
  have hlen : sy.toList.reverse.length = P.size := by simp [hTr.sz]
  have hPd := app_left P I
  have hPi := app_right P I
  -- later / earlier in decoder order
  have later_of : ∀ i, i < P.size → ∀ y, Before I P i y → Later (P.reverse ++ I) (P.size - 1 - i) y := by
    intro i hi y hy
    rcases hy with e | ⟨i', h1, h2, h3⟩ | ⟨k, h1, h2⟩
    · exact Or.inl e
    · right
      refine ⟨P.size - 1 - i', by rw [hsz]; omega, by omega, ?_⟩
      rw [hPd _ (by omega), show P.size - 1 - (P.size - 1 - i') = i' by omega, h3]
    · right
      refine ⟨P.size + k, by rw [hsz]; omega, by omega, ?_⟩
      rw [hPi, h2]
  have next_of : ∀ i, i < P.size → ∀ y, NextIs P inv i y →
      0 < P.size - 1 - i ∧ y = (P.reverse ++ I)[P.size - 1 - i - 1]! := by
    intro i hi y ⟨hne, h⟩
    rcases h with h | ⟨h1, h2⟩
    · exact absurd h.1 hne
    · refine ⟨by omega, ?_⟩
      rw [hPd _ (by omega), show P.size - 1 - (P.size - 1 - i - 1) = i + 1 by omega, h2]
  refine ⟨hlen, hsz, ?_, ?_⟩
  · -- the faces are pairwise different
    have hnodup : ((P.toList ++ I.toList).map (· / 3)).Nodup := by
      rw [List.nodup_iff_count_le_one]
      intro f
      rw [List.count_eq_countP, List.countP_map]
      have := hInv.cnt f
      have e : List.countP ((fun x => x == f) ∘ fun x => x / 3) (P.toList ++ I.toList) =
          List.countP (fun c => c / 3 == f) (P.toList ++ I.toList) := by
        apply List.countP_congr; intro c _; simp [Function.comp]
      rw [e, this]
      split <;> omega
    -- the position of a decoder index in `P ++ I`
    have hLlen : ((P.toList ++ I.toList).map (· / 3)).length = P.size + I.size := by simp
    have pos : ∀ j, j < P.size + I.size → ∃ p, p < P.size + I.size ∧ (j < P.size → p = P.size - 1 - j) ∧
        (P.size ≤ j → p = j) ∧ ((P.toList ++ I.toList).map (· / 3))[p]! = (P.reverse ++ I)[j]! / 3 := by
      intro j hj
      by_cases hjn : j < P.size
      · refine ⟨P.size - 1 - j, by omega, fun _ => rfl, fun h => by omega, ?_⟩
        rw [getElem!_pos _ _ (by rw [hLlen]; omega), List.getElem_map,
          List.getElem_append_left (by simp; omega), hPd j hjn, Array.getElem_toList, getElem!_pos P _ (by omega)]
      · refine ⟨j, hj, fun h => absurd h hjn, fun _ => rfl, ?_⟩
        have e : j = P.size + (j - P.size) := by omega
        rw [getElem!_pos _ _ (by rw [hLlen]; omega), List.getElem_map,
          List.getElem_append_right (by simp; omega)]
        conv_rhs => rw [e, hPi]
        rw [Array.getElem_toList, getElem!_pos I _ (by omega)]
        simp
    intro j hj j' hj' e
    rw [hsz] at hj hj'
    obtain ⟨p, hp, p1, p2, p3⟩ := pos j hj
    obtain ⟨p', hp', p1', p2', p3'⟩ := pos j' hj'
    have h1 : p < ((P.toList ++ I.toList).map (· / 3)).length := by rw [hLlen]; exact hp
    have h2 : p' < ((P.toList ++ I.toList).map (· / 3)).length := by rw [hLlen]; exact hp'
    have := (hnodup.getElem_inj_iff (hi := h1) (hj := h2)).mp (by
      rw [← getElem!_pos _ p h1, ← getElem!_pos _ p' h2, p3, p3', e])
    by_cases a : j < P.size <;> by_cases a' : j' < P.size
    · have := p1 a; have := p1' a'; omega
    · have := p1 a; have := p2' (by omega); omega
    · have := p2 (by omega); have := p1' a'; omega
    · have := p2 (by omega); have := p2' (by omega); omega
  · intro j hj
    rw [hlen] at hj
    have hi : P.size - 1 - j < P.size := by omega
    obtain ⟨g, e, r, l, cc, kk⟩ := hTr.ent _ hi
    obtain ⟨hc, hcv⟩ := inv_entry hk hInv _ hi
    have hci := hT.lt_inv hc
    have hnd := hInv.nd _ hcv
    have esym : sy.toList.reverse[j]! = sy[P.size - 1 - j]! := by
      rw [list_reverse_get! _ _ (by simp [hTr.sz]; exact hj), toList_get!]
      simp [hTr.sz]
    have hjj : P.size - 1 - (P.size - 1 - j) = j := by omega
    have hgl := later_of _ hi _ g
    rw [hjj] at hgl
    have hnd3 := nondeg_three hci (hT.lt_inv (hk.next_lt hc)) (hT.lt_inv (hk.prev_lt hc)) hnd
    constructor
    swap
    · intro hs
      rw [esym, ← vS] at hs
      rw [hPd j hj]
      refine ⟨hc, hgl, hnd3, ?_⟩
      rcases hSN _ hi hs with ⟨e1, e2⟩ | ⟨_, e2⟩
      · refine ⟨by omega, ?_⟩
        rw [← e2, hPd _ (by omega)]
        congr 1
        omega
      · exact e2.elim
    intro hne1
    rw [esym] at hne1
    unfold TraceAt
    rw [hPd j hj, esym]
    refine ⟨hc, by have := later_of _ hi _ g; rw [hjj] at this; exact this,
      nondeg_three hci (hT.lt_inv (hk.next_lt hc)) (hT.lt_inv (hk.prev_lt hc)) hnd, ?_, ?_, ?_, ?_, ?_⟩
    · intro hs
      obtain ⟨h1, h2⟩ := e (by rw [hs, vE])
      have a1 := later_of _ hi _ h1
      have a2 := later_of _ hi _ h2
      rw [hjj] at a1 a2
      exact ⟨a1, a2⟩
    · intro hs
      obtain ⟨h1, h2⟩ := r (by rw [hs, vR])
      have a1 := later_of _ hi _ h1
      obtain ⟨b1, b2⟩ := next_of _ hi _ h2
      rw [hjj] at a1 b1 b2
      exact ⟨b1, a1, b2⟩
    · intro hs
      obtain ⟨h1, h2⟩ := l (by rw [hs, vL])
      have a2 := later_of _ hi _ h2
      obtain ⟨b1, b2⟩ := next_of _ hi _ h1
      rw [hjj] at a2 b1 b2
      exact ⟨b1, b2, a2⟩
    · intro hs
      obtain ⟨h1, h2⟩ := cc (by rw [hs, vC])
      obtain ⟨b1, b2⟩ := next_of _ hi _ h1
      rw [hjj] at b1 b2
      obtain ⟨m, m1, m2, m3, m4⟩ := fan_of_cflag hT hH hInv hcl hi h2
      refine ⟨b1, b2, m, by rw [hsz]; omega, m1, m3, ?_⟩
      intro k hk1 hk2
      obtain ⟨n1, i', n2, n3, n4⟩ := m4 k hk1 hk2
      refine ⟨n1, P.size - 1 - i', by omega, ?_⟩
      rw [hPd _ (by omega), show P.size - 1 - (P.size - 1 - i') = i' by omega, n4]
    · rw [vC, vS, vL, vR, vE] at kk
      omega


/-! ## the run -/

/-- **what holds of every successful run** (standard traversal, no attribute data; symbols `S`, split events and interior
    start faces allowed): `size` and `distinct` of `TraceS`, `TraceAt` for every symbol other than `S`, and for `S` the gate
    facts and the right-neighbour clause of `SAt` -/
theorem traceS_base_of_run (ch : ConnChoices) (pf : Faces) (conn : ConnEnc)
    (h : encodeConnectivity ch false pf #[] = .ok conn) :
    TblOK conn.ct ∧
    conn.processed.size = conn.symbols.toList.reverse.length + (conn.startFaces.toList.filter (· = true)).length ∧
    (∀ i, i < conn.processed.size → ∀ i', i' < conn.processed.size →
      conn.processed[i]! / 3 = conn.processed[i']! / 3 → i = i') ∧
    (∀ j, j < conn.symbols.toList.reverse.length →
      (conn.symbols.toList.reverse[j]! ≠ 1 → TraceAt conn.ct conn.processed conn.symbols.toList.reverse j) ∧
      (conn.symbols.toList.reverse[j]! = 1 → conn.processed[j]! < conn.ct.numCorners ∧
        Later conn.processed j conn.ct.opp[conn.processed[j]!]! ∧
        (conn.ct.c2v[conn.processed[j]!]! ≠ conn.ct.c2v[Eb.nextC conn.processed[j]!]! ∧
          conn.ct.c2v[conn.processed[j]!]! ≠ conn.ct.c2v[Eb.prevC conn.processed[j]!]! ∧
          conn.ct.c2v[Eb.nextC conn.processed[j]!]! ≠ conn.ct.c2v[Eb.prevC conn.processed[j]!]!) ∧
        0 < j ∧ conn.ct.opp[Eb.nextC conn.processed[j]!]! = conn.processed[j - 1]!)) := by
  have hrun := h
  rw [encodeConnectivity_eq] at hrun
  split at hrun
  · rename_i table hcreate
    have hT := tblOK_ofTable hcreate
    have hcov := cover_ofTable hcreate
    simp only [] at hrun
    rcases ite_ok hrun with ⟨_, hrun⟩ | ⟨_, hrun⟩
    · exact (throw_bind_ne hrun).elim
    obtain ⟨x, hx, hrun⟩ := (bind_ok_iff _ _ _).mp hrun
    have hH : HolesOK (CT.ofTable table) x.1 := findHoles_spec hT (nh := x.2) hx
    obtain ⟨atts, _, hrun⟩ := (bind_ok_iff _ _ _).mp hrun
    obtain ⟨val, hrun⟩ := ite_bind_both hrun
    obtain ⟨s, hloop, hrun⟩ := (bind_ok_iff _ _ _).mp hrun
    have hI : (Coverage.OInv (CT.ofTable table) s ∧
        TrInv (CT.ofTable table) x.1 s.2.2.2.2.2.2.2.2.1 s.1 s.2.2.2.2.2.2.2.1 s.2.2.2.2.1 inv ∧ IfcOK s ∧
        SNo (CT.ofTable table) s) ∨ False := by
      refine range_loop _ _
        (fun _ s => Coverage.OInv (CT.ofTable table) s ∧
          TrInv (CT.ofTable table) x.1 s.2.2.2.2.2.2.2.2.1 s.1 s.2.2.2.2.2.2.2.1 s.2.2.2.2.1 inv ∧ IfcOK s ∧
          SNo (CT.ofTable table) s)
        (fun _ => False) ?_ _ s ?_ hloop
      · intro j s r hj ⟨hO, hTr, hC, hS⟩ hr
        left
        obtain ⟨s', e, hO', _, _⟩ := outerBody_cov hT hH j s r hj hO hr
        obtain ⟨s'', e', hTr'⟩ := outerBody_tr hT hH hcov j s r hj hO hTr hr
        obtain ⟨s3, e3, hC'⟩ := outerBody_ifc j s r hC hr
        obtain ⟨s4, e4, hS'⟩ := outerBody_sn j s r hS hr
        rw [e] at e' e3 e4; cases e'; cases e3; cases e4
        exact ⟨s', e, hO', hTr', hC', hS'⟩
      · refine ⟨⟨inv_init (CT.ofTable table) _ _ rfl, closed_init _ _⟩, trInv_init _ _ _, rfl, rfl, ?_⟩
        intro i hi
        simp at hi
    obtain ⟨hO, hTr, hC, hS⟩ := hI.resolve_right (fun h => h)
    obtain ⟨vf, vv, vh, val2, sy, sf, sfs, P, ifc, sp, f2s, ls, nss⟩ := s
    dsimp only at hTr
    have hC' : ifc.size = (sfs.toList.filter (· = true)).length := hC
    have hS' : SN (CT.ofTable table) sy P (fun _ => False) := hS.2
    obtain ⟨sb, _, hrun⟩ := (bind_ok_iff _ _ _).mp hrun
    have hconn : conn.ct = CT.ofTable table ∧ conn.processed = P.reverse ++ ifc ∧ conn.symbols = sy ∧
        conn.startFaces = sfs := by
      rcases ite_ok hrun with ⟨_, hrun⟩ | ⟨_, hrun⟩
      · obtain ⟨cb, _, hrun⟩ := (bind_ok_iff _ _ _).mp hrun
        have := pure_ok hrun
        rw [this]
        exact ⟨rfl, rfl, rfl, rfl⟩
      · have := pure_ok hrun
        rw [this]
        exact ⟨rfl, rfl, rfl, rfl⟩
    obtain ⟨e1, e2, e3, e4⟩ := hconn
    have hInv : Inv (CT.ofTable table) vf vv P ifc := hO.1
    rw [e1, e2, e3, e4]
    obtain ⟨a1, a2, a3, a4⟩ := traceS_face_of_state hT hH hInv hO.2 hTr hS'
    refine ⟨hT, ?_, a3, a4⟩
    rw [a2, a1, hC']
  · simp only [throw, throwThe, MonadExceptOf.throw] at hrun
    cases hrun

/-- **`TraceS` of a run, with the missing clauses as named hypotheses**: `hflags` (the flags of `starts` are the recorded
    start faces), `hevok` (`EvOK`), `hleft` (for every `S`: the tip fan is not closed-and-decoded, and the two left-neighbour
    clauses of `SAt`), `hcomps`, `hinit` -/
theorem traceS_of_run_partial (ch : ConnChoices) (pf : Faces) (conn : ConnEnc)
    (h : encodeConnectivity ch false pf #[] = .ok conn) (evs : List TopoSplit) (starts : List (Bool × Nat))
    (hflags : starts.map (·.1) = conn.startFaces.toList)
    (hevok : EvOK conn.symbols.toList.reverse evs)
    (hleft : ∀ j, j < conn.symbols.toList.reverse.length → conn.symbols.toList.reverse[j]! = 1 →
      ¬ FanEarlier conn.ct conn.processed j conn.processed[j]! ∧
      (hasEv conn.symbols.toList.reverse.length evs j = false →
        1 < (stk conn.symbols.toList.reverse evs j).length ∧
        conn.ct.opp[Eb.prevC conn.processed[j]!]! = conn.processed[(stk conn.symbols.toList.reverse evs j)[1]!]!) ∧
      (hasEv conn.symbols.toList.reverse.length evs j = true →
        conn.symbols.toList.reverse.length - 1 - (evOf conn.symbols.toList.reverse.length evs j).source < j ∧
        conn.ct.opp[Eb.prevC conn.processed[j]!]! =
          (if (evOf conn.symbols.toList.reverse.length evs j).edge = 1 then
            Eb.nextC conn.processed[conn.symbols.toList.reverse.length - 1 -
              (evOf conn.symbols.toList.reverse.length evs j).source]!
           else Eb.prevC conn.processed[conn.symbols.toList.reverse.length - 1 -
              (evOf conn.symbols.toList.reverse.length evs j).source]!)))
    (hcomps : starts.map (·.2) = stk conn.symbols.toList.reverse evs conn.symbols.toList.reverse.length)
    (hinit : ∀ k, k < starts.length → starts[k]!.1 = true →
      InitAt conn.ct conn.processed conn.symbols.toList.reverse.length
        (initIndex conn.symbols.toList.reverse starts k) starts[k]!.2) :
    TblOK conn.ct ∧ TraceS conn.ct conn.processed conn.symbols.toList.reverse evs starts := by
  obtain ⟨hT, b1, b2, b3⟩ := traceS_base_of_run ch pf conn h
  have hfilt : ∀ l : List (Bool × Nat), (l.filter (·.1)).length = ((l.map (·.1)).filter (· = true)).length := by
    intro l
    induction l with
    | nil => rfl
    | cons x l ih =>
      simp only [List.filter_cons, List.map_cons]
      cases hx : x.1 <;> simp [hx, ih]
  refine ⟨hT, ⟨by rw [hfilt, hflags, b1], b2, hevok, ?_, hcomps, hinit⟩⟩
  intro j hj
  obtain ⟨c1, c2⟩ := b3 j hj
  refine ⟨c1, fun hs => ?_⟩
  obtain ⟨d1, d2, d3, d4, d5⟩ := c2 hs
  obtain ⟨l1, l2, l3⟩ := hleft j hj hs
  first
    | exact ⟨d1, d2, d3, d4, d5, l1, l2, l3⟩
    | exact ⟨d1, d2, d3, d4, d5, l2, l3⟩


/-! ## the split events: ranges, symbols, order -/

def ERL (x : Nat) : Prop := x = topoE ∨ x = topoR ∨ x = topoL

/-- the order in which events are recorded: by source, and for one source the right edge first -/
def EvLt (a b : TopoSplit) : Prop := a.source < b.source ∨ (a.source = b.source ∧ a.edge = 1 ∧ b.edge = 0)

/-- the recorded split events (encoder order) and `face_to_split_symbol_map_`: an entry of the map is the id of a symbol
    `S`; an event has its source among the symbols so far, an `E / R / L`, its split symbol is an EARLIER `S`, its edge is
    `0` or `1`; the sources are in increasing order -/
structure EvI (sy : Array Nat) (spl : List TopoSplit) (f2s : Array Nat) : Prop where
  f : ∀ f, f < f2s.size → f2s[f]! ≠ inv → f2s[f]! < sy.size ∧ sy[f2s[f]!]! = topoS
  d : ∀ ev, ev ∈ spl → ev.source < sy.size ∧ ev.split < ev.source ∧ ev.edge ≤ 1 ∧ sy[ev.split]! = topoS ∧
    ERL sy[ev.source]!
  e : (spl.map (·.source)).Pairwise (· ≤ ·)
  o : spl.Pairwise EvLt

theorem tu32 (n : Nat) (h : n < 2 ^ 32) : toUnsigned 32 (n : Int) = n := by
  unfold toUnsigned
  have : ((n : Int) % ((2 ^ 32 : Nat) : Int)) = n := Int.emod_eq_of_lt (by omega) (by exact_mod_cast h)
  rw [this]
  simp

/-- one step: the events `nw` (all with source = the id of the new symbol `x`, split ids read from the map) and the symbol -/
theorem EvI.step {sy : Array Nat} {spl : List TopoSplit} {f2s : Array Nat} (h : EvI sy spl f2s) (x : Nat)
    (nw : List TopoSplit)
    (hnw : ∀ ev, ev ∈ nw → ev.source = sy.size ∧ ev.edge ≤ 1 ∧ ∃ fc, fc < f2s.size ∧ f2s[fc]! = ev.split ∧ ev.split ≠ inv)
    (hx : nw ≠ [] → ERL x) (hpw : nw.Pairwise EvLt) : EvI (sy.push x) (spl ++ nw) f2s := by
  have old : ∀ k, k < sy.size → (sy.push x)[k]! = sy[k]! := by
    intro k hk; rw [push_get!, if_neg (by omega)]
  refine ⟨?_, ?_, ?_, ?_⟩
  rotate_left 3
  · rw [List.pairwise_append]
    refine ⟨h.o, hpw, ?_⟩
    intro a ha b hb
    left
    have := (h.d a ha).1
    rw [(hnw b hb).1]
    exact this
  · intro f hf hne
    obtain ⟨a, b⟩ := h.f f hf hne
    exact ⟨by simp; omega, by rw [old _ a]; exact b⟩
  · intro ev hev
    rcases List.mem_append.mp hev with hev | hev
    · obtain ⟨a, b, c, d, e⟩ := h.d ev hev
      exact ⟨by simp; omega, b, c, by rw [old _ (by omega)]; exact d, by rw [old _ a]; exact e⟩
    · obtain ⟨a, b, fc, c1, c2, c3⟩ := hnw ev hev
      obtain ⟨d1, d2⟩ := h.f fc c1 (by rw [c2]; exact c3)
      rw [c2] at d1 d2
      refine ⟨by rw [a]; simp, by omega, b, by rw [old _ d1]; exact d2, ?_⟩
      rw [a, push_get!, if_pos rfl]
      exact hx (List.ne_nil_of_mem hev)
  · rw [List.map_append, List.pairwise_append]
    refine ⟨h.e, ?_, ?_⟩
    · rw [List.pairwise_map]
      apply List.Pairwise.imp_of_mem (R := fun _ _ => True)
      · intro a b ha hb _
        rw [(hnw a ha).1, (hnw b hb).1]
      · exact List.pairwise_of_forall (fun _ _ => trivial)
    · intro a ha b hb
      rw [List.mem_map] at ha hb
      obtain ⟨ea, hea, rfl⟩ := ha
      obtain ⟨eb, heb, rfl⟩ := hb
      have := (h.d ea hea).1
      rw [(hnw eb heb).1]
      omega

/-- the symbol `S`: the map gets the id of the new symbol -/
theorem EvI.stepS {sy : Array Nat} {spl : List TopoSplit} {f2s f2s' : Array Nat} (h : EvI sy spl f2s) {face : Nat}
    {site : String} (hw : wr site f2s face sy.size = .ok f2s') : EvI (sy.push topoS) spl f2s' := by
  obtain ⟨_, w2, w3⟩ := AttViews.wr_ok hw
  have h' := h.step topoS [] (fun ev hev => by simp at hev) (fun hne => absurd rfl hne) List.Pairwise.nil
  rw [List.append_nil] at h'
  refine ⟨?_, h'.d, h'.e, h'.o⟩
  intro f hf hne
  rw [w2] at hf
  rw [w3] at hne ⊢
  by_cases e : f = face
  · rw [if_pos e]
    exact ⟨by simp, by rw [push_get!, if_pos rfl]⟩
  · rw [if_neg e] at hne ⊢
    exact h'.f f hf hne

def CEv (sy : Array Nat) (spl : List TopoSplit) (f2s : Array Nat) (ls : Int) : Prop :=
  ls + 1 = (sy.size : Int) ∧ (sy.size < 2 ^ 32 → EvI sy spl f2s)

def EVin (s : InSt) : Prop := CEv s.2.2.2.2.1 s.2.2.2.2.2.2.1.toList s.2.2.2.2.2.2.2.1 s.2.2.2.2.2.2.2.2.1
def EVst (s : StSt) : Prop := CEv s.2.2.2.2.1 s.2.2.2.2.2.2.1.toList s.2.2.2.2.2.2.2.1 s.2.2.2.2.2.2.2.2.1
def EVo (s : OSt) : Prop :=
  CEv s.2.2.2.2.1 s.2.2.2.2.2.2.2.2.2.1.toList s.2.2.2.2.2.2.2.2.2.2.1 s.2.2.2.2.2.2.2.2.2.2.2.1

theorem foldl_push_toList (nw : List TopoSplit) : ∀ (a : Array TopoSplit),
    (nw.foldl (fun a e => a.push e) a).toList = a.toList ++ nw := by
  induction nw with
  | nil => intro a; simp
  | cons e r ih => intro a; rw [List.foldl_cons, ih]; simp

open Draco.EbEnc.ConnSplitFree in
theorem innerTail_ev {t : CT} {holeId : Array Nat} {valence : Bool} {vf' vh : Array Bool} {P' : Array Nat}
    {splits : Array TopoSplit} {f2s : Array Nat} {lsid : Int} {nss : Nat} {stack : Array Nat}
    {nv face lastCorner vertId : Nat} {onB : Bool} {vv1 : Array Bool} {val : ValEnc} {sy : Array Nat}
    {c : Nat} {r : ForInStep InSt} (hl : lsid = (sy.size : Int)) (h : sy.size < 2 ^ 32 → EvI sy splits.toList f2s)
    (hb : innerTail t holeId valence vf' vh P' splits f2s lsid nss stack nv face lastCorner vertId onB () vv1 val sy c
      = .ok r) : EVin (stepVal r) := by
  have hsym : sy.size < 2 ^ 32 → toUnsigned 32 lsid = sy.size := fun hb32 => by rw [hl]; exact tu32 _ hb32
  -- the leaves: a symbol `x` with the new events `nw`
  have leaf : ∀ (x : Nat) (nw : List TopoSplit),
      (sy.size < 2 ^ 32 → ∀ ev, ev ∈ nw → ev.source = sy.size ∧ ev.edge ≤ 1 ∧
        ∃ fc, fc < f2s.size ∧ f2s[fc]! = ev.split ∧ ev.split ≠ inv) → (nw ≠ [] → ERL x) → nw.Pairwise EvLt →
      CEv (sy.push x) (nw.foldl (fun a e => a.push e) splits).toList f2s lsid := by
    intro x nw e2 e3 e4
    have e1 : (nw.foldl (fun a e => a.push e) splits).toList = splits.toList ++ nw := foldl_push_toList nw splits
    refine ⟨by rw [hl]; simp, fun hb32 => ?_⟩
    have hb0 : sy.size < 2 ^ 32 := by simp at hb32; omega
    rw [e1]
    exact (h hb0).step x nw (e2 hb0) e3 e4
  have evOf : ∀ {site : String} {fc s edge : Nat}, rd site f2s fc = .ok s → s ≠ inv → edge ≤ 1 →
      sy.size < 2 ^ 32 → (⟨toUnsigned 32 lsid, s, edge⟩ : TopoSplit).source = sy.size ∧
        (⟨toUnsigned 32 lsid, s, edge⟩ : TopoSplit).edge ≤ 1 ∧
        ∃ fc', fc' < f2s.size ∧ f2s[fc']! = (⟨toUnsigned 32 lsid, s, edge⟩ : TopoSplit).split ∧
          (⟨toUnsigned 32 lsid, s, edge⟩ : TopoSplit).split ≠ inv := by
    intro site fc s edge hrd hne he hb32
    obtain ⟨hi, e⟩ := Eb.rd_ok hrd
    exact ⟨hsym hb32, he, fc, hi, by rw [getElem!_pos f2s fc hi]; exact e, hne⟩
  unfold innerTail at hb
  obtain ⟨rc, _, hb⟩ := (bind_ok_iff _ _ _).mp hb
  obtain ⟨lc, _, hb⟩ := (bind_ok_iff _ _ _).mp hb
  obtain ⟨rv, hb, _, _⟩ := visited_absorb hb
  obtain ⟨lv, hb, _, _⟩ := visited_absorb hb
  rcases ite_ok hb with ⟨_, hb⟩ | ⟨_, hb⟩
  · splits3 hb s1 hs1 hne1 =>
        (have e1 : s1 ≠ inv := by simpa using hne1
         rcases ite_ok hb with ⟨_, hb⟩ | ⟨_, hb⟩
         · splits3 hb s2 hs2 hne2 =>
               (have e2 : s2 ≠ inv := by simpa using hne2
                obtain ⟨val1, hb⟩ := ite_bind_absorb hb
                rw [pure_ok hb]
                exact leaf topoE [⟨toUnsigned 32 lsid, s1, 1⟩, ⟨toUnsigned 32 lsid, s2, 0⟩]
                  (fun hb32 ev hev => by
                    simp only [List.mem_cons, List.mem_singleton, List.not_mem_nil, or_false] at hev
                    rcases hev with rfl | rfl
                    · exact evOf hs1 e1 (by omega) hb32
                    · exact evOf hs2 e2 (by omega) hb32)
                  (fun _ => Or.inl rfl)
                  (List.pairwise_pair.mpr (Or.inr ⟨rfl, rfl, rfl⟩)))
             | (obtain ⟨val1, hb⟩ := ite_bind_absorb hb
                rw [pure_ok hb]
                exact leaf topoE [⟨toUnsigned 32 lsid, s1, 1⟩]
                  (fun hb32 ev hev => by
                    simp only [List.mem_singleton] at hev
                    subst hev
                    exact evOf hs1 e1 (by omega) hb32)
                  (fun _ => Or.inl rfl) (List.pairwise_singleton _ _))
         · obtain ⟨val1, hb⟩ := ite_bind_absorb hb
           rw [pure_ok hb]
           exact leaf topoR [⟨toUnsigned 32 lsid, s1, 1⟩]
             (fun hb32 ev hev => by
               simp only [List.mem_singleton] at hev
               subst hev
               exact evOf hs1 e1 (by omega) hb32)
             (fun _ => Or.inr (Or.inl rfl)) (List.pairwise_singleton _ _))
      | (rcases ite_ok hb with ⟨_, hb⟩ | ⟨_, hb⟩
         · splits3 hb s2 hs2 hne2 =>
               (have e2 : s2 ≠ inv := by simpa using hne2
                obtain ⟨val1, hb⟩ := ite_bind_absorb hb
                rw [pure_ok hb]
                exact leaf topoE [⟨toUnsigned 32 lsid, s2, 0⟩]
                  (fun hb32 ev hev => by
                    simp only [List.mem_singleton] at hev
                    subst hev
                    exact evOf hs2 e2 (by omega) hb32)
                  (fun _ => Or.inl rfl) (List.pairwise_singleton _ _))
             | (obtain ⟨val1, hb⟩ := ite_bind_absorb hb
                rw [pure_ok hb]
                exact leaf topoE [] (fun _ ev hev => (List.not_mem_nil hev).elim) (fun hne => absurd rfl hne) List.Pairwise.nil)
         · obtain ⟨val1, hb⟩ := ite_bind_absorb hb
           rw [pure_ok hb]
           exact leaf topoR [] (fun _ ev hev => (List.not_mem_nil hev).elim) (fun hne => absurd rfl hne) List.Pairwise.nil)
  · rcases ite_ok hb with ⟨_, hb⟩ | ⟨_, hb⟩
    · splits3 hb s2 hs2 hne2 =>
          (have e2 : s2 ≠ inv := by simpa using hne2
           obtain ⟨val1, hb⟩ := ite_bind_absorb hb
           rw [pure_ok hb]
           exact leaf topoL [⟨toUnsigned 32 lsid, s2, 0⟩]
             (fun hb32 ev hev => by
               simp only [List.mem_singleton] at hev
               subst hev
               exact evOf hs2 e2 (by omega) hb32)
             (fun _ => Or.inr (Or.inr rfl)) (List.pairwise_singleton _ _))
        | (obtain ⟨val1, hb⟩ := ite_bind_absorb hb
           rw [pure_ok hb]
           exact leaf topoL [] (fun _ ev hev => (List.not_mem_nil hev).elim) (fun hne => absurd rfl hne) List.Pairwise.nil)
    · -- S
      have finS : ∀ {f2s' : Array Nat} {site : String}, wr site f2s face (toUnsigned 32 lsid) = .ok f2s' →
          CEv (sy.push topoS) splits.toList f2s' lsid := by
        intro f2s' site hw
        refine ⟨by rw [hl]; simp, fun hb32 => ?_⟩
        have hb0 : sy.size < 2 ^ 32 := by simp at hb32; omega
        rw [hsym hb0] at hw
        exact (h hb0).stepS hw
      obtain ⟨val1, hb⟩ := ite_bind_absorb hb
      rcases ite_ok hb with ⟨_, hb⟩ | ⟨_, hb⟩
      · obtain ⟨hole, _, hb⟩ := (bind_ok_iff _ _ _).mp hb
        obtain ⟨hv, _, hb⟩ := (bind_ok_iff _ _ _).mp hb
        rcases ite_ok hb with ⟨_, hb⟩ | ⟨_, hb⟩
        · obtain ⟨x, _, hb⟩ := (bind_ok_iff _ _ _).mp hb
          obtain ⟨f2s', hw, hb⟩ := (bind_ok_iff _ _ _).mp hb
          rw [pure_ok hb]; exact finS hw
        · obtain ⟨f2s', hw, hb⟩ := (bind_ok_iff _ _ _).mp hb
          rw [pure_ok hb]; exact finS hw
      · obtain ⟨f2s', hw, hb⟩ := (bind_ok_iff _ _ _).mp hb
        rw [pure_ok hb]; exact finS hw


theorem innerBody_ev {t : CT} {holeId : Array Nat} {valence : Bool} {NF : Nat} (x : Nat) (s : InSt) (r : ForInStep InSt)
    (h : EVin s) (hb : innerBody t holeId valence NF x s = .ok r) : EVin (stepVal r) := by
  obtain ⟨vf, vv, vh, val, sy, P, sp, f2s, ls, nss, st, c, nv⟩ := s
  obtain ⟨h1, h2⟩ := h
  dsimp only at h1 h2
  unfold innerBody at hb
  rcases ite_ok hb with ⟨_, hb⟩ | ⟨_, hb⟩
  · rw [pure_ok hb]; exact ⟨h1, h2⟩
  obtain ⟨vf', _, hb⟩ := (bind_ok_iff _ _ _).mp hb
  obtain ⟨vertId, _, hb⟩ := (bind_ok_iff _ _ _).mp hb
  obtain ⟨hid, _, hb⟩ := (bind_ok_iff _ _ _).mp hb
  obtain ⟨vis, _, hb⟩ := (bind_ok_iff _ _ _).mp hb
  rcases ite_ok hb with ⟨_, hb⟩ | ⟨_, hb⟩
  · obtain ⟨vv', _, hb⟩ := (bind_ok_iff _ _ _).mp hb
    rcases ite_ok hb with ⟨_, hb⟩ | ⟨_, hb⟩
    · obtain ⟨val1, hb⟩ := ite_bind_absorb hb
      obtain ⟨o, _, hb⟩ := (bind_ok_iff _ _ _).mp hb
      rw [pure_ok hb]
      refine ⟨by show ls + 1 + 1 = ((sy.push topoC).size : Int); simp; omega, fun hb32 => ?_⟩
      have hb32' : (sy.push topoC).size < 2 ^ 32 := hb32
      have hb0 : sy.size < 2 ^ 32 := by simp at hb32'; omega
      have := (h2 hb0).step topoC [] (fun ev hev => (List.not_mem_nil hev).elim) (fun hne => absurd rfl hne) List.Pairwise.nil
      rw [List.append_nil] at this
      exact this
    · exact innerTail_ev h1 h2 hb
  · exact innerTail_ev h1 h2 hb

theorem stackBody_ev {t : CT} {holeId : Array Nat} {valence : Bool} {NF : Nat} (x : Nat) (s : StSt) (r : ForInStep StSt)
    (h : EVst s) (hb : stackBody t holeId valence NF x s = .ok r) : EVst (stepVal r) := by
  obtain ⟨vf, vv, vh, val, sy, P, sp, f2s, ls, nss, st, fin⟩ := s
  unfold stackBody at hb
  rcases ite_ok hb with ⟨_, hb⟩ | ⟨_, hb⟩
  · rw [pure_ok hb]; exact h
  rcases ite_ok hb with ⟨_, hb⟩ | ⟨_, hb⟩
  · rw [pure_ok hb]; exact h
  obtain ⟨b, _, hb⟩ := (bind_ok_iff _ _ _).mp hb
  rcases ite_ok hb with ⟨_, hb⟩ | ⟨_, hb⟩
  · rw [pure_ok hb]; exact h
  obtain ⟨s2, hloop, hb⟩ := (bind_ok_iff _ _ _).mp hb
  have h' : CEv sy sp.toList f2s ls := h
  have h2 : EVin s2 := range_forIn_inv NF (innerBody t holeId valence NF) EVin
    (fun a s r hI hr => innerBody_ev a s r hI hr)
    (vf, vv, vh, val, sy, P, sp, f2s, ls, nss, st, st.back!, 0) s2 h' hloop
  obtain ⟨vf2, vv2, vh2, val2, sy2, P2, sp2, f2s2, ls2, nss2, st2, c2, nv2⟩ := s2
  rw [pure_ok hb]; exact h2

theorem outerTail_ev {t : CT} {holeId : Array Nat} {valence : Bool} {nfa : Nat} {val : ValEnc} {sy : Array Nat}
    {sf : RAnsBitEnc} {sfs : Array Bool} {P : Array Nat} {sp : Array TopoSplit} {f2s : Array Nat} {ls : Int} {nss : Nat}
    {vf vv vh : Array Bool} {I : Array Nat} {from_ : Nat} {r : ForInStep OSt} (h : CEv sy sp.toList f2s ls)
    (hb : outerTail t holeId valence nfa val sy sf sfs P sp f2s ls nss () vf vv vh I from_ = .ok r) :
    EVo (stepVal r) := by
  unfold outerTail at hb
  rcases ite_ok hb with ⟨_, hb⟩ | ⟨_, hb⟩
  · rw [pure_ok hb]; exact h
  obtain ⟨s2, hloop, hb⟩ := (bind_ok_iff _ _ _).mp hb
  have h2 : EVst s2 := range_forIn_inv _ (stackBody t holeId valence nfa) EVst
    (fun a s r hI hr => stackBody_ev a s r hI hr)
    (vf, vv, vh, val, sy, P, sp, f2s, ls, nss, #[from_], false) s2 h hloop
  obtain ⟨vf2, vv2, vh2, val2, sy2, P2, sp2, f2s2, ls2, nss2, st2, fin2⟩ := s2
  rcases ite_ok hb with ⟨_, hb⟩ | ⟨_, hb⟩
  · exact (throw_bind_ne hb).elim
  · rw [pure_ok hb]; exact h2

theorem outerBody_ev {t : CT} {holeId : Array Nat} {valence : Bool} {nfa : Nat}
    (cId : Nat) (s : OSt) (r : ForInStep OSt) (hI : EVo s)
    (hb : outerBody t holeId valence nfa cId s = .ok r) : EVo (stepVal r) := by
  obtain ⟨vf, vv, vh, val, sy, sf, sfs, P, ifc, sp, f2s, ls, nss⟩ := s
  have hI' : CEv sy sp.toList f2s ls := hI
  unfold outerBody at hb
  obtain ⟨b, hb1, hb⟩ := (bind_ok_iff _ _ _).mp hb
  rcases ite_ok hb with ⟨_, hb⟩ | ⟨hnv, hb⟩
  · rw [pure_ok hb]; exact hI
  obtain ⟨d, hd, hb⟩ := (bind_ok_iff _ _ _).mp hb
  rcases ite_ok hb with ⟨_, hb⟩ | ⟨hnd, hb⟩
  · rw [pure_ok hb]; exact hI
  obtain ⟨x, hx, hb⟩ := (bind_ok_iff _ _ _).mp hb
  obtain ⟨interior, sc⟩ := x
  simp only [] at hb
  rcases ite_ok hb with ⟨hint, hb⟩ | ⟨hnint, hb⟩
  · obtain ⟨v0, hv0, hb⟩ := (bind_ok_iff _ _ _).mp hb
    obtain ⟨v1, hv1, hb⟩ := (bind_ok_iff _ _ _).mp hb
    obtain ⟨v2, hv2, hb⟩ := (bind_ok_iff _ _ _).mp hb
    obtain ⟨vv1, hvv1, hb⟩ := (bind_ok_iff _ _ _).mp hb
    obtain ⟨vv2, hvv2, hb⟩ := (bind_ok_iff _ _ _).mp hb
    obtain ⟨vv3, hvv3, hb⟩ := (bind_ok_iff _ _ _).mp hb
    obtain ⟨vf', hvf', hb⟩ := (bind_ok_iff _ _ _).mp hb
    obtain ⟨oppId, hopp, hb⟩ := (bind_ok_iff _ _ _).mp hb
    obtain ⟨b2, _, hb⟩ := (bind_ok_iff _ _ _).mp hb
    rcases ite_ok hb with ⟨_, hb⟩ | ⟨_, hb⟩
    · exact outerTail_ev hI' hb
    · exact outerTail_ev hI' hb
  · obtain ⟨x2, hx2, hb⟩ := (bind_ok_iff _ _ _).mp hb
    obtain ⟨vv', vh'⟩ := x2
    simp only [] at hb
    exact outerTail_ev hI' hb

/-- **`EvOK` of a run, except that the split ids are pairwise different**: the events in the decoder's list order are
    `conn.splits.toList.reverse` -/
theorem evok_of_run (ch : ConnChoices) (pf : Faces) (conn : ConnEnc)
    (h : encodeConnectivity ch false pf #[] = .ok conn)
    (hnodup : (conn.splits.toList.reverse.map (·.split)).Nodup) :
    EvOK conn.symbols.toList.reverse conn.splits.toList.reverse := by
  obtain ⟨_, _, _, _, vE⟩ := topo_vals
  have hrun := h
  rw [encodeConnectivity_eq] at hrun
  split at hrun
  · rename_i table hcreate
    have hT := tblOK_ofTable hcreate
    simp only [] at hrun
    rcases ite_ok hrun with ⟨_, hrun⟩ | ⟨_, hrun⟩
    · exact (throw_bind_ne hrun).elim
    obtain ⟨x, hx, hrun⟩ := (bind_ok_iff _ _ _).mp hrun
    obtain ⟨atts, _, hrun⟩ := (bind_ok_iff _ _ _).mp hrun
    obtain ⟨val, hrun⟩ := ite_bind_both hrun
    obtain ⟨s, hloop, hrun⟩ := (bind_ok_iff _ _ _).mp hrun
    have hE : EVo s := range_forIn_inv _ (outerBody (CT.ofTable table) x.1 false (CT.ofTable table).numFaces) EVo
      (fun a s r hI hr => outerBody_ev a s r hI hr) _ s
      ⟨by simp, fun _ => ⟨fun f hf hne => by
        exfalso; apply hne
        show (Array.replicate (CT.ofTable table).numFaces inv)[f]! = inv
        have : f < (CT.ofTable table).numFaces := by simpa using hf
        simp [this], fun ev hev => by simp at hev, by simp, by simp⟩⟩ hloop
    obtain ⟨vf, vv, vh, val2, sy, sf, sfs, P, ifc, sp, f2s, ls, nss⟩ := s
    obtain ⟨sb, _, hrun⟩ := (bind_ok_iff _ _ _).mp hrun
    have hconn : conn.symbols = sy ∧ conn.splits = sp := by
      rcases ite_ok hrun with ⟨_, hrun⟩ | ⟨_, hrun⟩
      · obtain ⟨cb, _, hrun⟩ := (bind_ok_iff _ _ _).mp hrun
        have := pure_ok hrun
        rw [this]
        exact ⟨rfl, rfl⟩
      · have := pure_ok hrun
        rw [this]
        exact ⟨rfl, rfl⟩
    -- the number of symbols fits in 32 bits
    have hsz32 : conn.symbols.size < 2 ^ 32 := by
      have h1 := (ConnSplitFreeI.symbols_of_run ch pf conn h).1
      have h2 := Coverage.encodeConnectivity_size ch false pf #[] conn h
      obtain ⟨table', _, hcreate', hct, _⟩ := encodeConnectivity_visited ch false pf #[] conn h
      have hk := (tblOK_ofTable hcreate').ctok
      rw [← hct] at hk
      have h3 := hk.three
      have h4 := hk.fits
      rw [inv_eq] at h4
      omega
    obtain ⟨e1, e2⟩ := hconn
    rw [e1] at hsz32
    have hEv : EvI sy sp.toList f2s := hE.2 hsz32
    rw [e2] at hnodup
    rw [e1, e2]
    have hlen : sy.toList.reverse.length = sy.size := by simp
    have hget : ∀ k, k < sy.size → sy.toList.reverse[sy.size - 1 - k]! = sy[k]! := by
      intro k hk
      rw [list_reverse_get! _ _ (by simp; omega), toList_get!]
      congr 1
      simp; omega
    refine ⟨?_, hnodup, ?_⟩
    · intro ev hev
      rw [List.mem_reverse] at hev
      obtain ⟨a, b, c, d, e⟩ := hEv.d ev hev
      rw [hlen, hget _ (by omega), hget _ a]
      obtain ⟨_, vS, vL, vR, _⟩ := topo_vals
      refine ⟨a, b, c, by rw [d, vS], ?_⟩
      rcases e with e | e | e
      · exact Or.inl (by rw [e, vE])
      · exact Or.inr (Or.inl (by rw [e, vR]))
      · exact Or.inr (Or.inr (by rw [e, vL]))
    · rw [List.map_reverse, List.pairwise_reverse]
      exact hEv.e.imp (fun h => h)
  · simp only [throw, throwThe, MonadExceptOf.throw] at hrun
    cases hrun


/-! ## the split events: geometry -/

/-- the corner of the neighbour an event is about -/
def evSide (t : CT) (P : Array Nat) (ev : TopoSplit) : Nat :=
  t.opp[if ev.edge = 1 then Eb.nextC P[ev.source]! else Eb.prevC P[ev.source]!]!

/-- an entry `s` of `face_to_split_symbol_map_[f]` is the index of the corner processed in face `f`; the neighbour an
    event is about lies in the face of its split symbol -/
structure EvG (t : CT) (P : Array Nat) (spl : List TopoSplit) (f2s : Array Nat) : Prop where
  f : ∀ f, f < f2s.size → f2s[f]! ≠ inv → f2s[f]! < P.size ∧ P[f2s[f]!]! / 3 = f
  d : ∀ ev, ev ∈ spl → ev.source < P.size ∧ ev.split < P.size ∧ evSide t P ev ≠ inv ∧
    evSide t P ev / 3 = P[ev.split]! / 3

theorem EvG.push {t : CT} {P : Array Nat} {spl : List TopoSplit} {f2s : Array Nat} (h : EvG t P spl f2s) (c : Nat) :
    EvG t (P.push c) spl f2s := by
  have old : ∀ k, k < P.size → (P.push c)[k]! = P[k]! := by
    intro k hk; rw [push_get!, if_neg (by omega)]
  refine ⟨?_, ?_⟩
  · intro f hf hne
    obtain ⟨a, b⟩ := h.f f hf hne
    exact ⟨by simp; omega, by rw [old _ a]; exact b⟩
  · intro ev hev
    obtain ⟨a, b, c1, d⟩ := h.d ev hev
    have e : evSide t (P.push c) ev = evSide t P ev := by unfold evSide; rw [old _ a]
    exact ⟨by simp; omega, by simp; omega, by rw [e]; exact c1, by rw [e, old _ b]; exact d⟩

/-- new events at the corner `P[i]` -/
theorem EvG.events {t : CT} {P : Array Nat} {spl : List TopoSplit} {f2s : Array Nat} (h : EvG t P spl f2s)
    (nw : List TopoSplit)
    (hnw : ∀ ev, ev ∈ nw → ev.source < P.size ∧ evSide t P ev ≠ inv ∧
      ∃ fc, fc < f2s.size ∧ f2s[fc]! = ev.split ∧ ev.split ≠ inv ∧ evSide t P ev / 3 = fc) :
    EvG t P (spl ++ nw) f2s := by
  refine ⟨h.f, ?_⟩
  intro ev hev
  rcases List.mem_append.mp hev with hev | hev
  · exact h.d ev hev
  · obtain ⟨a, b, fc, c1, c2, c3, c4⟩ := hnw ev hev
    obtain ⟨d1, d2⟩ := h.f fc c1 (by rw [c2]; exact c3)
    rw [c2] at d1 d2
    exact ⟨a, d1, b, by rw [c4, d2]⟩

def CEvG (t : CT) (sy P : Array Nat) (spl : List TopoSplit) (f2s : Array Nat) (ls : Int) : Prop :=
  ls + 1 = (sy.size : Int) ∧ sy.size = P.size ∧ (sy.size < 2 ^ 32 → EvG t P spl f2s)

def GVin (t : CT) (s : InSt) : Prop :=
  CEvG t s.2.2.2.2.1 s.2.2.2.2.2.1 s.2.2.2.2.2.2.1.toList s.2.2.2.2.2.2.2.1 s.2.2.2.2.2.2.2.2.1
def GVst (t : CT) (s : StSt) : Prop :=
  CEvG t s.2.2.2.2.1 s.2.2.2.2.2.1 s.2.2.2.2.2.2.1.toList s.2.2.2.2.2.2.2.1 s.2.2.2.2.2.2.2.2.1
def GVo (t : CT) (s : OSt) : Prop :=
  CEvG t s.2.2.2.2.1 s.2.2.2.2.2.2.2.1 s.2.2.2.2.2.2.2.2.2.1.toList s.2.2.2.2.2.2.2.2.2.2.1 s.2.2.2.2.2.2.2.2.2.2.2.1

/-- `splits3` with the name of the guard -/
macro "splits4 " h:ident g:ident sv:ident hsv:ident hne:ident " => " tp:tacticSeq " | " ts:tacticSeq : tactic => `(tactic| (
  rcases ite_ok $h with ⟨$g, $h⟩ | ⟨_, $h⟩
  · obtain ⟨$sv, $hsv, $h⟩ := (bind_ok_iff _ _ _).mp $h
    rcases ite_ok $h with ⟨$hne, $h⟩ | ⟨_, $h⟩
    · $tp
    · $ts
  · $ts))

theorem innerTail_evg {t : CT} {holeId : Array Nat} {valence : Bool} {vf' vh : Array Bool} {P : Array Nat}
    {splits : Array TopoSplit} {f2s : Array Nat} {lsid : Int} {nss : Nat} {stack : Array Nat}
    {nv face lastCorner vertId : Nat} {onB : Bool} {vv1 : Array Bool} {val : ValEnc} {sy : Array Nat}
    {c : Nat} {r : ForInStep InSt} (hl : lsid = (sy.size : Int)) (hsz : sy.size = P.size)
    (hface : c ≠ inv → face = c / 3)
    (h : sy.size < 2 ^ 32 → EvG t P splits.toList f2s)
    (hb : innerTail t holeId valence vf' vh (P.push c) splits f2s lsid nss stack nv face lastCorner vertId onB () vv1 val sy c
      = .ok r) : GVin t (stepVal r) := by
  have hsym : sy.size < 2 ^ 32 → toUnsigned 32 lsid = P.size := fun hb32 => by rw [hl, ← hsz]; exact tu32 _ hb32
  have hPc : (P.push c)[P.size]! = c := by rw [push_get!, if_pos rfl]
  have leaf : ∀ (x : Nat) (nw : List TopoSplit),
      (sy.size < 2 ^ 32 → ∀ ev, ev ∈ nw → ev.source < (P.push c).size ∧ evSide t (P.push c) ev ≠ inv ∧
        ∃ fc, fc < f2s.size ∧ f2s[fc]! = ev.split ∧ ev.split ≠ inv ∧ evSide t (P.push c) ev / 3 = fc) →
      CEvG t (sy.push x) (P.push c) (nw.foldl (fun a e => a.push e) splits).toList f2s lsid := by
    intro x nw e2
    refine ⟨by rw [hl]; simp, by simp [hsz], fun hb32 => ?_⟩
    have hb32' : (sy.push x).size < 2 ^ 32 := hb32
    have hb0 : sy.size < 2 ^ 32 := by simp at hb32'; omega
    rw [foldl_push_toList]
    exact ((h hb0).push c).events nw (e2 hb0)
  unfold innerTail at hb
  obtain ⟨rc, hR, hb⟩ := (bind_ok_iff _ _ _).mp hb
  obtain ⟨lc, hL, hb⟩ := (bind_ok_iff _ _ _).mp hb
  -- the neighbour corners
  have hrc : rc ≠ inv → t.opp[Eb.nextC c]! = rc := by
    intro hne
    have hnc : Eb.nextC c ≠ inv := by
      intro e
      unfold opposite at hR
      rw [e] at hR
      simp at hR
      exact hne (pure_ok hR)
    rw [← vget_eq]; exact (opposite_get hnc hR).2
  have hlc : lc ≠ inv → t.opp[Eb.prevC c]! = lc := by
    intro hne
    have hnc : Eb.prevC c ≠ inv := by
      intro e
      unfold opposite at hL
      rw [e] at hL
      simp at hL
      exact hne (pure_ok hL)
    rw [← vget_eq]; exact (opposite_get hnc hL).2
  have fne : ∀ {y : Nat}, (faceOf y != inv) = true → y ≠ inv := by
    intro y hy e
    rw [e] at hy
    simp [faceOf] at hy
  -- the event on the right / left edge
  have evR : ∀ {site : String} {s : Nat}, (faceOf rc != inv) = true → rd site f2s (faceOf rc) = .ok s → s ≠ inv →
      sy.size < 2 ^ 32 → (⟨toUnsigned 32 lsid, s, 1⟩ : TopoSplit).source < (P.push c).size ∧
        evSide t (P.push c) ⟨toUnsigned 32 lsid, s, 1⟩ ≠ inv ∧
        ∃ fc, fc < f2s.size ∧ f2s[fc]! = s ∧ s ≠ inv ∧ evSide t (P.push c) ⟨toUnsigned 32 lsid, s, 1⟩ / 3 = fc := by
    intro site s hg hrd hne hb32
    have hri := fne hg
    obtain ⟨hi, e⟩ := Eb.rd_ok hrd
    have es : evSide t (P.push c) ⟨toUnsigned 32 lsid, s, 1⟩ = rc := by
      unfold evSide
      simp only [if_true]
      rw [hsym hb32, hPc, hrc hri]
    rw [es]
    refine ⟨by show toUnsigned 32 lsid < _; rw [hsym hb32]; simp, hri, faceOf rc, hi,
      by rw [getElem!_pos f2s _ hi]; exact e, hne, (faceOf_ne hri).symm⟩
  have evL : ∀ {site : String} {s : Nat}, (faceOf lc != inv) = true → rd site f2s (faceOf lc) = .ok s → s ≠ inv →
      sy.size < 2 ^ 32 → (⟨toUnsigned 32 lsid, s, 0⟩ : TopoSplit).source < (P.push c).size ∧
        evSide t (P.push c) ⟨toUnsigned 32 lsid, s, 0⟩ ≠ inv ∧
        ∃ fc, fc < f2s.size ∧ f2s[fc]! = s ∧ s ≠ inv ∧ evSide t (P.push c) ⟨toUnsigned 32 lsid, s, 0⟩ / 3 = fc := by
    intro site s hg hrd hne hb32
    have hli := fne hg
    obtain ⟨hi, e⟩ := Eb.rd_ok hrd
    have es : evSide t (P.push c) ⟨toUnsigned 32 lsid, s, 0⟩ = lc := by
      unfold evSide
      simp only [show ¬ ((0 : Nat) = 1) by omega, if_false]
      rw [hsym hb32, hPc, hlc hli]
    rw [es]
    refine ⟨by show toUnsigned 32 lsid < _; rw [hsym hb32]; simp, hli, faceOf lc, hi,
      by rw [getElem!_pos f2s _ hi]; exact e, hne, (faceOf_ne hli).symm⟩
  obtain ⟨rv, hb, hrv1, hrv2⟩ := visited_absorb hb
  obtain ⟨lv, hb, _, _⟩ := visited_absorb hb
  rcases ite_ok hb with ⟨_, hb⟩ | ⟨hrvf, hb⟩
  · splits4 hb g1 s1 hs1 hne1 =>
        (have e1 : s1 ≠ inv := by simpa using hne1
         rcases ite_ok hb with ⟨_, hb⟩ | ⟨_, hb⟩
         · splits4 hb g2 s2 hs2 hne2 =>
               (have e2 : s2 ≠ inv := by simpa using hne2
                obtain ⟨val1, hb⟩ := ite_bind_absorb hb
                rw [pure_ok hb]
                exact leaf topoE [⟨toUnsigned 32 lsid, s1, 1⟩, ⟨toUnsigned 32 lsid, s2, 0⟩]
                  (fun hb32 ev hev => by
                    simp only [List.mem_cons, List.mem_singleton, List.not_mem_nil, or_false] at hev
                    rcases hev with rfl | rfl
                    · exact evR g1 hs1 e1 hb32
                    · exact evL g2 hs2 e2 hb32))
             | (obtain ⟨val1, hb⟩ := ite_bind_absorb hb
                rw [pure_ok hb]
                exact leaf topoE [⟨toUnsigned 32 lsid, s1, 1⟩]
                  (fun hb32 ev hev => by
                    simp only [List.mem_singleton] at hev
                    subst hev
                    exact evR g1 hs1 e1 hb32))
         · obtain ⟨val1, hb⟩ := ite_bind_absorb hb
           rw [pure_ok hb]
           exact leaf topoR [⟨toUnsigned 32 lsid, s1, 1⟩]
             (fun hb32 ev hev => by
               simp only [List.mem_singleton] at hev
               subst hev
               exact evR g1 hs1 e1 hb32))
      | (rcases ite_ok hb with ⟨_, hb⟩ | ⟨_, hb⟩
         · splits4 hb g2 s2 hs2 hne2 =>
               (have e2 : s2 ≠ inv := by simpa using hne2
                obtain ⟨val1, hb⟩ := ite_bind_absorb hb
                rw [pure_ok hb]
                exact leaf topoE [⟨toUnsigned 32 lsid, s2, 0⟩]
                  (fun hb32 ev hev => by
                    simp only [List.mem_singleton] at hev
                    subst hev
                    exact evL g2 hs2 e2 hb32))
             | (obtain ⟨val1, hb⟩ := ite_bind_absorb hb
                rw [pure_ok hb]
                exact leaf topoE [] (fun _ ev hev => (List.not_mem_nil hev).elim))
         · obtain ⟨val1, hb⟩ := ite_bind_absorb hb
           rw [pure_ok hb]
           exact leaf topoR [] (fun _ ev hev => (List.not_mem_nil hev).elim))
  · rcases ite_ok hb with ⟨_, hb⟩ | ⟨_, hb⟩
    · splits4 hb g2 s2 hs2 hne2 =>
          (have e2 : s2 ≠ inv := by simpa using hne2
           obtain ⟨val1, hb⟩ := ite_bind_absorb hb
           rw [pure_ok hb]
           exact leaf topoL [⟨toUnsigned 32 lsid, s2, 0⟩]
             (fun hb32 ev hev => by
               simp only [List.mem_singleton] at hev
               subst hev
               exact evL g2 hs2 e2 hb32))
        | (obtain ⟨val1, hb⟩ := ite_bind_absorb hb
           rw [pure_ok hb]
           exact leaf topoL [] (fun _ ev hev => (List.not_mem_nil hev).elim))
    · -- S
      have hrf : rv = false := by simpa using hrvf
      have hrci : rc ≠ inv := by
        have hrne : (rc != inv) = true := by
          apply Classical.byContradiction
          intro hn
          have := hrv2 hn
          rw [hrf] at this; cases this
        simpa using hrne
      have hci : c ≠ inv := by
        intro e
        have := hrc hrci
        unfold opposite at hR
        rw [e] at hR
        simp [Eb.nextC] at hR
        exact hrci (pure_ok hR)
      have finS : ∀ {f2s' : Array Nat} {site : String}, wr site f2s face (toUnsigned 32 lsid) = .ok f2s' →
          CEvG t (sy.push topoS) (P.push c) splits.toList f2s' lsid := by
        intro f2s' site hw
        refine ⟨by rw [hl]; simp, by simp [hsz], fun hb32 => ?_⟩
        have hb32' : (sy.push topoS).size < 2 ^ 32 := hb32
        have hb0 : sy.size < 2 ^ 32 := by simp at hb32'; omega
        rw [hsym hb0] at hw
        obtain ⟨_, w2, w3⟩ := AttViews.wr_ok hw
        have h' := (h hb0).push c
        refine ⟨?_, h'.d⟩
        intro f hf hne
        rw [w2] at hf
        rw [w3] at hne ⊢
        by_cases e : f = face
        · rw [if_pos e, hPc, e, hface hci]
          exact ⟨by simp, rfl⟩
        · rw [if_neg e] at hne ⊢
          exact h'.f f hf hne
      obtain ⟨val1, hb⟩ := ite_bind_absorb hb
      rcases ite_ok hb with ⟨_, hb⟩ | ⟨_, hb⟩
      · obtain ⟨hole, _, hb⟩ := (bind_ok_iff _ _ _).mp hb
        obtain ⟨hv, _, hb⟩ := (bind_ok_iff _ _ _).mp hb
        rcases ite_ok hb with ⟨_, hb⟩ | ⟨_, hb⟩
        · obtain ⟨x, _, hb⟩ := (bind_ok_iff _ _ _).mp hb
          obtain ⟨f2s', hw, hb⟩ := (bind_ok_iff _ _ _).mp hb
          rw [pure_ok hb]; exact finS hw
        · obtain ⟨f2s', hw, hb⟩ := (bind_ok_iff _ _ _).mp hb
          rw [pure_ok hb]; exact finS hw
      · obtain ⟨f2s', hw, hb⟩ := (bind_ok_iff _ _ _).mp hb
        rw [pure_ok hb]; exact finS hw


theorem innerBody_evg {t : CT} {holeId : Array Nat} {valence : Bool} {NF : Nat} (x : Nat) (s : InSt) (r : ForInStep InSt)
    (h : GVin t s) (hb : innerBody t holeId valence NF x s = .ok r) : GVin t (stepVal r) := by
  obtain ⟨vf, vv, vh, val, sy, P, sp, f2s, ls, nss, st, c, nv⟩ := s
  obtain ⟨h1, hsz, h2⟩ := h
  dsimp only at h1 hsz h2
  unfold innerBody at hb
  rcases ite_ok hb with ⟨_, hb⟩ | ⟨_, hb⟩
  · rw [pure_ok hb]; exact ⟨h1, hsz, h2⟩
  obtain ⟨vf', _, hb⟩ := (bind_ok_iff _ _ _).mp hb
  obtain ⟨vertId, _, hb⟩ := (bind_ok_iff _ _ _).mp hb
  obtain ⟨hid, _, hb⟩ := (bind_ok_iff _ _ _).mp hb
  obtain ⟨vis, _, hb⟩ := (bind_ok_iff _ _ _).mp hb
  rcases ite_ok hb with ⟨_, hb⟩ | ⟨_, hb⟩
  · obtain ⟨vv', _, hb⟩ := (bind_ok_iff _ _ _).mp hb
    rcases ite_ok hb with ⟨_, hb⟩ | ⟨_, hb⟩
    · obtain ⟨val1, hb⟩ := ite_bind_absorb hb
      obtain ⟨o, _, hb⟩ := (bind_ok_iff _ _ _).mp hb
      rw [pure_ok hb]
      refine ⟨by show ls + 1 + 1 = ((sy.push topoC).size : Int); simp; omega,
        by show (sy.push topoC).size = (P.push c).size; simp [hsz], fun hb32 => ?_⟩
      have hb32' : (sy.push topoC).size < 2 ^ 32 := hb32
      have hb0 : sy.size < 2 ^ 32 := by simp at hb32'; omega
      exact (h2 hb0).push c
    · exact innerTail_evg h1 hsz (fun hc => faceOf_ne hc) h2 hb
  · exact innerTail_evg h1 hsz (fun hc => faceOf_ne hc) h2 hb

theorem stackBody_evg {t : CT} {holeId : Array Nat} {valence : Bool} {NF : Nat} (x : Nat) (s : StSt) (r : ForInStep StSt)
    (h : GVst t s) (hb : stackBody t holeId valence NF x s = .ok r) : GVst t (stepVal r) := by
  obtain ⟨vf, vv, vh, val, sy, P, sp, f2s, ls, nss, st, fin⟩ := s
  unfold stackBody at hb
  rcases ite_ok hb with ⟨_, hb⟩ | ⟨_, hb⟩
  · rw [pure_ok hb]; exact h
  rcases ite_ok hb with ⟨_, hb⟩ | ⟨_, hb⟩
  · rw [pure_ok hb]; exact h
  obtain ⟨b, _, hb⟩ := (bind_ok_iff _ _ _).mp hb
  rcases ite_ok hb with ⟨_, hb⟩ | ⟨_, hb⟩
  · rw [pure_ok hb]; exact h
  obtain ⟨s2, hloop, hb⟩ := (bind_ok_iff _ _ _).mp hb
  have h' : CEvG t sy P sp.toList f2s ls := h
  have h2 : GVin t s2 := range_forIn_inv NF (innerBody t holeId valence NF) (GVin t)
    (fun a s r hI hr => innerBody_evg a s r hI hr)
    (vf, vv, vh, val, sy, P, sp, f2s, ls, nss, st, st.back!, 0) s2 h' hloop
  obtain ⟨vf2, vv2, vh2, val2, sy2, P2, sp2, f2s2, ls2, nss2, st2, c2, nv2⟩ := s2
  rw [pure_ok hb]; exact h2

theorem outerTail_evg {t : CT} {holeId : Array Nat} {valence : Bool} {nfa : Nat} {val : ValEnc} {sy : Array Nat}
    {sf : RAnsBitEnc} {sfs : Array Bool} {P : Array Nat} {sp : Array TopoSplit} {f2s : Array Nat} {ls : Int} {nss : Nat}
    {vf vv vh : Array Bool} {I : Array Nat} {from_ : Nat} {r : ForInStep OSt} (h : CEvG t sy P sp.toList f2s ls)
    (hb : outerTail t holeId valence nfa val sy sf sfs P sp f2s ls nss () vf vv vh I from_ = .ok r) :
    GVo t (stepVal r) := by
  unfold outerTail at hb
  rcases ite_ok hb with ⟨_, hb⟩ | ⟨_, hb⟩
  · rw [pure_ok hb]; exact h
  obtain ⟨s2, hloop, hb⟩ := (bind_ok_iff _ _ _).mp hb
  have h2 : GVst t s2 := range_forIn_inv _ (stackBody t holeId valence nfa) (GVst t)
    (fun a s r hI hr => stackBody_evg a s r hI hr)
    (vf, vv, vh, val, sy, P, sp, f2s, ls, nss, #[from_], false) s2 h hloop
  obtain ⟨vf2, vv2, vh2, val2, sy2, P2, sp2, f2s2, ls2, nss2, st2, fin2⟩ := s2
  rcases ite_ok hb with ⟨_, hb⟩ | ⟨_, hb⟩
  · exact (throw_bind_ne hb).elim
  · rw [pure_ok hb]; exact h2

theorem outerBody_evg {t : CT} {holeId : Array Nat} {valence : Bool} {nfa : Nat}
    (cId : Nat) (s : OSt) (r : ForInStep OSt) (hI : GVo t s)
    (hb : outerBody t holeId valence nfa cId s = .ok r) : GVo t (stepVal r) := by
  obtain ⟨vf, vv, vh, val, sy, sf, sfs, P, ifc, sp, f2s, ls, nss⟩ := s
  have hI' : CEvG t sy P sp.toList f2s ls := hI
  unfold outerBody at hb
  obtain ⟨b, hb1, hb⟩ := (bind_ok_iff _ _ _).mp hb
  rcases ite_ok hb with ⟨_, hb⟩ | ⟨hnv, hb⟩
  · rw [pure_ok hb]; exact hI
  obtain ⟨d, hd, hb⟩ := (bind_ok_iff _ _ _).mp hb
  rcases ite_ok hb with ⟨_, hb⟩ | ⟨hnd, hb⟩
  · rw [pure_ok hb]; exact hI
  obtain ⟨x, hx, hb⟩ := (bind_ok_iff _ _ _).mp hb
  obtain ⟨interior, sc⟩ := x
  simp only [] at hb
  rcases ite_ok hb with ⟨hint, hb⟩ | ⟨hnint, hb⟩
  · obtain ⟨v0, hv0, hb⟩ := (bind_ok_iff _ _ _).mp hb
    obtain ⟨v1, hv1, hb⟩ := (bind_ok_iff _ _ _).mp hb
    obtain ⟨v2, hv2, hb⟩ := (bind_ok_iff _ _ _).mp hb
    obtain ⟨vv1, hvv1, hb⟩ := (bind_ok_iff _ _ _).mp hb
    obtain ⟨vv2, hvv2, hb⟩ := (bind_ok_iff _ _ _).mp hb
    obtain ⟨vv3, hvv3, hb⟩ := (bind_ok_iff _ _ _).mp hb
    obtain ⟨vf', hvf', hb⟩ := (bind_ok_iff _ _ _).mp hb
    obtain ⟨oppId, hopp, hb⟩ := (bind_ok_iff _ _ _).mp hb
    obtain ⟨b2, _, hb⟩ := (bind_ok_iff _ _ _).mp hb
    rcases ite_ok hb with ⟨_, hb⟩ | ⟨_, hb⟩
    · exact outerTail_evg hI' hb
    · exact outerTail_evg hI' hb
  · obtain ⟨x2, hx2, hb⟩ := (bind_ok_iff _ _ _).mp hb
    obtain ⟨vv', vh'⟩ := x2
    simp only [] at hb
    exact outerTail_evg hI' hb


/-! ## the split events: the neighbour is the LEFT neighbour of the `S` face; the split ids are pairwise different -/

/-- the corner at the source of an event -/
def evCorner (P : Array Nat) (ev : TopoSplit) : Nat :=
  if ev.edge = 1 then Eb.nextC P[ev.source]! else Eb.prevC P[ev.source]!

section evfinal
variable {t : CT} (hT : TblOK t) {holeId : Array Nat} {vf vv : Array Bool} {P sy I : Array Nat}
  {spl : List TopoSplit} {f2s : Array Nat}
include hT

/-- the faces of `processed` and of the init faces are pairwise different -/
theorem face_inj (hInv : Inv t vf vv P I) :
    (∀ i i', i < P.size → i' < P.size → P[i]! / 3 = P[i']! / 3 → i = i') ∧
    (∀ i k, i < P.size → k < I.size → P[i]! / 3 ≠ I[k]! / 3) := by
  have hnodup : ((P.toList ++ I.toList).map (· / 3)).Nodup := by
    rw [List.nodup_iff_count_le_one]
    intro f
    rw [List.count_eq_countP, List.countP_map]
    have := hInv.cnt f
    have e : List.countP ((fun x => x == f) ∘ fun x => x / 3) (P.toList ++ I.toList) =
        List.countP (fun c => c / 3 == f) (P.toList ++ I.toList) := by
      apply List.countP_congr; intro c _; simp [Function.comp]
    rw [e, this]
    split <;> omega
  have hLlen : ((P.toList ++ I.toList).map (· / 3)).length = P.size + I.size := by simp
  have g1 : ∀ i, (hi : i < P.size) → ((P.toList ++ I.toList).map (· / 3))[i]'(by rw [hLlen]; omega) = P[i]! / 3 := by
    intro i hi
    rw [List.getElem_map, List.getElem_append_left (by simpa using hi), Array.getElem_toList, getElem!_pos P i hi]
  have g2 : ∀ k, (hk : k < I.size) →
      ((P.toList ++ I.toList).map (· / 3))[P.size + k]'(by rw [hLlen]; omega) = I[k]! / 3 := by
    intro k hk
    rw [List.getElem_map, List.getElem_append_right (by simp), Array.getElem_toList, getElem!_pos I k hk]
    simp
  constructor
  · intro i i' hi hi' e
    have l1 : i < ((P.toList ++ I.toList).map (· / 3)).length := by rw [hLlen]; omega
    have l2 : i' < ((P.toList ++ I.toList).map (· / 3)).length := by rw [hLlen]; omega
    exact (hnodup.getElem_inj_iff (hi := l1) (hj := l2)).mp (by rw [g1 i hi, g1 i' hi', e])
  · intro i k hi hk e
    have l1 : i < ((P.toList ++ I.toList).map (· / 3)).length := by rw [hLlen]; omega
    have l2 : P.size + k < ((P.toList ++ I.toList).map (· / 3)).length := by rw [hLlen]; omega
    have := (hnodup.getElem_inj_iff (hi := l1) (hj := l2)).mp (by rw [g1 i hi, g2 k hk, e])
    omega

/-- **an event is about the LEFT edge of its `S` face**: the corner at the source is the left neighbour of the gate corner
    of the split symbol -/
theorem ev_left (hInv : Inv t vf vv P I) (hTr : TrInv t holeId I vf P sy inv) (hSN : SN t sy P (fun _ => False))
    (hEv : EvI sy spl f2s) (hG : EvG t P spl f2s) (ev : TopoSplit) (hev : ev ∈ spl) :
    t.opp[Eb.prevC P[ev.split]!]! = evCorner P ev ∧ evCorner P ev / 3 = P[ev.source]! / 3 ∧
      P[ev.source]! < t.numCorners := by
  have hk := hT.ctok
  have hb := hT.base
  obtain ⟨fi1, fi2⟩ := face_inj hT hInv
  have hsz := hTr.sz
  obtain ⟨d1, d2, d3, d4, d5⟩ := hEv.d ev hev
  obtain ⟨_, _, g3, g4⟩ := hG.d ev hev
  have hq : ev.source < P.size := by omega
  have hs : ev.split < P.size := by omega
  obtain ⟨hcq, _⟩ := inv_entry hk hInv _ hq
  obtain ⟨hcs, _⟩ := inv_entry hk hInv _ hs
  have hcqi := hT.lt_inv hcq
  have hcsi := hT.lt_inv hcs
  -- the corner at the source
  have hx : evCorner P ev < t.numCorners ∧ evCorner P ev / 3 = P[ev.source]! / 3 ∧ evCorner P ev ≠ P[ev.source]! := by
    unfold evCorner
    by_cases e : ev.edge = 1
    · rw [if_pos e]
      refine ⟨hk.next_lt hcq, nextC_div3 _ hcqi, ?_⟩
      rw [nextC_cf _ hcqi]; split <;> omega
    · rw [if_neg e]
      refine ⟨hk.prev_lt hcq, prevC_div3 _ hcqi, ?_⟩
      rw [prevC_cf _ hcqi]; split <;> omega
  obtain ⟨hxlt, hxf, hxne⟩ := hx
  have hy : evSide t P ev = t.opp[evCorner P ev]! := rfl
  rw [hy] at g3 g4
  obtain ⟨hylt, hyo⟩ := hb.invol _ hxlt g3
  refine ⟨?_, hxf, hcq⟩
  rcases same_face (hT.lt_inv hylt) hcsi g4 with e | e | e
  · -- the gate edge of the `S` face: its neighbour was processed before
    exfalso
    rw [e] at hyo
    have hg := (hTr.ent _ hs).g
    rw [hyo] at hg
    rcases hg with h | ⟨i', h1, h2, h3⟩ | ⟨k, h1, h2⟩
    · exact hb.ne_inv hxlt h
    · rw [hxf] at h3
      have := fi1 _ _ h2 hq h3
      omega
    · rw [hxf] at h2
      exact fi2 _ _ hq h1 h2.symm
  · -- the right edge: its neighbour is the gate corner processed next
    exfalso
    rw [e] at hyo
    rcases hSN _ hs d4 with ⟨e1, e2⟩ | ⟨_, e2⟩
    · rw [hyo] at e2
      have hf : P[ev.split + 1]! / 3 = P[ev.source]! / 3 := by rw [e2, hxf]
      have := fi1 _ _ e1 hq hf
      rw [this] at e2
      exact hxne e2.symm
    · exact e2
  · rw [e] at hyo
    exact hyo

/-- the split ids are pairwise different -/
theorem split_nodup (hInv : Inv t vf vv P I) (hTr : TrInv t holeId I vf P sy inv) (hSN : SN t sy P (fun _ => False))
    (hEv : EvI sy spl f2s) (hG : EvG t P spl f2s) : (spl.map (·.split)).Nodup := by
  obtain ⟨fi1, _⟩ := face_inj hT hInv
  have hsz := hTr.sz
  rw [List.Nodup, List.pairwise_map]
  refine hEv.o.imp_of_mem ?_
  intro a b ha hb hlt hs
  obtain ⟨a1, a2, a3⟩ := ev_left hT hInv hTr hSN hEv hG a ha
  obtain ⟨b1, b2, b3⟩ := ev_left hT hInv hTr hSN hEv hG b hb
  rw [hs, b1] at a1
  have hsrc : a.source = b.source :=
    fi1 _ _ (by have := (hEv.d a ha).1; omega) (by have := (hEv.d b hb).1; omega) (by rw [← a2, ← b2, a1])
  rcases hlt with h | ⟨_, h1, h2⟩
  · omega
  · unfold evCorner at a1
    rw [if_pos h1, if_neg (by omega), hsrc] at a1
    have hci := hT.lt_inv b3
    rw [nextC_cf _ hci, prevC_cf _ hci] at a1
    split at a1 <;> split at a1 <;> omega

end evfinal


/-! ## the run: `EvOK` and the event clause of `SAt` -/

/-- **the split events of a run**: `EvOK` for the events in the decoder's list order, and every event names the LEFT
    neighbour of its `S` face (decoder indices: `n - 1 - id`) -/
theorem events_of_run (ch : ConnChoices) (pf : Faces) (conn : ConnEnc)
    (h : encodeConnectivity ch false pf #[] = .ok conn) :
    EvOK conn.symbols.toList.reverse conn.splits.toList.reverse ∧
    ∀ ev, ev ∈ conn.splits.toList → ev.split < ev.source ∧ ev.source < conn.symbols.size ∧
      conn.ct.opp[Eb.prevC conn.processed[conn.symbols.size - 1 - ev.split]!]! =
        (if ev.edge = 1 then Eb.nextC conn.processed[conn.symbols.size - 1 - ev.source]!
         else Eb.prevC conn.processed[conn.symbols.size - 1 - ev.source]!) := by
  have hrun := h
  rw [encodeConnectivity_eq] at hrun
  split at hrun
  · rename_i table hcreate
    have hT := tblOK_ofTable hcreate
    have hcov := cover_ofTable hcreate
    simp only [] at hrun
    rcases ite_ok hrun with ⟨_, hrun⟩ | ⟨_, hrun⟩
    · exact (throw_bind_ne hrun).elim
    obtain ⟨x, hx, hrun⟩ := (bind_ok_iff _ _ _).mp hrun
    have hH : HolesOK (CT.ofTable table) x.1 := findHoles_spec hT (nh := x.2) hx
    obtain ⟨atts, _, hrun⟩ := (bind_ok_iff _ _ _).mp hrun
    obtain ⟨val, hrun⟩ := ite_bind_both hrun
    obtain ⟨s, hloop, hrun⟩ := (bind_ok_iff _ _ _).mp hrun
    have hI : (Coverage.OInv (CT.ofTable table) s ∧
        TrInv (CT.ofTable table) x.1 s.2.2.2.2.2.2.2.2.1 s.1 s.2.2.2.2.2.2.2.1 s.2.2.2.2.1 inv ∧
        SNo (CT.ofTable table) s ∧ GVo (CT.ofTable table) s) ∨ False := by
      refine range_loop _ _
        (fun _ s => Coverage.OInv (CT.ofTable table) s ∧
          TrInv (CT.ofTable table) x.1 s.2.2.2.2.2.2.2.2.1 s.1 s.2.2.2.2.2.2.2.1 s.2.2.2.2.1 inv ∧
          SNo (CT.ofTable table) s ∧ GVo (CT.ofTable table) s)
        (fun _ => False) ?_ _ s ?_ hloop
      · intro j s r hj ⟨hO, hTr, hS, hG⟩ hr
        left
        obtain ⟨s', e, hO', _, _⟩ := outerBody_cov hT hH j s r hj hO hr
        obtain ⟨s'', e', hTr'⟩ := outerBody_tr hT hH hcov j s r hj hO hTr hr
        obtain ⟨s4, e4, hS'⟩ := outerBody_sn j s r hS hr
        have hG' := outerBody_evg j s r hG hr
        rw [e] at e' e4 hG'; cases e'; cases e4
        exact ⟨s', e, hO', hTr', hS', hG'⟩
      · refine ⟨⟨inv_init (CT.ofTable table) _ _ rfl, closed_init _ _⟩, trInv_init _ _ _, ⟨rfl, ?_⟩, by simp, rfl, ?_⟩
        · intro i hi; simp at hi
        · intro _
          refine ⟨fun f hf hne => ?_, fun ev hev => by simp at hev⟩
          exfalso; apply hne
          show (Array.replicate (CT.ofTable table).numFaces inv)[f]! = inv
          have : f < (CT.ofTable table).numFaces := by simpa using hf
          simp [this]
    obtain ⟨hO, hTr, hS, hG⟩ := hI.resolve_right (fun h => h)
    have hE : EVo s := range_forIn_inv _ (outerBody (CT.ofTable table) x.1 false (CT.ofTable table).numFaces) EVo
      (fun a s r hI hr => outerBody_ev a s r hI hr) _ s
      ⟨by simp, fun _ => ⟨fun f hf hne => by
        exfalso; apply hne
        show (Array.replicate (CT.ofTable table).numFaces inv)[f]! = inv
        have : f < (CT.ofTable table).numFaces := by simpa using hf
        simp [this], fun ev hev => by simp at hev, by simp, by simp⟩⟩ hloop
    obtain ⟨vf, vv, vh, val2, sy, sf, sfs, P, ifc, sp, f2s, ls, nss⟩ := s
    dsimp only at hTr
    obtain ⟨sb, _, hrun⟩ := (bind_ok_iff _ _ _).mp hrun
    have hconn : conn.ct = CT.ofTable table ∧ conn.processed = P.reverse ++ ifc ∧ conn.symbols = sy ∧
        conn.splits = sp := by
      rcases ite_ok hrun with ⟨_, hrun⟩ | ⟨_, hrun⟩
      · obtain ⟨cb, _, hrun⟩ := (bind_ok_iff _ _ _).mp hrun
        have := pure_ok hrun
        rw [this]
        exact ⟨rfl, rfl, rfl, rfl⟩
      · have := pure_ok hrun
        rw [this]
        exact ⟨rfl, rfl, rfl, rfl⟩
    have hsz32 : conn.symbols.size < 2 ^ 32 := by
      have h1 := (ConnSplitFreeI.symbols_of_run ch pf conn h).1
      have h2 := Coverage.encodeConnectivity_size ch false pf #[] conn h
      obtain ⟨table', _, hcreate', hct, _⟩ := encodeConnectivity_visited ch false pf #[] conn h
      have hk := (tblOK_ofTable hcreate').ctok
      rw [← hct] at hk
      have h3 := hk.three
      have h4 := hk.fits
      rw [inv_eq] at h4
      omega
    obtain ⟨e1, e2, e3, e4⟩ := hconn
    rw [e3] at hsz32
    have hInv : Inv (CT.ofTable table) vf vv P ifc := hO.1
    have hEv : EvI sy sp.toList f2s := hE.2 hsz32
    have hGv : EvG (CT.ofTable table) P sp.toList f2s := hG.2.2 hsz32
    have hSN : SN (CT.ofTable table) sy P (fun _ => False) := hS.2
    have hnd := split_nodup hT hInv hTr hSN hEv hGv
    constructor
    · apply evok_of_run ch pf conn h
      rw [e4, List.map_reverse, List.nodup_reverse]
      exact hnd
    · intro ev hev
      rw [e4] at hev
      obtain ⟨d1, d2, _⟩ := hEv.d ev hev
      obtain ⟨a1, _, _⟩ := ev_left hT hInv hTr hSN hEv hGv ev hev
      have hsz := hTr.sz
      rw [e1, e2, e3]
      refine ⟨d2, d1, ?_⟩
      rw [app_left P ifc _ (by omega), app_left P ifc _ (by omega),
        show P.size - 1 - (sy.size - 1 - ev.split) = ev.split by omega,
        show P.size - 1 - (sy.size - 1 - ev.source) = ev.source by omega, a1]
      rfl
  · simp only [throw, throwThe, MonadExceptOf.throw] at hrun
    cases hrun

/-- the event clause of `SAt` in the form of DracoProofs/EbTraceS.lean -/
theorem event_clause_of_run (ch : ConnChoices) (pf : Faces) (conn : ConnEnc)
    (h : encodeConnectivity ch false pf #[] = .ok conn) (j : Nat)
    (hev : hasEv conn.symbols.toList.reverse.length conn.splits.toList.reverse j = true) :
    conn.symbols.toList.reverse.length - 1 -
        (evOf conn.symbols.toList.reverse.length conn.splits.toList.reverse j).source < j ∧
    conn.ct.opp[Eb.prevC conn.processed[j]!]! =
      (if (evOf conn.symbols.toList.reverse.length conn.splits.toList.reverse j).edge = 1 then
        Eb.nextC conn.processed[conn.symbols.toList.reverse.length - 1 -
          (evOf conn.symbols.toList.reverse.length conn.splits.toList.reverse j).source]!
       else Eb.prevC conn.processed[conn.symbols.toList.reverse.length - 1 -
          (evOf conn.symbols.toList.reverse.length conn.splits.toList.reverse j).source]!) := by
  obtain ⟨_, hg⟩ := events_of_run ch pf conn h
  have hlen : conn.symbols.toList.reverse.length = conn.symbols.size := by simp
  rw [hlen] at hev ⊢
  unfold hasEv at hev
  unfold evOf
  cases hf : conn.splits.toList.reverse.find? (evHits conn.symbols.size j) with
  | none =>
    rw [List.find?_eq_none] at hf
    rw [List.any_eq_true] at hev
    obtain ⟨ev, h1, h2⟩ := hev
    exact absurd h2 (hf ev h1)
  | some ev =>
    have hmem := List.mem_of_find?_eq_some hf
    have hp := List.find?_some hf
    rw [List.mem_reverse] at hmem
    obtain ⟨g1, g2, g3⟩ := hg ev hmem
    unfold evHits at hp
    simp only [Bool.and_eq_true, decide_eq_true_eq] at hp
    obtain ⟨p1, p2⟩ := hp
    simp only [Option.getD_some]
    rw [← p2]
    exact ⟨by omega, g3⟩


/-- **`TraceS` of a run**, events = `conn.splits` in the decoder's list order; PROVED: `size`, `distinct`, `evok`, the faces
    of the symbols `E R L C`, and for `S` the gate facts, the right-neighbour clause and the EVENT clause of `SAt`.
    NAMED hypotheses (what is not derived yet): `hflags` (the flags of `starts` are the recorded start faces), for every
    `S` the clause `¬ FanEarlier` and the NO-EVENT left-neighbour clause (`hleft`), `hcomps`, `hinit`. -/
theorem traceS_of_run_partial2 (ch : ConnChoices) (pf : Faces) (conn : ConnEnc)
    (h : encodeConnectivity ch false pf #[] = .ok conn) (starts : List (Bool × Nat))
    (hflags : starts.map (·.1) = conn.startFaces.toList)
    (hleft : ∀ j, j < conn.symbols.toList.reverse.length → conn.symbols.toList.reverse[j]! = 1 →
      ¬ FanEarlier conn.ct conn.processed j conn.processed[j]! ∧
      (hasEv conn.symbols.toList.reverse.length conn.splits.toList.reverse j = false →
        1 < (stk conn.symbols.toList.reverse conn.splits.toList.reverse j).length ∧
        conn.ct.opp[Eb.prevC conn.processed[j]!]! =
          conn.processed[(stk conn.symbols.toList.reverse conn.splits.toList.reverse j)[1]!]!))
    (hcomps : starts.map (·.2) =
      stk conn.symbols.toList.reverse conn.splits.toList.reverse conn.symbols.toList.reverse.length)
    (hinit : ∀ k, k < starts.length → starts[k]!.1 = true →
      InitAt conn.ct conn.processed conn.symbols.toList.reverse.length
        (initIndex conn.symbols.toList.reverse starts k) starts[k]!.2) :
    TblOK conn.ct ∧
      TraceS conn.ct conn.processed conn.symbols.toList.reverse conn.splits.toList.reverse starts :=
  traceS_of_run_partial ch pf conn h _ starts hflags (events_of_run ch pf conn h).1
    (fun j hj hs => ⟨(hleft j hj hs).1, (hleft j hj hs).2, fun hev => event_clause_of_run ch pf conn h j hev⟩)
    hcomps hinit

end Draco.EbEnc.EncTraceS
