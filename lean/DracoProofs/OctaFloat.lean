import DracoModel.Octahedron
import Mathlib.Tactic.Linarith
import Mathlib.Tactic.Positivity
import Mathlib.Tactic.FieldSimp
import Mathlib.Tactic.Ring
import Mathlib.Algebra.Order.Floor.Ring
import Mathlib.Data.Rat.Floor
/-
  The float part of `OctahedronToolBox::FloatVectorToQuantizedOctahedralCoords` generically over the
  `double` operations it performs, and the proof that under the standard rounding model the first
  rounded coordinate never exceeds `center_value_` in magnitude — the float oracle hypothesis
  `octaRowOK` of the sequential round-trip theorems.
-/
namespace Draco

/-- the `double` operations of `FloatVectorToQuantizedOctahedralCoords` -/
class DoubleOps (D : Type) where
  abs : D → D
  add : D → D → D
  mul : D → D → D
  div : D → D → D
  ofInt : Int → D
  /-- `static_cast<int32_t>(floor(x))` -/
  floorToInt : D → Int
  lt : D → D → Bool
  zero : D
  one : D
  half : D

instance instDoubleOpsFloat : DoubleOps Float where
  abs := fun a => Float.abs a
  add := fun a b => a + b
  mul := fun a b => a * b
  div := fun a b => a / b
  ofInt := fun k => Float.ofInt k
  floorToInt := fun a => (Float.floor a).toInt32.toInt
  lt := fun a b => decide (a < b)
  zero := (0.0 : Float)
  one := (1.0 : Float)
  half := (0.5 : Float)

namespace Octa
open DoubleOps

/-- `Octa.floatVecRound` with the operations abstracted (`x y z` are the inputs converted to `double`) -/
def floatVecRoundG {D : Type} [DoubleOps D] (center : Int) (x y z : D) : Int × Int × Bool :=
  let absSum : D := add (add (abs x) (abs y)) (abs z)
  let sv : D × D × D :=
    if lt zero absSum then
      let scale : D := div one absSum
      (mul x scale, mul y scale, mul z scale)
    else (one, zero, zero)
  let c : D := ofInt center
  let i0 : Int := floorToInt (add (mul sv.1 c) half)
  let i1 : Int := floorToInt (add (mul sv.2.1 c) half)
  (i0, i1, lt sv.2.2 (ofInt 0))

/-- the executable model is the `Float` instance of the generic function -/
theorem floatVecRound_eq_generic (t : OctaT) (v : Float32 × Float32 × Float32) :
    floatVecRound t v = floatVecRoundG t.center v.1.toFloat v.2.1.toFloat v.2.2.toFloat := by
  unfold floatVecRound floatVecRoundG
  simp only [DoubleOps.abs, DoubleOps.add, DoubleOps.mul, DoubleOps.div, DoubleOps.ofInt,
    DoubleOps.floorToInt, DoubleOps.lt, DoubleOps.zero, DoubleOps.one, DoubleOps.half]
  by_cases h : v.1.toFloat.abs + v.2.1.toFloat.abs + v.2.2.toFloat.abs > 0.0
  · have h' : (0.0 : Float) < v.1.toFloat.abs + v.2.1.toFloat.abs + v.2.2.toFloat.abs := h
    simp only [h, if_true, decide_true]
    rfl
  · have h' : ¬ (0.0 : Float) < v.1.toFloat.abs + v.2.1.toFloat.abs + v.2.2.toFloat.abs := h
    simp only [h, if_false, decide_false, Bool.false_eq_true]
    rfl

/-- the standard rounding model for the `double` operations on exact (rational) values: `abs`,
    comparisons, the literals and the conversion of `center_value_` (an integer below 2^53) are exact,
    `+ * /` return the exact result times `1 + δ` with `|δ| ≤ u` (u = 2^-53 for binary64; no
    overflow / underflow), `floor` and the conversion to `int32_t` are exact -/
structure DoubleModel (ops : DoubleOps ℚ) (u : ℚ) : Prop where
  abs : ∀ a, ops.abs a = |a|
  add : ∀ a b, ∃ δ : ℚ, |δ| ≤ u ∧ ops.add a b = (a + b) * (1 + δ)
  mul : ∀ a b, ∃ δ : ℚ, |δ| ≤ u ∧ ops.mul a b = (a * b) * (1 + δ)
  div : ∀ a b, b ≠ 0 → ∃ δ : ℚ, |δ| ≤ u ∧ ops.div a b = (a / b) * (1 + δ)
  ofInt : ∀ k : Int, ops.ofInt k = (k : ℚ)
  floor : ∀ x, ops.floorToInt x = ⌊x⌋
  lt : ∀ a b, ops.lt a b = decide (a < b)
  zero : ops.zero = 0
  one : ops.one = 1
  half : ops.half = 1/2

/-- the rounded value of `s·c + 1/2` stays within `[-c, c]` when `|s| ≤ 1 + 8u` -/
theorem round_in_range (u : ℚ) (hu0 : 0 ≤ u) (hu : u ≤ 1 / 2 ^ 40) (c : Int) (hc1 : 1 ≤ c)
    (hc : c < 2 ^ 29) (s δ5 δ6 : ℚ) (hs : |s| ≤ 1 + 8 * u) (h5 : |δ5| ≤ u) (h6 : |δ6| ≤ u) :
    -c ≤ ⌊(s * (c : ℚ) * (1 + δ5) + 1 / 2) * (1 + δ6)⌋ ∧
      ⌊(s * (c : ℚ) * (1 + δ5) + 1 / 2) * (1 + δ6)⌋ ≤ c := by
  have hcq1 : (1 : ℚ) ≤ c := by exact_mod_cast hc1
  have hcq : (c : ℚ) < 2 ^ 29 := by exact_mod_cast hc
  obtain ⟨s1, s2⟩ := abs_le.mp hs
  obtain ⟨a1, a2⟩ := abs_le.mp h5
  obtain ⟨b1, b2⟩ := abs_le.mp h6
  have hu' : u ≤ 1 / 1099511627776 := by norm_num at hu; exact hu
  -- T = s·c·(1+δ5) lies within ±(1+10u)·c
  set T : ℚ := s * (c : ℚ) * (1 + δ5) with hT
  have hTabs : |T| ≤ (1 + 10 * u) * c := by
    rw [hT, abs_mul, abs_mul]
    have h1 : |s| * |(c : ℚ)| ≤ (1 + 8 * u) * c := by
      rw [abs_of_pos (by linarith : (0 : ℚ) < c)]
      exact mul_le_mul_of_nonneg_right hs (by linarith)
    have h2 : |1 + δ5| ≤ 1 + u := by rw [abs_le]; constructor <;> linarith
    have h3 : (1 + 8 * u) * (1 + u) ≤ 1 + 10 * u := by nlinarith
    calc |s| * |(c : ℚ)| * |1 + δ5| ≤ ((1 + 8 * u) * c) * (1 + u) :=
          mul_le_mul h1 h2 (abs_nonneg _) (by nlinarith)
      _ = ((1 + 8 * u) * (1 + u)) * c := by ring
      _ ≤ (1 + 10 * u) * c := mul_le_mul_of_nonneg_right h3 (by linarith)
  obtain ⟨t1, t2⟩ := abs_le.mp hTabs
  have hsmall : (u : ℚ) * c ≤ 1 / 2048 := by nlinarith
  constructor
  · -- lower bound
    rw [Int.le_floor]
    push_cast
    by_cases hneg : T + 1 / 2 < 0
    · have : (T + 1 / 2) * (1 + δ6) ≥ (T + 1 / 2) * (1 + u) := by nlinarith
      nlinarith
    · have : 0 ≤ (T + 1 / 2) * (1 + δ6) := mul_nonneg (by linarith) (by linarith)
      linarith
  · -- upper bound
    rw [← Int.lt_add_one_iff, Int.floor_lt]
    push_cast
    by_cases hneg : T + 1 / 2 < 0
    · have : (T + 1 / 2) * (1 + δ6) < 0 := mul_neg_of_neg_of_pos hneg (by linarith)
      linarith
    · have : (T + 1 / 2) * (1 + δ6) ≤ (T + 1 / 2) * (1 + u) := by nlinarith
      nlinarith

/-- **`octaRowOK` under the standard rounding model**: whatever the (finite) input vector is, the first
    rounded coordinate `floor(scaled[0]·center + 0.5)` computed with operations obeying `DoubleModel`
    (unit roundoff `u ≤ 2^-40`; binary64 has `2^-53`) has magnitude at most `center_value_`, for every
    `center_value_ < 2^29` (all quantizations 2..30 bits). -/
theorem octa_round_in_range (ops : DoubleOps ℚ) (u : ℚ) (hu0 : 0 ≤ u) (hu : u ≤ 1 / 2 ^ 40)
    (hm : DoubleModel ops u) (c : Int) (hc1 : 1 ≤ c) (hc : c < 2 ^ 29) (x y z : ℚ) :
    iabs (@floatVecRoundG ℚ ops c x y z).1 ≤ c := by
  have hu' : u ≤ 1 / 1099511627776 := by norm_num at hu; exact hu
  have key : ∀ s : ℚ, |s| ≤ 1 + 8 * u →
      iabs (ops.floorToInt (ops.add (ops.mul s (ops.ofInt c)) ops.half)) ≤ c := by
    intro s hs
    obtain ⟨δ5, h5, e5⟩ := hm.mul s (ops.ofInt c)
    obtain ⟨δ6, h6, e6⟩ := hm.add (ops.mul s (ops.ofInt c)) ops.half
    rw [hm.floor, e6, e5, hm.ofInt, hm.half]
    obtain ⟨r1, r2⟩ := round_in_range u hu0 hu c hc1 hc s δ5 δ6 hs h5 h6
    unfold iabs
    split <;> omega
  unfold floatVecRoundG
  simp only [hm.abs, hm.zero, hm.one, hm.lt]
  obtain ⟨δ1, h1, e1⟩ := hm.add |x| |y|
  obtain ⟨δ2, h2, e2⟩ := hm.add (ops.add |x| |y|) |z|
  by_cases hpos : (0 : ℚ) < ops.add (ops.add |x| |y|) |z|
  · simp only [hpos, decide_true, if_true]
    apply key
    set A := ops.add (ops.add |x| |y|) |z| with hA
    have hA0 : A ≠ 0 := ne_of_gt hpos
    obtain ⟨δ3, h3, e3⟩ := hm.div 1 A hA0
    obtain ⟨δ4, h4, e4⟩ := hm.mul x (ops.div 1 A)
    rw [e4, e3]
    obtain ⟨a1, a2⟩ := abs_le.mp h1
    obtain ⟨b1, b2⟩ := abs_le.mp h2
    obtain ⟨c1, c2⟩ := abs_le.mp h3
    obtain ⟨d1, d2⟩ := abs_le.mp h4
    -- A ≥ |x|·(1-u)²
    have hxa : 0 ≤ |x| := abs_nonneg x
    have hya : 0 ≤ |y| := abs_nonneg y
    have hza : 0 ≤ |z| := abs_nonneg z
    have hAlow : |x| * ((1 - u) * (1 - u)) ≤ A := by
      show |x| * ((1 - u) * (1 - u)) ≤ A
      rw [e2, e1]
      have q1 : (|x| + |y|) * (1 - u) ≤ (|x| + |y|) * (1 + δ1) :=
        mul_le_mul_of_nonneg_left (by linarith) (by linarith)
      have q2 : ((|x| + |y|) * (1 - u) + |z| * (1 - u)) * (1 - u) ≤
          ((|x| + |y|) * (1 + δ1) + |z|) * (1 + δ2) := by
        apply mul_le_mul _ (by linarith) (by linarith) _
        · nlinarith
        · nlinarith
      nlinarith
    -- |x / A| (1-u)² ≤ 1
    have hr : |x| / A * ((1 - u) * (1 - u)) ≤ 1 := by
      rw [div_mul_eq_mul_div, div_le_one hpos]; exact hAlow
    have hr0 : 0 ≤ |x| / A := div_nonneg hxa hpos.le
    have e : x * (1 / A * (1 + δ3)) * (1 + δ4) = (x / A) * ((1 + δ3) * (1 + δ4)) := by
      field_simp
    rw [e, abs_mul, abs_div, abs_of_pos hpos]
    have hf : |(1 + δ3) * (1 + δ4)| ≤ (1 + u) * (1 + u) := by
      rw [abs_mul]
      have g3 : |1 + δ3| ≤ 1 + u := by rw [abs_le]; constructor <;> linarith
      have g4 : |1 + δ4| ≤ 1 + u := by rw [abs_le]; constructor <;> linarith
      exact mul_le_mul g3 g4 (abs_nonneg _) (by linarith)
    have hpoly : (1 + u) * (1 + u) ≤ (1 + 8 * u) * ((1 - u) * (1 - u)) := by
      have q1 : 0 ≤ u * (1 - 4 * u) := mul_nonneg hu0 (by linarith)
      have q2 : 0 ≤ u * u * u := mul_nonneg (mul_nonneg hu0 hu0) hu0
      nlinarith
    calc |x| / A * |(1 + δ3) * (1 + δ4)| ≤ |x| / A * ((1 + u) * (1 + u)) :=
          mul_le_mul_of_nonneg_left hf hr0
      _ ≤ |x| / A * ((1 + 8 * u) * ((1 - u) * (1 - u))) := mul_le_mul_of_nonneg_left hpoly hr0
      _ = (|x| / A * ((1 - u) * (1 - u))) * (1 + 8 * u) := by ring
      _ ≤ 1 * (1 + 8 * u) := mul_le_mul_of_nonneg_right hr (by linarith)
      _ = 1 + 8 * u := by ring
  · simp only [hpos, decide_false, Bool.false_eq_true, if_false]
    apply key
    rw [abs_one]; linarith

end Octa
end Draco
