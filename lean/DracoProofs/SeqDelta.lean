import DracoProofs.SeqLemmas
import DracoProofs.Octahedron
/-
  Delta prediction: the decoder loop `deltaDecode` (PredictionSchemeDeltaDecoder) run on the
  corrections computed by `deltaEncode` (PredictionSchemeDeltaEncoder) reproduces the entries, for
  any transform whose decoder inverts its encoder on the domain of the data.
-/
namespace Draco
open SeqEnc

theorem deltaDecode_go_encode (enc dec : List Int → List Int → List Int) (nc : Nat) (hnc : 0 < nc)
    (Dom Pred : List Int → Prop)
    (hlen : ∀ e p, Dom e → Pred p → (enc e p).length = nc)
    (hinv : ∀ e p, Dom e → Pred p → dec p (enc e p) = e)
    (hstep : ∀ e, Dom e → Pred e) :
    ∀ (es : List (List Int)) (prev : List Int) (acc : List (List Int)) (fuel : Nat),
      (∀ e ∈ es, Dom e) → Pred prev → es.length < fuel →
      deltaDecode.go dec nc fuel prev (deltaEncode enc prev es).flatten acc = acc.reverse ++ es := by
  intro es
  induction es with
  | nil =>
    intro prev acc fuel _ _ hf
    cases fuel with
    | zero => simp at hf
    | succ f => simp [deltaEncode, deltaDecode.go]
  | cons e es ih =>
    intro prev acc fuel hd hp hf
    cases fuel with
    | zero => simp at hf
    | succ f =>
      have he := hd e (by simp)
      have hl := hlen e prev he hp
      have hne : (enc e prev ++ (deltaEncode enc e es).flatten).isEmpty = false := by
        cases h : enc e prev with
        | nil => rw [h] at hl; simp at hl; omega
        | cons _ _ => rfl
      simp only [deltaEncode, List.flatten_cons, deltaDecode.go, hne, Bool.false_eq_true, if_false]
      rw [List.take_left' hl, List.drop_left' hl, hinv e prev he hp,
        ih e (e :: acc) f (fun x hx => hd x (by simp [hx])) (hstep e he) (by simpa using hf)]
      simp

theorem deltaEncode_length (enc : List Int → List Int → List Int) (nc : Nat)
    (Dom Pred : List Int → Prop)
    (hlen : ∀ e p, Dom e → Pred p → (enc e p).length = nc)
    (hstep : ∀ e, Dom e → Pred e) :
    ∀ (es : List (List Int)) (prev : List Int), (∀ e ∈ es, Dom e) → Pred prev →
      (deltaEncode enc prev es).flatten.length = nc * es.length := by
  intro es
  induction es with
  | nil => intro prev _ _; simp [deltaEncode]
  | cons e es ih =>
    intro prev hd hp
    have he := hd e (by simp)
    simp only [deltaEncode, List.flatten_cons, List.length_append, hlen e prev he hp,
      ih e (fun x hx => hd x (by simp [hx])) (hstep e he), List.length_cons, Nat.mul_succ]
    omega

/-- **Predictive coding is invertible.**  For any correction transform (`enc` = ComputeCorrection,
    `dec` = ComputeOriginalValue) with `dec p (enc e p) = e` whenever the entry `e` lies in the
    data domain `Dom` and the prediction `p` in `Pred` — where the initial prediction (all zeros)
    and every entry are admissible predictions — the decoder loop over the corrections computed
    from the prefix predictions reproduces the array. -/
theorem predictive_coding_invertible (enc dec : List Int → List Int → List Int) (nc : Nat)
    (hnc : 0 < nc) (Dom Pred : List Int → Prop)
    (hlen : ∀ e p, Dom e → Pred p → (enc e p).length = nc)
    (hinv : ∀ e p, Dom e → Pred p → dec p (enc e p) = e)
    (hstep : ∀ e, Dom e → Pred e) (h0 : Pred (List.replicate nc 0))
    (es : List (List Int)) (hes : ∀ e ∈ es, Dom e) :
    deltaDecode dec nc (deltaEncode enc (List.replicate nc 0) es).flatten = es.flatten := by
  unfold deltaDecode
  rw [deltaDecode_go_encode enc dec nc hnc Dom Pred hlen hinv hstep es _ [] _ hes h0]
  · simp
  · rw [deltaEncode_length enc nc Dom Pred hlen hstep es _ hes h0]
    have : es.length ≤ nc * es.length := Nat.le_mul_of_pos_left _ hnc
    omega

/-- every correction satisfies `Q` when every single `enc e p` does -/
theorem deltaEncode_forall (enc : List Int → List Int → List Int) (Dom Pred : List Int → Prop)
    (Q : Int → Prop) (hq : ∀ e p, Dom e → Pred p → ∀ x ∈ enc e p, Q x)
    (hstep : ∀ e, Dom e → Pred e) :
    ∀ (es : List (List Int)) (prev : List Int), (∀ e ∈ es, Dom e) → Pred prev →
      ∀ x ∈ (deltaEncode enc prev es).flatten, Q x := by
  intro es
  induction es with
  | nil => intro prev _ _ x hx; simp [deltaEncode] at hx
  | cons e es ih =>
    intro prev hd hp x hx
    have he := hd e (by simp)
    simp only [deltaEncode, List.flatten_cons, List.mem_append] at hx
    rcases hx with hx | hx
    · exact hq e prev he hp x hx
    · exact ih e (fun y hy => hd y (by simp [hy])) (hstep e he) x hx

/-! ### the wrap transform -/

/-- `Wrap.dataBounds` returns bounds of the data -/
theorem dataBounds_spec : ∀ (l : List Int) (mn mx : Int), Wrap.dataBounds l = some (mn, mx) →
    mn ≤ mx ∧ (∀ x ∈ l, mn ≤ x ∧ x ≤ mx) ∧ mn ∈ l ∧ mx ∈ l := by
  intro l mn mx h
  cases l with
  | nil => simp [Wrap.dataBounds] at h
  | cons x xs =>
    simp only [Wrap.dataBounds, Option.some.injEq] at h
    have key : ∀ (ys : List Int) (a b : Int) (seen : List Int), a ≤ b → (∀ z ∈ seen, a ≤ z ∧ z ≤ b) →
        a ∈ seen → b ∈ seen →
        let r := ys.foldl (fun (p : Int × Int) v => if v < p.1 then (v, p.2) else if v > p.2 then (p.1, v) else (p.1, p.2)) (a, b)
        r.1 ≤ r.2 ∧ (∀ z ∈ seen ++ ys, r.1 ≤ z ∧ z ≤ r.2) ∧ r.1 ∈ seen ++ ys ∧ r.2 ∈ seen ++ ys := by
      intro ys
      induction ys with
      | nil => intro a b seen hab hs ha hb; simpa using ⟨hab, hs, ha, hb⟩
      | cons y ys ih =>
        intro a b seen hab hs ha hb
        simp only [List.foldl_cons]
        have hcons : seen ++ y :: ys = (seen ++ [y]) ++ ys := by simp
        rw [hcons]
        by_cases h1 : y < a
        · simp only [h1, if_true]
          refine ih y b (seen ++ [y]) (by omega) ?_ (by simp) (by simp [hb])
          intro z hz
          simp only [List.mem_append, List.mem_singleton] at hz
          rcases hz with hz | rfl
          · have := hs z hz; omega
          · omega
        · simp only [h1, if_false]
          by_cases h2 : y > b
          · simp only [h2, if_true]
            refine ih a y (seen ++ [y]) (by omega) ?_ (by simp [ha]) (by simp)
            intro z hz
            simp only [List.mem_append, List.mem_singleton] at hz
            rcases hz with hz | rfl
            · have := hs z hz; omega
            · omega
          · simp only [h2, if_false]
            refine ih a b (seen ++ [y]) hab ?_ (by simp [ha]) (by simp [hb])
            intro z hz
            simp only [List.mem_append, List.mem_singleton] at hz
            rcases hz with hz | rfl
            · exact hs z hz
            · omega
    have := key xs x x [x] (Int.le_refl _) (by simp) (by simp) (by simp)
    have e : (fun (x : Int × Int) (v : Int) => match x with
        | (mn, mx) => if v < mn then (v, mx) else if v > mx then (mn, v) else (mn, mx)) =
        (fun (p : Int × Int) v => if v < p.1 then (v, p.2) else if v > p.2 then (p.1, v) else (p.1, p.2)) := by
      funext p v; rfl
    rw [e] at h
    rw [h] at this
    simpa using this

end Draco
