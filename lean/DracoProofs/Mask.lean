import DracoModel.Cleanup
/-
  DracoProofs.Mask — mark arrays, running renumbering and compaction used by
  `MeshCleanup::RemoveUnusedAttributes` (`Cleanup.markAll`, `ranksFrom`, `keepMask`).
-/
namespace Draco
namespace Cleanup

theorem toArray_getD {α : Type} (l : List α) (i : Nat) (d : α) : l.toArray.getD i d = l.getD i d := by
  simp [Array.getD, List.getD_eq_getElem?_getD]
  split <;> simp_all

/-- number of marked items before position `i` -/
def rank : List Bool → Nat → Nat
  | [], _ => 0
  | _ :: _, 0 => 0
  | b :: m, i + 1 => (if b then 1 else 0) + rank m i

theorem rank_zero (m : List Bool) : rank m 0 = 0 := by cases m <;> rfl

/-! ### markAll -/

theorem markFold_size (ixs : List Nat) (u : Array Bool) :
    (ixs.foldl (fun u i => u.setIfInBounds i true) u).size = u.size := by
  induction ixs generalizing u with
  | nil => rfl
  | cons i is ih => simp [ih]

theorem markFold_get (ixs : List Nat) (u : Array Bool) (p : Nat) (hp : p < u.size) :
    (ixs.foldl (fun u i => u.setIfInBounds i true) u)[p]? = some true ↔ (u[p]? = some true ∨ p ∈ ixs) := by
  induction ixs generalizing u with
  | nil => simp
  | cons i is ih =>
    simp only [List.foldl_cons, List.mem_cons]
    rw [ih _ (by simpa using hp), Array.getElem?_setIfInBounds]
    by_cases hip : i = p
    · subst hip
      simp [hp]
    · have hpi : ¬ p = i := fun h => hip h.symm
      simp [hip, hpi]

theorem markAll_size (n : Nat) (ixs : List Nat) : (markAll n ixs).size = n := by
  simp [markAll, markFold_size]

theorem markAll_length (n : Nat) (ixs : List Nat) : (markAll n ixs).toList.length = n := by
  simp [markAll_size]

theorem markAll_get (n : Nat) (ixs : List Nat) (p : Nat) :
    (markAll n ixs).toList[p]? = some true ↔ (p < n ∧ p ∈ ixs) := by
  by_cases hp : p < n
  · have := markFold_get ixs (Array.replicate n false) p (by simpa using hp)
    simp only [Array.getElem?_toList]
    unfold markAll
    rw [this]
    simp [hp]
  · constructor
    · intro h
      have := (List.getElem?_eq_some_iff.1 h).1
      rw [markAll_length] at this
      exact absurd this hp
    · intro h
      exact absurd h.1 hp

theorem marks_length (n : Nat) (ixs : List Nat) : (marks n ixs).length = n := markAll_length n ixs

theorem marks_get (n : Nat) (ixs : List Nat) (p : Nat) :
    (marks n ixs)[p]? = some true ↔ (p < n ∧ p ∈ ixs) := markAll_get n ixs p

/-- an entry of the mark list is a Boolean: not `some true` and in range means `some false` -/
theorem mask_false_of {m : List Bool} {i : Nat} (hi : i < m.length) (h : m[i]? ≠ some true) :
    m[i]? = some false := by
  rw [List.getElem?_eq_getElem hi] at h ⊢
  cases hb : m[i] with
  | true => simp [hb] at h
  | false => rfl

/-! ### ranksFrom, keepMask -/

theorem ranksFrom_get (k : Nat) (m : List Bool) (i : Nat) (h : m[i]? = some true) :
    (ranksFrom k m)[i]? = some (some (k + rank m i)) := by
  induction m generalizing k i with
  | nil => simp at h
  | cons b m ih =>
    cases i with
    | zero =>
      simp at h
      subst h
      simp [ranksFrom, rank]
    | succ j =>
      simp at h
      cases b with
      | true =>
        simp only [ranksFrom, rank, List.getElem?_cons_succ, if_true]
        rw [ih (k + 1) j h]
        simp only [Option.some.injEq]
        omega
      | false =>
        simp only [ranksFrom, rank, List.getElem?_cons_succ]
        rw [ih k j h]
        simp

theorem ranksFrom_length (k : Nat) (m : List Bool) : (ranksFrom k m).length = m.length := by
  induction m generalizing k with
  | nil => rfl
  | cons b m ih => cases b <;> simp [ranksFrom, ih]

theorem keepMask_get {α : Type} (m : List Bool) (xs : List α) (i : Nat) (h : m[i]? = some true)
    (hi : i < xs.length) : (keepMask m xs)[rank m i]? = xs[i]? := by
  induction m generalizing xs i with
  | nil => simp at h
  | cons b m ih =>
    cases xs with
    | nil => simp at hi
    | cons x xs =>
      cases i with
      | zero =>
        simp at h
        subst h
        simp [keepMask, rank]
      | succ j =>
        simp at h hi
        cases b with
        | true =>
          simp only [keepMask, rank, if_true, List.getElem?_cons_succ]
          rw [Nat.add_comm, List.getElem?_cons_succ]
          exact ih xs j h hi
        | false =>
          simp only [keepMask, rank, List.getElem?_cons_succ]
          simpa using ih xs j h hi

theorem keepMask_length {α : Type} (m : List Bool) (xs : List α) (h : m.length ≤ xs.length) :
    (keepMask m xs).length = m.count true := by
  induction m generalizing xs with
  | nil => cases xs <;> simp [keepMask]
  | cons b m ih =>
    cases xs with
    | nil => simp at h
    | cons x xs =>
      simp at h
      cases b <;> simp [keepMask, ih xs h]

theorem rank_lt_count (m : List Bool) (i : Nat) (h : m[i]? = some true) : rank m i < m.count true := by
  induction m generalizing i with
  | nil => simp at h
  | cons b m ih =>
    cases i with
    | zero =>
      simp at h
      subst h
      simp [rank]
    | succ j =>
      simp at h
      have := ih j h
      cases b <;> simp [rank] <;> omega

theorem keepMask_mem {α : Type} (m : List Bool) (xs : List α) (x : α) (h : x ∈ keepMask m xs) :
    ∃ i : Nat, m[i]? = some true ∧ xs[i]? = some x := by
  induction m generalizing xs with
  | nil => cases xs <;> simp [keepMask] at h
  | cons b m ih =>
    cases xs with
    | nil => cases b <;> simp [keepMask] at h
    | cons y ys =>
      cases b with
      | true =>
        simp only [keepMask, List.mem_cons] at h
        rcases h with h | h
        · exact ⟨0, by simp, by simp [h]⟩
        · obtain ⟨i, h1, h2⟩ := ih ys h
          exact ⟨i + 1, by simpa using h1, by simpa using h2⟩
      | false =>
        simp only [keepMask] at h
        obtain ⟨i, h1, h2⟩ := ih ys h
        exact ⟨i + 1, by simpa using h1, by simpa using h2⟩

/-- rank only depends on the marks before the position -/
theorem rank_congr (m1 m2 : List Bool) (i : Nat) (h : ∀ j, j < i → m1[j]? = m2[j]?)
    (h1 : i ≤ m1.length) (h2 : i ≤ m2.length) : rank m1 i = rank m2 i := by
  induction i generalizing m1 m2 with
  | zero => simp [rank_zero]
  | succ j ih =>
    cases m1 with
    | nil => simp at h1
    | cons b1 t1 =>
      cases m2 with
      | nil => simp at h2
      | cons b2 t2 =>
        have hb : b1 = b2 := by simpa using h 0 (by omega)
        subst hb
        simp only [rank]
        rw [ih t1 t2 (fun k hk => by simpa using h (k + 1) (by omega)) (by simpa using h1) (by simpa using h2)]

/-- when everything before `i` is marked, the rank is the position -/
theorem rank_all_true (m : List Bool) (i : Nat) (h : ∀ j, j < i → m[j]? = some true) : rank m i = i := by
  induction i generalizing m with
  | zero => simp [rank_zero]
  | succ j ih =>
    cases m with
    | nil => simpa using h 0 (by omega)
    | cons b t =>
      have hb : b = true := by simpa using h 0 (by omega)
      subst hb
      simp only [rank, if_true]
      rw [ih t (fun k hk => by simpa using h (k + 1) (by omega))]
      omega

theorem count_eq_length_iff (m : List Bool) : m.count true = m.length ↔ ∀ j, j < m.length → m[j]? = some true := by
  induction m with
  | nil => simp
  | cons b t ih =>
    cases b with
    | true =>
      simp only [List.count_cons_self, List.length_cons, Nat.add_right_cancel_iff, ih]
      constructor
      · intro h j hj
        cases j with
        | zero => simp
        | succ k => simpa using h k (by omega)
      · intro h j hj
        simpa using h (j + 1) (by omega)
    | false =>
      have hle : t.count true ≤ t.length := List.count_le_length
      simp only [List.length_cons]
      constructor
      · intro h
        simp at h
        omega
      · intro h
        have := h 0 (by omega)
        simp at this

theorem count_le_length' (m : List Bool) : m.count true ≤ m.length := List.count_le_length

end Cleanup
end Draco
