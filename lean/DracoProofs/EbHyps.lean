import DracoProofs.EbLayer
import DracoModel.EbEncHyps
/-
  The executable checkers of DracoModel/EbEncHyps.lean imply the Prop-level hypotheses of the conditional
  theorems; `value_block_checked`: a value block on which the op's checker `valueBlockHyps` reports no failing
  hypothesis is read back by the decoder.
-/
namespace Draco.EbEnc
open Draco Draco.SeqEnc DecM
open Draco.Eb hiding iabs nextC prevC

theorem schemeKindOk_sound (kind : Nat) (s : PScheme) (h : schemeKindOk kind s = true) : SchemeKindOK kind s := by
  cases s <;> simp only [schemeKindOk, SchemeKindOK] at h ⊢ <;> first | trivial | (simpa using h)

theorem resEq_sound {α : Type} [DecidableEq α] (a b : R α) (h : resEq a b = true) : a = b := by
  cases a <;> cases b <;> simp only [resEq] at h
  · rw [of_decide_eq_true h]
  · cases h
  · cases h
  · rw [of_decide_eq_true h]

theorem int32All_sound (a : Array Int) (h : int32All a = true) : ∀ x ∈ a.toList, -2 ^ 31 ≤ x ∧ x < 2 ^ 31 := by
  intro x hx
  have := List.all_eq_true.mp h x hx
  simpa using this

theorem normalsOk_sound (o : EncOpts) (attId nc n : Nat) (portable : Array Int)
    (h : normalsOk o attId nc n portable = true) : NormalsOK o attId nc n portable := by
  unfold normalsOk at h
  rw [Bool.and_eq_true] at h
  obtain ⟨h1, h2⟩ := h
  refine ⟨by simpa using h1, ?_⟩
  split at h2
  · cases h2
  · rename_i t ht
    refine ⟨t, ht, fun p hp => ?_⟩
    have := List.all_eq_true.mp h2 p (List.mem_range.mpr hp)
    simpa using this

theorem creaseCountOk_sound (ch : EbChoices) (attId nc : Nat) (md : MeshData) (portable : Array Int)
    (h : creaseCountOk ch attId nc md portable = true) : CreaseCountOK ch attId nc md portable := by
  intro wt corr isCrease hwt henc c
  unfold creaseCountOk at h
  rw [hwt] at h
  simp only [henc] at h
  by_cases hc : c < isCrease.size
  · have := (Array.all_eq_true'.mp h) isCrease[c] (Array.getElem_mem hc)
    have hg : isCrease.getD c #[] = isCrease[c] := by simp [Array.getD, hc]
    rw [hg]
    simpa using this
  · have hg : isCrease.getD c #[] = #[] := by simp [Array.getD, hc]
    rw [hg]
    simp

theorem posAgree_sound (a b : PosSource) (h : posAgree a b = true) : PosAgree a b := by
  unfold posAgree at h
  rw [Bool.and_eq_true] at h
  obtain ⟨hs, hall⟩ := h
  have hs' : a.pointIds.size = b.pointIds.size := by simpa using hs
  intro i
  by_cases hi : i < a.pointIds.size
  · exact resEq_sound _ _ (List.all_eq_true.mp hall i (List.mem_range.mpr hi))
  · unfold PosSource.get rd
    rw [dif_neg hi, dif_neg (by omega)]
    rfl

theorem decParentOk_sound (s : PScheme) (parentD : Option Parent) (pointIdsD : Array Nat) (posE : PosSource)
    (h : decParentOk s parentD pointIdsD posE = true) : DecParentOK s parentD pointIdsD posE := by
  intro hp
  unfold decParentOk at h
  simp only [hp, Bool.not_true, Bool.false_or] at h
  cases parentD with
  | none => cases h
  | some q =>
    simp only [Bool.and_eq_true] at h
    obtain ⟨⟨h3, hok⟩, hag⟩ := h
    exact ⟨q, rfl, by simpa using h3, hok, posAgree_sound _ _ hag⟩

theorem bad_nil {c : Bool} {name : String} (h : (if c then ([] : List String) else [name]) = []) : c = true := by
  cases c
  · simp at h
  · rfl

/-- **a checked value block decodes**: when the op's checker `valueBlockHyps` reports no failing hypothesis for the
    value block `b` of an encoder run against the decoder's mesh data / point ids / parent attribute, the decoder
    reads the block back: it returns the portable values and consumes exactly the block -/
theorem value_block_checked (ch : EbChoices) (o : EncOpts) (b : ValueBlock) (n attComponents : Nat) (mdD : MeshData)
    (pointIdsD : Array Nat) (parentD : Option Parent)
    (hy : valueBlockHyps ch o b n mdD pointIdsD parentD = [])
    (henc : encodeIntegerValuesEb ch o b.attId b.kind b.nc b.numValues b.scheme b.md b.pointIds b.parent b.portable =
      .ok (b.outScheme, b.bytes)) :
    Runs (decodeIntegerValuesEb b.kind n b.nc attComponents mdD pointIdsD parentD) 514 b.bytes
      (b.portable, TransformData.none) 514 := by
  unfold valueBlockHyps at hy
  simp only [List.append_eq_nil_iff] at hy
  obtain ⟨⟨⟨⟨⟨⟨⟨h1, h2⟩, h3⟩, h4⟩, h5⟩, h6⟩, h7⟩, h8⟩ := hy
  have h1 := bad_nil h1
  have h2 := bad_nil h2
  have h4 := bad_nil h4
  have h5 := bad_nil h5
  have h6 := bad_nil h6
  have h7 := bad_nil h7
  have h8 := bad_nil h8
  simp only [Bool.and_eq_true, decide_eq_true_eq, beq_iff_eq] at h4 h7
  obtain ⟨⟨⟨⟨hnc, hn⟩, hlen⟩, hd⟩, h32⟩ := h4
  refine (runs_valueBlock ch o b.attId b.kind b.nc b.numValues n attComponents b.scheme b.md mdD b.pointIds pointIdsD
    b.parent parentD b.portable b.outScheme b.bytes (by simpa using h1) (schemeKindOk_sound _ _ h2) ?_ ?_ hnc hn hlen hd h32
    (int32All_sound _ h5) ?_ h7.1 h7.2 ?_ henc).2
  · intro posE hpos
    rw [hpos] at h3
    simp only [List.append_eq_nil_iff] at h3
    exact resEq_sound _ _ (bad_nil h3.1)
  · intro posE hpos
    rw [hpos] at h3
    simp only [List.append_eq_nil_iff] at h3
    exact decParentOk_sound _ _ _ _ (bad_nil h3.2)
  · intro hk
    have : (b.kind != 3) = false := by simp [hk]
    rw [this, Bool.false_or] at h6
    exact normalsOk_sound _ _ _ _ _ h6
  · intro hs
    have : (b.scheme == PScheme.constrainedMulti) = true := by rw [hs]; rfl
    rw [this] at h8
    simp only [Bool.not_true, Bool.false_or] at h8
    exact creaseCountOk_sound _ _ _ _ _ h8

end Draco.EbEnc
