import DracoProofs.EbValid
import DracoProofs.SkipEquiv
/-
  DracoProofs.EbSkip — `SetSkipAttributeTransform` on the Edgebreaker path (C10), bitstream ≥ 2.0.

  `Eb.decodeEdgebreaker opts` looks at `opts` in three places:
    * `parentOf ver opts.skip`      only for `ver < 2.0` (the attribute a later decoder's prediction scheme
                                    sees as its parent is the public one there, which the option changes),
    * `transformCheck opts ver`     the failure modes of `TransformAttributeToOriginalFormat`, not evaluated
                                    for a skipped attribute,
    * `finishSeqAttribute opts`     the public form of each attribute, the last step, reads no input.
  For `ver ≥ 2.0` the run with a skip list therefore follows the ordinary run step by step (`Rel`), ends in the
  same decoder state and differs only in the outputs of the last step.
-/
namespace Draco.Eb
open Draco Draco.DecM

/-- `Rel R m m'`: whenever `m` accepts, `m'` accepts from the same state, ends in the same state and
    returns an `R`-related value -/
def Rel {α β} (R : α → β → Prop) (m : DecM α) (m' : DecM β) : Prop :=
  ∀ s a s', m s = (some a, s') → ∃ a', m' s = (some a', s') ∧ R a a'

theorem bind_some {α β} (m : DecM α) (f : α → DecM β) (s s' : DSt) (b : β) :
    (m >>= f) s = (some b, s') ↔ ∃ a s1, m s = (some a, s1) ∧ f a s1 = (some b, s') :=
  DecM.andThen_some m f s s' b

theorem Rel.refl {α} (m : DecM α) : Rel Eq m m := fun _ a _ h => ⟨a, h, rfl⟩

theorem Rel.of_eq {α} {m m' : DecM α} (h : m = m') : Rel Eq m m' := h ▸ Rel.refl m

theorem Rel.bind {α α' β β'} {R : α → α' → Prop} {Q : β → β' → Prop} {m : DecM α} {m' : DecM α'}
    {f : α → DecM β} {f' : α' → DecM β'} (hm : Rel R m m') (hf : ∀ a a', R a a' → Rel Q (f a) (f' a')) :
    Rel Q (m >>= f) (m' >>= f') := by
  intro s b s' h
  obtain ⟨a, s1, h1, h2⟩ := (bind_some m f s s' b).1 h
  obtain ⟨a', h1', hr⟩ := hm s a s1 h1
  obtain ⟨b', h2', hq⟩ := hf a a' hr s1 b s' h2
  exact ⟨b', (bind_some m' f' s s' b').2 ⟨a', s1, h1', h2'⟩, hq⟩

/-- the same first part -/
theorem Rel.bind_eq {α β β'} {Q : β → β' → Prop} {m : DecM α} {f : α → DecM β} {f' : α → DecM β'}
    (hf : ∀ a, Rel Q (f a) (f' a)) : Rel Q (m >>= f) (m >>= f') :=
  Rel.bind (Rel.refl m) (fun a _ e => e ▸ hf a)

/-- the same first part, with something known about its result -/
theorem Rel.bind_post {α β β'} {Q : β → β' → Prop} {m : DecM α} {f : α → DecM β} {f' : α → DecM β'}
    {P : α → Prop} (hp : Robust.Post m P) (hf : ∀ a, P a → Rel Q (f a) (f' a)) : Rel Q (m >>= f) (m >>= f') := by
  intro s b s' h
  obtain ⟨a, s1, h1, h2⟩ := (bind_some m f s s' b).1 h
  obtain ⟨b', h2', hq⟩ := hf a (hp s a s1 h1) s1 b s' h2
  exact ⟨b', (bind_some m f' s s' b').2 ⟨a, s1, h1, h2'⟩, hq⟩

/-- related first parts, with something known about the result of the first -/
theorem Rel.bind_post_rel {α α' β β'} {R : α → α' → Prop} {Q : β → β' → Prop} {m : DecM α} {m' : DecM α'}
    {f : α → DecM β} {f' : α' → DecM β'} {P : α → Prop} (hp : Robust.Post m P) (hm : Rel R m m')
    (hf : ∀ a a', P a → R a a' → Rel Q (f a) (f' a')) : Rel Q (m >>= f) (m' >>= f') := by
  intro s b s' h
  obtain ⟨a, s1, h1, h2⟩ := (bind_some m f s s' b).1 h
  obtain ⟨a', h1', hr⟩ := hm s a s1 h1
  obtain ⟨b', h2', hq⟩ := hf a a' (hp s a s1 h1) hr s1 b s' h2
  exact ⟨b', (bind_some m' f' s s' b').2 ⟨a', s1, h1', h2'⟩, hq⟩

theorem Rel.ite {α β} {R : α → β → Prop} {c : Prop} [Decidable c] {a b : DecM α} {a' b' : DecM β}
    (ha : c → Rel R a a') (hb : ¬ c → Rel R b b') : Rel R (if c then a else b) (if c then a' else b') := by
  split
  · exact ha ‹_›
  · exact hb ‹_›

theorem Rel.pure {α β} {R : α → β → Prop} {a : α} {b : β} (h : R a b) :
    Rel R (Pure.pure a : DecM α) (Pure.pure b : DecM β) := by
  intro s x s' hx
  cases hx
  exact ⟨b, rfl, h⟩

theorem Rel.mono {α β} {R Q : α → β → Prop} {m : DecM α} {m' : DecM β} (h : Rel R m m')
    (hq : ∀ a b, R a b → Q a b) : Rel Q m m' := by
  intro s a s' hs
  obtain ⟨a', h1, h2⟩ := h s a s' hs
  exact ⟨a', h1, hq a a' h2⟩

/-- element-wise related loop bodies over the same list -/
theorem Rel.mapM' {α β β'} {R : β → β' → Prop} {f : α → DecM β} {f' : α → DecM β'} :
    ∀ (l : List α), (∀ x ∈ l, Rel R (f x) (f' x)) → Rel (List.Forall₂ R) (mapM' f l) (mapM' f' l)
  | [], _ => by
    simp only [DecM.mapM']
    exact Rel.pure List.Forall₂.nil
  | a :: as, h => by
    simp only [DecM.mapM']
    refine Rel.bind (h a (by simp)) (fun b b' hb => ?_)
    refine Rel.bind (Rel.mapM' as (fun x hx => h x (by simp [hx]))) (fun bs bs' hbs => ?_)
    exact Rel.pure (List.Forall₂.cons hb hbs)

theorem forall₂_eq {α} {l l' : List α} (h : List.Forall₂ Eq l l') : l = l' := by
  induction h with
  | nil => rfl
  | cons h _ ih => rw [h, ih]

theorem Rel.mapM'_eq {α β} {f f' : α → DecM β} (l : List α) (h : ∀ x ∈ l, Rel Eq (f x) (f' x)) :
    Rel Eq (DecM.mapM' f l) (DecM.mapM' f' l) :=
  Rel.mono (Rel.mapM' l h) (fun _ _ => forall₂_eq)

/-! ### the parent attribute does not depend on the option (≥ 2.0) -/

theorem parentOf_skip {ver : Nat} (hv : bsVersion 2 0 ≤ ver) (S : List Nat) (ps : EbAttState) :
    parentOf ver S ps = parentOf ver [] ps := by
  unfold parentOf
  simp only [ge_iff_le, hv, if_true]

theorem decodePortable_skip {ver : Nat} (hv : bsVersion 2 0 ≤ ver) (S : List Nat) (posAtt : Option Nat)
    (all : Array EbAttState) (md : MeshData) (pointIds m : Array Nat) (done : List EbAttState) (s0 : EbAttState) :
    decodePortable ver S posAtt all md pointIds m done s0 = decodePortable ver [] posAtt all md pointIds m done s0 := by
  unfold decodePortable
  cases posAtt with
  | none => rfl
  | some pk => simp only [parentOf_skip hv S]

theorem decodePortables_skip {ver : Nat} (hv : bsVersion 2 0 ≤ ver) (S : List Nat) (posAtt : Option Nat)
    (all : Array EbAttState) (md : MeshData) (pointIds m : Array Nat) (done : List EbAttState) :
    ∀ (mine acc : List EbAttState), decodePortables ver S posAtt all md pointIds m done mine acc =
      decodePortables ver [] posAtt all md pointIds m done mine acc
  | [], acc => by simp only [decodePortables]
  | s :: rest, acc => by
    simp only [decodePortables, decodePortable_skip hv S]
    congr 1
    funext s'
    exact decodePortables_skip hv S posAtt all md pointIds m done rest (acc ++ [s'])

/-! ### `TransformAttributeToOriginalFormat`: fewer checks with the option -/

theorem require_state {c : Bool} {s s' : DSt} {u : Unit} (h : DecM.require c s = (some u, s')) : s' = s := by
  cases c with
  | true => cases h; rfl
  | false => cases h

theorem storeValuesCheck_state {y : SeqAttState} {s s' : DSt} {u : Unit}
    (h : storeValuesCheck y s = (some u, s')) : s' = s := by
  unfold storeValuesCheck at h
  by_cases h1 : (y.decoderType == 1) = true
  · rw [if_pos h1] at h; exact require_state h
  · rw [if_neg h1] at h
    by_cases h3 : (y.decoderType == 3) = true
    · rw [if_pos h3] at h
      cases htr : y.transform with
      | octahedron bits => rw [htr] at h; exact require_state h
      | none => rw [htr] at h; cases h
      | quantization _ _ _ => rw [htr] at h; cases h
    · rw [if_neg h3] at h
      cases h; rfl

theorem transformCheck_rel (S : List Nat) (ver : Nat) (x : EbAttState) :
    Rel Eq (transformCheck {} ver x) (transformCheck { skip := S } ver x) := by
  by_cases hS : S.contains x.desc.attType = true
  · intro s a s' h
    refine ⟨a, ?_, rfl⟩
    unfold transformCheck at h ⊢
    simp only [hS, Bool.not_true, Bool.and_false, Bool.false_eq_true, if_false]
    split at h
    · obtain ⟨u, s1, h1, h2⟩ := (bind_some _ _ s s' a).1 h
      have := storeValuesCheck_state h1
      subst this
      exact h2
    · exact h
  · have hS' : S.contains x.desc.attType = false := by simpa using hS
    refine Rel.of_eq ?_
    unfold transformCheck
    simp only [hS', List.contains_nil]
    rfl

/-! ### one attributes decoder, all of them -/

theorem decodeOneDecoder_rel {ver : Nat} (hv : bsVersion 2 0 ≤ ver) (S : List Nat) (mesh : Mesh)
    (posAtt : Option Nat) (all : Array EbAttState) (i : Nat) (dec : AttDecoder) (mine done : List EbAttState) :
    Rel Eq (decodeOneDecoder {} ver mesh posAtt all i dec mine done)
      (decodeOneDecoder { skip := S } ver mesh posAtt all i dec mine done) := by
  unfold decodeOneDecoder
  extract_lets baseView a view v2dSize
  refine Rel.bind_eq (fun _ => ?_)
  refine Rel.bind_eq (fun seq => ?_)
  refine Rel.bind_eq (fun _ => ?_)
  extract_lets md jpm jp jpm' jp'
  have hjp : ∀ u, Rel Eq (jp u) (jp' u) := by
    intro u
    simp -zeta only [jp, jp']
    have hjpm : ∀ m, Rel Eq (jpm m) (jpm' m) := by
      intro m
      simp -zeta only [jpm, jpm']
      refine Rel.bind (Rel.of_eq (decodePortables_skip hv S posAtt all md seq.pointIds m done mine []).symm)
        (fun mine1 _ e => ?_)
      subst e
      refine Rel.bind_eq (fun mine2 => ?_)
      refine Rel.bind (Rel.mapM'_eq mine2 (fun x _ => transformCheck_rel S ver x)) (fun mine3 _ e => ?_)
      subst e
      exact Rel.refl _
    refine Rel.ite (fun _ => ?_) (fun _ => ?_)
    · exact Rel.bind_eq (fun m => hjpm m)
    · refine Rel.bind_eq (fun _ => ?_)
      exact Rel.bind_eq (fun m => hjpm m)
  refine Rel.ite (fun _ => ?_) (fun _ => ?_)
  · exact Rel.bind_eq (fun u => hjp u)
  · exact hjp ()

theorem decodeDecoders_rel {ver : Nat} (hv : bsVersion 2 0 ≤ ver) (S : List Nat) (mesh : Mesh)
    (posAtt : Option Nat) (all : Array EbAttState) :
    ∀ (work : List (Nat × AttDecoder × List EbAttState)) (done : List EbAttState),
      Rel Eq (decodeDecoders {} ver mesh posAtt all work done)
        (decodeDecoders { skip := S } ver mesh posAtt all work done)
  | [], done => by
    simp only [decodeDecoders]
    exact Rel.refl _
  | (i, dec, mine) :: rest, done => by
    simp only [decodeDecoders]
    refine Rel.bind (decodeOneDecoder_rel hv S mesh posAtt all i dec mine done) (fun d _ e => ?_)
    subst e
    exact decodeDecoders_rel hv S mesh posAtt all rest d

/-! ### what the ordinary run guarantees about the per-attribute states (≥ 2.0) -/

/-- after `DecodeAttributesDecoderData` / `DecodePortableAttributes` -/
def W1 (s : EbAttState) : Prop := s.toSeq.WF1

/-- after `TransformAttributesToOriginalFormat` of the ordinary run: the transform data matches the decoder
    type and `StoreValues` did not fail -/
def Fin (s : EbAttState) : Prop := s.toSeq.WF ∧ ¬ s.toSeq.Blocked

theorem decodeDecoderDescs_w1 (i : Nat) : Post (decodeDecoderDescs i) (fun l _ => ∀ s ∈ l, W1 s) := by
  unfold decodeDecoderDescs
  refine Post.bind' ?_; intro descs
  refine Post.bind' ?_; intro _
  refine Post.mapM'_all (P := fun _ => True) (fun d _ => ?_) descs (fun _ _ => trivial)
  refine Post.bind' ?_; intro dt
  refine Post.bindP (Post.require _) ?_; intro _ h1
  have h1 : dt ≤ 3 := by simpa using h1
  dsimp only
  split <;> rename_i hc2
  · refine Post.bindP (Post.require _) ?_; intro _ h2
    split <;> rename_i hc3
    · refine Post.bindP (Post.require _) ?_; intro _ h3
      refine Post.pure ?_; intro _
      exact ⟨h1, rfl, fun _ => by simpa [EbAttState.toSeq] using h2, fun _ => by simpa [EbAttState.toSeq] using h3⟩
    · refine Post.pure ?_; intro _
      exact ⟨h1, rfl, fun _ => by simpa [EbAttState.toSeq] using h2, fun h3 => by subst h3; simp at hc3⟩
  · split <;> rename_i hc3
    · refine Post.bindP (Post.require _) ?_; intro _ h3
      refine Post.pure ?_; intro _
      exact ⟨h1, rfl, fun h2 => by subst h2; simp at hc2, fun _ => by simpa [EbAttState.toSeq] using h3⟩
    · refine Post.pure ?_; intro _
      exact ⟨h1, rfl, fun h2 => by subst h2; simp at hc2, fun h3 => by subst h3; simp at hc3⟩

theorem decodePortable_w1 {ver : Nat} (hv : bsVersion 2 0 ≤ ver) (skip : List Nat) (posAtt : Option Nat)
    (all : Array EbAttState) (md : MeshData) (pointIds m : Array Nat) (done : List EbAttState) (s0 : EbAttState)
    (hs : W1 s0) : Post (decodePortable ver skip posAtt all md pointIds m done s0) (fun r _ => W1 r) := by
  unfold decodePortable
  extract_lets numEntries s stride nc parent
  refine Post.bind' ?_; intro _
  refine Post.ite ?_ ?_
  · refine Post.bind' ?_; intro b
    refine Post.pure ?_; intro _; exact hs
  · refine Post.bind' ?_; intro r
    obtain ⟨vals, tr⟩ := r
    dsimp only
    have : ¬ ver < bsVersion 2 0 := by omega
    rw [if_neg this]
    refine Post.pure ?_; intro _; exact hs

theorem decodePortables_w1 {ver : Nat} (hv : bsVersion 2 0 ≤ ver) (skip : List Nat) (posAtt : Option Nat)
    (all : Array EbAttState) (md : MeshData) (pointIds m : Array Nat) (done : List EbAttState) :
    ∀ (mine acc : List EbAttState), (∀ s ∈ mine, W1 s) → (∀ s ∈ acc, W1 s) →
      Post (decodePortables ver skip posAtt all md pointIds m done mine acc) (fun l _ => ∀ s ∈ l, W1 s)
  | [], acc, _, hacc => by
    simp only [decodePortables]
    exact Post.pure (fun _ => hacc)
  | s :: rest, acc, hmine, hacc => by
    simp only [decodePortables]
    refine Post.bindP (decodePortable_w1 hv skip posAtt all md pointIds m (done ++ acc) s (hmine s (by simp))) ?_
    intro s' hs'
    refine decodePortables_w1 hv skip posAtt all md pointIds m done rest (acc ++ [s'])
      (fun x hx => hmine x (by simp [hx])) ?_
    intro x hx
    rcases List.mem_append.mp hx with h | h
    · exact hacc x h
    · simp at h; subst h; exact hs'

theorem decodeDataNeeded_wf {ver : Nat} (hv : bsVersion 2 0 ≤ ver) (s : EbAttState) (hs : W1 s) :
    Post (decodeDataNeeded ver s) (fun r _ => r.toSeq.WF) := by
  unfold decodeDataNeeded
  have : ver ≥ bsVersion 2 0 := hv
  rw [if_pos this]
  obtain ⟨h3, ht, h2, h3'⟩ := hs
  refine Post.bindP (P := fun tr => _) (decodeTransformParams_post s.decoderType s.desc.numComponents) ?_
  intro tr ⟨q2, q3, q0⟩
  split <;> rename_i hc
  · refine Post.pure ?_; intro _
    have hc : s.decoderType = 2 ∨ s.decoderType = 3 := by simpa using hc
    rcases hc with hc | hc
    · obtain ⟨bits, mins, range, e, b1, b2⟩ := q2 hc
      exact Or.inr (Or.inl ⟨hc, h2 hc, bits, mins, range, e, b1, b2⟩)
    · obtain ⟨bits, e⟩ := q3 hc
      exact Or.inr (Or.inr ⟨hc, (h3' hc).1, (h3' hc).2, bits, e⟩)
  · refine Post.pure ?_; intro _
    have hc : ¬ s.decoderType = 2 ∧ ¬ s.decoderType = 3 := by simpa using hc
    refine Or.inl ⟨?_, ht⟩
    have : s.toSeq.decoderType = s.decoderType := rfl
    omega

theorem transformCheck_fin {ver : Nat} (hv : bsVersion 2 0 ≤ ver) (s : EbAttState) (hs : s.toSeq.WF) :
    Post (transformCheck {} ver s) (fun r _ => Fin r) := by
  unfold transformCheck
  dsimp only
  split <;> rename_i hc
  · refine Post.bindP (storeValuesCheck_post s.toSeq) ?_
    intro _ hb
    refine Post.pure ?_; intro _
    exact ⟨hs, hb⟩
  · refine Post.pure ?_; intro _
    refine ⟨hs, ?_⟩
    have hv' : ver ≥ bsVersion 2 0 := hv
    have h0 : s.decoderType = 0 := by simpa [hv'] using hc
    rintro (⟨h1, _⟩ | ⟨h3, _⟩)
    · have h1 : s.decoderType = 1 := h1
      omega
    · have h3 : s.decoderType = 3 := h3
      omega

theorem decodeTail_fin {ver : Nat} (hv : bsVersion 2 0 ≤ ver) (posAtt : Option Nat) (all : Array EbAttState)
    (md : MeshData) (pointIds m : Array Nat) (mine done : List EbAttState) (hmine : ∀ s ∈ mine, W1 s)
    (hdone : ∀ s ∈ done, Fin s) :
    Post (do
      let mine1 ← decodePortables ver ({} : DecOpts).skip posAtt all md pointIds m done mine []
      let mine2 ← mapM' (decodeDataNeeded ver) mine1
      let mine3 ← mapM' (transformCheck {} ver) mine2
      pure (done ++ mine3)) (fun r _ => ∀ s ∈ r, Fin s) := by
  refine Post.bindP (decodePortables_w1 hv _ posAtt all md pointIds m done mine [] hmine (fun _ h => by cases h)) ?_
  intro mine1 h1
  refine Post.bindP (Post.mapM'_all (fun x hx => decodeDataNeeded_wf hv x hx) mine1 h1) ?_
  intro mine2 h2
  refine Post.bindP (Post.mapM'_all (fun x hx => transformCheck_fin hv x hx) mine2 h2) ?_
  intro mine3 h3
  refine Post.pure ?_; intro _ x hx
  rcases List.mem_append.mp hx with h | h
  · exact hdone x h
  · exact h3 x h

theorem decodeOneDecoder_fin {ver : Nat} (hv : bsVersion 2 0 ≤ ver) (mesh : Mesh) (posAtt : Option Nat)
    (all : Array EbAttState) (i : Nat) (dec : AttDecoder) (mine done : List EbAttState)
    (hmine : ∀ s ∈ mine, W1 s) (hdone : ∀ s ∈ done, Fin s) :
    Post (decodeOneDecoder {} ver mesh posAtt all i dec mine done) (fun r _ => ∀ s ∈ r, Fin s) := by
  unfold decodeOneDecoder
  dsimp only
  refine Post.bind' ?_; intro _
  refine Post.bind' ?_; intro seq
  refine Post.bind' ?_; intro _
  have key : ∀ md pointIds m, Post (do
      let mine1 ← decodePortables ver ({} : DecOpts).skip posAtt all md pointIds m done mine []
      let mine2 ← mapM' (decodeDataNeeded ver) mine1
      let mine3 ← mapM' (transformCheck {} ver) mine2
      pure (done ++ mine3)) (fun r _ => ∀ s ∈ r, Fin s) :=
    fun md pointIds m => decodeTail_fin hv posAtt all md pointIds m mine done hmine hdone
  refine Post.ite ?_ ?_
  · refine Post.bind' ?_; intro _
    refine Post.ite ?_ ?_
    · refine Post.bind' ?_; intro m
      exact key _ _ m
    · refine Post.bind' ?_; intro _
      refine Post.bind' ?_; intro m
      exact key _ _ m
  · refine Post.ite ?_ ?_
    · refine Post.bind' ?_; intro m
      exact key _ _ m
    · refine Post.bind' ?_; intro _
      refine Post.bind' ?_; intro m
      exact key _ _ m

theorem decodeDecoders_fin {ver : Nat} (hv : bsVersion 2 0 ≤ ver) (mesh : Mesh) (posAtt : Option Nat)
    (all : Array EbAttState) :
    ∀ (work : List (Nat × AttDecoder × List EbAttState)) (done : List EbAttState),
      (∀ w ∈ work, ∀ s ∈ w.2.2, W1 s) → (∀ s ∈ done, Fin s) →
      Post (decodeDecoders {} ver mesh posAtt all work done) (fun r _ => ∀ s ∈ r, Fin s)
  | [], done, _, hdone => by
    simp only [decodeDecoders]
    exact Post.pure (fun _ => hdone)
  | (i, dec, mine) :: rest, done, hw, hdone => by
    simp only [decodeDecoders]
    refine Post.bindP (decodeOneDecoder_fin hv mesh posAtt all i dec mine done (hw (i, dec, mine) (by simp)) hdone) ?_
    intro d hd
    exact decodeDecoders_fin hv mesh posAtt all rest d (fun w hwm => hw w (by simp [hwm])) hd

/-! ### the last step as a pure function; assembly -/

/-- `a` with the point → value map replaced -/
def withMap (mp : Option (List Nat)) (a : Attribute) : Attribute := { a with map := mp }

/-- `finishSeqAttribute` with any map is the map-less pure function followed by setting the map -/
theorem finishSeqAttribute_map (opts : DecOpts) (n : Nat) (s : SeqAttState) (mp : Option (List Nat)) :
    finishSeqAttribute opts s n mp = ofOption ((finishSeqPure opts.skip n s).map (withMap mp)) := by
  obtain ⟨d, k, raw, port, tr⟩ := s
  unfold finishSeqAttribute finishSeqPure finishNormalLegacy
  simp only [pure]
  by_cases hc : opts.skip.contains d.attType = true
  · rcases k with _ | _ | _ | k <;> simp only [hc, if_true] <;> rfl
  · rcases k with _ | _ | _ | k <;> simp only [hc] <;> cases tr <;> rfl

theorem post_of_statePost {α} {m : DecM α} {P : α → Prop} (h : Post m (fun a _ => P a)) : Robust.Post m P :=
  fun s a s' e => h s a s' e

/-- the attribute controller: the run with the option follows the ordinary one; the outputs are related by
    whatever relation `R` the last step establishes on the states the ordinary run lets through -/
theorem decodeAttributes_rel {ver : Nat} (hv : bsVersion 2 0 ≤ ver) (S : List Nat) (mesh : Mesh)
    (R : Attribute → Attribute → Prop)
    (hR : ∀ x : EbAttState, Fin x →
      Rel R (finishSeqAttribute {} x.toSeq x.numValues (some x.map.toList))
        (finishSeqAttribute { skip := S } x.toSeq x.numValues (some x.map.toList))) :
    Rel (List.Forall₂ R) (decodeAttributes {} ver mesh) (decodeAttributes { skip := S } ver mesh) := by
  unfold decodeAttributes
  refine Rel.bind_eq (fun rem0 => ?_)
  refine Rel.bind_eq (fun _ => ?_)
  refine Rel.bind_eq (fun numDecoders => ?_)
  refine Rel.bind_eq (fun decoders => ?_)
  refine Rel.bind_eq (fun _ => ?_)
  refine Rel.bind_post (P := fun descLists => ∀ l ∈ descLists, ∀ s ∈ l, W1 s)
    (post_of_statePost (Post.mapM'_all (P := fun _ => True) (fun i _ => decodeDecoderDescs_w1 i)
      (List.range numDecoders) (fun _ _ => trivial))) (fun descLists hdl => ?_)
  extract_lets all posAtt work
  have hwork : ∀ w ∈ work, ∀ s ∈ w.2.2, W1 s := by
    intro w hw s hs
    obtain ⟨i, dec, mine⟩ := w
    have h1 := (List.of_mem_zip hw).2
    have h2 := (List.of_mem_zip h1).2
    exact hdl mine h2 s hs
  refine Rel.bind_post_rel (P := fun done => ∀ s ∈ done, Fin s)
    (post_of_statePost (decodeDecoders_fin hv mesh posAtt all work [] hwork (fun _ h => by cases h)))
    (decodeDecoders_rel hv S mesh posAtt all work []) (fun done done' hfin e => ?_)
  subst e
  exact Rel.mapM' done (fun x hx => hR x (hfin x hx))

/-- what the option may change in a geometry -/
def GeomRel (R : Attribute → Attribute → Prop) (g gS : Geometry) : Prop :=
  gS.isMesh = g.isMesh ∧ gS.numPoints = g.numPoints ∧ gS.faces = g.faces ∧ List.Forall₂ R g.atts gS.atts

/-- **the Edgebreaker body, bitstream ≥ 2.0**: whenever the ordinary decode accepts, the decode with the skip
    list `S` accepts, ends in the same decoder state and returns the same geometry up to `R` on the attributes -/
theorem decodeEdgebreaker_rel (S : List Nat) (R : Attribute → Attribute → Prop)
    (hR : ∀ x : EbAttState, Fin x →
      Rel R (finishSeqAttribute {} x.toSeq x.numValues (some x.map.toList))
        (finishSeqAttribute { skip := S } x.toSeq x.numValues (some x.map.toList)))
    (s s' : DSt) (g : Geometry) (hv : bsVersion 2 0 ≤ s.version)
    (h : decodeEdgebreaker {} s = (some g, s')) :
    ∃ gS, decodeEdgebreaker { skip := S } s = (some gS, s') ∧ GeomRel R g gS := by
  unfold decodeEdgebreaker at h ⊢
  obtain ⟨ver, s1, h1, h2⟩ := (bind_some _ _ s s' g).1 h
  obtain ⟨rfl, rfl⟩ := Robust.version_ok h1
  have hrel : Rel (GeomRel R)
      (do let mesh ← decodeConnectivity
          for t in tagsOf mesh.tags do tag t
          let atts ← decodeAttributes {} s1.version mesh
          pure ({ isMesh := true, numPoints := mesh.numPoints, faces := facesOf mesh, atts := atts } : Geometry))
      (do let mesh ← decodeConnectivity
          for t in tagsOf mesh.tags do tag t
          let atts ← decodeAttributes { skip := S } s1.version mesh
          pure ({ isMesh := true, numPoints := mesh.numPoints, faces := facesOf mesh, atts := atts } : Geometry)) := by
    refine Rel.bind_eq (fun mesh => ?_)
    refine Rel.bind_eq (fun _ => ?_)
    refine Rel.bind (decodeAttributes_rel hv S mesh R hR) (fun atts attsS ha => ?_)
    exact Rel.pure ⟨rfl, rfl, rfl, ha⟩
  obtain ⟨gS, hS, hg⟩ := hrel s1 g s' h2
  exact ⟨gS, (bind_some _ _ s1 s' gS).2 ⟨s1.version, s1, h1, hS⟩, hg⟩

end Draco.Eb
