import DracoModel.IO.Obj
import DracoProofs.IODedup
import DracoProofs.IOStl
import DracoProofs.IODedupSep
/-
  DracoProofs.IOObj — `ObjDecoder ∘ ObjEncoder` at record level, for an arbitrary number codec.
-/
namespace Draco.IO.Obj
open Draco Draco.IO

variable {Tok : Type}

/-! ### what the reader reconstructs from one table entry -/

/-- value `i` of attribute `a` after printing and re-parsing its first `k` components with a codec
    whose round trip on bit patterns is `r` -/
def rtValue (r : Nat → Nat) (a : Attribute) (k i : Nat) : Bytes :=
  ((floatsAt a i k).map (fun b => leBytes 4 (r b))).flatten

theorem rtValue_length (r : Nat → Nat) (a : Attribute) (k i : Nat) : (rtValue r a k i).length = 4 * k := by
  unfold rtValue
  rw [Stl.flatten_length_of_all 4]
  · simp [floatsAt]; omega
  · intro x hx; simp only [List.mem_map] at hx; obtain ⟨b, -, rfl⟩ := hx; exact leBytes_length 4 _

/-- the codec round-trips (to `r`) on every component the writer prints for attribute `a` -/
def CodecOn (c : NumCodec Tok) (r : Nat → Nat) (a : Attribute) (k : Nat) : Prop :=
  ∀ i, i < a.numValues → ∀ b ∈ floatsAt a i k, c.parse (c.print b) = some (r b)

theorem parseAll_print (c : NumCodec Tok) (r : Nat → Nat) (bs : List Nat)
    (h : ∀ b ∈ bs, c.parse (c.print b) = some (r b)) :
    parseAll c (bs.map c.print) = some ((bs.map (fun b => leBytes 4 (r b))).flatten) := by
  induction bs with
  | nil => rfl
  | cons b bs ih =>
    simp only [List.map_cons, parseAll, h b (by simp), ih (fun x hx => h x (by simp [hx])),
      List.flatten_cons]

theorem floatsAt_three (a : Attribute) (i : Nat) :
    ∃ e0 e1 e2, floatsAt a i 3 = [e0, e1, e2] := ⟨_, _, _, rfl⟩

theorem floatsAt_two (a : Attribute) (i : Nat) :
    ∃ e0 e1, floatsAt a i 2 = [e0, e1] := ⟨_, _, rfl⟩

/-! ### first pass -/

def addCounts (cn : Counts) (np nt nn nf : Nat) : Counts :=
  { np := cn.np + np, nt := cn.nt + nt, nn := cn.nn + nn, nf := cn.nf + nf }

theorem countLines_append (l1 l2 : List (Line Tok)) (cn cn1 : Counts) (h : countLines l1 cn = .ok cn1) :
    countLines (l1 ++ l2) cn = countLines l2 cn1 := by
  induction l1 generalizing cn with
  | nil => simp [countLines] at h; subst h; rfl
  | cons l ls ih =>
    simp only [List.cons_append, countLines] at h ⊢
    cases hl : countLine cn l with
    | error e => rw [hl] at h; cases h
    | ok cn' => rw [hl] at h; simp only; exact ih cn' h

theorem countLines_v (c : NumCodec Tok) (a : Attribute) (cn : Counts) :
    countLines (vLines c a) cn = .ok { cn with np := cn.np + a.numValues } := by
  unfold vLines
  generalize a.numValues = n
  induction n generalizing cn with
  | zero => simp [countLines]
  | succ n ih =>
    rw [List.range_succ, List.map_append, countLines_append _ _ cn _ (ih cn)]
    obtain ⟨e0, e1, e2, he⟩ := floatsAt_three a n
    simp [countLines, countLine, he]
    omega

theorem countLines_vt (c : NumCodec Tok) (a : Attribute) (cn : Counts) :
    countLines (vtLines c a) cn = .ok { cn with nt := cn.nt + a.numValues } := by
  unfold vtLines
  generalize a.numValues = n
  induction n generalizing cn with
  | zero => simp [countLines]
  | succ n ih =>
    rw [List.range_succ, List.map_append, countLines_append _ _ cn _ (ih cn)]
    obtain ⟨e0, e1, he⟩ := floatsAt_two a n
    simp [countLines, countLine, he]
    omega

theorem countLines_vn (c : NumCodec Tok) (a : Attribute) (cn : Counts) :
    countLines (vnLines c a) cn = .ok { cn with nn := cn.nn + a.numValues } := by
  unfold vnLines
  generalize a.numValues = n
  induction n generalizing cn with
  | zero => simp [countLines]
  | succ n ih =>
    rw [List.range_succ, List.map_append, countLines_append _ _ cn _ (ih cn)]
    obtain ⟨e0, e1, e2, he⟩ := floatsAt_three a n
    simp [countLines, countLine, he]
    omega

theorem countLines_f (pos : Attribute) (tex nrm : Option Attribute) (faces : List (Nat × Nat × Nat))
    (cn : Counts) :
    countLines (faces.map (fLine (Tok := Tok) pos tex nrm)) cn = .ok { cn with nf := cn.nf + faces.length } := by
  induction faces generalizing cn with
  | nil => simp [countLines]
  | cons f fs ih =>
    have h1 : countLine cn (fLine (Tok := Tok) pos tex nrm f) = .ok { cn with nf := cn.nf + 1 } := by
      simp [fLine, countLine, maxCorners]
    simp only [List.map_cons, countLines, h1]
    rw [ih]
    simp; omega

def optNum : Option Attribute → Nat
  | none => 0
  | some a => a.numValues

theorem countLines_optVt (c : NumCodec Tok) (o : Option Attribute) (cn : Counts) :
    countLines (optLines (vtLines c) o) cn = .ok { cn with nt := cn.nt + optNum o } := by
  cases o with
  | none => simp [optLines, countLines, optNum]
  | some a => simp [optLines, optNum, countLines_vt]

theorem countLines_optVn (c : NumCodec Tok) (o : Option Attribute) (cn : Counts) :
    countLines (optLines (vnLines c) o) cn = .ok { cn with nn := cn.nn + optNum o } := by
  cases o with
  | none => simp [optLines, countLines, optNum]
  | some a => simp [optLines, optNum, countLines_vn]

/-- counts of the file the writer produces -/
theorem countLines_encoded (c : NumCodec Tok) (pos : Attribute) (tex nrm : Option Attribute)
    (faces : List (Nat × Nat × Nat)) :
    countLines (vLines c pos ++ optLines (vtLines c) tex ++ optLines (vnLines c) nrm ++
      faces.map (fLine pos tex nrm)) {} =
    .ok { np := pos.numValues, nt := optNum tex, nn := optNum nrm, nf := faces.length } := by
  rw [List.append_assoc, List.append_assoc,
    countLines_append _ _ _ _ (countLines_v c pos {}),
    countLines_append _ _ _ _ (countLines_optVt c tex _),
    countLines_append _ _ _ _ (countLines_optVn c nrm _), countLines_f]
  simp

/-! ### second pass -/

theorem stepLines_append (c : NumCodec Tok) (cn : Counts) (l1 l2 : List (Line Tok)) (st st1 : St)
    (h : stepLines c cn l1 st = .ok st1) :
    stepLines c cn (l1 ++ l2) st = stepLines c cn l2 st1 := by
  induction l1 generalizing st with
  | nil => simp [stepLines] at h; subst h; rfl
  | cons l ls ih =>
    simp only [List.cons_append, stepLines] at h ⊢
    cases hl : stepLine c cn st l with
    | error e => rw [hl] at h; cases h
    | ok st' => rw [hl] at h; simp only; exact ih st' h

theorem stepLines_v_aux (c : NumCodec Tok) (r : Nat → Nat) (a : Attribute) (cn : Counts)
    (h : CodecOn c r a 3) (n : Nat) (hn : n ≤ a.numValues) (st : St) :
    stepLines c cn ((List.range n).map (fun i =>
      match (floatsAt a i 3).map c.print with
      | [x, y, z] => Line.v x y z
      | _ => Line.other "")) st =
    .ok { st with pos := st.pos ++ (List.range n).map (rtValue r a 3) } := by
  induction n generalizing st with
  | zero => simp [stepLines]
  | succ n ih =>
    rw [List.range_succ, List.map_append, stepLines_append _ _ _ _ _ _ (ih (by omega) st)]
    have hp := parseAll_print c r (floatsAt a n 3) (h n (by omega))
    obtain ⟨e0, e1, e2, he⟩ := floatsAt_three a n
    rw [he] at hp
    simp only [List.map_cons, List.map_nil] at hp
    simp only [List.map_cons, List.map_nil, he, stepLines, stepLine, hp, List.map_append, rtValue]
    simp [List.append_assoc]

theorem stepLines_vn_aux (c : NumCodec Tok) (r : Nat → Nat) (a : Attribute) (cn : Counts)
    (h : CodecOn c r a 3) (n : Nat) (hn : n ≤ a.numValues) (st : St) :
    stepLines c cn ((List.range n).map (fun i =>
      match (floatsAt a i 3).map c.print with
      | [x, y, z] => Line.vn x y z
      | _ => Line.other "")) st =
    .ok { st with nrm := st.nrm ++ (List.range n).map (rtValue r a 3) } := by
  induction n generalizing st with
  | zero => simp [stepLines]
  | succ n ih =>
    rw [List.range_succ, List.map_append, stepLines_append _ _ _ _ _ _ (ih (by omega) st)]
    have hp := parseAll_print c r (floatsAt a n 3) (h n (by omega))
    obtain ⟨e0, e1, e2, he⟩ := floatsAt_three a n
    rw [he] at hp
    simp only [List.map_cons, List.map_nil] at hp
    simp only [List.map_cons, List.map_nil, he, stepLines, stepLine, hp, List.map_append, rtValue]
    simp [List.append_assoc]

theorem stepLines_vt_aux (c : NumCodec Tok) (r : Nat → Nat) (a : Attribute) (cn : Counts)
    (h : CodecOn c r a 2) (n : Nat) (hn : n ≤ a.numValues) (st : St) :
    stepLines c cn ((List.range n).map (fun i =>
      match (floatsAt a i 2).map c.print with
      | [x, y] => Line.vt x y
      | _ => Line.other "")) st =
    .ok { st with tex := st.tex ++ (List.range n).map (rtValue r a 2) } := by
  induction n generalizing st with
  | zero => simp [stepLines]
  | succ n ih =>
    rw [List.range_succ, List.map_append, stepLines_append _ _ _ _ _ _ (ih (by omega) st)]
    have hp := parseAll_print c r (floatsAt a n 2) (h n (by omega))
    obtain ⟨e0, e1, he⟩ := floatsAt_two a n
    rw [he] at hp
    simp only [List.map_cons, List.map_nil] at hp
    simp only [List.map_cons, List.map_nil, he, stepLines, stepLine, hp, List.map_append, rtValue]
    simp [List.append_assoc]

/-- the re-parsed value table -/
def rtTable (r : Nat → Nat) (a : Attribute) (k : Nat) : List Bytes :=
  (List.range a.numValues).map (rtValue r a k)

theorem stepLines_v (c : NumCodec Tok) (r : Nat → Nat) (a : Attribute) (cn : Counts)
    (h : CodecOn c r a 3) (st : St) :
    stepLines c cn (vLines c a) st = .ok { st with pos := st.pos ++ rtTable r a 3 } :=
  stepLines_v_aux c r a cn h _ (Nat.le_refl _) st

theorem stepLines_vt (c : NumCodec Tok) (r : Nat → Nat) (a : Attribute) (cn : Counts)
    (h : CodecOn c r a 2) (st : St) :
    stepLines c cn (vtLines c a) st = .ok { st with tex := st.tex ++ rtTable r a 2 } :=
  stepLines_vt_aux c r a cn h _ (Nat.le_refl _) st

theorem stepLines_vn (c : NumCodec Tok) (r : Nat → Nat) (a : Attribute) (cn : Counts)
    (h : CodecOn c r a 3) (st : St) :
    stepLines c cn (vnLines c a) st = .ok { st with nrm := st.nrm ++ rtTable r a 3 } :=
  stepLines_vn_aux c r a cn h _ (Nat.le_refl _) st

def optTable (r : Nat → Nat) (k : Nat) : Option Attribute → List Bytes
  | none => []
  | some a => rtTable r a k

def optMapped : Option Attribute → Nat → Nat
  | none, _ => 0
  | some a, p => a.ioMappedIndex p

/-- the value indices a corner is resolved to -/
def tri (pos : Attribute) (tex nrm : Option Attribute) (p : Nat) : Nat × Nat × Nat :=
  (pos.ioMappedIndex p, optMapped tex p, optMapped nrm p)

def OptCodecOn (c : NumCodec Tok) (r : Nat → Nat) (k : Nat) : Option Attribute → Prop
  | none => True
  | some a => CodecOn c r a k

theorem stepLines_values (c : NumCodec Tok) (r : Nat → Nat) (cn : Counts) (pos : Attribute)
    (tex nrm : Option Attribute) (hp : CodecOn c r pos 3) (ht : OptCodecOn c r 2 tex)
    (hn : OptCodecOn c r 3 nrm) :
    stepLines c cn (vLines c pos ++ optLines (vtLines c) tex ++ optLines (vnLines c) nrm) {} =
    .ok { pos := rtTable r pos 3, tex := optTable r 2 tex, nrm := optTable r 3 nrm, corners := [] } := by
  rw [List.append_assoc, stepLines_append _ _ _ _ _ _ (stepLines_v c r pos cn hp {})]
  have h2 : stepLines c cn (optLines (vtLines c) tex)
      { ({} : St) with pos := ({} : St).pos ++ rtTable r pos 3 } =
      .ok { pos := rtTable r pos 3, tex := optTable r 2 tex } := by
    cases tex with
    | none => simp [optLines, stepLines, optTable]
    | some t =>
      simp only [optLines, optTable]
      rw [stepLines_vt c r t cn ht]
      simp
  rw [stepLines_append _ _ _ _ _ _ h2]
  cases nrm with
  | none => simp [optLines, stepLines, optTable]
  | some t =>
    simp only [optLines, optTable]
    rw [stepLines_vn c r t cn hn]
    simp

theorem resolve_pos (mi soFar total : Nat) (h : mi < total) :
    resolve ((mi + 1 : Nat) : Int) soFar total = some mi := by
  unfold resolve
  have h1 : ((mi + 1 : Nat) : Int) > 0 := by omega
  have h2 : ((mi + 1 : Nat) : Int).toNat - 1 = mi := by omega
  simp only [h1, if_true, h2, h]

def OptInRange (o : Option Attribute) (p : Nat) : Prop :=
  ∀ a, o = some a → a.ioMappedIndex p < a.numValues ∧ a.numValues ≠ 0

theorem resolveCorner_corner (cn : Counts) (st : St) (pos : Attribute) (tex nrm : Option Attribute) (p : Nat)
    (hnp : cn.np = pos.numValues) (hnt : cn.nt = optNum tex) (hnn : cn.nn = optNum nrm)
    (hp : pos.ioMappedIndex p < pos.numValues) (ht : OptInRange tex p) (hn : OptInRange nrm p) :
    resolveCorner cn st (corner pos tex nrm p) = some (tri pos tex nrm p) := by
  unfold resolveCorner corner tri
  simp only
  rw [hnp, resolve_pos _ _ _ hp]
  have e1 : (if cn.nt = 0 then some 0 else resolve (optIndex tex p) st.tex.length cn.nt) = some (optMapped tex p) := by
    cases tex with
    | none => simp [hnt, optNum, optMapped]
    | some t =>
      obtain ⟨a1, a2⟩ := ht t rfl
      simp only [hnt, optNum, a2, if_false, optIndex, optMapped]
      exact resolve_pos _ _ _ a1
  have e2 : (if cn.nn = 0 then some 0 else resolve (optIndex nrm p) st.nrm.length cn.nn) = some (optMapped nrm p) := by
    cases nrm with
    | none => simp [hnn, optNum, optMapped]
    | some t =>
      obtain ⟨a1, a2⟩ := hn t rfl
      simp only [hnn, optNum, a2, if_false, optIndex, optMapped]
      exact resolve_pos _ _ _ a1
  rw [e1, e2]

theorem corner_fst_ne_zero (pos : Attribute) (tex nrm : Option Attribute) (p : Nat) :
    ((corner pos tex nrm p).1 == 0) = false := by
  simp [corner]; omega

theorem stepLines_f (c : NumCodec Tok) (cn : Counts) (pos : Attribute) (tex nrm : Option Attribute)
    (hnp : cn.np = pos.numValues) (hnt : cn.nt = optNum tex) (hnn : cn.nn = optNum nrm)
    (faces : List (Nat × Nat × Nat))
    (hok : ∀ f ∈ faces, ∀ p, (p = f.1 ∨ p = f.2.1 ∨ p = f.2.2) →
      pos.ioMappedIndex p < pos.numValues ∧ OptInRange tex p ∧ OptInRange nrm p) (st : St) :
    stepLines c cn (faces.map (fLine pos tex nrm)) st =
    .ok { st with corners := st.corners ++
      faces.flatMap (fun f => [tri pos tex nrm f.1, tri pos tex nrm f.2.1, tri pos tex nrm f.2.2]) } := by
  induction faces generalizing st with
  | nil => simp [stepLines]
  | cons f fs ih =>
    obtain ⟨a1, a2, a3⟩ := hok f (by simp) f.1 (Or.inl rfl)
    obtain ⟨b1, b2, b3⟩ := hok f (by simp) f.2.1 (Or.inr (Or.inl rfl))
    obtain ⟨c1, c2, c3⟩ := hok f (by simp) f.2.2 (Or.inr (Or.inr rfl))
    have hstep : stepLine c cn st (fLine pos tex nrm f) =
        .ok { st with corners := st.corners ++
          [tri pos tex nrm f.1, tri pos tex nrm f.2.1, tri pos tex nrm f.2.2] } := by
      simp only [fLine, stepLine, List.take, List.any_cons, List.any_nil, corner_fst_ne_zero, Bool.or_false,
        Bool.false_eq_true, if_false, triangulate, triangulate.go, resolveAll,
        resolveCorner_corner cn st pos tex nrm _ hnp hnt hnn a1 a2 a3,
        resolveCorner_corner cn st pos tex nrm _ hnp hnt hnn b1 b2 b3,
        resolveCorner_corner cn st pos tex nrm _ hnp hnt hnn c1 c2 c3]
    simp only [List.map_cons, stepLines, hstep]
    rw [ih (fun g hg => hok g (by simp [hg]))]
    simp [List.flatMap_cons, List.append_assoc]

/-! ### the assembled geometry -/

theorem mkAtt_stride (ty nc uid : Nat) (vals : List Bytes) (m : Option (List Nat)) :
    (mkAtt ty nc uid vals m).stride = 4 * nc := by
  simp [mkAtt, Attribute.stride]

theorem mkAtt_pointValue (ty nc uid : Nat) (vals : List Bytes) (idxs : List Nat)
    (hall : ∀ x ∈ vals, x.length = 4 * nc) (k j : Nat) (hj : idxs[k]? = some j) (x : Bytes)
    (hx : vals[j]? = some x) : (mkAtt ty nc uid vals (some idxs)).ioPointValue k = x := by
  have hjlt : j < vals.length := by
    by_contra hc; rw [List.getElem?_eq_none (by omega)] at hx; cases hx
  unfold Attribute.ioPointValue Attribute.ioValueAt
  rw [mkAtt_stride]
  have hm : (mkAtt ty nc uid vals (some idxs)).ioMappedIndex k = j := by
    simp [mkAtt, Attribute.ioMappedIndex, List.getD_eq_getElem?_getD, hj]
  rw [hm]
  have hv : (mkAtt ty nc uid vals (some idxs)).values = vals.flatten := rfl
  rw [hv, flatten_chunk (4 * nc) vals j hjlt hall]
  rw [List.getElem?_eq_getElem hjlt] at hx
  exact Option.some.inj hx

theorem mkAtt_ok (ty nc uid : Nat) (vals : List Bytes) (idxs : List Nat) (n : Nat)
    (hall : ∀ x ∈ vals, x.length = 4 * nc) (hlen : idxs.length = n) (hr : ∀ j ∈ idxs, j < vals.length) :
    AttOk (mkAtt ty nc uid vals (some idxs)) n := by
  refine ⟨?_, ?_, ?_⟩
  · rw [mkAtt_stride]
    show vals.length * (4 * nc) ≤ vals.flatten.length
    rw [Stl.flatten_length_of_all (4 * nc) vals hall]
    exact Nat.le_refl _
  · intro m hm
    simp [mkAtt] at hm; subst hm; exact hlen
  · intro p hp
    show (mkAtt ty nc uid vals (some idxs)).ioMappedIndex p < vals.length
    simp only [mkAtt, Attribute.ioMappedIndex, List.getD_eq_getElem?_getD]
    rw [List.getElem?_eq_getElem (by omega)]
    exact hr _ (List.getElem_mem _)

/-- per-corner values of an assembled attribute whose map lists, face by face, the value indices
    `h` of the three corners -/
theorem assembled_cornerValues (ty nc uid : Nat) (vals : List Bytes) (hall : ∀ x ∈ vals, x.length = 4 * nc)
    (faces : List (Nat × Nat × Nat)) (h : Nat → Nat)
    (hh : ∀ f ∈ faces, h f.1 < vals.length ∧ h f.2.1 < vals.length ∧ h f.2.2 < vals.length) :
    cornerValues (mkAtt ty nc uid vals (some (faces.flatMap (fun f => [h f.1, h f.2.1, h f.2.2]))))
      ((List.range faces.length).map (fun i => (3 * i, 3 * i + 1, 3 * i + 2))) =
    faces.map (fun f => (vals.getD (h f.1) [], vals.getD (h f.2.1) [], vals.getD (h f.2.2) [])) := by
  apply List.ext_getElem?
  intro i
  unfold cornerValues
  simp only [List.getElem?_map]
  by_cases hi : i < faces.length
  · have hx : faces[i]? = some faces[i] := List.getElem?_eq_getElem hi
    obtain ⟨g0, g1, g2⟩ := Stl.flatMap3_getElem? (fun f : Nat × Nat × Nat => h f.1) (fun f => h f.2.1)
      (fun f => h f.2.2) faces i faces[i] hx
    obtain ⟨b0, b1, b2⟩ := hh faces[i] (List.getElem_mem hi)
    have p0 := mkAtt_pointValue ty nc uid vals _ hall (3 * i) _ g0 _ (List.getElem?_eq_getElem b0)
    have p1 := mkAtt_pointValue ty nc uid vals _ hall (3 * i + 1) _ g1 _ (List.getElem?_eq_getElem b1)
    have p2 := mkAtt_pointValue ty nc uid vals _ hall (3 * i + 2) _ g2 _ (List.getElem?_eq_getElem b2)
    simp [hi, p0, p1, p2, List.getD_eq_getElem?_getD, List.getElem?_eq_getElem b0,
      List.getElem?_eq_getElem b1, List.getElem?_eq_getElem b2]
  · simp [hi]

theorem rtTable_all (r : Nat → Nat) (a : Attribute) (k : Nat) : ∀ x ∈ rtTable r a k, x.length = 4 * k := by
  intro x hx
  simp only [rtTable, List.mem_map] at hx
  obtain ⟨i, -, rfl⟩ := hx
  exact rtValue_length r a k i

theorem rtTable_length (r : Nat → Nat) (a : Attribute) (k : Nat) : (rtTable r a k).length = a.numValues := by
  simp [rtTable]

theorem rtTable_getD (r : Nat → Nat) (a : Attribute) (k j : Nat) (hj : j < a.numValues) :
    (rtTable r a k).getD j [] = rtValue r a k j := by
  simp [rtTable, List.getD_eq_getElem?_getD, hj]

/-- expected per-corner values after the round trip -/
def rtCorner (r : Nat → Nat) (a : Attribute) (k : Nat) (faces : List (Nat × Nat × Nat)) :
    List (Bytes × Bytes × Bytes) :=
  faces.map (fun f => (rtValue r a k (a.ioMappedIndex f.1), rtValue r a k (a.ioMappedIndex f.2.1),
    rtValue r a k (a.ioMappedIndex f.2.2)))

def idxList (a : Attribute) (faces : List (Nat × Nat × Nat)) : List Nat :=
  faces.flatMap (fun f => [a.ioMappedIndex f.1, a.ioMappedIndex f.2.1, a.ioMappedIndex f.2.2])

def triFaces (n : Nat) : List (Nat × Nat × Nat) := (List.range n).map (fun i => (3 * i, 3 * i + 1, 3 * i + 2))

theorem triFaces_inRange (n : Nat) : ∀ f ∈ triFaces n, f.1 < 3 * n ∧ f.2.1 < 3 * n ∧ f.2.2 < 3 * n := by
  intro f hf
  simp only [triFaces, List.mem_map, List.mem_range] at hf
  obtain ⟨i, hi, rfl⟩ := hf
  simp only; omega

def InRangeOn (a : Attribute) (faces : List (Nat × Nat × Nat)) : Prop :=
  ∀ f ∈ faces, a.ioMappedIndex f.1 < a.numValues ∧ a.ioMappedIndex f.2.1 < a.numValues ∧
    a.ioMappedIndex f.2.2 < a.numValues

theorem assembledAtt_ok (ty k uid : Nat) (r : Nat → Nat) (a : Attribute) (faces : List (Nat × Nat × Nat))
    (hin : InRangeOn a faces) :
    AttOk (mkAtt ty k uid (rtTable r a k) (some (idxList a faces))) (3 * faces.length) := by
  apply mkAtt_ok _ _ _ _ _ _ (rtTable_all r a k)
  · exact Stl.flatMap3_length _ _ _ faces
  · intro j hj
    rw [rtTable_length]
    simp only [idxList, List.mem_flatMap] at hj
    obtain ⟨f, hf, hjf⟩ := hj
    obtain ⟨h1, h2, h3⟩ := hin f hf
    simp at hjf
    rcases hjf with rfl | rfl | rfl <;> assumption

/-- the deduplicated result still has, at position `k`, an attribute of the same kind whose
    per-corner values are the re-parsed values of the source attribute -/
theorem final_att (G : Geometry) (faces : List (Nat × Nat × Nat))
    (hGf : G.faces = triFaces faces.length) (hGn : G.numPoints = 3 * faces.length)
    (hok : ∀ a ∈ G.atts, AttOk a G.numPoints)
    (k ty kk uid : Nat) (r : Nat → Nat) (a : Attribute)
    (hk : G.atts[k]? = some (mkAtt ty kk uid (rtTable r a kk) (some (idxList a faces))))
    (hin : InRangeOn a faces) :
    ∃ a', G.ioDedupValues.ioDedupPointIds.atts[k]? = some a' ∧ a'.attType = ty ∧ a'.dataType = dtFLOAT32 ∧
      a'.numComponents = kk ∧ cornerValues a' G.ioDedupValues.ioDedupPointIds.faces = rtCorner r a kk faces := by
  have hfr : facesInRange G := by
    intro f hf; rw [hGf] at hf; rw [hGn]; exact triFaces_inRange _ f hf
  obtain ⟨a', h1, h2, h3, h4, h5⟩ := dedup_cornerValues G hfr hok k _ hk
  refine ⟨a', h1, by rw [h3]; rfl, by rw [h4]; rfl, by rw [h5]; rfl, ?_⟩
  rw [h2, hGf]
  have := assembled_cornerValues ty kk uid (rtTable r a kk) (rtTable_all r a kk) faces a.ioMappedIndex
    (by intro f hf; rw [rtTable_length]; exact hin f hf)
  unfold triFaces idxList
  rw [this]
  unfold rtCorner
  apply List.map_congr_left
  intro f hf
  obtain ⟨b1, b2, b3⟩ := hin f hf
  rw [rtTable_getD r a kk _ b1, rtTable_getD r a kk _ b2, rtTable_getD r a kk _ b3]

/-! ### the writer on a valid mesh -/

theorem texOf_some (g : Geometry) (t : Attribute) (h : texOf g = some t) :
    t ∈ g.atts ∧ t.attType = tTEX_COORD ∧ t.numValues ≠ 0 := by
  unfold texOf at h
  rw [Option.filter_eq_some_iff] at h
  obtain ⟨h1, h2⟩ := h
  obtain ⟨m1, m2⟩ := namedAtt_mem g _ t h1
  exact ⟨m1, m2, by simpa using h2⟩

theorem nrmOf_some (g : Geometry) (t : Attribute) (h : nrmOf g = some t) :
    t ∈ g.atts ∧ t.attType = tNORMAL ∧ t.numValues ≠ 0 := by
  unfold nrmOf at h
  rw [Option.filter_eq_some_iff] at h
  obtain ⟨h1, h2⟩ := h
  obtain ⟨m1, m2⟩ := namedAtt_mem g _ t h1
  exact ⟨m1, m2, by simpa using h2⟩

theorem valid_att (g : Geometry) (hvalid : g.valid = true) (a : Attribute) (ha : a ∈ g.atts) :
    a.valid g.numPoints = true := by
  unfold Geometry.valid at hvalid
  simp only [Bool.and_eq_true, List.all_eq_true] at hvalid
  exact hvalid.2 a ha

theorem valid_faces (g : Geometry) (hvalid : g.valid = true) :
    g.faces.all (fun (a, b, c) => a < g.numPoints && b < g.numPoints && c < g.numPoints) = true := by
  unfold Geometry.valid at hvalid
  simp only [Bool.and_eq_true] at hvalid
  exact hvalid.1

theorem writable_ok (a : Attribute) (n : Nat) (hdt : a.dataType = dtFLOAT32) (hv : a.valid n = true) :
    writable a = .ok () := by
  have := (attOk_of_valid a n hv).stored
  unfold writable
  rw [if_neg (by simp [hdt]), if_neg (by omega)]

theorem encodeTablesE_eq (c : NumCodec Tok) (g : Geometry) (pos : Attribute)
    (hmesh : g.isMesh = true) (hpos : g.ioNamedAtt tPOSITION = some pos) (hvalid : g.valid = true)
    (hnv : pos.numValues ≠ 0) (hpdt : pos.dataType = dtFLOAT32)
    (htdt : ∀ t, texOf g = some t → t.dataType = dtFLOAT32)
    (hndt : ∀ n, nrmOf g = some n → n.dataType = dtFLOAT32) :
    encodeTablesE c g = .ok (vLines c pos ++ optLines (vtLines c) (texOf g) ++ optLines (vnLines c) (nrmOf g) ++
      g.faces.map (fLine pos (texOf g) (nrmOf g))) := by
  obtain ⟨hmem, -⟩ := namedAtt_mem g _ pos hpos
  have hpv := valid_att g hvalid pos hmem
  have w1 := writable_ok pos g.numPoints hpdt hpv
  have w2 : optWritable (texOf g) = .ok () ∧ optMapValid (texOf g) g.numPoints = true := by
    cases ht : texOf g with
    | none => simp [optWritable, optMapValid]
    | some t =>
      have hv := valid_att g hvalid t (texOf_some g t ht).1
      exact ⟨writable_ok t g.numPoints (htdt t ht) hv, hv⟩
  have w3 : optWritable (nrmOf g) = .ok () ∧ optMapValid (nrmOf g) g.numPoints = true := by
    cases ht : nrmOf g with
    | none => simp [optWritable, optMapValid]
    | some t =>
      have hv := valid_att g hvalid t (nrmOf_some g t ht).1
      exact ⟨writable_ok t g.numPoints (hndt t ht) hv, hv⟩
  unfold encodeTablesE
  simp only [hpos, hnv, if_false, w1, w2.1, w3.1, hmesh, valid_faces g hvalid, hpv, w2.2, w3.2,
    Bool.and_self, Bool.not_true, Bool.and_false, Bool.false_eq_true, if_true]

/-- on a mesh with at least one face the writer is the table writer -/
theorem encodeE_mesh (c : NumCodec Tok) (g : Geometry) (hmesh : g.isMesh = true) (hfaces : g.faces ≠ []) :
    encodeE c g = encodeTablesE c g := by
  unfold encodeE perPoint
  have : g.faces.isEmpty = false := by
    cases hf : g.faces with
    | nil => exact absurd hf hfaces
    | cons _ _ => rfl
  simp [hmesh, this]

theorem encodeE_eq (c : NumCodec Tok) (g : Geometry) (pos : Attribute)
    (hmesh : g.isMesh = true) (hfaces : g.faces ≠ []) (hpos : g.ioNamedAtt tPOSITION = some pos)
    (hvalid : g.valid = true)
    (hnv : pos.numValues ≠ 0) (hpdt : pos.dataType = dtFLOAT32)
    (htdt : ∀ t, texOf g = some t → t.dataType = dtFLOAT32)
    (hndt : ∀ n, nrmOf g = some n → n.dataType = dtFLOAT32) :
    encodeE c g = .ok (vLines c pos ++ optLines (vtLines c) (texOf g) ++ optLines (vnLines c) (nrmOf g) ++
      g.faces.map (fLine pos (texOf g) (nrmOf g))) := by
  rw [encodeE_mesh c g hmesh hfaces]
  exact encodeTablesE_eq c g pos hmesh hpos hvalid hnv hpdt htdt hndt

/-! ### round trip -/

/-- state of the second pass at the end of the file the writer produces -/
def finalSt (r : Nat → Nat) (pos : Attribute) (tex nrm : Option Attribute) (faces : List (Nat × Nat × Nat)) : St :=
  { pos := rtTable r pos 3
    tex := optTable r 2 tex
    nrm := optTable r 3 nrm
    corners := [] ++ faces.flatMap (fun f => [tri pos tex nrm f.1, tri pos tex nrm f.2.1, tri pos tex nrm f.2.2]) }

theorem corners_map1 (pos : Attribute) (tex nrm : Option Attribute) (faces : List (Nat × Nat × Nat)) :
    (faces.flatMap (fun f => [tri pos tex nrm f.1, tri pos tex nrm f.2.1, tri pos tex nrm f.2.2])).map (·.1)
      = idxList pos faces := by
  simp [List.map_flatMap, tri, idxList]

theorem corners_map2 (pos t : Attribute) (nrm : Option Attribute) (faces : List (Nat × Nat × Nat)) :
    (faces.flatMap (fun f => [tri pos (some t) nrm f.1, tri pos (some t) nrm f.2.1,
      tri pos (some t) nrm f.2.2])).map (·.2.1) = idxList t faces := by
  simp [List.map_flatMap, tri, idxList, optMapped]

theorem corners_map3 (pos t : Attribute) (tex : Option Attribute) (faces : List (Nat × Nat × Nat)) :
    (faces.flatMap (fun f => [tri pos tex (some t) f.1, tri pos tex (some t) f.2.1,
      tri pos tex (some t) f.2.2])).map (·.2.2) = idxList t faces := by
  simp [List.map_flatMap, tri, idxList, optMapped]

theorem inRangeOn_of_valid (g : Geometry) (hvalid : g.valid = true) (a : Attribute) (ha : a ∈ g.atts) :
    InRangeOn a g.faces := by
  have hok := attsOk_of_valid g hvalid a ha
  have hfr := facesInRange_of_valid g hvalid
  intro f hf
  obtain ⟨h1, h2, h3⟩ := hfr f hf
  exact ⟨hok.inRange _ h1, hok.inRange _ h2, hok.inRange _ h3⟩

theorem mkAtt_supported (ty k uid : Nat) (vals : List Bytes) (m : Option (List Nat)) (hk : 1 ≤ k ∧ k ≤ 4) :
    dedupSupported (mkAtt ty k uid vals m) = true := by
  simp [dedupSupported, mkAtt, hk.1, hk.2]

/-- every attribute of the geometry assembled from the encoder's file is storage-valid, of a
    kind `DeduplicateValues` handles, and explicitly mapped -/
theorem assembled_all_ok (r : Nat → Nat) (pos : Attribute) (tex nrm : Option Attribute)
    (faces : List (Nat × Nat × Nat)) (hnf : faces.length ≠ 0) (hpin : InRangeOn pos faces)
    (htin : ∀ t, tex = some t → InRangeOn t faces ∧ t.numValues ≠ 0)
    (hnin : ∀ t, nrm = some t → InRangeOn t faces ∧ t.numValues ≠ 0) :
    ∀ a ∈ (assemble true { np := pos.numValues, nt := optNum tex, nn := optNum nrm, nf := faces.length }
        (finalSt r pos tex nrm faces)).atts,
      AttOk a (3 * faces.length) ∧ dedupSupported a = true ∧ a.map ≠ none := by
  intro a ha
  have key : ∀ (ty k uid : Nat) (b : Attribute), InRangeOn b faces → 1 ≤ k ∧ k ≤ 4 →
      AttOk (mkAtt ty k uid (rtTable r b k) (some (idxList b faces))) (3 * faces.length) ∧
      dedupSupported (mkAtt ty k uid (rtTable r b k) (some (idxList b faces))) = true ∧
      (mkAtt ty k uid (rtTable r b k) (some (idxList b faces))).map ≠ none := by
    intro ty k uid b hb hk
    exact ⟨assembledAtt_ok _ _ _ r b faces hb, mkAtt_supported _ _ _ _ _ hk, by simp [mkAtt]⟩
  cases tex with
  | none =>
    cases nrm with
    | none =>
      simp only [assemble, finalSt, optNum, hnf, List.nil_append, corners_map1, List.mem_cons,
        List.not_mem_nil, or_false, if_true, if_false, decide_false] at ha
      subst ha
      exact key _ _ _ pos hpin (by omega)
    | some n =>
      obtain ⟨hn1, hn2⟩ := hnin n rfl
      simp only [assemble, finalSt, optNum, hnf, hn2, List.nil_append, corners_map1, corners_map3, optTable,
        List.mem_cons, List.mem_append, List.not_mem_nil, or_false, if_true, if_false, decide_false] at ha
      rcases ha with rfl | rfl
      · exact key _ _ _ pos hpin (by omega)
      · exact key _ _ _ n hn1 (by omega)
  | some t =>
    obtain ⟨ht1, ht2⟩ := htin t rfl
    cases nrm with
    | none =>
      simp only [assemble, finalSt, optNum, hnf, ht2, List.nil_append, corners_map1, corners_map2, optTable,
        List.mem_cons, List.mem_append, List.not_mem_nil, or_false, if_true, if_false, decide_false] at ha
      rcases ha with rfl | rfl
      · exact key _ _ _ pos hpin (by omega)
      · exact key _ _ _ t ht1 (by omega)
    | some n =>
      obtain ⟨hn1, hn2⟩ := hnin n rfl
      simp only [assemble, finalSt, optNum, hnf, ht2, hn2, List.nil_append, corners_map1, corners_map2,
        corners_map3, optTable, List.mem_cons, List.mem_append, List.not_mem_nil, or_false,
        if_false, decide_false] at ha
      rcases ha with (rfl | rfl) | rfl
      · exact key _ _ _ pos hpin (by omega)
      · exact key _ _ _ t ht1 (by omega)
      · exact key _ _ _ n hn1 (by omega)

/-- **OBJ round trip at record level**, for any number codec whose print/parse round trip on the
    printed components is `r`.  Component counts of the source attributes are arbitrary
    (`ConvertValue` pads with 0 / truncates, see `floatsAt`). -/
theorem decode_encode (c : NumCodec Tok) (r : Nat → Nat) (g : Geometry) (pos : Attribute)
    (hmesh : g.isMesh = true) (hfaces : g.faces ≠ [])
    (hpos : g.ioNamedAtt tPOSITION = some pos) (hvalid : g.valid = true)
    (hpdt : pos.dataType = dtFLOAT32)
    (htdt : ∀ t, texOf g = some t → t.dataType = dtFLOAT32)
    (hndt : ∀ n, nrmOf g = some n → n.dataType = dtFLOAT32)
    (hcp : CodecOn c r pos 3) (hct : OptCodecOn c r 2 (texOf g)) (hcn : OptCodecOn c r 3 (nrmOf g)) :
    ∃ lines g', encodeE c g = .ok lines ∧ decodeE c true lines = .ok g' ∧
      g'.isMesh = true ∧ g'.faces.length = g.faces.length ∧ facesInRange g' ∧
      (∀ p q, p < g'.numPoints → q < g'.numPoints →
        (∀ (k : Nat) (a' : Attribute), g'.atts[k]? = some a' → a'.ioPointValue p = a'.ioPointValue q) → p = q) ∧
      g'.atts.length = 1 + (texOf g).toList.length + (nrmOf g).toList.length ∧
      (∃ p', g'.atts[0]? = some p' ∧ p'.attType = tPOSITION ∧ p'.dataType = dtFLOAT32 ∧
        p'.numComponents = 3 ∧ cornerValues p' g'.faces = rtCorner r pos 3 g.faces) ∧
      (∀ t, texOf g = some t → ∃ t', g'.atts[1]? = some t' ∧ t'.attType = tTEX_COORD ∧
        t'.dataType = dtFLOAT32 ∧ t'.numComponents = 2 ∧ cornerValues t' g'.faces = rtCorner r t 2 g.faces) ∧
      (∀ n, nrmOf g = some n → ∃ n', g'.atts[1 + (texOf g).toList.length]? = some n' ∧ n'.attType = tNORMAL ∧
        n'.dataType = dtFLOAT32 ∧ n'.numComponents = 3 ∧ cornerValues n' g'.faces = rtCorner r n 3 g.faces) := by
  obtain ⟨hmem, -⟩ := namedAtt_mem g _ pos hpos
  have hpin := inRangeOn_of_valid g hvalid pos hmem
  have hnf : g.faces.length ≠ 0 := by
    intro h; exact hfaces (List.length_eq_zero_iff.mp h)
  -- a face exists, so the position table is not empty
  have hnv : pos.numValues ≠ 0 := by
    cases hfl : g.faces with
    | nil => exact absurd hfl hfaces
    | cons f fs => have := (hpin f (by rw [hfl]; simp)).1; omega
  have henc := encodeE_eq c g pos hmesh hfaces hpos hvalid hnv hpdt htdt hndt
  -- abbreviations
  generalize htex : texOf g = tex at *
  generalize hnrm : nrmOf g = nrm at *
  have htin : ∀ t, tex = some t → InRangeOn t g.faces ∧ t.numValues ≠ 0 := by
    intro t ht
    have := texOf_some g t (by rw [htex, ht])
    exact ⟨inRangeOn_of_valid g hvalid t this.1, this.2.2⟩
  have hnin : ∀ t, nrm = some t → InRangeOn t g.faces ∧ t.numValues ≠ 0 := by
    intro t ht
    have := nrmOf_some g t (by rw [hnrm, ht])
    exact ⟨inRangeOn_of_valid g hvalid t this.1, this.2.2⟩
  let cn : Counts := { np := pos.numValues, nt := optNum tex, nn := optNum nrm, nf := g.faces.length }
  have hcount := countLines_encoded c pos tex nrm g.faces
  have hvals := stepLines_values c r cn pos tex nrm hcp hct hcn
  have hfs := stepLines_f c cn pos tex nrm rfl rfl rfl g.faces (by
    intro f hf p hp
    have h1 := hpin f hf
    refine ⟨by rcases hp with rfl | rfl | rfl <;> simp [h1], ?_, ?_⟩
    · intro t ht
      have := htin t ht
      have h2 := this.1 f hf
      exact ⟨by rcases hp with rfl | rfl | rfl <;> simp [h2], this.2⟩
    · intro t ht
      have := hnin t ht
      have h2 := this.1 f hf
      exact ⟨by rcases hp with rfl | rfl | rfl <;> simp [h2], this.2⟩)
    { pos := rtTable r pos 3, tex := optTable r 2 tex, nrm := optTable r 3 nrm, corners := [] }
  have hstep := stepLines_append c cn _ (g.faces.map (fLine pos tex nrm)) {} _ hvals
  rw [hfs] at hstep
  -- the decoder
  have hdec : decodeE c true (vLines c pos ++ optLines (vtLines c) tex ++ optLines (vnLines c) nrm ++
      g.faces.map (fLine pos tex nrm)) =
      .ok (assemble true cn (finalSt r pos tex nrm g.faces)).ioDedupValues.ioDedupPointIds := by
    unfold decodeE
    rw [hcount]
    simp only
    rw [hstep]
    simp [hnf, finalSt, cn]
  have hGf : (assemble true cn (finalSt r pos tex nrm g.faces)).faces = triFaces g.faces.length := by
    simp [assemble, cn, hnf, triFaces]
  have hGn : (assemble true cn (finalSt r pos tex nrm g.faces)).numPoints = 3 * g.faces.length := by
    simp [assemble, cn, hnf]
  refine ⟨_, _, henc, hdec, ?_, ?_, ?_, ?_, ?_⟩
  · rw [dedup_isMesh]; rfl
  · rw [dedup_faces_length]; simp [assemble, finalSt, cn, hnf]
  · apply dedup_facesInRange
    intro f hf; rw [hGf] at hf; rw [hGn]; exact triFaces_inRange _ f hf
  · intro p q hp hq hv
    have hall := assembled_all_ok r pos tex nrm g.faces hnf hpin htin hnin
    exact dedup_separates _ (by rw [hGn]; omega)
      (fun a ha => ⟨by rw [hGn]; exact (hall a ha).1, (hall a ha).2.1, fun hm => absurd hm (hall a ha).2.2⟩)
      p q hp hq hv
  · -- attributes, by cases on which optional attributes exist
    cases tex with
    | none =>
      cases nrm with
      | none =>
        have hG : ∀ a ∈ (assemble true cn (finalSt r pos none none g.faces)).atts,
            AttOk a (3 * g.faces.length) := by
          intro a ha
          simp only [assemble, finalSt, cn, optNum, hnf, List.nil_append, corners_map1, List.mem_cons,
            List.not_mem_nil, or_false, if_true, if_false, decide_false] at ha
          subst ha
          exact assembledAtt_ok _ _ _ r pos g.faces hpin
        refine ⟨(by rw [dedup_atts_length]; simp [assemble, finalSt, cn, optNum]), ?_, (by intro t ht; cases ht),
          (by intro t ht; cases ht)⟩
        obtain ⟨a', k1, k2, k3, k4, k5⟩ := final_att _ g.faces hGf hGn (by rw [hGn]; exact hG) 0 tPOSITION 3 0 r pos
          (by simp [assemble, finalSt, cn, optNum, hnf, corners_map1]) hpin
        exact ⟨a', k1, k2, k3, k4, k5⟩
      | some n =>
        obtain ⟨hn1, hn2⟩ := hnin n rfl
        have hG : ∀ a ∈ (assemble true cn (finalSt r pos none (some n) g.faces)).atts,
            AttOk a (3 * g.faces.length) := by
          intro a ha
          simp only [assemble, finalSt, cn, optNum, hnf, hn2, List.nil_append, corners_map1, corners_map3, optTable,
            List.mem_cons, List.mem_append, List.not_mem_nil, or_false, if_true, if_false, decide_false] at ha
          rcases ha with rfl | rfl
          · exact assembledAtt_ok _ _ _ r pos g.faces hpin
          · exact assembledAtt_ok _ _ _ r n g.faces hn1
        refine ⟨(by rw [dedup_atts_length]; simp [assemble, finalSt, cn, optNum, hn2]), ?_, (by intro t ht; cases ht), ?_⟩
        · obtain ⟨a', k1, k2, k3, k4, k5⟩ := final_att _ g.faces hGf hGn (by rw [hGn]; exact hG) 0 tPOSITION 3 0 r pos
            (by simp [assemble, finalSt, cn, optNum, hnf, hn2, corners_map1]) hpin
          exact ⟨a', k1, k2, k3, k4, k5⟩
        · intro t ht
          cases ht
          obtain ⟨a', k1, k2, k3, k4, k5⟩ := final_att _ g.faces hGf hGn (by rw [hGn]; exact hG) 1 tNORMAL 3 1 r n
            (by simp [assemble, finalSt, cn, optNum, hnf, hn2, corners_map3, optTable]) hn1
          exact ⟨a', by simpa using k1, k2, k3, k4, k5⟩
    | some t =>
      obtain ⟨ht1, ht2⟩ := htin t rfl
      cases nrm with
      | none =>
        have hG : ∀ a ∈ (assemble true cn (finalSt r pos (some t) none g.faces)).atts,
            AttOk a (3 * g.faces.length) := by
          intro a ha
          simp only [assemble, finalSt, cn, optNum, hnf, ht2, List.nil_append, corners_map1, corners_map2, optTable,
            List.mem_cons, List.mem_append, List.not_mem_nil, or_false, if_true, if_false, decide_false] at ha
          rcases ha with rfl | rfl
          · exact assembledAtt_ok _ _ _ r pos g.faces hpin
          · exact assembledAtt_ok _ _ _ r t g.faces ht1
        refine ⟨(by rw [dedup_atts_length]; simp [assemble, finalSt, cn, optNum, ht2]), ?_, ?_, (by intro t ht; cases ht)⟩
        · obtain ⟨a', k1, k2, k3, k4, k5⟩ := final_att _ g.faces hGf hGn (by rw [hGn]; exact hG) 0 tPOSITION 3 0 r pos
            (by simp [assemble, finalSt, cn, optNum, hnf, ht2, corners_map1]) hpin
          exact ⟨a', k1, k2, k3, k4, k5⟩
        · intro t' ht'
          cases ht'
          obtain ⟨a', k1, k2, k3, k4, k5⟩ := final_att _ g.faces hGf hGn (by rw [hGn]; exact hG) 1 tTEX_COORD 2 1 r t
            (by simp [assemble, finalSt, cn, optNum, hnf, ht2, corners_map2, optTable]) ht1
          exact ⟨a', k1, k2, k3, k4, k5⟩
      | some n =>
        obtain ⟨hn1, hn2⟩ := hnin n rfl
        have hG : ∀ a ∈ (assemble true cn (finalSt r pos (some t) (some n) g.faces)).atts,
            AttOk a (3 * g.faces.length) := by
          intro a ha
          simp only [assemble, finalSt, cn, optNum, hnf, ht2, hn2, List.nil_append, corners_map1, corners_map2,
            corners_map3, optTable, List.mem_cons, List.mem_append, List.not_mem_nil, or_false,
            if_false, decide_false] at ha
          rcases ha with (rfl | rfl) | rfl
          · exact assembledAtt_ok _ _ _ r pos g.faces hpin
          · exact assembledAtt_ok _ _ _ r t g.faces ht1
          · exact assembledAtt_ok _ _ _ r n g.faces hn1
        refine ⟨(by rw [dedup_atts_length]; simp [assemble, finalSt, cn, optNum, ht2, hn2]), ?_, ?_, ?_⟩
        · obtain ⟨a', k1, k2, k3, k4, k5⟩ := final_att _ g.faces hGf hGn (by rw [hGn]; exact hG) 0 tPOSITION 3 0 r pos
            (by simp [assemble, finalSt, cn, optNum, hnf, ht2, hn2, corners_map1]) hpin
          exact ⟨a', k1, k2, k3, k4, k5⟩
        · intro t' ht'
          cases ht'
          obtain ⟨a', k1, k2, k3, k4, k5⟩ := final_att _ g.faces hGf hGn (by rw [hGn]; exact hG) 1 tTEX_COORD 2 1 r t
            (by simp [assemble, finalSt, cn, optNum, hnf, ht2, hn2, corners_map2, optTable]) ht1
          exact ⟨a', k1, k2, k3, k4, k5⟩
        · intro n' hn'
          cases hn'
          obtain ⟨a', k1, k2, k3, k4, k5⟩ := final_att _ g.faces hGf hGn (by rw [hGn]; exact hG) 2 tNORMAL 3 2 r n
            (by simp [assemble, finalSt, cn, optNum, hnf, ht2, hn2, corners_map3, optTable]) hn1
          exact ⟨a', by simpa using k1, k2, k3, k4, k5⟩

/-! ### connectivity -/

/-- the point at every face corner, face after face -/
def cornerPoints (faces : List (Nat × Nat × Nat)) : List Nat := faces.flatMap (fun f => [f.1, f.2.1, f.2.2])

/-- flattened per-corner values -/
def flatValues (cv : List (Bytes × Bytes × Bytes)) : List Bytes := cv.flatMap (fun v => [v.1, v.2.1, v.2.2])

theorem flatValues_cornerValues (a : Attribute) (faces : List (Nat × Nat × Nat)) :
    flatValues (cornerValues a faces) = (cornerPoints faces).map a.ioPointValue := by
  induction faces with
  | nil => rfl
  | cons f fs ih =>
    obtain ⟨x, y, z⟩ := f
    simp only [cornerValues, flatValues, cornerPoints, List.map_cons, List.flatMap_cons, List.map_append] at ih ⊢
    rw [ih]
    rfl

/-- expected value at every corner, flattened -/
def rtFlat (r : Nat → Nat) (a : Attribute) (k : Nat) (faces : List (Nat × Nat × Nat)) : List Bytes :=
  flatValues (rtCorner r a k faces)

theorem cornerPoints_lt (g : Geometry) (hf : facesInRange g) (i p : Nat) (h : (cornerPoints g.faces)[i]? = some p) :
    p < g.numPoints := by
  have hm : p ∈ cornerPoints g.faces := List.mem_of_getElem? h
  simp only [cornerPoints, List.mem_flatMap] at hm
  obtain ⟨f, hfm, hp⟩ := hm
  obtain ⟨h1, h2, h3⟩ := hf f hfm
  simp at hp
  rcases hp with rfl | rfl | rfl <;> assumption

/-- **OBJ connectivity / seams**: in the mesh read back, two face corners (numbered face after face,
    the same numbering as in the source mesh) refer to the same point **iff** the re-parsed
    position, texture coordinate and normal of the two source corners coincide.  So the point
    structure of the result is exactly the partition of the source corners by their (re-parsed)
    attribute values: no seam is lost, none is invented — except through the codec identifying
    two different numbers (`r` not injective). -/
theorem connectivity (c : NumCodec Tok) (r : Nat → Nat) (g : Geometry) (pos : Attribute)
    (hmesh : g.isMesh = true) (hfaces : g.faces ≠ [])
    (hpos : g.ioNamedAtt tPOSITION = some pos) (hvalid : g.valid = true)
    (hpdt : pos.dataType = dtFLOAT32)
    (htdt : ∀ t, texOf g = some t → t.dataType = dtFLOAT32)
    (hndt : ∀ n, nrmOf g = some n → n.dataType = dtFLOAT32)
    (hcp : CodecOn c r pos 3) (hct : OptCodecOn c r 2 (texOf g)) (hcn : OptCodecOn c r 3 (nrmOf g)) :
    ∃ lines g', encodeE c g = .ok lines ∧ decodeE c true lines = .ok g' ∧
      (cornerPoints g'.faces).length = (cornerPoints g.faces).length ∧
      ∀ (i j p q : Nat), (cornerPoints g'.faces)[i]? = some p → (cornerPoints g'.faces)[j]? = some q →
        (p = q ↔
          ((rtFlat r pos 3 g.faces)[i]? = (rtFlat r pos 3 g.faces)[j]? ∧
           (∀ t, texOf g = some t → (rtFlat r t 2 g.faces)[i]? = (rtFlat r t 2 g.faces)[j]?) ∧
           (∀ n, nrmOf g = some n → (rtFlat r n 3 g.faces)[i]? = (rtFlat r n 3 g.faces)[j]?))) := by
  obtain ⟨lines, g', henc, hdec, -, hfl, hfr, hsep, hal, ⟨p', hp0, -, -, -, hpc⟩, htex, hnrm⟩ :=
    decode_encode c r g pos hmesh hfaces hpos hvalid hpdt htdt hndt hcp hct hcn
  refine ⟨lines, g', henc, hdec, ?_, ?_⟩
  · simp only [cornerPoints]
    rw [Stl.flatMap3_length, Stl.flatMap3_length, hfl]
  intro i j p q hi hj
  have hp : p < g'.numPoints := cornerPoints_lt g' hfr i p hi
  have hq : q < g'.numPoints := cornerPoints_lt g' hfr j q hj
  -- value of an attribute of g' at the two corners, in terms of the flattened lists
  have hval : ∀ (a' : Attribute) (exp : List Bytes), flatValues (cornerValues a' g'.faces) = exp →
      (exp[i]? = exp[j]? ↔ a'.ioPointValue p = a'.ioPointValue q) := by
    intro a' exp he
    rw [← he, flatValues_cornerValues, List.getElem?_map, List.getElem?_map, hi, hj]
    simp
  have hP := hval p' (rtFlat r pos 3 g.faces) (by rw [hpc]; rfl)
  constructor
  · intro hpq
    subst hpq
    refine ⟨hP.mpr rfl, ?_, ?_⟩
    · intro t ht
      obtain ⟨t', -, -, -, -, htc⟩ := htex t ht
      exact (hval t' (rtFlat r t 2 g.faces) (by rw [htc]; rfl)).mpr rfl
    · intro n hn
      obtain ⟨n', -, -, -, -, hnc⟩ := hnrm n hn
      exact (hval n' (rtFlat r n 3 g.faces) (by rw [hnc]; rfl)).mpr rfl
  · intro ⟨e1, e2, e3⟩
    apply hsep p q hp hq
    intro k a' hk
    -- which attribute is it?
    have hklt : k < g'.atts.length := by
      by_contra hc; rw [List.getElem?_eq_none (by omega)] at hk; cases hk
    rw [hal] at hklt
    cases ht : texOf g with
    | none =>
      cases hn : nrmOf g with
      | none =>
        rw [ht, hn] at hklt
        simp at hklt; subst hklt
        rw [hp0] at hk; cases hk
        exact hP.mp e1
      | some n =>
        rw [ht, hn] at hklt
        simp at hklt
        obtain ⟨n', hn0, -, -, -, hnc⟩ := hnrm n hn
        rw [ht] at hn0; simp at hn0
        have : k = 0 ∨ k = 1 := by omega
        rcases this with rfl | rfl
        · rw [hp0] at hk; cases hk; exact hP.mp e1
        · rw [hn0] at hk; cases hk
          exact (hval _ (rtFlat r n 3 g.faces) (by rw [hnc]; rfl)).mp (e3 n hn)
    | some t =>
      obtain ⟨t', ht0, -, -, -, htc⟩ := htex t ht
      cases hn : nrmOf g with
      | none =>
        rw [ht, hn] at hklt
        simp at hklt
        have : k = 0 ∨ k = 1 := by omega
        rcases this with rfl | rfl
        · rw [hp0] at hk; cases hk; exact hP.mp e1
        · rw [ht0] at hk; cases hk
          exact (hval _ (rtFlat r t 2 g.faces) (by rw [htc]; rfl)).mp (e2 t ht)
      | some n =>
        rw [ht, hn] at hklt
        simp at hklt
        obtain ⟨n', hn0, -, -, -, hnc⟩ := hnrm n hn
        rw [ht] at hn0; simp at hn0
        have : k = 0 ∨ k = 1 ∨ k = 2 := by omega
        rcases this with rfl | rfl | rfl
        · rw [hp0] at hk; cases hk; exact hP.mp e1
        · rw [ht0] at hk; cases hk
          exact (hval _ (rtFlat r t 2 g.faces) (by rw [htc]; rfl)).mp (e2 t ht)
        · rw [hn0] at hk; cases hk
          exact (hval _ (rtFlat r n 3 g.faces) (by rw [hnc]; rfl)).mp (e3 n hn)

/-! ### values: injectivity and components -/

theorem leBytes4_inj (x y : Nat) (hx : x < 2 ^ 32) (hy : y < 2 ^ 32) (h : leBytes 4 x = leBytes 4 y) : x = y := by
  have := congrArg leVal h
  rw [leVal_leBytes, leVal_leBytes] at this
  have e : (256 : Nat) ^ 4 = 2 ^ 32 := by decide
  rw [e, Nat.mod_eq_of_lt hx, Nat.mod_eq_of_lt hy] at this
  exact this

theorem flatten_map_inj (f : Nat → Bytes) (hf : ∀ b, (f b).length = 4) : ∀ (L1 L2 : List Nat),
    L1.length = L2.length → (L1.map f).flatten = (L2.map f).flatten → L1.map f = L2.map f := by
  intro L1
  induction L1 with
  | nil => intro L2 hl _; cases L2 with
    | nil => rfl
    | cons _ _ => simp at hl
  | cons a as ih =>
    intro L2 hl h
    cases L2 with
    | nil => simp at hl
    | cons b bs =>
      simp only [List.map_cons, List.flatten_cons] at h ⊢
      obtain ⟨h1, h2⟩ := List.append_inj h (by rw [hf, hf])
      rw [h1, ih bs (by simpa using hl) h2]

/-- with a codec that does not identify two different numbers, equal re-parsed values mean equal
    source components -/
theorem rtValue_eq_iff (r : Nat → Nat) (a : Attribute) (k i j : Nat) (h32 : ∀ b, r b < 2 ^ 32)
    (hinj : ∀ x ∈ floatsAt a i k, ∀ y ∈ floatsAt a j k, r x = r y → x = y) :
    rtValue r a k i = rtValue r a k j ↔ floatsAt a i k = floatsAt a j k := by
  constructor
  · intro h
    unfold rtValue at h
    have hl : (floatsAt a i k).length = (floatsAt a j k).length := by simp [floatsAt]
    have hm := flatten_map_inj (fun b => leBytes 4 (r b)) (fun b => leBytes_length 4 _) _ _ hl h
    apply List.ext_getElem hl
    intro n h1 h2
    have := congrArg (fun l => l[n]?) hm
    simp only [List.getElem?_map, List.getElem?_eq_getElem h1, List.getElem?_eq_getElem h2, Option.map_some,
      Option.some.injEq] at this
    exact hinj _ (List.getElem_mem h1) _ (List.getElem_mem h2) (leBytes4_inj _ _ (h32 _) (h32 _) this)
  · intro h; unfold rtValue; rw [h]

/-- float32 bit patterns of the `k` components stored in a `4·k`-byte value -/
def comps (k : Nat) (v : Bytes) : List Nat := (List.range k).map (fun c => leVal ((v.drop (4 * c)).take 4))

/-- every component of a re-parsed value is `r` of the corresponding source component -/
theorem comps_rtValue (r : Nat → Nat) (a : Attribute) (k i : Nat) (h32 : ∀ b, r b < 2 ^ 32) :
    comps k (rtValue r a k i) = (floatsAt a i k).map r := by
  unfold comps rtValue
  have hall : ∀ x ∈ (floatsAt a i k).map (fun b => leBytes 4 (r b)), x.length = 4 := by
    intro x hx; simp only [List.mem_map] at hx; obtain ⟨b, -, rfl⟩ := hx; exact leBytes_length 4 _
  have hlen : ((floatsAt a i k).map (fun b => leBytes 4 (r b))).length = k := by simp [floatsAt]
  apply List.ext_getElem
  · simp [floatsAt]
  · intro n h1 h2
    have hn : n < k := by simpa using h1
    simp only [List.getElem_map, List.getElem_range]
    have := flatten_chunk 4 _ n (by rw [hlen]; exact hn) hall
    rw [Nat.mul_comm 4 n, this]
    simp only [List.getElem_map]
    rw [leVal_leBytes]
    have e : (256 : Nat) ^ 4 = 2 ^ 32 := by decide
    rw [e, Nat.mod_eq_of_lt (h32 _)]

end Draco.IO.Obj
