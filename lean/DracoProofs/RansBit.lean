import DracoProofs.Yields
import DracoProofs.BitBuf
/-
  C17 (d): RAnsBitEncoder / RAnsBitDecoder.  The encoder's word buffer (`bits_`,
  `local_bits_`, `num_local_bits_`) is abstracted to the flat list of coded bits (`flat`);
  `EndEncoding` + `StartDecoding` produce a decoder that yields exactly that list.
-/
namespace Draco

/-- the coded bits in coding order: full words oldest first, each least significant bit first,
    then the `num_local_bits_` low bits of `local_bits_` -/
def RAnsBitEnc.flat (e : RAnsBitEnc) : List Bool :=
  e.words.reverse.flatMap (bitsOf 32) ++ bitsOf e.num e.loc

/-- `num_local_bits_ < 32` and `local_bits_` has no bits above `num_local_bits_` -/
def RAnsBitEnc.Inv (e : RAnsBitEnc) : Prop := e.num < 32 ∧ e.loc < 2^e.num

theorem bitsOf_snoc (n : Nat) : ∀ w, bitsOf (n+1) w = bitsOf n w ++ [(w / 2^n) % 2 == 1] := by
  induction n with
  | zero => intro w; simp [bitsOf]
  | succ n ih =>
    intro w
    rw [bitsOf_succ, ih (w / 2), bitsOf_succ n w, List.cons_append, Nat.div_div_eq_div_mul,
      Nat.pow_succ, Nat.mul_comm (2^n) 2]

theorem msbBits_eq_reverse (n w : Nat) : msbBits n w = (bitsOf n w).reverse := by
  induction n with
  | zero => rfl
  | succ n ih => rw [bitsOf_snoc, List.reverse_append, msbBits, ih]; rfl

theorem bitsOf_add_pow (n : Nat) : ∀ (m a c : Nat), a < 2^n →
    bitsOf (n + m) (a + 2^n * c) = bitsOf n a ++ bitsOf m c := by
  induction n with
  | zero => intro m a c ha; simp at ha; subst ha; simp [bitsOf]
  | succ n ih =>
    intro m a c ha
    have e : n + 1 + m = (n + m) + 1 := by omega
    rw [e, bitsOf_succ, bitsOf_succ n a, List.cons_append]
    have hp : 2^(n+1) * c = 2 * (2^n * c) := by rw [Nat.pow_succ]; ring
    rw [hp]
    have h1 : (a + 2 * (2^n * c)) % 2 = a % 2 := by omega
    have h2 : (a + 2 * (2^n * c)) / 2 = a / 2 + 2^n * c := by omega
    rw [h1, h2, ih m (a / 2) c (by rw [Nat.pow_succ] at ha; omega)]

theorem RAnsBitEnc.bitsDesc_eq (e : RAnsBitEnc) : e.bitsDesc = e.flat.reverse := by
  unfold RAnsBitEnc.bitsDesc RAnsBitEnc.flat
  rw [List.reverse_append, List.reverse_flatMap, List.reverse_reverse, msbBits_eq_reverse]
  congr 2
  funext w
  simp [msbBits_eq_reverse]

theorem RAnsBitEnc.start_flat : RAnsBitEnc.start.flat = [] := by
  simp [RAnsBitEnc.start, RAnsBitEnc.flat, bitsOf]

theorem RAnsBitEnc.start_inv : RAnsBitEnc.start.Inv := by
  simp [RAnsBitEnc.start, RAnsBitEnc.Inv]

/-- pushing a completed word or keeping the local bits: both describe `bits ++ new` -/
theorem flat_push (words : List Nat) (loc' : Nat) (c0 c1 : Nat) :
    (⟨c0, c1, loc' :: words, 0, 0⟩ : RAnsBitEnc).flat =
      words.reverse.flatMap (bitsOf 32) ++ bitsOf 32 loc' := by
  simp [RAnsBitEnc.flat, bitsOf]

theorem RAnsBitEnc.encodeBit_spec (e : RAnsBitEnc) (b : Bool) (he : e.Inv) :
    (e.encodeBit b).flat = e.flat ++ [b] ∧ (e.encodeBit b).Inv := by
  obtain ⟨c0, c1, words, loc, num⟩ := e
  obtain ⟨hnum, hloc⟩ := he
  simp only at hnum hloc
  have hpow : (1 <<< num) % 2^32 = 2^num := by
    rw [Nat.shiftLeft_eq, Nat.one_mul]
    exact Nat.mod_eq_of_lt (Nat.pow_lt_pow_right (by decide) hnum)
  have hor : loc ||| 2^num = loc + 2^num * 1 := by
    have := Nat.two_pow_add_eq_or_of_lt hloc 1
    rw [Nat.mul_one] at this
    rw [Nat.or_comm, ← this]; omega
  have hlt1 : loc + 2^num * 1 < 2^(num+1) := by rw [Nat.pow_succ]; omega
  have hlt0 : loc < 2^(num+1) := by rw [Nat.pow_succ]; omega
  have hb1 : bitsOf (num + 1) (loc + 2^num * 1) = bitsOf num loc ++ [true] :=
    bitsOf_add_pow num 1 loc 1 hloc
  have hb0 : bitsOf (num + 1) loc = bitsOf num loc ++ [false] := by
    have := bitsOf_add_pow num 1 loc 0 hloc
    simpa [bitsOf] using this
  unfold RAnsBitEnc.encodeBit
  cases b with
  | true =>
    simp only [if_true, hpow, hor]
    by_cases h32 : num + 1 = 32
    · simp only [h32, if_true]
      refine ⟨?_, by simp [RAnsBitEnc.Inv]⟩
      rw [flat_push]
      simp only [RAnsBitEnc.flat, List.append_assoc]
      rw [← h32, hb1]
    · simp only [h32, if_false]
      refine ⟨?_, by simp only [RAnsBitEnc.Inv]; exact ⟨by omega, hlt1⟩⟩
      simp only [RAnsBitEnc.flat, List.append_assoc, hb1]
  | false =>
    simp only [Bool.false_eq_true, if_false]
    by_cases h32 : num + 1 = 32
    · simp only [h32, if_true]
      refine ⟨?_, by simp [RAnsBitEnc.Inv]⟩
      rw [flat_push]
      simp only [RAnsBitEnc.flat, List.append_assoc]
      rw [← h32, hb0]
    · simp only [h32, if_false]
      refine ⟨?_, by simp only [RAnsBitEnc.Inv]; exact ⟨by omega, hlt0⟩⟩
      simp only [RAnsBitEnc.flat, List.append_assoc, hb0]

theorem clampZeroProb_ok (raw : Nat) : ProbOK (clampZeroProb raw) := by
  unfold clampZeroProb ProbOK
  simp only
  split <;> split <;> omega

theorem rabsWriteAll_eq (tab : List (Nat × Nat)) (p0 : Nat) (bits : List Bool) (a : AnsCoder) :
    rabsWriteAll tab p0 bits a = writePairs tab (bits.map (fun b => (b, p0))) a := by
  simp only [rabsWriteAll, writePairs, List.foldl_map]

theorem ransBit_yields (zp : Nat) : ∀ (F : List Bool) (d : AnsDecoder),
    RawYields d (F.map (fun b => (b, zp))) → Yields RAnsBitDec.nextBit ⟨zp, d⟩ F := by
  intro F
  induction F with
  | nil => intro d _; trivial
  | cons b F ih =>
    intro d h
    obtain ⟨h1, h2⟩ := h
    exact ⟨h1, ih _ h2⟩

/-- `StartDecoding` on `prob_zero, varint size, body` (all kept opaque) -/
theorem ransBitStart_bytes (zp : Nat) (hdr body rest : Bytes) (d : AnsDecoder)
    (hhdr : readSize32 false (hdr ++ (body ++ rest)) = some (body.length, body ++ rest))
    (hinit : ansReadInit body = some d) :
    ransBitStart false (zp :: (hdr ++ (body ++ rest))) = some (⟨zp, d⟩, rest) := by
  unfold ransBitStart
  simp only [readU8]
  rw [hhdr]
  have e2 : ¬ body.length > (body ++ rest).length := by simp
  simp only [e2, if_false, List.take_left', List.drop_left', hinit]

/-- the bytes of `EndEncoding` in terms of the flat bit list -/
theorem RAnsBitEnc.finish_eq (tab : List (Nat × Nat)) (zpr : Nat → Nat → Nat) (e : RAnsBitEnc) :
    ∃ zp, ProbOK zp ∧ e.finish tab zpr =
      zp :: (encVarint ((ansWriteEnd (writePairs tab (e.flat.map (fun b => (b, zp))).reverse
              ansWriteInit)).length % 2^32) ++
            ansWriteEnd (writePairs tab (e.flat.map (fun b => (b, zp))).reverse ansWriteInit)) := by
  refine ⟨clampZeroProb (zpr e.c0 (if e.c0 + e.c1 = 0 then 1 else e.c0 + e.c1)),
    clampZeroProb_ok _, ?_⟩
  simp only [RAnsBitEnc.finish, rabsWriteAll_eq, RAnsBitEnc.bitsDesc_eq, List.map_reverse]

/-- the coder-level statement for `RAnsBit`: after `EndEncoding`, `StartDecoding` succeeds,
    consumes exactly the written bytes and the decoder yields the coded bits -/
theorem ransBit_start_finish (tab : List (Nat × Nat)) (hd : DivOK tab) (zpr : Nat → Nat → Nat)
    (e : RAnsBitEnc) (hlen : e.flat.length + 3 < 2^32) (rest : Bytes) :
    ∃ d, ransBitStart false (e.finish tab zpr ++ rest) = some (d, rest) ∧
      Yields RAnsBitDec.nextBit d e.flat := by
  obtain ⟨zp, hzp, hfin⟩ := RAnsBitEnc.finish_eq tab zpr e
  rw [hfin]
  have hps : ∀ x ∈ e.flat.map (fun b => (b, zp)), ProbOK x.2 := by
    intro x hx
    simp only [List.mem_map] at hx
    obtain ⟨b, _, hb⟩ := hx
    subst hb; exact hzp
  have hchain := rabs_chain tab hd (e.flat.map (fun b => (b, zp))) ansWriteInit
  have hva := writePairs_valid tab hd (e.flat.map (fun b => (b, zp))).reverse _ ansWriteInit_valid
    (fun y hy => hps y (by simpa using hy))
  have hol := writePairs_out_length tab (e.flat.map (fun b => (b, zp))).reverse ansWriteInit
  rw [List.length_reverse, List.length_map] at hol
  generalize writePairs tab (e.flat.map (fun b => (b, zp))).reverse ansWriteInit = a at *
  have hol' : a.out.length ≤ e.flat.length := by
    have : ansWriteInit.out.length = 0 := rfl
    omega
  obtain ⟨hl1, _⟩ := ansWriteEnd_length a hva
  have hinit := ansReadInit_writeEnd a hva
  have hlt : (ansWriteEnd a).length < 2^32 := by omega
  generalize ansWriteEnd a = body at *
  refine ⟨⟨zp, a.toDec⟩, ?_, ?_⟩
  · rw [List.cons_append, List.append_assoc]
    apply ransBitStart_bytes zp _ body rest _ _ hinit
    rw [Nat.mod_eq_of_lt hlt]
    simp only [readSize32, Bool.false_eq_true, if_false]
    exact decVarint_enc (w := 32) (by simp) body.length hlt _
  · apply ransBit_yields
    exact hchain a.toDec ansWriteInit_valid hps (ansPull_of_ge _ hva.1)

theorem ransBit_stdStep : StdStep RAnsBitDec.nextBit RAnsBitDec.req := by
  intro d
  constructor
  · simp only [RAnsBitDec.req]
  · intro n; simp only [RAnsBitDec.req, RAnsBitDec.lsb32]

theorem ransBitDecode_of_start (legacy : Bool) (reqs : List BitReq) (input rest : Bytes)
    (d : RAnsBitDec) (h : ransBitStart legacy input = some (d, rest)) :
    ransBitDecode legacy reqs input = some ((runReqs RAnsBitDec.req reqs d []).1, rest) := by
  unfold ransBitDecode
  rw [h]

end Draco
