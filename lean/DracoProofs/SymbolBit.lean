import DracoProofs.Direct
/-
  C17 (d): SymbolBitEncoder / SymbolBitDecoder over an abstract symbol coder
  (`EncodeSymbols` / `DecodeSymbols` with one component, modelled elsewhere).
-/
namespace Draco

theorem keepLow32_eq (n v : Nat) (hn : n ≤ 32) : keepLow32 n v = v % 2^n := by
  unfold keepLow32
  rw [shl_mod32 v n hn, Nat.shiftRight_eq_div_pow, Nat.mul_div_cancel _ (Nat.pow_pos (by decide))]

/-- the symbol pushed by one encoder call -/
def BitOp.symbol : BitOp → Nat
  | .bit b => if b then 1 else 0
  | .lsb32 n v => v % 2^n

theorem symbolBitOp_eq (e : List Nat) (op : BitOp) (hop : op.Valid) :
    symbolBitOp e op = op.symbol :: e := by
  cases op with
  | bit b => cases b <;> simp [symbolBitOp, BitOp.symbol, keepLow32_eq]
  | lsb32 n v => simp [symbolBitOp, BitOp.symbol, keepLow32_eq n v hop.2.1]

theorem symbolBit_foldl : ∀ (ops : List BitOp) (e : List Nat), (∀ op ∈ ops, op.Valid) →
    ops.foldl symbolBitOp e = (ops.map BitOp.symbol).reverse ++ e := by
  intro ops
  induction ops with
  | nil => intro e _; simp
  | cons op ops ih =>
    intro e hv
    rw [List.foldl_cons, symbolBitOp_eq e op (hv op (by simp)), ih _ (fun o ho => hv o (by simp [ho]))]
    simp

theorem symbolBit_run : ∀ (ops : List BitOp) (S : List Nat) (acc : List (Option Nat)),
    (∀ op ∈ ops, op.Valid) →
    (runReqs symbolBitReq (ops.map BitOp.req) (ops.map BitOp.symbol ++ S) acc).1 =
      acc.reverse ++ ops.map (fun op => some op.value) := by
  intro ops
  induction ops with
  | nil => intro S acc _; simp [runReqs]
  | cons op ops ih =>
    intro S acc hv
    have hop := hv op (by simp)
    have hv' : ∀ o ∈ ops, o.Valid := fun o ho => hv o (by simp [ho])
    cases op with
    | bit b =>
      simp only [List.map_cons, List.cons_append, BitOp.req, runReqs, symbolBitReq, BitOp.symbol]
      rw [ih S _ hv']
      cases b <;> simp [BitOp.value, keepLow32_eq]
    | lsb32 n v =>
      simp only [List.map_cons, List.cons_append, BitOp.req, runReqs, symbolBitReq, BitOp.symbol]
      rw [ih S _ hv', keepLow32_eq _ _ hop.2.1]
      simp [BitOp.value]

theorem symbolBitDecode_of_start (decSymbols : Nat → Rd (List Nat)) (reqs : List BitReq)
    (input rest : Bytes) (d : List Nat) (h : symbolBitStart decSymbols input = some (d, rest)) :
    symbolBitDecode decSymbols reqs input = some ((runReqs symbolBitReq reqs d []).1, rest) := by
  unfold symbolBitDecode
  rw [h]

theorem symbolBitStart_bytes (decSymbols : Nat → Rd (List Nat)) (hdr body rest : Bytes)
    (n : Nat) (syms : List Nat)
    (hhdr : readLE 4 (hdr ++ (body ++ rest)) = some (n, body ++ rest))
    (hdec : decSymbols n (body ++ rest) = some (syms, rest)) :
    symbolBitStart decSymbols (hdr ++ (body ++ rest)) = some (syms, rest) := by
  unfold symbolBitStart
  rw [hhdr]
  exact hdec

/-- SymbolBitEncoder / SymbolBitDecoder round trip, given that the symbol coder round-trips
    32-bit symbol lists -/
theorem symbolBit_decode_encode (encSymbols : List Nat → Bytes) (decSymbols : Nat → Rd (List Nat))
    (hsym : ∀ (syms : List Nat) (rest : Bytes), (∀ s ∈ syms, s < 2^32) →
      decSymbols syms.length (encSymbols syms ++ rest) = some (syms, rest))
    (ops : List BitOp) (hv : ∀ op ∈ ops, op.Valid) (hlen : ops.length < 2^32) (rest : Bytes) :
    symbolBitDecode decSymbols (ops.map BitOp.req) (symbolBitEncode encSymbols ops ++ rest) =
      some (ops.map (fun op => some op.value), rest) := by
  have hsyms : ∀ s ∈ ops.map BitOp.symbol, s < 2^32 := by
    intro s hs
    simp only [List.mem_map] at hs
    obtain ⟨op, hop, rfl⟩ := hs
    have := hv op hop
    cases op with
    | bit b => cases b <;> simp [BitOp.symbol]
    | lsb32 n v =>
      simp only [BitOp.symbol]
      exact Nat.lt_of_lt_of_le (Nat.mod_lt _ (Nat.pow_pos (by decide)))
        (Nat.pow_le_pow_right (by decide) this.2.1)
  have henc : symbolBitEncode encSymbols ops =
      writeLE 4 ((ops.map BitOp.symbol).length % 2^32) ++ encSymbols (ops.map BitOp.symbol) := by
    simp only [symbolBitEncode, symbolBit_foldl ops [] hv, List.append_nil, List.reverse_reverse]
  have hdec := hsym (ops.map BitOp.symbol) rest hsyms
  rw [henc, List.append_assoc]
  generalize encSymbols (ops.map BitOp.symbol) = body at *
  have hst := symbolBitStart_bytes decSymbols
    (writeLE 4 ((ops.map BitOp.symbol).length % 2^32)) body rest (ops.map BitOp.symbol).length _
    (by
      rw [readLE_writeLE]
      congr 2
      simp only [List.length_map]
      have : ops.length % 2^32 = ops.length := Nat.mod_eq_of_lt hlen
      rw [this]; exact Nat.mod_eq_of_lt (by simpa using hlen)) hdec
  rw [symbolBitDecode_of_start decSymbols _ _ rest _ hst]
  have := symbolBit_run ops [] [] hv
  rw [List.append_nil] at this
  rw [this]
  simp

end Draco
