import DracoModel.IO.Decimal
import Mathlib.Tactic.Ring
import Mathlib.Tactic.Linarith
import Mathlib.Tactic.NormNum
import Mathlib.Tactic.Positivity
import Mathlib.Tactic.IntervalCases
import Mathlib.Tactic.FieldSimp
import Mathlib.Algebra.Order.Field.Rat
/-
  DracoProofs.IODecimalExact — the exact-arithmetic half of the OBJ number codec:
  `printf("%F")` prints a decimal within 0.5·10⁻⁶ of the float (no floating point hypothesis: the
  text is an exact rounding of a rational), and the digit lists it prints denote that decimal.
-/
namespace Draco.IO.Dec

/-! ### round-half-even division by a power of two -/

theorem divPow2RoundEven_nat (a k : Nat) :
    2 * (divPow2RoundEven a k * 2^k) ≤ 2 * a + 2^k ∧ 2 * a ≤ 2 * (divPow2RoundEven a k * 2^k) + 2^k := by
  unfold divPow2RoundEven
  simp only
  by_cases hk : k = 0
  · subst hk; simp
  · simp only [hk, if_false]
    have hP : 2^k = 2 * 2^(k-1) := by
      cases k with
      | zero => exact absurd rfl hk
      | succ n => simp [pow_succ, mul_comm]
    have hh : 2^k / 2 = 2^(k-1) := by rw [hP]; simp
    have hdm := Nat.div_add_mod a (2^k)
    have hlt := Nat.mod_lt a (Nat.pos_of_ne_zero (by positivity : (2:Nat)^k ≠ 0))
    rw [hh]
    generalize 2^(k-1) = h at *
    generalize hq : a / 2^k = q at *
    generalize hr : a % 2^k = r at *
    rw [hP] at hdm hlt ⊢
    have e1 : (q + 1) * (2 * h) = q * (2 * h) + 2 * h := by ring
    have e2 : 2 * h * q = q * (2 * h) := by ring
    rw [e2] at hdm
    split_ifs <;> first | (rw [e1]; omega) | omega

theorem divPow2RoundEven_rat (a k : Nat) :
    |(divPow2RoundEven a k : ℚ) - (a : ℚ) / 2^k| ≤ 1/2 := by
  obtain ⟨h1, h2⟩ := divPow2RoundEven_nat a k
  have hp : (0:ℚ) < 2^k := by positivity
  have c1 : (2:ℚ) * ((divPow2RoundEven a k : ℚ) * 2^k) ≤ 2 * a + 2^k := by exact_mod_cast h1
  have c2 : (2:ℚ) * a ≤ 2 * ((divPow2RoundEven a k : ℚ) * 2^k) + 2^k := by exact_mod_cast h2
  set x : ℚ := (a : ℚ) / 2^k with hx
  have ha : (a : ℚ) = x * 2^k := by rw [hx]; field_simp
  rw [ha] at c1 c2
  have d1 : 2 * (divPow2RoundEven a k : ℚ) ≤ 2 * x + 1 := by
    have : (2 * (divPow2RoundEven a k : ℚ)) * 2^k ≤ (2 * x + 1) * 2^k := by linarith
    exact le_of_mul_le_mul_right this hp
  have d2 : 2 * x ≤ 2 * (divPow2RoundEven a k : ℚ) + 1 := by
    have : (2 * x) * 2^k ≤ (2 * (divPow2RoundEven a k : ℚ) + 1) * 2^k := by linarith
    exact le_of_mul_le_mul_right this hp
  rw [abs_le]
  constructor <;> linarith

/-! ### the value of a float32 and its 6-decimal rounding -/

/-- `|x|` of a finite float32 bit pattern, as a rational -/
def f32Abs (bits : Nat) : ℚ := (f32Mant bits : ℚ) * (2:ℚ)^(f32Exp bits)

/-- the float32 value of a finite bit pattern -/
def f32Val (bits : Nat) : ℚ := (if f32Neg bits then -1 else 1) * f32Abs bits

/-- the decimal `printf("%F")` prints, without sign -/
def dec6 (bits : Nat) : ℚ := (dec6Scaled bits : ℚ) / 1000000

theorem dec6Scaled_close (bits : Nat) : |(dec6Scaled bits : ℚ) - f32Abs bits * 1000000| ≤ 1/2 := by
  unfold dec6Scaled f32Abs
  simp only
  by_cases hex : f32Exp bits ≥ 0
  · simp only [hex, if_true]
    have : (2:ℚ)^(f32Exp bits) = (2:ℚ)^((f32Exp bits).toNat) := by
      conv_lhs => rw [← Int.toNat_of_nonneg hex]
      exact zpow_natCast 2 _
    rw [this]
    push_cast
    have : (f32Mant bits : ℚ) * 2 ^ (f32Exp bits).toNat * 1000000 -
        (f32Mant bits : ℚ) * 2 ^ (f32Exp bits).toNat * 1000000 = 0 := by ring
    rw [this]; norm_num
  · simp only [hex, if_false]
    have hneg : f32Exp bits = -(((-f32Exp bits).toNat : Nat) : Int) := by
      rw [Int.toNat_of_nonneg (by omega)]; ring
    have : (2:ℚ)^(f32Exp bits) = 1 / (2:ℚ)^((-f32Exp bits).toNat) := by
      conv_lhs => rw [hneg]
      rw [zpow_neg, zpow_natCast]; simp
    rw [this]
    have h := divPow2RoundEven_rat (f32Mant bits * 1000000) (-f32Exp bits).toNat
    push_cast at h
    have e : (f32Mant bits : ℚ) * (1 / 2 ^ (-f32Exp bits).toNat) * 1000000 =
        (f32Mant bits : ℚ) * 1000000 / 2 ^ (-f32Exp bits).toNat := by ring
    rw [e]; exact h

/-- **Exact core of the OBJ precision claim**: the decimal printed for a finite float32 is within
    0.5·10⁻⁶ of it.  No floating point hypothesis. -/
theorem dec6_close (bits : Nat) : |dec6 bits - f32Abs bits| ≤ 5 / 10000000 := by
  have h := dec6Scaled_close bits
  unfold dec6
  have e : (dec6Scaled bits : ℚ) / 1000000 - f32Abs bits =
      ((dec6Scaled bits : ℚ) - f32Abs bits * 1000000) / 1000000 := by ring
  rw [e, abs_div]
  have : |(1000000:ℚ)| = 1000000 := by norm_num
  rw [this, div_le_iff₀ (by norm_num)]
  linarith

theorem f32Abs_nonneg (bits : Nat) : 0 ≤ f32Abs bits := by
  unfold f32Abs
  exact mul_nonneg (Nat.cast_nonneg _) (zpow_nonneg (by norm_num) _)

/-! ### digit lists -/

/-- value of a most-significant-first digit list -/
def val (l : List Nat) : Nat := l.foldl (fun a d => 10 * a + d) 0

theorem foldl_val (l : List Nat) (s : Nat) :
    l.foldl (fun a d => 10 * a + d) s = s * 10^l.length + val l := by
  unfold val
  induction l generalizing s with
  | nil => simp
  | cons d ds ih =>
    simp only [List.foldl_cons, List.length_cons]
    rw [ih (10 * s + d), ih (10 * 0 + d)]
    ring

theorem val_cons (d : Nat) (ds : List Nat) : val (d :: ds) = d * 10^ds.length + val ds := by
  have := foldl_val ds (10 * 0 + d)
  unfold val at *
  simpa using this

theorem fixedDigits_length (w m : Nat) : (fixedDigits w m).length = w := by
  induction w with
  | zero => rfl
  | succ w ih => simp [fixedDigits, ih]

theorem fixedDigits_lt (w m : Nat) : ∀ d ∈ fixedDigits w m, d < 10 := by
  induction w with
  | zero => simp [fixedDigits]
  | succ w ih =>
    intro d hd
    simp only [fixedDigits, List.mem_cons] at hd
    rcases hd with rfl | hd
    · exact Nat.mod_lt _ (by norm_num)
    · exact ih d hd

theorem val_fixedDigits (w m : Nat) : val (fixedDigits w m) = m % 10^w := by
  induction w with
  | zero => simp [fixedDigits, val, Nat.mod_one]
  | succ w ih =>
    rw [fixedDigits, val_cons, ih, fixedDigits_length, Nat.mod_pow_succ]
    ring

theorem fixedDigits_of_lt (k w m : Nat) (hm : m < 10^k) (hk : k ≤ w) :
    fixedDigits w m = List.replicate (w - k) 0 ++ fixedDigits k m := by
  induction w with
  | zero =>
    have : k = 0 := by omega
    subst this; rfl
  | succ w ih =>
    by_cases hkw : k = w + 1
    · subst hkw; simp
    · have hk' : k ≤ w := by omega
      have h0 : m / 10^w = 0 := by
        apply Nat.div_eq_of_lt
        exact lt_of_lt_of_le hm (Nat.pow_le_pow_right (by norm_num) hk')
      rw [fixedDigits, h0, ih hk']
      have : w + 1 - k = (w - k) + 1 := by omega
      rw [this, List.replicate_succ]
      simp

theorem stripZeros_val (l : List Nat) : val (stripZeros l) = val l := by
  induction l with
  | nil => rfl
  | cons d ds ih =>
    cases ds with
    | nil => cases d <;> rfl
    | cons e r =>
      cases d with
      | zero =>
        rw [stripZeros, ih, val_cons (0), val_cons e]
        simp
      | succ n => rfl

theorem stripZeros_mem (l : List Nat) : ∀ d ∈ stripZeros l, d ∈ l := by
  induction l with
  | nil => simp [stripZeros]
  | cons d ds ih =>
    cases ds with
    | nil => cases d <;> simp [stripZeros]
    | cons e r =>
      cases d with
      | zero =>
        intro x hx
        rw [stripZeros] at hx
        exact List.mem_cons_of_mem _ (ih x hx)
      | succ n => simp [stripZeros]

theorem stripZeros_length_le (l : List Nat) : (stripZeros l).length ≤ l.length := by
  induction l with
  | nil => simp [stripZeros]
  | cons d ds ih =>
    cases ds with
    | nil => cases d <;> simp [stripZeros]
    | cons e r =>
      cases d with
      | zero => rw [stripZeros]; simp only [List.length_cons] at ih ⊢; omega
      | succ n => simp [stripZeros]

theorem stripZeros_replicate (z : Nat) (l : List Nat) (hl : l ≠ []) :
    stripZeros (List.replicate z 0 ++ l) = stripZeros l := by
  induction z with
  | zero => simp
  | succ z ih =>
    rw [List.replicate_succ, List.cons_append]
    cases hrl : List.replicate z 0 ++ l with
    | nil =>
      have : l = [] := by
        have := congrArg List.length hrl
        simp at this
        exact this.2
      exact absurd this hl
    | cons e r =>
      rw [stripZeros, ← hrl, ih]

theorem stripZeros_ne_nil (l : List Nat) (hl : l ≠ []) : stripZeros l ≠ [] := by
  induction l with
  | nil => exact absurd rfl hl
  | cons d ds ih =>
    cases ds with
    | nil => cases d <;> simp [stripZeros]
    | cons e r =>
      cases d with
      | zero => rw [stripZeros]; exact ih (by simp)
      | succ n => simp [stripZeros]

theorem lt_ten_pow_log2 (n : Nat) : n < 10^(n.log2 + 1) :=
  lt_of_lt_of_le (Nat.lt_log2_self) (Nat.pow_le_pow_left (by norm_num) _)

theorem val_natDigits (n : Nat) : val (natDigits n) = n := by
  unfold natDigits
  rw [stripZeros_val, val_fixedDigits, Nat.mod_eq_of_lt (lt_ten_pow_log2 n)]

theorem natDigits_lt (n : Nat) : ∀ d ∈ natDigits n, d < 10 := by
  intro d hd
  exact fixedDigits_lt _ _ d (stripZeros_mem _ d hd)

theorem natDigits_ne_nil (n : Nat) : natDigits n ≠ [] := by
  unfold natDigits
  apply stripZeros_ne_nil
  intro h
  have := congrArg List.length h
  rw [fixedDigits_length] at this
  simp at this

theorem natDigits_length_le (n k : Nat) (hk : 1 ≤ k) (hn : n < 10^k) : (natDigits n).length ≤ k := by
  unfold natDigits
  by_cases hkw : k ≤ n.log2 + 1
  · rw [fixedDigits_of_lt k _ n hn hkw, stripZeros_replicate]
    · exact le_trans (stripZeros_length_le _) (by rw [fixedDigits_length])
    · intro h
      have := congrArg List.length h
      rw [fixedDigits_length] at this
      simp at this; omega
  · exact le_trans (stripZeros_length_le _) (by rw [fixedDigits_length]; omega)

end Draco.IO.Dec
