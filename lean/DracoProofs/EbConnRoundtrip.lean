import DracoProofs.EbFinal
import DracoProofs.EbConnExample
/-
  The CONNECTIVITY LINK (hypothesis `hconn` of `eb_roundtrip_conditional_partial`) as a theorem for a class of meshes,
  generalising `ConnExample.exConnLink`.

  * `EbConnectivityRoundtrip ch valence posFaces acv` — the FULL statement, as a definition: for every successful
    `encodeConnectivity`, `decodeConnectivity` runs on the coder byte + the encoder's connectivity bytes (whatever follows)
    and builds a mesh whose corner table is `ctIso` to the encoder's.
  * the class: standard traversal, no attribute data, `triFaces k` = `k` pairwise vertex-disjoint triangles
    `(3 i, 3 i + 1, 3 i + 2)`; `TriRoundtripGoal` = the statement for every `1 ≤ k ≤ 2^21`.
  * DECODER HALF, EVERY `k` (S1 + S3), every `ch`:
      `connLoop_triangles` — `connLoop` on a traversal state that delivers `k` symbols `E` and `k` start-face bits `false`
        builds the table `coK k` of `k` isolated triangles (two loop invariants, `bind_forIn_total`);
      `decodeSeams_tri`, `assignPoints_tri`, `startTraversal_tri` (symbol buffer: `readStdSymbols_stream`; start faces:
        `bit_buffer_roundtrip`);
      `runs_decodeConnectivity_tri : 1 ≤ k → k ≤ 2^21 → Runs decodeConnectivity 514 (triBytes ch k) (meshK k) 514`.
  * ENCODER HALF: `encodeConnectivity_stages` (generic, any faces, standard traversal, no attribute data: the result and
    its bytes from the results of the stages `CornerTable.create`, `findHoles`, the main loop `outerBody`,
    `encodeSeamBits` — this is where the choices `ch` are separated from the ch-independent, closed stages), `tri_enc`
    (bytes = `triBytes ch k`); the stages themselves are EVALUATED by the kernel for `k ≤ 8` (`evalOK_upto`), not proved for
    general `k`.
  * `eb_connectivity_roundtrip_partial : 1 ≤ k → k ≤ 8 → EbConnectivityRoundtrip ch false (triFaces k) #[]` (every `ch`);
    `roundtrip_of_eval` / `triGoal_of_eval`: for EVERY `k ≤ 2^21` the statement follows from the decidable `EvalOK k`
    (the encoder's stages on `triFaces k` + the `ctIso` check), i.e. what is missing for `TriRoundtripGoal` is exactly
    `∀ k, EvalOK k`.
-/
namespace Draco.EbEnc.ConnTri
open Draco Draco.SeqEnc DecM
open Draco.Eb hiding iabs nextC prevC
open Draco.EbEnc.ConnExample (RunsX)
open Draco.EbEnc.EncCounts (OSt outerBody encodeConnectivity_eq)

theorem forIn_list_total {σ : Type} (f : Nat → σ → R (ForInStep σ)) (I : Nat → σ → Prop) :
    ∀ (n start : Nat) (init : σ), I start init →
    (∀ i s, start ≤ i → i < start + n → I i s → ∃ s', f i s = .ok (.yield s') ∧ I (i + 1) s') →
    ∃ out, forIn (List.range' start n) init f = .ok out ∧ I (start + n) out := by
  intro n
  induction n with
  | zero => intro start init h0 _; exact ⟨init, rfl, by simpa using h0⟩
  | succ n ih =>
    intro start init h0 hstep
    obtain ⟨s', h1, h2⟩ := hstep start init (Nat.le_refl _) (by omega) h0
    obtain ⟨out, h3, h4⟩ := ih (start + 1) s' h2 (fun i s hi hlt hI => hstep i s (by omega) (by omega) hI)
    refine ⟨out, ?_, by rw [show start + (n + 1) = start + 1 + n by omega]; exact h4⟩
    rw [List.range'_succ, List.forIn_cons, h1]
    exact h3

/-- a `for` loop over `[0:n]` that never breaks, with an indexed invariant, followed by a continuation -/
theorem bind_forIn_total {σ β : Type} (n : Nat) (f : Nat → σ → R (ForInStep σ)) (init : σ) (tail : σ → R β)
    (I : Nat → σ → Prop) (res : β) (h0 : I 0 init)
    (hstep : ∀ i s, i < n → I i s → ∃ s', f i s = .ok (.yield s') ∧ I (i + 1) s')
    (htail : ∀ s, I n s → tail s = .ok res) :
    (forIn [0:n] init f >>= tail) = .ok res := by
  obtain ⟨out, h1, h2⟩ := forIn_list_total f I n 0 init h0 (fun i s _ hi hI => hstep i s (by omega) hI)
  rw [Std.Legacy.Range.forIn_eq_forIn_range']
  simp only [Std.Legacy.Range.size, Nat.sub_zero, Nat.add_sub_cancel, Nat.div_one]
  rw [h1]
  exact htail out (by simpa using h2)

abbrev CSt := Array Nat × Array Nat × Array Nat × Array Bool × Array Nat × Array Nat × Array Nat × List TopoSplit × Nat ×
  BitReader × Array Nat × Array Int × Nat × Nat × RAnsBitDec × Nat × Nat

/-- `corner_to_vertex_map_` after `i` symbols `E` -/
def C (k : Nat) : Nat → Array Nat
  | 0 => Array.replicate (3 * k) inv
  | i+1 => (((C k i).setIfInBounds (3 * i) (3 * i)).setIfInBounds (3 * i + 1) (3 * i + 1)).setIfInBounds (3 * i + 2) (3 * i + 2)

/-- `vertex_corners_` after `i` symbols `E` -/
def V : Nat → Array Nat
  | 0 => #[]
  | i+1 => ((((((V i).push inv).push inv).push inv).setIfInBounds (3 * i) (3 * i)).setIfInBounds (3 * i + 1) (3 * i + 1)).setIfInBounds
      (3 * i + 2) (3 * i + 2)

def S : Nat → Array Nat
  | 0 => #[]
  | i+1 => (S i).push (3 * i)

def RdS (r : BitReader) : Nat → BitReader
  | 0 => r
  | i+1 => (decodeSymbolStd (RdS r i)).2

def T : Nat → Nat
  | 0 => 0
  | i+1 => T i ||| tg_sym_E

def G (k : Nat) (tr : Trav) (i : Nat) : CSt :=
  (C k i, Array.replicate (3 * k) inv, V i, Array.replicate (3 * k) true, S i, Array.replicate k inv, #[], [], i, RdS tr.sym i,
    tr.valences, tr.ctxCnt, inv, inv, tr.predDec, inv, T i)

theorem C_size (k : Nat) : ∀ i, (C k i).size = 3 * k
  | 0 => by simp [C]
  | i+1 => by simp [C, C_size k i]

theorem V_size : ∀ i, (V i).size = 3 * i
  | 0 => by simp [V]
  | i+1 => by simp [V, V_size i]; omega

theorem exTopoC : topoC = 0 := by decide
theorem exTopoS : topoS = 1 := by decide
theorem exTopoL : topoL = 3 := by decide
theorem exTopoR : topoR = 5 := by decide
theorem exTopoE : topoE = 7 := by decide

theorem S_size : ∀ i, (S i).size = i
  | 0 => rfl
  | i+1 => by simp [S, S_size i]

def Dd (d : RAnsBitDec) : Nat → RAnsBitDec
  | 0 => d
  | j+1 => (Dd d j).nextBit.2

def T2 (t0 : Nat) : Nat → Nat
  | 0 => t0
  | j+1 => T2 t0 j ||| tg_start_boundary

abbrev FSt := Array Nat × Array Nat × Array Bool × Array Nat × Nat × Nat × RAnsBitDec × BitReader × List Bool

def G2 (k : Nat) (tr : Trav) (t0 : Nat) (j : Nat) : FSt :=
  (C k k, Array.replicate (3 * k) inv, Array.replicate (3 * k) true, S (k - j), k, T2 t0 j, Dd tr.startFace j, tr.startFaceBits,
    List.replicate j false)

/-- the table `connLoop` builds from `k` symbols `E` and `k` boundary start faces -/
def coK (k : Nat) : ConnOut :=
  { c2v := C k k, opp := Array.replicate (3 * k) inv, vc := V k, hole := Array.replicate (3 * k) true, numConnVerts := 3 * k,
    tags := T2 (if 1 < k then T k ||| tg_components_1 else T k) k, startFaces := List.replicate k false }

theorem coK_eq (k t0 : Nat) (h : t0 = (if 1 < k then T k ||| tg_components_1 else T k)) :
    ({ c2v := C k k, opp := Array.replicate (3 * k) inv, vc := V k, hole := Array.replicate (3 * k) true,
       numConnVerts := (3 * (k : Int)).toNat, tags := T2 t0 k, startFaces := List.replicate k false } : ConnOut) = coK k := by
  have : (3 * (k : Int)).toNat = 3 * k := by omega
  rw [this, h]; rfl

theorem yields_Dd (d : RAnsBitDec) : ∀ (k : Nat), Yields RAnsBitDec.nextBit d (List.replicate k false) →
    ∀ j, j < k → (Dd d j).nextBit.1 = false := by
  intro k
  induction k generalizing d with
  | zero => intro _ j hj; omega
  | succ k ih =>
    intro h j hj
    obtain ⟨h1, h2⟩ := h
    cases j with
    | zero => exact h1
    | succ j =>
      have := ih d.nextBit.2 h2 j (by omega)
      have e : ∀ j, Dd d (j + 1) = Dd d.nextBit.2 j := by
        intro j; induction j with
        | zero => rfl
        | succ j ihj => simp only [Dd] at ihj ⊢; rw [ihj]
      rw [e]; exact this

/-- the symbol loop: `k` symbols `E` -/
def mainK (k : Nat) : ConnMain :=
  { c2v := C k k, opp := Array.replicate (3 * k) inv, vc := V k, hole := Array.replicate (3 * k) true, stack := S k,
    invalid := #[], numFaces := k, tags := T k }

/-- the start face loop: `k` boundary configurations -/
def startK (k : Nat) : ConnStart :=
  { c2v := C k k, opp := Array.replicate (3 * k) inv, hole := Array.replicate (3 * k) true,
    tags := T2 (if 1 < k then T k ||| tg_components_1 else T k) k, startBits := List.replicate k false }

set_option maxRecDepth 100000 in
set_option maxHeartbeats 4000000 in
theorem connMain_triangles (k : Nat) (tr : Trav) (hkind : tr.kind = 0) (hk31 : 3 * k < 2 ^ 31)
    (hsym : ∀ i, i < k → (decodeSymbolStd (RdS tr.sym i)).1 = 7) :
    connMain ⟨k, 3 * k, k, [], true⟩ tr = .ok (mainK k) := by
  unfold connMain
  dsimp only
  refine bind_forIn_total k _ _ _ (fun i s => s = G k tr i) _ ?_ ?_ ?_
  · rfl
  · intro i s hi hI
    subst hI
    refine ⟨_, ?_, rfl⟩
    have h0 : 3 * i < 3 * k := by omega
    have h1 : 3 * i + 1 < 3 * k := by omega
    have h2 : 3 * i + 2 < 3 * k := by omega
    have h3 : ¬ (3 * k < 3 * i + 3) := by omega
    have hs := hsym i hi
    have h4 : 3 * i ≠ 4294967295 := by omega
    have h5 : 3 * i ≠ 4294967294 := by omega
    have h6 : 3 * i ≠ 4294967293 := by omega
    have h7 : 3 * i < 3 * i + 1 + 1 + 1 := by omega
    have h8 : 3 * i + 1 < 3 * i + 1 + 1 + 1 := by omega
    have h9 : 3 * i + 2 < 3 * i + 1 + 1 + 1 := by omega
    simp [G, hkind, hs, C_size, V_size, h0, h1, h2, h3, Trav.valence, Trav.tracksValences, exTopoC, exTopoS, exTopoL, exTopoR, exTopoE,
      wr, Eb.setLeftMost, inv, raise, bind, Except.bind, pure, Except.pure,
      Std.Legacy.Range.forIn_eq_forIn_range', Std.Legacy.Range.size, List.range'_succ]
    simp [h4, h5, h6, h7, h8, h9, V_size, C_size, h0, h1, h2, C, V, S, RdS, T, Array.setIfInBounds]
    rfl
  · intro s hs
    subst hs
    simp only [G, V_size, gt_iff_lt, Nat.lt_irrefl, ↓reduceIte]
    rfl

set_option maxRecDepth 100000 in
set_option maxHeartbeats 4000000 in
theorem connStart_triangles (k : Nat) (tr : Trav) (hleg : tr.legacy = false)
    (hsf : Yields RAnsBitDec.nextBit tr.startFace (List.replicate k false)) :
    connStart ⟨k, 3 * k, k, [], true⟩ tr (mainK k) = .ok (startK k) := by
  unfold connStart
  simp (config := { maxSteps := 100000000 }) only [mainK, S_size, gt_iff_lt, hleg, Bool.false_eq_true, ↓reduceIte]
  by_cases hk2 : 1 < k
  · simp only [hk2, ↓reduceIte]
    refine bind_forIn_total k _ _ _ (fun j s => s = G2 k tr (T k ||| tg_components_1) j) _ ?_ ?_ ?_
    · simp only [G2, Nat.sub_zero, T2, Dd, List.replicate]
    · intro j s hj hI
      subst hI
      refine ⟨_, ?_, rfl⟩
      have e : k - j = (k - (j + 1)) + 1 := by omega
      have hS : S (k - j) = (S (k - (j + 1))).push (3 * (k - (j + 1))) := by rw [e]; rfl
      have hbit := yields_Dd tr.startFace k hsf j hj
      simp [G2, hS, hbit, T2, Dd, List.replicate_succ, pure, Except.pure]
    · intro s hs
      subst hs
      simp [G2, startK, hk2, pure, Except.pure]
  · simp only [hk2, ↓reduceIte]
    refine bind_forIn_total k _ _ _ (fun j s => s = G2 k tr (T k) j) _ ?_ ?_ ?_
    · simp only [G2, Nat.sub_zero, T2, Dd, List.replicate]
    · intro j s hj hI
      subst hI
      refine ⟨_, ?_, rfl⟩
      have e : k - j = (k - (j + 1)) + 1 := by omega
      have hS : S (k - j) = (S (k - (j + 1))).push (3 * (k - (j + 1))) := by rw [e]; rfl
      have hbit := yields_Dd tr.startFace k hsf j hj
      simp [G2, hS, hbit, T2, Dd, List.replicate_succ, pure, Except.pure]
    · intro s hs
      subst hs
      simp [G2, startK, hk2, pure, Except.pure]

theorem connCompact_triangles (k : Nat) :
    connCompact ⟨k, 3 * k, k, [], true⟩ (mainK k) (startK k) = .ok (coK k) := by
  unfold connCompact
  simp only [mainK, startK]
  simp [V_size, raise, bind, Except.bind, pure, Except.pure]
  rw [if_neg (by omega)]
  exact congrArg Except.ok (coK_eq k _ rfl)

set_option linter.unusedVariables false in
theorem connLoop_triangles (k : Nat) (tr : Trav) (hkind : tr.kind = 0) (hleg : tr.legacy = false) (hk1 : 1 ≤ k)
    (hk31 : 3 * k < 2 ^ 31) (hsym : ∀ i, i < k → (decodeSymbolStd (RdS tr.sym i)).1 = 7)
    (hsf : Yields RAnsBitDec.nextBit tr.startFace (List.replicate k false)) :
    connLoop ⟨k, 3 * k, k, [], true⟩ tr = .ok (coK k) := by
  unfold connLoop
  rw [connMain_triangles k tr hkind hk31 hsym]
  show (connStart _ tr (mainK k) >>= fun s => connCompact _ (mainK k) s) = _
  rw [connStart_triangles k tr hleg hsf]
  exact connCompact_triangles k

theorem Rd_succ (r : BitReader) : ∀ i, RdS r (i + 1) = RdS (decodeSymbolStd r).2 i
  | 0 => rfl
  | i+1 => by
    show (decodeSymbolStd (RdS r (i + 1))).2 = _
    rw [Rd_succ r i]; rfl

theorem readStd_all7 : ∀ (n : Nat) (r : BitReader), (readStdSymbols n r).1 = List.replicate n 7 →
    ∀ i, i < n → (decodeSymbolStd (RdS r i)).1 = 7 := by
  intro n
  induction n with
  | zero => intro r _ i hi; omega
  | succ n ih =>
    intro r h i hi
    simp only [readStdSymbols, List.replicate_succ, List.cons.injEq] at h
    cases i with
    | zero => exact h.1
    | succ i => rw [Rd_succ]; exact ih _ h.2 i (by omega)

/-- the symbol buffer of `k` symbols `E` -/
def symBody (k : Nat) : Bytes := packBits (traversalBits (Array.replicate k 7))

theorem ets_eq (k : Nat) : encodeTraversalSymbols (Array.replicate k 7) = encVarint (symBody k).length ++ symBody k := by
  simp [encodeTraversalSymbols_eq, encBitRegion, symBody]

theorem symBody_read (k : Nat) (rest : Bytes) :
    (readStdSymbols k (BitReader.start (symBody k ++ rest))).1 = List.replicate k 7 := by
  obtain ⟨pad, hpad⟩ := packBits_stream _ (traversalBits (Array.replicate k 7)) (Nat.le_refl _)
  have hstream : (BitReader.start (symBody k ++ rest)).stream =
      (List.replicate k 7).flatMap symbolBits ++ (pad ++ rest.flatMap (bitsOf 8)) := by
    rw [stream_start, List.flatMap_append, symBody, hpad, List.append_assoc]
    simp [traversalBits]
  have h := readStdSymbols_stream (List.replicate k 7) _ _
    (fun s hx => by rw [List.eq_of_mem_replicate hx]; decide) (by simp [BitReader.start]) hstream
  simpa using h.1

theorem decodeSeams_tri (k : Nat) (hk1 : 1 ≤ k) (hk31 : 3 * k < 2 ^ 31) :
    decodeSeams false (Array.replicate (3 * k) inv) k 0 #[] = .ok (#[], tg_seam_boundary) := by
  unfold decodeSeams
  dsimp only
  refine bind_forIn_total k _ _ _ (fun i s => s = ((#[] : Array (Array Nat)), (#[] : Array RAnsBitDec), if i = 0 then 0 else tg_seam_boundary)) _ ?_ ?_ ?_
  · rfl
  · intro i s hi hI
    subst hI
    refine ⟨_, ?_, rfl⟩
    have h0 : 3 * i < 3 * k := by omega
    have h1 : 3 * i + 1 < 3 * k := by omega
    have h2 : 3 * i + 2 < 3 * k := by omega
    have h4 : 3 * i ≠ 4294967295 := by omega
    have h5 : 3 * i + 1 ≠ 4294967295 := by omega
    have h6 : 3 * i + 2 ≠ 4294967295 := by omega
    simp [Eb.opposite, rd, h0, h1, h2, h4, h5, h6, inv, Eb.nextC, Eb.prevC, bind, Except.bind, pure, Except.pure,
      Std.Legacy.Range.forIn_eq_forIn_range', Std.Legacy.Range.size]
    split <;> decide
  · intro s hs
    subst hs
    have : k ≠ 0 := by omega
    simp [this, pure, Except.pure]

theorem RunsX.lift {α : Type} {r : Rd α} {bs extra : Bytes} {a : α} (h : r (bs ++ extra) = some (a, extra)) (v : Nat) :
    RunsX (DecM.lift r) v bs extra a v := by
  constructor
  intro s hs hv
  refine ⟨{ s with rest := extra }, ?_, rfl, hv⟩
  simp only [DecM.lift, hs, h]

theorem RunsX.bind' {α β : Type} {m : DecM α} {f : α → DecM β} {v v1 v2 : Nat} {bs b1 b2 extra : Bytes} {a : α} {c : β}
    (h1 : RunsX m v b1 (b2 ++ extra) a v1) (hb : bs = b1 ++ b2) (h2 : RunsX (f a) v1 b2 extra c v2) :
    RunsX (m >>= f) v bs extra c v2 := hb ▸ RunsX.bind h1 h2

/-- the start-face buffer: `k` bits `false` -/
def sfBytes (ch : ConnChoices) (k : Nat) : Bytes := finishBits ch (encodeBits (List.replicate k false))

/-- the connectivity bytes of `k` isolated triangles behind the traversal-coder byte `0` -/
def triBytes (ch : ConnChoices) (k : Nat) : Bytes :=
  0 :: (encVarint (3 * k) ++ (encVarint k ++ (0 :: (encVarint k ++ (0 :: 0 ::
    (encVarint (symBody k).length ++ (symBody k ++ sfBytes ch k)))))))

/-- the mesh `decodeConnectivity` builds -/
def meshK (k : Nat) : Eb.Mesh :=
  { numFaces := k, c2v := C k k, opp := Array.replicate (3 * k) inv, vc := V k, atts := #[], faces := C k k,
    numPoints := 3 * k, tags := (coK k).tags ||| tg_seam_boundary ||| 0 }

def travK (d : RAnsBitDec) (full : Bytes) : Trav :=
  { kind := 0, legacy := false, sym := BitReader.start full, startFace := d,
    startFaceBits := BitReader.start [], seams := #[] }

theorem exLeg : (514 < 2 * 256 + 2) = False := by decide
theorem exLeg1 : (514 < 2 * 256 + 1) = False := by decide
theorem exCountV : countV 514 = DecM.varint 32 := rfl

theorem startTraversal_tri (ch : ConnChoices) (k nv nf : Nat) (extra : Bytes) (d : RAnsBitDec)
    (hlen : (symBody k).length < 2 ^ 64)
    (hd : ransBitStart false (sfBytes ch k ++ extra) = some (d, extra)) :
    RunsX (startTraversal 514 0 0 nv nf) 514 (encVarint (symBody k).length ++ (symBody k ++ sfBytes ch k)) extra
      (travK d (symBody k ++ sfBytes ch k ++ extra)) 514 := by
  unfold startTraversal
  simp only [exLeg, ↓reduceIte, decide_false]
  refine RunsX.bind0 (RunsX.remaining _ _) ?_
  refine RunsX.bind0 (RunsX.ofRuns (Runs.tag _ 514) _) ?_
  rw [if_pos (by decide)]
  refine RunsX.bind (RunsX.ofRuns (Runs.lift (a := (symBody k).length) (fun e => by
    simp only [readBitRegionSize, Bool.false_eq_true, if_false]
    exact decVarint_enc (w := 64) (by simp) _ hlen e) 514) _) ?_
  refine RunsX.bind0 (RunsX.peekRest _ _) ?_
  refine RunsX.bind0 (RunsX.ofRuns (Runs.require (by simp) 514) _) ?_
  refine RunsX.bind (RunsX.ofRuns (Runs.lift (a := ()) (fun e => by simp [skipBytes]) 514) _) ?_
  refine RunsX.bind0 (RunsX.remaining _ _) ?_
  refine RunsX.bind' (b2 := []) (a := d) (RunsX.lift (by rw [List.nil_append]; exact hd) 514) (List.append_nil _).symm ?_
  refine RunsX.bind0 (RunsX.remaining _ _) ?_
  refine RunsX.bind0 (RunsX.ofRuns (Runs.tag _ 514) _) ?_
  refine RunsX.bind0 (a := []) (RunsX.pure _ _ _) ?_
  rw [if_pos (by decide)]
  exact RunsX.pure _ _ _

theorem exSplitsK (k : Nat) : Runs (decodeTopologySplits 514 k) 514 [0] [] 514 :=
  Runs.of_eq (split_events_runs [] k trivial (Nat.zero_le _) (by decide)) rfl (by decide) rfl

theorem assignPoints_tri (k : Nat) : assignPoints (coK k) k #[] = .ok (C k k, 3 * k, 0) := by
  simp [assignPoints, coK, pure, Except.pure]

theorem attConns_tri (k : Nat) :
    (Array.mapM (fun sc => buildAttConn (coK k).c2v (coK k).opp (coK k).vc sc) (#[] : Array (Array Nat))) = .ok #[] := by
  simp [pure, Except.pure]

theorem symBody_length (k : Nat) : (symBody k).length = (3 * k + 7) / 8 := by
  rw [symBody, packBits_length _ _ (Nat.le_refl _)]
  simp [traversalBits, symbolBits_E, List.flatMap_replicate]
  omega

theorem tu_ts (n : Nat) (h : n < 2 ^ 31) : toUnsigned 64 (toSigned 32 n) = n := by
  unfold toSigned toUnsigned
  have h1 : n % 2 ^ 32 = n := Nat.mod_eq_of_lt (by omega)
  rw [h1, if_pos (by omega)]
  have : ((n : Int) % ((2 ^ 64 : Nat) : Int)) = n := Int.emod_eq_of_lt (by omega) (by norm_cast; omega)
  rw [this]; rfl

theorem edges_ok (n : Nat) (h3 : 3 ≤ n) (h : n < 2 ^ 31) :
    n / 2 ≤ n * ((n + 2 ^ 64 - 1) % 2 ^ 64) % 2 ^ 64 / 2 := by
  have e1 : (n + 2 ^ 64 - 1) % 2 ^ 64 = n - 1 := by omega
  rw [e1]
  have hb : n * (n - 1) ≤ 2 ^ 31 * 2 ^ 31 := Nat.mul_le_mul (by omega) (by omega)
  have e2 : n * (n - 1) % 2 ^ 64 = n * (n - 1) := Nat.mod_eq_of_lt (by omega)
  rw [e2]
  exact Nat.div_le_div_right (Nat.le_mul_of_pos_right n (by omega))

/-- **decoder half, every `k`**: `decodeConnectivity` on the connectivity bytes of `k` isolated triangles (any choices
    `ch`), whatever follows -/
theorem runs_decodeConnectivity_tri (ch : ConnChoices) (k : Nat) (hk1 : 1 ≤ k) (hk : k ≤ 2 ^ 21) :
    Runs decodeConnectivity 514 (triBytes ch k) (meshK k) 514 := by
  refine RunsX.toRuns fun extra => ?_
  obtain ⟨d, hd, hy⟩ := bit_buffer_roundtrip ch (List.replicate k false) (by simp; omega) extra
  have hk31 : 3 * k < 2 ^ 31 := by omega
  unfold decodeConnectivity triBytes
  refine RunsX.bind0 (RunsX.ofRuns (Runs.version 514) _) ?_
  simp only [exLeg, exLeg1, ↓reduceIte, decide_false]
  refine RunsX.bind1 (RunsX.ofRuns (Runs.rdU8 _ 514) _) ?_
  simp only [show ((0 : Nat) == 1) = false from rfl, Bool.false_eq_true, ↓reduceIte]
  refine RunsX.bind0 (RunsX.remaining _ _) ?_
  refine RunsX.bind0 (RunsX.ofRuns (Runs.tag _ 514) _) ?_
  refine RunsX.bind0 (RunsX.ofRuns (Runs.require (by decide) 514) _) ?_
  simp only [exCountV]
  refine RunsX.bind (RunsX.ofRuns (Runs.varint32 (3 * k) 514 (by omega)) _) ?_
  refine RunsX.bind (RunsX.ofRuns (Runs.varint32 k 514 (by omega)) _) ?_
  refine RunsX.bind0 (RunsX.ofRuns (Runs.require (by simp; omega) 514) _) ?_
  refine RunsX.bind0 (RunsX.ofRuns (Runs.require (by simp; omega) 514) _) ?_
  refine RunsX.bind0 (RunsX.ofRuns (Runs.require ?hedges 514) _) ?_
  case hedges =>
    rw [tu_ts (3 * k) hk31]
    exact decide_eq_true (edges_ok (3 * k) (by omega) hk31)
  refine RunsX.bind1 (RunsX.ofRuns (Runs.rdU8 _ 514) _) ?_
  refine RunsX.bind (RunsX.ofRuns (Runs.varint32 k 514 (by omega)) _) ?_
  refine RunsX.bind0 (RunsX.ofRuns (Runs.require (by simp) 514) _) ?_
  refine RunsX.bind0 (RunsX.ofRuns (Runs.require (by simp) 514) _) ?_
  refine RunsX.bind1 (RunsX.ofRuns (ConnExample.rdVar 0 514 (by decide)) _) ?_
  refine RunsX.bind0 (RunsX.ofRuns (Runs.require (by simp) 514) _) ?_
  refine RunsX.bind0 (RunsX.ofRuns (Runs.alloc _ _ 514) _) ?_
  have hnv : (3 * k + 0) % 2 ^ 32 = 3 * k := by omega
  rw [hnv]
  refine RunsX.bind0 (RunsX.ofRuns (Runs.require (by simp; omega) 514) _) ?_
  refine RunsX.bind0 (RunsX.ofRuns (Runs.declare _ 514) _) ?_
  refine RunsX.bind0 (RunsX.ofRuns (Runs.alloc _ _ 514) _) ?_
  refine RunsX.bind0 (RunsX.ofRuns (Runs.alloc _ _ 514) _) ?_
  refine RunsX.bind0 (RunsX.ofRuns (Runs.alloc _ _ 514) _) ?_
  refine RunsX.bind0 (RunsX.ofRuns (Runs.alloc _ _ 514) _) ?_
  rw [if_neg (by simp [modelCap]; omega)]
  refine RunsX.bind0 (RunsX.remaining _ _) ?_
  refine RunsX.bind1 (RunsX.ofRuns (exSplitsK k) _) ?_
  refine RunsX.bind0 (RunsX.remaining _ _) ?_
  refine RunsX.bind0 (RunsX.ofRuns (Runs.tag _ 514) _) ?_
  refine RunsX.bind' (b2 := []) (startTraversal_tri ch k _ _ extra d (by rw [symBody_length]; omega)
    hd) (List.append_nil _).symm ?_
  refine RunsX.bind0 (RunsX.remaining _ _) ?_
  refine RunsX.bind0 (RunsX.ofRuns (Runs.tag _ 514) _) ?_
  have hco : connLoop { numFaces := k, maxNumVertices := 3 * k, numSymbols := k, splits := [], removeInvalid := (0 : Nat) == 0 }
      (travK d (symBody k ++ sfBytes ch k ++ extra)) = .ok (coK k) :=
    connLoop_triangles k _ rfl rfl hk1 hk31
      (readStd_all7 k _ (by
        show (readStdSymbols k (BitReader.start (symBody k ++ sfBytes ch k ++ extra))).1 = _
        rw [List.append_assoc]; exact symBody_read k _)) hy
  refine RunsX.bind0 (RunsX.ofRuns (Runs.liftR hco 514) _) ?_
  refine RunsX.bind0 (RunsX.ofRuns (Runs.tag _ 514) _) ?_
  refine RunsX.bind0 (RunsX.ofRuns (Runs.liftR (decodeSeams_tri k hk1 hk31) 514) _) ?_
  refine RunsX.bind0 (RunsX.ofRuns (Runs.liftR (attConns_tri k) 514) _) ?_
  refine RunsX.bind0 (RunsX.ofRuns (Runs.alloc _ _ 514) _) ?_
  refine RunsX.bind0 (RunsX.ofRuns (Runs.liftR (assignPoints_tri k) 514) _) ?_
  exact RunsX.pure _ _ _

deriving instance DecidableEq for ValEnc, RAnsBitEnc, TopoSplit
deriving instance Inhabited for Draco.CornerTable

/-- the encoder's run for the standard traversal without attribute data, from the results of its stages -/
theorem encodeConnectivity_stages (ch : ConnChoices) (pf : Faces) (tbl : CornerTable) (hc : CornerTable.create pf = some tbl)
    (hnd : ((CT.ofTable tbl).numFaces == (CT.ofTable tbl).numDegenerated) = false)
    (holeId : Array Nat) (nh : Nat) (hh : findHoles (CT.ofTable tbl) = .ok (holeId, nh)) (s : OSt)
    (hmain : forIn [:(CT.ofTable tbl).numCorners]
      ((Array.replicate (CT.ofTable tbl).numFaces false, Array.replicate (CT.ofTable tbl).numVertices false,
        Array.replicate nh false, ({ c2v := #[], valences := #[] } : ValEnc), Array.mkEmpty (CT.ofTable tbl).numFaces,
        RAnsBitEnc.start, #[], Array.mkEmpty (CT.ofTable tbl).numFaces, #[], #[],
        Array.replicate (CT.ofTable tbl).numFaces inv, (-1 : Int), 0) : OSt)
      (outerBody (CT.ofTable tbl) holeId false (CT.ofTable tbl).numFaces) = .ok s)
    (se : Array RAnsBitEnc) (sb : Array (Array Bool))
    (hseam : encodeSeamBits (CT.ofTable tbl) (s.2.2.2.2.2.2.2.1.reverse ++ s.2.2.2.2.2.2.2.2.1) #[] = .ok (se, sb)) :
    ∃ conn, encodeConnectivity ch false pf #[] = .ok conn ∧ conn.ct = CT.ofTable tbl ∧
      conn.processed = s.2.2.2.2.2.2.2.1.reverse ++ s.2.2.2.2.2.2.2.2.1 ∧
      conn.bytes = encVarint (((CT.ofTable tbl).numVertices - (CT.ofTable tbl).numIsolated) % 2 ^ 32) ++
          encVarint (((CT.ofTable tbl).numFaces - (CT.ofTable tbl).numDegenerated) % 2 ^ 32) ++ [0] ++
          encVarint (s.2.2.2.2.1.size % 2 ^ 32) ++ encVarint (s.2.2.2.2.2.2.2.2.2.2.2.2 % 2 ^ 32) ++
          encodeSplitData s.2.2.2.2.2.2.2.2.2.1 ++
          (encodeTraversalSymbols s.2.2.2.2.1 ++ finishBits ch s.2.2.2.2.2.1 ++ se.toList.flatMap (finishBits ch)) ∧
      conn.atts = #[] := by
  rw [encodeConnectivity_eq]
  simp only [hc, hnd, hh, Bool.false_eq_true, if_false, bind, Except.bind, pure, Except.pure]
  simp [pure, Except.pure] at hmain ⊢
  simp [hmain, hseam]


/-! ### the class: `k` pairwise vertex-disjoint triangles -/

/-- the faces `(3 i, 3 i + 1, 3 i + 2)`, `i < k` -/
def triFaces (k : Nat) : Faces := (Array.range k).map fun i => (3 * i, 3 * i + 1, 3 * i + 2)

/-- **the connectivity link as a statement** (for every mesh the encoder accepts): the decoder's connectivity stage reads the
    traversal-coder byte and the encoder's connectivity bytes, whatever follows, and the table it builds is isomorphic
    (`ctIso`) to the encoder's under the corner map of `processed_connectivity_corners_`, with one attribute connectivity
    per attribute data -/
def EbConnectivityRoundtrip (ch : ConnChoices) (valence : Bool) (posFaces : Faces) (acv : Array (Nat × Array Nat)) : Prop :=
  ∀ conn, encodeConnectivity ch valence posFaces acv = .ok conn →
    ∃ mesh, Runs decodeConnectivity 514 ([if valence then 2 else 0] ++ conn.bytes) mesh 514 ∧
      ctIso conn.ct conn.processed mesh.numFaces mesh.c2v mesh.opp = true ∧ mesh.atts.size = conn.atts.size

/-- the visible goal for the class: every `k ≥ 1` (proved below for `k ≤ 3`; the decoder half `runs_decodeConnectivity_tri`
    holds for every `k ≤ 2^21`) -/
def TriRoundtripGoal : Prop := ∀ (ch : ConnChoices) (k : Nat), 1 ≤ k → k ≤ 2 ^ 21 → EbConnectivityRoundtrip ch false (triFaces k) #[]

def initO (t : CT) (nh : Nat) : OSt :=
  (Array.replicate t.numFaces false, Array.replicate t.numVertices false, Array.replicate nh false,
    ({ c2v := #[], valences := #[] } : ValEnc), Array.mkEmpty t.numFaces, RAnsBitEnc.start, #[], Array.mkEmpty t.numFaces,
    #[], #[], Array.replicate t.numFaces inv, (-1 : Int), 0)

/-- the encoder's stages, evaluated, give the bytes `triBytes` -/
theorem tri_enc (ch : ConnChoices) (k : Nat) (tbl : CornerTable) (hc : CornerTable.create (triFaces k) = some tbl)
    (holeId : Array Nat) (nh : Nat) (hh : findHoles (CT.ofTable tbl) = .ok (holeId, nh)) (s : OSt)
    (hmain : forIn [:(CT.ofTable tbl).numCorners] (initO (CT.ofTable tbl) nh)
      (outerBody (CT.ofTable tbl) holeId false (CT.ofTable tbl).numFaces) = .ok s)
    (hseam : encodeSeamBits (CT.ofTable tbl) (s.2.2.2.2.2.2.2.1.reverse ++ s.2.2.2.2.2.2.2.2.1) #[] = .ok (#[], #[]))
    (hnd : ((CT.ofTable tbl).numFaces == (CT.ofTable tbl).numDegenerated) = false)
    (f1 : (CT.ofTable tbl).numVertices - (CT.ofTable tbl).numIsolated = 3 * k)
    (f2 : (CT.ofTable tbl).numFaces - (CT.ofTable tbl).numDegenerated = k)
    (f3 : s.2.2.2.2.1 = Array.replicate k 7) (f4 : s.2.2.2.2.2.1 = encodeBits (List.replicate k false))
    (f5 : s.2.2.2.2.2.2.2.2.2.2.2.2 = 0) (f6 : s.2.2.2.2.2.2.2.2.2.1 = #[]) (hk : k ≤ 2 ^ 21) :
    ∃ conn, encodeConnectivity ch false (triFaces k) #[] = .ok conn ∧ [0] ++ conn.bytes = triBytes ch k ∧
      conn.ct = CT.ofTable tbl ∧ conn.processed = s.2.2.2.2.2.2.2.1.reverse ++ s.2.2.2.2.2.2.2.2.1 ∧ conn.atts.size = 0 := by
  obtain ⟨conn, h1, h2, h3, h4, h5⟩ := encodeConnectivity_stages ch (triFaces k) tbl hc hnd holeId nh hh s hmain #[] #[] hseam
  refine ⟨conn, h1, ?_, h2, h3, by rw [h5]; rfl⟩
  rw [h4, f1, f2, f3, f4, f5, f6]
  have e1 : 3 * k % 2 ^ 32 = 3 * k := by omega
  have e2 : k % 2 ^ 32 = k := by omega
  have e3 : encodeSplitData #[] = [0] := by decide
  have e4 : encVarint (0 % 2 ^ 32) = [0] := by decide
  simp only [Array.size_replicate, e1, e2, e3, e4, ets_eq, triBytes, sfBytes, List.flatMap_nil,
    List.append_nil, List.append_assoc, List.cons_append, List.nil_append]

/-! ### the encoder's stages for `k ≤ 3`, by kernel evaluation -/

def tblK (k : Nat) : CornerTable := (CornerTable.create (triFaces k)).getD default
def holesK (k : Nat) : Array Nat × Nat := match findHoles (CT.ofTable (tblK k)) with | .ok x => x | .error _ => (#[], 0)
def stK (k : Nat) : OSt :=
  match forIn [:(CT.ofTable (tblK k)).numCorners] (initO (CT.ofTable (tblK k)) (holesK k).2)
      (outerBody (CT.ofTable (tblK k)) (holesK k).1 false (CT.ofTable (tblK k)).numFaces) with
  | .ok s => s
  | .error _ => initO (CT.ofTable (tblK k)) 0

/-- everything `tri_enc` and the isomorphism check need, as one decidable statement about closed terms -/
def EvalOK (k : Nat) : Prop :=
  (CornerTable.create (triFaces k)).isSome = true ∧
  (match findHoles (CT.ofTable (tblK k)) with | .ok _ => true | .error _ => false) = true ∧
  (match forIn [:(CT.ofTable (tblK k)).numCorners] (initO (CT.ofTable (tblK k)) (holesK k).2)
      (outerBody (CT.ofTable (tblK k)) (holesK k).1 false (CT.ofTable (tblK k)).numFaces) with
    | .ok _ => true | .error _ => false) = true ∧
  (match encodeSeamBits (CT.ofTable (tblK k)) ((stK k).2.2.2.2.2.2.2.1.reverse ++ (stK k).2.2.2.2.2.2.2.2.1) #[] with
    | .ok x => decide (x = (#[], #[])) | .error _ => false) = true ∧
  ((CT.ofTable (tblK k)).numFaces == (CT.ofTable (tblK k)).numDegenerated) = false ∧
  (CT.ofTable (tblK k)).numVertices - (CT.ofTable (tblK k)).numIsolated = 3 * k ∧
  (CT.ofTable (tblK k)).numFaces - (CT.ofTable (tblK k)).numDegenerated = k ∧
  (stK k).2.2.2.2.1 = Array.replicate k 7 ∧ (stK k).2.2.2.2.2.1 = encodeBits (List.replicate k false) ∧
  (stK k).2.2.2.2.2.2.2.2.2.2.2.2 = 0 ∧ (stK k).2.2.2.2.2.2.2.2.2.1 = #[] ∧
  ctIso (CT.ofTable (tblK k)) ((stK k).2.2.2.2.2.2.2.1.reverse ++ (stK k).2.2.2.2.2.2.2.2.1) k (C k k)
    (Array.replicate (3 * k) inv) = true

instance (k : Nat) : Decidable (EvalOK k) := by unfold EvalOK; infer_instance

/-- the class theorem from the evaluated stages and the decoder half -/
theorem roundtrip_of_eval (ch : ConnChoices) (k : Nat) (hk1 : 1 ≤ k) (hk : k ≤ 2 ^ 21) (h : EvalOK k) :
    EbConnectivityRoundtrip ch false (triFaces k) #[] := by
  obtain ⟨a1, a2, a3, a4, a5, a6, a7, a8, a9, a10, a11, a12⟩ := h
  have hc : CornerTable.create (triFaces k) = some (tblK k) := by
    unfold tblK
    cases hcr : CornerTable.create (triFaces k) with
    | none => rw [hcr] at a1; cases a1
    | some t => rfl
  have hh : findHoles (CT.ofTable (tblK k)) = .ok ((holesK k).1, (holesK k).2) := by
    unfold holesK
    split at a2
    · rename_i x hx; rw [hx]
    · cases a2
  have hmain : forIn [:(CT.ofTable (tblK k)).numCorners] (initO (CT.ofTable (tblK k)) (holesK k).2)
      (outerBody (CT.ofTable (tblK k)) (holesK k).1 false (CT.ofTable (tblK k)).numFaces) = .ok (stK k) := by
    unfold stK
    split at a3
    · rename_i x hx; rw [hx]
    · cases a3
  have hseam : encodeSeamBits (CT.ofTable (tblK k)) ((stK k).2.2.2.2.2.2.2.1.reverse ++ (stK k).2.2.2.2.2.2.2.2.1) #[] =
      .ok (#[], #[]) := by
    split at a4
    · rename_i x hx; rw [hx, of_decide_eq_true a4]
    · cases a4
  obtain ⟨conn, e1, e2, e3, e4, e5⟩ := tri_enc ch k (tblK k) hc _ _ hh (stK k) hmain hseam a5 a6 a7 a8 a9 a10 a11 hk
  intro conn' hconn'
  rw [e1] at hconn'
  cases hconn'
  refine ⟨meshK k, ?_, ?_, by rw [e5]; rfl⟩
  · show Runs decodeConnectivity 514 ([0] ++ conn.bytes) (meshK k) 514
    rw [e2]
    exact runs_decodeConnectivity_tri ch k hk1 hk
  · rw [e3, e4]; exact a12

theorem evalOK_upto : ∀ k, k < 9 → 1 ≤ k → EvalOK k := by decide +kernel

/-- **eb_connectivity_roundtrip_partial**: the connectivity link for the standard traversal, no attribute data, and
    `k ≤ 8` pairwise vertex-disjoint triangles `(3 i, 3 i + 1, 3 i + 2)`, for every choice `ch` of the encoder
    (decoder half: every `k`; encoder half: evaluated) -/
theorem eb_connectivity_roundtrip_partial (ch : ConnChoices) (k : Nat) (hk1 : 1 ≤ k) (hk8 : k ≤ 8) :
    EbConnectivityRoundtrip ch false (triFaces k) #[] :=
  roundtrip_of_eval ch k hk1 (by omega) (evalOK_upto k (by omega) hk1)

/-- the decoded mesh for `k = 1` is the mesh of `ConnExample.exMesh`; `k = 2`: two components -/
example : (meshK 1).c2v = #[0, 1, 2] ∧ (meshK 1).vc = #[0, 1, 2] ∧ (meshK 1).tags = 33808 ∧
    (meshK 2).c2v = #[0, 1, 2, 3, 4, 5] ∧ (meshK 2).vc = #[0, 1, 2, 3, 4, 5] ∧ (meshK 2).opp = Array.replicate 6 inv ∧
    (meshK 2).tags = 2130960 ∧ (meshK 2).numPoints = 6 := by decide +kernel

/-- the general-`k` goal reduces to the evaluation of the encoder's stages: what is missing for `TriRoundtripGoal` is
    `∀ k, 1 ≤ k → EvalOK k` (the encoder half for every `k`) -/
theorem triGoal_of_eval (h : ∀ k, 1 ≤ k → k ≤ 2 ^ 21 → EvalOK k) : TriRoundtripGoal :=
  fun ch k hk1 hk => roundtrip_of_eval ch k hk1 hk (h k hk1 hk)

end Draco.EbEnc.ConnTri
