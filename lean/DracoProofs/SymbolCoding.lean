import DracoModel.SymbolCoding
import DracoProofs.RansCreate
/-
  `EncodeSymbols` / `DecodeSymbols`: raw scheme, tagged scheme, dispatch.
-/
namespace Draco

/-! ### histogram -/

theorem getD_modify (a : Array Nat) (s i : Nat) (g : Nat → Nat) :
    (a.modify s g).getD i 0 = if i = s ∧ s < a.size then g (a.getD i 0) else a.getD i 0 := by
  simp only [Array.getD_eq_getD_getElem?, Array.getElem?_modify]
  by_cases h : s = i
  · subst h
    by_cases h2 : s < a.size
    · simp [h2]
    · simp [h2]
  · have : ¬ (i = s ∧ s < a.size) := by intro ⟨h', _⟩; exact h h'.symm
    simp [h, this]

theorem countFold_size : ∀ (l : List Nat) (a : Array Nat),
    (l.foldl (fun a s => a.modify s (· + 1)) a).size = a.size := by
  intro l
  induction l with
  | nil => intro a; rfl
  | cons s l ih => intro a; simp only [List.foldl_cons]; rw [ih]; simp

theorem countFold_mono : ∀ (l : List Nat) (a : Array Nat) (i : Nat),
    a.getD i 0 ≤ (l.foldl (fun a s => a.modify s (· + 1)) a).getD i 0 := by
  intro l
  induction l with
  | nil => intro a i; exact Nat.le_refl _
  | cons s l ih =>
    intro a i
    simp only [List.foldl_cons]
    refine Nat.le_trans ?_ (ih _ i)
    rw [getD_modify]; split <;> omega

theorem countFold_pos : ∀ (l : List Nat) (a : Array Nat) (s : Nat), s ∈ l → s < a.size →
    0 < (l.foldl (fun a s => a.modify s (· + 1)) a).getD s 0 := by
  intro l
  induction l with
  | nil => intro a s h; simp at h
  | cons x l ih =>
    intro a s hs hlt
    simp only [List.foldl_cons]
    rcases List.mem_cons.mp hs with h | h
    · subst h
      refine Nat.lt_of_lt_of_le ?_ (countFold_mono l _ s)
      rw [getD_modify]; simp [hlt]
    · exact ih _ s h (by simpa using hlt)

theorem countFreqs_length (size : Nat) (syms : List Nat) :
    (countFreqs size syms).toList.length = size := by
  simp [countFreqs, countFold_size]

theorem countFreqs_pos (size : Nat) (syms : List Nat) (s : Nat) (hs : s ∈ syms) (hlt : s < size) :
    0 < (countFreqs size syms).toList.getD s 0 := by
  rw [← array_getD_toList]
  exact countFold_pos syms _ s hs (by simpa using hlt)

/-! ### pieces of the decoder on abstract input -/

theorem ransPrecisionBits_le (b : Nat) : ransPrecisionBits b ≤ 20 := by
  simp only [ransPrecisionBits]; split
  · omega
  · split <;> omega

theorem ransSymbolDecoderCreate_of (pb : Nat) (bs rest : Bytes) (probs : List Nat) (t : RansDecTable)
    (h1 : decodeTable bs = some (probs, rest)) (h2 : probs ≠ [])
    (h3 : ransBuildLookup pb probs = some t) :
    ransSymbolDecoderCreate pb bs = some (t, rest) := by
  have : probs.isEmpty = false := by cases probs <;> simp_all
  simp only [ransSymbolDecoderCreate, h1, this, h3]
  simp

theorem ransBuildLookup_size (pb : Nat) (probs : List Nat) (t : RansDecTable)
    (h : ransBuildLookup pb probs = some t) : t.probs.size = probs.length := by
  simp only [ransBuildLookup] at h
  split at h
  · simp at h
  · simp only [Option.some.injEq] at h; subst h; simp

theorem mem_le_sum : ∀ (l : List Nat) (p : Nat), p ∈ l → p ≤ l.sum := by
  intro l
  induction l with
  | nil => intro p h; simp at h
  | cons x l ih =>
    intro p h
    rcases List.mem_cons.mp h with h | h
    · subst h; simp
    · have := ih p h; simp only [List.sum_cons]; omega

theorem encodeTable_last (probs : List Nat) (bs : Bytes) (h : encodeTable probs = some bs) :
    probs.getLast? ≠ some 0 := by
  simp only [encodeTable] at h
  split at h
  · simp at h
  · rename_i hc; simpa using hc

/-- what a successful `RAnsSymbolEncoder::Create` guarantees, as needed by the round trips -/
theorem encoderCreate_spec (o : ProbOracle) (pb : Nat) (hpb : pb ≤ 20) (freqs probs : List Nat)
    (tbl : Bytes) (hlen : freqs.length < 2 ^ 32)
    (h : ransSymbolEncoderCreate o pb freqs = some (probs, tbl)) :
    (∃ t, ransBuildLookup pb probs = some t) ∧ probs ≠ [] ∧
    (∀ i, 0 < freqs.getD i 0 → 1 ≤ probs.getD i 0) ∧
    ∀ rest, decodeTable (tbl ++ rest) = some (probs, rest) := by
  simp only [ransSymbolEncoderCreate] at h
  split at h
  · simp at h
  · rename_i ps hc
    split at h
    · simp at h
    · rename_i bs he
      simp only [Option.some.injEq, Prod.mk.injEq] at h
      obtain ⟨rfl, rfl⟩ := h
      obtain ⟨hsum, hl, hpos⟩ := createProbs_sound o pb freqs ps hc
      have hP : 2 ^ pb ≤ 2 ^ 20 := Nat.pow_le_pow_right (by decide) hpb
      have hok : TableOk ps := by
        refine ⟨fun p hp => ?_, encodeTable_last ps bs he⟩
        have := mem_le_sum ps p hp; omega
      obtain ⟨bs', he', hdec⟩ := table_roundtrip_aux ps (by omega) hok
      rw [he] at he'
      simp only [Option.some.injEq] at he'; subst he'
      refine ⟨ransBuildLookup_of_sum pb ps hsum, ?_, hpos, hdec⟩
      intro hnil; subst hnil
      have : 0 < 2 ^ pb := Nat.two_pow_pos pb
      simp at hsum; omega

/-! ### raw scheme -/

theorem decodeRawSymbolsInternal_of (before bs rest1 rest : Bytes) (bitLen n : Nat)
    (t : RansDecTable) (syms : List Nat)
    (h1 : ransSymbolDecoderCreate (ransPrecisionBits bitLen) bs = some (t, rest1))
    (h2 : t.probs.size ≠ 0)
    (h3 : ∀ b, decodeRans (ransPrecisionBits bitLen) t b n rest1 = some (syms, rest)) :
    decodeRawSymbolsInternal before bitLen n bs = some (syms, rest) := by
  simp only [decodeRawSymbolsInternal, h1, h2, if_false, h3]

theorem rawInternal_roundtrip (o : ProbOracle) (bitLen : Nat) (syms : List Nat) (maxValue : Nat)
    (bs : Bytes) (hmax : ∀ s ∈ syms, s ≤ maxValue) (hmv : maxValue < 2 ^ 31)
    (hlen : syms.length < 2 ^ 32)
    (h : encodeRawSymbolsInternal o bitLen syms maxValue = some bs) :
    ∀ before rest,
      decodeRawSymbolsInternal before bitLen syms.length (bs ++ rest) = some (syms, rest) := by
  simp only [encodeRawSymbolsInternal] at h
  split at h
  · simp at h
  · rename_i probs tbl hc
    split at h
    · simp at h
    · rename_i body he
      simp only [Option.some.injEq] at h; subst h
      have hpb := ransPrecisionBits_le bitLen
      obtain ⟨⟨t, ht⟩, hne, hpos, hdec⟩ := encoderCreate_spec o _ hpb _ probs tbl
        (by rw [countFreqs_length]; omega) hc
      have hsyms : ∀ s ∈ syms, 0 < probs.getD s 0 := by
        intro s hs
        exact hpos s (countFreqs_pos _ syms s hs (by have := hmax s hs; omega))
      obtain ⟨body', he', hrt⟩ := rans_roundtrip_aux _ hpb probs syms t ht hsyms (by omega)
      rw [he] at he'
      simp only [Option.some.injEq] at he'; subst he'
      intro before rest
      have hsz : t.probs.size ≠ 0 := by
        rw [ransBuildLookup_size _ _ _ ht]
        intro h0; exact hne (List.length_eq_zero_iff.mp h0)
      have hcreate := ransSymbolDecoderCreate_of _ (tbl ++ (body ++ rest)) (body ++ rest) probs t
        (hdec _) hne ht
      rw [List.append_assoc]
      exact decodeRawSymbolsInternal_of before _ _ rest bitLen syms.length t syms hcreate hsz
        (fun b => hrt b rest)

theorem rawBitLength_range (numUnique level : Nat) :
    1 ≤ rawBitLength numUnique level ∧ rawBitLength numUnique level ≤ 18 := by
  simp only [rawBitLength]; omega

theorem raw_roundtrip_aux (o : ProbOracle) (level : Nat) (syms : List Nat) (maxValue numUnique : Nat)
    (bs : Bytes) (hmax : ∀ s ∈ syms, s ≤ maxValue) (hmv : maxValue < 2 ^ 31)
    (hlen : syms.length < 2 ^ 32)
    (h : encodeRawSymbols o level syms maxValue numUnique = some bs) :
    ∀ before rest, decodeRawSymbols before syms.length (bs ++ rest) = some (syms, rest) := by
  simp only [encodeRawSymbols] at h
  split at h
  · simp at h
  · split at h
    · simp at h
    · rename_i body hi
      simp only [Option.some.injEq] at h; subst h
      intro before rest
      have hr := rawBitLength_range numUnique level
      have := rawInternal_roundtrip o _ syms maxValue body hmax hmv hlen hi
        (before ++ [rawBitLength numUnique level]) rest
      simp only [decodeRawSymbols, List.cons_append, hr, and_self, if_true]
      exact this

end Draco
