import DracoProofs.EbFinal2
/-
  Towards `eb_roundtrip_of_link`: the remaining named hypotheses of `eb_roundtrip_conditional_partial4` (EbFinal2.lean).

  (a) `attDataNonPos_of_run`, `attData_size_le`: `AttDataNonPos` and the bound on the attribute data from the run;
  (b) `sidesOfDecoder`: the decoder's sequences and point maps by running its sequencer; `hruns` / `hsides` by
      construction;
  (e) `eb_roundtrip_of_link`.
-/
namespace Draco.EbEnc
open Draco Draco.SeqEnc DecM
open Draco.Eb hiding iabs nextC prevC

namespace Final3
open PosAgreeP Tuples FaceCorr PlanSettingP Final2 EncCounts

/-! ### (a) the attribute data of the connectivity -/

/-- `encodeConnectivity` creates one attribute data entry per entry of `attCornerValues`, with its attribute index -/
theorem encodeConnectivity_atts (ch : ConnChoices) (valence : Bool) (posFaces : Faces)
    (acv : Array (Nat × Array Nat)) (conn : ConnEnc)
    (h : encodeConnectivity ch valence posFaces acv = .ok conn) :
    conn.atts.size = acv.size ∧ ∀ k, k < acv.size → (conn.atts[k]!).attIndex = (acv[k]!).1 := by
  rw [encodeConnectivity_eq] at h
  split at h
  · rename_i table hcreate
    simp only [] at h
    rcases ite_ok h with ⟨_, h⟩ | ⟨_, h⟩
    · exact (throw_bind_ne h).elim
    obtain ⟨x, _, h⟩ := (bind_ok_iff _ _ _).mp h
    obtain ⟨atts, hatts, h⟩ := (bind_ok_iff _ _ _).mp h
    obtain ⟨val, h⟩ := ite_bind_both h
    obtain ⟨s, hloop, h⟩ := (bind_ok_iff _ _ _).mp h
    obtain ⟨sb, _, h⟩ := (bind_ok_iff _ _ _).mp h
    have hconn : conn.atts = atts := by
      rcases ite_ok h with ⟨_, h⟩ | ⟨_, h⟩
      · obtain ⟨cb, _, h⟩ := (bind_ok_iff _ _ _).mp h
        have := pure_ok h
        rw [this]
      · have := pure_ok h
        rw [this]
    rw [hconn]
    rw [array_forIn_range] at hatts
    have ho := forIn_ok_inv _ (fun p (a : Array AttData) => a.size = p ∧ ∀ q, q < p → (a[q]!).attIndex = (acv[q]!).1)
      acv.size 0 _ atts ?_ ?_ hatts
    · simpa using ho
    · intro j s r _ hj hI hr
      rcases hxy : acv[j]! with ⟨ai, cv⟩
      rw [hxy] at hr
      simp only [] at hr
      rw [bind_ok_iff] at hr
      obtain ⟨c, _, hr⟩ := hr
      simp only [pure, Except.pure, Except.ok.injEq] at hr
      subst hr
      refine ⟨_, rfl, by simp [hI.1], ?_⟩
      intro q hq
      by_cases hqj : q = j
      · subst hqj
        have : q = s.size := hI.1.symm
        rw [hxy]
        subst this
        simp
      · have hlt : q < s.size := by rw [hI.1]; omega
        rw [← hI.2 q (by omega)]
        have hlt' : q < s.size + 1 := by omega
        simp [Array.getElem_push, hlt, hlt']
    · exact ⟨by simp, fun q hq => by omega⟩
  · simp only [throw, throwThe, MonadExceptOf.throw] at h
    cases h

/-- `connInputs` creates attribute corner values for non-POSITION attributes only, at most one per attribute -/
theorem connInputs_acv {g : Geometry} {single : Bool} {pf : Faces} {acv : Array (Nat × Array Nat)}
    (h : connInputs g single = .ok (pf, acv)) :
    acv.size ≤ g.atts.length ∧
    ∀ k, k < acv.size → ((g.atts.toArray[(acv[k]!).1]!).attType == posType) = false := by
  cases single with
  | true =>
    unfold connInputs at h
    simp only [if_true, Bool.not_true, Bool.false_eq_true, if_false, pure, Except.pure, bind, Except.bind,
      Except.ok.injEq, Prod.mk.injEq] at h
    rw [← h.2]
    exact ⟨by simp, fun k hk => by simp at hk⟩
  | false =>
    unfold connInputs at h
    simp only [Bool.false_eq_true, if_false] at h
    split at h
    · simp [throw, throwThe, MonadExceptOf.throw, bind, Except.bind] at h
    · rw [bind_ok_iff] at h
      obtain ⟨s, _, h⟩ := h
      simp only [Bool.not_false, if_true] at h
      split at h
      · simp [throw, throwThe, MonadExceptOf.throw, bind, Except.bind] at h
      · rw [bind_ok_iff] at h
        obtain ⟨s1, hs1, h⟩ := h
        simp only [pure, Except.pure, Except.ok.injEq, Prod.mk.injEq] at h
        obtain ⟨_, rfl⟩ := h
        simp only [Std.Legacy.Range.forIn_eq_forIn_range', Std.Legacy.Range.size, Nat.sub_zero, Nat.add_sub_cancel,
          Nat.div_one] at hs1
        have ho := forIn_ok_inv _ (fun p (a : Array (Nat × Array Nat)) => a.size ≤ p ∧
            ∀ q, q < a.size → ((g.atts.toArray[(a[q]!).1]!).attType == posType) = false)
          g.atts.toArray.size 0 _ s1 ?_ ?_ hs1
        · simpa using ho
        · intro j a r _ hj hI hr
          by_cases hp : ((g.atts.toArray[j]!).attType == posType) = true
          · simp only [hp, if_true, pure, Except.pure, Except.ok.injEq] at hr
            subst hr
            exact ⟨_, rfl, by omega, hI.2⟩
          · simp only [hp, Bool.false_eq_true, if_false] at hr
            rw [bind_ok_iff] at hr
            obtain ⟨cv, _, hr⟩ := hr
            simp only [pure, Except.pure, Except.ok.injEq] at hr
            subst hr
            refine ⟨_, rfl, by simp; omega, ?_⟩
            intro q hq
            by_cases hqa : q = a.size
            · subst hqa
              simpa using hp
            · have hlt : q < a.size := by simp at hq; omega
              have := hI.2 q hlt
              have hlt' : q < a.size + 1 := by omega
              simpa [Array.getElem!_eq_getD, Array.getD, Array.getElem_push, hlt, hlt'] using this
        · exact ⟨by simp, fun q hq => by simp at hq⟩

/-- **`hnonpos`** and the size of the attribute data, from the encoder run -/
theorem attData_of_run (ch : EbChoices) (g : Geometry) (md : Option GeometryMetadata) (o : EbOpts) (enc : Encoded)
    (henc : encodeEdgebreaker ch g md o = .ok enc) :
    AttDataNonPos g.atts.toArray enc.conn ∧ enc.conn.atts.size ≤ g.atts.length := by
  obtain ⟨mdBytes, coder, posFaces, acv, cs, couts, h1, h2, h3, h4, _⟩ :=
    (encodeEdgebreaker_stages ch g md o enc henc).stages
  obtain ⟨a1, a2⟩ := encodeConnectivity_atts ch.conn _ posFaces acv enc.conn h4
  obtain ⟨b1, b2⟩ := connInputs_acv h3
  refine ⟨?_, by omega⟩
  intro k hk
  rw [a2 k (by omega)]
  exact b2 k (by omega)

/-! ### (b) the decoder's sides by running its sequencer -/

/-- the sequence and the point map of one attribute decoder: `GenerateSequence`,
    `UpdatePointToAttributeIndexMapping` on the decoded connectivity -/
def sideOfDecoder (mesh : Mesh) (dec : AttDecoder) : R (SeqOut × Array Nat) := do
  let seq ← sequenceOfDecoder mesh dec
  let m ← pointToValueMap (viewOfDecoder mesh dec) mesh.faces mesh.numPoints seq.v2d
  pure (seq, m)

/-- the decoder's sides of all controllers, in stream order (cf. `decoderSides` in Ops/EbEnc.lean) -/
def sidesOfDecoder (mesh : Mesh) (conn : ConnEnc) (cs : Array Controller) : List CtrlOut → R (List (SeqOut × Array Nat))
  | [] => pure []
  | c :: couts => do
    let side ← sideOfDecoder mesh (decOfController conn (cs[c.ctrl]!))
    let rest ← sidesOfDecoder mesh conn cs couts
    pure (side :: rest)

theorem sideOfDecoder_runs {mesh : Mesh} {dec : AttDecoder} {side : SeqOut × Array Nat}
    (h : sideOfDecoder mesh dec = .ok side) : SideRuns mesh dec side := by
  unfold sideOfDecoder at h
  rw [bind_ok_iff] at h
  obtain ⟨seq, hseq, h⟩ := h
  rw [bind_ok_iff] at h
  obtain ⟨m, hm, h⟩ := h
  simp only [pure, Except.pure, Except.ok.injEq] at h
  subst h
  exact ⟨hseq, hm⟩

/-- **`hsides`, `hruns`** by construction -/
theorem sidesOfDecoder_spec (mesh : Mesh) (conn : ConnEnc) (cs : Array Controller) :
    ∀ (couts : List CtrlOut) (sides : List (SeqOut × Array Nat)), sidesOfDecoder mesh conn cs couts = .ok sides →
    couts.length = sides.length ∧
    ∀ c side, (c, side) ∈ couts.zip sides → SideRuns mesh (decOfController conn (cs[c.ctrl]!)) side := by
  intro couts
  induction couts with
  | nil =>
    intro sides h
    simp only [sidesOfDecoder, pure, Except.pure, Except.ok.injEq] at h
    subst h
    exact ⟨rfl, fun c side hm => by simp at hm⟩
  | cons c couts ih =>
    intro sides h
    unfold sidesOfDecoder at h
    rw [bind_ok_iff] at h
    obtain ⟨side, hside, h⟩ := h
    rw [bind_ok_iff] at h
    obtain ⟨rest, hrest, h⟩ := h
    simp only [pure, Except.pure, Except.ok.injEq] at h
    subst h
    obtain ⟨i1, i2⟩ := ih rest hrest
    refine ⟨by simp [i1], ?_⟩
    intro c' side' hm
    simp only [List.zip_cons_cons, List.mem_cons, Prod.mk.injEq] at hm
    rcases hm with ⟨rfl, rfl⟩ | hm
    · exact sideOfDecoder_runs hside
    · exact i2 c' side' hm

/-! ### (e) the round trip from the connectivity link -/

/-- **eb_roundtrip_of_link_rows**: encoder run + domain conditions + connectivity link + the decoder's sequencer runs
    (`hseq`) + value blocks (`hvals`) + row correspondence (`hrows`) ⇒ round trip.
    Discharged inside (from the run): `PlanSetting`, `hproc`, `hfits`, `hcover`, `hids`, the static part of `DecoderOK`,
    `AttDataNonPos`, the bounds on the attribute data / attribute count, `hsides`, `hruns`, `hnf`. -/
theorem eb_roundtrip_of_link_rows (ch : EbChoices) (g : Geometry) (md : Option GeometryMetadata) (o : EbOpts)
    (enc : Encoded) (henc : encodeEdgebreaker ch g md o = .ok enc) (hmd : ∀ m, md = some m → m.WF')
    (hatt : ∀ a, a < g.atts.toArray.size → EbAttOK (g.atts.toArray[a]!) (o.base.att a))
    (huid : (g.atts.map (·.uniqueId)).Nodup)
    /- domain: the attribute data id is written as one signed byte -/
    (hn128 : g.atts.length ≤ 128)
    (mesh : Mesh)
    /- the CONNECTIVITY LINK: the decoder reads the encoder's connectivity bytes and builds `mesh`, -/
    (hconn : ∀ coder, traversalCoder o g.faces.length = some coder →
      Runs decodeConnectivity 514 ([coder] ++ enc.conn.bytes) mesh 514)
    /- isomorphic to the encoder's table under the corner map of `processed_connectivity_corners_`, -/
    (hiso : CTIso enc.conn.ct enc.conn.processed mesh.numFaces mesh.c2v mesh.opp)
    /- with one attribute connectivity per attribute data entry -/
    (hmatts : mesh.atts.size = enc.conn.atts.size)
    (sides : List (SeqOut × Array Nat))
    /- `hseq`: the decoder's sequencer and `UpdatePointToAttributeIndexMapping` SUCCEED on `mesh` for every attribute
       decoder (traversal equivariance is proved for two successful runs only, so success of the decoder's run is not
       derived from the encoder's) -/
    (hseq : sidesOfDecoder mesh enc.conn enc.controllers enc.couts.toList = .ok sides)
    /- `hvals`: raw lengths and the value-block theorem for every item (`valuesOK_of_item`) -/
    (hvals : ∀ (i k : Nat)
      (hi : i < (planOf o g.atts.toArray enc.conn enc.controllers enc.couts.toList sides).length)
      (hk : k < (planOf o g.atts.toArray enc.conn enc.controllers enc.couts.toList sides)[i].items.length),
      ValuesOK mesh (planOf o g.atts.toArray enc.conn enc.controllers enc.couts.toList sides)[i]
        (parentAt (planOf o g.atts.toArray enc.conn enc.controllers enc.couts.toList sides) i k)
        (planOf o g.atts.toArray enc.conn enc.controllers enc.couts.toList sides)[i].items[k])
    /- `hrows`: the row correspondence of every attribute (`hrows_of_setups`) -/
    (hrows : RowsCorr g (itemOfRun o g.atts.toArray enc.couts.toList sides) mesh.faces (flattenFaces g.faces).toArray
      mesh.numFaces (phi enc.conn.processed))
    (extra : Bytes) :
    ∃ st st',
      decodeGeometry {} { rest := enc.bytes ++ extra } =
        (some ⟨planGeometry {} mesh (planOf o g.atts.toArray enc.conn enc.controllers enc.couts.toList sides), md⟩, st) ∧
      st.rest = extra ∧
      decodeGeometry { skip := allTypes } { rest := enc.bytes ++ extra } =
        (some ⟨planGeometry { skip := allTypes } mesh
          (planOf o g.atts.toArray enc.conn enc.controllers enc.couts.toList sides), md⟩, st') ∧
      st'.rest = extra ∧
      Spec.checkCore .edgebreaker (quantReq g o.base) g
        (planGeometry {} mesh (planOf o g.atts.toArray enc.conn enc.controllers enc.couts.toList sides))
        (planGeometry { skip := allTypes } mesh
          (planOf o g.atts.toArray enc.conn enc.controllers enc.couts.toList sides)) = true := by
  obtain ⟨hsl, hruns⟩ := sidesOfDecoder_spec mesh enc.conn enc.controllers _ sides hseq
  obtain ⟨hnonpos, hsz⟩ := attData_of_run ch g md o enc henc
  have hsides : enc.couts.size = sides.length := by simpa using hsl
  exact eb_roundtrip_conditional_partial3 ch g md o enc henc hmd mesh sides hsides hconn hiso.faces hruns hmatts
    (by omega) (by omega) hnonpos _ rfl hatt hvals huid hrows extra

/-- **eb_roundtrip_of_link**: as `eb_roundtrip_of_link_rows`, the row correspondence resolved into the structural facts
    of every attribute of every controller:
    * `hsetup` — `TupleSetup` (EbTuples.lean) of the item's attribute on the decoder's view / the encoder's view `c.view`
      with the sequences `side.1` / `c.seq` and the point map `side.2`.  NOT derived from the link here; its sources are
      `tupleSetup_of_runs` with: `TVIso` of the views under `phi processed` (`tviso_of_ctiso` for the base view — needs the
      decoder's `vertex_corners_` facts `hdv`, `hbd` —, `att_views_iso` for an attribute view — needs `hvcD`, `hcovD`,
      `hsvD`, the seam-flag correspondence `hflag` and the decoder's `buildAttConn` run), `Hedge` of the decoder's view,
      the two traversal runs with the SAME method (`generateControllers_perVertex_eq`), `PointsRefineVertices`
      (`pointsRefine_base` / `pointsRefine_att`, from `assignPoints`), `ValuesRefineVertices` (`values_refine_base` /
      `values_refine_vertices`), `a.valid`, `facesE_lt_of_valid`;
    * `hbytes` — the value buffers of the input attributes consist of bytes. -/
theorem eb_roundtrip_of_link (ch : EbChoices) (g : Geometry) (md : Option GeometryMetadata) (o : EbOpts)
    (enc : Encoded) (henc : encodeEdgebreaker ch g md o = .ok enc) (hmd : ∀ m, md = some m → m.WF')
    (hatt : ∀ a, a < g.atts.toArray.size → EbAttOK (g.atts.toArray[a]!) (o.base.att a))
    (huid : (g.atts.map (·.uniqueId)).Nodup) (hn128 : g.atts.length ≤ 128)
    (hbytes : ∀ a ∈ g.atts, IsBytes a.values)
    (mesh : Mesh)
    (hconn : ∀ coder, traversalCoder o g.faces.length = some coder →
      Runs decodeConnectivity 514 ([coder] ++ enc.conn.bytes) mesh 514)
    (hiso : CTIso enc.conn.ct enc.conn.processed mesh.numFaces mesh.c2v mesh.opp)
    (hmatts : mesh.atts.size = enc.conn.atts.size)
    (sides : List (SeqOut × Array Nat))
    (hseq : sidesOfDecoder mesh enc.conn enc.controllers enc.couts.toList = .ok sides)
    (hvals : ∀ (i k : Nat)
      (hi : i < (planOf o g.atts.toArray enc.conn enc.controllers enc.couts.toList sides).length)
      (hk : k < (planOf o g.atts.toArray enc.conn enc.controllers enc.couts.toList sides)[i].items.length),
      ValuesOK mesh (planOf o g.atts.toArray enc.conn enc.controllers enc.couts.toList sides)[i]
        (parentAt (planOf o g.atts.toArray enc.conn enc.controllers enc.couts.toList sides) i k)
        (planOf o g.atts.toArray enc.conn enc.controllers enc.couts.toList sides)[i].items[k])
    (hsetup : ∀ c side it, (c, side) ∈ enc.couts.toList.zip sides → it ∈ c.items.toList →
      ∃ (dC : TView) (ψC : Nat → Nat) (np npD : Nat), dC.numFaces = mesh.numFaces ∧
        TupleSetup (g.atts.toArray[it.attId]!) np (flattenFaces g.faces).toArray mesh.faces npD dC c.view
          (phi enc.conn.processed) ψC side.1 c.seq side.2)
    (extra : Bytes) :
    ∃ st st',
      decodeGeometry {} { rest := enc.bytes ++ extra } =
        (some ⟨planGeometry {} mesh (planOf o g.atts.toArray enc.conn enc.controllers enc.couts.toList sides), md⟩, st) ∧
      st.rest = extra ∧
      decodeGeometry { skip := allTypes } { rest := enc.bytes ++ extra } =
        (some ⟨planGeometry { skip := allTypes } mesh
          (planOf o g.atts.toArray enc.conn enc.controllers enc.couts.toList sides), md⟩, st') ∧
      st'.rest = extra ∧
      Spec.checkCore .edgebreaker (quantReq g o.base) g
        (planGeometry {} mesh (planOf o g.atts.toArray enc.conn enc.controllers enc.couts.toList sides))
        (planGeometry { skip := allTypes } mesh
          (planOf o g.atts.toArray enc.conn enc.controllers enc.couts.toList sides)) = true := by
  have hsl := (sidesOfDecoder_spec mesh enc.conn enc.controllers _ sides hseq).1
  have hsides : enc.couts.size = sides.length := by simpa using hsl
  exact eb_roundtrip_of_link_rows ch g md o enc henc hmd hatt huid hn128 mesh hconn hiso hmatts sides hseq hvals
    (hrows_of_setups ch g md o enc henc mesh sides hsides hatt hbytes hsetup) extra

/-! ### the one-triangle example from `eb_roundtrip_of_link_rows` (joint satisfiability of its hypotheses) -/

open ConnExample in
example (extra : Bytes) :
    ∃ st st',
      decodeGeometry {} { rest := exBytes ++ extra } = (some ⟨planGeometry {} exMesh exPlan, none⟩, st) ∧ st.rest = extra ∧
      decodeGeometry { skip := allTypes } { rest := exBytes ++ extra } =
        (some ⟨planGeometry { skip := allTypes } exMesh exPlan, none⟩, st') ∧ st'.rest = extra ∧
      Spec.checkCore .edgebreaker (quantReq exG exO.base) exG (planGeometry {} exMesh exPlan)
        (planGeometry { skip := allTypes } exMesh exPlan) = true := by
  have hiso : CTIso exEnc.conn.ct exEnc.conn.processed exMesh.numFaces exMesh.c2v exMesh.opp :=
    ctIso_sound _ _ _ _ _ (by decide +kernel) (by decide +kernel) (by decide +kernel) exIso
  have hseq : sidesOfDecoder exMesh exEnc.conn exEnc.controllers exEnc.couts.toList = .ok exSides := by
    have h : (match sidesOfDecoder exMesh exEnc.conn exEnc.controllers exEnc.couts.toList with
        | .ok s => decide (s = exSides) | .error _ => false) = true := by
      decide +kernel
    split at h
    · rename_i s hs; rw [hs, of_decide_eq_true h]
    · exact absurd h (by decide)
  have hrows : RowsCorr exG (itemOfRun exO exG.atts.toArray exEnc.couts.toList exSides) exMesh.faces
      (flattenFaces exG.faces).toArray exMesh.numFaces (phi exEnc.conn.processed) := by
    unfold RowsCorr
    decide +kernel
  have h := eb_roundtrip_of_link_rows exCh exG none exO exEnc exEncode (fun m h => by cases h) exHatt exHuid
    (by decide +kernel) exMesh exHconn hiso (by decide +kernel) exSides hseq exHvals hrows extra
  rw [exEnc_bytes] at h
  exact h

/-! ### (c, first step) the two traversal runs of a controller use the same method -/

/-- for every controller output and its decoder side: the decoder's sequencer run and the encoder's
    `sequenceOfController` run are a pair of `TraversalRuns` (the same traversal method on both sides: a per-corner
    decoder always traverses depth first, and the encoder announces a per-corner decoder only for the depth first
    traversal — `generateControllers_perVertex_false`) -/
theorem travRuns_of_run (ch : EbChoices) (g : Geometry) (md : Option GeometryMetadata) (o : EbOpts) (enc : Encoded)
    (henc : encodeEdgebreaker ch g md o = .ok enc) (mesh : Mesh) (sides : List (SeqOut × Array Nat))
    (hruns : ∀ c side, (c, side) ∈ enc.couts.toList.zip sides →
      SideRuns mesh (decOfController enc.conn (enc.controllers[c.ctrl]!)) side) :
    ∀ c side, (c, side) ∈ enc.couts.toList.zip sides → ∃ v2dSize,
      TraversalRuns (viewOfDecoder mesh (decOfController enc.conn (enc.controllers[c.ctrl]!))) c.view mesh.faces
        (flattenFaces g.faces).toArray enc.conn.processed (Array.replicate c.view.numVertices inv) v2dSize side.1 c.seq := by
  obtain ⟨hnonpos, _⟩ := attData_of_run ch g md o enc henc
  obtain ⟨mdBytes, coder, posFaces, acv, cs, couts, h1, h2, h3, h4, h5, h6, h7, h8, h9, h10, _⟩ :=
    (encodeEdgebreaker_stages ch g md o enc henc).stages
  have hchain := encodeControllers_chain ch o g enc.conn cs _ _ _ _ _ h8
  have hord := rearrangeEncoders_order h7
  rw [h9, h10] at hruns ⊢
  simp only [] at hruns ⊢
  intro c side hz
  have hc : c ∈ couts := (List.of_mem_zip hz).1
  obtain ⟨e, p', hemem, hrun⟩ := chain_mem hchain c hc
  obtain ⟨_, _, _, hseqE, _, _, _, hce⟩ := encodeController_spec ch o g enc.conn cs _ _ e p' c hrun
  have helt : e < cs.size := hord.2.1 e (by simpa using hemem)
  have hmem : cs[c.ctrl]! ∈ cs := by rw [hce]; exact getElem!_mem_of_lt cs e helt
  obtain ⟨r1, _⟩ := hruns c side hz
  rw [← hce] at hseqE
  unfold sequenceOfController at hseqE
  unfold sequenceOfDecoder at r1
  simp only [] at hseqE r1
  refine ⟨if (decOfController enc.conn (cs[c.ctrl]!)).attDataId < 0 then mesh.vc.size
    else max (mesh.atts[(decOfController enc.conn (cs[c.ctrl]!)).attDataId.toNat]!).lm.size mesh.vc.size, ?_⟩
  by_cases hm : ((cs[c.ctrl]!).traversalMethod == Generated.MESH_TRAVERSAL_PREDICTION_DEGREE.toNat) = true
  · -- prediction degree: the decoder is per vertex
    have hcd : (decOfController enc.conn (cs[c.ctrl]!)).cornerDecoder = false := by
      cases hcd : (decOfController enc.conn (cs[c.ctrl]!)).cornerDecoder with
      | false => rfl
      | true =>
        have hpv : perVertex enc.conn (cs[c.ctrl]!) = false := by
          have : (!(perVertex enc.conn (cs[c.ctrl]!))) = true := hcd
          simpa using this
        have h0 := (generateControllers_perVertex_false h5 hnonpos _ hmem hpv).1
        rw [h0] at hm
        exact absurd hm (by decide)
    have hmD : ((decOfController enc.conn (cs[c.ctrl]!)).traversalMethod ==
        Generated.MESH_TRAVERSAL_PREDICTION_DEGREE.toNat) = true := hm
    rw [if_pos hm] at hseqE
    rw [hcd, hmD] at r1
    simp only [Bool.not_false, Bool.and_self, if_true] at r1
    exact Or.inr ⟨r1, hseqE⟩
  · have hmD : ((decOfController enc.conn (cs[c.ctrl]!)).traversalMethod ==
        Generated.MESH_TRAVERSAL_PREDICTION_DEGREE.toNat) = false := by
      show ((cs[c.ctrl]!).traversalMethod == Generated.MESH_TRAVERSAL_PREDICTION_DEGREE.toNat) = false
      simpa using hm
    rw [if_neg hm] at hseqE
    rw [hmD] at r1
    simp only [Bool.and_false, Bool.false_eq_true, if_false] at r1
    exact Or.inl ⟨r1, hseqE⟩

end Final3

end Draco.EbEnc
