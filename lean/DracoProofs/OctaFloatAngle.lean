import DracoProofs.OctaDecFloat
import DracoProofs.OctaEncFloat
import Mathlib.Geometry.Euclidean.Angle.Unoriented.TriangleInequality
import Mathlib.Analysis.InnerProductSpace.PiL2
/-
  C07: composition of the float encoder (`DoubleModel`, rationals) and the float decoder
  (`DecModel`, reals) into angle statements, via the triangle inequality for angles
  (`InnerProductGeometry.angle_le_angle_add_angle`).
-/
namespace Draco
namespace Octa
open InnerProductGeometry

/-- a vector of `ℝ³` -/
noncomputable def vec3 (a b c : ℝ) : EuclideanSpace ℝ (Fin 3) := !₂[a, b, c]

/-- the angle of Mathlib in coordinates -/
theorem angle_vec3 (a1 a2 a3 b1 b2 b3 : ℝ) :
    angle (vec3 a1 a2 a3) (vec3 b1 b2 b3)
      = Real.arccos ((a1 * b1 + a2 * b2 + a3 * b3)
          / (Real.sqrt (a1 ^ 2 + a2 ^ 2 + a3 ^ 2) * Real.sqrt (b1 ^ 2 + b2 ^ 2 + b3 ^ 2))) := by
  unfold angle vec3
  congr 2
  · simp [EuclideanSpace.inner_eq_star_dotProduct, Fin.sum_univ_three, dotProduct]
    ring
  · simp [EuclideanSpace.norm_eq, Fin.sum_univ_three]

theorem vec3_smul (k a b c : ℝ) : vec3 (k * a) (k * b) (k * c) = k • vec3 a b c := by
  unfold vec3
  ext i
  fin_cases i <;> simp

theorem vec3_ne_zero (a b c : ℝ) (h : 0 < a ^ 2 + b ^ 2 + c ^ 2) : vec3 a b c ≠ 0 := by
  intro h0
  have : ‖vec3 a b c‖ = 0 := by rw [h0]; simp
  unfold vec3 at this
  rw [EuclideanSpace.norm_eq] at this
  simp [Fin.sum_univ_three] at this
  have h2 := Real.sqrt_eq_zero'.mp this
  linarith

/-- `sin² θ ≤ S`, `S(1+β²) ≤ β²`  ⟹  `θ ≤ β`  (for `0 ≤ θ < π/2`) -/
theorem angle_le_of_sin_sq_gen (θ β S : ℝ) (hβ : 0 < β) (h0 : 0 ≤ θ) (h1 : θ < Real.pi / 2)
    (hs : Real.sin θ ^ 2 ≤ S) (hS : S * (1 + β ^ 2) ≤ β ^ 2) : θ ≤ β := by
  have hcos : 0 < Real.cos θ := Real.cos_pos_of_mem_Ioo ⟨by linarith [Real.pi_pos], h1⟩
  have hsin : 0 ≤ Real.sin θ := Real.sin_nonneg_of_nonneg_of_le_pi h0 (by linarith [Real.pi_pos])
  have hsc := Real.sin_sq_add_cos_sq θ
  refine le_trans (Real.le_tan h0 h1) ?_
  rw [Real.tan_eq_sin_div_cos, div_le_iff₀ hcos]
  have hs2 : Real.sin θ ^ 2 * (1 + β ^ 2) ≤ β ^ 2 := by
    refine le_trans (mul_le_mul_of_nonneg_right hs (by positivity)) hS
  have key : Real.sin θ ^ 2 ≤ (β * Real.cos θ) ^ 2 := by
    have : (β * Real.cos θ) ^ 2 = β ^ 2 * (1 - Real.sin θ ^ 2) := by rw [mul_pow]; rw [← hsc]; ring
    rw [this]; nlinarith
  exact (pow_le_pow_iff_left₀ hsin (by positivity) two_ne_zero).mp key

/-- angle bound from a polynomial `sin²` bound -/
theorem arccos_le_gen (N V D S β : ℝ) (hβ : 0 < β) (hN : 0 < N) (hV : 0 < V) (hD : 0 < D)
    (hb : N * V - D ^ 2 ≤ S * (N * V)) (hcs : D ^ 2 ≤ N * V) (hS : S * (1 + β ^ 2) ≤ β ^ 2) :
    Real.arccos (D / (Real.sqrt N * Real.sqrt V)) ≤ β := by
  have hsN := Real.sqrt_pos.mpr hN
  have hsV := Real.sqrt_pos.mpr hV
  have hden : 0 < Real.sqrt N * Real.sqrt V := mul_pos hsN hsV
  have hden2 : (Real.sqrt N * Real.sqrt V) ^ 2 = N * V := by
    rw [mul_pow, Real.sq_sqrt hN.le, Real.sq_sqrt hV.le]
  set x := D / (Real.sqrt N * Real.sqrt V) with hx
  have hx0 : 0 < x := div_pos hD hden
  have hx2 : x ^ 2 = D ^ 2 / (N * V) := by rw [hx, div_pow, hden2]
  have hNV : 0 < N * V := mul_pos hN hV
  have hx1 : x ≤ 1 := by
    have : x ^ 2 ≤ 1 := by rw [hx2, div_le_one hNV]; exact hcs
    nlinarith
  have hcos : Real.cos (Real.arccos x) = x := Real.cos_arccos (by linarith) hx1
  apply angle_le_of_sin_sq_gen _ β S hβ (Real.arccos_nonneg x) (Real.arccos_lt_pi_div_two.mpr hx0) _ hS
  have hs : Real.sin (Real.arccos x) ^ 2 = 1 - x ^ 2 := by
    have := Real.sin_sq_add_cos_sq (Real.arccos x)
    rw [hcos] at this; linarith
  rw [hs, hx2]
  have : 1 - D ^ 2 / (N * V) = (N * V - D ^ 2) / (N * V) := by field_simp
  rw [this, div_le_iff₀ hNV]
  exact hb

/-- two vectors at distance `√E`: `sin² ≤ E/‖a‖²` (Lagrange), and `a·b > 0` when `E < ‖a‖²` -/
theorem close_vectors (a1 a2 a3 b1 b2 b3 E : ℝ)
    (hE : (a1 - b1) ^ 2 + (a2 - b2) ^ 2 + (a3 - b3) ^ 2 ≤ E) :
    (a1 ^ 2 + a2 ^ 2 + a3 ^ 2) * (b1 ^ 2 + b2 ^ 2 + b3 ^ 2) - (a1 * b1 + a2 * b2 + a3 * b3) ^ 2
      ≤ E * (b1 ^ 2 + b2 ^ 2 + b3 ^ 2) ∧
    (E < a1 ^ 2 + a2 ^ 2 + a3 ^ 2 → 0 < a1 * b1 + a2 * b2 + a3 * b3) := by
  have lag : (a1 ^ 2 + a2 ^ 2 + a3 ^ 2) * (b1 ^ 2 + b2 ^ 2 + b3 ^ 2) - (a1 * b1 + a2 * b2 + a3 * b3) ^ 2
      = ((a1 - b1) ^ 2 + (a2 - b2) ^ 2 + (a3 - b3) ^ 2) * (b1 ^ 2 + b2 ^ 2 + b3 ^ 2)
        - ((a1 - b1) * b1 + (a2 - b2) * b2 + (a3 - b3) * b3) ^ 2 := by ring
  have hG : 0 ≤ b1 ^ 2 + b2 ^ 2 + b3 ^ 2 := by positivity
  constructor
  · rw [lag]
    have := mul_le_mul_of_nonneg_right hE hG
    have h0 := sq_nonneg ((a1 - b1) * b1 + (a2 - b2) * b2 + (a3 - b3) * b3)
    linarith
  · intro h
    have : 2 * (a1 * b1 + a2 * b2 + a3 * b3)
        = (a1 ^ 2 + a2 ^ 2 + a3 ^ 2) + (b1 ^ 2 + b2 ^ 2 + b3 ^ 2)
          - ((a1 - b1) ^ 2 + (a2 - b2) ^ 2 + (a3 - b3) ^ 2) := by ring
    linarith

/-- Cauchy–Schwarz in coordinates -/
theorem cs3 (a1 a2 a3 b1 b2 b3 : ℝ) :
    (a1 * b1 + a2 * b2 + a3 * b3) ^ 2
      ≤ (a1 ^ 2 + a2 ^ 2 + a3 ^ 2) * (b1 ^ 2 + b2 ^ 2 + b3 ^ 2) := by
  nlinarith [sq_nonneg (a1 * b2 - a2 * b1), sq_nonneg (a1 * b3 - a3 * b1),
    sq_nonneg (a2 * b3 - a3 * b2)]

theorem iabs_castR (i : Int) : ((iabs i : Int) : ℝ) = |(i : ℝ)| := by
  unfold iabs; split
  · rename_i h; have : (i:ℝ) < 0 := by exact_mod_cast h
    rw [abs_of_neg this]; push_cast; ring
  · rename_i h; have : (0:ℝ) ≤ i := by exact_mod_cast (not_lt.mp h)
    rw [abs_of_nonneg this]

/-- fixed point over the reals: the exact decode of the coordinates of `v` is `v / c` -/
theorem wStar_fixed_point (t : OctaT) (hwf : t.WF) (v : Int × Int × Int)
    (hsum : iabs v.1 + iabs v.2.1 + iabs v.2.2 = t.center) :
    wStar (((intVecToCoords t v).1 : ℝ) / t.center - 1) (((intVecToCoords t v).2 : ℝ) / t.center - 1)
      = ((v.1 : ℝ) / t.center, (v.2.1 : ℝ) / t.center, (v.2.2 : ℝ) / t.center) := by
  have hfix := decScaled_intVecToCoords t hwf v hsum
  obtain ⟨hV, _, hc1, _⟩ := hwf
  generalize intVecToCoords t v = p at hfix
  obtain ⟨v1, v2, v3⟩ := v
  obtain ⟨s, u⟩ := p
  simp only at hfix
  set c : ℝ := (t.center : ℝ) with hcdef
  have hc0 : (0:ℝ) < c := by rw [hcdef]; exact_mod_cast (by omega : (0:Int) < t.center)
  have hcne : c ≠ 0 := ne_of_gt hc0
  set a : Int := s - t.center with ha
  set b : Int := u - t.center with hb
  have hy : ((s : ℝ) / c - 1) = (a : ℝ) / c := by
    rw [ha]; push_cast; rw [← hcdef]; field_simp
  have hz : ((u : ℝ) / c - 1) = (b : ℝ) / c := by
    rw [hb]; push_cast; rw [← hcdef]; field_simp
  unfold wStar
  simp only
  rw [hy, hz]
  have habs : ∀ k : Int, |(k : ℝ) / c| = ((iabs k : Int) : ℝ) / c := by
    intro k; rw [abs_div, abs_of_pos hc0, iabs_castR]
  have hx : 1 - |(a : ℝ) / c| - |(b : ℝ) / c| = ((t.center - iabs a - iabs b : Int) : ℝ) / c := by
    rw [habs, habs]; push_cast; rw [← hcdef]; field_simp
  rw [hx]
  have hlt : ∀ k : Int, ((k : ℝ) / c < 0 ↔ k < 0) := by
    intro k
    rw [div_neg_iff]
    constructor
    · rintro (⟨_, h⟩ | ⟨h, _⟩)
      · linarith
      · exact_mod_cast h
    · intro h; exact Or.inr ⟨by exact_mod_cast h, hc0⟩
  have hneg : ∀ k : Int, -((k : ℝ) / c) = ((-k : Int) : ℝ) / c := by
    intro k; push_cast; ring
  simp only [hneg, hlt]
  unfold decScaled at hfix
  simp only [Prod.mk.injEq] at hfix
  obtain ⟨f1, f2, f3⟩ := hfix
  rw [← f1, ← f2, ← f3]
  generalize t.center - iabs a - iabs b = x
  by_cases h1 : -x < 0 <;> by_cases h2 : a < 0 <;> by_cases h3 : b < 0 <;>
    simp only [h1, h2, h3, if_true, if_false, Prod.mk.injEq] <;> push_cast <;>
    refine ⟨trivial, ?_, ?_⟩ <;> field_simp <;> ring

theorem norm_sq_ge_third_R (p1 p2 p3 : ℝ) (h : |p1| + |p2| + |p3| = 1) :
    1 ≤ 3 * (p1 ^ 2 + p2 ^ 2 + p3 ^ 2) := by
  have h' : (|p1| + |p2| + |p3|) ^ 2 ≤ 3 * (|p1| ^ 2 + |p2| ^ 2 + |p3| ^ 2) := by
    nlinarith [sq_nonneg (|p1| - |p2|), sq_nonneg (|p1| - |p3|), sq_nonneg (|p2| - |p3|)]
  rw [h, sq_abs, sq_abs, sq_abs] at h'
  linarith

/-- a point `a` of the unit octahedron and a vector `b` at squared distance ≤ `E < 1/3`:
    the angle is at most `β` whenever `3E(1+β²) ≤ β²` -/
theorem angle_close (a1 a2 a3 b1 b2 b3 E β : ℝ) (ha : |a1| + |a2| + |a3| = 1)
    (hE : (a1 - b1) ^ 2 + (a2 - b2) ^ 2 + (a3 - b3) ^ 2 ≤ E) (hE3 : E < 1/3) (hβ : 0 < β)
    (hS : 3 * E * (1 + β ^ 2) ≤ β ^ 2) :
    angle (vec3 a1 a2 a3) (vec3 b1 b2 b3) ≤ β ∧ 0 < b1 ^ 2 + b2 ^ 2 + b3 ^ 2 := by
  have hN := norm_sq_ge_third_R a1 a2 a3 ha
  obtain ⟨c1, c2⟩ := close_vectors a1 a2 a3 b1 b2 b3 E hE
  have hD := c2 (by linarith)
  have hcs := cs3 a1 a2 a3 b1 b2 b3
  have hE0 : 0 ≤ E := le_trans (by positivity) hE
  have hVn : 0 ≤ b1 ^ 2 + b2 ^ 2 + b3 ^ 2 := by positivity
  have hV : 0 < b1 ^ 2 + b2 ^ 2 + b3 ^ 2 := by
    rcases hVn.lt_or_eq with h | h
    · exact h
    · rw [← h, mul_zero] at hcs
      nlinarith
  refine ⟨?_, hV⟩
  rw [angle_vec3]
  apply arccos_le_gen _ _ _ (3 * E) β hβ (by linarith) hV hD _ hcs hS
  have : E * (b1 ^ 2 + b2 ^ 2 + b3 ^ 2)
      ≤ 3 * E * ((a1 ^ 2 + a2 ^ 2 + a3 ^ 2) * (b1 ^ 2 + b2 ^ 2 + b3 ^ 2)) := by
    have h1 : 0 ≤ E * (b1 ^ 2 + b2 ^ 2 + b3 ^ 2) := mul_nonneg hE0 hVn
    nlinarith
  linarith

section dec
variable (ops : OctaNormOps ℝ) {u : ℝ} (hm : DecModel ops u)
include hm

/-- **Decoder**: the decoded vector encloses an angle of at most `144u` with the integer vector
    whose coordinates are decoded -/
theorem decoder_angle (hu0 : 0 < u) (hu : u ≤ 1/16384) (t : OctaT) (hwf : t.WF)
    (v : Int × Int × Int) (hsum : iabs v.1 + iabs v.2.1 + iabs v.2.2 = t.center) :
    let dec := @coordsToUnitVectorG ℝ ops t.maxV (intVecToCoords t v)
    angle (vec3 v.1 v.2.1 v.2.2) (vec3 dec.1 dec.2.1 dec.2.2) ≤ 144 * u ∧
    |dec.1 ^ 2 + dec.2.1 ^ 2 + dec.2.2 ^ 2 - 1| ≤ 10 * u := by
  intro dec
  have hu' : u ≤ 1/1024 := by linarith
  obtain ⟨hg, _⟩ := intVecToCoords_inGrid_canonical t hwf v hsum
  have hfp := wStar_fixed_point t hwf v hsum
  obtain ⟨hV, _, hc1, _⟩ := hwf
  unfold inGrid at hg
  rw [hV] at hg
  obtain ⟨s0, s1, t0, t1⟩ := hg
  have hdec : dec = @coordsToUnitVectorG ℝ ops (2 * t.center) (intVecToCoords t v) := by
    show @coordsToUnitVectorG ℝ ops t.maxV _ = _; rw [hV]
  obtain ⟨e1, e2, e3⟩ := octaVec_err ops hm hu0.le hu' t.center hc1 _ _ s0 s1 t0 t1
  obtain ⟨d, c1, c2, c3, hd, k1, k2, k3, edec, hlen⟩ :=
    decoded_unit ops hm hu0.le hu' t.center hc1 _ _ s0 s1 t0 t1
  rw [show ((intVecToCoords t v).1, (intVecToCoords t v).2) = intVecToCoords t v from rfl] at e1 e2 e3 edec hlen
  rw [hfp] at e1 e2 e3
  simp only at e1 e2 e3
  set c : ℝ := (t.center : ℝ) with hcdef
  have hc0 : (0:ℝ) < c := by rw [hcdef]; exact_mod_cast (by omega : (0:Int) < t.center)
  obtain ⟨w1, w2, w3, hw⟩ : ∃ w1 w2 w3 : ℝ,
      @octaVecG ℝ ops.toOctaDecOps (2 * t.center) (intVecToCoords t v) = (w1, w2, w3) := ⟨_, _, _, rfl⟩
  rw [hw] at e1 e2 e3 edec
  simp only at e1 e2 e3 edec
  -- |g|₁ = 1
  have hg1 : |(v.1:ℝ) / c| + |(v.2.1:ℝ) / c| + |(v.2.2:ℝ) / c| = 1 := by
    rw [abs_div, abs_div, abs_div, abs_of_pos hc0, ← iabs_castR, ← iabs_castR, ← iabs_castR,
      ← add_div, ← add_div, div_eq_one_iff_eq (ne_of_gt hc0), hcdef]
    exact_mod_cast hsum
  have gb1 : |(v.1:ℝ) / c| ≤ 1 := by
    have := abs_nonneg ((v.2.1:ℝ) / c); have := abs_nonneg ((v.2.2:ℝ) / c); linarith
  have gb2 : |(v.2.1:ℝ) / c| ≤ 1 := by
    have := abs_nonneg ((v.1:ℝ) / c); have := abs_nonneg ((v.2.2:ℝ) / c); linarith
  have gb3 : |(v.2.2:ℝ) / c| ≤ 1 := by
    have := abs_nonneg ((v.1:ℝ) / c); have := abs_nonneg ((v.2.1:ℝ) / c); linarith
  -- b_i = w_i (1 + c_i) is within (24.1, 56.1, 56.1) u of g_i
  have step : ∀ (w g δ B : ℝ), |w - g| ≤ B * u → |g| ≤ 1 → |δ| ≤ u → B ≤ 56 →
      |g - w * (1 + δ)| ≤ (B + 11/10) * u := by
    intro w g δ B h1 h2 h3 hB
    obtain ⟨a1, a2⟩ := abs_le.mp h1
    obtain ⟨b1, b2⟩ := abs_le.mp h2
    have hBu : B * u ≤ 56 * u := mul_le_mul_of_nonneg_right hB hu0.le
    have hw : |w| ≤ 11/10 := by rw [abs_le]; constructor <;> linarith
    obtain ⟨m1, m2⟩ := abs_le.mp (mul_small hw h3)
    have : g - w * (1 + δ) = -(w - g) - w * δ := by ring
    rw [this, abs_le]; constructor <;> linarith
  have f1 := step w1 _ c1 23 e1 gb1 k1 (by norm_num)
  have f2 := step w2 _ c2 55 e2 gb2 k2 (by norm_num)
  have f3 := step w3 _ c3 55 e3 gb3 k3 (by norm_num)
  have hE : ((v.1:ℝ) / c - w1 * (1 + c1)) ^ 2 + ((v.2.1:ℝ) / c - w2 * (1 + c2)) ^ 2
      + ((v.2.2:ℝ) / c - w3 * (1 + c3)) ^ 2 ≤ 6876 * u ^ 2 := by
    have q1 : ((v.1:ℝ) / c - w1 * (1 + c1)) ^ 2 ≤ ((23 + 11/10) * u) ^ 2 := by
      rw [← sq_abs]; exact pow_le_pow_left₀ (abs_nonneg _) f1 2
    have q2 : ((v.2.1:ℝ) / c - w2 * (1 + c2)) ^ 2 ≤ ((55 + 11/10) * u) ^ 2 := by
      rw [← sq_abs]; exact pow_le_pow_left₀ (abs_nonneg _) f2 2
    have q3 : ((v.2.2:ℝ) / c - w3 * (1 + c3)) ^ 2 ≤ ((55 + 11/10) * u) ^ 2 := by
      rw [← sq_abs]; exact pow_le_pow_left₀ (abs_nonneg _) f3 2
    nlinarith [sq_nonneg u]
  have hu2 : u ^ 2 ≤ (1/16384) ^ 2 := pow_le_pow_left₀ hu0.le hu 2
  obtain ⟨hang, hVb⟩ := angle_close _ _ _ _ _ _ (6876 * u ^ 2) (144 * u) hg1 hE (by nlinarith)
    (by positivity) (by nlinarith [sq_nonneg u])
  refine ⟨?_, ?_⟩
  · have ev : vec3 v.1 v.2.1 v.2.2 = c • vec3 ((v.1:ℝ) / c) ((v.2.1:ℝ) / c) ((v.2.2:ℝ) / c) := by
      rw [← vec3_smul]; congr 1 <;> field_simp
    have ed : vec3 dec.1 dec.2.1 dec.2.2
        = d • vec3 (w1 * (1 + c1)) (w2 * (1 + c2)) (w3 * (1 + c3)) := by
      rw [← vec3_smul, hdec, edec]; congr 1 <;> ring
    rw [ev, ed, angle_smul_left_of_pos _ _ hc0, angle_smul_right_of_pos _ _ hd]
    exact hang
  · rw [hdec]; exact hlen

end dec

section enc
variable (opsE : DoubleOps ℚ) {uE : ℚ} (hmE : DoubleModel opsE uE)
include hmE

/-- **Encoder** (rationals): the integer vector has L1 norm `c` and is within
    `(1/2+ε, 1/2+ε, 1+2ε)`, `ε = 8·c·uE`, of the scaled projection `c·n/|n|₁` -/
theorem encoder_facts (hu0 : 0 ≤ uE) (hu : uE ≤ 1 / 2 ^ 40) (t : OctaT) (hwf : t.WF)
    (hcu : (t.center : ℚ) * uE ≤ 1/512) (n1 n2 n3 : ℚ) (hn : 0 < |n1| + |n2| + |n3|) :
    let r := @floatVecRoundG ℚ opsE t.center n1 n2 n3
    let v := fixIntVec t r.1 r.2.1 r.2.2
    iabs v.1 + iabs v.2.1 + iabs v.2.2 = t.center ∧
    |n1 / (|n1| + |n2| + |n3|) * t.center - v.1| ≤ 1/2 + 8 * t.center * uE ∧
    |n2 / (|n1| + |n2| + |n3|) * t.center - v.2.1| ≤ 1/2 + 8 * t.center * uE ∧
    |n3 / (|n1| + |n2| + |n3|) * t.center - v.2.2| ≤ 1 + 2 * (8 * t.center * uE) := by
  intro r v
  obtain ⟨_, _, hc1, hc29⟩ := hwf
  have hu' : uE ≤ 1/1024 := by
    have : (1:ℚ) / 2 ^ 40 ≤ 1/1024 := by norm_num
    linarith
  have hsumv : iabs v.1 + iabs v.2.1 + iabs v.2.2 = t.center :=
    fixIntVec_abs_sum t r.1 r.2.1 r.2.2
      (octa_round_in_range opsE uE hu0 hu hmE t.center hc1 hc29 n1 n2 n3)
  obtain ⟨hA, hB, hz⟩ := float_round_close opsE hmE hu0 hu' t.center hc1 n1 n2 n3 hn
  set S := |n1| + |n2| + |n3| with hS
  set c : ℚ := (t.center : ℚ) with hcdef
  have hc0 : (0:ℚ) < c := by rw [hcdef]; exact_mod_cast (by omega : (0:Int) < t.center)
  have hsum : |n1 / S * c| + |n2 / S * c| + |n3 / S * c| = (t.center : ℚ) := by
    rw [abs_mul, abs_mul, abs_mul, abs_div, abs_div, abs_div, abs_of_pos hc0, abs_of_pos hn]
    have : (|n1| + |n2| + |n3|) / S = 1 := by rw [← hS]; exact div_self (ne_of_gt hn)
    calc |n1| / S * c + |n2| / S * c + |n3| / S * c = ((|n1| + |n2| + |n3|) / S) * c := by ring
      _ = c := by rw [this, one_mul]
  have hε0 : (0:ℚ) ≤ 8 * c * uE := by positivity
  have hε : 8 * c * uE < 1/2 := by nlinarith
  obtain ⟨d1, d2, d3⟩ := grid_distance_eps t r.1 r.2.1 _ _ _ (8 * c * uE) r.2.2 hε0 hε hA hB hsum hz
  exact ⟨hsumv, d1, d2, d3⟩

end enc

/-- polynomial fact behind the encoder angle: `(1+2ε)²(1+(1+5ε)²) ≤ 2(1+5ε)²` for `0 ≤ ε ≤ 1/64` -/
theorem eps_poly (ε : ℝ) (h0 : 0 ≤ ε) (h1 : ε ≤ 1/64) :
    (1 + 2 * ε) ^ 2 * (1 + (1 + 5 * ε) ^ 2) ≤ 2 * (1 + 5 * ε) ^ 2 := by
  have h2 : ε ^ 2 ≤ ε / 64 := by nlinarith
  have h3 : ε ^ 3 ≤ ε / 4096 := by nlinarith
  have h4 : ε ^ 4 ≤ ε / 262144 := by nlinarith
  nlinarith

/-- **Encoder angle, `c ≥ 3`**: from the componentwise distances to the angle -/
theorem encoder_angle_of_facts (c : ℝ) (hc : 3 ≤ c) (ε : ℝ) (hε0 : 0 ≤ ε) (hε : ε ≤ 1/64)
    (n1 n2 n3 S : ℝ) (hS : S = |n1| + |n2| + |n3|) (hS0 : 0 < S) (v1 v2 v3 : ℝ)
    (d1 : |n1 / S * c - v1| ≤ 1/2 + ε) (d2 : |n2 / S * c - v2| ≤ 1/2 + ε)
    (d3 : |n3 / S * c - v3| ≤ 1 + 2 * ε) :
    angle (vec3 n1 n2 n3) (vec3 v1 v2 v3) ≤ 3 / c * (1 + 5 * ε) := by
  have hc0 : 0 < c := by linarith
  have hp1 : |n1 / S| + |n2 / S| + |n3 / S| = 1 := by
    rw [abs_div, abs_div, abs_div, abs_of_pos hS0, ← add_div, ← add_div, ← hS]
    exact div_self (ne_of_gt hS0)
  set h := (1/2 + ε) / c with hh
  have q : ∀ (nn vv B : ℝ), |nn / S * c - vv| ≤ B → |nn / S - vv / c| ≤ B / c := by
    intro nn vv B hB
    have : nn / S - vv / c = (nn / S * c - vv) / c := by field_simp
    rw [this, abs_div, abs_of_pos hc0]
    exact div_le_div_of_nonneg_right hB hc0.le
  have q1 := q n1 v1 _ d1
  have q2 := q n2 v2 _ d2
  have q3 := q n3 v3 _ d3
  have hE : (n1 / S - v1 / c) ^ 2 + (n2 / S - v2 / c) ^ 2 + (n3 / S - v3 / c) ^ 2 ≤ 6 * h ^ 2 := by
    have e1 : (n1 / S - v1 / c) ^ 2 ≤ h ^ 2 := by
      rw [← sq_abs]; exact pow_le_pow_left₀ (abs_nonneg _) q1 2
    have e2 : (n2 / S - v2 / c) ^ 2 ≤ h ^ 2 := by
      rw [← sq_abs]; exact pow_le_pow_left₀ (abs_nonneg _) q2 2
    have e3 : (n3 / S - v3 / c) ^ 2 ≤ (2 * h) ^ 2 := by
      rw [← sq_abs]
      refine pow_le_pow_left₀ (abs_nonneg _) (le_trans q3 ?_) 2
      rw [hh]; apply le_of_eq; field_simp
    nlinarith
  have hh0 : 0 ≤ h := by rw [hh]; positivity
  have hhb : h ≤ (1/2 + 1/64) / 3 := by
    rw [hh, div_le_div_iff₀ hc0 (by norm_num)]; nlinarith
  have hβ : 0 < 3 / c * (1 + 5 * ε) := by positivity
  have hβ1 : (3 / c * (1 + 5 * ε)) ^ 2 ≤ (1 + 5 * ε) ^ 2 := by
    have : 3 / c ≤ 1 := by rw [div_le_one hc0]; exact hc
    have h3 : 0 ≤ 3 / c := by positivity
    have : 3 / c * (1 + 5 * ε) ≤ 1 * (1 + 5 * ε) := mul_le_mul_of_nonneg_right this (by linarith)
    exact pow_le_pow_left₀ (by positivity) (by linarith) 2
  have hcond : 3 * (6 * h ^ 2) * (1 + (3 / c * (1 + 5 * ε)) ^ 2) ≤ (3 / c * (1 + 5 * ε)) ^ 2 := by
    have hp := eps_poly ε hε0 hε
    have e18 : 3 * (6 * h ^ 2) = (9 / (2 * c ^ 2)) * (1 + 2 * ε) ^ 2 := by rw [hh]; field_simp; ring
    have eβ : (3 / c * (1 + 5 * ε)) ^ 2 = (9 / c ^ 2) * (1 + 5 * ε) ^ 2 := by
      rw [mul_pow, div_pow]; norm_num
    rw [e18]
    have hk : 0 ≤ 9 / (2 * c ^ 2) := by positivity
    have s1 : (9 / (2 * c ^ 2)) * (1 + 2 * ε) ^ 2 * (1 + (3 / c * (1 + 5 * ε)) ^ 2)
        ≤ (9 / (2 * c ^ 2)) * ((1 + 2 * ε) ^ 2 * (1 + (1 + 5 * ε) ^ 2)) := by
      rw [mul_assoc]
      refine mul_le_mul_of_nonneg_left ?_ hk
      exact mul_le_mul_of_nonneg_left (by linarith) (by positivity)
    have s2 : (9 / (2 * c ^ 2)) * ((1 + 2 * ε) ^ 2 * (1 + (1 + 5 * ε) ^ 2))
        ≤ (9 / (2 * c ^ 2)) * (2 * (1 + 5 * ε) ^ 2) := mul_le_mul_of_nonneg_left hp hk
    have s3 : (9 / (2 * c ^ 2)) * (2 * (1 + 5 * ε) ^ 2) = (9 / c ^ 2) * (1 + 5 * ε) ^ 2 := by
      field_simp
    calc _ ≤ _ := s1
      _ ≤ _ := s2
      _ = _ := s3
      _ = _ := eβ.symm
  obtain ⟨hang, _⟩ := angle_close _ _ _ _ _ _ (6 * h ^ 2) _ hp1 hE (by nlinarith) hβ hcond
  have en : vec3 n1 n2 n3 = S • vec3 (n1 / S) (n2 / S) (n3 / S) := by
    rw [← vec3_smul]; congr 1 <;> field_simp
  have ev : vec3 v1 v2 v3 = c • vec3 (v1 / c) (v2 / c) (v3 / c) := by
    rw [← vec3_smul]; congr 1 <;> field_simp
  rw [en, ev, angle_smul_left_of_pos _ _ hS0, angle_smul_right_of_pos _ _ hc0]
  exact hang

/-- **Encoder angle, `c = 1` (`q = 2`)**: the integer vector is one of the six axis vectors and
    `n·v ≥ −2ε|n|₁`, hence the angle is at most `π/2 + 8ε` -/
theorem encoder_angle_q2_of_facts (ε : ℝ) (hε0 : 0 ≤ ε) (hε : ε ≤ 1/64)
    (n1 n2 n3 S : ℝ) (hS : S = |n1| + |n2| + |n3|) (hS0 : 0 < S) (v1 v2 v3 : Int)
    (hv : iabs v1 + iabs v2 + iabs v3 = 1)
    (d1 : |n1 / S * 1 - v1| ≤ 1/2 + ε) (d2 : |n2 / S * 1 - v2| ≤ 1/2 + ε)
    (d3 : |n3 / S * 1 - v3| ≤ 1 + 2 * ε) :
    angle (vec3 n1 n2 n3) (vec3 v1 v2 v3) ≤ Real.pi / 2 + 8 * ε := by
  have hp1 : |n1 / S| + |n2 / S| + |n3 / S| = 1 := by
    rw [abs_div, abs_div, abs_div, abs_of_pos hS0, ← add_div, ← add_div, ← hS]
    exact div_self (ne_of_gt hS0)
  rw [mul_one] at d1 d2 d3
  obtain ⟨a1, a2⟩ := abs_le.mp d1
  obtain ⟨b1, b2⟩ := abs_le.mp d2
  obtain ⟨c1, c2⟩ := abs_le.mp d3
  set p1 := n1 / S
  set p2 := n2 / S
  set p3 := n3 / S
  have hP := norm_sq_ge_third_R p1 p2 p3 hp1
  -- the six axis vectors
  have hcases : (v1 = 1 ∨ v1 = -1) ∧ v2 = 0 ∧ v3 = 0 ∨ v1 = 0 ∧ (v2 = 1 ∨ v2 = -1) ∧ v3 = 0 ∨
      v1 = 0 ∧ v2 = 0 ∧ (v3 = 1 ∨ v3 = -1) := by
    unfold iabs at hv
    (repeat' split at hv) <;> omega
  have hG : ((v1:ℝ)) ^ 2 + (v2:ℝ) ^ 2 + (v3:ℝ) ^ 2 = 1 := by
    rcases hcases with ⟨h | h, h2, h3⟩ | ⟨h1, h | h, h3⟩ | ⟨h1, h2, h | h⟩ <;> simp_all
  have hD : -(2 * ε) ≤ p1 * v1 + p2 * v2 + p3 * v3 := by
    rcases hcases with ⟨h | h, h2, h3⟩ | ⟨h1, h | h, h3⟩ | ⟨h1, h2, h | h⟩ <;>
      simp_all <;> linarith
  have en : vec3 n1 n2 n3 = S • vec3 p1 p2 p3 := by
    rw [← vec3_smul]; congr 1 <;> (simp only [p1, p2, p3]; field_simp)
  rw [en, angle_smul_left_of_pos _ _ hS0, angle_vec3, hG, Real.sqrt_one, mul_one]
  -- X ≥ −4ε
  have hsq : (1:ℝ)/2 ≤ Real.sqrt (p1 ^ 2 + p2 ^ 2 + p3 ^ 2) := by
    have h14 : ((1:ℝ)/2) ^ 2 ≤ p1 ^ 2 + p2 ^ 2 + p3 ^ 2 := by nlinarith
    calc (1:ℝ)/2 = Real.sqrt (((1:ℝ)/2) ^ 2) := (Real.sqrt_sq (by norm_num)).symm
      _ ≤ _ := Real.sqrt_le_sqrt h14
  have hsqpos : 0 < Real.sqrt (p1 ^ 2 + p2 ^ 2 + p3 ^ 2) := by linarith
  have hX : -(4 * ε) ≤ (p1 * v1 + p2 * v2 + p3 * v3) / Real.sqrt (p1 ^ 2 + p2 ^ 2 + p3 ^ 2) := by
    rw [le_div_iff₀ hsqpos]
    nlinarith
  have h8 : 0 ≤ 8 * ε := by linarith
  have hpi := Real.two_le_pi
  have hpi4 := Real.pi_le_four
  have hsin : 4 * ε ≤ Real.sin (8 * ε) := by
    have := Real.mul_le_sin h8 (by linarith)
    have h2pi : (1:ℝ)/2 ≤ 2 / Real.pi := by rw [le_div_iff₀ (by linarith)]; linarith
    nlinarith
  have hcos : Real.cos (Real.pi / 2 + 8 * ε) ≤
      (p1 * v1 + p2 * v2 + p3 * v3) / Real.sqrt (p1 ^ 2 + p2 ^ 2 + p3 ^ 2) := by
    rw [add_comm, Real.cos_add_pi_div_two]; linarith
  have := Real.arccos_le_arccos hcos
  rwa [Real.arccos_cos (by linarith) (by linarith)] at this

end Octa
end Draco
