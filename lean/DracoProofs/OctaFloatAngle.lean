import DracoProofs.OctaDecFloat
import DracoProofs.OctaEncFloat
import Mathlib.Geometry.Euclidean.Angle.Unoriented.TriangleInequality
import Mathlib.Analysis.InnerProductSpace.PiL2
/-
  C07: composition of the float encoder (`DoubleModel`, rationals) and the float decoder
  (`DecModel`, reals) into angle statements, via the triangle inequality for angles
  (`InnerProductGeometry.angle_le_angle_add_angle`).
-/
namespace Draco
namespace Octa
open InnerProductGeometry

/-- a vector of `ℝ³` -/
noncomputable def vec3 (a b c : ℝ) : EuclideanSpace ℝ (Fin 3) := !₂[a, b, c]

/-- the angle of Mathlib in coordinates -/
theorem angle_vec3 (a1 a2 a3 b1 b2 b3 : ℝ) :
    angle (vec3 a1 a2 a3) (vec3 b1 b2 b3)
      = Real.arccos ((a1 * b1 + a2 * b2 + a3 * b3)
          / (Real.sqrt (a1 ^ 2 + a2 ^ 2 + a3 ^ 2) * Real.sqrt (b1 ^ 2 + b2 ^ 2 + b3 ^ 2))) := by
  unfold angle vec3
  congr 2
  · simp [EuclideanSpace.inner_eq_star_dotProduct, Fin.sum_univ_three, dotProduct]
    ring
  · simp [EuclideanSpace.norm_eq, Fin.sum_univ_three]

theorem vec3_smul (k a b c : ℝ) : vec3 (k * a) (k * b) (k * c) = k • vec3 a b c := by
  unfold vec3
  ext i
  fin_cases i <;> simp

theorem vec3_ne_zero (a b c : ℝ) (h : 0 < a ^ 2 + b ^ 2 + c ^ 2) : vec3 a b c ≠ 0 := by
  intro h0
  have : ‖vec3 a b c‖ = 0 := by rw [h0]; simp
  unfold vec3 at this
  rw [EuclideanSpace.norm_eq] at this
  simp [Fin.sum_univ_three] at this
  have h2 := Real.sqrt_eq_zero'.mp this
  linarith

/-- `sin² θ ≤ S`, `S(1+β²) ≤ β²`  ⟹  `θ ≤ β`  (for `0 ≤ θ < π/2`) -/
theorem angle_le_of_sin_sq_gen (θ β S : ℝ) (hβ : 0 < β) (h0 : 0 ≤ θ) (h1 : θ < Real.pi / 2)
    (hs : Real.sin θ ^ 2 ≤ S) (hS : S * (1 + β ^ 2) ≤ β ^ 2) : θ ≤ β := by
  have hcos : 0 < Real.cos θ := Real.cos_pos_of_mem_Ioo ⟨by linarith [Real.pi_pos], h1⟩
  have hsin : 0 ≤ Real.sin θ := Real.sin_nonneg_of_nonneg_of_le_pi h0 (by linarith [Real.pi_pos])
  have hsc := Real.sin_sq_add_cos_sq θ
  refine le_trans (Real.le_tan h0 h1) ?_
  rw [Real.tan_eq_sin_div_cos, div_le_iff₀ hcos]
  have hs2 : Real.sin θ ^ 2 * (1 + β ^ 2) ≤ β ^ 2 := by
    refine le_trans (mul_le_mul_of_nonneg_right hs (by positivity)) hS
  have key : Real.sin θ ^ 2 ≤ (β * Real.cos θ) ^ 2 := by
    have : (β * Real.cos θ) ^ 2 = β ^ 2 * (1 - Real.sin θ ^ 2) := by rw [mul_pow]; rw [← hsc]; ring
    rw [this]; nlinarith
  exact (pow_le_pow_iff_left₀ hsin (by positivity) two_ne_zero).mp key

/-- angle bound from a polynomial `sin²` bound -/
theorem arccos_le_gen (N V D S β : ℝ) (hβ : 0 < β) (hN : 0 < N) (hV : 0 < V) (hD : 0 < D)
    (hb : N * V - D ^ 2 ≤ S * (N * V)) (hcs : D ^ 2 ≤ N * V) (hS : S * (1 + β ^ 2) ≤ β ^ 2) :
    Real.arccos (D / (Real.sqrt N * Real.sqrt V)) ≤ β := by
  have hsN := Real.sqrt_pos.mpr hN
  have hsV := Real.sqrt_pos.mpr hV
  have hden : 0 < Real.sqrt N * Real.sqrt V := mul_pos hsN hsV
  have hden2 : (Real.sqrt N * Real.sqrt V) ^ 2 = N * V := by
    rw [mul_pow, Real.sq_sqrt hN.le, Real.sq_sqrt hV.le]
  set x := D / (Real.sqrt N * Real.sqrt V) with hx
  have hx0 : 0 < x := div_pos hD hden
  have hx2 : x ^ 2 = D ^ 2 / (N * V) := by rw [hx, div_pow, hden2]
  have hNV : 0 < N * V := mul_pos hN hV
  have hx1 : x ≤ 1 := by
    have : x ^ 2 ≤ 1 := by rw [hx2, div_le_one hNV]; exact hcs
    nlinarith
  have hcos : Real.cos (Real.arccos x) = x := Real.cos_arccos (by linarith) hx1
  apply angle_le_of_sin_sq_gen _ β S hβ (Real.arccos_nonneg x) (Real.arccos_lt_pi_div_two.mpr hx0) _ hS
  have hs : Real.sin (Real.arccos x) ^ 2 = 1 - x ^ 2 := by
    have := Real.sin_sq_add_cos_sq (Real.arccos x)
    rw [hcos] at this; linarith
  rw [hs, hx2]
  have : 1 - D ^ 2 / (N * V) = (N * V - D ^ 2) / (N * V) := by field_simp
  rw [this, div_le_iff₀ hNV]
  exact hb

/-- two vectors at distance `√E`: `sin² ≤ E/‖a‖²` (Lagrange), and `a·b > 0` when `E < ‖a‖²` -/
theorem close_vectors (a1 a2 a3 b1 b2 b3 E : ℝ)
    (hE : (a1 - b1) ^ 2 + (a2 - b2) ^ 2 + (a3 - b3) ^ 2 ≤ E) :
    (a1 ^ 2 + a2 ^ 2 + a3 ^ 2) * (b1 ^ 2 + b2 ^ 2 + b3 ^ 2) - (a1 * b1 + a2 * b2 + a3 * b3) ^ 2
      ≤ E * (b1 ^ 2 + b2 ^ 2 + b3 ^ 2) ∧
    (E < a1 ^ 2 + a2 ^ 2 + a3 ^ 2 → 0 < a1 * b1 + a2 * b2 + a3 * b3) := by
  have lag : (a1 ^ 2 + a2 ^ 2 + a3 ^ 2) * (b1 ^ 2 + b2 ^ 2 + b3 ^ 2) - (a1 * b1 + a2 * b2 + a3 * b3) ^ 2
      = ((a1 - b1) ^ 2 + (a2 - b2) ^ 2 + (a3 - b3) ^ 2) * (b1 ^ 2 + b2 ^ 2 + b3 ^ 2)
        - ((a1 - b1) * b1 + (a2 - b2) * b2 + (a3 - b3) * b3) ^ 2 := by ring
  have hG : 0 ≤ b1 ^ 2 + b2 ^ 2 + b3 ^ 2 := by positivity
  constructor
  · rw [lag]
    have := mul_le_mul_of_nonneg_right hE hG
    have h0 := sq_nonneg ((a1 - b1) * b1 + (a2 - b2) * b2 + (a3 - b3) * b3)
    linarith
  · intro h
    have : 2 * (a1 * b1 + a2 * b2 + a3 * b3)
        = (a1 ^ 2 + a2 ^ 2 + a3 ^ 2) + (b1 ^ 2 + b2 ^ 2 + b3 ^ 2)
          - ((a1 - b1) ^ 2 + (a2 - b2) ^ 2 + (a3 - b3) ^ 2) := by ring
    linarith

/-- Cauchy–Schwarz in coordinates -/
theorem cs3 (a1 a2 a3 b1 b2 b3 : ℝ) :
    (a1 * b1 + a2 * b2 + a3 * b3) ^ 2
      ≤ (a1 ^ 2 + a2 ^ 2 + a3 ^ 2) * (b1 ^ 2 + b2 ^ 2 + b3 ^ 2) := by
  nlinarith [sq_nonneg (a1 * b2 - a2 * b1), sq_nonneg (a1 * b3 - a3 * b1),
    sq_nonneg (a2 * b3 - a3 * b2)]

theorem iabs_castR (i : Int) : ((iabs i : Int) : ℝ) = |(i : ℝ)| := by
  unfold iabs; split
  · rename_i h; have : (i:ℝ) < 0 := by exact_mod_cast h
    rw [abs_of_neg this]; push_cast; ring
  · rename_i h; have : (0:ℝ) ≤ i := by exact_mod_cast (not_lt.mp h)
    rw [abs_of_nonneg this]

/-- fixed point over the reals: the exact decode of the coordinates of `v` is `v / c` -/
theorem wStar_fixed_point (t : OctaT) (hwf : t.WF) (v : Int × Int × Int)
    (hsum : iabs v.1 + iabs v.2.1 + iabs v.2.2 = t.center) :
    wStar (((intVecToCoords t v).1 : ℝ) / t.center - 1) (((intVecToCoords t v).2 : ℝ) / t.center - 1)
      = ((v.1 : ℝ) / t.center, (v.2.1 : ℝ) / t.center, (v.2.2 : ℝ) / t.center) := by
  have hfix := decScaled_intVecToCoords t hwf v hsum
  obtain ⟨hV, _, hc1, _⟩ := hwf
  generalize intVecToCoords t v = p at hfix
  obtain ⟨v1, v2, v3⟩ := v
  obtain ⟨s, u⟩ := p
  simp only at hfix
  set c : ℝ := (t.center : ℝ) with hcdef
  have hc0 : (0:ℝ) < c := by rw [hcdef]; exact_mod_cast (by omega : (0:Int) < t.center)
  have hcne : c ≠ 0 := ne_of_gt hc0
  set a : Int := s - t.center with ha
  set b : Int := u - t.center with hb
  have hy : ((s : ℝ) / c - 1) = (a : ℝ) / c := by
    rw [ha]; push_cast; rw [← hcdef]; field_simp
  have hz : ((u : ℝ) / c - 1) = (b : ℝ) / c := by
    rw [hb]; push_cast; rw [← hcdef]; field_simp
  unfold wStar
  simp only
  rw [hy, hz]
  have habs : ∀ k : Int, |(k : ℝ) / c| = ((iabs k : Int) : ℝ) / c := by
    intro k; rw [abs_div, abs_of_pos hc0, iabs_castR]
  have hx : 1 - |(a : ℝ) / c| - |(b : ℝ) / c| = ((t.center - iabs a - iabs b : Int) : ℝ) / c := by
    rw [habs, habs]; push_cast; rw [← hcdef]; field_simp
  rw [hx]
  have hlt : ∀ k : Int, ((k : ℝ) / c < 0 ↔ k < 0) := by
    intro k
    rw [div_neg_iff]
    constructor
    · rintro (⟨_, h⟩ | ⟨h, _⟩)
      · linarith
      · exact_mod_cast h
    · intro h; exact Or.inr ⟨by exact_mod_cast h, hc0⟩
  have hneg : ∀ k : Int, -((k : ℝ) / c) = ((-k : Int) : ℝ) / c := by
    intro k; push_cast; ring
  simp only [hneg, hlt]
  unfold decScaled at hfix
  simp only [Prod.mk.injEq] at hfix
  obtain ⟨f1, f2, f3⟩ := hfix
  rw [← f1, ← f2, ← f3]
  generalize t.center - iabs a - iabs b = x
  by_cases h1 : -x < 0 <;> by_cases h2 : a < 0 <;> by_cases h3 : b < 0 <;>
    simp only [h1, h2, h3, if_true, if_false, Prod.mk.injEq] <;> push_cast <;>
    refine ⟨trivial, ?_, ?_⟩ <;> field_simp <;> ring

end Octa
end Draco
