import DracoProofs.Yields
/-
  C17 (d): FoldedBit32Encoder<E> / FoldedBit32Decoder<D> for any bit coder pair (E, D)
  satisfying `CoderOK`: bit `i` (from the top) of every `EncodeLeastSignificantBits32` value
  goes to sub-coder `i`, plain bits go to the 33rd coder.
-/
namespace Draco

/-- what the folded coder needs of the underlying pair: `flat` is the list of bits pushed so
    far; a finished encoder followed by `StartDecoding` yields those bits and consumes exactly
    the bytes written. -/
structure CoderOK {ε δ : Type} (E : BitEncIface ε) (D : BitDecIface δ)
    (flat : ε → List Bool) (inv : ε → Prop) : Prop where
  start_flat : flat E.start = []
  start_inv : inv E.start
  bit_spec : ∀ e b, inv e → flat (E.bit e b) = flat e ++ [b] ∧ inv (E.bit e b)
  dec : ∀ e rest, inv e → (flat e).length + 3 < 2^32 →
    ∃ d, D.start (E.finish e ++ rest) = some (d, rest) ∧ Yields D.next d (flat e)

/-- prepend bit `i` to column `i` -/
def consCols : List (List Bool) → List Bool → List (List Bool)
  | cs, [] => cs
  | [], _ :: _ => []
  | c :: cs, b :: bs => (b :: c) :: consCols cs bs

/-- append bit `i` to column `i` -/
def snocCols : List (List Bool) → List Bool → List (List Bool)
  | cs, [] => cs
  | [], _ :: _ => []
  | c :: cs, b :: bs => (c ++ [b]) :: snocCols cs bs

/-- the bit streams of the 32 folded number coders -/
def cols : List BitOp → List (List Bool)
  | [] => List.replicate 32 []
  | .bit _ :: ops => cols ops
  | .lsb32 n v :: ops => consCols (cols ops) (msbBits n v)

/-- the bit stream of `bit_encoder_` -/
def bitCol : List BitOp → List Bool
  | [] => []
  | .bit b :: ops => b :: bitCol ops
  | .lsb32 _ _ :: ops => bitCol ops

def zipApp (cs ds : List (List Bool)) : List (List Bool) := List.zipWith (· ++ ·) cs ds

theorem consCols_length : ∀ (cs : List (List Bool)) (bits : List Bool),
    (consCols cs bits).length = cs.length := by
  intro cs
  induction cs with
  | nil => intro bits; cases bits <;> simp [consCols]
  | cons c cs ih => intro bits; cases bits <;> simp [consCols, ih]

theorem snocCols_length : ∀ (cs : List (List Bool)) (bits : List Bool),
    (snocCols cs bits).length = cs.length := by
  intro cs
  induction cs with
  | nil => intro bits; cases bits <;> simp [snocCols]
  | cons c cs ih => intro bits; cases bits <;> simp [snocCols, ih]

theorem cols_length : ∀ ops : List BitOp, (cols ops).length = 32 := by
  intro ops
  induction ops with
  | nil => simp [cols]
  | cons op ops ih => cases op <;> simp [cols, consCols_length, ih]

theorem consCols_bound (k : Nat) : ∀ (cs : List (List Bool)) (bits : List Bool),
    (∀ c ∈ cs, c.length ≤ k) → ∀ c ∈ consCols cs bits, c.length ≤ k + 1 := by
  intro cs
  induction cs with
  | nil => intro bits _ c hc; cases bits <;> simp [consCols] at hc
  | cons c0 cs ih =>
    intro bits h c hc
    cases bits with
    | nil =>
      simp only [consCols] at hc
      have := h c hc; omega
    | cons b bs =>
      simp only [consCols, List.mem_cons] at hc
      rcases hc with hc | hc
      · subst hc
        have := h c0 (by simp)
        simp only [List.length_cons]; omega
      · exact ih bs (fun x hx => h x (by simp [hx])) c hc

theorem cols_bound : ∀ ops : List BitOp, ∀ c ∈ cols ops, c.length ≤ ops.length := by
  intro ops
  induction ops with
  | nil => intro c hc; simp [cols] at hc; simp [hc]
  | cons op ops ih =>
    intro c hc
    cases op with
    | bit b => simp only [cols] at hc; have := ih c hc; simp only [List.length_cons]; omega
    | lsb32 n v =>
      simp only [cols] at hc
      exact consCols_bound ops.length _ _ ih c hc

theorem bitCol_bound : ∀ ops : List BitOp, (bitCol ops).length ≤ ops.length := by
  intro ops
  induction ops with
  | nil => simp [bitCol]
  | cons op ops ih => cases op <;> simp [bitCol] <;> omega

theorem zipApp_snoc_cons : ∀ (cs ds : List (List Bool)) (bits : List Bool),
    zipApp (snocCols cs bits) ds = zipApp cs (consCols ds bits) := by
  intro cs
  induction cs with
  | nil => intro ds bits; cases bits <;> simp [snocCols, zipApp]
  | cons c cs ih =>
    intro ds bits
    cases bits with
    | nil => simp [snocCols, consCols]
    | cons b bs =>
      cases ds with
      | nil => simp [snocCols, consCols, zipApp]
      | cons d ds =>
        have := ih ds bs
        simp only [zipApp] at this
        simp [snocCols, consCols, zipApp, this]

theorem zipApp_replicate_nil : ∀ (n : Nat) (X : List (List Bool)), X.length = n →
    zipApp (List.replicate n []) X = X := by
  intro n
  induction n with
  | zero => intro X h; simp [zipApp, List.length_eq_zero_iff.mp h]
  | succ n ih =>
    intro X h
    cases X with
    | nil => simp at h
    | cons x X =>
      have := ih X (by simpa using h)
      simp only [zipApp] at this
      simp [zipApp, List.replicate_succ, this]

section
variable {ε δ : Type} {E : BitEncIface ε} {D : BitDecIface δ} {flat : ε → List Bool}
  {inv : ε → Prop}

/-- encoder `e` has pushed exactly the bits `c` -/
def EncRel (flat : ε → List Bool) (inv : ε → Prop) (e : ε) (c : List Bool) : Prop :=
  inv e ∧ flat e = c

theorem foldedPut_rel (hok : CoderOK E D flat inv) : ∀ (es : List ε) (cs : List (List Bool)),
    List.Forall₂ (EncRel flat inv) es cs → ∀ bits,
    List.Forall₂ (EncRel flat inv) (foldedPut E es bits) (snocCols cs bits) := by
  intro es cs h
  induction h with
  | nil => intro bits; cases bits <;> simp [foldedPut, snocCols]
  | cons hr _ ih =>
    intro bits
    cases bits with
    | nil => simp only [foldedPut, snocCols]; exact List.Forall₂.cons hr (by assumption)
    | cons b bs =>
      simp only [foldedPut, snocCols]
      obtain ⟨hi, hf⟩ := hr
      obtain ⟨s1, s2⟩ := hok.bit_spec _ b hi
      exact List.Forall₂.cons ⟨s2, by rw [s1, hf]⟩ (ih bs)

theorem zipApp_nil_right : ∀ (n : Nat) (X : List (List Bool)), X.length = n →
    zipApp X (List.replicate n []) = X := by
  intro n
  induction n with
  | zero => intro X h; simp [zipApp, List.length_eq_zero_iff.mp h]
  | succ n ih =>
    intro X h
    cases X with
    | nil => simp at h
    | cons x X =>
      have := ih X (by simpa using h)
      simp only [zipApp] at this
      simp [zipApp, List.replicate_succ, this]

theorem forall2_length {α β : Type} {R : α → β → Prop} {l₁ : List α} {l₂ : List β}
    (h : List.Forall₂ R l₁ l₂) : l₁.length = l₂.length := by
  induction h with
  | nil => rfl
  | cons _ _ ih => simp [ih]

theorem folded_enc (hok : CoderOK E D flat inv) : ∀ (ops : List BitOp) (es : List ε) (eb : ε)
    (cs : List (List Bool)) (cb : List Bool), cs.length = 32 →
    List.Forall₂ (EncRel flat inv) es cs → EncRel flat inv eb cb →
    List.Forall₂ (EncRel flat inv) (ops.foldl (FoldedEnc.op E) ⟨es, eb⟩).nums (zipApp cs (cols ops)) ∧
    EncRel flat inv (ops.foldl (FoldedEnc.op E) ⟨es, eb⟩).bitEnc (cb ++ bitCol ops) := by
  intro ops
  induction ops with
  | nil =>
    intro es eb cs cb hl h hb
    simp only [List.foldl_nil, cols, bitCol, List.append_nil]
    rw [zipApp_nil_right 32 cs hl]
    exact ⟨h, hb⟩
  | cons op ops ih =>
    intro es eb cs cb hl h hb
    rw [List.foldl_cons]
    cases op with
    | bit b =>
      obtain ⟨hi, hf⟩ := hb
      obtain ⟨s1, s2⟩ := hok.bit_spec eb b hi
      have := ih es (E.bit eb b) cs (cb ++ [b]) hl h ⟨s2, by rw [s1, hf]⟩
      simpa [FoldedEnc.op, cols, bitCol] using this
    | lsb32 n v =>
      have h' := foldedPut_rel hok es cs h (msbBits n v)
      have := ih (foldedPut E es (msbBits n v)) eb (snocCols cs (msbBits n v)) cb
        (by rw [snocCols_length, hl]) h' hb
      rw [zipApp_snoc_cons] at this
      simpa [FoldedEnc.op, cols, bitCol] using this

theorem replicate_rel (hok : CoderOK E D flat inv) (n : Nat) :
    List.Forall₂ (EncRel flat inv) (List.replicate n E.start) (List.replicate n []) := by
  induction n with
  | zero => exact List.Forall₂.nil
  | succ n ih =>
    rw [List.replicate_succ, List.replicate_succ]
    exact List.Forall₂.cons ⟨hok.start_inv, hok.start_flat⟩ ih

/-- the final encoder state: sub-coder `i` holds column `i` -/
theorem folded_enc_final (hok : CoderOK E D flat inv) (ops : List BitOp) :
    List.Forall₂ (EncRel flat inv) (ops.foldl (FoldedEnc.op E) (FoldedEnc.start E)).nums (cols ops) ∧
    EncRel flat inv (ops.foldl (FoldedEnc.op E) (FoldedEnc.start E)).bitEnc (bitCol ops) := by
  have := folded_enc hok ops (List.replicate 32 E.start) E.start (List.replicate 32 []) []
    (by simp) (replicate_rel hok 32) ⟨hok.start_inv, hok.start_flat⟩
  rw [zipApp_replicate_nil 32 _ (cols_length ops), List.nil_append] at this
  exact this

/-- 32 consecutive `StartDecoding` calls on the concatenated outputs -/
theorem startMany_spec (hok : CoderOK E D flat inv) : ∀ (fs : List ε) (cs : List (List Bool)),
    List.Forall₂ (EncRel flat inv) fs cs → (∀ c ∈ cs, c.length + 3 < 2^32) → ∀ rest,
    ∃ ds, startMany D.start fs.length (fs.flatMap E.finish ++ rest) = some (ds, rest) ∧
      List.Forall₂ (Yields D.next) ds cs := by
  intro fs cs h
  induction h with
  | nil => intro _ rest; exact ⟨[], by simp [startMany], List.Forall₂.nil⟩
  | @cons f c fs cs hr _ ih =>
    intro hb rest
    obtain ⟨hi, hf⟩ := hr
    obtain ⟨ds, h1, h2⟩ := ih (fun x hx => hb x (by simp [hx])) rest
    obtain ⟨d, g1, g2⟩ := hok.dec f (fs.flatMap E.finish ++ rest) hi
      (by rw [hf]; exact hb c (by simp))
    refine ⟨d :: ds, ?_, List.Forall₂.cons (by rw [← hf]; exact g2) h2⟩
    simp only [List.flatMap_cons, List.length_cons, List.append_assoc, startMany, g1, h1]

theorem foldedGet_spec : ∀ (bits : List Bool) (ds : List δ) (cs : List (List Bool)) (acc : Nat),
    List.Forall₂ (Yields D.next) ds (consCols cs bits) → bits.length ≤ cs.length →
    (foldedGet D ds bits.length acc).1 = bits.foldl shlAdd32 acc ∧
    List.Forall₂ (Yields D.next) (foldedGet D ds bits.length acc).2 cs := by
  intro bits
  induction bits with
  | nil =>
    intro ds cs acc h _
    simp only [consCols] at h
    simp only [List.length_nil, foldedGet, List.foldl_nil]
    exact ⟨trivial, h⟩
  | cons b bs ih =>
    intro ds cs acc h hl
    cases cs with
    | nil => simp at hl
    | cons c cs =>
      simp only [consCols] at h
      cases h with
      | cons hy hrest =>
        obtain ⟨y1, y2⟩ := hy
        simp only [List.length_cons] at hl
        obtain ⟨r1, r2⟩ := ih _ cs (shlAdd32 acc b) hrest (by omega)
        simp only [List.length_cons, foldedGet, List.foldl_cons, y1]
        exact ⟨r1, List.Forall₂.cons y2 r2⟩

theorem folded_run : ∀ (ops : List BitOp) (ds : List δ) (db : δ) (acc : List Nat),
    (∀ op ∈ ops, op.Valid) → List.Forall₂ (Yields D.next) ds (cols ops) →
    Yields D.next db (bitCol ops) →
    (runReqs (FoldedDec.req D) (ops.map BitOp.req) ⟨ds, db⟩ acc).1 =
      acc.reverse ++ ops.map BitOp.value := by
  intro ops
  induction ops with
  | nil => intro ds db acc _ _ _; simp [runReqs]
  | cons op ops ih =>
    intro ds db acc hv hc hb
    have hv' : ∀ o ∈ ops, o.Valid := fun o ho => hv o (by simp [ho])
    have hop := hv op (by simp)
    cases op with
    | bit b =>
      simp only [cols] at hc
      simp only [bitCol] at hb
      obtain ⟨h1, h2⟩ := hb
      simp only [List.map_cons, BitOp.req, runReqs, FoldedDec.req, h1]
      rw [ih ds _ _ hv' hc h2]
      simp [BitOp.value]
    | lsb32 n v =>
      simp only [cols] at hc
      simp only [bitCol] at hb
      obtain ⟨_, hn32, _⟩ := hop
      have hlen : (msbBits n v).length ≤ (cols ops).length := by
        rw [msbBits_length, cols_length]; exact hn32
      obtain ⟨g1, g2⟩ := foldedGet_spec (D := D) (msbBits n v) ds (cols ops) 0 hc hlen
      rw [msbBits_length] at g1 g2
      simp only [List.map_cons, BitOp.req, runReqs, FoldedDec.req]
      rw [ih _ db _ hv' g2 hb, g1, foldl_shlAdd32_value n v hn32]
      simp [BitOp.value]

theorem foldedDecode_of_start (reqs : List BitReq) (input rest : Bytes)
    (d : FoldedDec δ) (h : foldedStart D input = some (d, rest)) :
    foldedDecode D reqs input = some ((runReqs (FoldedDec.req D) reqs d []).1, rest) := by
  unfold foldedDecode
  rw [h]

/-- FoldedBit32 round trip over any good coder pair -/
theorem folded_decode_encode (hok : CoderOK E D flat inv) (ops : List BitOp)
    (hv : ∀ op ∈ ops, op.Valid) (hlen : ops.length + 3 < 2^32) (rest : Bytes) :
    foldedDecode D (ops.map BitOp.req) (foldedEncode E ops ++ rest) =
      some (ops.map BitOp.value, rest) := by
  obtain ⟨hn, hb⟩ := folded_enc_final hok ops
  unfold foldedEncode FoldedEnc.finish
  generalize ops.foldl (FoldedEnc.op E) (FoldedEnc.start E) = fin at hn hb
  obtain ⟨fs, fb⟩ := fin
  simp only at hn hb ⊢
  have hfl : fs.length = 32 := by rw [forall2_length hn, cols_length]
  obtain ⟨hbi, hbf⟩ := hb
  obtain ⟨db, b1, b2⟩ := hok.dec fb rest hbi (by
    rw [hbf]; have := bitCol_bound ops; omega)
  obtain ⟨ds, s1, s2⟩ := startMany_spec hok fs (cols ops) hn
    (fun c hc => by have := cols_bound ops c hc; omega) (E.finish fb ++ rest)
  rw [hfl] at s1
  have hstart : foldedStart D ((fs.flatMap E.finish ++ E.finish fb) ++ rest) = some (⟨ds, db⟩, rest) := by
    rw [List.append_assoc]
    generalize fs.flatMap E.finish ++ (E.finish fb ++ rest) = input at s1 ⊢
    generalize E.finish fb ++ rest = input2 at s1 b1
    unfold foldedStart
    rw [s1]
    simp only [b1]
  rw [foldedDecode_of_start _ _ rest _ hstart, folded_run ops ds db [] hv s2 (by rw [← hbf]; exact b2)]
  simp

end

end Draco
