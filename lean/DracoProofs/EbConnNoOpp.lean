import DracoProofs.EbConnRoundtrip
import DracoProofs.EbCreateVc
import DracoProofs.EbCoverage
/-
  The CONNECTIVITY LINK for every mesh without an opposite link: `k` non-degenerate triangles (arbitrary vertex ids, the
  triangles may share vertices) none of whose edges is paired by `CornerTable.create` — every connected component is a
  single triangle.  Standard traversal, no attribute data.

  The decoder half is `ConnTri.runs_decodeConnectivity_tri` (DracoProofs/EbConnRoundtrip.lean): the bytes `triBytes ch k`
  (`k` symbols `E`, `k` start-face bits `false`) decode to `meshK k`.  Here the ENCODER half is proved symbolically, for
  every `k`: on such a mesh a successful `encodeConnectivity` wrote exactly `triBytes ch k`, processed the corners
  `3 (k - 1), …, 3, 0`, and its corner table is isomorphic to the decoded one.
-/
namespace Draco.EbEnc.ConnNoOpp
open Draco
open Draco.Eb hiding nextC prevC iabs
open Draco.EbEnc.EncCounts Draco.EbEnc.Coverage Draco.EbEnc.ConnTri AttViews

/-! ## the class -/

/-- `k = pf.size` non-degenerate faces, no opposite link in the created table -/
structure NoOpp (pf : Faces) (tbl : CornerTable) : Prop where
  create : CornerTable.create pf = some tbl
  nondeg : ∀ f, f < pf.size → faceDegenerate pf f = false
  noopp : ∀ c, c < 3 * pf.size → (CT.ofTable tbl).opp[c]! = inv

section facts
variable {pf : Faces} {tbl : CornerTable} (h : NoOpp pf tbl)
include h

theorem NoOpp.size : (CT.ofTable tbl).c2v.size = 3 * pf.size := create_c2v_size h.create

theorem NoOpp.numFaces : (CT.ofTable tbl).numFaces = pf.size := by
  show (CT.ofTable tbl).c2v.size / 3 = _
  rw [h.size]; omega

theorem NoOpp.numCorners : (CT.ofTable tbl).numCorners = 3 * pf.size := h.size

theorem NoOpp.tblOK : TblOK (CT.ofTable tbl) := tblOK_ofTable h.create

theorem NoOpp.nd (f : Nat) (hf : f < pf.size) : isDegenA (CT.ofTable tbl).c2v f = false := by
  have e : isDegenA tbl.cornerToVertex f = faceDegenerate pf f := CornerTable.createF_isDegenerated h.create f hf
  show isDegenA tbl.cornerToVertex f = false
  rw [e, h.nondeg f hf]

theorem NoOpp.numDegenerated : (CT.ofTable tbl).numDegenerated = 0 := by
  show tbl.numDegeneratedFaces = 0
  rw [numDegenerated_eq h.create, List.countP_eq_zero]
  intro f hf
  have := h.nd f (List.mem_range.mp hf)
  simp only [Bool.not_eq_true]
  exact this

/-- `SwingRight` of a valid corner is invalid -/
theorem NoOpp.sR {c : Nat} (hc : c < 3 * pf.size) : sRP (CT.ofTable tbl).opp c = inv := by
  have hT := h.tblOK
  have hc' : c < (CT.ofTable tbl).numCorners := by rw [h.numCorners]; exact hc
  rw [sRP_eq _ (hT.base.ne_inv hc')]
  have hp : Eb.prevC c < 3 * pf.size := by
    have := hT.ctok.prev_lt hc'
    rw [← h.size]; exact this
  rw [h.noopp _ hp]
  exact prevC_inv

/-- **without opposite links every corner has its own vertex** -/
theorem NoOpp.c2v_inj {c c' : Nat} (hc : c < 3 * pf.size) (hc' : c' < 3 * pf.size)
    (e : (CT.ofTable tbl).c2v[c]! = (CT.ofTable tbl).c2v[c']!) : c = c' := by
  have hv : ∀ x, x < 3 * pf.size → (CT.ofTable tbl).c2v[x]! < (CT.ofTable tbl).vc.size := by
    intro x hx
    have := ((CornerTable.createF_vinv h.create).2.2 x hx).1
    have e1 : (CT.ofTable tbl).c2v[x]! = vget tbl.cornerToVertex x := by
      show tbl.cornerToVertex[x]! = tbl.cornerToVertex.getD x 0
      rw [Array.getElem!_eq_getD]; rfl
    rw [e1]
    show _ < (tbl.vertexCorners.map fun o => o.getD inv).size
    rw [Array.size_map]
    exact this
  have hdeg : ∀ x, x < 3 * pf.size → faceDegenerate pf (x / 3) = false := fun x hx => h.nondeg _ (by omega)
  obtain ⟨k1, h1⟩ := cover_enc_of_create h.create c hc (hdeg c hc) (hv c hc)
  obtain ⟨k2, h2⟩ := cover_enc_of_create h.create c' hc' (hdeg c' hc') (hv c' hc')
  rw [← e] at h2
  -- two corners on one walk: the walk stops at the first
  have key : ∀ (a b : Nat) (x y : Nat), x < 3 * pf.size → y < 3 * pf.size → a < b →
      iter (sRP (CT.ofTable tbl).opp) a ((CT.ofTable tbl).vc[(CT.ofTable tbl).c2v[c]!]!) = x →
      iter (sRP (CT.ofTable tbl).opp) b ((CT.ofTable tbl).vc[(CT.ofTable tbl).c2v[c]!]!) = y → False := by
    intro a b x y hx hy hab ha hb
    obtain ⟨d, rfl⟩ : ∃ d, b = a + (d + 1) := ⟨b - a - 1, by omega⟩
    rw [iter_add, ha] at hb
    have : iter (sRP (CT.ofTable tbl).opp) (d + 1) x = inv := by
      show iter (sRP (CT.ofTable tbl).opp) d (sRP (CT.ofTable tbl).opp x) = inv
      rw [h.sR hx, iter_fix (sRP_inv _)]
    rw [this] at hb
    have := create_fits h.create
    omega
  rcases Nat.lt_trichotomy k1 k2 with hlt | heq | hgt
  · exact (key k1 k2 c c' hc hc' hlt h1 h2).elim
  · rw [heq] at h1; rw [← h1, ← h2]
  · exact (key k2 k1 c' c hc' hc hgt h2 h1).elim

end facts

/-! ## the traversal of one isolated triangle, exactly -/

theorem faceOf_inv : faceOf inv = inv := rfl

/-- `E`: no right and no left neighbour -/
theorem innerTail_noopp {t : CT} (hT : TblOK t) {holeId : Array Nat} {vf' vh : Array Bool} {P' : Array Nat}
    {splits : Array TopoSplit} {f2s : Array Nat} {lsid : Int} {nss : Nat} {stack : Array Nat}
    {nv face lastCorner vertId : Nat} {onB : Bool} {vv1 : Array Bool} {val : ValEnc} {sy : Array Nat}
    {c : Nat} {r : ForInStep InSt} (hc : c < t.c2v.size)
    (hr : t.opp[Eb.nextC c]! = inv) (hl : t.opp[Eb.prevC c]! = inv)
    (hb : innerTail t holeId false vf' vh P' splits f2s lsid nss stack nv face lastCorner vertId onB () vv1 val sy c
      = .ok r) :
    r = .done (vf', vv1, vh, val, sy.push topoE, P', splits, f2s, lsid, nss, stack.pop, c, nv) := by
  have hn : Eb.nextC c < t.numCorners := hT.ctok.next_lt hc
  have hp : Eb.prevC c < t.numCorners := hT.ctok.prev_lt hc
  unfold innerTail at hb
  obtain ⟨rc, hR, hb⟩ := (bind_ok_iff _ _ _).mp hb
  obtain ⟨lc, hL, hb⟩ := (bind_ok_iff _ _ _).mp hb
  have erc : rc = inv := by
    rw [← hr, ← vget_eq]; exact (opposite_get (hT.base.ne_inv hn) hR).2.symm
  have elc : lc = inv := by
    rw [← hl, ← vget_eq]; exact (opposite_get (hT.base.ne_inv hp) hL).2.symm
  subst erc elc
  obtain ⟨rv, hb, _, hrv2⟩ := visited_absorb hb
  obtain ⟨lv, hb, _, hlv2⟩ := visited_absorb hb
  have erv : rv = true := hrv2 (by simp)
  have elv : lv = true := hlv2 (by simp)
  subst erv elv
  rcases ite_ok hb with ⟨_, hb⟩ | ⟨hne, hb⟩
  · rcases ite_ok hb with ⟨hf, hb⟩ | ⟨_, hb⟩
    · rw [faceOf_inv] at hf; simp at hf
    rcases ite_ok hb with ⟨_, hb⟩ | ⟨hne, hb⟩
    · rcases ite_ok hb with ⟨hf, hb⟩ | ⟨_, hb⟩
      · rw [faceOf_inv] at hf; simp at hf
      rcases ite_ok hb with ⟨hv, hb⟩ | ⟨_, hb⟩
      · cases hv
      · exact pure_ok hb
    · exact absurd rfl hne
  · exact absurd rfl hne

/-- the traversal step at a corner of an isolated triangle whose tip is on a hole -/
theorem innerBody_noopp {t : CT} (hT : TblOK t) {holeId : Array Nat} {NF : Nat} (x : Nat)
    {vf vv vh : Array Bool} {val : ValEnc} {sy P : Array Nat} {sp : Array TopoSplit} {f2s : Array Nat} {ls : Int}
    {nss : Nat} {st : Array Nat} {c nv : Nat} {r : ForInStep InSt}
    (hc : c < t.c2v.size) (hnv : nv < NF)
    (hr : t.opp[Eb.nextC c]! = inv) (hl : t.opp[Eb.prevC c]! = inv)
    (hhole : vget holeId (t.c2v[c]!) ≠ inv)
    (hb : innerBody t holeId false NF x (vf, vv, vh, val, sy, P, sp, f2s, ls, nss, st, c, nv) = .ok r) :
    ∃ vv1, r = .done (vf.setIfInBounds (c / 3) true, vv1, vh, val, sy.push topoE, P.push c, sp, f2s, ls + 1, nss,
      st.pop, c, nv + 1) := by
  have hci : c ≠ inv := hT.base.ne_inv hc
  unfold innerBody at hb
  rcases ite_ok hb with ⟨hge, hb⟩ | ⟨_, hb⟩
  · have : nv ≥ NF := hge
    omega
  obtain ⟨vf', hvf, hb⟩ := (bind_ok_iff _ _ _).mp hb
  obtain ⟨vertId, hvert, hb⟩ := (bind_ok_iff _ _ _).mp hb
  obtain ⟨hid, hhid, hb⟩ := (bind_ok_iff _ _ _).mp hb
  obtain ⟨vis, hvis, hb⟩ := (bind_ok_iff _ _ _).mp hb
  have evf : vf' = vf.setIfInBounds (c / 3) true := by
    have := (wrB_get hvf).2
    rw [faceOf_ne hci] at this; exact this
  have evert : t.c2v[c]! = vertId := by rw [← vget_eq]; exact (vertex_get hci hvert).2
  have ehid : hid ≠ inv := by
    rw [← (rd_get hhid).2, ← evert]; exact hhole
  subst evf
  rcases ite_ok hb with ⟨_, hb⟩ | ⟨_, hb⟩
  · obtain ⟨vv', _, hb⟩ := (bind_ok_iff _ _ _).mp hb
    rcases ite_ok hb with ⟨hnb, hb⟩ | ⟨_, hb⟩
    · exfalso
      have : hid = inv := by simpa using hnb
      exact ehid this
    · exact ⟨vv', innerTail_noopp hT hc hr hl hb⟩
  · exact ⟨vv, innerTail_noopp hT hc hr hl hb⟩

theorem pop_singleton (c : Nat) : (#[c] : Array Nat).pop = #[] := rfl

/-- `EncodeConnectivityFromCorner(c)` on an isolated triangle: one symbol `E` -/
theorem outerTail_noopp {t : CT} (hT : TblOK t) {holeId : Array Nat} {val : ValEnc} {sy : Array Nat}
    {sf : RAnsBitEnc} {sfs : Array Bool} {P : Array Nat} {sp : Array TopoSplit} {f2s : Array Nat} {ls : Int} {nss : Nat}
    {vf vv vh : Array Bool} {I : Array Nat} {c : Nat} {r : ForInStep OSt}
    (hc : c < t.c2v.size) (hNF : 0 < t.numFaces) (hun : vf.getD (c / 3) false = false)
    (hr : t.opp[Eb.nextC c]! = inv) (hl : t.opp[Eb.prevC c]! = inv)
    (hhole : vget holeId (t.c2v[c]!) ≠ inv)
    (hb : outerTail t holeId false t.numFaces val sy sf sfs P sp f2s ls nss () vf vv vh I c = .ok r) :
    ∃ vv1, r = .yield (vf.setIfInBounds (c / 3) true, vv1, vh, val, sy.push topoE, sf, sfs, P.push c, I, sp, f2s, ls + 1,
      nss) := by
  have hci : c ≠ inv := hT.base.ne_inv hc
  unfold outerTail at hb
  rcases ite_ok hb with ⟨hfi, hb⟩ | ⟨_, hb⟩
  · exact absurd (by simpa using hfi) hci
  obtain ⟨s2, hloop, hb⟩ := (bind_ok_iff _ _ _).mp hb
  -- the stack loop: two steps
  rw [Seams.range_forIn, show 4 * t.numFaces + 16 = (4 * t.numFaces + 14) + 1 + 1 by omega, List.range'_succ,
    List.range'_succ, List.forIn_cons] at hloop
  obtain ⟨r1, h1, hloop⟩ := (bind_ok_iff _ _ _).mp hloop
  -- first step: the traversal loop
  have hr1 : ∃ vv1, r1 = .yield (vf.setIfInBounds (c / 3) true, vv1, vh, val, sy.push topoE, P.push c, sp, f2s, ls + 1,
      nss, #[], false) := by
    unfold stackBody at h1
    rcases ite_ok h1 with ⟨he, h1⟩ | ⟨_, h1⟩
    · simp at he
    have eb : (#[c] : Array Nat).back! = c := rfl
    rcases ite_ok h1 with ⟨he, h1⟩ | ⟨_, h1⟩
    · rw [eb] at he; exact absurd (by simpa using he) hci
    obtain ⟨b, hb1, h1⟩ := (bind_ok_iff _ _ _).mp h1
    rw [eb] at hb1 h1
    have ebf : b = false := by rw [← (rdB_get hb1).2]; exact hun
    subst ebf
    rcases ite_ok h1 with ⟨he, h1⟩ | ⟨_, h1⟩
    · cases he
    obtain ⟨s3, hin, h1⟩ := (bind_ok_iff _ _ _).mp h1
    rw [Seams.range_forIn, show t.numFaces = (t.numFaces - 1) + 1 by omega, List.range'_succ, List.forIn_cons] at hin
    obtain ⟨r3, h3, hin⟩ := (bind_ok_iff _ _ _).mp hin
    rw [← show t.numFaces = (t.numFaces - 1) + 1 by omega] at h3
    obtain ⟨vv1, e3⟩ := innerBody_noopp hT 0 hc hNF hr hl hhole h3
    rw [e3] at hin
    have e4 := pure_ok hin
    rw [e4] at h1
    exact ⟨vv1, pure_ok h1⟩
  obtain ⟨vv1, e1⟩ := hr1
  rw [e1] at hloop
  dsimp only at hloop
  rw [List.forIn_cons] at hloop
  obtain ⟨r2, h2, hloop⟩ := (bind_ok_iff _ _ _).mp hloop
  have hr2 : r2 = .done (vf.setIfInBounds (c / 3) true, vv1, vh, val, sy.push topoE, P.push c, sp, f2s, ls + 1,
      nss, #[], true) := by
    unfold stackBody at h2
    rcases ite_ok h2 with ⟨_, h2⟩ | ⟨he, h2⟩
    · exact pure_ok h2
    · simp at he
  rw [hr2] at hloop
  have e2 := pure_ok hloop
  rw [e2] at hb
  rcases ite_ok hb with ⟨he, hb⟩ | ⟨_, hb⟩
  · simp at he
  · exact ⟨vv1, pure_ok hb⟩

/-! ## the loop over the faces -/

/-- a face with a boundary edge opposite to its first corner starts there -/
theorem findInit_noopp {t : CT} {holeId : Array Nat} {f : Nat} (ho : opposite t.opp (3 * f) = .ok inv) :
    findInitFaceConfiguration t holeId f = .ok (false, 3 * f) := by
  unfold findInitFaceConfiguration
  simp only [Seams.range_forIn, List.range'_succ, List.forIn_cons, ho]
  simp [bind, Except.bind, pure, Except.pure]

theorem replicate_push {α : Type} (m : Nat) (a : α) : (Array.replicate m a).push a = Array.replicate (m + 1) a := by
  apply Array.ext'
  simp [List.replicate_succ']

theorem encodeBits_succ (m : Nat) :
    (encodeBits (List.replicate m false)).encodeBit false = encodeBits (List.replicate (m + 1) false) := by
  unfold encodeBits
  rw [List.replicate_succ', List.foldl_append]
  rfl

section main
variable {pf : Faces} {tbl : CornerTable} (h : NoOpp pf tbl) {holeId : Array Nat}
  (hH : HolesOK (CT.ofTable tbl) holeId)
include h hH

/-- the state of the loop over the corners after `m` faces -/
def MainInv (pf : Faces) (m : Nat) (s : OSt) : Prop :=
  s.1.size = pf.size ∧ (∀ f, s.1.getD f false = decide (f < m)) ∧
  s.2.2.2.2.1 = Array.replicate m 7 ∧ s.2.2.2.2.2.1 = encodeBits (List.replicate m false) ∧
  s.2.2.2.2.2.2.2.1 = S m ∧ s.2.2.2.2.2.2.2.2.1 = #[] ∧ s.2.2.2.2.2.2.2.2.2.1 = #[] ∧
  s.2.2.2.2.2.2.2.2.2.2.2.2 = 0

omit h hH in
/-- a corner of a face that is already visited: nothing happens -/
theorem outerBody_visited (cId : Nat) (s : OSt) (r : ForInStep OSt) (hv : s.1.getD (cId / 3) false = true)
    (hb : outerBody (CT.ofTable tbl) holeId false (CT.ofTable tbl).numFaces cId s = .ok r) : r = .yield s := by
  obtain ⟨vf, vv, vh, val, sy, sf, sfs, P, ifc, sp, f2s, ls, nss⟩ := s
  unfold outerBody at hb
  obtain ⟨b, hb1, hb⟩ := (bind_ok_iff _ _ _).mp hb
  have : b = true := by rw [← (rdB_get hb1).2]; exact hv
  subst this
  rcases ite_ok hb with ⟨_, hb⟩ | ⟨hn, hb⟩
  · exact pure_ok hb
  · exact absurd rfl hn

/-- the first corner of a face that is not visited: one start face at a hole, one symbol `E` -/
theorem outerBody_new (f : Nat) (hf : f < pf.size) (s : OSt) (r : ForInStep OSt) (hI : MainInv pf f s)
    (hb : outerBody (CT.ofTable tbl) holeId false (CT.ofTable tbl).numFaces (3 * f) s = .ok r) :
    ∃ s', r = .yield s' ∧ MainInv pf (f + 1) s' := by
  obtain ⟨vf, vv, vh, val, sy, sf, sfs, P, ifc, sp, f2s, ls, nss⟩ := s
  obtain ⟨i1, i2, i3, i4, i5, i6, i7, i8⟩ := hI
  dsimp only at i1 i2 i3 i4 i5 i6 i7 i8
  have hT := h.tblOK
  have hk := hT.ctok
  have hsz := h.size
  have hnf := h.numFaces
  have hfit := hk.fits
  have hclt : 3 * f < (CT.ofTable tbl).c2v.size := by omega
  have hci : 3 * f ≠ inv := by omega
  have hdiv : 3 * f / 3 = f := by omega
  unfold outerBody at hb
  rw [hdiv] at hb
  obtain ⟨b, hb1, hb⟩ := (bind_ok_iff _ _ _).mp hb
  have hun : vf.getD f false = false := by rw [i2 f]; simp
  have : b = false := by rw [← (rdB_get hb1).2]; exact hun
  subst this
  rcases ite_ok hb with ⟨hn, hb⟩ | ⟨_, hb⟩
  · cases hn
  obtain ⟨d, hd, hb⟩ := (bind_ok_iff _ _ _).mp hb
  have ed : d = false := by
    rw [isDegenerated_ok hk (by rw [hnf]; exact hf) hd]
    exact h.nd f hf
  subst ed
  rcases ite_ok hb with ⟨hn, hb⟩ | ⟨_, hb⟩
  · cases hn
  obtain ⟨x, hx, hb⟩ := (bind_ok_iff _ _ _).mp hb
  have ho : opposite (CT.ofTable tbl).opp (3 * f) = .ok inv := by
    unfold opposite
    rw [ne_inv_beq hci]
    have hlt : 3 * f < (CT.ofTable tbl).opp.size := by rw [hk.oppsz]; exact hclt
    unfold rd
    rw [dif_pos hlt]
    have := h.noopp (3 * f) (by omega)
    simp only [pure, Except.pure]
    rw [← this]
    simp [hlt]
  rw [findInit_noopp ho] at hx
  cases hx
  simp only [] at hb
  rcases ite_ok hb with ⟨hn, hb⟩ | ⟨_, hb⟩
  · cases hn
  obtain ⟨x2, _, hb⟩ := (bind_ok_iff _ _ _).mp hb
  obtain ⟨vv', vh'⟩ := x2
  simp only [] at hb
  -- the corners of the face
  have en : Eb.nextC (3 * f) = 3 * f + 1 := by rw [nextC_cf _ (by omega)]; split <;> omega
  have ep : Eb.prevC (3 * f) = 3 * f + 2 := by rw [prevC_cf _ (by omega)]; split <;> omega
  have hhole : vget holeId ((CT.ofTable tbl).c2v[3 * f]!) ≠ inv := by
    have := hH (3 * f + 2) (by rw [h.numCorners]; omega) (by rw [show (3 * f + 2) / 3 = f by omega]; exact h.nd f hf)
      (h.noopp _ (by omega))
    rw [show Eb.nextC (3 * f + 2) = 3 * f by rw [nextC_cf _ (by omega)]; split <;> omega] at this
    exact this
  obtain ⟨vv1, er⟩ := outerTail_noopp hT hclt (by rw [hnf]; omega) (by rw [hdiv]; exact hun)
    (by rw [en]; exact h.noopp _ (by omega)) (by rw [ep]; exact h.noopp _ (by omega)) hhole hb
  refine ⟨_, er, ?_⟩
  rw [hdiv]
  refine ⟨by simp [i1], ?_, ?_, ?_, ?_, i6, i7, i8⟩
  · intro g
    rw [bget_set' _ _ _ _ (by omega), i2 g]
    by_cases e : g = f
    · simp [e]
    · rw [if_neg e]
      have : (g < f) = (g < f + 1) := by apply propext; omega
      simp [this]
  · show sy.push topoE = _
    rw [i3, exTopoE, replicate_push]
  · show sf.encodeBit false = _
    rw [i4, encodeBits_succ]
  · show P.push (3 * f) = _
    rw [i5]; rfl

/-- **the main loop**: its result after all `3 k` corners -/
theorem mainLoop_noopp (init s : OSt) (hinit : MainInv pf 0 init)
    (hloop : forIn [:(CT.ofTable tbl).numCorners] init
      (outerBody (CT.ofTable tbl) holeId false (CT.ofTable tbl).numFaces) = .ok s) :
    MainInv pf pf.size s := by
  have hI := range_loop (CT.ofTable tbl).numCorners _ (fun j s => MainInv pf ((j + 2) / 3) s) (fun _ => False)
    (by
      intro j s r hj hI hr
      left
      have hj' : j < 3 * pf.size := by rw [← h.numCorners]; exact hj
      by_cases h0 : j % 3 = 0
      · have ej : j = 3 * (j / 3) := by omega
        have em : (j + 2) / 3 = j / 3 := by omega
        rw [em] at hI
        rw [ej] at hr
        obtain ⟨s', e, hI'⟩ := outerBody_new h hH (j / 3) (by omega) s r hI hr
        refine ⟨s', e, ?_⟩
        rw [show (j + 1 + 2) / 3 = j / 3 + 1 by omega]
        exact hI'
      · have em : (j + 2) / 3 = j / 3 + 1 := by omega
        have hv : s.1.getD (j / 3) false = true := by rw [hI.2.1, em]; simp
        refine ⟨s, outerBody_visited j s r hv hr, ?_⟩
        rw [show (j + 1 + 2) / 3 = (j + 2) / 3 by omega]
        exact hI)
    init s (by show MainInv pf ((0 + 2) / 3) init; exact hinit) hloop
  rcases hI with hI | hI
  · rw [h.numCorners, show (3 * pf.size + 2) / 3 = pf.size by omega] at hI
    exact hI
  · exact hI.elim

end main

/-! ## vertices, closed forms, the isomorphism -/

section counts
variable {pf : Faces} {tbl : CornerTable} (h : NoOpp pf tbl)
include h

theorem NoOpp.vertex_lt {x : Nat} (hx : x < 3 * pf.size) : (CT.ofTable tbl).c2v[x]! < (CT.ofTable tbl).vc.size := by
  have := ((CornerTable.createF_vinv h.create).2.2 x hx).1
  have e1 : (CT.ofTable tbl).c2v[x]! = vget tbl.cornerToVertex x := by
    show tbl.cornerToVertex[x]! = tbl.cornerToVertex.getD x 0
    rw [Array.getElem!_eq_getD]; rfl
  rw [e1]
  show _ < (tbl.vertexCorners.map fun o => o.getD inv).size
  rw [Array.size_map]
  exact this

/-- every corner has its own vertex: `num_vertices − NumIsolatedVertices = 3 k` -/
theorem NoOpp.numUsed : (CT.ofTable tbl).numVertices - (CT.ofTable tbl).numIsolated = 3 * pf.size := by
  rw [ofTable_hiso h.create]
  have hperm : ((List.range (3 * pf.size)).map (fun c => (CT.ofTable tbl).c2v[c]!)).Perm
      ((List.range (CT.ofTable tbl).vc.size).filter (fun v => (CT.ofTable tbl).vc[v]! != inv)) := by
    rw [List.perm_ext_iff_of_nodup (List.nodup_range.map_on (fun x hx y hy e =>
      h.c2v_inj (List.mem_range.mp hx) (List.mem_range.mp hy) e)) (List.nodup_range.filter _)]
    intro v
    rw [List.mem_map, List.mem_filter, List.mem_range]
    constructor
    · rintro ⟨c, hc, rfl⟩
      have hc' := List.mem_range.mp hc
      refine ⟨h.vertex_lt hc', ?_⟩
      obtain ⟨k1, h1⟩ := cover_enc_of_create h.create c hc' (h.nondeg _ (by omega)) (h.vertex_lt hc')
      have : (CT.ofTable tbl).vc[(CT.ofTable tbl).c2v[c]!]! ≠ inv := by
        intro e
        rw [e, iter_fix (sRP_inv _)] at h1
        have := create_fits h.create
        omega
      simpa using this
    · rintro ⟨hv, hne⟩
      have hne' : (CT.ofTable tbl).vc[v]! ≠ inv := by simpa using hne
      obtain ⟨h1, h2⟩ := ofTable_hvcE h.create v hv hne'
      exact ⟨_, List.mem_range.mpr (by rw [← h.numCorners]; exact h1), h2⟩
  rw [← hperm.length_eq]
  simp

end counts

theorem S_get : ∀ (m i : Nat), i < m → (S m)[i]! = 3 * i
  | 0, i, hi => by omega
  | m+1, i, hi => by
    show ((S m).push (3 * m))[i]! = _
    rw [push_get!, S_size]
    by_cases e : i = m
    · rw [if_pos e, e]
    · rw [if_neg e]; exact S_get m i (by omega)

theorem sib_get (a : Array Nat) (i v d : Nat) :
    (a.setIfInBounds i v)[d]! = if i = d ∧ i < a.size then v else a[d]! := by
  simp only [Array.getElem!_eq_getD, Array.getD_eq_getD_getElem?, Array.getElem?_setIfInBounds]
  by_cases e : i = d
  · subst e
    by_cases h : i < a.size <;> simp [h]
  · simp [e]

theorem C_get (k : Nat) : ∀ (i d : Nat), i ≤ k → d < 3 * k → (C k i)[d]! = if d < 3 * i then d else inv
  | 0, d, _, hd => by
    show (Array.replicate (3 * k) inv)[d]! = _
    simp [hd]
  | i+1, d, hi, hd => by
    have ih := C_get k i d (by omega) hd
    have hs := C_size k i
    show ((((C k i).setIfInBounds (3 * i) (3 * i)).setIfInBounds (3 * i + 1) (3 * i + 1)).setIfInBounds
      (3 * i + 2) (3 * i + 2))[d]! = _
    rw [sib_get, sib_get, sib_get, ih]
    simp only [Array.size_setIfInBounds, hs]
    split_ifs <;> omega

/-- the corner map of `processed = [3 (k - 1), …, 3, 0]` -/
theorem phi_noopp (k d : Nat) (hd : d < 3 * k) (hk : 3 * k ≤ inv) :
    phi ((S k).reverse ++ #[]) d = 3 * (k - 1 - d / 3) + d % 3 := by
  have hp : ((S k).reverse ++ #[])[d / 3]! = 3 * (k - 1 - d / 3) := by
    rw [Array.append_empty]
    have hlt : d / 3 < (S k).size := by rw [S_size]; omega
    have : (S k).reverse[d / 3]! = (S k)[(S k).size - 1 - d / 3]! := by
      simp only [Array.getElem!_eq_getD, Array.getD_eq_getD_getElem?]
      rw [Array.getElem?_reverse (by omega)]
    rw [this, S_size, S_get k _ (by omega)]
  unfold phi
  simp only [hp]
  have hc : 3 * (k - 1 - d / 3) < inv := by omega
  rw [nextC_cf _ hc, prevC_cf _ hc]
  have h3 : d % 3 = 0 ∨ d % 3 = 1 ∨ d % 3 = 2 := by omega
  rcases h3 with e | e | e
  · simp [e]
  · simp [e]
  · simp [e]

/-- **the encoder's table is isomorphic to the decoded one** -/
theorem ctIso_noopp {pf : Faces} {tbl : CornerTable} (h : NoOpp pf tbl) :
    CTIso (CT.ofTable tbl) ((S pf.size).reverse ++ #[]) pf.size (C pf.size pf.size)
      (Array.replicate (3 * pf.size) inv) := by
  have hfit := create_fits h.create
  have hphi := fun d hd => phi_noopp pf.size d hd hfit
  have hlt : ∀ d, d < 3 * pf.size → 3 * (pf.size - 1 - d / 3) + d % 3 < 3 * pf.size := by
    intro d hd; omega
  have hinj : ∀ d d', d < 3 * pf.size → d' < 3 * pf.size →
      3 * (pf.size - 1 - d / 3) + d % 3 = 3 * (pf.size - 1 - d' / 3) + d' % 3 → d = d' := by
    intro d d' hd hd' e; omega
  refine ⟨by simp [S_size], ⟨C_size _ _, by simp⟩, ?_, ?_, ?_, ?_, ?_, ?_⟩
  · intro d hd
    rw [hphi d hd, h.numCorners]; exact hlt d hd
  · intro d d' hd hd' e
    rw [hphi d hd, hphi d' hd'] at e
    exact hinj d d' hd hd' e
  · intro d hd
    rw [hphi d hd, h.noopp _ (hlt d hd)]
    simp [hd]
  · intro d hd hne
    exfalso; apply hne
    simp [hd]
  · intro d hd
    rw [hphi d hd]
    exact h.vertex_lt (hlt d hd)
  · intro d d' hd hd'
    rw [hphi d hd, hphi d' hd', C_get _ _ d (Nat.le_refl _) hd, C_get _ _ d' (Nat.le_refl _) hd', if_pos hd, if_pos hd']
    constructor
    · intro e; rw [e]
    · intro e
      exact hinj d d' hd hd' (h.c2v_inj (hlt d hd) (hlt d' hd') e)

/-! ## the connectivity link -/

open Draco.SeqEnc DecM

/-- the connectivity link with the isomorphism as the Prop `CTIso` (what `ctIso` decides: `ctIso_sound`) -/
def EbConnectivityRoundtrip' (ch : ConnChoices) (valence : Bool) (posFaces : Faces) (acv : Array (Nat × Array Nat)) :
    Prop :=
  ∀ conn, encodeConnectivity ch valence posFaces acv = .ok conn →
    ∃ mesh, Runs decodeConnectivity 514 ([if valence then 2 else 0] ++ conn.bytes) mesh 514 ∧
      CTIso conn.ct conn.processed mesh.numFaces mesh.c2v mesh.opp ∧ mesh.atts.size = conn.atts.size

/-- **the encoder half, symbolically**: on a mesh without opposite links a successful `encodeConnectivity` (standard
    traversal, no attribute data) wrote the bytes `triBytes ch k`, kept the created table and processed the corners
    `3 (k − 1), …, 3, 0` -/
theorem encode_noopp (ch : ConnChoices) {pf : Faces} {tbl : CornerTable} (h : NoOpp pf tbl) (hk1 : 1 ≤ pf.size)
    (hk : pf.size ≤ 2 ^ 21) (conn : ConnEnc) (hconn : encodeConnectivity ch false pf #[] = .ok conn) :
    [0] ++ conn.bytes = triBytes ch pf.size ∧ conn.ct = CT.ofTable tbl ∧
      conn.processed = (S pf.size).reverse ++ #[] ∧ conn.atts = #[] := by
  have hT := h.tblOK
  have hnd : ((CT.ofTable tbl).numFaces == (CT.ofTable tbl).numDegenerated) = false := by
    rw [h.numFaces, h.numDegenerated]
    exact beq_false_of_ne (by omega)
  -- the stages of the successful run
  have hrun := hconn
  rw [encodeConnectivity_eq] at hrun
  simp only [h.create] at hrun
  rcases ite_ok hrun with ⟨hc, _⟩ | ⟨_, hrun⟩
  · rw [hnd] at hc; cases hc
  obtain ⟨x, hx, hrun⟩ := (bind_ok_iff _ _ _).mp hrun
  obtain ⟨atts, _, hrun⟩ := (bind_ok_iff _ _ _).mp hrun
  rcases ite_ok hrun with ⟨hv, _⟩ | ⟨_, hrun⟩
  · cases hv
  obtain ⟨val, hval, hrun⟩ := (bind_ok_iff _ _ _).mp hrun
  have eval := pure_ok hval
  subst eval
  obtain ⟨s, hloop, hrun⟩ := (bind_ok_iff _ _ _).mp hrun
  have hH : HolesOK (CT.ofTable tbl) x.1 := findHoles_spec hT (nh := x.2) hx
  have hM : MainInv pf pf.size s := by
    apply mainLoop_noopp h hH _ s ?_ hloop
    refine ⟨by simp [h.numFaces], fun f => ?_, rfl, rfl, rfl, rfl, rfl, rfl⟩
    show (Array.replicate (CT.ofTable tbl).numFaces false).getD f false = decide (f < 0)
    rw [Array.getD_eq_getD_getElem?, Array.getElem?_replicate]
    split <;> simp
  obtain ⟨_, _, m3, m4, m5, m6, m7, m8⟩ := hM
  have hseam : encodeSeamBits (CT.ofTable tbl) (s.2.2.2.2.2.2.2.1.reverse ++ s.2.2.2.2.2.2.2.2.1) #[] = .ok (#[], #[]) := by
    rw [Seams.encodeSeamBits_eq]
    rfl
  obtain ⟨conn', e1, e2, e3, e4, e5⟩ :=
    encodeConnectivity_stages ch pf tbl h.create hnd x.1 x.2 hx s hloop #[] #[] hseam
  rw [hconn] at e1
  cases e1
  refine ⟨?_, e2, by rw [e3, m5, m6], e5⟩
  rw [e4, h.numUsed, h.numFaces, h.numDegenerated, m3, m4, m7, m8]
  have a1 : 3 * pf.size % 2 ^ 32 = 3 * pf.size := by omega
  have a2 : (pf.size - 0) % 2 ^ 32 = pf.size := by omega
  have a3 : encodeSplitData #[] = [0] := by decide
  have a4 : encVarint (0 % 2 ^ 32) = [0] := by decide
  have a5 : pf.size % 2 ^ 32 = pf.size := by omega
  simp only [Array.size_replicate, a1, a2, a3, a4, a5, ets_eq, triBytes, sfBytes, List.flatMap_nil,
    List.append_nil, List.append_assoc, List.cons_append, List.nil_append]

/-- **the connectivity link for every mesh without opposite links** (`CTIso` form), `1 ≤ k ≤ 2^21` faces -/
theorem eb_connectivity_roundtrip_noopp' (ch : ConnChoices) {pf : Faces} {tbl : CornerTable} (h : NoOpp pf tbl)
    (hk1 : 1 ≤ pf.size) (hk : pf.size ≤ 2 ^ 21) : EbConnectivityRoundtrip' ch false pf #[] := by
  intro conn hconn
  obtain ⟨e1, e2, e3, e4⟩ := encode_noopp ch h hk1 hk conn hconn
  refine ⟨meshK pf.size, ?_, ?_, by rw [e4]; rfl⟩
  · show Runs decodeConnectivity 514 ([0] ++ conn.bytes) (meshK pf.size) 514
    rw [e1]
    exact runs_decodeConnectivity_tri ch pf.size hk1 hk
  · rw [e2, e3]
    exact ctIso_noopp h

/-! ## the checker `ctIso` accepts -/

/-- a loop none of whose iterations returns early -/
theorem loop_none {β : Type} (f : Nat → Option Bool × β → Id (ForInStep (Option Bool × β)))
    (I : Nat → β → Prop) (n : Nat)
    (hstep : ∀ d b, d < n → I d b → ∃ b', f d (none, b) = pure (ForInStep.yield (none, b')) ∧ I (d + 1) b') :
    ∀ k a b, a + k = n → I a b →
      (Id.run (forIn (List.range' a k 1) (none, b) f)).1 = none ∧
        I n (Id.run (forIn (List.range' a k 1) (none, b) f)).2 := by
  intro k
  induction k with
  | zero =>
    intro a b hk hI
    have : a = n := by omega
    subst this
    simp [hI]
  | succ k ih =>
    intro a b hk hI
    rw [List.range'_succ, List.forIn_cons]
    obtain ⟨b', hf, hI'⟩ := hstep a b (by omega) hI
    rw [hf]
    simp only [pure_bind]
    exact ih (a + 1) b' (by omega) hI'

theorem range_none {β : Type} (f : Nat → Option Bool × β → Id (ForInStep (Option Bool × β)))
    (I : Nat → β → Prop) (n : Nat) (b : β) (h0 : I 0 b)
    (hstep : ∀ d b, d < n → I d b → ∃ b', f d (none, b) = pure (ForInStep.yield (none, b')) ∧ I (d + 1) b') :
    (Id.run (forIn [:n] (none, b) f)).1 = none := by
  rw [Std.Legacy.Range.forIn_eq_forIn_range']
  have := (loop_none f I n hstep n 0 b (by omega) h0).1
  simpa [Std.Legacy.Range.size] using this

theorem foldl_max_ge : ∀ (l : List Nat) (init : Nat),
    init ≤ l.foldl (fun m v => max m (v + 1)) init ∧ ∀ x ∈ l, x + 1 ≤ l.foldl (fun m v => max m (v + 1)) init := by
  intro l
  induction l with
  | nil => intro init; exact ⟨Nat.le_refl _, fun x hx => by cases hx⟩
  | cons a l ih =>
    intro init
    obtain ⟨h1, h2⟩ := ih (max init (a + 1))
    rw [List.foldl_cons]
    refine ⟨by omega, fun x hx => ?_⟩
    rcases List.mem_cons.mp hx with e | e
    · rw [e]; omega
    · exact h2 x e

/-- `ctIso` from its two loops -/
theorem ctIso_of_loops (t : CT) (processed : Array Nat) (numFaces : Nat) (dc2v dopp : Array Nat)
    (hf : numFaces = processed.size) (hs1 : dc2v.size = 3 * numFaces) (hs2 : dopp.size = 3 * numFaces)
    (h1 : (Id.run (forIn [:3 * numFaces] (none, Array.replicate t.numCorners inv) (step1 t processed))).1 = none)
    (h2 : (Id.run (forIn [:3 * numFaces]
              (none, Array.replicate (dc2v.foldl (fun m v => max m (v + 1)) 0) inv, Array.replicate t.numVertices inv)
              (step2 t processed numFaces dc2v dopp))).1 = none) :
    ctIso t processed numFaces dc2v dopp = true := by
  unfold ctIso
  split
  · rename_i hne
    simp at hne; exact absurd hf hne
  split
  · rename_i hne
    simp at hne
    rcases hne with e | e
    · exact absurd hs1 e
    · exact absurd hs2 e
  simp only [bind, Id.run]
  split
  · rename_i r hr
    have hr' : (Id.run (forIn [:3 * numFaces] (none, Array.replicate t.numCorners inv) (step1 t processed))).1
        = some r := hr
    rw [h1] at hr'; cases hr'
  · split
    · rename_i r hr2
      have hr2' : (Id.run (forIn [:3 * numFaces]
              (none, Array.replicate (dc2v.foldl (fun m v => max m (v + 1)) 0) inv, Array.replicate t.numVertices inv)
              (step2 t processed numFaces dc2v dopp))).1 = some r := hr2
      rw [h2] at hr2'; cases hr2'
    · rfl

/-- **`ctIso` accepts the table of a mesh without opposite links** -/
theorem ctIso_true_noopp {pf : Faces} {tbl : CornerTable} (h : NoOpp pf tbl) :
    ctIso (CT.ofTable tbl) ((S pf.size).reverse ++ #[]) pf.size (C pf.size pf.size)
      (Array.replicate (3 * pf.size) inv) = true := by
  have hfit := create_fits h.create
  have hiso := ctIso_noopp h
  have hphi := fun d hd => phi_noopp pf.size d hd hfit
  have hCget : ∀ d, d < 3 * pf.size → (C pf.size pf.size)[d]! = d := by
    intro d hd
    rw [C_get _ _ d (Nat.le_refl _) hd, if_pos hd]
  apply ctIso_of_loops _ _ _ _ _ hiso.faces hiso.sizes.1 hiso.sizes.2
  · -- the inverse corner map
    apply range_none _ (fun d (back : Array Nat) => back.size = (CT.ofTable tbl).numCorners ∧
      ∀ c, c < back.size → back[c]! ≠ inv → ∃ d', d' < d ∧ phi ((S pf.size).reverse ++ #[]) d' = c)
    · refine ⟨by simp, fun c hlt hc => ?_⟩
      exfalso; apply hc
      exact get_replicate _ _ (by simpa using hlt)
    · intro d back hd ⟨hsz, hback⟩
      have hlt := hiso.corner_lt d hd
      have hfree : back[phi ((S pf.size).reverse ++ #[]) d]! = inv := by
        apply Classical.byContradiction
        intro hne
        obtain ⟨d', hd', e⟩ := hback _ (by rw [hsz]; exact hlt) hne
        have := hiso.inj d' d (by omega) hd e
        omega
      refine ⟨back.set! (phi ((S pf.size).reverse ++ #[]) d) d, ?_, ?_⟩
      · unfold step1
        rw [if_neg (by omega)]
        simp only [hfree, bne_self_eq_false, Bool.false_eq_true, if_false]
      · refine ⟨by rw [size_set]; exact hsz, fun c hclt hc => ?_⟩
        rw [size_set] at hclt
        by_cases e : phi ((S pf.size).reverse ++ #[]) d = c
        · exact ⟨d, by omega, e⟩
        · rw [get_set_ne _ _ _ _ e] at hc
          obtain ⟨d', hd', e'⟩ := hback c hclt hc
          exact ⟨d', by omega, e'⟩
  · -- the vertex maps
    have hM : ∀ d, d < 3 * pf.size → d < (C pf.size pf.size).foldl (fun m v => max m (v + 1)) 0 := by
      intro d hd
      rw [← Array.foldl_toList]
      have hmem : d ∈ (C pf.size pf.size).toList :=
        mem_toList_iff_get.mpr ⟨d, by rw [C_size]; exact hd, hCget d hd⟩
      have := (foldl_max_ge (C pf.size pf.size).toList 0).2 d hmem
      omega
    apply range_none _ (fun d (s : Array Nat × Array Nat) =>
      s.1.size = (C pf.size pf.size).foldl (fun m v => max m (v + 1)) 0 ∧ s.2.size = (CT.ofTable tbl).numVertices ∧
      (∀ x, x < s.1.size → s.1[x]! ≠ inv → x < d) ∧
      (∀ y, y < s.2.size → s.2[y]! ≠ inv →
        ∃ d', d' < d ∧ (CT.ofTable tbl).c2v[phi ((S pf.size).reverse ++ #[]) d']! = y))
    · refine ⟨by simp, by simp, fun x hlt hx => ?_, fun y hlt hy => ?_⟩
      · exfalso; apply hx
        exact get_replicate _ _ (by simpa using hlt)
      · exfalso; apply hy
        exact get_replicate _ _ (by simpa using hlt)
    · intro d s hd ⟨hz1, hz2, hv2e, he2v⟩
      obtain ⟨v2e, e2v⟩ := s
      dsimp only at hz1 hz2 hv2e he2v
      have hvlt := hiso.vertex_lt d hd
      have hopp : (Array.replicate (3 * pf.size) inv)[d]! = inv := get_replicate _ _ hd
      have hto : (CT.ofTable tbl).opp[phi ((S pf.size).reverse ++ #[]) d]! = inv := (hiso.opp_inv d hd).mp hopp
      have hfree1 : v2e[d]! = inv := by
        apply Classical.byContradiction
        intro hne
        have := hv2e d (by rw [hz1]; exact hM d hd) hne
        omega
      have hfree2 : e2v[(CT.ofTable tbl).c2v[phi ((S pf.size).reverse ++ #[]) d]!]! = inv := by
        apply Classical.byContradiction
        intro hne
        obtain ⟨d', hd', e⟩ := he2v _ (by rw [hz2]; exact hvlt) hne
        have e' := (hiso.vertex d' d (by omega) hd).mpr e
        rw [hCget d' (by omega), hCget d hd] at e'
        omega
      refine ⟨(v2e.set! d ((CT.ofTable tbl).c2v[phi ((S pf.size).reverse ++ #[]) d]!),
        e2v.set! ((CT.ofTable tbl).c2v[phi ((S pf.size).reverse ++ #[]) d]!) d), ?_, ?_⟩
      · unfold step2
        simp only [hopp, hto, beq_self_eq_true, if_true, bne_self_eq_false, Bool.false_eq_true, if_false, hCget d hd]
        unfold step2v
        have c1 : (decide (d ≥ v2e.size) || decide ((CT.ofTable tbl).c2v[phi ((S pf.size).reverse ++ #[]) d]! ≥ e2v.size)) = false := by
          have := hM d hd
          simp only [Bool.or_eq_false_iff, decide_eq_false_iff_not, ge_iff_le, Nat.not_le]
          constructor
          · omega
          · rw [hz2]; exact hvlt
        simp only [c1, Bool.false_eq_true, if_false, hfree1, hfree2, beq_self_eq_true, if_true]
      · refine ⟨by rw [size_set]; exact hz1, by rw [size_set]; exact hz2, fun x hxl hx => ?_, fun y hyl hy => ?_⟩
        · rw [size_set] at hxl
          by_cases e : d = x
          · omega
          · rw [get_set_ne _ _ _ _ e] at hx
            have := hv2e x hxl hx
            omega
        · rw [size_set] at hyl
          by_cases e : (CT.ofTable tbl).c2v[phi ((S pf.size).reverse ++ #[]) d]! = y
          · exact ⟨d, by omega, e⟩
          · rw [get_set_ne _ _ _ _ e] at hy
            obtain ⟨d', hd', e'⟩ := he2v y hyl hy
            exact ⟨d', by omega, e'⟩

open Draco.SeqEnc DecM in
/-- **eb_connectivity_roundtrip_noopp**: the connectivity link (the statement `ConnTri.EbConnectivityRoundtrip`, with the
    checker `ctIso`) for every mesh of `1 ≤ k ≤ 2^21` non-degenerate faces whose corner table has no opposite link;
    standard traversal, no attribute data, every choice `ch` of the encoder -/
theorem eb_connectivity_roundtrip_noopp (ch : ConnChoices) {pf : Faces} {tbl : CornerTable} (h : NoOpp pf tbl)
    (hk1 : 1 ≤ pf.size) (hk : pf.size ≤ 2 ^ 21) : EbConnectivityRoundtrip ch false pf #[] := by
  intro conn hconn
  obtain ⟨e1, e2, e3, e4⟩ := encode_noopp ch h hk1 hk conn hconn
  refine ⟨meshK pf.size, ?_, ?_, by rw [e4]; rfl⟩
  · show Runs decodeConnectivity 514 ([0] ++ conn.bytes) (meshK pf.size) 514
    rw [e1]
    exact runs_decodeConnectivity_tri ch pf.size hk1 hk
  · rw [e2, e3]
    exact ctIso_true_noopp h

/-! ## a sufficient condition on the faces: pairwise vertex-disjoint triangles -/

/-- faces that share no vertex id are not linked by `CornerTable.create` -/
theorem noopp_of_disjoint {pf : Faces} {tbl : CornerTable} (hc : CornerTable.create pf = some tbl)
    (hnd : ∀ f, f < pf.size → faceDegenerate pf f = false)
    (hdis : ∀ c c', c < 3 * pf.size → c' < 3 * pf.size → c / 3 ≠ c' / 3 → inputVertex pf c ≠ inputVertex pf c') :
    NoOpp pf tbl := by
  refine ⟨hc, hnd, ?_⟩
  intro c hlt
  rw [ofTable_opp_get hc c hlt]
  cases ho : tbl.opposite (some c) with
  | none => rfl
  | some o =>
    exfalso
    obtain ⟨_, holt, _, _, hface⟩ := CornerTable.createF_opposite_symm hc c o ho
    obtain ⟨e1, _⟩ := CornerTable.createF_opposite_edge hc c o ho
    obtain ⟨_, _, hp⟩ := CornerTable.createF_vinv hc
    rw [(hp _ (Draco.nextC_lt hlt)).2, (hp _ (Draco.prevC_lt holt)).2] at e1
    refine hdis _ _ (Draco.nextC_lt hlt) (Draco.prevC_lt holt) ?_ e1
    rw [Draco.nextC_div, Draco.prevC_div]
    exact fun e => hface e.symm

open Draco.SeqEnc DecM in
/-- **the connectivity link for pairwise vertex-disjoint non-degenerate triangles** (arbitrary vertex ids) -/
theorem eb_connectivity_roundtrip_disjoint (ch : ConnChoices) (pf : Faces) (hk1 : 1 ≤ pf.size) (hk : pf.size ≤ 2 ^ 21)
    (hnd : ∀ f, f < pf.size → faceDegenerate pf f = false)
    (hdis : ∀ c c', c < 3 * pf.size → c' < 3 * pf.size → c / 3 ≠ c' / 3 → inputVertex pf c ≠ inputVertex pf c') :
    EbConnectivityRoundtrip ch false pf #[] := by
  intro conn hconn
  -- a successful run has a created table
  cases hcr : CornerTable.create pf with
  | none =>
    rw [encodeConnectivity_eq] at hconn
    simp only [hcr] at hconn
    simp only [throw, throwThe, MonadExceptOf.throw] at hconn
    cases hconn
  | some tbl =>
    exact eb_connectivity_roundtrip_noopp ch (noopp_of_disjoint hcr hnd hdis) hk1 hk conn hconn

/-- `ConnTri.TriRoundtripGoal`: the triangles `(3 i, 3 i + 1, 3 i + 2)`, every `1 ≤ k ≤ 2^21` -/
theorem triRoundtripGoal : TriRoundtripGoal := by
  intro ch k hk1 hk
  have hsz : (triFaces k).size = k := by simp [triFaces]
  have hget : ∀ f, f < k → (triFaces k)[f]? = some (3 * f, 3 * f + 1, 3 * f + 2) := by
    intro f hf
    simp [triFaces, hf]
  have hiv : ∀ c, c < 3 * k → inputVertex (triFaces k) c = c := by
    intro c hc
    unfold inputVertex
    rw [hget (c / 3) (by omega)]
    simp only
    split
    · omega
    · split <;> omega
  apply eb_connectivity_roundtrip_disjoint ch (triFaces k) (by rw [hsz]; exact hk1) (by rw [hsz]; exact hk)
  · intro f hf
    rw [hsz] at hf
    unfold faceDegenerate
    rw [hget f hf]
    simp only [Bool.or_eq_false_iff, beq_eq_false_iff_ne, ne_eq]
    omega
  · intro c c' hc hc' hne
    rw [hsz] at hc hc'
    rw [hiv c hc, hiv c' hc']
    omega

end Draco.EbEnc.ConnNoOpp
