import DracoProofs.GeneratedCore
import DracoModel.SeqEncoder
import DracoModel.EbEncoder
/-
  DracoProofs.GeneratedOpts — the option-driven choices of the encoders (lean/Generated/Funcs.lean, translated from clang's
  AST of /repo on every run by tools/vlib/xlate.py in "opaque call" mode: every call — `options.GetSpeed()`,
  `encoder->GetGeometryType()`, `att->attribute_type()`, `options.GetAttributeInt(att_id, "quantization_bits", -1)`, … — is an
  input of the translated function, identified by its source text with local constants expanded; the control flow and the
  thresholds are the repo's) equal the models' selections.
-/
namespace Draco.Generated
open Draco Draco.CInt

/-- `SelectPredictionMethod(att_id, options, encoder)` (prediction_scheme_encoder_factory.cc), as a function of what its
    getters return, is `SeqEnc.selectPredictionMethod` (and hence `EbEnc.selectPredictionMethod` on meshes) -/
theorem SelectPredictionMethod_eq_model (isMesh : Bool) (o : SeqEnc.EncOpts) (atts : List Attribute) (numPoints attId : Nat)
    (hq1 : -2^20 < (o.att attId).quantBits ∧ (o.att attId).quantBits < 2^20)
    (hq2 : ∀ pid, -2^20 < (o.att pid).quantBits ∧ (o.att pid).quantBits < 2^20) :
    SelectPredictionMethod (attId : Int) o.speed (if isMesh then 1 else 0) (o.att attId).quantBits
        ((atts.getD attId default).attType : Int) ((atts.getD attId default).numComponents : Int)
        (SeqEnc.namedAttributeId atts 0).isSome
        (SeqEnc.isIntegralType (atts.getD ((SeqEnc.namedAttributeId atts 0).getD 0) default).dataType)
        (((SeqEnc.namedAttributeId atts 0).getD 0 : Nat) : Int)
        (o.att ((SeqEnc.namedAttributeId atts 0).getD 0)).quantBits (numPoints : Int) =
      SeqEnc.selectPredictionMethod isMesh o atts numPoints attId := by
  have c0 : PREDICTION_DIFFERENCE = 0 := rfl
  have c1 : MESH_PREDICTION_PARALLELOGRAM = 1 := rfl
  have c4 : MESH_PREDICTION_CONSTRAINED_MULTI_PARALLELOGRAM = 4 := rfl
  have c5 : MESH_PREDICTION_TEX_COORDS_PORTABLE = 5 := rfl
  have c6 : MESH_PREDICTION_GEOMETRIC_NORMAL = 6 := rfl
  have g0 : geometryAttribute_POSITION.toNat = 0 := rfl
  have g1 : geometryAttribute_NORMAL.toNat = 1 := rfl
  have g3 : geometryAttribute_TEX_COORD.toNat = 3 := rfl
  unfold SelectPredictionMethod SeqEnc.selectPredictionMethod
  simp only [c0, c1, c4, c5, c6, g0, g1, g3]
  have hq2' := hq2 ((SeqEnc.namedAttributeId atts 0).getD 0)
  generalize (o.att attId).quantBits = q at *
  generalize (atts.getD attId default).attType = ty
  generalize (atts.getD attId default).numComponents = ncp
  have ew : ∀ pq : Int, -2^20 < pq → pq < 2^20 → wrapI32 (wrapI32 (2 * pq) + q) = 2 * pq + q := by
    intro pq h1 h2
    rw [wrapI32_id (2 * pq) (by omega) (by omega), wrapI32_id _ (by omega) (by omega)]
  cases hpos : SeqEnc.namedAttributeId atts 0 with
  | none =>
    simp only [Option.isSome_none, Option.getD_none]
    cases isMesh <;> simp <;> (repeat' (first | omega | split)) <;> simp_all <;> omega
  | some pid =>
    rw [hpos] at hq2'
    simp only [Option.isSome_some, Option.getD_some] at hq2' ⊢
    simp only [ew _ hq2'.1 hq2'.2]
    generalize (o.att pid).quantBits = pq at *
    generalize SeqEnc.isIntegralType (atts.getD pid default).dataType = integral
    cases isMesh <;> cases integral <;> simp <;> (repeat' (first | omega | split)) <;> simp_all <;> omega

/-- `MeshEdgebreakerEncoder::InitializeEncoder`: the selected traversal method, with both Edgebreaker features available,
    is the one of `EbEnc.traversalCoder` -/
theorem InitializeEncoder_method_eq_model (o : EbEnc.EbOpts) (numFaces : Nat) :
    EbEnc.traversalCoder o numFaces =
      (let m := MeshEdgebreakerEncoder.InitializeEncoder_method true true (decide ((numFaces : Int) < 1000))
                  o.edgebreakerMethod o.base.speed
       if m == 0 then some 0 else if m == 2 then some 2 else none) := by
  unfold EbEnc.traversalCoder MeshEdgebreakerEncoder.InitializeEncoder_method
  by_cases h1 : o.edgebreakerMethod = -1 <;> by_cases h2 : o.base.speed ≥ 5 <;> by_cases h3 : numFaces < 1000 <;>
    simp [h1, h2, h3]
  · omega
  · have n3 : ¬ ((numFaces : Int) < 1000) := by omega
    have p3 : (1000 : Int) ≤ numFaces := by omega
    simp [n3, p3]

/-- the mesh encoding method `ExpertEncoder::EncodeMeshToBuffer` selects: the `encoding_method` option when set, otherwise
    sequential exactly at speed 10 and Edgebreaker for every other speed -/
def meshEncodingMethod (forced speed : Int) : Int :=
  if forced = -1 then (if speed = 10 then MESH_SEQUENTIAL_ENCODING else MESH_EDGEBREAKER_ENCODING) else forced

theorem EncodeMeshToBuffer_method_eq_model (forced speed : Int) :
    ExpertEncoder.EncodeMeshToBuffer_method forced speed = meshEncodingMethod forced speed := by
  have c0 : MESH_SEQUENTIAL_ENCODING = 0 := rfl
  have c1 : MESH_EDGEBREAKER_ENCODING = 1 := rfl
  unfold ExpertEncoder.EncodeMeshToBuffer_method meshEncodingMethod
  rw [c0, c1]
  repeat' (first | rfl | split)

end Draco.Generated
