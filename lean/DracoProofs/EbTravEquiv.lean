import DracoModel.EbEncTraversal
import DracoProofs.EbMDIso
import DracoProofs.EbEncPredict
/-
  Equivariance of the vertex traversals under an isomorphism of corner table views (`TVIso`, EbMDIso.lean):
  the decoder's `Draco.Eb.depthFirst` on its table and the encoder's `Draco.EbEnc.depthFirstOrder` on the
  original table (started from the corners `order[i] = φ (3 i)`) visit corresponding corners in the same order;
  the same for `Draco.Eb.maxPredictionDegree` / `Draco.EbEnc.maxPredictionDegreeOrder`.

  Both model functions are first restated (by `rfl`) as loops over NAMED bodies shared by the two sides
  (`dfTail`, `dfInner`, `dfMid`, `dfFrom`; `mpdRight`, `mpdInner`, `mpdAfterPop`, `mpdMid`, `mpdFrom`, `mpdOuter`);
  the loops are then related by generic simulation lemmas for loops that exit by `break` (`forIn_sim_break`: the
  fuel bounds of the two runs differ) and for loops that only yield (`forIn_sim_yield`).  BOTH runs are assumed
  successful, so nothing has to be proved about termination or about the bounds of the encoder's accesses.

  Main results: `traversal_equivariant`, `traversal_equivariant_v2d`, `traversal_mdIso` (depth first),
  `traversal_equivariant_mpd`, `traversal_equivariant_mpd_v2d`, `traversal_mdIso_mpd` (prediction degree).
  The statement about the vertex → entry map of EVERY vertex of a corner (needed by `MDIso.v2d`) uses the extra
  hypothesis `Hedge d` (the corner opposite to an edge lies in a face with the two vertices of the edge), which
  is not a field of `TVIso`; `Hedge.of_iso` derives it from the same property of the encoder's view.
-/
namespace Draco.EbEnc
open Draco
open Draco.Eb hiding iabs nextC prevC

/-! ### the two traversers as loops over named bodies -/

abbrev DfSt4 := Array Bool × Array Bool × SeqOut × Array Nat
abbrev DfStM := Array Bool × Array Bool × SeqOut × Array Nat × Bool
abbrev DfStI := Array Bool × Array Bool × SeqOut × Array Nat × Nat × Nat × Bool

/-- the end of an iteration of the inner loop: the decisions on the right and the left corner -/
def dfTail (t : TView) (fv vv : Array Bool) (out : SeqOut) (stack : Array Nat) (cornerId faceId : Nat) (fin2 : Bool) :
    R (ForInStep DfStI) := do
  let right ← t.rightCorner cornerId
  let left ← t.leftCorner cornerId
  let b ← faceVisited fv (faceOfCorner right)
  if b = true then do
    let b ← faceVisited fv (faceOfCorner left)
    if b = true then pure (ForInStep.done (fv, vv, out, stack.pop, cornerId, faceId, true))
    else pure (ForInStep.yield (fv, vv, out, stack, left, faceOfCorner left, fin2))
  else do
    let b ← faceVisited fv (faceOfCorner left)
    if b = true then pure (ForInStep.yield (fv, vv, out, stack, right, faceOfCorner right, fin2))
    else pure (ForInStep.done (fv, vv, out, (stack.set! (stack.size - 1) left).push right, cornerId, faceId, true))

/-- an iteration of the inner loop (the walk of `TraverseFromCorner`) -/
def dfInnerC (t : TView) (faces : Array Nat) (fv vv : Array Bool) (out : SeqOut) (stack : Array Nat)
    (cornerId faceId : Nat) (fin2 : Bool) : R (ForInStep DfStI) := do
  let fv ← wrB "MarkFaceVisited" fv faceId true
  let vertId ← t.vertex cornerId
  let jp : Unit → R (ForInStep DfStI) := fun _ => do
    let b ← rdB "is_vertex_visited_" vv vertId
    if (!b) = true then do
      let onBoundary ← t.isOnBoundary vertId
      let vv ← wrB "is_vertex_visited_" vv vertId true
      let out ← onNewVertex faces out vertId cornerId
      if (!onBoundary) = true then do
        let cornerId ← t.rightCorner cornerId
        pure (ForInStep.yield (fv, vv, out, stack, cornerId, cornerId / 3, fin2))
      else dfTail t fv vv out stack cornerId faceId fin2
    else dfTail t fv vv out stack cornerId faceId fin2
  if (vertId == inv) = true then do
    let r ← throw Err.fail
    jp r
  else jp ()

def dfInner (t : TView) (faces : Array Nat) (s : DfStI) : R (ForInStep DfStI) :=
  dfInnerC t faces s.1 s.2.1 s.2.2.1 s.2.2.2.1 s.2.2.2.2.1 s.2.2.2.2.2.1 s.2.2.2.2.2.2

/-- an iteration of the loop over the stack -/
def dfMidC (t : TView) (faces : Array Nat) (fuel : Nat) (fv vv : Array Bool) (out : SeqOut) (stack : Array Nat)
    (fin : Bool) : R (ForInStep DfStM) :=
  if stack.isEmpty = true then pure (ForInStep.done (fv, vv, out, stack, true))
  else if (stack.back! == inv) = true then pure (ForInStep.yield (fv, vv, out, stack.pop, fin))
  else do
    let b ← faceVisited fv (stack.back! / 3)
    if b = true then pure (ForInStep.yield (fv, vv, out, stack.pop, fin))
    else do
      let s ← forIn [0:fuel] ((fv, vv, out, stack, stack.back!, stack.back! / 3, false) : DfStI)
        fun _ s => dfInner t faces s
      if (!s.2.2.2.2.2.2) = true then do
        throw (Err.fuel "DepthFirstTraverser: inner loop")
        pure (ForInStep.yield (s.1, s.2.1, s.2.2.1, s.2.2.2.1, fin))
      else pure (ForInStep.yield (s.1, s.2.1, s.2.2.1, s.2.2.2.1, fin))

def dfMid (t : TView) (faces : Array Nat) (fuel : Nat) (s : DfStM) : R (ForInStep DfStM) :=
  dfMidC t faces fuel s.1 s.2.1 s.2.2.1 s.2.2.2.1 s.2.2.2.2

/-- visit a vertex unless it is visited, then continue with `k` -/
def visitK {β : Type} (faces : Array Nat) (vv : Array Bool) (out : SeqOut) (v corner : Nat)
    (k : Array Bool → SeqOut → R β) : R β := do
  let b ← rdB "is_vertex_visited_" vv v
  if (!b) = true then do
    let vv ← wrB "is_vertex_visited_" vv v true
    let out ← onNewVertex faces out v corner
    k vv out
  else k vv out

/-- `TraverseFromCorner(c0)` after the test of the face of `c0` -/
def dfFrom (t : TView) (faces : Array Nat) (fuel : Nat) (c0 : Nat) (fv vv : Array Bool) (out : SeqOut) :
    R (ForInStep DfSt4) := do
  let nextVert ← t.vertex (Eb.nextC c0)
  let prevVert ← t.vertex (Eb.prevC c0)
  let jp : Unit → R (ForInStep DfSt4) := fun _ =>
    visitK faces vv out nextVert (Eb.nextC c0) fun vv out =>
    visitK faces vv out prevVert (Eb.prevC c0) fun vv out => do
      let s ← forIn [0:fuel] ((fv, vv, out, #[c0], false) : DfStM) fun _ s => dfMid t faces fuel s
      if (!s.2.2.2.2) = true then do
        throw (Err.fuel "DepthFirstTraverser: stack loop")
        pure (ForInStep.yield (s.1, s.2.1, s.2.2.1, s.2.2.2.1))
      else pure (ForInStep.yield (s.1, s.2.1, s.2.2.1, s.2.2.2.1))
  if (nextVert == inv || prevVert == inv) = true then do
    let r ← throw Err.fail
    jp r
  else jp ()

def dfFuel (t : TView) : Nat := 4 * (t.numFaces + t.numVertices) + 16

def dfInit (t : TView) (v2d : Array Nat) : DfSt4 :=
  (Array.replicate t.numFaces false, Array.replicate t.numVertices false,
    { pointIds := Array.mkEmpty t.numVertices, d2c := Array.mkEmpty t.numVertices, v2d := v2d }, #[])

/-! ### the model's traversers are these loops

  `DracoModel/EbTraversal.lean` writes the traversers as single-loop functions (`Eb.dfInner`, `Eb.dfStack`,
  `Eb.visitVertex`; `Eb.mpInner`, `Eb.mpStack`, `Eb.mpPriority`, `Eb.MpStacks`) for the loop-invariant proofs of
  DracoProofs/EbTraversalInv.lean / EbTraversalFuel.lean; the bridging lemmas below restate them as the loops over the
  named bodies of this file (monad laws + a projection of the loop state). -/

theorem dfInner_loop (t : TView) (faces : Array Nat) (fuel : Nat) (fv vv : Array Bool) (out : SeqOut)
    (stack : Array Nat) (c f : Nat) :
    Eb.dfInner t faces fuel fv vv out stack c f = (do
      let s ← forIn [0:fuel] ((fv, vv, out, stack, c, f, false) : DfStI) fun _ s => dfInner t faces s
      if (!s.2.2.2.2.2.2) = true then do
        throw (Err.fuel "DepthFirstTraverser: inner loop")
        pure (s.1, s.2.1, s.2.2.1, s.2.2.2.1)
      else pure (s.1, s.2.1, s.2.2.1, s.2.2.2.1)) := by
  rfl

theorem dfStack_loop (t : TView) (faces : Array Nat) (fuel : Nat) (fv vv : Array Bool) (out : SeqOut)
    (stack : Array Nat) :
    Eb.dfStack t faces fuel fv vv out stack = (do
      let s ← forIn [0:fuel] ((fv, vv, out, stack, false) : DfStM) fun _ s => dfMid t faces fuel s
      if (!s.2.2.2.2) = true then do
        throw (Err.fuel "DepthFirstTraverser: stack loop")
        pure (s.1, s.2.1, s.2.2.1)
      else pure (s.1, s.2.1, s.2.2.1)) := by
  unfold Eb.dfStack
  simp only [dfInner_loop]
  congr 1
  congr 1
  funext x s
  unfold dfMid dfMidC
  split
  · rfl
  split
  · rfl
  congr 1
  funext b
  split
  · rfl
  simp only [bind_assoc]
  congr 1
  funext r
  split <;> rfl

/-! bridging: projections of loop states -/

def brStepMap {σ τ : Type} (π : σ → τ) : ForInStep σ → ForInStep τ
  | .done s => .done (π s)
  | .yield s => .yield (π s)

theorem br_forIn_list_proj {α σ τ : Type} (π : σ → τ) (f : α → σ → R (ForInStep σ)) (g : α → τ → R (ForInStep τ))
    (h : ∀ a s, brStepMap π <$> f a s = g a (π s)) :
    ∀ (l : List α) (s : σ), π <$> forIn l s f = forIn l (π s) g
  | [], s => by simp
  | a :: l, s => by
    rw [List.forIn_cons, List.forIn_cons, ← h a s]
    simp only [map_bind, bind_map_left]
    congr 1
    funext r
    cases r with
    | done b => simp [brStepMap]
    | yield b => simp only [brStepMap]; exact br_forIn_list_proj π f g h l b

theorem br_bind_forIn_proj {σ τ β : Type} (π : σ → τ) (f : Nat → σ → R (ForInStep σ)) (g : Nat → τ → R (ForInStep τ))
    (h : ∀ a s, brStepMap π <$> f a s = g a (π s)) (r : Std.Legacy.Range) (s : σ) (k : τ → R β) :
    (forIn r (π s) g >>= k) = (forIn r s f >>= fun x => k (π x)) := by
  rw [Std.Legacy.Range.forIn_eq_forIn_range', Std.Legacy.Range.forIn_eq_forIn_range',
    ← br_forIn_list_proj π f g h]
  simp only [bind_map_left]

theorem visitVertex_bind {β : Type} (faces : Array Nat) (vv : Array Bool) (out : SeqOut) (v c : Nat)
    (k : Array Bool → SeqOut → R β) :
    (Eb.visitVertex faces vv out v c >>= fun r => k r.1 r.2) = visitK faces vv out v c k := by
  unfold Eb.visitVertex visitK
  simp only [bind_assoc]
  congr 1
  funext b
  split
  · simp only [bind_assoc, pure_bind]
  · simp only [pure_bind]

theorem two_visits {β : Type} (faces : Array Nat) (vv : Array Bool) (out : SeqOut) (v1 c1 v2 c2 : Nat)
    (k : Array Bool → SeqOut → R β) :
    (do let x ← Eb.visitVertex faces vv out v1 c1
        let y ← Eb.visitVertex faces x.1 x.2 v2 c2
        k y.1 y.2) = visitK faces vv out v1 c1 fun vv out => visitK faces vv out v2 c2 k := by
  rw [← visitVertex_bind]
  congr 1
  funext x
  rw [← visitVertex_bind]

theorem visitK_map {β γ : Type} (f : β → γ) (faces : Array Nat) (vv : Array Bool) (out : SeqOut) (v c : Nat)
    (k : Array Bool → SeqOut → R β) :
    f <$> visitK faces vv out v c k = visitK faces vv out v c fun vv out => f <$> k vv out := by
  unfold visitK
  simp only [map_bind]
  congr 1
  funext b
  split
  · simp only [map_bind]
  · rfl

theorem depthFirst_eq (t : TView) (faces : Array Nat) (v2dSize : Nat) :
    depthFirst t faces v2dSize = (do
      let s ← forIn [0:t.numFaces] (dfInit t (Array.replicate v2dSize 0)) fun i (s : DfSt4) => do
        let b ← rdB "is_face_visited_" s.1 i
        if b = true then pure (ForInStep.yield (s.1, s.2.1, s.2.2.1, s.2.2.2))
        else dfFrom t faces (dfFuel t) (3 * i) s.1 s.2.1 s.2.2.1
      pure s.2.2.1) := by
  unfold depthFirst
  simp only [dfStack_loop]
  refine (br_bind_forIn_proj (fun (s : DfSt4) => (s.1, s.2.1, s.2.2.1))
    (fun i (s : DfSt4) => do
        let b ← rdB "is_face_visited_" s.1 i
        if b = true then pure (ForInStep.yield (s.1, s.2.1, s.2.2.1, s.2.2.2))
        else dfFrom t faces (dfFuel t) (3 * i) s.1 s.2.1 s.2.2.1) _ ?_ _ (dfInit t (Array.replicate v2dSize 0)) _).trans ?_
  rotate_left
  · rfl
  intro i s
  simp only [map_bind]
  congr 1
  funext b
  split
  · rfl
  unfold dfFrom dfFuel
  simp only [map_bind]
  congr 1
  funext nextVert
  congr 1
  funext prevVert
  split
  · rfl
  have h2 := two_visits faces s.2.1 s.2.2.1 nextVert (Eb.nextC (3 * i)) prevVert (Eb.prevC (3 * i))
    (fun vv out => (do
      let x ← (do
        let s' ← forIn [:4 * (t.numFaces + t.numVertices) + 16] ((s.1, vv, out, #[3 * i], false) : DfStM) fun x s =>
            dfMid t faces (4 * (t.numFaces + t.numVertices) + 16) s
        if (!s'.2.2.2.2) = true then do
            throw (Err.fuel "DepthFirstTraverser: stack loop")
            pure (s'.1, s'.2.1, s'.2.2.1)
          else pure (s'.1, s'.2.1, s'.2.2.1))
      pure (ForInStep.yield (x.1, x.2.1, x.2.2)) : R (ForInStep (Array Bool × Array Bool × SeqOut))))
  beta_reduce at h2
  rw [h2, visitK_map]
  congr 1
  funext vv1 out1
  rw [visitK_map]
  congr 1
  funext vv2 out2
  simp only [map_bind, bind_assoc]
  congr 1
  funext s'
  split <;> rfl

theorem depthFirstOrder_eq (t : TView) (faces order v2dInit : Array Nat) :
    depthFirstOrder t faces order v2dInit = (do
      let s ← forIn order (dfInit t v2dInit) fun c0 (s : DfSt4) => do
        let b ← faceVisited s.1 (faceOfCorner c0)
        if b = true then pure (ForInStep.yield (s.1, s.2.1, s.2.2.1, s.2.2.2))
        else dfFrom t faces (dfFuel t) c0 s.1 s.2.1 s.2.2.1
      pure s.2.2.1) := by
  rfl

/-! ### generic facts about loops in `R` -/

/-- two loops over lists of the same length whose bodies only yield: simulation given BOTH runs succeed -/
theorem forIn_sim_yield {α β σ τ : Type} (f : α → σ → R (ForInStep σ)) (g : β → τ → R (ForInStep τ))
    (Rel : Nat → σ → τ → Prop) :
    ∀ (l1 : List α) (l2 : List β) (k : Nat), l1.length = l2.length →
    (∀ i (h1 : i < l1.length) (h2 : i < l2.length) s t r r', Rel (k + i) s t → f l1[i] s = .ok r → g l2[i] t = .ok r' →
      ∃ s' t', r = .yield s' ∧ r' = .yield t' ∧ Rel (k + i + 1) s' t') →
    ∀ s0 t0 outD outE, Rel k s0 t0 → forIn l1 s0 f = .ok outD → forIn l2 t0 g = .ok outE →
      Rel (k + l1.length) outD outE := by
  intro l1
  induction l1 with
  | nil =>
    intro l2 k hlen _ s0 t0 outD outE hr h1 h2
    cases l2 with
    | cons b l2 => simp at hlen
    | nil =>
      simp [pure, Except.pure] at h1 h2
      subst h1 h2
      simpa using hr
  | cons a l1 ih =>
    intro l2 k hlen hstep s0 t0 outD outE hr h1 h2
    cases l2 with
    | nil => simp at hlen
    | cons b l2 =>
      rw [List.forIn_cons, bind_ok_iff] at h1 h2
      obtain ⟨r, hf, h1⟩ := h1
      obtain ⟨r', hg, h2⟩ := h2
      obtain ⟨s', t', rfl, rfl, hr'⟩ := hstep 0 (by simp) (by simp) s0 t0 r r' (by simpa using hr) (by simpa using hf)
        (by simpa using hg)
      have := ih l2 (k + 1) (by simpa using hlen) (fun i h1 h2 s t r r' hrel hfi hgi => by
        have := hstep (i + 1) (by simp; omega) (by simp; omega) s t r r'
          (by rw [show k + (i + 1) = k + 1 + i by omega]; exact hrel) (by simpa using hfi) (by simpa using hgi)
        rw [show k + (i + 1) + 1 = k + 1 + i + 1 by omega] at this
        exact this) s' t' outD outE (by simpa using hr') h1 h2
      rw [show k + (a :: l1).length = k + 1 + l1.length by simp; omega]
      exact this

/-- two loops (of any lengths) with index independent bodies that both exit by `break`: `P` / `Q` hold of the
    results but of no state related by `Rel` -/
theorem forIn_sim_break {α β σ τ : Type} (f : σ → R (ForInStep σ)) (g : τ → R (ForInStep τ))
    (Rel RelD : σ → τ → Prop) (P : σ → Prop) (Q : τ → Prop)
    (hP : ∀ s t, Rel s t → ¬ P s ∧ ¬ Q t)
    (hstep : ∀ s t r r', Rel s t → f s = .ok r → g t = .ok r' →
      (∃ s' t', r = .yield s' ∧ r' = .yield t' ∧ Rel s' t') ∨
      (∃ s' t', r = .done s' ∧ r' = .done t' ∧ RelD s' t')) :
    ∀ (l1 : List α) (l2 : List β) s0 t0 outD outE, Rel s0 t0 →
      forIn l1 s0 (fun _ s => f s) = .ok outD → forIn l2 t0 (fun _ t => g t) = .ok outE →
      P outD → Q outE → RelD outD outE := by
  intro l1
  induction l1 with
  | nil =>
    intro l2 s0 t0 outD outE hr h1 _ hp _
    simp [pure, Except.pure] at h1
    subst h1
    exact absurd hp (hP _ _ hr).1
  | cons a l1 ih =>
    intro l2 s0 t0 outD outE hr h1 h2 hp hq
    cases l2 with
    | nil =>
      simp [pure, Except.pure] at h2
      subst h2
      exact absurd hq (hP _ _ hr).2
    | cons b l2 =>
      rw [List.forIn_cons, bind_ok_iff] at h1 h2
      obtain ⟨r, hf, h1⟩ := h1
      obtain ⟨r', hg, h2⟩ := h2
      rcases hstep s0 t0 r r' hr hf hg with ⟨s', t', rfl, rfl, hr'⟩ | ⟨s', t', rfl, rfl, hr'⟩
      · exact ih l2 s' t' outD outE hr' h1 h2 hp hq
      · simp [pure, Except.pure] at h1 h2
        subst h1 h2
        exact hr'

/-! ### checked accesses -/

theorem trav_rdB_ok_iff (site : String) (a : Array Bool) (i : Nat) (b : Bool) : rdB site a i = .ok b ↔ a[i]? = some b := by
  unfold rdB
  by_cases h : i < a.size
  · simp [h, pure, Except.pure]
  · simp [h, throw, throwThe, MonadExceptOf.throw]

theorem trav_wrB_ok_iff (site : String) (a : Array Bool) (i : Nat) (v : Bool) (a' : Array Bool) :
    wrB site a i v = .ok a' ↔ i < a.size ∧ a' = a.setIfInBounds i v := by
  unfold wrB
  by_cases h : i < a.size
  · simp [h, pure, Except.pure, Array.setIfInBounds, eq_comm]
  · simp [h, throw, throwThe, MonadExceptOf.throw]

theorem trav_rd_ok_iff (site : String) (a : Array Nat) (i : Nat) (b : Nat) : rd site a i = .ok b ↔ a[i]? = some b := by
  unfold rd
  by_cases h : i < a.size
  · simp [h, pure, Except.pure]
  · simp [h, throw, throwThe, MonadExceptOf.throw]

theorem trav_wr_ok_iff (site : String) (a : Array Nat) (i : Nat) (v : Nat) (a' : Array Nat) :
    wr site a i v = .ok a' ↔ i < a.size ∧ a' = a.setIfInBounds i v := by
  unfold wr
  by_cases h : i < a.size
  · simp [h, pure, Except.pure, Array.setIfInBounds, eq_comm]
  · simp [h, throw, throwThe, MonadExceptOf.throw]

theorem trav_throw_ne_ok {α : Type} (e : Err) (a : α) : (throw e : R α) ≠ .ok a := by
  simp [throw, throwThe, MonadExceptOf.throw]

/-! ### the face map of a corner map -/

/-- the face map induced by the corner map -/
def faceMap (φ : Nat → Nat) (i : Nat) : Nat := φ (3 * i) / 3

section
variable {d e : TView} {φ ψ : Nat → Nat}

theorem phi_face_aux (h : TVIso d e φ ψ) (i : Nat) (hi : i < d.numFaces) :
    φ (3 * i + 1) = Eb.nextC (φ (3 * i)) ∧ φ (3 * i + 2) = Eb.nextC (Eb.nextC (φ (3 * i))) := by
  have hf := h.fits
  have e1 : Eb.nextC (3 * i) = 3 * i + 1 := by rw [Eb.nextC_eq _ (by omega)]; split <;> omega
  have e2 : Eb.nextC (3 * i + 1) = 3 * i + 2 := by rw [Eb.nextC_eq _ (by omega)]; split <;> omega
  have p1 := h.phi_next (3 * i) (by omega)
  have p2 := h.phi_next (3 * i + 1) (by omega)
  rw [e1] at p1
  rw [e2, p1] at p2
  exact ⟨p1, p2⟩

theorem phi_face (h : TVIso d e φ ψ) (c : Nat) (hc : c < 3 * d.numFaces) : φ c / 3 = faceMap φ (c / 3) := by
  have hf := h.fits
  obtain ⟨p1, p2⟩ := phi_face_aux h (c / 3) (by omega)
  have h0 := h.phi_lt (3 * (c / 3)) (by omega)
  have f1 := Eb.nextC_face (φ (3 * (c / 3))) (by omega)
  have f2 := Eb.nextC_face (Eb.nextC (φ (3 * (c / 3)))) (by have := Eb.nextC_lt (φ (3 * (c / 3))) (by omega); omega)
  unfold faceMap
  have : c = 3 * (c / 3) ∨ c = 3 * (c / 3) + 1 ∨ c = 3 * (c / 3) + 2 := by omega
  rcases this with hh | hh | hh
  · rw [← hh]
  · rw [hh, p1, f1]; congr 3; omega
  · rw [hh, p2, f2, f1]; congr 3; omega

theorem faceMap_lt (h : TVIso d e φ ψ) (i : Nat) (hi : i < d.numFaces) : faceMap φ i < e.numFaces := by
  have := h.phi_lt (3 * i) (by omega)
  unfold faceMap
  omega

theorem faceMap_inj (h : TVIso d e φ ψ) (i j : Nat) (hi : i < d.numFaces) (hj : j < d.numFaces) (hij : faceMap φ i = faceMap φ j) :
    i = j := by
  have hf := h.fits
  obtain ⟨p1, p2⟩ := phi_face_aux h i hi
  have ha := h.phi_lt (3 * i) (by omega)
  have hb := h.phi_lt (3 * j) (by omega)
  unfold faceMap at hij
  have key : φ (3 * j) = φ (3 * i) ∨ φ (3 * j) = Eb.nextC (φ (3 * i)) ∨ φ (3 * j) = Eb.nextC (Eb.nextC (φ (3 * i))) := by
    rw [Eb.nextC_eq (φ (3 * i)) (by omega)]
    split
    · rw [Eb.nextC_eq _ (by omega)]; split <;> omega
    · rw [Eb.nextC_eq _ (by omega)]; split <;> omega
  rcases key with k | k | k
  · have := h.phi_inj _ _ (by omega) (by omega) k; omega
  · rw [← p1] at k; have := h.phi_inj _ _ (by omega) (by omega) k; omega
  · rw [← p2] at k; have := h.phi_inj _ _ (by omega) (by omega) k; omega

theorem faceMap_eq_iff (h : TVIso d e φ ψ) (i j : Nat) (hi : i < d.numFaces) (hj : j < d.numFaces) :
    faceMap φ i = faceMap φ j ↔ i = j :=
  ⟨faceMap_inj h i j hi hj, fun e => by rw [e]⟩

end

/-! ### the relation between the states of the two runs -/

/-- the relation between `(is_face_visited_, is_vertex_visited_, out)` of the decoder's run (on `d`) and of the
    encoder's run (on `e`) -/
structure TravCore (d e : TView) (φ ψ : Nat → Nat) (facesD facesE : Array Nat)
    (fvD vvD : Array Bool) (outD : SeqOut) (fvE vvE : Array Bool) (outE : SeqOut) : Prop where
  fvD_size : fvD.size = d.numFaces
  fvE_size : fvE.size = e.numFaces
  fv : ∀ i, i < d.numFaces → fvE[faceMap φ i]? = fvD[i]?
  vvD_size : vvD.size = d.numVertices
  vvE_size : vvE.size = e.numVertices
  vv : ∀ c v, c < 3 * d.numFaces → d.vertex c = .ok v → vvE[ψ v]? = vvD[v]?
  d2c_size : outE.d2c.size = outD.d2c.size
  d2c : ∀ p (hp : p < outD.d2c.size), outD.d2c[p] < 3 * d.numFaces ∧ outE.d2c[p]! = φ outD.d2c[p]
  seen : ∀ p (hp : p < outD.d2c.size) v, d.vertex outD.d2c[p] = .ok v →
    vvD[v]? = some true ∧ outD.v2d[v]? = some p ∧ outE.v2d[ψ v]? = some p
  vis : ∀ w, vvD[w]? = some true → ∃ p, ∃ hp : p < outD.d2c.size, d.vertex outD.d2c[p] = .ok w
  pidD : outD.pointIds.size = outD.d2c.size ∧ ∀ p (hp : p < outD.d2c.size), outD.pointIds[p]? = facesD[outD.d2c[p]]?
  pidE : outE.pointIds.size = outE.d2c.size ∧ ∀ p (hp : p < outE.d2c.size), outE.pointIds[p]? = facesE[outE.d2c[p]]?

theorem onNewVertex_ok_iff (faces : Array Nat) (s : SeqOut) (v corner : Nat) (s' : SeqOut) :
    onNewVertex faces s v corner = .ok s' ↔ ∃ p, faces[corner]? = some p ∧ v < s.v2d.size ∧
      s' = { pointIds := s.pointIds.push p, d2c := s.d2c.push corner, v2d := s.v2d.setIfInBounds v s.d2c.size } := by
  unfold onNewVertex
  simp only [bind_ok_iff, trav_rd_ok_iff, trav_wr_ok_iff, pure, Except.pure]
  constructor
  · rintro ⟨p, hp, a, ⟨h1, rfl⟩, h2⟩
    cases h2
    exact ⟨p, hp, h1, rfl⟩
  · rintro ⟨p, hp, h1, rfl⟩
    exact ⟨p, hp, _, ⟨h1, rfl⟩, rfl⟩

section
variable {d e : TView} {φ ψ : Nat → Nat} {facesD facesE : Array Nat}
  {fvD vvD : Array Bool} {outD : SeqOut} {fvE vvE : Array Bool} {outE : SeqOut}

/-- `MarkFaceVisited` of corresponding faces -/
theorem TravCore.mark (h : TVIso d e φ ψ) (hc : TravCore d e φ ψ facesD facesE fvD vvD outD fvE vvE outE)
    (c : Nat) (hlt : c < 3 * d.numFaces) :
    TravCore d e φ ψ facesD facesE (fvD.setIfInBounds (c / 3) true) vvD outD (fvE.setIfInBounds (φ c / 3) true) vvE outE := by
  refine { hc with fvD_size := by simp [hc.fvD_size], fvE_size := by simp [hc.fvE_size], fv := ?_ }
  intro i hi
  rw [phi_face h c hlt, Array.getElem?_setIfInBounds, Array.getElem?_setIfInBounds, hc.fv i hi]
  have hm := faceMap_lt h (c / 3) (by omega)
  by_cases hic : c / 3 = i
  · subst hic
    simp [hc.fvD_size, hc.fvE_size, hm, hi]
  · have : faceMap φ (c / 3) ≠ faceMap φ i := fun e => hic (faceMap_inj h _ _ (by omega) hi e)
    simp [hic, this]

/-- `OnNewVertexVisited` of corresponding vertices at corresponding corners -/
theorem TravCore.visit (h : TVIso d e φ ψ) (hc : TravCore d e φ ψ facesD facesE fvD vvD outD fvE vvE outE)
    (c v : Nat) (hlt : c < 3 * d.numFaces) (hv : d.vertex c = .ok v) (hnew : vvD[v]? = some false)
    (outD' outE' : SeqOut) (hD : onNewVertex facesD outD v c = .ok outD')
    (hE : onNewVertex facesE outE (ψ v) (φ c) = .ok outE') :
    TravCore d e φ ψ facesD facesE fvD (vvD.setIfInBounds v true) outD' fvE (vvE.setIfInBounds (ψ v) true) outE' := by
  rw [onNewVertex_ok_iff] at hD hE
  obtain ⟨pD, hpD, hvD, rfl⟩ := hD
  obtain ⟨pE, hpE, hvE, rfl⟩ := hE
  have hnewE : vvE[ψ v]? = some false := by rw [hc.vv c v hlt hv, hnew]
  have hvs : v < vvD.size := by
    by_contra hh
    rw [Array.getElem?_eq_none (by omega)] at hnew
    cases hnew
  have hvsE : ψ v < vvE.size := by
    by_contra hh
    rw [Array.getElem?_eq_none (by omega)] at hnewE
    cases hnewE
  refine { fvD_size := hc.fvD_size, fvE_size := hc.fvE_size, fv := hc.fv, vvD_size := by simp [hc.vvD_size],
           vvE_size := by simp [hc.vvE_size], vv := ?_, d2c_size := by simp [hc.d2c_size], d2c := ?_, seen := ?_,
           vis := ?_, pidD := ?_, pidE := ?_ }
  · intro c' v' hlt' hv'
    rw [Array.getElem?_setIfInBounds, Array.getElem?_setIfInBounds, hc.vv c' v' hlt' hv']
    by_cases hvv : v = v'
    · subst hvv
      simp [hvs, hvsE]
    · have : ψ v ≠ ψ v' := fun e => hvv (h.psi_inj c c' v v' hlt hlt' hv hv' e)
      simp [hvv, this]
  · intro p hp
    simp only [Array.size_push] at hp
    by_cases hp' : p < outD.d2c.size
    · have := hc.d2c p hp'
      have hpE' : p < outE.d2c.size := by rw [hc.d2c_size]; exact hp'
      simp only [Array.getElem_push_lt hp']
      refine ⟨this.1, ?_⟩
      rw [← this.2]
      simp [hpE', Array.getElem_push_lt hpE', Array.size_push, Nat.lt_succ_of_lt hpE']
    · have hpe : p = outD.d2c.size := by omega
      subst hpe
      simp only [Array.getElem_push_eq]
      refine ⟨hlt, ?_⟩
      rw [← hc.d2c_size]
      simp
  · intro p hp v' hv'
    simp only [Array.size_push] at hp
    by_cases hp' : p < outD.d2c.size
    · simp only [Array.getElem_push_lt hp'] at hv'
      obtain ⟨s1, s2, s3⟩ := hc.seen p hp' v' hv'
      have hne : v ≠ v' := by
        intro e
        rw [e, s1] at hnew
        cases hnew
      have hneE : ψ v ≠ ψ v' := fun e => hne (h.psi_inj c _ v v' hlt (hc.d2c p hp').1 hv hv' e)
      simp only [Array.getElem?_setIfInBounds, hne, hneE, if_false]
      exact ⟨s1, s2, s3⟩
    · have hpe : p = outD.d2c.size := by omega
      subst hpe
      simp only [Array.getElem_push_eq] at hv'
      rw [hv] at hv'
      cases hv'
      simp [hvs, hvD, hvE, hc.d2c_size]
  · intro w hw
    rw [Array.getElem?_setIfInBounds] at hw
    by_cases hvw : v = w
    · subst hvw
      exact ⟨outD.d2c.size, by simp, by simpa using hv⟩
    · rw [if_neg hvw] at hw
      obtain ⟨p, hp, hpv⟩ := hc.vis w hw
      exact ⟨p, by simp; omega, by simpa [Array.getElem_push_lt hp] using hpv⟩
  · refine ⟨by simp [hc.pidD.1], ?_⟩
    intro p hp
    simp only [Array.size_push] at hp
    by_cases hp' : p < outD.d2c.size
    · simp only [Array.getElem_push_lt hp']
      rw [← hc.pidD.2 p hp', Array.getElem?_push]
      have : p ≠ outD.pointIds.size := by rw [hc.pidD.1]; omega
      simp [this]
    · have hpe : p = outD.d2c.size := by omega
      subst hpe
      simp only [Array.getElem_push_eq]
      rw [hpD, ← hc.pidD.1]
      simp
  · refine ⟨by simp [hc.pidE.1], ?_⟩
    intro p hp
    simp only [Array.size_push] at hp
    by_cases hp' : p < outE.d2c.size
    · simp only [Array.getElem_push_lt hp']
      rw [← hc.pidE.2 p hp', Array.getElem?_push]
      have : p ≠ outE.pointIds.size := by rw [hc.pidE.1]; omega
      simp [this]
    · have hpe : p = outE.d2c.size := by omega
      subst hpe
      simp only [Array.getElem_push_eq]
      rw [hpE, ← hc.pidE.1]
      simp

end

/-! ### invariants of the decoder's run alone: every face is visited, and so is every vertex of a visited face -/

/-- the two other corners of the face opposite to an edge have the vertices of the edge (used only for the
    statement that EVERY vertex of a corner is visited) -/
def Hedge (d : TView) : Prop :=
  ∀ c, c < 3 * d.numFaces → ∀ o, d.opposite c = .ok o → o ≠ inv →
    d.vertex (Eb.nextC o) = d.vertex (Eb.prevC c) ∧ d.vertex (Eb.prevC o) = d.vertex (Eb.nextC c)

/-- the vertex of the corner is visited -/
def VSeen (d : TView) (vv : Array Bool) (c : Nat) : Prop := ∀ v, d.vertex c = .ok v → vv[v]? = some true

/-- the vertices of the two other corners of the face are visited -/
def NInv (d : TView) (vv : Array Bool) (c : Nat) : Prop := VSeen d vv (Eb.nextC c) ∧ VSeen d vv (Eb.prevC c)

/-- the vertices of the corners of the visited faces are visited -/
def JInv (d : TView) (fv vv : Array Bool) : Prop :=
  ∀ c, c < 3 * d.numFaces → fv[c / 3]? = some true → VSeen d vv c

theorem VSeen.set {d : TView} {vv : Array Bool} {c : Nat} (h : VSeen d vv c) (w : Nat) :
    VSeen d (vv.setIfInBounds w true) c := by
  intro v hv
  have := h v hv
  rw [Array.getElem?_setIfInBounds]
  split
  · rename_i e; subst e
    have hlt : w < vv.size := by
      by_contra hh
      rw [Array.getElem?_eq_none (by omega)] at this
      cases this
    simp [hlt]
  · exact this

theorem NInv.set {d : TView} {vv : Array Bool} {c : Nat} (h : NInv d vv c) (w : Nat) :
    NInv d (vv.setIfInBounds w true) c := ⟨h.1.set w, h.2.set w⟩

theorem JInv.set {d : TView} {fv vv : Array Bool} (h : JInv d fv vv) (w : Nat) :
    JInv d fv (vv.setIfInBounds w true) := fun c hc hf => (h c hc hf).set w

theorem trav_face_corners (c c' : Nat) (hc : c < inv) (h : c' / 3 = c / 3) :
    c' = c ∨ c' = Eb.nextC c ∨ c' = Eb.prevC c := by
  have h1 := Eb.nextC_lt c hc
  rw [TVIso.prevC_eq c hc, Eb.nextC_eq _ h1, Eb.nextC_eq c hc]
  split <;> split <;> omega

/-- marking the face of `c` once the vertices of its three corners are visited -/
theorem JInv.mark {d : TView} {fv vv : Array Bool} (h : JInv d fv vv) (c : Nat) (hc : c < inv)
    (h0 : VSeen d vv c) (hn : NInv d vv c) : JInv d (fv.setIfInBounds (c / 3) true) vv := by
  intro c' hc' hf
  rw [Array.getElem?_setIfInBounds] at hf
  by_cases e : c / 3 = c' / 3
  · rcases trav_face_corners c c' hc e.symm with rfl | rfl | rfl
    · exact h0
    · exact hn.1
    · exact hn.2
  · rw [if_neg e] at hf
    exact h c' hc' hf

/-- the corners of a visited face have visited vertices -/
theorem JInv.face {d : TView} {fv vv : Array Bool} (h : JInv d fv vv) (hf : 3 * d.numFaces ≤ inv) (c : Nat)
    (hc : c < 3 * d.numFaces) (hm : fv[c / 3]? = some true) :
    VSeen d vv c ∧ VSeen d vv (Eb.nextC c) ∧ VSeen d vv (Eb.prevC c) := by
  refine ⟨h c hc hm, h _ (TVIso.nextC_lt hc) ?_, h _ (TVIso.prevC_lt hc hf) ?_⟩
  · rw [Eb.nextC_face c (by omega)]; exact hm
  · rw [Eb.prevC_face c (by omega)]; exact hm

/-- the corner opposite to an edge of a face with visited vertices -/
theorem NInv.of_opposite {d : TView} {vv : Array Bool} (hh : Hedge d) (c o : Nat)
    (hc : c < 3 * d.numFaces) (ho : d.opposite c = .ok o) (hne : o ≠ inv)
    (hn : NInv d vv c) : NInv d vv o := by
  obtain ⟨e1, e2⟩ := hh c hc o ho hne
  unfold NInv VSeen
  rw [e1, e2]
  exact ⟨hn.2, hn.1⟩

theorem NInv.next {d : TView} {vv : Array Bool} (hf : 3 * d.numFaces ≤ inv) (c : Nat) (hc : c < 3 * d.numFaces)
    (h0 : VSeen d vv c) (hn : NInv d vv c) : NInv d vv (Eb.nextC c) := by
  refine ⟨?_, ?_⟩
  · rw [← TVIso.prevC_eq c (by omega)]; exact hn.2
  · rw [Eb.prevC_nextC c (by omega)]; exact h0

theorem NInv.prev {d : TView} {vv : Array Bool} (hf : 3 * d.numFaces ≤ inv) (c : Nat) (hc : c < 3 * d.numFaces)
    (h0 : VSeen d vv c) (hn : NInv d vv c) : NInv d vv (Eb.prevC c) := by
  refine ⟨?_, ?_⟩
  · rw [Eb.nextC_prevC c (by omega)]; exact h0
  · rw [TVIso.prevC_eq c (by omega), TVIso.prevC_eq _ (Eb.nextC_lt _ (Eb.nextC_lt c (by omega))),
      Eb.nextC_three c (by omega)]
    exact hn.1

/-! ### transport of the accessors -/

theorem trav_ok_bind {α β : Type} (a : α) (f : α → R β) : ((Except.ok a : R α) >>= f) = f a := rfl

theorem trav_rdB_eq_match (site : String) (a : Array Bool) (i : Nat) :
    rdB site a i = match a[i]? with | some b => .ok b | none => throw (.ub site) := by
  unfold rdB
  by_cases h : i < a.size
  · simp [h, pure, Except.pure]
  · simp [h]

section
variable {d e : TView} {φ ψ : Nat → Nat} {facesD facesE : Array Nat}
  {fvD vvD : Array Bool} {outD : SeqOut} {fvE vvE : Array Bool} {outE : SeqOut}

theorem right_corr (h : TVIso d e φ ψ) (c : Nat) (hc : c < 3 * d.numFaces) :
    ∃ o, d.rightCorner c = .ok o ∧ (o = inv ∨ o < 3 * d.numFaces) ∧ e.rightCorner (φ c) = .ok (ext φ o) := by
  obtain ⟨o, h1, h2, h3⟩ := h.opposite (Eb.nextC c) (TVIso.nextC_lt hc)
  rw [h.phi_next c hc] at h3
  exact ⟨o, h1, h2, h3⟩

theorem left_corr (h : TVIso d e φ ψ) (c : Nat) (hc : c < 3 * d.numFaces) :
    ∃ o, d.leftCorner c = .ok o ∧ (o = inv ∨ o < 3 * d.numFaces) ∧ e.leftCorner (φ c) = .ok (ext φ o) := by
  obtain ⟨o, h1, h2, h3⟩ := h.opposite (Eb.prevC c) (TVIso.prevC_lt hc h.fits.1)
  rw [h.phi_prev c hc] at h3
  exact ⟨o, h1, h2, h3⟩

theorem faceVisited_corr (h : TVIso d e φ ψ) (hc : TravCore d e φ ψ facesD facesE fvD vvD outD fvE vvE outE)
    (o : Nat) (ho : o = inv ∨ o < 3 * d.numFaces) :
    faceVisited fvE (faceOfCorner (ext φ o)) = faceVisited fvD (faceOfCorner o) := by
  have hf := h.fits
  rcases ho with rfl | ho
  · simp [faceOfCorner, faceVisited]
  · have hne : o ≠ inv := by omega
    have hφ := h.phi_lt o ho
    have hne' : φ o ≠ inv := by omega
    rw [ext_of_ne φ hne]
    have h1 : faceOfCorner o = o / 3 := by simp [faceOfCorner, hne]
    have h2 : faceOfCorner (φ o) = faceMap φ (o / 3) := by simp [faceOfCorner, hne', phi_face h o ho]
    have h3 : o / 3 ≠ inv := by omega
    have h4 : faceMap φ (o / 3) ≠ inv := by have := faceMap_lt h (o / 3) (by omega); omega
    rw [h1, h2]
    unfold faceVisited
    simp only [beq_iff_eq, h3, h4, if_false]
    rw [trav_rdB_eq_match, trav_rdB_eq_match, hc.fv (o / 3) (by omega)]

theorem faceVisited_false {fv : Array Bool} {o : Nat} (h : faceVisited fv (faceOfCorner o) = .ok false) :
    o ≠ inv ∧ fv[o / 3]? = some false := by
  unfold faceVisited faceOfCorner at h
  by_cases ho : o = inv
  · simp [ho, pure, Except.pure] at h
  · simp only [beq_iff_eq, ho, if_false] at h
    split at h
    · simp [pure, Except.pure] at h
    · exact ⟨ho, (trav_rdB_ok_iff _ _ _ _).1 h⟩

end

/-! ### the relations of the three loops -/

/-- states of the loop over the stack (and final states of the inner loop); `n` = number of faces that are
    visited or have their first corner on the stack -/
structure TRelS (d e : TView) (φ ψ : Nat → Nat) (facesD facesE : Array Nat) (n : Nat)
    (fvD vvD : Array Bool) (outD : SeqOut) (stackD : Array Nat)
    (fvE vvE : Array Bool) (outE : SeqOut) (stackE : Array Nat) : Prop where
  core : TravCore d e φ ψ facesD facesE fvD vvD outD fvE vvE outE
  stack : stackE = stackD.map (ext φ)
  stack_lt : ∀ x ∈ stackD, x = inv ∨ x < 3 * d.numFaces
  k : ∀ j, j < n → fvD[j]? = some true ∨ 3 * j ∈ stackD
  hedge : Hedge d → JInv d fvD vvD ∧ ∀ x ∈ stackD, x ≠ inv → NInv d vvD x

/-- states of the inner loop -/
structure TRelIC (d e : TView) (φ ψ : Nat → Nat) (facesD facesE : Array Nat) (n : Nat)
    (fvD vvD : Array Bool) (outD : SeqOut) (stackD : Array Nat) (cD fD : Nat)
    (fvE vvE : Array Bool) (outE : SeqOut) (stackE : Array Nat) (cE fE : Nat) : Prop where
  core : TravCore d e φ ψ facesD facesE fvD vvD outD fvE vvE outE
  stack : stackE = stackD.map (ext φ)
  stack_lt : ∀ x ∈ stackD, x = inv ∨ x < 3 * d.numFaces
  corner : cE = ext φ cD
  corner_lt : cD = inv ∨ cD < 3 * d.numFaces
  faceD : fD = cD / 3
  faceE : fE = cE / 3
  k : ∀ j, j < n → fvD[j]? = some true ∨ 3 * j ∈ stackD.pop ∨ cD = 3 * j
  hedge : Hedge d → JInv d fvD vvD ∧ (∀ x ∈ stackD, x ≠ inv → NInv d vvD x) ∧ (cD ≠ inv → NInv d vvD cD)

def TRelI (d e : TView) (φ ψ : Nat → Nat) (facesD facesE : Array Nat) (n : Nat) (s t : DfStI) : Prop :=
  TRelIC d e φ ψ facesD facesE n s.1 s.2.1 s.2.2.1 s.2.2.2.1 s.2.2.2.2.1 s.2.2.2.2.2.1
    t.1 t.2.1 t.2.2.1 t.2.2.2.1 t.2.2.2.2.1 t.2.2.2.2.2.1 ∧ s.2.2.2.2.2.2 = false ∧ t.2.2.2.2.2.2 = false

def TRelID (d e : TView) (φ ψ : Nat → Nat) (facesD facesE : Array Nat) (n : Nat) (s t : DfStI) : Prop :=
  TRelS d e φ ψ facesD facesE n s.1 s.2.1 s.2.2.1 s.2.2.2.1 t.1 t.2.1 t.2.2.1 t.2.2.2.1

def TRelM (d e : TView) (φ ψ : Nat → Nat) (facesD facesE : Array Nat) (n : Nat) (s t : DfStM) : Prop :=
  TRelS d e φ ψ facesD facesE n s.1 s.2.1 s.2.2.1 s.2.2.2.1 t.1 t.2.1 t.2.2.1 t.2.2.2.1 ∧
    s.2.2.2.2 = false ∧ t.2.2.2.2 = false

def TRelMD (d e : TView) (φ ψ : Nat → Nat) (facesD facesE : Array Nat) (n : Nat) (s t : DfStM) : Prop :=
  TRelS d e φ ψ facesD facesE n s.1 s.2.1 s.2.2.1 s.2.2.2.1 t.1 t.2.1 t.2.2.1 t.2.2.2.1 ∧ s.2.2.2.1.isEmpty = true

theorem trav_mem_of_mem_pop {x : Nat} {a : Array Nat} (h : x ∈ a.pop) : x ∈ a := by
  rw [Array.mem_iff_getElem] at h ⊢
  obtain ⟨i, hi, rfl⟩ := h
  simp only [Array.size_pop] at hi
  exact ⟨i, by omega, by simp⟩

theorem trav_mem_set_of_mem_pop {x l : Nat} {a : Array Nat} (h : x ∈ a.pop) : x ∈ a.setIfInBounds (a.size - 1) l := by
  rw [Array.mem_iff_getElem] at h ⊢
  obtain ⟨i, hi, rfl⟩ := h
  simp only [Array.size_pop] at hi
  refine ⟨i, by simp; omega, ?_⟩
  grind

theorem trav_mem_set_imp {x l : Nat} {a : Array Nat} (h : x ∈ a.setIfInBounds (a.size - 1) l) : x = l ∨ x ∈ a := by
  rw [Array.mem_iff_getElem] at h
  obtain ⟨i, hi, rfl⟩ := h
  simp only [Array.size_setIfInBounds] at hi
  by_cases e : a.size - 1 = i
  · left; grind
  · right
    have : (a.setIfInBounds (a.size - 1) l)[i] = a[i] := by grind
    rw [this]; simp

section
variable {d e : TView} {φ ψ : Nat → Nat} {facesD facesE : Array Nat}
  {fvD vvD : Array Bool} {outD : SeqOut} {fvE vvE : Array Bool} {outE : SeqOut}

/-- the end of an iteration of the inner loop, on corresponding states -/
theorem dfTail_sim (h : TVIso d e φ ψ) (n : Nat)
    (hc : TravCore d e φ ψ facesD facesE fvD vvD outD fvE vvE outE)
    (stackD : Array Nat) (hstk : ∀ x ∈ stackD, x = inv ∨ x < 3 * d.numFaces)
    (c fD fE : Nat) (hlt : c < 3 * d.numFaces)
    (hk : ∀ j, j < n → fvD[j]? = some true ∨ 3 * j ∈ stackD.pop)
    (hh : Hedge d → JInv d fvD vvD ∧ (∀ x ∈ stackD, x ≠ inv → NInv d vvD x) ∧ fvD[c / 3]? = some true)
    (r r' : ForInStep DfStI)
    (hD : dfTail d fvD vvD outD stackD c fD false = .ok r)
    (hE : dfTail e fvE vvE outE (stackD.map (ext φ)) (φ c) fE false = .ok r') :
    (∃ s' t', r = .yield s' ∧ r' = .yield t' ∧ TRelI d e φ ψ facesD facesE n s' t') ∨
    (∃ s' t', r = .done s' ∧ r' = .done t' ∧ TRelID d e φ ψ facesD facesE n s' t') := by
  have hf := h.fits
  obtain ⟨ro, hr1, hr2, hr3⟩ := right_corr h c hlt
  obtain ⟨lo, hl1, hl2, hl3⟩ := left_corr h c hlt
  unfold dfTail at hD hE
  rw [hr1, trav_ok_bind, hl1, trav_ok_bind] at hD
  rw [hr3, trav_ok_bind, hl3, trav_ok_bind, faceVisited_corr h hc _ hr2, faceVisited_corr h hc _ hl2] at hE
  rw [bind_ok_iff] at hD hE
  obtain ⟨b1, hb1, hD⟩ := hD
  obtain ⟨b1', hb1', hE⟩ := hE
  rw [hb1] at hb1'
  cases hb1'
  -- what `Hedge` gives for a corner reached from `c`
  have hNr : Hedge d → ro ≠ inv → NInv d vvD ro := fun hg hne => by
    obtain ⟨hj, _, hm⟩ := hh hg
    obtain ⟨v0, v1, v2⟩ := hj.face hf.1 c hlt hm
    exact NInv.of_opposite hg (Eb.nextC c) ro (TVIso.nextC_lt hlt) hr1 hne (NInv.next hf.1 c hlt v0 ⟨v1, v2⟩)
  have hNl : Hedge d → lo ≠ inv → NInv d vvD lo := fun hg hne => by
    obtain ⟨hj, _, hm⟩ := hh hg
    obtain ⟨v0, v1, v2⟩ := hj.face hf.1 c hlt hm
    exact NInv.of_opposite hg (Eb.prevC c) lo (TVIso.prevC_lt hlt hf.1) hl1 hne (NInv.prev hf.1 c hlt v0 ⟨v1, v2⟩)
  cases b1 with
  | true =>
    simp only [if_true] at hD hE
    rw [bind_ok_iff] at hD hE
    obtain ⟨b2, hb2, hD⟩ := hD
    obtain ⟨b2', hb2', hE⟩ := hE
    rw [hb2] at hb2'
    cases hb2'
    cases b2 with
    | true =>
      simp only [if_true, pure, Except.pure] at hD hE
      cases hD
      cases hE
      refine Or.inr ⟨_, _, rfl, rfl, ?_⟩
      refine { core := hc, stack := by simp, stack_lt := fun x hx => hstk x (trav_mem_of_mem_pop hx), k := ?_, hedge := ?_ }
      · intro j hj
        exact hk j hj
      · intro hg
        obtain ⟨hj, hs, _⟩ := hh hg
        exact ⟨hj, fun x hx => hs x (trav_mem_of_mem_pop hx)⟩
    | false =>
      simp only [Bool.false_eq_true, if_false, pure, Except.pure] at hD hE
      cases hD
      cases hE
      obtain ⟨hne, hnv⟩ := faceVisited_false hb2
      have hlo : lo < 3 * d.numFaces := by rcases hl2 with e | e; exact absurd e hne; exact e
      refine Or.inl ⟨_, _, rfl, rfl, ⟨?_, rfl, rfl⟩⟩
      have hneE : φ lo ≠ inv := h.phi_ne_inv lo hlo
      refine { core := hc, stack := rfl, stack_lt := hstk, corner := rfl, corner_lt := Or.inr hlo,
               faceD := by simp [faceOfCorner, hne], faceE := by simp [faceOfCorner, ext_of_ne φ hne, hneE],
               k := ?_, hedge := ?_ }
      · intro j hj
        rcases hk j hj with e | e
        · exact Or.inl e
        · exact Or.inr (Or.inl e)
      · intro hg
        obtain ⟨hj, hs, _⟩ := hh hg
        exact ⟨hj, hs, fun _ => hNl hg hne⟩
  | false =>
    simp only [Bool.false_eq_true, if_false] at hD hE
    rw [bind_ok_iff] at hD hE
    obtain ⟨b2, hb2, hD⟩ := hD
    obtain ⟨b2', hb2', hE⟩ := hE
    rw [hb2] at hb2'
    cases hb2'
    obtain ⟨hner, hnvr⟩ := faceVisited_false hb1
    have hro : ro < 3 * d.numFaces := by rcases hr2 with e | e; exact absurd e hner; exact e
    cases b2 with
    | true =>
      simp only [if_true, pure, Except.pure] at hD hE
      cases hD
      cases hE
      refine Or.inl ⟨_, _, rfl, rfl, ⟨?_, rfl, rfl⟩⟩
      have hneE : φ ro ≠ inv := h.phi_ne_inv ro hro
      refine { core := hc, stack := rfl, stack_lt := hstk, corner := rfl, corner_lt := Or.inr hro,
               faceD := by simp [faceOfCorner, hner], faceE := by simp [faceOfCorner, ext_of_ne φ hner, hneE],
               k := ?_, hedge := ?_ }
      · intro j hj
        rcases hk j hj with e | e
        · exact Or.inl e
        · exact Or.inr (Or.inl e)
      · intro hg
        obtain ⟨hj, hs, _⟩ := hh hg
        exact ⟨hj, hs, fun _ => hNr hg hner⟩
    | false =>
      simp only [Bool.false_eq_true, if_false, pure, Except.pure] at hD hE
      cases hD
      cases hE
      refine Or.inr ⟨_, _, rfl, rfl, ?_⟩
      refine { core := hc, stack := by simp, stack_lt := ?_, k := ?_, hedge := ?_ }
      · intro x hx
        simp only [Array.set!_eq_setIfInBounds, Array.mem_push] at hx
        rcases hx with hx | rfl
        · rcases trav_mem_set_imp hx with rfl | hx
          · exact hl2
          · exact hstk x hx
        · exact hr2
      · intro j hj
        rcases hk j hj with e | e
        · exact Or.inl e
        · refine Or.inr ?_
          simp only [Array.set!_eq_setIfInBounds, Array.mem_push]
          exact Or.inl (trav_mem_set_of_mem_pop e)
      · intro hg
        obtain ⟨hj, hs, _⟩ := hh hg
        refine ⟨hj, ?_⟩
        intro x hx hxne
        simp only [Array.set!_eq_setIfInBounds, Array.mem_push] at hx
        rcases hx with hx | rfl
        · rcases trav_mem_set_imp hx with rfl | hx
          · exact hNl hg hxne
          · exact hs x hx hxne
        · exact hNr hg hxne

end

theorem trav_get_set_true {a : Array Bool} {j : Nat} (h : a[j]? = some true) (w : Nat) :
    (a.setIfInBounds w true)[j]? = some true := by
  rw [Array.getElem?_setIfInBounds]
  split
  · rename_i e; subst e
    have hlt : w < a.size := by
      by_contra hh
      rw [Array.getElem?_eq_none (by omega)] at h
      cases h
    simp [hlt]
  · exact h

theorem trav_get_set_self_true {a : Array Bool} {w : Nat} (h : w < a.size) :
    (a.setIfInBounds w true)[w]? = some true := by
  simp [h]

theorem NInv_right {d : TView} {fv vv : Array Bool} (hg : Hedge d) (hf : 3 * d.numFaces ≤ inv) (hj : JInv d fv vv)
    (c : Nat) (hlt : c < 3 * d.numFaces) (hm : fv[c / 3]? = some true) (ro : Nat) (hr1 : d.rightCorner c = .ok ro)
    (hne : ro ≠ inv) : NInv d vv ro := by
  obtain ⟨v0, v1, v2⟩ := hj.face hf c hlt hm
  exact NInv.of_opposite hg (Eb.nextC c) ro (TVIso.nextC_lt hlt) hr1 hne (NInv.next hf c hlt v0 ⟨v1, v2⟩)

section
variable {d e : TView} {φ ψ : Nat → Nat} {facesD facesE : Array Nat}

/-- an iteration of the inner loop, on corresponding states -/
theorem dfInner_sim (h : TVIso d e φ ψ) (n : Nat) (s t : DfStI) (r r' : ForInStep DfStI)
    (hr : TRelI d e φ ψ facesD facesE n s t)
    (hD : dfInner d facesD s = .ok r) (hE : dfInner e facesE t = .ok r') :
    (∃ s' t', r = .yield s' ∧ r' = .yield t' ∧ TRelI d e φ ψ facesD facesE n s' t') ∨
    (∃ s' t', r = .done s' ∧ r' = .done t' ∧ TRelID d e φ ψ facesD facesE n s' t') := by
  have hf := h.fits
  obtain ⟨fvD, vvD, outD, stackD, c, fD, b2D⟩ := s
  obtain ⟨fvE, vvE, outE, stackE, cE, fE, b2E⟩ := t
  obtain ⟨hi, f1, f2⟩ := hr
  simp only at hi f1 f2
  subst f1 f2
  obtain ⟨hc, hstack, hstk, hcorner, hclt, hfD, hfE, hk, hh⟩ := hi
  subst hstack hcorner hfD hfE
  unfold dfInner dfInnerC at hD hE
  simp only at hD hE
  -- MarkFaceVisited
  rw [bind_ok_iff] at hD hE
  obtain ⟨fvD', hm, hD⟩ := hD
  obtain ⟨fvE', hmE, hE⟩ := hE
  rw [trav_wrB_ok_iff] at hm hmE
  obtain ⟨hm1, rfl⟩ := hm
  obtain ⟨hmE1, rfl⟩ := hmE
  have hlt : c < 3 * d.numFaces := by have := hc.fvD_size; omega
  have hcne : c ≠ inv := by omega
  rw [ext_of_ne φ hcne] at hE hmE1
  have hc1 := hc.mark h c hlt
  have hmark : (fvD.setIfInBounds (c / 3) true)[c / 3]? = some true := trav_get_set_self_true hm1
  have hk1 : ∀ j, j < n → (fvD.setIfInBounds (c / 3) true)[j]? = some true ∨ 3 * j ∈ stackD.pop := by
    intro j hj
    rcases hk j hj with e1 | e1 | e1
    · exact Or.inl (trav_get_set_true e1 _)
    · exact Or.inr e1
    · left
      have : c / 3 = j := by omega
      rw [← this]; exact hmark
  -- Vertex
  obtain ⟨v, hv1, hv2, hv3, hv4⟩ := h.vertex c hlt
  rw [hv1, trav_ok_bind] at hD
  rw [hv3, trav_ok_bind] at hE
  split at hD
  · exact absurd hD (trav_throw_ne_ok _ _)
  split at hE
  · exact absurd hE (trav_throw_ne_ok _ _)
  rw [bind_ok_iff] at hD hE
  obtain ⟨b, hb, hD⟩ := hD
  obtain ⟨b', hb', hE⟩ := hE
  rw [trav_rdB_ok_iff] at hb hb'
  rw [hc.vv c v hlt hv1, hb] at hb'
  cases hb'
  cases b with
  | true =>
    simp only [Bool.not_true, Bool.false_eq_true, if_false] at hD hE
    refine dfTail_sim h n hc1 stackD hstk c _ _ hlt hk1 ?_ r r' hD hE
    intro hg
    obtain ⟨hj, hs, hn⟩ := hh hg
    refine ⟨hj.mark c (by omega) ?_ (hn hcne), hs, hmark⟩
    intro v' hv'
    rw [hv1] at hv'; cases hv'
    exact hb
  | false =>
    simp only [Bool.not_false, if_true] at hD hE
    obtain ⟨bb, hbd1, hbd2⟩ := h.boundary c v hlt hv1
    rw [hbd1, trav_ok_bind] at hD
    rw [hbd2, trav_ok_bind] at hE
    rw [bind_ok_iff] at hD hE
    obtain ⟨vvD', hw, hD⟩ := hD
    obtain ⟨vvE', hwE, hE⟩ := hE
    rw [trav_wrB_ok_iff] at hw hwE
    obtain ⟨hw1, rfl⟩ := hw
    obtain ⟨hwE1, rfl⟩ := hwE
    rw [bind_ok_iff] at hD hE
    obtain ⟨outD', hoD, hD⟩ := hD
    obtain ⟨outE', hoE, hE⟩ := hE
    have hc2 := hc1.visit h c v hlt hv1 hb outD' outE' hoD hoE
    have hseen : VSeen d (vvD.setIfInBounds v true) c := by
      intro v' hv'
      rw [hv1] at hv'; cases hv'
      exact trav_get_set_self_true hw1
    have hh2 : Hedge d → JInv d (fvD.setIfInBounds (c / 3) true) (vvD.setIfInBounds v true) ∧
        (∀ x ∈ stackD, x ≠ inv → NInv d (vvD.setIfInBounds v true) x) ∧
        (fvD.setIfInBounds (c / 3) true)[c / 3]? = some true := by
      intro hg
      obtain ⟨hj, hs, hn⟩ := hh hg
      exact ⟨(hj.set v).mark c (by omega) hseen ((hn hcne).set v), fun x hx hxne => (hs x hx hxne).set v, hmark⟩
    cases bb with
    | true =>
      simp only [Bool.not_true, Bool.false_eq_true, if_false] at hD hE
      exact dfTail_sim h n hc2 stackD hstk c _ _ hlt hk1 hh2 r r' hD hE
    | false =>
      simp only [Bool.not_false, if_true] at hD hE
      obtain ⟨ro, hr1, hr2, hr3⟩ := right_corr h c hlt
      rw [hr1, trav_ok_bind] at hD
      rw [hr3, trav_ok_bind] at hE
      simp only [pure, Except.pure] at hD hE
      cases hD
      cases hE
      refine Or.inl ⟨_, _, rfl, rfl, ⟨?_, rfl, rfl⟩⟩
      refine { core := hc2, stack := rfl, stack_lt := hstk, corner := rfl, corner_lt := hr2, faceD := rfl, faceE := rfl,
               k := ?_, hedge := ?_ }
      · intro j hj
        rcases hk1 j hj with e1 | e1
        · exact Or.inl e1
        · exact Or.inr (Or.inl e1)
      · intro hg
        obtain ⟨hj, hs, hm⟩ := hh2 hg
        exact ⟨hj, hs, fun hne => NInv_right hg hf.1 hj c hlt hm ro hr1 hne⟩

end

theorem trav_back_map {f : Nat → Nat} {a : Array Nat} (h : 0 < a.size) : (a.map f).back! = f a.back! := by
  simp [Array.back!, h]
theorem trav_back_eq {a : Array Nat} (h : 0 < a.size) : a.back! = a[a.size - 1] := by
  simp [Array.back!, getElem!_pos a (a.size - 1) (by omega)]
theorem trav_back_mem {a : Array Nat} (h : 0 < a.size) : a.back! ∈ a := by
  rw [trav_back_eq h]; simp
theorem trav_mem_pop_or_eq_back {x : Nat} {a : Array Nat} (h : x ∈ a) : x ∈ a.pop ∨ x = a.back! := by
  rw [Array.mem_iff_getElem] at h
  obtain ⟨i, hi, rfl⟩ := h
  by_cases e : i = a.size - 1
  · right; subst e; rw [trav_back_eq (by omega)]
  · left
    rw [Array.mem_iff_getElem]
    exact ⟨i, by simp; omega, by simp⟩

theorem faceVisited_div (fv : Array Bool) (x : Nat) (hx : x ≠ inv) :
    faceVisited fv (x / 3) = faceVisited fv (faceOfCorner x) := by
  simp [faceOfCorner, hx]

section
variable {d e : TView} {φ ψ : Nat → Nat} {facesD facesE : Array Nat}

theorem TRelS.pop {n : Nat} {fvD vvD : Array Bool} {outD : SeqOut} {stackD : Array Nat}
    {fvE vvE : Array Bool} {outE : SeqOut} {stackE : Array Nat}
    (hr : TRelS d e φ ψ facesD facesE n fvD vvD outD stackD fvE vvE outE stackE)
    (hk : ∀ j, j < n → 3 * j = stackD.back! → fvD[j]? = some true) :
    TRelS d e φ ψ facesD facesE n fvD vvD outD stackD.pop fvE vvE outE stackE.pop := by
  refine { core := hr.core, stack := by rw [hr.stack]; simp, stack_lt := fun x hx => hr.stack_lt x (trav_mem_of_mem_pop hx),
           k := ?_, hedge := ?_ }
  · intro j hj
    rcases hr.k j hj with e1 | e1
    · exact Or.inl e1
    · rcases trav_mem_pop_or_eq_back e1 with e2 | e2
      · exact Or.inr e2
      · exact Or.inl (hk j hj e2)
  · intro hg
    obtain ⟨hj, hs⟩ := hr.hedge hg
    exact ⟨hj, fun x hx => hs x (trav_mem_of_mem_pop hx)⟩

/-- an iteration of the loop over the stack, on corresponding states -/
theorem dfMid_sim (h : TVIso d e φ ψ) (n fuelD fuelE : Nat) (hn : n ≤ d.numFaces) (s t : DfStM) (r r' : ForInStep DfStM)
    (hr : TRelM d e φ ψ facesD facesE n s t)
    (hD : dfMid d facesD fuelD s = .ok r) (hE : dfMid e facesE fuelE t = .ok r') :
    (∃ s' t', r = .yield s' ∧ r' = .yield t' ∧ TRelM d e φ ψ facesD facesE n s' t') ∨
    (∃ s' t', r = .done s' ∧ r' = .done t' ∧ TRelMD d e φ ψ facesD facesE n s' t') := by
  have hf := h.fits
  obtain ⟨fvD, vvD, outD, stackD, finD⟩ := s
  obtain ⟨fvE, vvE, outE, stackE, finE⟩ := t
  obtain ⟨hs, f1, f2⟩ := hr
  simp only at hs f1 f2
  subst f1 f2
  have hstack := hs.stack
  subst hstack
  unfold dfMid dfMidC at hD hE
  simp only at hD hE
  have hemp : (Array.map (ext φ) stackD).isEmpty = stackD.isEmpty := by simp [Array.isEmpty]
  rw [hemp] at hE
  by_cases hem : stackD.isEmpty = true
  · rw [if_pos hem] at hD hE
    simp only [pure, Except.pure] at hD hE
    cases hD
    cases hE
    exact Or.inr ⟨_, _, rfl, rfl, hs, hem⟩
  rw [if_neg hem] at hD hE
  have hsz : 0 < stackD.size := by
    rcases Nat.eq_zero_or_pos stackD.size with e0 | e0
    · exact absurd (by simp [Array.isEmpty, e0]) hem
    · exact e0
  rw [trav_back_map hsz] at hE
  have hbm := trav_back_mem hsz
  rcases hs.stack_lt _ hbm with hx | hx
  · -- the invalid corner on the stack
    rw [hx] at hD hE
    simp only [ext_inv, beq_self_eq_true, if_true, pure, Except.pure] at hD hE
    cases hD
    cases hE
    refine Or.inl ⟨_, _, rfl, rfl, ⟨?_, rfl, rfl⟩⟩
    refine TRelS.pop hs ?_
    intro j hj e1
    have e2 : 3 * j = stackD.back! := e1
    omega
  · have hxne : stackD.back! ≠ inv := by omega
    have hxneE : ext φ stackD.back! ≠ inv := by rw [ext_of_ne φ hxne]; exact h.phi_ne_inv _ hx
    simp only [beq_iff_eq, hxne, hxneE, if_false] at hD hE
    rw [faceVisited_div _ _ hxne] at hD
    rw [faceVisited_div _ _ hxneE, faceVisited_corr h hs.core _ (Or.inr hx)] at hE
    rw [bind_ok_iff] at hD hE
    obtain ⟨b, hb, hD⟩ := hD
    obtain ⟨b', hb', hE⟩ := hE
    rw [hb] at hb'
    cases hb'
    cases b with
    | true =>
      simp only [if_true, pure, Except.pure] at hD hE
      cases hD
      cases hE
      refine Or.inl ⟨_, _, rfl, rfl, ⟨?_, rfl, rfl⟩⟩
      refine TRelS.pop hs ?_
      intro j hj e1
      rw [← e1] at hb
      have : faceOfCorner (3 * j) = j := by
        simp only [faceOfCorner, beq_iff_eq]
        rw [if_neg (by omega)]
        omega
      rw [this] at hb
      unfold faceVisited at hb
      rw [if_neg (by simp; omega)] at hb
      exact (trav_rdB_ok_iff _ _ _ _).1 hb
    | false =>
      simp only [Bool.false_eq_true, if_false] at hD hE
      rw [bind_ok_iff] at hD hE
      obtain ⟨sD, hlD, hD⟩ := hD
      obtain ⟨sE, hlE, hE⟩ := hE
      split at hD
      · exact absurd hD (trav_throw_ne_ok _ _)
      split at hE
      · exact absurd hE (trav_throw_ne_ok _ _)
      rename_i hfD hfE
      simp only [pure, Except.pure] at hD hE
      cases hD
      cases hE
      simp only [Std.Legacy.Range.forIn_eq_forIn_range'] at hlD hlE
      have hres := forIn_sim_break (dfInner d facesD) (dfInner e facesE) (TRelI d e φ ψ facesD facesE n)
        (TRelID d e φ ψ facesD facesE n) (fun s => s.2.2.2.2.2.2 = true) (fun t => t.2.2.2.2.2.2 = true)
        (fun s t hrel => by simp [hrel.2.1, hrel.2.2])
        (fun s t r r' hrel h1 h2 => dfInner_sim h n s t r r' hrel h1 h2)
        _ _ _ _ sD sE ?_ hlD hlE (by simpa using hfD) (by simpa using hfE)
      · exact Or.inl ⟨_, _, rfl, rfl, ⟨hres, rfl, rfl⟩⟩
      · refine ⟨?_, rfl, rfl⟩
        refine { core := hs.core, stack := rfl, stack_lt := hs.stack_lt, corner := rfl,
                 corner_lt := Or.inr hx, faceD := rfl, faceE := rfl, k := ?_, hedge := ?_ }
        · intro j hj
          rcases hs.k j hj with e1 | e1
          · exact Or.inl e1
          · rcases trav_mem_pop_or_eq_back e1 with e2 | e2
            · exact Or.inr (Or.inl e2)
            · exact Or.inr (Or.inr e2.symm)
        · intro hg
          obtain ⟨hj, hsn⟩ := hs.hedge hg
          exact ⟨hj, hsn, fun hne => hsn _ hbm hne⟩

end

/-! ### `TraverseFromCorner` and the loop over the start corners -/

theorem visitK_ok {β : Type} {faces : Array Nat} {vv : Array Bool} {out : SeqOut} {v corner : Nat}
    {k : Array Bool → SeqOut → R β} {r : β} (h : visitK faces vv out v corner k = .ok r) :
    (vv[v]? = some true ∧ k vv out = .ok r) ∨
    (vv[v]? = some false ∧ ∃ out', onNewVertex faces out v corner = .ok out' ∧ k (vv.setIfInBounds v true) out' = .ok r) := by
  unfold visitK at h
  rw [bind_ok_iff] at h
  obtain ⟨b, hb, h⟩ := h
  rw [trav_rdB_ok_iff] at hb
  cases b with
  | true =>
    simp only [Bool.not_true, Bool.false_eq_true, if_false] at h
    exact Or.inl ⟨hb, h⟩
  | false =>
    simp only [Bool.not_false, if_true] at h
    rw [bind_ok_iff] at h
    obtain ⟨vv', hw, h⟩ := h
    rw [trav_wrB_ok_iff] at hw
    obtain ⟨_, rfl⟩ := hw
    rw [bind_ok_iff] at h
    obtain ⟨out', ho, h⟩ := h
    exact Or.inr ⟨hb, out', ho, h⟩

/-- the relation between the states of the loops over the start corners after `i` iterations -/
def TRelO (d e : TView) (φ ψ : Nat → Nat) (facesD facesE : Array Nat) (i : Nat) (s t : DfSt4) : Prop :=
  TravCore d e φ ψ facesD facesE s.1 s.2.1 s.2.2.1 t.1 t.2.1 t.2.2.1 ∧ (∀ j, j < i → s.1[j]? = some true) ∧
    (Hedge d → JInv d s.1 s.2.1)

section
variable {d e : TView} {φ ψ : Nat → Nat} {facesD facesE : Array Nat}
  {fvD vvD : Array Bool} {outD : SeqOut} {fvE vvE : Array Bool} {outE : SeqOut}

theorem visitK_sim {β γ : Type} (h : TVIso d e φ ψ) (hc : TravCore d e φ ψ facesD facesE fvD vvD outD fvE vvE outE)
    (c v : Nat) (hlt : c < 3 * d.numFaces) (hv : d.vertex c = .ok v)
    (kD : Array Bool → SeqOut → R β) (kE : Array Bool → SeqOut → R γ) (r : β) (r' : γ)
    (hD : visitK facesD vvD outD v c kD = .ok r) (hE : visitK facesE vvE outE (ψ v) (φ c) kE = .ok r') :
    ∃ vvD' outD' vvE' outE', TravCore d e φ ψ facesD facesE fvD vvD' outD' fvE vvE' outE' ∧
      kD vvD' outD' = .ok r ∧ kE vvE' outE' = .ok r' ∧ vvD'[v]? = some true ∧
      (vvD' = vvD ∨ vvD' = vvD.setIfInBounds v true) := by
  have hvv := hc.vv c v hlt hv
  rcases visitK_ok hD with ⟨hb, hkD⟩ | ⟨hb, outD', hoD, hkD⟩
  · rcases visitK_ok hE with ⟨hb', hkE⟩ | ⟨hb', _⟩
    · exact ⟨vvD, outD, vvE, outE, hc, hkD, hkE, hb, Or.inl rfl⟩
    · rw [hvv, hb] at hb'; cases hb'
  · rcases visitK_ok hE with ⟨hb', _⟩ | ⟨hb', outE', hoE, hkE⟩
    · rw [hvv, hb] at hb'; cases hb'
    · have hlt' : v < vvD.size := by
        by_contra hh
        rw [Array.getElem?_eq_none (by omega)] at hb
        cases hb
      exact ⟨_, outD', _, outE', hc.visit h c v hlt hv hb outD' outE' hoD hoE, hkD, hkE,
        trav_get_set_self_true hlt', Or.inr rfl⟩

theorem JInv.of_or {fv vv vv' : Array Bool} {v : Nat} (hj : JInv d fv vv)
    (h : vv' = vv ∨ vv' = vv.setIfInBounds v true) : JInv d fv vv' := by
  rcases h with rfl | rfl
  · exact hj
  · exact hj.set v

theorem VSeen.of_or {vv vv' : Array Bool} {v c : Nat} (hj : VSeen d vv c)
    (h : vv' = vv ∨ vv' = vv.setIfInBounds v true) : VSeen d vv' c := by
  rcases h with rfl | rfl
  · exact hj
  · exact hj.set v

/-- `TraverseFromCorner` from corresponding corners, on corresponding states -/
theorem dfFrom_sim (h : TVIso d e φ ψ) (fuelD fuelE i : Nat) (hi : i < d.numFaces)
    (hc : TravCore d e φ ψ facesD facesE fvD vvD outD fvE vvE outE)
    (hprev : ∀ j, j < i → fvD[j]? = some true) (hj : Hedge d → JInv d fvD vvD)
    (r r' : ForInStep DfSt4)
    (hD : dfFrom d facesD fuelD (3 * i) fvD vvD outD = .ok r)
    (hE : dfFrom e facesE fuelE (φ (3 * i)) fvE vvE outE = .ok r') :
    ∃ s' t', r = .yield s' ∧ r' = .yield t' ∧ TRelO d e φ ψ facesD facesE (i + 1) s' t' := by
  have hf := h.fits
  have hlt : 3 * i < 3 * d.numFaces := by omega
  have hne : 3 * i ≠ inv := by omega
  unfold dfFrom at hD hE
  simp only at hD hE
  obtain ⟨nv, hn1, _, hn3, _⟩ := h.vertex (Eb.nextC (3 * i)) (TVIso.nextC_lt hlt)
  obtain ⟨pv, hp1, _, hp3, _⟩ := h.vertex (Eb.prevC (3 * i)) (TVIso.prevC_lt hlt hf.1)
  rw [h.phi_next _ hlt] at hn3
  rw [h.phi_prev _ hlt] at hp3
  rw [hn1, trav_ok_bind, hp1, trav_ok_bind] at hD
  rw [hn3, trav_ok_bind, hp3, trav_ok_bind] at hE
  split at hD
  · exact absurd hD (trav_throw_ne_ok _ _)
  split at hE
  · exact absurd hE (trav_throw_ne_ok _ _)
  rw [← h.phi_next _ hlt] at hE
  obtain ⟨vv1, out1, vvE1, outE1, hc1, hD, hE, hs1, hor1⟩ :=
    visitK_sim h hc _ nv (TVIso.nextC_lt hlt) hn1 _ _ r r' hD hE
  rw [← h.phi_prev _ hlt] at hE
  obtain ⟨vv2, out2, vvE2, outE2, hc2, hD, hE, hs2, hor2⟩ :=
    visitK_sim h hc1 _ pv (TVIso.prevC_lt hlt hf.1) hp1 _ _ r r' hD hE
  rw [bind_ok_iff] at hD hE
  obtain ⟨sD, hlD, hD⟩ := hD
  obtain ⟨sE, hlE, hE⟩ := hE
  split at hD
  · exact absurd hD (trav_throw_ne_ok _ _)
  split at hE
  · exact absurd hE (trav_throw_ne_ok _ _)
  rename_i hfD hfE
  simp only [pure, Except.pure] at hD hE
  cases hD
  cases hE
  simp only [Std.Legacy.Range.forIn_eq_forIn_range'] at hlD hlE
  have hres := forIn_sim_break (dfMid d facesD fuelD) (dfMid e facesE fuelE) (TRelM d e φ ψ facesD facesE (i + 1))
    (TRelMD d e φ ψ facesD facesE (i + 1)) (fun s => s.2.2.2.2 = true) (fun t => t.2.2.2.2 = true)
    (fun s t hrel => by simp [hrel.2.1, hrel.2.2])
    (fun s t r r' hrel h1 h2 => dfMid_sim h (i + 1) fuelD fuelE (by omega) s t r r' hrel h1 h2)
    _ _ _ _ sD sE ?_ hlD hlE (by simpa using hfD) (by simpa using hfE)
  · obtain ⟨hs, hem⟩ := hres
    refine ⟨_, _, rfl, rfl, hs.core, ?_, fun hg => (hs.hedge hg).1⟩
    intro j hj'
    rcases hs.k j hj' with e1 | e1
    · exact e1
    · have : sD.2.2.2.1 = #[] := by simpa [Array.isEmpty] using hem
      rw [this] at e1
      simp at e1
  · refine ⟨?_, rfl, rfl⟩
    refine { core := hc2, stack := by simp [ext_of_ne φ hne], stack_lt := ?_, k := ?_, hedge := ?_ }
    · intro x hx
      simp only [List.mem_toArray, List.mem_singleton] at hx
      subst hx
      exact Or.inr hlt
    · intro j hj'
      by_cases e1 : j < i
      · exact Or.inl (hprev j e1)
      · have : j = i := by omega
        subst this
        exact Or.inr (by simp)
    · intro hg
      refine ⟨((hj hg).of_or hor1).of_or hor2, ?_⟩
      intro x hx _
      simp only [List.mem_toArray, List.mem_singleton] at hx
      subst hx
      refine ⟨?_, ?_⟩
      · have : VSeen d vv1 (Eb.nextC (3 * i)) := by
          intro v' hv'
          rw [hn1] at hv'; cases hv'
          exact hs1
        exact this.of_or hor2
      · intro v' hv'
        rw [hp1] at hv'; cases hv'
        exact hs2

end

section
variable {d e : TView} {φ ψ : Nat → Nat} {facesD facesE : Array Nat}

theorem TravCore.init (h : TVIso d e φ ψ) (v2dD v2dE : Array Nat) :
    TravCore d e φ ψ facesD facesE (dfInit d v2dD).1 (dfInit d v2dD).2.1 (dfInit d v2dD).2.2.1
      (dfInit e v2dE).1 (dfInit e v2dE).2.1 (dfInit e v2dE).2.2.1 := by
  refine { fvD_size := by simp [dfInit], fvE_size := by simp [dfInit], fv := ?_, vvD_size := by simp [dfInit],
           vvE_size := by simp [dfInit], vv := ?_, d2c_size := by simp [dfInit], d2c := ?_, seen := ?_, vis := ?_,
           pidD := ?_, pidE := ?_ }
  · intro i hi
    have := faceMap_lt h i hi
    simp [dfInit, hi, this]
  · intro c v hc hv
    obtain ⟨v0, h1, h2, _, h4⟩ := h.vertex c hc
    rw [hv] at h1; cases h1
    simp [dfInit, h2, h4]
  · intro p hp
    simp [dfInit] at hp
  · intro p hp
    simp [dfInit] at hp
  · intro w hw
    simp [dfInit, Array.getElem?_replicate] at hw
  · simp [dfInit]
  · simp [dfInit]

/-- the final states of the two traversals correspond; every face of the decoder's table is visited -/
theorem depthFirst_sim (h : TVIso d e φ ψ) (order v2dInit : Array Nat) (v2dSize : Nat)
    (hsize : order.size = d.numFaces) (horder : ∀ i, i < d.numFaces → order[i]! = φ (3 * i))
    (outD outE : SeqOut)
    (hD : depthFirst d facesD v2dSize = .ok outD) (hE : depthFirstOrder e facesE order v2dInit = .ok outE) :
    ∃ fvD vvD fvE vvE, TravCore d e φ ψ facesD facesE fvD vvD outD fvE vvE outE ∧
      (∀ j, j < d.numFaces → fvD[j]? = some true) ∧ (Hedge d → JInv d fvD vvD) := by
  have hf := h.fits
  rw [depthFirst_eq, bind_ok_iff] at hD
  rw [depthFirstOrder_eq, bind_ok_iff] at hE
  obtain ⟨sD, hlD, hD⟩ := hD
  obtain ⟨sE, hlE, hE⟩ := hE
  simp only [pure, Except.pure] at hD hE
  cases hD
  cases hE
  simp only [Std.Legacy.Range.forIn_eq_forIn_range'] at hlD
  rw [← Array.forIn_toList] at hlE
  have hlen : (List.range' 0 [0:d.numFaces].size 1).length = order.toList.length := by
    simp [Std.Legacy.Range.size, hsize]
  have hres := forIn_sim_yield _ _ (TRelO d e φ ψ facesD facesE) _ _ 0 hlen ?_ _ _ sD sE ?_ hlD hlE
  · obtain ⟨hc, hk, hj⟩ := hres
    refine ⟨_, _, _, _, hc, ?_, hj⟩
    intro j hj'
    exact hk j (by simpa [Std.Legacy.Range.size] using hj')
  · intro i h1 h2 s t r r' hrel hfD hfE
    have hi : i < d.numFaces := by simpa [Std.Legacy.Range.size] using h1
    have e1 : (List.range' 0 [0:d.numFaces].size 1)[i] = i := by simp
    have e2 : order.toList[i] = φ (3 * i) := by
      rw [← horder i hi]
      have : i < order.size := by omega
      simp [this]
    rw [e1] at hfD
    rw [e2] at hfE
    obtain ⟨fvD, vvD, outD, stackD⟩ := s
    obtain ⟨fvE, vvE, outE, stackE⟩ := t
    obtain ⟨hc, hk, hj⟩ := hrel
    simp only [Nat.zero_add] at hk ⊢
    simp only at hc hk hj hfD hfE
    have hlt : 3 * i < 3 * d.numFaces := by omega
    have hne : 3 * i ≠ inv := by omega
    have hfv := faceVisited_corr h hc (3 * i) (Or.inr hlt)
    rw [ext_of_ne φ hne] at hfv
    have hfo : faceOfCorner (3 * i) = i := by
      simp only [faceOfCorner, beq_iff_eq]
      rw [if_neg hne]
      omega
    rw [hfv, hfo] at hfE
    have hfvD : faceVisited fvD i = rdB "is_face_visited_" fvD i := by
      unfold faceVisited
      rw [if_neg (by simp; omega)]
    rw [hfvD] at hfE
    rw [bind_ok_iff] at hfD hfE
    obtain ⟨b, hb, hfD⟩ := hfD
    obtain ⟨b', hb', hfE⟩ := hfE
    rw [hb] at hb'
    cases hb'
    cases b with
    | true =>
      simp only [if_true, pure, Except.pure] at hfD hfE
      cases hfD
      cases hfE
      refine ⟨_, _, rfl, rfl, hc, ?_, hj⟩
      intro j hj'
      by_cases e3 : j < i
      · exact hk j e3
      · have : j = i := by omega
        subst this
        exact (trav_rdB_ok_iff _ _ _ _).1 hb
    | false =>
      simp only [Bool.false_eq_true, if_false] at hfD hfE
      exact dfFrom_sim h _ _ i hi hc hk hj r r' hfD hfE
  · exact ⟨TravCore.init h _ _, fun j hj => by omega, fun _ c _ hm => by
      simp [dfInit, Array.getElem?_replicate] at hm⟩

/-- **Equivariance of the depth-first traversal.**  (a) the two runs visit corresponding corners in the same
    order; (b) the vertex → entry maps agree on the visited vertices; (c) the point ids of the entries. -/
theorem traversal_equivariant (h : TVIso d e φ ψ) (order v2dInit : Array Nat) (v2dSize : Nat)
    (hsize : order.size = d.numFaces) (horder : ∀ i, i < d.numFaces → order[i]! = φ (3 * i))
    (outD outE : SeqOut)
    (hD : depthFirst d facesD v2dSize = .ok outD) (hE : depthFirstOrder e facesE order v2dInit = .ok outE) :
    (outE.d2c.size = outD.d2c.size ∧
      ∀ p (hp : p < outD.d2c.size), outD.d2c[p] < 3 * d.numFaces ∧ outE.d2c[p]! = φ outD.d2c[p]) ∧
    (∀ p (hp : p < outD.d2c.size) v, d.vertex outD.d2c[p] = .ok v →
      outD.v2d[v]? = some p ∧ outE.v2d[ψ v]? = some p) ∧
    (outD.pointIds.size = outD.d2c.size ∧ outE.pointIds.size = outE.d2c.size ∧
      (∀ p (hp : p < outD.d2c.size), outD.pointIds[p]? = facesD[outD.d2c[p]]?) ∧
      (∀ p (hp : p < outE.d2c.size), outE.pointIds[p]? = facesE[outE.d2c[p]]?)) := by
  obtain ⟨fvD, vvD, fvE, vvE, hc, _, _⟩ := depthFirst_sim h order v2dInit v2dSize hsize horder outD outE hD hE
  exact ⟨⟨hc.d2c_size, hc.d2c⟩, fun p hp v hv => (hc.seen p hp v hv).2, hc.pidD.1, hc.pidE.1, hc.pidD.2, hc.pidE.2⟩

/-- (b) for EVERY vertex of a corner, given that the corners opposite to an edge have the vertices of the edge
    (`Hedge d`): then every vertex of a corner is visited, because the decoder starts a traversal from every
    face -/
theorem traversal_equivariant_v2d (h : TVIso d e φ ψ) (hg : Hedge d) (order v2dInit : Array Nat) (v2dSize : Nat)
    (hsize : order.size = d.numFaces) (horder : ∀ i, i < d.numFaces → order[i]! = φ (3 * i))
    (outD outE : SeqOut)
    (hD : depthFirst d facesD v2dSize = .ok outD) (hE : depthFirstOrder e facesE order v2dInit = .ok outE)
    (c v : Nat) (hc : c < 3 * d.numFaces) (hv : d.vertex c = .ok v) :
    ∃ x, (∀ site, rd site outD.v2d v = .ok x) ∧ (∀ site, rd site outE.v2d (ψ v) = .ok x) := by
  obtain ⟨fvD, vvD, fvE, vvE, hco, hall, hj⟩ := depthFirst_sim h order v2dInit v2dSize hsize horder outD outE hD hE
  have hseen := hj hg c hc (hall (c / 3) (by omega)) v hv
  obtain ⟨p, hp, hpv⟩ := hco.vis v hseen
  obtain ⟨_, s2, s3⟩ := hco.seen p hp v hpv
  exact ⟨p, fun site => (trav_rd_ok_iff _ _ _ _).2 s2, fun site => (trav_rd_ok_iff _ _ _ _).2 s3⟩

/-- the mesh data of the two sides are isomorphic -/
theorem traversal_mdIso (h : TVIso d e φ ψ) (hg : Hedge d) (order v2dInit : Array Nat) (v2dSize : Nat)
    (hsize : order.size = d.numFaces) (horder : ∀ i, i < d.numFaces → order[i]! = φ (3 * i))
    (outD outE : SeqOut)
    (hD : depthFirst d facesD v2dSize = .ok outD) (hE : depthFirstOrder e facesE order v2dInit = .ok outE) :
    MDIso ⟨d, outD.d2c, outD.v2d⟩ ⟨e, outE.d2c, outE.v2d⟩ φ ψ := by
  obtain ⟨⟨a1, a2⟩, _, _⟩ := traversal_equivariant h order v2dInit v2dSize hsize horder outD outE hD hE
  exact { view := h, d2c_size := a1, d2c := a2,
          v2d := fun c v hc hv =>
            traversal_equivariant_v2d h hg order v2dInit v2dSize hsize horder outD outE hD hE c v hc hv }

end

/-- `Hedge` of the decoder's view from the same property of the encoder's view at the corners in the image -/
theorem Hedge.of_iso {d e : TView} {φ ψ : Nat → Nat} (h : TVIso d e φ ψ)
    (he : ∀ c, c < 3 * d.numFaces → ∀ o, e.opposite (φ c) = .ok o → o ≠ inv →
      e.vertex (Eb.nextC o) = e.vertex (Eb.prevC (φ c)) ∧ e.vertex (Eb.prevC o) = e.vertex (Eb.nextC (φ c))) :
    Hedge d := by
  intro c hc o ho hne
  have hf := h.fits
  obtain ⟨o', h1, h2, h3⟩ := h.opposite c hc
  rw [ho] at h1; cases h1
  have hlt : o < 3 * d.numFaces := by rcases h2 with e1 | e1; exact absurd e1 hne; exact e1
  rw [ext_of_ne φ hne] at h3
  obtain ⟨e1, e2⟩ := he c hc (φ o) h3 (h.phi_ne_inv o hlt)
  rw [← h.phi_next o hlt, ← h.phi_prev c hc] at e1
  rw [← h.phi_prev o hlt, ← h.phi_next c hc] at e2
  have key : ∀ a b, a < 3 * d.numFaces → b < 3 * d.numFaces → e.vertex (φ a) = e.vertex (φ b) →
      d.vertex a = d.vertex b := by
    intro a b ha hb hab
    obtain ⟨va, a1, _, a3, _⟩ := h.vertex a ha
    obtain ⟨vb, b1, _, b3, _⟩ := h.vertex b hb
    rw [a3, b3] at hab
    have hab' : ψ va = ψ vb := by injection hab
    rw [a1, b1, h.psi_inj a b va vb ha hb a1 b1 hab']
  exact ⟨key _ _ (TVIso.nextC_lt hlt) (TVIso.prevC_lt hc hf.1) e1,
    key _ _ (TVIso.prevC_lt hlt hf.1) (TVIso.nextC_lt hc) e2⟩

/-! ## the prediction degree traversal

  `Draco.Eb.maxPredictionDegree` and `Draco.EbEnc.maxPredictionDegreeOrder` as loops over named bodies. -/

abbrev StP8 := Array Bool × Array Bool × SeqOut × Array Nat × Array Nat × Array Nat × Array Nat × Nat
abbrev StPM := Array Bool × Array Bool × SeqOut × Array Nat × Array Nat × Array Nat × Array Nat × Nat × Bool
abbrev StPI := Array Bool × Array Bool × SeqOut × Array Nat × Array Nat × Array Nat × Array Nat × Nat × Nat × Bool

/-- push `x` on the stack of priority `p` and lower `best_priority_`, then continue with `k` -/
def mpdPushK {β : Type} (st0 st1 st2 : Array Nat) (best p x : Nat)
    (k : Array Nat → Array Nat → Array Nat → Nat → R β) : R β :=
  let jp := fun (st0 st1 st2 : Array Nat) => if p < best then k st0 st1 st2 p else k st0 st1 st2 best
  if (p == 0) = true then jp (st0.push x) st1 st2
  else if (p == 1) = true then jp st0 (st1.push x) st2
  else jp st0 st1 (st2.push x)

/-- `ComputePriority(x)`, then continue with `k` -/
def mpdPrioK {β : Type} (t : TView) (vv : Array Bool) (degree : Array Nat) (x : Nat)
    (k : Array Nat → Nat → R β) : R β := do
  let vTip ← t.vertex x
  let b ← rdB "is_vertex_visited_" vv vTip
  if (!b) = true then do
    let dg ← rd "prediction_degree_" degree vTip
    let degree ← wr "prediction_degree_" degree vTip (dg + 1)
    k degree (if dg + 1 > 1 then 1 else 2)
  else k degree 0

/-- the end of an iteration of the inner loop: the decision on the right corner -/
def mpdRight (t : TView) (fv vv : Array Bool) (out : SeqOut) (cornerId : Nat) (fin2 : Bool) (right : Nat)
    (rightVisited : Bool) (degree st0 st1 st2 : Array Nat) (best : Nat) : R (ForInStep StPI) :=
  if (!rightVisited) = true then
    mpdPrioK t vv degree right fun degree priority =>
      if priority ≤ best then pure (ForInStep.yield (fv, vv, out, degree, st0, st1, st2, best, right, fin2))
      else mpdPushK st0 st1 st2 best priority right fun st0 st1 st2 best =>
        pure (ForInStep.done (fv, vv, out, degree, st0, st1, st2, best, cornerId, true))
  else pure (ForInStep.done (fv, vv, out, degree, st0, st1, st2, best, cornerId, true))

/-- an iteration of the inner loop -/
def mpdInnerC (t : TView) (faces : Array Nat) (fv vv : Array Bool) (out : SeqOut) (degree st0 st1 st2 : Array Nat)
    (best cornerId : Nat) (fin2 : Bool) : R (ForInStep StPI) := do
  let fv ← wrB "MarkFaceVisited" fv (cornerId / 3) true
  let vertId ← t.vertex cornerId
  visitK faces vv out vertId cornerId fun vv out => do
    let right ← t.rightCorner cornerId
    let left ← t.leftCorner cornerId
    let rightVisited ← faceVisited fv (faceOfCorner right)
    let leftVisited ← faceVisited fv (faceOfCorner left)
    if (!leftVisited) = true then
      mpdPrioK t vv degree left fun degree priority =>
        if (rightVisited && decide (priority ≤ best)) = true then
          pure (ForInStep.yield (fv, vv, out, degree, st0, st1, st2, best, left, fin2))
        else mpdPushK st0 st1 st2 best priority left fun st0 st1 st2 best =>
          mpdRight t fv vv out cornerId fin2 right rightVisited degree st0 st1 st2 best
    else mpdRight t fv vv out cornerId fin2 right rightVisited degree st0 st1 st2 best

def mpdInner (t : TView) (faces : Array Nat) (s : StPI) : R (ForInStep StPI) :=
  mpdInnerC t faces s.1 s.2.1 s.2.2.1 s.2.2.2.1 s.2.2.2.2.1 s.2.2.2.2.2.1 s.2.2.2.2.2.2.1 s.2.2.2.2.2.2.2.1
    s.2.2.2.2.2.2.2.2.1 s.2.2.2.2.2.2.2.2.2

/-- the part of an iteration of the stack loop after `PopNextCornerToTraverse` -/
def mpdAfterPop (t : TView) (faces : Array Nat) (fuel : Nat) (fv vv : Array Bool) (out : SeqOut) (degree : Array Nat)
    (fin : Bool) (st0 st1 st2 : Array Nat) (best cornerId : Nat) : R (ForInStep StPM) :=
  if (cornerId == inv) = true then pure (ForInStep.done (fv, vv, out, degree, st0, st1, st2, best, true))
  else do
    let b ← faceVisited fv (cornerId / 3)
    if b = true then pure (ForInStep.yield (fv, vv, out, degree, st0, st1, st2, best, fin))
    else do
      let s ← forIn [0:fuel] ((fv, vv, out, degree, st0, st1, st2, best, cornerId, false) : StPI)
        fun _ s => mpdInner t faces s
      if (!s.2.2.2.2.2.2.2.2.2) = true then do
        throw (Err.fuel "MaxPredictionDegreeTraverser: inner loop")
        pure (ForInStep.yield (s.1, s.2.1, s.2.2.1, s.2.2.2.1, s.2.2.2.2.1, s.2.2.2.2.2.1, s.2.2.2.2.2.2.1,
          s.2.2.2.2.2.2.2.1, fin))
      else pure (ForInStep.yield (s.1, s.2.1, s.2.2.1, s.2.2.2.1, s.2.2.2.2.1, s.2.2.2.2.2.1, s.2.2.2.2.2.2.1,
          s.2.2.2.2.2.2.2.1, fin))

/-- an iteration of the loop over the stacks -/
def mpdMidC (t : TView) (faces : Array Nat) (fuel : Nat) (fv vv : Array Bool) (out : SeqOut)
    (degree st0 st1 st2 : Array Nat) (best : Nat) (fin : Bool) : R (ForInStep StPM) :=
  if (decide (best ≤ 0) && !st0.isEmpty) = true then
    mpdAfterPop t faces fuel fv vv out degree fin st0.pop st1 st2 0 st0.back!
  else if (decide (best ≤ 1) && !st1.isEmpty) = true then
    mpdAfterPop t faces fuel fv vv out degree fin st0 st1.pop st2 1 st1.back!
  else if (!st2.isEmpty) = true then
    mpdAfterPop t faces fuel fv vv out degree fin st0 st1 st2.pop 2 st2.back!
  else mpdAfterPop t faces fuel fv vv out degree fin st0 st1 st2 best inv

def mpdMid (t : TView) (faces : Array Nat) (fuel : Nat) (s : StPM) : R (ForInStep StPM) :=
  mpdMidC t faces fuel s.1 s.2.1 s.2.2.1 s.2.2.2.1 s.2.2.2.2.1 s.2.2.2.2.2.1 s.2.2.2.2.2.2.1 s.2.2.2.2.2.2.2.1
    s.2.2.2.2.2.2.2.2

/-- `TraverseFromCorner(c0)` of the prediction degree traverser (`st0` with `c0` pushed) -/
def mpdFrom (t : TView) (faces : Array Nat) (fuel : Nat) (c0 : Nat) (fv vv : Array Bool) (out : SeqOut)
    (degree st0 st1 st2 : Array Nat) : R (ForInStep StP8) := do
  let nextVert ← t.vertex (Eb.nextC c0)
  let prevVert ← t.vertex (Eb.prevC c0)
  visitK faces vv out nextVert (Eb.nextC c0) fun vv out =>
    visitK faces vv out prevVert (Eb.prevC c0) fun vv out => do
      let tip ← t.vertex c0
      visitK faces vv out tip c0 fun vv out => do
        let s ← forIn [0:fuel] ((fv, vv, out, degree, st0, st1, st2, 0, false) : StPM) fun _ s => mpdMid t faces fuel s
        if (!s.2.2.2.2.2.2.2.2) = true then do
          throw (Err.fuel "MaxPredictionDegreeTraverser: stack loop")
          pure (ForInStep.yield (s.1, s.2.1, s.2.2.1, s.2.2.2.1, s.2.2.2.2.1, s.2.2.2.2.2.1, s.2.2.2.2.2.2.1,
            s.2.2.2.2.2.2.2.1))
        else pure (ForInStep.yield (s.1, s.2.1, s.2.2.1, s.2.2.2.1, s.2.2.2.2.1, s.2.2.2.2.2.1, s.2.2.2.2.2.2.1,
            s.2.2.2.2.2.2.2.1))

def mpdInit (t : TView) (v2d : Array Nat) : StP8 :=
  (Array.replicate t.numFaces false, Array.replicate t.numVertices false,
    { pointIds := Array.mkEmpty t.numVertices, d2c := Array.mkEmpty t.numVertices, v2d := v2d },
    Array.replicate t.numVertices 0, #[], #[], #[], 0)

/-- the body of the loop over the start corners -/
def mpdOuter (t : TView) (faces : Array Nat) (c0 : Nat) (s : StP8) : R (ForInStep StP8) :=
  if (t.numVertices == 0) = true then
    pure (ForInStep.yield (s.1, s.2.1, s.2.2.1, s.2.2.2.1, s.2.2.2.2.1, s.2.2.2.2.2.1, s.2.2.2.2.2.2.1, s.2.2.2.2.2.2.2))
  else mpdFrom t faces (dfFuel t) c0 s.1 s.2.1 s.2.2.1 s.2.2.2.1 (s.2.2.2.2.1.push c0) s.2.2.2.2.2.1 s.2.2.2.2.2.2.1

theorem mpPriority_bind {β : Type} (t : TView) (vv : Array Bool) (degree : Array Nat) (x : Nat)
    (k : Array Nat → Nat → R β) :
    (Eb.mpPriority t vv degree x >>= fun r => k r.2 r.1) = mpdPrioK t vv degree x k := by
  unfold Eb.mpPriority mpdPrioK
  simp only [bind_assoc]
  congr 1
  funext v
  congr 1
  funext b
  split
  · simp only [bind_assoc, pure_bind]
  · simp only [pure_bind]

theorem mpdPrioK_map {β γ : Type} (f : β → γ) (t : TView) (vv : Array Bool) (degree : Array Nat) (x : Nat)
    (k : Array Nat → Nat → R β) :
    f <$> mpdPrioK t vv degree x k = mpdPrioK t vv degree x fun d p => f <$> k d p := by
  unfold mpdPrioK
  simp only [map_bind]
  congr 1
  funext v
  congr 1
  funext b
  split
  · simp only [map_bind]
  · rfl

theorem brPushK_eq {β : Type} (st0 st1 st2 : Array Nat) (best p x : Nat)
    (k : Array Nat → Array Nat → Array Nat → Nat → R β) :
    mpdPushK st0 st1 st2 best p x k =
      k ((MpStacks.mk st0 st1 st2 best).add x p).st0 ((MpStacks.mk st0 st1 st2 best).add x p).st1
        ((MpStacks.mk st0 st1 st2 best).add x p).st2 ((MpStacks.mk st0 st1 st2 best).add x p).best := by
  unfold mpdPushK MpStacks.add
  dsimp only
  split
  · split <;> rfl
  · split
    · split <;> rfl
    · split <;> rfl

def brPiI (s : StPI) : Array Bool × Array Bool × SeqOut × Array Nat × MpStacks × Nat × Bool :=
  (s.1, s.2.1, s.2.2.1, s.2.2.2.1, ⟨s.2.2.2.2.1, s.2.2.2.2.2.1, s.2.2.2.2.2.2.1, s.2.2.2.2.2.2.2.1⟩,
    s.2.2.2.2.2.2.2.2.1, s.2.2.2.2.2.2.2.2.2)

def brRes5 (s : StPI) : Array Bool × Array Bool × SeqOut × Array Nat × MpStacks :=
  (s.1, s.2.1, s.2.2.1, s.2.2.2.1, ⟨s.2.2.2.2.1, s.2.2.2.2.2.1, s.2.2.2.2.2.2.1, s.2.2.2.2.2.2.2.1⟩)

theorem mpdRight_comm (t : TView) (fv vv : Array Bool) (out : SeqOut) (cornerId : Nat) (fin2 : Bool) (right : Nat)
    (rightVisited : Bool) (degree st0 st1 st2 : Array Nat) (best : Nat) :
    brStepMap brPiI <$> mpdRight t fv vv out cornerId fin2 right rightVisited degree st0 st1 st2 best =
      (if (!rightVisited) = true then do
        let __x ← Eb.mpPriority t vv degree right
        if __x.1 ≤ best then
          pure (ForInStep.yield (fv, vv, out, __x.2, (⟨st0, st1, st2, best⟩ : MpStacks), right, fin2))
        else
          pure (ForInStep.done (fv, vv, out, __x.2, (⟨st0, st1, st2, best⟩ : MpStacks).add right __x.1, cornerId, true))
      else pure (ForInStep.done (fv, vv, out, degree, (⟨st0, st1, st2, best⟩ : MpStacks), cornerId, true))) := by
  unfold mpdRight
  split
  · rw [mpdPrioK_map, ← mpPriority_bind]
    congr 1
    funext r
    split
    · rfl
    · rw [brPushK_eq]; rfl
  · rfl

theorem mpInner_loop (t : TView) (faces : Array Nat) (fuel : Nat) (fv vv : Array Bool) (out : SeqOut)
    (degree st0 st1 st2 : Array Nat) (best c : Nat) :
    Eb.mpInner t faces fuel fv vv out degree ⟨st0, st1, st2, best⟩ c = (do
      let s ← forIn [0:fuel] ((fv, vv, out, degree, st0, st1, st2, best, c, false) : StPI) fun _ s => mpdInner t faces s
      if (!s.2.2.2.2.2.2.2.2.2) = true then do
        throw (Err.fuel "MaxPredictionDegreeTraverser: inner loop")
        pure (brRes5 s)
      else pure (brRes5 s)) := by
  unfold Eb.mpInner
  refine (br_bind_forIn_proj brPiI (fun _ s => mpdInner t faces s) _ ?_ _ (fv, vv, out, degree, st0, st1, st2, best, c, false) _).trans ?_
  rotate_left
  · rfl
  intro i s
  obtain ⟨fv, vv, out, degree, st0, st1, st2, best, cornerId, fin2⟩ := s
  unfold mpdInner mpdInnerC
  simp only [brPiI, map_bind]
  congr 1
  funext fv'
  congr 1
  funext vertId
  rw [visitK_map, ← visitVertex_bind]
  congr 1
  funext x
  obtain ⟨vv1, out1⟩ := x
  simp only [map_bind]
  congr 1
  funext right
  congr 1
  funext left
  congr 1
  funext rightVisited
  congr 1
  funext leftVisited
  split
  · rw [mpdPrioK_map, ← mpPriority_bind]
    congr 1
    funext r
    obtain ⟨priority, degree1⟩ := r
    dsimp only
    split
    · rename_i h
      refine Eq.trans ?_ (if_pos h).symm
      rfl
    · rename_i h
      rw [brPushK_eq, mpdRight_comm]
      refine Eq.trans ?_ (if_neg h).symm
      rfl
  · rw [mpdRight_comm]
    rfl

def brPiM (s : StPM) : Array Bool × Array Bool × SeqOut × Array Nat × MpStacks × Bool :=
  (s.1, s.2.1, s.2.2.1, s.2.2.2.1, ⟨s.2.2.2.2.1, s.2.2.2.2.2.1, s.2.2.2.2.2.2.1, s.2.2.2.2.2.2.2.1⟩,
    s.2.2.2.2.2.2.2.2)

def brRes5M (s : StPM) : Array Bool × Array Bool × SeqOut × Array Nat × MpStacks :=
  (s.1, s.2.1, s.2.2.1, s.2.2.2.1, ⟨s.2.2.2.2.1, s.2.2.2.2.2.1, s.2.2.2.2.2.2.1, s.2.2.2.2.2.2.2.1⟩)

theorem afterPop_comm (t : TView) (faces : Array Nat) (fuel : Nat) (fv vv : Array Bool) (out : SeqOut)
    (degree : Array Nat) (fin : Bool) (st0 st1 st2 : Array Nat) (best cornerId : Nat) :
    brStepMap brPiM <$> mpdAfterPop t faces fuel fv vv out degree fin st0 st1 st2 best cornerId =
      (if (cornerId == inv) = true then
        pure (ForInStep.done (fv, vv, out, degree, (⟨st0, st1, st2, best⟩ : MpStacks), true))
      else do
        let b ← faceVisited fv (cornerId / 3)
        if b = true then pure (ForInStep.yield (fv, vv, out, degree, (⟨st0, st1, st2, best⟩ : MpStacks), fin))
        else do
          let x ← Eb.mpInner t faces fuel fv vv out degree ⟨st0, st1, st2, best⟩ cornerId
          pure (ForInStep.yield (x.1, x.2.1, x.2.2.1, x.2.2.2.1, x.2.2.2.2, fin))) := by
  unfold mpdAfterPop
  split
  · rfl
  simp only [map_bind]
  congr 1
  funext b
  split
  · rfl
  rw [mpInner_loop]
  simp only [map_bind, bind_assoc]
  congr 1
  funext s
  split <;> rfl

theorem mpStack_loop (t : TView) (faces : Array Nat) (fuel : Nat) (fv vv : Array Bool) (out : SeqOut)
    (degree st0 st1 st2 : Array Nat) (best : Nat) :
    Eb.mpStack t faces fuel fv vv out degree ⟨st0, st1, st2, best⟩ = (do
      let s ← forIn [0:fuel] ((fv, vv, out, degree, st0, st1, st2, best, false) : StPM) fun _ s => mpdMid t faces fuel s
      if (!s.2.2.2.2.2.2.2.2) = true then do
        throw (Err.fuel "MaxPredictionDegreeTraverser: stack loop")
        pure (brRes5M s)
      else pure (brRes5M s)) := by
  unfold Eb.mpStack
  refine (br_bind_forIn_proj brPiM (fun _ s => mpdMid t faces fuel s) _ ?_ _ (fv, vv, out, degree, st0, st1, st2, best, false) _).trans ?_
  rotate_left
  · rfl
  intro i s
  obtain ⟨fv, vv, out, degree, st0, st1, st2, best, fin⟩ := s
  unfold mpdMid mpdMidC
  dsimp only [brPiM]
  by_cases h0 : (decide (best ≤ 0) && !st0.isEmpty) = true
  · have hp : (MpStacks.mk st0 st1 st2 best).pop = (st0.back!, ⟨st0.pop, st1, st2, 0⟩) := by
      unfold MpStacks.pop; dsimp only; rw [if_pos h0]
    rw [if_pos h0, afterPop_comm, hp]
  · by_cases h1 : (decide (best ≤ 1) && !st1.isEmpty) = true
    · have hp : (MpStacks.mk st0 st1 st2 best).pop = (st1.back!, ⟨st0, st1.pop, st2, 1⟩) := by
        unfold MpStacks.pop; dsimp only; rw [if_neg h0, if_pos h1]
      rw [if_neg h0, if_pos h1, afterPop_comm, hp]
    · by_cases h2 : (!st2.isEmpty) = true
      · have hp : (MpStacks.mk st0 st1 st2 best).pop = (st2.back!, ⟨st0, st1, st2.pop, 2⟩) := by
          unfold MpStacks.pop; dsimp only; rw [if_neg h0, if_neg h1, if_pos h2]
        rw [if_neg h0, if_neg h1, if_pos h2, afterPop_comm, hp]
      · have hp : (MpStacks.mk st0 st1 st2 best).pop = (inv, ⟨st0, st1, st2, best⟩) := by
          unfold MpStacks.pop; dsimp only; rw [if_neg h0, if_neg h1, if_neg h2]
        rw [if_neg h0, if_neg h1, if_neg h2, afterPop_comm, hp]

def brPi8 (s : StP8) : Array Bool × Array Bool × SeqOut × Array Nat × MpStacks :=
  (s.1, s.2.1, s.2.2.1, s.2.2.2.1, ⟨s.2.2.2.2.1, s.2.2.2.2.2.1, s.2.2.2.2.2.2.1, s.2.2.2.2.2.2.2⟩)

theorem maxPredictionDegree_eq (t : TView) (faces : Array Nat) (v2dSize : Nat) :
    maxPredictionDegree t faces v2dSize = (do
      let s ← forIn [0:t.numFaces] (mpdInit t (Array.replicate v2dSize 0)) fun i (s : StP8) =>
        mpdOuter t faces (3 * i) s
      pure s.2.2.1) := by
  unfold maxPredictionDegree
  refine (br_bind_forIn_proj brPi8 (fun i (s : StP8) => mpdOuter t faces (3 * i) s) _ ?_ _
    (mpdInit t (Array.replicate v2dSize 0)) _).trans ?_
  rotate_left
  · rfl
  intro i s
  obtain ⟨fv, vv, out, degree, st0, st1, st2, best⟩ := s
  unfold mpdOuter
  dsimp only [brPi8]
  split
  · rfl
  unfold mpdFrom dfFuel
  simp only [map_bind]
  congr 1
  funext nextVert
  congr 1
  funext prevVert
  rw [visitK_map, ← visitVertex_bind]
  congr 1
  funext x
  obtain ⟨vv1, out1⟩ := x
  dsimp only
  rw [visitK_map, ← visitVertex_bind]
  congr 1
  funext y
  obtain ⟨vv2, out2⟩ := y
  dsimp only
  simp only [map_bind]
  congr 1
  funext tip
  rw [visitK_map, ← visitVertex_bind]
  congr 1
  funext z
  obtain ⟨vv3, out3⟩ := z
  dsimp only
  rw [mpStack_loop]
  simp only [map_bind, bind_assoc]
  congr 1
  funext s
  split <;> rfl

theorem maxPredictionDegreeOrder_eq (t : TView) (faces order v2dInit : Array Nat) :
    maxPredictionDegreeOrder t faces order v2dInit = (do
      let s ← forIn order (mpdInit t v2dInit) fun c0 (s : StP8) => mpdOuter t faces c0 s
      pure s.2.2.1) := by
  rfl

/-! ### the relation between the states of the two prediction degree traversals -/

/-- the stacks after `x` is pushed with priority `p` -/
def pushSt (p x : Nat) (st0 st1 st2 : Array Nat) : Array Nat × Array Nat × Array Nat :=
  if p = 0 then (st0.push x, st1, st2) else if p = 1 then (st0, st1.push x, st2) else (st0, st1, st2.push x)

theorem mpdPushK_eq {β : Type} (st0 st1 st2 : Array Nat) (best p x : Nat)
    (k : Array Nat → Array Nat → Array Nat → Nat → R β) :
    mpdPushK st0 st1 st2 best p x k =
      k (pushSt p x st0 st1 st2).1 (pushSt p x st0 st1 st2).2.1 (pushSt p x st0 st1 st2).2.2
        (if p < best then p else best) := by
  unfold mpdPushK pushSt
  by_cases h0 : p = 0
  · simp [h0]; split <;> rfl
  · by_cases h1 : p = 1
    · simp [h1]; split <;> rfl
    · simp [h0, h1]; split <;> rfl

/-- `x` is on one of the three stacks -/
def InS (x : Nat) (s0 s1 s2 : Array Nat) : Prop := x ∈ s0 ∨ x ∈ s1 ∨ x ∈ s2

theorem InS.push {x y : Nat} {s0 s1 s2 : Array Nat} (p : Nat)
    (h : InS x (pushSt p y s0 s1 s2).1 (pushSt p y s0 s1 s2).2.1 (pushSt p y s0 s1 s2).2.2) :
    x = y ∨ InS x s0 s1 s2 := by
  unfold pushSt InS at *
  by_cases h0 : p = 0
  · simp only [h0, if_true, Array.mem_push] at h
    tauto
  · by_cases h1 : p = 1
    · simp only [h1, if_true] at h
      simp at h
      tauto
    · simp only [h0, h1, if_false, Array.mem_push] at h
      tauto

theorem InS.of_push {x y : Nat} {s0 s1 s2 : Array Nat} (p : Nat) (h : x = y ∨ InS x s0 s1 s2) :
    InS x (pushSt p y s0 s1 s2).1 (pushSt p y s0 s1 s2).2.1 (pushSt p y s0 s1 s2).2.2 := by
  unfold pushSt InS at *
  by_cases h0 : p = 0
  · simp only [h0, if_true, Array.mem_push]
    tauto
  · by_cases h1 : p = 1
    · simp only [h1, if_true]
      simp
      tauto
    · simp only [h0, h1, if_false, Array.mem_push]
      tauto

/-- the prediction degrees correspond on the vertices of corners -/
def DegRel (d : TView) (ψ : Nat → Nat) (degD degE : Array Nat) : Prop :=
  ∀ c v, c < 3 * d.numFaces → d.vertex c = .ok v → degE[ψ v]? = degD[v]?

structure TRelQ (d e : TView) (φ ψ : Nat → Nat) (facesD facesE : Array Nat) (n : Nat) (X : Nat → Prop)
    (fvD vvD : Array Bool) (outD : SeqOut) (degD s0D s1D s2D : Array Nat) (bestD : Nat)
    (fvE vvE : Array Bool) (outE : SeqOut) (degE s0E s1E s2E : Array Nat) (bestE : Nat) : Prop where
  core : TravCore d e φ ψ facesD facesE fvD vvD outD fvE vvE outE
  deg : DegRel d ψ degD degE
  s0 : s0E = s0D.map (ext φ)
  s1 : s1E = s1D.map (ext φ)
  s2 : s2E = s2D.map (ext φ)
  s_lt : ∀ x, InS x s0D s1D s2D → x < 3 * d.numFaces
  best : bestE = bestD
  low : (0 < bestD → s0D.size = 0) ∧ (1 < bestD → s1D.size = 0)
  k : ∀ j, j < n → fvD[j]? = some true ∨ InS (3 * j) s0D s1D s2D ∨ X j
  hedge : Hedge d → JInv d fvD vvD ∧ ∀ x, InS x s0D s1D s2D → NInv d vvD x

section
variable {d e : TView} {φ ψ : Nat → Nat} {facesD facesE : Array Nat} {n : Nat} {X : Nat → Prop}
  {fvD vvD : Array Bool} {outD : SeqOut} {degD s0D s1D s2D : Array Nat} {bestD : Nat}
  {fvE vvE : Array Bool} {outE : SeqOut} {degE s0E s1E s2E : Array Nat} {bestE : Nat}

theorem TRelQ.weaken (hq : TRelQ d e φ ψ facesD facesE n X fvD vvD outD degD s0D s1D s2D bestD fvE vvE outE degE s0E s1E s2E bestE)
    (Y : Nat → Prop) (hxy : ∀ j, X j → Y j) :
    TRelQ d e φ ψ facesD facesE n Y fvD vvD outD degD s0D s1D s2D bestD fvE vvE outE degE s0E s1E s2E bestE :=
  { hq with
    k := fun j hj => (hq.k j hj).elim Or.inl fun e1 => e1.elim (fun e2 => Or.inr (Or.inl e2))
      fun e2 => Or.inr (Or.inr (hxy j e2)) }

theorem pushSt_map (f : Nat → Nat) (p x : Nat) (s0 s1 s2 : Array Nat) :
    pushSt p (f x) (s0.map f) (s1.map f) (s2.map f) =
      ((pushSt p x s0 s1 s2).1.map f, (pushSt p x s0 s1 s2).2.1.map f, (pushSt p x s0 s1 s2).2.2.map f) := by
  unfold pushSt
  by_cases h0 : p = 0
  · simp [h0]
  · by_cases h1 : p = 1
    · simp [h1]
    · simp [h0, h1]

theorem pushSt_low (p x : Nat) (s0 s1 s2 : Array Nat) (best : Nat)
    (low : (0 < best → s0.size = 0) ∧ (1 < best → s1.size = 0)) :
    (0 < (if p < best then p else best) → (pushSt p x s0 s1 s2).1.size = 0) ∧
    (1 < (if p < best then p else best) → (pushSt p x s0 s1 s2).2.1.size = 0) := by
  unfold pushSt
  obtain ⟨l0, l1⟩ := low
  by_cases h0 : p = 0
  · subst h0
    simp only [if_true]
    constructor
    · intro hh; split at hh <;> omega
    · intro hh; split at hh <;> omega
  · by_cases h1 : p = 1
    · subst h1
      simp only [if_true]
      constructor
      · intro hh; split at hh
        · exact l0 (by omega)
        · exact l0 hh
      · intro hh; split at hh <;> omega
    · simp only [h0, h1, if_false]
      constructor
      · intro hh; split at hh
        · exact l0 (by omega)
        · exact l0 hh
      · intro hh; split at hh
        · exact l1 (by omega)
        · exact l1 hh

/-- push corresponding corners with the same priority -/
theorem TRelQ.push (h : TVIso d e φ ψ)
    (hq : TRelQ d e φ ψ facesD facesE n X fvD vvD outD degD s0D s1D s2D bestD fvE vvE outE degE s0E s1E s2E bestE)
    (p x : Nat) (hx : x < 3 * d.numFaces) (hN : Hedge d → NInv d vvD x) :
    TRelQ d e φ ψ facesD facesE n X fvD vvD outD degD (pushSt p x s0D s1D s2D).1 (pushSt p x s0D s1D s2D).2.1
      (pushSt p x s0D s1D s2D).2.2 (if p < bestD then p else bestD)
      fvE vvE outE degE (pushSt p (φ x) s0E s1E s2E).1 (pushSt p (φ x) s0E s1E s2E).2.1
      (pushSt p (φ x) s0E s1E s2E).2.2 (if p < bestE then p else bestE) := by
  have hne : x ≠ inv := h.ne_inv x hx
  have hm := pushSt_map (ext φ) p x s0D s1D s2D
  rw [ext_of_ne φ hne, ← hq.s0, ← hq.s1, ← hq.s2] at hm
  refine { core := hq.core, deg := hq.deg, s0 := by rw [hm], s1 := by rw [hm], s2 := by rw [hm], s_lt := ?_,
           best := by rw [hq.best], low := pushSt_low p x s0D s1D s2D bestD hq.low, k := ?_, hedge := ?_ }
  · intro y hy
    rcases InS.push p hy with rfl | hy
    · exact hx
    · exact hq.s_lt y hy
  · intro j hj
    rcases hq.k j hj with e1 | e1 | e1
    · exact Or.inl e1
    · exact Or.inr (Or.inl (InS.of_push p (Or.inr e1)))
    · exact Or.inr (Or.inr e1)
  · intro hg
    obtain ⟨hj, hs⟩ := hq.hedge hg
    refine ⟨hj, ?_⟩
    intro y hy
    rcases InS.push p hy with rfl | hy
    · exact hN hg
    · exact hs y hy

/-- `ComputePriority` of corresponding corners -/
theorem mpdPrioK_sim {β γ : Type} (h : TVIso d e φ ψ)
    (hc : TravCore d e φ ψ facesD facesE fvD vvD outD fvE vvE outE) (hdeg : DegRel d ψ degD degE)
    (x : Nat) (hx : x < 3 * d.numFaces) (kD : Array Nat → Nat → R β) (kE : Array Nat → Nat → R γ) (r : β) (r' : γ)
    (hD : mpdPrioK d vvD degD x kD = .ok r) (hE : mpdPrioK e vvE degE (φ x) kE = .ok r') :
    ∃ degD' degE' p, DegRel d ψ degD' degE' ∧ kD degD' p = .ok r ∧ kE degE' p = .ok r' := by
  obtain ⟨v, hv1, hv2, hv3, hv4⟩ := h.vertex x hx
  unfold mpdPrioK at hD hE
  rw [hv1, trav_ok_bind, bind_ok_iff] at hD
  rw [hv3, trav_ok_bind, bind_ok_iff] at hE
  obtain ⟨b, hb, hD⟩ := hD
  obtain ⟨b', hb', hE⟩ := hE
  rw [trav_rdB_ok_iff] at hb hb'
  rw [hc.vv x v hx hv1, hb] at hb'
  cases hb'
  cases b with
  | true =>
    simp only [Bool.not_true, Bool.false_eq_true, if_false] at hD hE
    exact ⟨degD, degE, 0, hdeg, hD, hE⟩
  | false =>
    simp only [Bool.not_false, if_true] at hD hE
    rw [bind_ok_iff] at hD hE
    obtain ⟨dg, hdg, hD⟩ := hD
    obtain ⟨dg', hdg', hE⟩ := hE
    rw [trav_rd_ok_iff] at hdg hdg'
    rw [hdeg x v hx hv1, hdg] at hdg'
    cases hdg'
    rw [bind_ok_iff] at hD hE
    obtain ⟨degD', hw, hD⟩ := hD
    obtain ⟨degE', hwE, hE⟩ := hE
    rw [trav_wr_ok_iff] at hw hwE
    obtain ⟨hw1, rfl⟩ := hw
    obtain ⟨hwE1, rfl⟩ := hwE
    refine ⟨_, _, _, ?_, hD, hE⟩
    intro c' v' hc' hv'
    rw [Array.getElem?_setIfInBounds, Array.getElem?_setIfInBounds, hdeg c' v' hc' hv']
    by_cases hvv : v = v'
    · subst hvv
      simp [hw1, hwE1]
    · have : ψ v ≠ ψ v' := fun e1 => hvv (h.psi_inj x c' v v' hx hc' hv1 hv' e1)
      simp [hvv, this]

end

def TRelPI (d e : TView) (φ ψ : Nat → Nat) (facesD facesE : Array Nat) (n : Nat) (s t : StPI) : Prop :=
  TRelQ d e φ ψ facesD facesE n (fun j => s.2.2.2.2.2.2.2.2.1 = 3 * j)
    s.1 s.2.1 s.2.2.1 s.2.2.2.1 s.2.2.2.2.1 s.2.2.2.2.2.1 s.2.2.2.2.2.2.1 s.2.2.2.2.2.2.2.1
    t.1 t.2.1 t.2.2.1 t.2.2.2.1 t.2.2.2.2.1 t.2.2.2.2.2.1 t.2.2.2.2.2.2.1 t.2.2.2.2.2.2.2.1 ∧
  s.2.2.2.2.2.2.2.2.1 < 3 * d.numFaces ∧ t.2.2.2.2.2.2.2.2.1 = φ s.2.2.2.2.2.2.2.2.1 ∧
  (Hedge d → NInv d s.2.1 s.2.2.2.2.2.2.2.2.1) ∧ s.2.2.2.2.2.2.2.2.2 = false ∧ t.2.2.2.2.2.2.2.2.2 = false

def TRelPID (d e : TView) (φ ψ : Nat → Nat) (facesD facesE : Array Nat) (n : Nat) (s t : StPI) : Prop :=
  TRelQ d e φ ψ facesD facesE n (fun _ => False)
    s.1 s.2.1 s.2.2.1 s.2.2.2.1 s.2.2.2.2.1 s.2.2.2.2.2.1 s.2.2.2.2.2.2.1 s.2.2.2.2.2.2.2.1
    t.1 t.2.1 t.2.2.1 t.2.2.2.1 t.2.2.2.2.1 t.2.2.2.2.2.1 t.2.2.2.2.2.2.1 t.2.2.2.2.2.2.2.1

def TRelPM (d e : TView) (φ ψ : Nat → Nat) (facesD facesE : Array Nat) (n : Nat) (s t : StPM) : Prop :=
  TRelQ d e φ ψ facesD facesE n (fun _ => False)
    s.1 s.2.1 s.2.2.1 s.2.2.2.1 s.2.2.2.2.1 s.2.2.2.2.2.1 s.2.2.2.2.2.2.1 s.2.2.2.2.2.2.2.1
    t.1 t.2.1 t.2.2.1 t.2.2.2.1 t.2.2.2.2.1 t.2.2.2.2.2.1 t.2.2.2.2.2.2.1 t.2.2.2.2.2.2.2.1 ∧
  s.2.2.2.2.2.2.2.2 = false ∧ t.2.2.2.2.2.2.2.2 = false

def TRelPMD (d e : TView) (φ ψ : Nat → Nat) (facesD facesE : Array Nat) (n : Nat) (s t : StPM) : Prop :=
  TRelQ d e φ ψ facesD facesE n (fun _ => False)
    s.1 s.2.1 s.2.2.1 s.2.2.2.1 s.2.2.2.2.1 s.2.2.2.2.2.1 s.2.2.2.2.2.2.1 s.2.2.2.2.2.2.2.1
    t.1 t.2.1 t.2.2.1 t.2.2.2.1 t.2.2.2.2.1 t.2.2.2.2.2.1 t.2.2.2.2.2.2.1 t.2.2.2.2.2.2.2.1 ∧
  s.2.2.2.2.1.size = 0 ∧ s.2.2.2.2.2.1.size = 0 ∧ s.2.2.2.2.2.2.1.size = 0

def TRelPO (d e : TView) (φ ψ : Nat → Nat) (facesD facesE : Array Nat) (n : Nat) (s t : StP8) : Prop :=
  TRelQ d e φ ψ facesD facesE n (fun _ => False)
    s.1 s.2.1 s.2.2.1 s.2.2.2.1 s.2.2.2.2.1 s.2.2.2.2.2.1 s.2.2.2.2.2.2.1 s.2.2.2.2.2.2.2
    t.1 t.2.1 t.2.2.1 t.2.2.2.1 t.2.2.2.2.1 t.2.2.2.2.2.1 t.2.2.2.2.2.2.1 t.2.2.2.2.2.2.2 ∧
  s.2.2.2.2.1.size = 0 ∧ s.2.2.2.2.2.1.size = 0 ∧ s.2.2.2.2.2.2.1.size = 0

theorem NInv.of_or {d : TView} {vv vv' : Array Bool} {v c : Nat} (hj : NInv d vv c)
    (h : vv' = vv ∨ vv' = vv.setIfInBounds v true) : NInv d vv' c := by
  rcases h with rfl | rfl
  · exact hj
  · exact hj.set v

theorem NInv_left {d : TView} {fv vv : Array Bool} (hg : Hedge d) (hf : 3 * d.numFaces ≤ inv) (hj : JInv d fv vv)
    (c : Nat) (hlt : c < 3 * d.numFaces) (hm : fv[c / 3]? = some true) (lo : Nat) (hl1 : d.leftCorner c = .ok lo)
    (hne : lo ≠ inv) : NInv d vv lo := by
  obtain ⟨v0, v1, v2⟩ := hj.face hf c hlt hm
  exact NInv.of_opposite hg (Eb.prevC c) lo (TVIso.prevC_lt hlt hf) hl1 hne (NInv.prev hf c hlt v0 ⟨v1, v2⟩)

section
variable {d e : TView} {φ ψ : Nat → Nat} {facesD facesE : Array Nat} {n : Nat}
  {fvD vvD : Array Bool} {outD : SeqOut} {degD s0D s1D s2D : Array Nat} {bestD : Nat}
  {fvE vvE : Array Bool} {outE : SeqOut} {degE s0E s1E s2E : Array Nat} {bestE : Nat}

/-- the decision on the right corner, on corresponding states -/
theorem mpdRight_sim (h : TVIso d e φ ψ)
    (hq : TRelQ d e φ ψ facesD facesE n (fun _ => False) fvD vvD outD degD s0D s1D s2D bestD
      fvE vvE outE degE s0E s1E s2E bestE)
    (c cE ro : Nat) (rv : Bool) (hrv : rv = false → ro < 3 * d.numFaces)
    (hN : Hedge d → ro ≠ inv → NInv d vvD ro) (r r' : ForInStep StPI)
    (hD : mpdRight d fvD vvD outD c false ro rv degD s0D s1D s2D bestD = .ok r)
    (hE : mpdRight e fvE vvE outE cE false (ext φ ro) rv degE s0E s1E s2E bestE = .ok r') :
    (∃ s' t', r = .yield s' ∧ r' = .yield t' ∧ TRelPI d e φ ψ facesD facesE n s' t') ∨
    (∃ s' t', r = .done s' ∧ r' = .done t' ∧ TRelPID d e φ ψ facesD facesE n s' t') := by
  unfold mpdRight at hD hE
  cases rv with
  | true =>
    simp only [Bool.not_true, Bool.false_eq_true, if_false, pure, Except.pure] at hD hE
    cases hD
    cases hE
    exact Or.inr ⟨_, _, rfl, rfl, hq⟩
  | false =>
    simp only [Bool.not_false, if_true] at hD hE
    have hro := hrv rfl
    have hne : ro ≠ inv := h.ne_inv ro hro
    rw [ext_of_ne φ hne] at hE
    obtain ⟨degD', degE', p, hdeg, hD, hE⟩ := mpdPrioK_sim h hq.core hq.deg ro hro _ _ r r' hD hE
    have hb := hq.best
    subst hb
    by_cases hp : p ≤ bestE
    · rw [if_pos hp] at hD hE
      simp only [pure, Except.pure] at hD hE
      cases hD
      cases hE
      refine Or.inl ⟨_, _, rfl, rfl, ?_, hro, rfl, fun hg => hN hg hne, rfl, rfl⟩
      exact TRelQ.weaken { hq with deg := hdeg } _ (fun _ hf => hf.elim)
    · rw [if_neg hp, mpdPushK_eq] at hD hE
      simp only [pure, Except.pure] at hD hE
      cases hD
      cases hE
      refine Or.inr ⟨_, _, rfl, rfl, ?_⟩
      exact TRelQ.push h { hq with deg := hdeg } p ro hro (fun hg => hN hg hne)

/-- an iteration of the inner loop, on corresponding states -/
theorem mpdInner_sim (h : TVIso d e φ ψ) (n : Nat) (s t : StPI) (r r' : ForInStep StPI)
    (hr : TRelPI d e φ ψ facesD facesE n s t)
    (hD : mpdInner d facesD s = .ok r) (hE : mpdInner e facesE t = .ok r') :
    (∃ s' t', r = .yield s' ∧ r' = .yield t' ∧ TRelPI d e φ ψ facesD facesE n s' t') ∨
    (∃ s' t', r = .done s' ∧ r' = .done t' ∧ TRelPID d e φ ψ facesD facesE n s' t') := by
  have hf := h.fits
  obtain ⟨fvD, vvD, outD, degD, s0D, s1D, s2D, bestD, c, b2D⟩ := s
  obtain ⟨fvE, vvE, outE, degE, s0E, s1E, s2E, bestE, cE, b2E⟩ := t
  obtain ⟨hq, hlt, hcE, hNc, f1, f2⟩ := hr
  simp only at hq hlt hcE hNc f1 f2
  subst f1 f2 hcE
  have hc := hq.core
  unfold mpdInner mpdInnerC at hD hE
  simp only at hD hE
  -- MarkFaceVisited
  rw [bind_ok_iff] at hD hE
  obtain ⟨fvD', hm, hD⟩ := hD
  obtain ⟨fvE', hmE, hE⟩ := hE
  rw [trav_wrB_ok_iff] at hm hmE
  obtain ⟨hm1, rfl⟩ := hm
  obtain ⟨hmE1, rfl⟩ := hmE
  have hcne : c ≠ inv := by omega
  have hc1 := hc.mark h c hlt
  have hmark : (fvD.setIfInBounds (c / 3) true)[c / 3]? = some true := trav_get_set_self_true hm1
  -- Vertex, OnNewVertexVisited
  obtain ⟨v, hv1, hv2, hv3, hv4⟩ := h.vertex c hlt
  rw [hv1, trav_ok_bind] at hD
  rw [hv3, trav_ok_bind] at hE
  obtain ⟨vvD', outD', vvE', outE', hc2, hD, hE, hsv, hor⟩ := visitK_sim h hc1 c v hlt hv1 _ _ r r' hD hE
  have hseen : VSeen d vvD' c := by
    intro v' hv'
    rw [hv1] at hv'; cases hv'
    exact hsv
  have hq1 : TRelQ d e φ ψ facesD facesE n (fun _ => False) (fvD.setIfInBounds (c / 3) true) vvD' outD' degD s0D s1D s2D
      bestD (fvE.setIfInBounds (φ c / 3) true) vvE' outE' degE s0E s1E s2E bestE := by
    refine { core := hc2, deg := hq.deg, s0 := hq.s0, s1 := hq.s1, s2 := hq.s2, s_lt := hq.s_lt, best := hq.best,
             low := hq.low, k := ?_, hedge := ?_ }
    · intro j hj
      rcases hq.k j hj with e1 | e1 | e1
      · exact Or.inl (trav_get_set_true e1 _)
      · exact Or.inr (Or.inl e1)
      · left
        have e2 : c = 3 * j := e1
        have : c / 3 = j := by omega
        rw [← this]; exact hmark
    · intro hg
      obtain ⟨hj, hs⟩ := hq.hedge hg
      exact ⟨(hj.of_or hor).mark c (by omega) hseen ((hNc hg).of_or hor), fun x hx => (hs x hx).of_or hor⟩
  -- the right and the left corner
  obtain ⟨ro, hr1, hr2, hr3⟩ := right_corr h c hlt
  obtain ⟨lo, hl1, hl2, hl3⟩ := left_corr h c hlt
  rw [hr1, trav_ok_bind, hl1, trav_ok_bind] at hD
  rw [hr3, trav_ok_bind, hl3, trav_ok_bind, faceVisited_corr h hc2 _ hr2, faceVisited_corr h hc2 _ hl2] at hE
  rw [bind_ok_iff] at hD hE
  obtain ⟨rv, hrv, hD⟩ := hD
  obtain ⟨rv', hrv', hE⟩ := hE
  rw [hrv] at hrv'
  cases hrv'
  rw [bind_ok_iff] at hD hE
  obtain ⟨lv, hlv, hD⟩ := hD
  obtain ⟨lv', hlv', hE⟩ := hE
  rw [hlv] at hlv'
  cases hlv'
  have hrolt : rv = false → ro < 3 * d.numFaces := by
    intro e1
    subst e1
    rcases hr2 with e2 | e2
    · exact absurd e2 (faceVisited_false hrv).1
    · exact e2
  have hNr : Hedge d → ro ≠ inv → NInv d vvD' ro := fun hg hne =>
    NInv_right hg hf.1 (hq1.hedge hg).1 c hlt hmark ro hr1 hne
  have hNl : Hedge d → lo ≠ inv → NInv d vvD' lo := fun hg hne =>
    NInv_left hg hf.1 (hq1.hedge hg).1 c hlt hmark lo hl1 hne
  cases lv with
  | true =>
    simp only [Bool.not_true, Bool.false_eq_true, if_false] at hD hE
    exact mpdRight_sim h hq1 c (φ c) ro rv hrolt hNr r r' hD hE
  | false =>
    simp only [Bool.not_false, if_true] at hD hE
    have hlolt : lo < 3 * d.numFaces := by
      rcases hl2 with e2 | e2
      · exact absurd e2 (faceVisited_false hlv).1
      · exact e2
    have hlne : lo ≠ inv := h.ne_inv lo hlolt
    rw [ext_of_ne φ hlne] at hE
    obtain ⟨degD', degE', p, hdeg, hD, hE⟩ := mpdPrioK_sim h hc2 hq1.deg lo hlolt _ _ r r' hD hE
    have hb := hq.best
    subst hb
    have hq2 : TRelQ d e φ ψ facesD facesE n (fun _ => False) (fvD.setIfInBounds (c / 3) true) vvD' outD' degD' s0D s1D
        s2D bestE (fvE.setIfInBounds (φ c / 3) true) vvE' outE' degE' s0E s1E s2E bestE := { hq1 with deg := hdeg }
    by_cases hp : (rv && decide (p ≤ bestE)) = true
    · rw [if_pos hp] at hD hE
      simp only [pure, Except.pure] at hD hE
      cases hD
      cases hE
      refine Or.inl ⟨_, _, rfl, rfl, ?_, hlolt, rfl, fun hg => hNl hg hlne, rfl, rfl⟩
      exact TRelQ.weaken hq2 _ (fun _ hf => hf.elim)
    · rw [if_neg hp, mpdPushK_eq] at hD hE
      exact mpdRight_sim h (TRelQ.push h hq2 p lo hlolt (fun hg => hNl hg hlne)) c (φ c) ro rv hrolt hNr r r' hD hE

end

theorem trav_isEmpty_map (f : Nat → Nat) (a : Array Nat) : (a.map f).isEmpty = a.isEmpty := by simp [Array.isEmpty]

theorem trav_size_pos_of_not_isEmpty {a : Array Nat} (h : a.isEmpty = false) : 0 < a.size := by
  rcases Nat.eq_zero_or_pos a.size with e0 | e0
  · have : a.isEmpty = true := by simp [Array.isEmpty, e0]
    rw [this] at h; cases h
  · exact e0

theorem trav_size_zero_of_isEmpty {a : Array Nat} (h : a.isEmpty = true) : a.size = 0 := by
  simpa [Array.isEmpty] using h

theorem trav_not_mem_of_size_zero {a : Array Nat} {x : Nat} (h : a.size = 0) : ¬ x ∈ a := by
  have : a = #[] := Array.eq_empty_of_size_eq_zero h
  rw [this]; simp

section
variable {d e : TView} {φ ψ : Nat → Nat} {facesD facesE : Array Nat} {n : Nat}
  {fvD vvD : Array Bool} {outD : SeqOut} {degD s0D s1D s2D : Array Nat} {bestD : Nat}
  {fvE vvE : Array Bool} {outE : SeqOut} {degE s0E s1E s2E : Array Nat} {bestE : Nat}

theorem TRelQ.pop0 (h : TVIso d e φ ψ)
    (hq : TRelQ d e φ ψ facesD facesE n (fun _ => False) fvD vvD outD degD s0D s1D s2D bestD
      fvE vvE outE degE s0E s1E s2E bestE) (hne : 0 < s0D.size) :
    TRelQ d e φ ψ facesD facesE n (fun j => s0D.back! = 3 * j) fvD vvD outD degD s0D.pop s1D s2D 0
      fvE vvE outE degE s0E.pop s1E s2E 0 ∧ s0D.back! < 3 * d.numFaces ∧ s0E.back! = φ s0D.back! ∧
      (Hedge d → NInv d vvD s0D.back!) := by
  have hin : InS s0D.back! s0D s1D s2D := Or.inl (trav_back_mem hne)
  have hlt := hq.s_lt _ hin
  refine ⟨?_, hlt, ?_, fun hg => (hq.hedge hg).2 _ hin⟩
  · refine { core := hq.core, deg := hq.deg, s0 := by rw [hq.s0]; simp, s1 := hq.s1, s2 := hq.s2, s_lt := ?_,
             best := rfl, low := ⟨fun hh => by omega, fun hh => by omega⟩, k := ?_, hedge := ?_ }
    · intro x hx
      exact hq.s_lt x (hx.elim (fun e1 => Or.inl (trav_mem_of_mem_pop e1)) Or.inr)
    · intro j hj
      rcases hq.k j hj with e1 | e1 | e1
      · exact Or.inl e1
      · rcases e1 with e1 | e1
        · rcases trav_mem_pop_or_eq_back e1 with e2 | e2
          · exact Or.inr (Or.inl (Or.inl e2))
          · exact Or.inr (Or.inr e2.symm)
        · exact Or.inr (Or.inl (Or.inr e1))
      · exact e1.elim
    · intro hg
      obtain ⟨hj, hs⟩ := hq.hedge hg
      exact ⟨hj, fun x hx => hs x (hx.elim (fun e1 => Or.inl (trav_mem_of_mem_pop e1)) Or.inr)⟩
  · rw [hq.s0, trav_back_map hne, ext_of_ne φ (h.ne_inv _ hlt)]

theorem TRelQ.pop1 (h : TVIso d e φ ψ)
    (hq : TRelQ d e φ ψ facesD facesE n (fun _ => False) fvD vvD outD degD s0D s1D s2D bestD
      fvE vvE outE degE s0E s1E s2E bestE) (hne : 0 < s1D.size) (h0 : s0D.size = 0) :
    TRelQ d e φ ψ facesD facesE n (fun j => s1D.back! = 3 * j) fvD vvD outD degD s0D s1D.pop s2D 1
      fvE vvE outE degE s0E s1E.pop s2E 1 ∧ s1D.back! < 3 * d.numFaces ∧ s1E.back! = φ s1D.back! ∧
      (Hedge d → NInv d vvD s1D.back!) := by
  have hin : InS s1D.back! s0D s1D s2D := Or.inr (Or.inl (trav_back_mem hne))
  have hlt := hq.s_lt _ hin
  refine ⟨?_, hlt, ?_, fun hg => (hq.hedge hg).2 _ hin⟩
  · refine { core := hq.core, deg := hq.deg, s0 := hq.s0, s1 := by rw [hq.s1]; simp, s2 := hq.s2, s_lt := ?_,
             best := rfl, low := ⟨fun _ => h0, fun hh => by omega⟩, k := ?_, hedge := ?_ }
    · intro x hx
      exact hq.s_lt x (hx.elim Or.inl fun e1 => e1.elim (fun e2 => Or.inr (Or.inl (trav_mem_of_mem_pop e2)))
        fun e2 => Or.inr (Or.inr e2))
    · intro j hj
      rcases hq.k j hj with e1 | e1 | e1
      · exact Or.inl e1
      · rcases e1 with e1 | e1 | e1
        · exact Or.inr (Or.inl (Or.inl e1))
        · rcases trav_mem_pop_or_eq_back e1 with e2 | e2
          · exact Or.inr (Or.inl (Or.inr (Or.inl e2)))
          · exact Or.inr (Or.inr e2.symm)
        · exact Or.inr (Or.inl (Or.inr (Or.inr e1)))
      · exact e1.elim
    · intro hg
      obtain ⟨hj, hs⟩ := hq.hedge hg
      exact ⟨hj, fun x hx => hs x (hx.elim Or.inl fun e1 => e1.elim (fun e2 => Or.inr (Or.inl (trav_mem_of_mem_pop e2)))
        fun e2 => Or.inr (Or.inr e2))⟩
  · rw [hq.s1, trav_back_map hne, ext_of_ne φ (h.ne_inv _ hlt)]

theorem TRelQ.pop2 (h : TVIso d e φ ψ)
    (hq : TRelQ d e φ ψ facesD facesE n (fun _ => False) fvD vvD outD degD s0D s1D s2D bestD
      fvE vvE outE degE s0E s1E s2E bestE) (hne : 0 < s2D.size) (h0 : s0D.size = 0) (h1 : s1D.size = 0) :
    TRelQ d e φ ψ facesD facesE n (fun j => s2D.back! = 3 * j) fvD vvD outD degD s0D s1D s2D.pop 2
      fvE vvE outE degE s0E s1E s2E.pop 2 ∧ s2D.back! < 3 * d.numFaces ∧ s2E.back! = φ s2D.back! ∧
      (Hedge d → NInv d vvD s2D.back!) := by
  have hin : InS s2D.back! s0D s1D s2D := Or.inr (Or.inr (trav_back_mem hne))
  have hlt := hq.s_lt _ hin
  refine ⟨?_, hlt, ?_, fun hg => (hq.hedge hg).2 _ hin⟩
  · refine { core := hq.core, deg := hq.deg, s0 := hq.s0, s1 := hq.s1, s2 := by rw [hq.s2]; simp, s_lt := ?_,
             best := rfl, low := ⟨fun _ => h0, fun _ => h1⟩, k := ?_, hedge := ?_ }
    · intro x hx
      exact hq.s_lt x (hx.elim Or.inl fun e1 => e1.elim (fun e2 => Or.inr (Or.inl e2))
        fun e2 => Or.inr (Or.inr (trav_mem_of_mem_pop e2)))
    · intro j hj
      rcases hq.k j hj with e1 | e1 | e1
      · exact Or.inl e1
      · rcases e1 with e1 | e1 | e1
        · exact Or.inr (Or.inl (Or.inl e1))
        · exact Or.inr (Or.inl (Or.inr (Or.inl e1)))
        · rcases trav_mem_pop_or_eq_back e1 with e2 | e2
          · exact Or.inr (Or.inl (Or.inr (Or.inr e2)))
          · exact Or.inr (Or.inr e2.symm)
      · exact e1.elim
    · intro hg
      obtain ⟨hj, hs⟩ := hq.hedge hg
      exact ⟨hj, fun x hx => hs x (hx.elim Or.inl fun e1 => e1.elim (fun e2 => Or.inr (Or.inl e2))
        fun e2 => Or.inr (Or.inr (trav_mem_of_mem_pop e2)))⟩
  · rw [hq.s2, trav_back_map hne, ext_of_ne φ (h.ne_inv _ hlt)]

/-- the rest of an iteration of the stack loop once corresponding corners are popped -/
theorem mpdAfterPop_sim (h : TVIso d e φ ψ) (fuelD fuelE : Nat) (hn : n ≤ d.numFaces) (c cE : Nat)
    (hq : TRelQ d e φ ψ facesD facesE n (fun j => c = 3 * j) fvD vvD outD degD s0D s1D s2D bestD
      fvE vvE outE degE s0E s1E s2E bestE)
    (hlt : c < 3 * d.numFaces) (hcE : cE = φ c) (hN : Hedge d → NInv d vvD c) (r r' : ForInStep StPM)
    (hD : mpdAfterPop d facesD fuelD fvD vvD outD degD false s0D s1D s2D bestD c = .ok r)
    (hE : mpdAfterPop e facesE fuelE fvE vvE outE degE false s0E s1E s2E bestE cE = .ok r') :
    ∃ s' t', r = .yield s' ∧ r' = .yield t' ∧ TRelPM d e φ ψ facesD facesE n s' t' := by
  have hf := h.fits
  subst hcE
  have hne : c ≠ inv := h.ne_inv c hlt
  have hneE : φ c ≠ inv := h.phi_ne_inv c hlt
  unfold mpdAfterPop at hD hE
  simp only [beq_iff_eq, hne, hneE, if_false] at hD hE
  rw [faceVisited_div _ _ hne] at hD
  have hfc := faceVisited_corr h hq.core c (Or.inr hlt)
  rw [ext_of_ne φ hne] at hfc
  rw [faceVisited_div _ _ hneE, hfc] at hE
  rw [bind_ok_iff] at hD hE
  obtain ⟨b, hb, hD⟩ := hD
  obtain ⟨b', hb', hE⟩ := hE
  rw [hb] at hb'
  cases hb'
  cases b with
  | true =>
    simp only [if_true, pure, Except.pure] at hD hE
    cases hD
    cases hE
    refine ⟨_, _, rfl, rfl, ⟨?_, rfl, rfl⟩⟩
    refine { hq with k := ?_ }
    intro j hj
    rcases hq.k j hj with e1 | e1 | e1
    · exact Or.inl e1
    · exact Or.inr (Or.inl e1)
    · left
      have e2 : c = 3 * j := e1
      have : faceOfCorner c = j := by
        simp only [faceOfCorner, beq_iff_eq]
        rw [if_neg hne]
        omega
      rw [this] at hb
      unfold faceVisited at hb
      rw [if_neg (by have := hn; simp; omega)] at hb
      exact (trav_rdB_ok_iff _ _ _ _).1 hb
  | false =>
    simp only [Bool.false_eq_true, if_false] at hD hE
    rw [bind_ok_iff] at hD hE
    obtain ⟨sD, hlD, hD⟩ := hD
    obtain ⟨sE, hlE, hE⟩ := hE
    split at hD
    · exact absurd hD (trav_throw_ne_ok _ _)
    split at hE
    · exact absurd hE (trav_throw_ne_ok _ _)
    rename_i hfD hfE
    simp only [pure, Except.pure] at hD hE
    cases hD
    cases hE
    simp only [Std.Legacy.Range.forIn_eq_forIn_range'] at hlD hlE
    have hres := forIn_sim_break (mpdInner d facesD) (mpdInner e facesE) (TRelPI d e φ ψ facesD facesE n)
      (TRelPID d e φ ψ facesD facesE n) (fun s => s.2.2.2.2.2.2.2.2.2 = true) (fun t => t.2.2.2.2.2.2.2.2.2 = true)
      (fun s t hrel => by simp [hrel.2.2.2.2.1, hrel.2.2.2.2.2])
      (fun s t r r' hrel h1 h2 => mpdInner_sim h n s t r r' hrel h1 h2)
      _ _ _ _ sD sE ?_ hlD hlE (by simpa using hfD) (by simpa using hfE)
    · exact ⟨_, _, rfl, rfl, ⟨hres, rfl, rfl⟩⟩
    · exact ⟨hq, hlt, rfl, hN, rfl, rfl⟩

/-- an iteration of the loop over the stacks, on corresponding states -/
theorem mpdMid_sim (h : TVIso d e φ ψ) (n fuelD fuelE : Nat) (hn : n ≤ d.numFaces) (s t : StPM) (r r' : ForInStep StPM)
    (hr : TRelPM d e φ ψ facesD facesE n s t)
    (hD : mpdMid d facesD fuelD s = .ok r) (hE : mpdMid e facesE fuelE t = .ok r') :
    (∃ s' t', r = .yield s' ∧ r' = .yield t' ∧ TRelPM d e φ ψ facesD facesE n s' t') ∨
    (∃ s' t', r = .done s' ∧ r' = .done t' ∧ TRelPMD d e φ ψ facesD facesE n s' t') := by
  obtain ⟨fvD, vvD, outD, degD, s0D, s1D, s2D, bestD, finD⟩ := s
  obtain ⟨fvE, vvE, outE, degE, s0E, s1E, s2E, bestE, finE⟩ := t
  obtain ⟨hq, f1, f2⟩ := hr
  simp only at hq f1 f2
  subst f1 f2
  have hb := hq.best
  subst hb
  unfold mpdMid mpdMidC at hD hE
  simp only at hD hE
  have e0 : s0E.isEmpty = s0D.isEmpty := by rw [hq.s0, trav_isEmpty_map]
  have e1 : s1E.isEmpty = s1D.isEmpty := by rw [hq.s1, trav_isEmpty_map]
  have e2 : s2E.isEmpty = s2D.isEmpty := by rw [hq.s2, trav_isEmpty_map]
  rw [e0, e1, e2] at hE
  by_cases c0 : (decide (bestE ≤ 0) && !s0D.isEmpty) = true
  · rw [if_pos c0] at hD hE
    have hne : 0 < s0D.size := trav_size_pos_of_not_isEmpty (by simpa using (Bool.and_eq_true_iff.1 c0).2)
    obtain ⟨hq', hlt, hcE, hN⟩ := hq.pop0 h hne
    exact Or.inl (mpdAfterPop_sim h fuelD fuelE hn _ _ hq' hlt hcE hN r r' hD hE)
  rw [if_neg c0] at hD hE
  have h0 : s0D.size = 0 := by
    by_cases hb0 : bestE ≤ 0
    · have : s0D.isEmpty = true := by
        by_contra hh
        exact c0 (by simp [hb0, hh])
      exact trav_size_zero_of_isEmpty this
    · exact hq.low.1 (by omega)
  by_cases c1 : (decide (bestE ≤ 1) && !s1D.isEmpty) = true
  · rw [if_pos c1] at hD hE
    have hne : 0 < s1D.size := trav_size_pos_of_not_isEmpty (by simpa using (Bool.and_eq_true_iff.1 c1).2)
    obtain ⟨hq', hlt, hcE, hN⟩ := hq.pop1 h hne h0
    exact Or.inl (mpdAfterPop_sim h fuelD fuelE hn _ _ hq' hlt hcE hN r r' hD hE)
  rw [if_neg c1] at hD hE
  have h1 : s1D.size = 0 := by
    by_cases hb1 : bestE ≤ 1
    · have : s1D.isEmpty = true := by
        by_contra hh
        exact c1 (by simp [hb1, hh])
      exact trav_size_zero_of_isEmpty this
    · exact hq.low.2 (by omega)
  by_cases c2 : (!s2D.isEmpty) = true
  · rw [if_pos c2] at hD hE
    have hne : 0 < s2D.size := trav_size_pos_of_not_isEmpty (by simpa using c2)
    obtain ⟨hq', hlt, hcE, hN⟩ := hq.pop2 h hne h0 h1
    exact Or.inl (mpdAfterPop_sim h fuelD fuelE hn _ _ hq' hlt hcE hN r r' hD hE)
  rw [if_neg c2] at hD hE
  have h2 : s2D.size = 0 := trav_size_zero_of_isEmpty (by simpa using c2)
  unfold mpdAfterPop at hD hE
  simp only [beq_self_eq_true, if_true, pure, Except.pure] at hD hE
  cases hD
  cases hE
  exact Or.inr ⟨_, _, rfl, rfl, hq, h0, h1, h2⟩

end

section
variable {d e : TView} {φ ψ : Nat → Nat} {facesD facesE : Array Nat}
  {fvD vvD : Array Bool} {outD : SeqOut} {degD s0D s1D s2D : Array Nat} {bestD : Nat}
  {fvE vvE : Array Bool} {outE : SeqOut} {degE s0E s1E s2E : Array Nat} {bestE : Nat}

/-- `TraverseFromCorner` of the prediction degree traverser from corresponding corners -/
theorem mpdFrom_sim (h : TVIso d e φ ψ) (fuelD fuelE i : Nat) (hi : i < d.numFaces)
    (hq : TRelQ d e φ ψ facesD facesE i (fun _ => False) fvD vvD outD degD s0D s1D s2D bestD
      fvE vvE outE degE s0E s1E s2E bestE)
    (h0 : s0D.size = 0) (h1 : s1D.size = 0) (h2 : s2D.size = 0) (r r' : ForInStep StP8)
    (hD : mpdFrom d facesD fuelD (3 * i) fvD vvD outD degD (s0D.push (3 * i)) s1D s2D = .ok r)
    (hE : mpdFrom e facesE fuelE (φ (3 * i)) fvE vvE outE degE (s0E.push (φ (3 * i))) s1E s2E = .ok r') :
    ∃ s' t', r = .yield s' ∧ r' = .yield t' ∧ TRelPO d e φ ψ facesD facesE (i + 1) s' t' := by
  have hf := h.fits
  have hlt : 3 * i < 3 * d.numFaces := by omega
  have hne : 3 * i ≠ inv := by omega
  unfold mpdFrom at hD hE
  obtain ⟨nv, hn1, _, hn3, _⟩ := h.vertex (Eb.nextC (3 * i)) (TVIso.nextC_lt hlt)
  obtain ⟨pv, hp1, _, hp3, _⟩ := h.vertex (Eb.prevC (3 * i)) (TVIso.prevC_lt hlt hf.1)
  obtain ⟨tv, ht1, _, ht3, _⟩ := h.vertex (3 * i) hlt
  rw [hn1, trav_ok_bind, hp1, trav_ok_bind] at hD
  rw [← h.phi_next _ hlt, ← h.phi_prev _ hlt, hn3, trav_ok_bind, hp3, trav_ok_bind] at hE
  obtain ⟨vv1, out1, vvE1, outE1, hc1, hD, hE, hs1, hor1⟩ :=
    visitK_sim h hq.core _ nv (TVIso.nextC_lt hlt) hn1 _ _ r r' hD hE
  obtain ⟨vv2, out2, vvE2, outE2, hc2, hD, hE, hs2, hor2⟩ :=
    visitK_sim h hc1 _ pv (TVIso.prevC_lt hlt hf.1) hp1 _ _ r r' hD hE
  rw [ht1, trav_ok_bind] at hD
  rw [ht3, trav_ok_bind] at hE
  obtain ⟨vv3, out3, vvE3, outE3, hc3, hD, hE, hs3, hor3⟩ := visitK_sim h hc2 _ tv hlt ht1 _ _ r r' hD hE
  rw [bind_ok_iff] at hD hE
  obtain ⟨sD, hlD, hD⟩ := hD
  obtain ⟨sE, hlE, hE⟩ := hE
  split at hD
  · exact absurd hD (trav_throw_ne_ok _ _)
  split at hE
  · exact absurd hE (trav_throw_ne_ok _ _)
  rename_i hfD hfE
  simp only [pure, Except.pure] at hD hE
  cases hD
  cases hE
  simp only [Std.Legacy.Range.forIn_eq_forIn_range'] at hlD hlE
  have hres := forIn_sim_break (mpdMid d facesD fuelD) (mpdMid e facesE fuelE) (TRelPM d e φ ψ facesD facesE (i + 1))
    (TRelPMD d e φ ψ facesD facesE (i + 1)) (fun s => s.2.2.2.2.2.2.2.2 = true) (fun t => t.2.2.2.2.2.2.2.2 = true)
    (fun s t hrel => by simp [hrel.2.1, hrel.2.2])
    (fun s t r r' hrel h1 h2 => mpdMid_sim h (i + 1) fuelD fuelE (by omega) s t r r' hrel h1 h2)
    _ _ _ _ sD sE ?_ hlD hlE (by simpa using hfD) (by simpa using hfE)
  · exact ⟨_, _, rfl, rfl, hres⟩
  · refine ⟨?_, rfl, rfl⟩
    have hmem : ∀ x, InS x (s0D.push (3 * i)) s1D s2D → x = 3 * i := by
      intro x hx
      rcases hx with hx | hx | hx
      · rcases Array.mem_push.1 hx with hx | hx
        · exact absurd hx (trav_not_mem_of_size_zero h0)
        · exact hx
      · exact absurd hx (trav_not_mem_of_size_zero h1)
      · exact absurd hx (trav_not_mem_of_size_zero h2)
    refine { core := hc3, deg := hq.deg, s0 := by rw [hq.s0]; simp [ext_of_ne φ hne], s1 := hq.s1, s2 := hq.s2,
             s_lt := ?_, best := rfl, low := ⟨fun hh => absurd hh (Nat.lt_irrefl 0), fun hh => absurd hh (Nat.not_lt_zero 1)⟩,
             k := ?_, hedge := ?_ }
    · intro x hx
      rw [hmem x hx]; exact hlt
    · intro j hj
      rcases Nat.lt_succ_iff_lt_or_eq.1 hj with e1 | e1
      · rcases hq.k j e1 with e2 | e2 | e2
        · exact Or.inl e2
        · rcases e2 with e2 | e2 | e2
          · exact absurd e2 (trav_not_mem_of_size_zero h0)
          · exact absurd e2 (trav_not_mem_of_size_zero h1)
          · exact absurd e2 (trav_not_mem_of_size_zero h2)
        · exact e2.elim
      · subst e1
        exact Or.inr (Or.inl (Or.inl (by simp)))
    · intro hg
      refine ⟨(((hq.hedge hg).1.of_or hor1).of_or hor2).of_or hor3, ?_⟩
      intro x hx
      rw [hmem x hx]
      have n1 : VSeen d vv1 (Eb.nextC (3 * i)) := by
        intro v' hv'
        rw [hn1] at hv'; cases hv'
        exact hs1
      have n2 : VSeen d vv2 (Eb.prevC (3 * i)) := by
        intro v' hv'
        rw [hp1] at hv'; cases hv'
        exact hs2
      exact ⟨(n1.of_or hor2).of_or hor3, n2.of_or hor3⟩

end

section
variable {d e : TView} {φ ψ : Nat → Nat} {facesD facesE : Array Nat}

/-- the final states of the two prediction degree traversals correspond; every face of the decoder's table
    is visited -/
theorem maxPredictionDegree_sim (h : TVIso d e φ ψ) (order v2dInit : Array Nat) (v2dSize : Nat)
    (hsize : order.size = d.numFaces) (horder : ∀ i, i < d.numFaces → order[i]! = φ (3 * i))
    (outD outE : SeqOut)
    (hD : maxPredictionDegree d facesD v2dSize = .ok outD)
    (hE : maxPredictionDegreeOrder e facesE order v2dInit = .ok outE) :
    ∃ fvD vvD fvE vvE, TravCore d e φ ψ facesD facesE fvD vvD outD fvE vvE outE ∧
      (∀ j, j < d.numFaces → fvD[j]? = some true) ∧ (Hedge d → JInv d fvD vvD) := by
  have hf := h.fits
  rw [maxPredictionDegree_eq, bind_ok_iff] at hD
  rw [maxPredictionDegreeOrder_eq, bind_ok_iff] at hE
  obtain ⟨sD, hlD, hD⟩ := hD
  obtain ⟨sE, hlE, hE⟩ := hE
  simp only [pure, Except.pure] at hD hE
  cases hD
  cases hE
  simp only [Std.Legacy.Range.forIn_eq_forIn_range'] at hlD
  rw [← Array.forIn_toList] at hlE
  have hlen : (List.range' 0 [0:d.numFaces].size 1).length = order.toList.length := by
    simp [Std.Legacy.Range.size, hsize]
  have hres := forIn_sim_yield _ _ (TRelPO d e φ ψ facesD facesE) _ _ 0 hlen ?_ _ _ sD sE ?_ hlD hlE
  · obtain ⟨hq, h0, h1, h2⟩ := hres
    refine ⟨_, _, _, _, hq.core, ?_, fun hg => (hq.hedge hg).1⟩
    intro j hj'
    rcases hq.k j (by simpa [Std.Legacy.Range.size] using hj') with e1 | e1 | e1
    · exact e1
    · rcases e1 with e1 | e1 | e1
      · exact absurd e1 (trav_not_mem_of_size_zero h0)
      · exact absurd e1 (trav_not_mem_of_size_zero h1)
      · exact absurd e1 (trav_not_mem_of_size_zero h2)
    · exact e1.elim
  · intro i h1 h2 s t r r' hrel hfD hfE
    have hi : i < d.numFaces := by simpa [Std.Legacy.Range.size] using h1
    have e1 : (List.range' 0 [0:d.numFaces].size 1)[i] = i := by simp
    have e2 : order.toList[i] = φ (3 * i) := by
      rw [← horder i hi]
      have : i < order.size := by omega
      simp [this]
    rw [e1] at hfD
    rw [e2] at hfE
    obtain ⟨fvD, vvD, outD, degD, s0D, s1D, s2D, bestD⟩ := s
    obtain ⟨fvE, vvE, outE, degE, s0E, s1E, s2E, bestE⟩ := t
    obtain ⟨hq, h0, h1, h2⟩ := hrel
    simp only [Nat.zero_add] at hq ⊢
    simp only at hq h0 h1 h2
    obtain ⟨v, _, hv2, _, hv4⟩ := h.vertex (3 * i) (by omega)
    unfold mpdOuter at hfD hfE
    have nD : (d.numVertices == 0) = false := by simp; omega
    have nE : (e.numVertices == 0) = false := by simp; omega
    simp only [nD, nE, Bool.false_eq_true, if_false] at hfD hfE
    exact mpdFrom_sim h _ _ i hi hq h0 h1 h2 r r' hfD hfE
  · refine ⟨?_, by simp [mpdInit], by simp [mpdInit], by simp [mpdInit]⟩
    have hci := TravCore.init (facesD := facesD) (facesE := facesE) h (Array.replicate v2dSize 0) v2dInit
    refine { core := hci, deg := ?_, s0 := by simp [mpdInit], s1 := by simp [mpdInit], s2 := by simp [mpdInit],
             s_lt := ?_, best := rfl, low := ⟨fun _ => by simp [mpdInit], fun _ => by simp [mpdInit]⟩, k := ?_,
             hedge := ?_ }
    · intro c v hc hv
      obtain ⟨v0, h1, h2, _, h4⟩ := h.vertex c hc
      rw [hv] at h1; cases h1
      simp [mpdInit, h2, h4]
    · intro x hx
      simp [mpdInit, InS] at hx
    · intro j hj
      omega
    · intro _
      refine ⟨?_, ?_⟩
      · intro c _ hm
        simp [mpdInit, Array.getElem?_replicate] at hm
      · intro x hx
        simp [mpdInit, InS] at hx

/-- **Equivariance of the prediction degree traversal.** -/
theorem traversal_equivariant_mpd (h : TVIso d e φ ψ) (order v2dInit : Array Nat) (v2dSize : Nat)
    (hsize : order.size = d.numFaces) (horder : ∀ i, i < d.numFaces → order[i]! = φ (3 * i))
    (outD outE : SeqOut)
    (hD : maxPredictionDegree d facesD v2dSize = .ok outD)
    (hE : maxPredictionDegreeOrder e facesE order v2dInit = .ok outE) :
    (outE.d2c.size = outD.d2c.size ∧
      ∀ p (hp : p < outD.d2c.size), outD.d2c[p] < 3 * d.numFaces ∧ outE.d2c[p]! = φ outD.d2c[p]) ∧
    (∀ p (hp : p < outD.d2c.size) v, d.vertex outD.d2c[p] = .ok v →
      outD.v2d[v]? = some p ∧ outE.v2d[ψ v]? = some p) ∧
    (outD.pointIds.size = outD.d2c.size ∧ outE.pointIds.size = outE.d2c.size ∧
      (∀ p (hp : p < outD.d2c.size), outD.pointIds[p]? = facesD[outD.d2c[p]]?) ∧
      (∀ p (hp : p < outE.d2c.size), outE.pointIds[p]? = facesE[outE.d2c[p]]?)) := by
  obtain ⟨fvD, vvD, fvE, vvE, hc, _, _⟩ :=
    maxPredictionDegree_sim h order v2dInit v2dSize hsize horder outD outE hD hE
  exact ⟨⟨hc.d2c_size, hc.d2c⟩, fun p hp v hv => (hc.seen p hp v hv).2, hc.pidD.1, hc.pidE.1, hc.pidD.2, hc.pidE.2⟩

theorem traversal_equivariant_mpd_v2d (h : TVIso d e φ ψ) (hg : Hedge d) (order v2dInit : Array Nat) (v2dSize : Nat)
    (hsize : order.size = d.numFaces) (horder : ∀ i, i < d.numFaces → order[i]! = φ (3 * i))
    (outD outE : SeqOut)
    (hD : maxPredictionDegree d facesD v2dSize = .ok outD)
    (hE : maxPredictionDegreeOrder e facesE order v2dInit = .ok outE)
    (c v : Nat) (hc : c < 3 * d.numFaces) (hv : d.vertex c = .ok v) :
    ∃ x, (∀ site, rd site outD.v2d v = .ok x) ∧ (∀ site, rd site outE.v2d (ψ v) = .ok x) := by
  obtain ⟨fvD, vvD, fvE, vvE, hco, hall, hj⟩ :=
    maxPredictionDegree_sim h order v2dInit v2dSize hsize horder outD outE hD hE
  have hseen := hj hg c hc (hall (c / 3) (by omega)) v hv
  obtain ⟨p, hp, hpv⟩ := hco.vis v hseen
  obtain ⟨_, s2, s3⟩ := hco.seen p hp v hpv
  exact ⟨p, fun site => (trav_rd_ok_iff _ _ _ _).2 s2, fun site => (trav_rd_ok_iff _ _ _ _).2 s3⟩

theorem traversal_mdIso_mpd (h : TVIso d e φ ψ) (hg : Hedge d) (order v2dInit : Array Nat) (v2dSize : Nat)
    (hsize : order.size = d.numFaces) (horder : ∀ i, i < d.numFaces → order[i]! = φ (3 * i))
    (outD outE : SeqOut)
    (hD : maxPredictionDegree d facesD v2dSize = .ok outD)
    (hE : maxPredictionDegreeOrder e facesE order v2dInit = .ok outE) :
    MDIso ⟨d, outD.d2c, outD.v2d⟩ ⟨e, outE.d2c, outE.v2d⟩ φ ψ := by
  obtain ⟨⟨a1, a2⟩, _, _⟩ := traversal_equivariant_mpd h order v2dInit v2dSize hsize horder outD outE hD hE
  exact { view := h, d2c_size := a1, d2c := a2,
          v2d := fun c v hc hv =>
            traversal_equivariant_mpd_v2d h hg order v2dInit v2dSize hsize horder outD outE hD hE c v hc hv }

end

end Draco.EbEnc
