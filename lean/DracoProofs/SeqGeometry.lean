import DracoProofs.SeqAttrs
import DracoProofs.SeqConn
import DracoProofs.MetadataStatus
import DracoModel.Decoder
/-
  The composed round trip of the sequential point cloud / mesh coders:
  header, metadata, geometry data (number of points / connectivity), attributes.
-/
namespace Draco
open SeqEnc DecM

/-- the domain of the composed theorems -/
structure GeomOK (g : Geometry) (opts : EncOpts) : Prop where
  /-- empty geometries are not handled by the sequential coders (known finding) -/
  points : 0 < g.numPoints
  /-- `LinearSequencer` / `int32_t num_points` -/
  points31 : g.numPoints < 2 ^ 31
  /-- compressed sequential encoding handles at most (2^32 - 1) / 3 faces -/
  faces : g.faces.length ≤ 0xffffffff / 3
  /-- C03: faces refer to existing points -/
  facesValid : g.faces.all (fun (a, b, c) => a < g.numPoints && b < g.numPoints && c < g.numPoints) = true
  natts : g.atts.length < 2 ^ 32
  atts : ∀ i a, g.atts[i]? = some a → AttOK a (opts.att i) g.numPoints

theorem allSome_zipIdxFrom {α β : Type} (f : Nat → α → Option β) : ∀ (l : List α) (k : Nat) (r : List β),
    allSome ((zipIdxFrom k l).map fun ia => f ia.1 ia.2) = some r →
    r.length = l.length ∧ ∀ p ∈ l.zip r, ∃ j, l[j]? = some p.1 ∧ f (k + j) p.1 = some p.2 := by
  intro l
  induction l with
  | nil =>
    intro k r h
    simp only [zipIdxFrom, List.map_nil, allSome, Option.some.injEq] at h
    subst h
    simp
  | cons a as ih =>
    intro k r h
    simp only [zipIdxFrom, List.map_cons] at h
    cases hb : f k a with
    | none => rw [hb] at h; simp [allSome] at h
    | some b =>
      rw [hb] at h
      simp only [allSome] at h
      split at h
      · cases h
      · rename_i bs hbs
        simp only [Option.some.injEq] at h
        subst h
        obtain ⟨i1, i2⟩ := ih (k + 1) bs hbs
        refine ⟨by simp [i1], ?_⟩
        intro p hp
        simp only [List.zip_cons_cons, List.mem_cons] at hp
        rcases hp with rfl | hp
        · exact ⟨0, by simp, by simpa using hb⟩
        · obtain ⟨j, hj1, hj2⟩ := i2 p hp
          exact ⟨j + 1, by simpa using hj1, by rw [← hj2]; congr 1; omega⟩

theorem geometryMetadata_rt (m : GeometryMetadata) (h : m.WF') (rest : Bytes) :
    Leaf.decodeGeometryMetadata (encodeGeometryMetadata m ++ rest) = some (m, rest) :=
  decodeGeometryWith_enc decodeMetadataFixed m rest h.1
    (fun a ha => ⟨(h.2.1 a ha).1, fun r => decodeMetadata_enc true a.2 r (h.2.1 a ha).2.1 (h.2.1 a ha).2.2⟩)
    (fun r => decodeMetadata_enc true m.root r h.2.2.1 h.2.2.2)

/-- `PointCloudDecoder::DecodePointAttributes` reads back `PointCloudEncoder::EncodePointAttributes` -/
theorem runs_decodePointAttributes (dopts : DecOpts) (ch : Choices) (opts : EncOpts) (n v : Nat) (atts : List Attribute)
    (bs : Bytes) (encs : List AttEnc) (hv : bsVersion 2 0 ≤ v) (hn : 0 < n) (hn31 : n < 2 ^ 31)
    (hna : atts.length < 2 ^ 32) (hok : ∀ i a, atts[i]? = some a → AttOK a (opts.att i) n)
    (henc : encodePointAttributes ch opts n atts = some (bs, encs)) :
    Runs (decodePointAttributesSeq dopts n) v bs
      (List.zipWith (expectedAttributeSkip dopts.skip n) atts encs) v := by
  unfold encodePointAttributes at henc
  unfold decodePointAttributesSeq
  split at henc
  · rename_i hemp
    simp only [Option.some.injEq, Prod.mk.injEq] at henc
    obtain ⟨rfl, rfl⟩ := henc
    refine Runs.bind1 (Runs.rdU8 0 v) ?_
    rw [if_pos (by decide)]
    simpa using Runs.pure ([] : List Attribute) v
  · rename_i hemp
    split at henc
    · cases henc
    · rename_i sb encs' hsb
      simp only [Option.some.injEq, Prod.mk.injEq] at henc
      obtain ⟨rfl, rfl⟩ := henc
      refine Runs.bind1 (Runs.rdU8 1 v) ?_
      rw [if_neg (by decide), if_pos (by decide)]
      unfold encodeSequentialAttributes at hsb
      split at hsb
      · cases hsb
      · rename_i encs'' hall
        simp only [Option.some.injEq, Prod.mk.injEq] at hsb
        obtain ⟨rfl, rfl⟩ := hsb
        obtain ⟨hl, hz⟩ := allSome_zipIdxFrom (fun i a => encodeAttribute ch opts n i a) atts 0 encs'' hall
        have hs : (atts.zip encs'').map (·.2) = encs'' := List.map_snd_zip (by omega)
        have hlen : (atts.zip encs'').length = atts.length := by simp [hl]
        have hne : atts.length ≠ 0 := by
          cases atts with
          | nil => simp at hemp
          | cons _ _ => simp
        have := runs_decodeSequentialAttributes dopts n v hv hn31 (atts.zip encs'') (by omega) (by omega)
          (by
            intro p hp
            obtain ⟨j, hj1, hj2⟩ := hz p hp
            rw [Nat.zero_add] at hj2
            have ha := hok j p.1 hj1
            obtain ⟨_, g2, g3⟩ := ha.numValues_pos hn
            exact ⟨attFacts ch opts n j p.1 p.2 hn ha hj2, ha.attType, ha.dataType, g3, g2,
              ha.numComponents, ha.uniqueId⟩)
        rw [hs, hlen] at this
        unfold decodeSequentialAttributesV
        refine Runs.bind0 (Runs.version v) ?_
        rw [if_neg (by omega)]
        refine Runs.of_eq this rfl rfl ?_
        rw [List.map_zip_eq_zipWith]
        rfl

/-- `PointCloudDecoder::DecodeHeader` reads `EncodeHeader` -/
theorem runs_decodeHeader (isMesh hasMd : Bool) (v : Nat) :
    Runs decodeHeader v (encodeHeader isMesh hasMd)
      ⟨2, if isMesh then 2 else 3, if isMesh then 1 else 0, 0, if hasMd then 32768 else 0⟩ v := by
  unfold decodeHeader encodeHeader
  rw [List.append_assoc]
  refine Runs.bind (Runs.bytes _ 5 v rfl) ?_
  refine Runs.bind0 (Runs.require (by decide) v) ?_
  refine Runs.bind1 (Runs.rdU8 _ v) ?_
  refine Runs.bind1 (Runs.rdU8 _ v) ?_
  refine Runs.bind1 (Runs.rdU8 _ v) ?_
  refine Runs.bind1 (Runs.rdU8 _ v) ?_
  refine Runs.bind' (Runs.rdU16 _ v (by cases hasMd <;> decide)) (List.append_nil _).symm ?_
  refine Runs.of_eq (Runs.pure _ v) rfl rfl ?_
  cases isMesh <;> cases hasMd <;> rfl

/-- the metadata block (flag of the header, `EncodeMetadata` / `DecodeGeometryMetadata`), followed
    by an arbitrary continuation -/
theorem runs_metadataStep {β : Type} (k : Option GeometryMetadata → DecM β)
    (md : Option GeometryMetadata) (mdBytes tail : Bytes) (c : β) (v v' flags : Nat)
    (hv : bsVersion 1 3 ≤ v) (hflags : flags = if md.isSome then 32768 else 0)
    (hmd : ∀ m, md = some m → m.WF')
    (hmdb : encodeMetadataPart md = some mdBytes) (hk : Runs (k md) v tail c v') :
    Runs (if (decide (v ≥ bsVersion 1 3) && flags / 32768 % 2 == 1) = true then do
        let md ← (do let g ← lift Leaf.decodeGeometryMetadata; pure (some g))
        k md
      else do
        let md ← pure none
        k md) v (mdBytes ++ tail) c v' := by
  subst hflags
  cases md with
  | none =>
    simp only [encodeMetadataPart, Option.some.injEq] at hmdb
    subst hmdb
    rw [if_neg (by simp)]
    exact Runs.bind0 (Runs.pure _ v) hk
  | some m =>
    simp only [encodeMetadataPart] at hmdb
    split at hmdb
    · simp only [Option.some.injEq] at hmdb
      subst hmdb
      rw [if_pos (by simp; exact hv)]
      refine Runs.bind ?_ hk
      exact Runs.bind' (Runs.lift (fun extra => geometryMetadata_rt m (hmd m rfl) extra) v)
        (List.append_nil _).symm (Runs.pure _ v)
    · cases hmdb

/-- the composed theorem in `Runs` form -/
theorem runs_decodeStreamWithSkip (eb kd : DecOpts → DecM Geometry) (dopts : DecOpts)
    (ch : Choices) (g : Geometry) (md : Option GeometryMetadata)
    (opts : EncOpts) (bs : Bytes) (encs : List AttEnc) (hok : GeomOK g opts)
    (hmd : ∀ m, md = some m → m.WF')
    (henc : encodeGeometryFull ch g md opts = some (bs, encs)) :
    Runs (decodeStreamWith eb kd dopts) 0 bs ⟨expectedGeometrySkip dopts.skip g encs, md⟩
      (if g.isMesh then bsVersion 2 2 else bsVersion 2 3) := by
  unfold encodeGeometryFull encodeGeometryCore at henc
  split at henc
  · cases henc
  · rename_i mdBytes hmdb
    dsimp only at henc
    split at henc
    · cases henc
    · rename_i gd hgd
      split at henc
      · cases henc
      · rename_i ab encs' hab
        simp only [Option.some.injEq, Prod.mk.injEq] at henc
        obtain ⟨rfl, rfl⟩ := henc
        unfold decodeStreamWith
        simp only [List.append_assoc]
        refine Runs.bind (runs_decodeHeader g.isMesh md.isSome 0) ?_
        cases hm : g.isMesh with
        | true =>
          rw [hm] at hgd
          simp only [if_true] at hgd ⊢
          refine Runs.bind0 (Runs.require (by rfl) 0) ?_
          refine Runs.bind0 (Runs.require (by rfl) 0) ?_
          rw [if_neg (by show ¬ (false = true); exact Bool.false_ne_true),
            if_neg (by show ¬ (false = true); exact Bool.false_ne_true)]
          refine Runs.bind0 (Runs.setVersion _ 0) ?_
          have hconn := runs_decodeSeqConnectivity (ch.resolved g opts) opts g.numPoints g.faces gd (bsVersion 2 2)
            (Nat.le_refl _) hok.faces hok.points31 hok.facesValid hgd
          have hatts := runs_decodePointAttributes dopts (ch.resolved g opts) opts g.numPoints (bsVersion 2 2) g.atts ab encs'
            (by decide) hok.points hok.points31 hok.natts hok.atts hab
          refine runs_metadataStep _ md mdBytes _ _ (bsVersion 2 2) (bsVersion 2 2) _ (by decide) rfl hmd hmdb ?_
          rw [if_neg (by show ¬ (false = true); exact Bool.false_ne_true),
            if_neg (by show ¬ (false = true); exact Bool.false_ne_true)]
          refine Runs.bind hconn ?_
          refine Runs.bind' hatts (List.append_nil _).symm ?_
          refine Runs.of_eq (Runs.pure _ _) rfl rfl ?_
          simp [expectedGeometrySkip, hm]
        | false =>
          rw [hm] at hgd
          simp only [Bool.false_eq_true, if_false, Option.some.injEq] at hgd ⊢
          subst hgd
          refine Runs.bind0 (Runs.require (by rfl) 0) ?_
          refine Runs.bind0 (Runs.require (by rfl) 0) ?_
          rw [if_neg (by show ¬ (false = true); exact Bool.false_ne_true),
            if_neg (by show ¬ (false = true); exact Bool.false_ne_true)]
          refine Runs.bind0 (Runs.setVersion _ 0) ?_
          have hatts := runs_decodePointAttributes dopts (ch.resolved g opts) opts g.numPoints (bsVersion 2 3) g.atts ab encs'
            (by decide) hok.points hok.points31 hok.natts hok.atts hab
          have hp31 := hok.points31
          have hnp : g.numPoints % 2 ^ 32 = g.numPoints := Nat.mod_eq_of_lt (by omega)
          have hsgn : toUnsigned 32 (toSigned 32 g.numPoints) = g.numPoints := by
            unfold toUnsigned toSigned
            have e : ((2:Nat) ^ 32 : Nat) = 4294967296 := by decide
            have e' : ((2:Nat) ^ (32 - 1) : Nat) = 2147483648 := by decide
            simp only [e, e']
            have : g.numPoints < 2147483648 := by simpa using hp31
            split <;> omega
          rw [hnp]
          refine runs_metadataStep _ md mdBytes _ _ (bsVersion 2 3) (bsVersion 2 3) _ (by decide) rfl hmd hmdb ?_
          rw [if_neg (by show ¬ (false = true); exact Bool.false_ne_true),
            if_neg (by show ¬ (false = true); exact Bool.false_ne_true)]
          refine Runs.bind (Runs.rdI32 _ _ (by omega)) ?_
          rw [hsgn]
          refine Runs.bind0 (Runs.declare _ _) ?_
          refine Runs.bind' hatts (List.append_nil _).symm ?_
          refine Runs.of_eq (Runs.pure _ _) rfl rfl ?_
          simp [expectedGeometrySkip, hm]

theorem expectedGeometrySkip_nil (g : Geometry) (encs : List AttEnc) :
    expectedGeometrySkip [] g encs = expectedGeometry g encs := by
  unfold expectedGeometrySkip expectedGeometry
  congr 1
  have : expectedAttributeSkip [] g.numPoints = expectedAttribute g.numPoints := by
    funext a e; exact expectedAttributeSkip_nil _ a e
  rw [this]

/-- the composed theorem in `Runs` form (ordinary decode) -/
theorem runs_decodeStreamWith (eb kd : DecOpts → DecM Geometry)
    (ch : Choices) (g : Geometry) (md : Option GeometryMetadata)
    (opts : EncOpts) (bs : Bytes) (encs : List AttEnc) (hok : GeomOK g opts)
    (hmd : ∀ m, md = some m → m.WF')
    (henc : encodeGeometryFull ch g md opts = some (bs, encs)) :
    Runs (decodeStreamWith eb kd {}) 0 bs ⟨expectedGeometry g encs, md⟩
      (if g.isMesh then bsVersion 2 2 else bsVersion 2 3) := by
  have := runs_decodeStreamWithSkip eb kd {} ch g md opts bs encs hok hmd henc
  rwa [show ({} : DecOpts).skip = [] from rfl, expectedGeometrySkip_nil] at this

/-- the same for the complete decoder `decodeGeometry` (sequential streams never reach the
    Edgebreaker body decoder) -/
theorem runs_decodeGeometry (ch : Choices) (g : Geometry) (md : Option GeometryMetadata)
    (opts : EncOpts) (bs : Bytes) (encs : List AttEnc) (hok : GeomOK g opts)
    (hmd : ∀ m, md = some m → m.WF')
    (henc : encodeGeometryFull ch g md opts = some (bs, encs)) :
    Runs (decodeGeometry {}) 0 bs ⟨expectedGeometry g encs, md⟩
      (if g.isMesh then bsVersion 2 2 else bsVersion 2 3) :=
  runs_decodeStreamWith Eb.decodeEdgebreaker Kd.decodeKdGeometry ch g md opts bs encs hok hmd henc

/-! ### the decoded geometry does not depend on the choices -/

theorem expectedAttribute_eq (ch : Choices) (opts : EncOpts) (n i : Nat) (a : Attribute) (e : AttEnc)
    (h : encodeAttribute ch opts n i a = some e) :
    expectedAttribute n a e = expectedAttributeOf opts n i a := by
  unfold expectedAttributeOf
  rcases encodeAttribute_cases ch opts n i a e h with ⟨h0, rfl⟩ | ⟨h1, portable, vb, hp, hvb, rfl⟩ |
      ⟨h2, mins, range, q, vb, hq, hvb, rfl⟩ | ⟨h3, hnc3, t, vb, ht, hvb, rfl⟩
  · simp only [h0, expectedAttribute]
  · simp only [h1, expectedAttribute]
  · simp only [h2, expectedAttribute, hq, Int.toNat_natCast]
  · simp only [h3, expectedAttribute, ht, Int.toNat_natCast]

theorem expectedGeometry_eq (ch : Choices) (g : Geometry) (md : Option GeometryMetadata)
    (opts : EncOpts) (bs : Bytes) (encs : List AttEnc)
    (henc : encodeGeometryFull ch g md opts = some (bs, encs)) :
    expectedGeometry g encs = expected g opts := by
  unfold encodeGeometryFull encodeGeometryCore at henc
  split at henc
  · cases henc
  · dsimp only at henc
    split at henc
    · cases henc
    · split at henc
      · cases henc
      · rename_i ab encs' hab
        simp only [Option.some.injEq, Prod.mk.injEq] at henc
        obtain ⟨_, rfl⟩ := henc
        unfold expectedGeometry expected
        congr 1
        unfold encodePointAttributes at hab
        split at hab
        · rename_i hemp
          simp only [Option.some.injEq, Prod.mk.injEq] at hab
          obtain ⟨_, rfl⟩ := hab
          have : g.atts = [] := by simpa using hemp
          rw [this]; rfl
        · split at hab
          · cases hab
          · rename_i sb encs'' hsb
            simp only [Option.some.injEq, Prod.mk.injEq] at hab
            obtain ⟨_, rfl⟩ := hab
            unfold encodeSequentialAttributes at hsb
            split at hsb
            · cases hsb
            · rename_i encs3 hall
              simp only [Option.some.injEq, Prod.mk.injEq] at hsb
              obtain ⟨_, rfl⟩ := hsb
              -- pointwise
              have key : ∀ (l : List Attribute) (k : Nat) (r : List AttEnc),
                  allSome ((zipIdxFrom k l).map fun ia => encodeAttribute (ch.resolved g opts) opts g.numPoints ia.1 ia.2) = some r →
                  List.zipWith (expectedAttribute g.numPoints) l r =
                    (zipIdxFrom k l).map fun ia => expectedAttributeOf opts g.numPoints ia.1 ia.2 := by
                intro l
                induction l with
                | nil =>
                  intro k r h
                  simp only [zipIdxFrom, List.map_nil, allSome, Option.some.injEq] at h
                  subst h; rfl
                | cons a as ih =>
                  intro k r h
                  simp only [zipIdxFrom, List.map_cons] at h
                  cases hb : encodeAttribute (ch.resolved g opts) opts g.numPoints k a with
                  | none => rw [hb] at h; simp [allSome] at h
                  | some b =>
                    rw [hb] at h
                    simp only [allSome] at h
                    split at h
                    · cases h
                    · rename_i bs' hbs
                      simp only [Option.some.injEq] at h
                      subst h
                      simp only [List.zipWith_cons_cons, zipIdxFrom, List.map_cons, List.cons.injEq]
                      exact ⟨expectedAttribute_eq (ch.resolved g opts) opts g.numPoints k a b hb, ih (k + 1) bs' hbs⟩
              exact key g.atts 0 encs3 hall

/-! ### skip decode: choice-free form -/

theorem encodeGeometryFull_atts (ch : Choices) (g : Geometry) (md : Option GeometryMetadata)
    (opts : EncOpts) (bs : Bytes) (encs : List AttEnc)
    (henc : encodeGeometryFull ch g md opts = some (bs, encs)) :
    allSome ((zipIdxFrom 0 g.atts).map fun ia =>
      encodeAttribute (ch.resolved g opts) opts g.numPoints ia.1 ia.2) = some encs := by
  unfold encodeGeometryFull encodeGeometryCore at henc
  split at henc
  · cases henc
  · dsimp only at henc
    split at henc
    · cases henc
    · split at henc
      · cases henc
      · rename_i ab encs' hab
        simp only [Option.some.injEq, Prod.mk.injEq] at henc
        obtain ⟨_, rfl⟩ := henc
        unfold encodePointAttributes at hab
        split at hab
        · rename_i hemp
          simp only [Option.some.injEq, Prod.mk.injEq] at hab
          obtain ⟨_, rfl⟩ := hab
          have : g.atts = [] := by simpa using hemp
          rw [this]; rfl
        · split at hab
          · cases hab
          · rename_i sb encs'' hsb
            simp only [Option.some.injEq, Prod.mk.injEq] at hab
            obtain ⟨_, rfl⟩ := hab
            unfold encodeSequentialAttributes at hsb
            split at hsb
            · cases hsb
            · rename_i encs3 hall
              simp only [Option.some.injEq, Prod.mk.injEq] at hsb
              obtain ⟨_, rfl⟩ := hsb
              exact hall

theorem zipWith_eq_of_allSome (ch : Choices) (opts : EncOpts) (n : Nat)
    (F : Attribute → AttEnc → Attribute) (G : Nat → Attribute → Attribute)
    (hFG : ∀ i a e, encodeAttribute ch opts n i a = some e → F a e = G i a) :
    ∀ (l : List Attribute) (k : Nat) (r : List AttEnc),
      allSome ((zipIdxFrom k l).map fun ia => encodeAttribute ch opts n ia.1 ia.2) = some r →
      List.zipWith F l r = (zipIdxFrom k l).map fun ia => G ia.1 ia.2 := by
  intro l
  induction l with
  | nil =>
    intro k r h
    simp only [zipIdxFrom, List.map_nil, allSome, Option.some.injEq] at h
    subst h; rfl
  | cons a as ih =>
    intro k r h
    simp only [zipIdxFrom, List.map_cons] at h
    cases hb : encodeAttribute ch opts n k a with
    | none => rw [hb] at h; simp [allSome] at h
    | some b =>
      rw [hb] at h
      simp only [allSome] at h
      split at h
      · cases h
      · rename_i bs' hbs
        simp only [Option.some.injEq] at h
        subst h
        simp only [List.zipWith_cons_cons, zipIdxFrom, List.map_cons, List.cons.injEq]
        exact ⟨hFG k a b hb, ih (k + 1) bs' hbs⟩

theorem portableOf_eq (ch : Choices) (opts : EncOpts) (n i : Nat) (a : Attribute) (e : AttEnc)
    (h : encodeAttribute ch opts n i a = some e) :
    e.encType = encoderType a (opts.att i) ∧ (e.encType ≠ 0 → portableOf opts n i a = (e.portable, e.transform)) := by
  unfold portableOf
  rcases encodeAttribute_cases ch opts n i a e h with ⟨h0, rfl⟩ | ⟨h1, portable, vb, hp, hvb, rfl⟩ |
      ⟨h2, mins, range, q, vb, hq, hvb, rfl⟩ | ⟨h3, hnc3, t, vb, ht, hvb, rfl⟩
  · exact ⟨h0.symm, fun hc => absurd rfl hc⟩
  · refine ⟨h1.symm, fun _ => ?_⟩
    simp only [h1, hp, Option.getD_some]
  · refine ⟨h2.symm, fun _ => ?_⟩
    simp only [h2, hq]
  · refine ⟨h3.symm, fun _ => ?_⟩
    simp only [h3, ht]

theorem expectedAttributeSkip_eq (skip : List Nat) (ch : Choices) (opts : EncOpts) (n i : Nat)
    (a : Attribute) (e : AttEnc) (h : encodeAttribute ch opts n i a = some e) :
    expectedAttributeSkip skip n a e = expectedSkipAttributeOf skip opts n i a := by
  obtain ⟨hty, hp⟩ := portableOf_eq ch opts n i a e h
  unfold expectedAttributeSkip expectedSkipAttributeOf
  simp only [← hty]
  by_cases hc : (e.encType != 0 && skip.contains a.attType) = true
  · have hne : e.encType ≠ 0 := by
      intro h0; rw [h0] at hc; simp at hc
    simp only [hc, if_true, hp hne]
  · simp only [hc, Bool.false_eq_true, if_false]
    exact expectedAttribute_eq ch opts n i a e h

theorem expectedGeometrySkip_eq (skip : List Nat) (ch : Choices) (g : Geometry)
    (md : Option GeometryMetadata) (opts : EncOpts) (bs : Bytes) (encs : List AttEnc)
    (henc : encodeGeometryFull ch g md opts = some (bs, encs)) :
    expectedGeometrySkip skip g encs = expectedSkip skip g opts := by
  unfold expectedGeometrySkip expectedSkip
  congr 1
  exact zipWith_eq_of_allSome (ch.resolved g opts) opts g.numPoints _ _
    (fun i a e h => expectedAttributeSkip_eq skip (ch.resolved g opts) opts g.numPoints i a e h) g.atts 0 encs
    (encodeGeometryFull_atts ch g md opts bs encs henc)

/-! ### applying the described transform to a skipped attribute gives the ordinary decode (C10) -/

theorem portable_of_skipped_values (P : List Int) (h : ∀ x ∈ P, -2 ^ 31 ≤ x ∧ x < 2 ^ 31) :
    (leGroups 4 (P.map (intToLE 4)).flatten).map (toSigned 32) = P := by
  have e : P.map (intToLE 4) = (P.map (toUnsigned 32)).map (writeLE 4) := by
    rw [List.map_map]; rfl
  rw [e, leGroups_writeLE 4 (by decide) _ (by
    intro s hs
    simp only [List.mem_map] at hs
    obtain ⟨x, _, rfl⟩ := hs
    exact Wrap.toUnsigned32_lt x), map_toSigned_toUnsigned P h]

theorem applySkippedTransform_spec (skip : List Nat) (n : Nat) (a : Attribute) (e : AttEnc)
    (f : AttFacts n a e) (hne : e.encType ≠ 0) (hs : skip.contains a.attType = true) :
    applySkippedTransform a.dataType (expectedAttributeSkip skip n a e) = (expectedAttribute n a e).values := by
  have hne' : (e.encType != 0) = true := by simpa using hne
  unfold applySkippedTransform expectedAttributeSkip
  simp only [hne', hs, Bool.and_self, if_true]
  rw [portable_of_skipped_values e.portable f.range]
  have hty := f.ty
  have hc : e.encType = 1 ∨ e.encType = 2 ∨ e.encType = 3 := by omega
  rcases hc with h1 | h2 | h3
  · obtain ⟨t1, _, _, _, t5⟩ := f.tr1 h1
    simp only [t1, expectedAttribute, h1, AttDesc.toAttribute, t5]
  · obtain ⟨mins, range, q, t1, _⟩ := f.tr2 h2
    simp only [t1, expectedAttribute, h2, AttDesc.toAttribute]
  · obtain ⟨q, t1, _⟩ := f.tr3 h3
    simp only [t1, expectedAttribute, h3, AttDesc.toAttribute]

theorem allSome_zipIdxFrom_index {α β : Type} (f : Nat → α → Option β) : ∀ (l : List α) (k : Nat) (r : List β),
    allSome ((zipIdxFrom k l).map fun ia => f ia.1 ia.2) = some r →
    ∀ i a, l[i]? = some a → ∃ e, r[i]? = some e ∧ f (k + i) a = some e := by
  intro l
  induction l with
  | nil => intro k r _ i a h; simp at h
  | cons x xs ih =>
    intro k r h i a hi
    simp only [zipIdxFrom, List.map_cons] at h
    cases hb : f k x with
    | none => rw [hb] at h; simp [allSome] at h
    | some b =>
      rw [hb] at h
      simp only [allSome] at h
      split at h
      · cases h
      · rename_i bs hbs
        simp only [Option.some.injEq] at h
        subst h
        cases i with
        | zero =>
          simp only [List.getElem?_cons_zero, Option.some.injEq] at hi
          subst hi
          exact ⟨b, by simp, by simpa using hb⟩
        | succ j =>
          simp only [List.getElem?_cons_succ] at hi
          obtain ⟨e, he1, he2⟩ := ih (k + 1) bs hbs j a hi
          exact ⟨e, by simpa using he1, by rw [← he2]; congr 1; omega⟩

/-- every attribute of a successfully encoded geometry was successfully encoded -/
theorem encodeAttribute_of_index (ch : Choices) (g : Geometry) (md : Option GeometryMetadata)
    (opts : EncOpts) (bs : Bytes) (encs : List AttEnc)
    (henc : encodeGeometryFull ch g md opts = some (bs, encs)) (i : Nat) (a : Attribute)
    (hi : g.atts[i]? = some a) :
    ∃ e, encs[i]? = some e ∧ encodeAttribute (ch.resolved g opts) opts g.numPoints i a = some e := by
  have := allSome_zipIdxFrom_index (fun i a => encodeAttribute (ch.resolved g opts) opts g.numPoints i a) g.atts 0 encs
    (encodeGeometryFull_atts ch g md opts bs encs henc) i a hi
  simpa using this

theorem encodeGeometry_full (ch : Choices) (g : Geometry) (md : Option GeometryMetadata)
    (opts : EncOpts) (bs : Bytes) (henc : encodeGeometry ch g md opts = some bs) :
    ∃ encs, encodeGeometryFull ch g md opts = some (bs, encs) := by
  unfold encodeGeometry at henc
  cases hf : encodeGeometryFull ch g md opts with
  | none => rw [hf] at henc; cases henc
  | some r =>
    obtain ⟨bs', encs⟩ := r
    rw [hf] at henc
    simp only [Option.map_some, Option.some.injEq] at henc
    subst henc
    exact ⟨encs, rfl⟩

end Draco
