import DracoProofs.Varint
import DracoProofs.MetadataSpec
/-
  Round trip of the metadata coder on encodable canonical trees.
-/
namespace Draco

theorem decVarint32_enc (v : Nat) (h : v < 2^32) (rest : Bytes) :
    decVarint 32 (encVarint v ++ rest) = some (v, rest) := by
  unfold decVarint encVarint
  exact decVarintAux_enc 32 rest (varintMaxDepth 32) 10 v (by decide)
    (by have : varintMaxDepth 32 = 5 := by decide
        rw [this]; omega) (by decide) h

theorem decodeName_enc (n nb rest : Bytes) (h : encodeString n = some nb) :
    decodeName (nb ++ rest) = some (n, rest) := by
  unfold encodeString at h
  split at h
  · cases h
  · cases h
    cases n with
    | nil => simp [decodeName, readU8]
    | cons a t => simp [decodeName, readU8, readBytes]

theorem encodeString_ok (n : Bytes) (h : n.length ≤ 255) :
    encodeString n = some (n.length :: n) := by
  unfold encodeString
  have : ¬ n.length > 255 := by omega
  simp [this]

theorem decodeEntry_enc (ae : Bool) (name value rest : Bytes)
    (hn : name.length ≤ 255) (hv : value.length < 2^32) (he : ae = false → value ≠ []) :
    decodeEntry ae ((name.length :: name) ++ (encVarint (value.length % 2^32) ++
      (value.take (value.length % 2^32) ++ rest))) = some ((name, value), rest) := by
  have hm : value.length % 2^32 = value.length := Nat.mod_eq_of_lt hv
  rw [hm, List.take_length]
  unfold decodeEntry
  rw [decodeName_enc name _ _ (encodeString_ok name hn)]
  simp only
  rw [decVarint32_enc _ hv]
  have h1 : ¬ (value.length = 0 ∧ ae = false) := by
    rintro ⟨h0, hae⟩
    exact he hae (List.eq_nil_of_length_eq_zero h0)
  have h2 : ¬ value.length > (value ++ rest).length := by
    rw [List.length_append]; omega
  simp only [h1, h2, if_false, readBytes, List.take_left', List.drop_left']

/-- the head of the accumulator (largest key so far) is below the next key to come -/
def LtHead {α β : Type} : List (Bytes × α) → List (Bytes × β) → Prop
  | a :: _, e :: _ => bytesLt a.1 e.1 = true
  | _, _ => True

theorem insertDesc_ltHead {α : Type} (k : Bytes) (v : α) (acc : List (Bytes × α))
    (t : List (Bytes × α)) (h : LtHead acc ((k, v) :: t)) :
    insertDesc k v acc = (k, v) :: acc := by
  cases acc with
  | nil => rfl
  | cons a acc =>
    obtain ⟨k', v'⟩ := a
    simp only [LtHead] at h
    simp [insertDesc, h]

theorem insertNewDesc_ltHead {α : Type} (k : Bytes) (v : α) (acc : List (Bytes × α))
    (t : List (Bytes × α)) (h : LtHead acc ((k, v) :: t)) :
    insertNewDesc k v acc = some ((k, v) :: acc) := by
  cases acc with
  | nil => rfl
  | cons a acc =>
    obtain ⟨k', v'⟩ := a
    simp only [LtHead] at h
    simp [insertNewDesc, h]

theorem ltHead_step {α : Type} (e : Bytes × α) (acc t : List (Bytes × α))
    (hs : SortedKeys (e :: t)) : LtHead (e :: acc) t := by
  cases t with
  | nil => trivial
  | cons b t => exact hs.1

theorem sortedKeys_tail {α : Type} (e : Bytes × α) (t : List (Bytes × α))
    (hs : SortedKeys (e :: t)) : SortedKeys t := by
  cases t with
  | nil => trivial
  | cons b t => exact hs.2

/-- entries: status and round trip -/
theorem encodeEntries_status (es : List (Bytes × Bytes)) :
    (encodeEntries es).2 = true ↔ ∀ e ∈ es, e.1.length ≤ 255 := by
  induction es with
  | nil => simp [encodeEntries]
  | cons e t ih =>
    obtain ⟨n, v⟩ := e
    by_cases hn : n.length ≤ 255
    · simp [encodeEntries, encodeString_ok n hn, ih, hn]
    · have : n.length > 255 := by omega
      simp [encodeEntries, encodeString, this]
      omega

theorem decodeEntries_enc (ae : Bool) (rest : Bytes) :
    ∀ (es acc : List (Bytes × Bytes)),
      (∀ e ∈ es, e.1.length ≤ 255 ∧ e.2.length < 2^32 ∧ (ae = false → e.2 ≠ [])) →
      SortedKeys es → LtHead acc es →
      decodeEntries ae es.length acc ((encodeEntries es).1 ++ rest) =
        some (es.reverse ++ acc, rest) := by
  intro es
  induction es with
  | nil => intro acc _ _ _; simp [decodeEntries, encodeEntries]
  | cons e t ih =>
    intro acc hok hs hl
    obtain ⟨n, v⟩ := e
    have he := hok (n, v) (by simp)
    simp only [encodeEntries, encodeString_ok n he.1, List.length_cons, decodeEntries]
    simp only [List.append_assoc]
    rw [decodeEntry_enc ae n v _ he.1 he.2.1 he.2.2]
    simp only
    rw [insertDesc_ltHead n v acc t hl]
    rw [ih ((n, v) :: acc) (fun e h => hok e (by simp [h])) (sortedKeys_tail _ _ hs)
      (ltHead_step _ _ _ hs)]
    simp

/-- sub-metadata list: round trip relative to a child reader that round trips every child -/
theorem decodeSubsWith_enc (child : Rd Metadata) (rest : Bytes) :
    ∀ (ss acc : List (Bytes × Metadata)),
      (∀ s ∈ ss, s.1.length ≤ 255) →
      (∀ s ∈ ss, ∀ r, child ((encodeNode s.2).1 ++ r) = some (s.2, r)) →
      SortedKeys ss → LtHead acc ss →
      decodeSubsWith child ss.length acc ((encodeSubs ss).1 ++ rest) =
        some (ss.reverse ++ acc, rest) := by
  intro ss
  induction ss with
  | nil => intro acc _ _ _ _; simp [decodeSubsWith, encodeSubs]
  | cons s t ih =>
    intro acc hn hc hs hl
    obtain ⟨n, m⟩ := s
    have hn1 := hn (n, m) (by simp)
    simp only [encodeSubs, encodeString_ok n hn1, List.length_cons, decodeSubsWith]
    simp only [List.append_assoc]
    rw [decodeName_enc n _ _ (encodeString_ok n hn1)]
    simp only
    rw [hc (n, m) (by simp)]
    simp only
    rw [insertNewDesc_ltHead n m acc t hl]
    simp only
    rw [ih ((n, m) :: acc) (fun e h => hn e (by simp [h])) (fun e h => hc e (by simp [h]))
      (sortedKeys_tail _ _ hs) (ltHead_step _ _ _ hs)]
    simp

theorem encodeSubs_status (ss : List (Bytes × Metadata)) :
    (encodeSubs ss).2 = true ↔ ∀ s ∈ ss, s.1.length ≤ 255 := by
  induction ss with
  | nil => simp [encodeSubs]
  | cons s t ih =>
    obtain ⟨n, m⟩ := s
    by_cases hn : n.length ≤ 255
    · simp [encodeSubs, encodeString_ok n hn, ih, hn]
    · have : n.length > 255 := by omega
      simp [encodeSubs, encodeString, this]
      omega

/-- The return value of `EncodeMetadata` as written only reflects the names of the top-level
    node: everything nested is dropped. -/
theorem encodeMetadataStatus_iff (m : Metadata) :
    encodeMetadataStatus m = true ↔
      (∀ e ∈ m.entries, e.1.length ≤ 255) ∧ (∀ s ∈ m.subs, s.1.length ≤ 255) := by
  obtain ⟨es, ss⟩ := m
  simp only [encodeMetadataStatus, encodeNode, Metadata.entries, Metadata.subs]
  by_cases he : (encodeEntries es).2 = true
  · simp only [he, if_true]
    rw [encodeSubs_status]
    rw [encodeEntries_status] at he
    exact ⟨fun h => ⟨he, h⟩, fun h => h.2⟩
  · simp only [he]
    rw [encodeEntries_status] at he
    constructor
    · intro h; cases h
    · intro h; exact absurd h.1 he

theorem subsDepth_mem (ss : List (Bytes × Metadata)) :
    ∀ s ∈ ss, s.2.depth + 1 ≤ subsDepth ss := by
  induction ss with
  | nil => simp
  | cons a t ih =>
    obtain ⟨n, m⟩ := a
    intro s hs
    simp only [subsDepth]
    rcases List.mem_cons.mp hs with h | h
    · subst h; exact Nat.le_max_left _ _
    · exact Nat.le_trans (ih s h) (Nat.le_max_right _ _)

theorem subsAll_mem {P} (ss : List (Bytes × Metadata)) (h : SubsAll P ss) :
    ∀ s ∈ ss, s.2.All P := by
  induction ss with
  | nil => simp
  | cons a t ih =>
    obtain ⟨n, m⟩ := a
    intro s hs
    simp only [SubsAll] at h
    rcases List.mem_cons.mp hs with h' | h'
    · subst h'; exact h.1
    · exact ih h.2 s h'

/-- statement of the main induction -/
def NodeRT (ae : Bool) (m : Metadata) : Prop :=
  ∀ (f : Nat) (hp : Bool) (lvl : Nat) (rest : Bytes),
    m.All (fun es ss => SortedKeys es ∧ SortedKeys ss) → m.All (NodeEncodable ae) →
    (if hp then lvl + 1 else lvl) + m.depth ≤ kMaxSubmetadataLevel + 1 → m.depth < f →
    decodeNode ae f hp lvl ((encodeNode m).1 ++ rest) = some (m, rest)

theorem encodeSubs_length (ss : List (Bytes × Metadata)) (h : ∀ s ∈ ss, s.1.length ≤ 255) :
    ss.length ≤ (encodeSubs ss).1.length := by
  induction ss with
  | nil => simp
  | cons s t ih =>
    obtain ⟨n, m⟩ := s
    have := ih (fun e he => h e (by simp [he]))
    simp only [encodeSubs, encodeString_ok n (h (n, m) (by simp)), List.length_cons,
      List.length_append]
    omega

/-- Main induction: a node whose subtree is canonical and encodable and fits under the
    level limit is read back by `decodeNode`. -/
theorem decodeNode_enc (ae : Bool) (m : Metadata) : NodeRT ae m := by
  refine Metadata.induct (P := NodeRT ae) (Q := fun ss => ∀ s ∈ ss, NodeRT ae s.2) ?_ ?_ ?_ m
  · intro es ss ih f hp lvl rest hcan henc hlvl hf
    simp only [Metadata.All] at hcan henc
    obtain ⟨⟨hse, hss⟩, hcs⟩ := hcan
    obtain ⟨⟨hel, hsl, heo, hso⟩, hes⟩ := henc
    simp only [Metadata.depth] at hlvl hf
    cases f with
    | zero => omega
    | succ f =>
      have hst : (encodeEntries es).2 = true :=
        (encodeEntries_status es).mpr (fun e h => (heo e h).1)
      simp only [encodeNode, hst, if_true, decodeNode, List.append_assoc]
      rw [Nat.mod_eq_of_lt hel, Nat.mod_eq_of_lt hsl, decVarint32_enc _ hel]
      simp only
      rw [decodeEntries_enc ae _ es [] heo hse (by cases es <;> trivial)]
      simp only
      rw [decVarint32_enc _ hsl]
      simp only
      -- the child reader round trips every child
      have hchild : ∀ s ∈ ss, ∀ r,
          decodeNode ae f true (if hp then lvl + 1 else lvl) ((encodeNode s.2).1 ++ r) =
            some (s.2, r) := by
        intro s hs r
        have hd := subsDepth_mem ss s hs
        refine ih s hs f true _ r (subsAll_mem ss hcs s hs) (subsAll_mem ss hes s hs) ?_ ?_
        · simp only [if_true]; omega
        · omega
      have hsub := decodeSubsWith_enc
        (decodeNode ae f true (if hp then lvl + 1 else lvl)) rest ss [] hso hchild hss
        (by cases ss <;> trivial)
      -- every sub-metadata takes at least one byte
      have hlen := encodeSubs_length ss hso
      have h1 : ¬ ss.length > ((encodeSubs ss).1 ++ rest).length := by
        rw [List.length_append]; omega
      have h2 : ¬ (ss.length ≠ 0 ∧
          (if hp then lvl + 1 else lvl) > kMaxSubmetadataLevel) := by
        rintro ⟨hne, hgt⟩
        have : 1 ≤ subsDepth ss := by
          cases ss with
          | nil => simp at hne
          | cons a t =>
            obtain ⟨n, m⟩ := a
            simp only [subsDepth]; omega
        omega
      simp only [h1, h2, if_false, hsub]
      simp
  · intro s hs; cases hs
  · intro n m t ihm iht s hs
    rcases List.mem_cons.mp hs with h' | h'
    · subst h'; exact ihm
    · exact iht s h'

end Draco
