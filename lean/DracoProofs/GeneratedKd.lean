import DracoProofs.GeneratedCore
import DracoModel.KdTree
/-
  DracoProofs.GeneratedKd — the decision skeleton of `DynamicIntegerPointsKdTreeDecoder<6>::GetAxis`'s
  `if (num_remaining_points < 64) … else …` (lean/Generated/Funcs.lean, translated from clang's AST of /repo on every run by
  tools/vlib/xlate.py; branch bodies replaced by their ordinal) selects the branch the model's `Kd.getAxis` takes.
-/
namespace Draco.Generated
open Draco Draco.CInt

theorem GetAxis_branch_eq_model (n : Nat) :
    DynamicIntegerPointsKdTreeDecoder.GetAxis_branch (n : Int) = if n < 64 then 0 else 1 := by
  unfold DynamicIntegerPointsKdTreeDecoder.GetAxis_branch
  by_cases h : n < 64
  · have : (n : Int) < 64 := by omega
    simp [h, this]
  · have : ¬ ((n : Int) < 64) := by omega
    simp [h, this]

/-- the model takes the "axis of minimal level" branch exactly when the source's skeleton says branch 0 -/
theorem getAxis_uses_branch {σ} (S : Kd.Src σ) (P : Kd.Params) (s : σ) (n : Nat) (levels : List Nat) (lastAxis : Nat)
    (hsel : P.selectAxis = true) :
    Kd.getAxis S P s n levels lastAxis =
      if DynamicIntegerPointsKdTreeDecoder.GetAxis_branch (n : Int) = 0 then (Kd.minLevelAxis levels P.dim, s) else S.axis s := by
  rw [GetAxis_branch_eq_model]
  unfold Kd.getAxis
  by_cases h : n < 64 <;> simp [hsel, h]

end Draco.Generated
