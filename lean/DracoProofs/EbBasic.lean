import DracoModel.EbDecoder
/-
  Helper lemmas about the Edgebreaker decoder model: corner arithmetic, the checked array
  accessors, `UpdatePointToAttributeIndexMapping`.
-/
namespace Draco.Eb

theorem inv_mod3 : inv % 3 = 0 := by decide

/-- `Next` stays in the face of a valid corner -/
theorem nextC_face (c : Nat) (h : c ≠ inv) : nextC c / 3 = c / 3 := by
  unfold nextC
  have : (c == inv) = false := by simpa using h
  simp only [this, Bool.false_eq_true, ↓reduceIte]
  split
  · rename_i h2; have : c % 3 = 2 := by simpa using h2
    omega
  · rename_i h2; have : ¬ c % 3 = 2 := by simpa using h2
    omega

/-- `Previous` stays in the face of a valid corner -/
theorem prevC_face (c : Nat) (h : c ≠ inv) : prevC c / 3 = c / 3 := by
  unfold prevC
  have : (c == inv) = false := by simpa using h
  simp only [this, Bool.false_eq_true, ↓reduceIte]
  split
  · rename_i h2; have : c % 3 = 0 := by simpa using h2
    omega
  · rename_i h2; have : ¬ c % 3 = 0 := by simpa using h2
    omega

/-- `Previous(Next(c)) = c` for corners below the invalid index -/
theorem prevC_nextC (c : Nat) (h : c < inv) : prevC (nextC c) = c := by
  unfold prevC nextC inv at *
  by_cases h2 : c % 3 = 2
  · have e1 : (c == 4294967295) = false := by simp; omega
    have e2 : (c - 2 == 4294967295) = false := by simp; omega
    have e3 : (c - 2) % 3 = 0 := by omega
    simp [e1, h2, e2, e3]; omega
  · have e1 : (c == 4294967295) = false := by simp; omega
    have e2 : (c + 1 == 4294967295) = false := by
      simp; intro h3; omega
    have e3 : ¬ (c + 1) % 3 = 0 := by omega
    simp [e1, h2, e2, e3]

/-- `Next(Previous(c)) = c` for corners below the invalid index -/
theorem nextC_prevC (c : Nat) (h : c < inv) : nextC (prevC c) = c := by
  unfold prevC nextC inv at *
  by_cases h2 : c % 3 = 0
  · have e1 : (c == 4294967295) = false := by simp; omega
    have e2 : (c + 2 == 4294967295) = false := by
      simp; intro h3; omega
    have e3 : (c + 2) % 3 = 2 := by omega
    simp [e1, h2, e2, e3]
  · have e1 : (c == 4294967295) = false := by simp; omega
    have e2 : (c - 1 == 4294967295) = false := by simp; omega
    have e3 : ¬ (c - 1) % 3 = 2 := by omega
    simp [e1, h2, e2, e3]; omega

/-- closed form of `Next` below the invalid index -/
theorem nextC_eq (c : Nat) (h : c < inv) : nextC c = if c % 3 = 2 then c - 2 else c + 1 := by
  unfold nextC inv at *
  have e1 : (c == 4294967295) = false := by simp; omega
  simp [e1]

theorem nextC_lt (c : Nat) (h : c < inv) : nextC c < inv := by
  rw [nextC_eq c h]
  unfold inv at *
  split <;> omega

/-- three `Next` steps return to the corner -/
theorem nextC_three (c : Nat) (h : c < inv) : nextC (nextC (nextC c)) = c := by
  have h1 := nextC_lt c h
  have h2 := nextC_lt _ h1
  rw [nextC_eq _ h2, nextC_eq _ h1, nextC_eq c h]
  unfold inv at h
  by_cases a : c % 3 = 2
  · simp only [a, ↓reduceIte]
    have b : ¬ (c - 2) % 3 = 2 := by omega
    simp only [b, ↓reduceIte]
    have d : ¬ (c - 2 + 1) % 3 = 2 := by omega
    simp only [d, ↓reduceIte]
    omega
  · simp only [a, ↓reduceIte]
    by_cases b : (c + 1) % 3 = 2
    · simp only [b, ↓reduceIte]
      have d : ¬ (c + 1 - 2) % 3 = 2 := by omega
      simp only [d, ↓reduceIte]
      omega
    · simp only [b, ↓reduceIte]
      have d : (c + 1 + 1) % 3 = 2 := by omega
      simp only [d, ↓reduceIte]
      omega

/-- a successful checked read is an in-range read -/
theorem rd_ok {site : String} {a : Array Nat} {i v : Nat} (h : rd site a i = .ok v) :
    ∃ hi : i < a.size, a[i] = v := by
  unfold rd at h
  split at h
  · rename_i hi
    refine ⟨hi, ?_⟩
    simpa [pure, Except.pure] using h
  · simp [throw, throwThe, MonadExceptOf.throw] at h

/-- what one successful step of `UpdatePointToAttributeIndexMapping` establishes -/
theorem pointToValueStep_ok {t : TView} {faces : Array Nat} {np : Nat} {v2d : Array Nat} {c : Nat}
    {m m' : Array Nat} (h : pointToValueStep t faces np v2d c m = .ok m') :
    ∃ (hc : c < faces.size) (e : Nat), faces[c] < np ∧ e < np ∧ m' = m.setIfInBounds faces[c] e := by
  unfold pointToValueStep at h
  simp only [bind, Except.bind] at h
  split at h
  · simp at h
  · rename_i pt hpt
    obtain ⟨hc, hv⟩ := rd_ok hpt
    split at h
    · simp at h
    · rename_i v _
      split at h
      · simp [throw, throwThe, MonadExceptOf.throw] at h
      · split at h
        · simp at h
        · rename_i e _
          split at h
          · simp [throw, throwThe, MonadExceptOf.throw] at h
          · rename_i hcond
            simp only [Bool.or_eq_true, decide_eq_true_eq, not_or, Nat.not_le] at hcond
            refine ⟨hc, e, ?_, hcond.2, ?_⟩
            · rw [hv]; exact hcond.1
            · simp only [pure, Except.pure, Except.ok.injEq] at h
              rw [hv]; exact h.symm

/-- invariant of the map under the loop: size kept, entries invalid or below `np` -/
def MapOk (np : Nat) (m : Array Nat) : Prop :=
  m.size = np ∧ ∀ p (hp : p < m.size), m[p] = inv ∨ m[p] < np

theorem MapOk.set {np : Nat} {m : Array Nat} (hm : MapOk np m) (p e : Nat) (he : e < np) :
    MapOk np (m.setIfInBounds p e) := by
  refine ⟨by simpa using hm.1, ?_⟩
  intro q hq
  have hq' : q < m.size := by simpa using hq
  by_cases hpq : p = q
  · subst hpq
    right
    simp [he]
  · have := hm.2 q hq'
    simpa [Array.getElem_setIfInBounds, hpq, hq'] using this

theorem pointToValueLoop_ok {t : TView} {faces : Array Nat} {np : Nat} {v2d : Array Nat} :
    ∀ (n c : Nat) (m m' : Array Nat), MapOk np m →
      pointToValueLoop t faces np v2d n c m = .ok m' →
      MapOk np m' ∧ ∀ k, c ≤ k → k < c + n → ∃ hk : k < faces.size, faces[k] < np := by
  intro n
  induction n with
  | zero =>
    intro c m m' hm h
    simp only [pointToValueLoop, pure, Except.pure, Except.ok.injEq] at h
    subst h
    exact ⟨hm, fun k h1 h2 => by omega⟩
  | succ n ih =>
    intro c m m' hm h
    simp only [pointToValueLoop, bind, Except.bind] at h
    split at h
    · simp at h
    · rename_i m1 hstep
      obtain ⟨hc, e, hf, he, hm1⟩ := pointToValueStep_ok hstep
      have hm1ok : MapOk np m1 := by rw [hm1]; exact hm.set _ _ he
      obtain ⟨hres, hrest⟩ := ih (c + 1) m1 m' hm1ok h
      refine ⟨hres, ?_⟩
      intro k h1 h2
      by_cases hk : k = c
      · subst hk; exact ⟨hc, hf⟩
      · exact hrest k (by omega) (by omega)

theorem mapOk_replicate (np : Nat) : MapOk np (Array.replicate np inv) := by
  refine ⟨by simp, ?_⟩
  intro p hp
  left
  simp

end Draco.Eb

namespace Draco.Eb
open Draco

/-- `UpdatePointToAttributeIndexMapping` on the success path: map of one entry per point, every
    entry below `np` (none stays invalid, `fix:` dcc9947), every face corner below `np` -/
theorem pointToValueMap_ok {t : TView} {faces : Array Nat} {np : Nat} {v2d m : Array Nat}
    (h : pointToValueMap t faces np v2d = .ok m) :
    m.size = np ∧ (∀ p (hp : p < m.size), m[p] < np) ∧
    (∀ k, k < 3 * t.numFaces → ∃ hk : k < faces.size, faces[k] < np) := by
  unfold pointToValueMap at h
  simp only [bind, Except.bind] at h
  split at h
  · cases h
  · rename_i m0 hloop
    obtain ⟨hm, hf⟩ := pointToValueLoop_ok (3 * t.numFaces) 0 _ m0 (mapOk_replicate np) hloop
    by_cases hany : (m0.any fun x => x == inv) = true
    · simp [hany, raise] at h
    · simp only [hany, Bool.false_eq_true, if_false, pure, Except.pure, Except.ok.injEq] at h
      subst h
      refine ⟨hm.1, ?_, fun k hk => hf k (Nat.zero_le _) (by omega)⟩
      intro p hp
      rcases hm.2 p hp with hi | hlt
      · exfalso
        apply hany
        rw [Array.any_eq_true]
        exact ⟨p, hp, by simp [hi]⟩
      · exact hlt

theorem getBit_lt_two (r : BitReader) : (r.getBit).1 < 2 := by
  unfold BitReader.getBit
  split
  · simp
  · split <;> simp <;> omega

theorem getBit_decoded_le (r : BitReader) : (r.getBit).2.decoded ≤ r.decoded + 1 := by
  unfold BitReader.getBit
  split
  · simp
  · split <;> simp

theorem getBitsAux_two (r : BitReader) : (BitReader.getBitsAux 2 0 0 r).1 < 4 := by
  simp only [BitReader.getBitsAux]
  have h1 := getBit_lt_two r
  have h2 := getBit_lt_two (r.getBit).2
  generalize (r.getBit).2.getBit = q at *
  generalize r.getBit = p at *
  obtain ⟨a, r1⟩ := p
  obtain ⟨b, r2⟩ := q
  simp at *
  omega

theorem getBitsAux_two_decoded (r : BitReader) :
    (BitReader.getBitsAux 2 0 0 r).2.decoded ≤ r.decoded + 2 := by
  simp only [BitReader.getBitsAux]
  have h1 := getBit_decoded_le r
  have h2 := getBit_decoded_le (r.getBit).2
  generalize hq : (r.getBit).2.getBit = q at *
  generalize hp : r.getBit = p at *
  obtain ⟨a, r1⟩ := p
  obtain ⟨b, r2⟩ := q
  simp at *
  omega

/-- the standard traversal decoder only produces the five topology bit patterns and consumes at
    most three bits per symbol -/
theorem decodeSymbolStd_spec (r : BitReader) :
    (decodeSymbolStd r).1 ∈ [topoC, topoS, topoL, topoR, topoE] ∧
    (decodeSymbolStd r).2.decoded ≤ r.decoded + 3 := by
  unfold decodeSymbolStd
  have hb := getBit_lt_two r
  have hd := getBit_decoded_le r
  generalize hp : r.getBit = p at *
  obtain ⟨b, r1⟩ := p
  simp only
  have hs := getBitsAux_two r1
  have hs2 := getBitsAux_two_decoded r1
  generalize hq : BitReader.getBitsAux 2 0 0 r1 = q at *
  obtain ⟨s, r2⟩ := q
  have htc : topoC = 0 := by decide
  have hts : topoS = 1 := by decide
  have htl : topoL = 3 := by decide
  have htr : topoR = 5 := by decide
  have hte : topoE = 7 := by decide
  simp only [htc, hts, htl, htr, hte] at *
  by_cases h0 : b = 0
  · subst h0; simp at *; omega
  · have hb1 : b = 1 := by omega
    subst hb1
    simp at *
    refine ⟨?_, by omega⟩
    have : s = 0 ∨ s = 1 ∨ s = 2 ∨ s = 3 := by omega
    rcases this with h | h | h | h <;> subst h <;> simp

end Draco.Eb
