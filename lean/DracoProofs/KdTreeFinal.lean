import DracoProofs.KdTreeEnc
import DracoProofs.KdTreeCoders
/-
  `DecodePoints` on the bytes of `EncodePoints` (followed by anything): the points come back
  as a permutation, the reader stops exactly behind the encoder's bytes.
-/
namespace Draco.Kd
open DecM

theorem bind_apply {α β} (m : DecM α) (f : α → DecM β) (s : DSt) :
    (m >>= f) s = match m s with
      | (none, s') => (none, s')
      | (some a, s') => f a s' := rfl

theorem rdU32_ok (s : DSt) (v : Nat) (hv : v < 2^32) (tail : Bytes) (h : s.rest = writeLE 4 v ++ tail) :
    rdU32 s = (some v, { s with rest := tail }) := by
  simp only [rdU32, lift, h, Draco.readLE_writeLE]
  rw [Nat.mod_eq_of_lt (by simpa using hv)]

theorem startDirect_ok (s : DSt) (ops : List BitOp) (hv : ∀ op ∈ ops, op.Valid)
    (hlen : (opsBits ops).length + 3 < 2^32) (tail : Bytes) (h : s.rest = directEncode ops ++ tail) :
    ∃ d s', startDirect s = (some d, s') ∧ s'.rest = tail ∧ DelDirect d ops ∧ s'.version = s.version := by
  obtain ⟨d, h1, h2⟩ := directStart_encode ops hv hlen tail
  have e : startDirect s = (some d, { { s with rest := tail } with
      allocs := ("direct_bit_decoder.bits", 4 * d.pos.length) :: s.allocs }) := by
    simp only [startDirect, bind_apply, lift, h, h1, alloc]
    rfl
  exact ⟨d, _, e, rfl, h2, rfl⟩

theorem startNumbers_ok (tab : List (Nat × Nat)) (hd : DivOK tab) (zpr : Nat → Nat → Nat)
    (level : Nat) (s : DSt) (ops : List BitOp) (hv : ∀ op ∈ ops, op.Valid)
    (hlen : (opsBits ops).length + 3 < 2^32) (hcount : ops.length + 3 < 2^32) (tail : Bytes)
    (h : s.rest = encodeNumbers tab zpr level ops ++ tail) :
    ∃ c s', startNumbers false level s = (some c, s') ∧ s'.rest = tail ∧ DelNum c ops ∧ s'.version = s.version := by
  unfold startNumbers
  by_cases hl : level < 2
  · obtain ⟨d, h1, h2⟩ := numbersStart_direct tab zpr level ops hv hlen tail hl
    have e : (if level < 2 then (do let d ← startDirect; pure (NumDec.direct d) : DecM NumDec)
        else if level < 4 then (do let d ← lift (ransBitStart false); pure (NumDec.rans d))
        else (do let d ← lift (foldedStart (ransBitDecIface false)); pure (NumDec.folded d))) s =
        (some (NumDec.direct d), { { s with rest := tail } with
          allocs := ("direct_bit_decoder.bits", 4 * d.pos.length) :: s.allocs }) := by
      simp only [hl, if_true, bind_apply, startDirect, lift, h, h1, alloc]
      rfl
    exact ⟨_, _, e, rfl, h2, rfl⟩
  · by_cases hl2 : level < 4
    · obtain ⟨d, h1, h2⟩ := numbersStart_rans tab hd zpr level ops hv hlen tail hl hl2
      have e : (if level < 2 then (do let d ← startDirect; pure (NumDec.direct d) : DecM NumDec)
          else if level < 4 then (do let d ← lift (ransBitStart false); pure (NumDec.rans d))
          else (do let d ← lift (foldedStart (ransBitDecIface false)); pure (NumDec.folded d))) s =
          (some (NumDec.rans d), { s with rest := tail }) := by
        simp only [hl, if_false, hl2, if_true, bind_apply, lift, h, h1]
        rfl
      exact ⟨_, _, e, rfl, h2, rfl⟩
    · obtain ⟨d, h1, h2⟩ := numbersStart_folded tab hd zpr level ops hcount tail hl hl2
      have e : (if level < 2 then (do let d ← startDirect; pure (NumDec.direct d) : DecM NumDec)
          else if level < 4 then (do let d ← lift (ransBitStart false); pure (NumDec.rans d))
          else (do let d ← lift (foldedStart (ransBitDecIface false)); pure (NumDec.folded d))) s =
          (some (NumDec.folded d), { s with rest := tail }) := by
        simp only [hl, if_false, hl2, bind_apply, lift, h, h1]
        rfl
      exact ⟨_, _, e, rfl, h2, rfl⟩

theorem opsOf_valid (w : Which) (evs : List Ev) (h : ∀ e ∈ evs, e.2.Valid) :
    ∀ op ∈ opsOf w evs, op.Valid := by
  intro op hop
  simp only [opsOf, List.mem_filterMap] at hop
  obtain ⟨e, he, heq⟩ := hop
  split at heq
  · cases heq; exact h e he
  · cases heq

/-- the root box -/
theorem box_root (P : Params) : Box P (List.replicate P.dim 0) (List.replicate P.dim 0) := by
  refine ⟨by simp, by simp, ?_, ?_, ?_⟩
  · intro i hi; rw [getD_replicate _ _ _ hi]; omega
  · intro i hi; rw [getD_replicate _ _ _ hi]; simp
  · intro i hi; rw [getD_replicate _ _ _ hi]; simp

/-- no points: the stream is the 8-byte header -/
theorem decodePoints_encodePoints_nil (part : Partition) (tab : List (Nat × Nat))
    (zpr : Nat → Nat → Nat) (level dim bitLength maxPoints : Nat) (rest : Bytes) (s : DSt)
    (hbl : bitLength ≤ 32)
    (hs : s.rest = encodePoints part tab zpr level dim bitLength [] ++ rest) :
    ∃ s', decodePoints level dim maxPoints s = (some (0, []), s') ∧ s'.rest = rest ∧ s'.version = s.version := by
  have hbl32 : bitLength < 2^32 := by omega
  unfold encodePoints at hs
  simp only [List.length_nil, Nat.zero_mod, if_true, List.append_assoc] at hs
  have h1 := rdU32_ok s bitLength hbl32 _ hs
  have h2 := rdU32_ok { s with rest := writeLE 4 0 ++ rest } 0 (by decide) rest rfl
  have e : decodePoints level dim maxPoints s = (some (0, []), { s with rest := rest }) := by
    unfold decodePoints
    simp only [bind_apply, h1, require, decide_eq_true hbl, if_true, ret, h2]
    rfl
  exact ⟨_, e, rfl, rfl⟩

theorem decodePoints_encodePoints_v (part : Partition) (hpart : PartSpec part) (tab : List (Nat × Nat))
    (hd : DivOK tab) (zpr : Nat → Nat → Nat) (level dim bitLength maxPoints : Nat)
    (pts : List (List Nat)) (rest : Bytes) (s : DSt)
    (hdim : 1 ≤ dim) (hbl : bitLength ≤ 32) (hsel : level = 6 → dim ≤ 16) (hd32 : dim < 2^32)
    (hpts : ∀ p ∈ pts, p.length = dim ∧ ∀ i, i < dim → p.getD i 0 < 2^bitLength)
    (hn : pts.length < 2^32) (hmax : pts.length ≤ maxPoints)
    (hsize : ∀ w, (opsBits (opsOf w (encodeInternal part ⟨dim, bitLength, level == 6, pts.length⟩ pts))).length + 3 < 2^32)
    (hcount : (opsOf .num (encodeInternal part ⟨dim, bitLength, level == 6, pts.length⟩ pts)).length + 3 < 2^32)
    (hs : s.rest = encodePoints part tab zpr level dim bitLength pts ++ rest) :
    ∃ pts' s', decodePoints level dim maxPoints s = (some (pts.length, pts'), s') ∧ s'.rest = rest ∧
      pts'.Perm pts ∧ s'.version = s.version := by
  have hbl32 : bitLength < 2^32 := by omega
  unfold encodePoints at hs
  rw [Nat.mod_eq_of_lt hn] at hs
  by_cases h0 : pts.length = 0
  · -- no points: only the header
    simp only [h0, if_true, List.append_assoc] at hs
    have h1 := rdU32_ok s bitLength hbl32 _ hs
    have h2 := rdU32_ok { s with rest := writeLE 4 0 ++ rest } 0 (by decide) rest rfl
    have e : decodePoints level dim maxPoints s = (some (pts.length, []), { s with rest := rest }) := by
      unfold decodePoints
      simp only [bind_apply, h1, require, decide_eq_true hbl, if_true, ret, h2, h0]
      rfl
    have : pts = [] := List.eq_nil_of_length_eq_zero h0
    exact ⟨[], _, e, rfl, by rw [this], rfl⟩
  · simp only [h0, if_false, List.append_assoc] at hs
    generalize hP : (⟨dim, bitLength, level == 6, pts.length⟩ : Params) = P at hs hsize hcount
    have hPd : P.dim = dim := by rw [← hP]
    have hPb : P.bitLength = bitLength := by rw [← hP]
    have hPn : P.numPoints = pts.length := by rw [← hP]
    have hPs : P.selectAxis = (level == 6) := by rw [← hP]
    have hne : pts ≠ [] := fun h => h0 (by rw [h]; rfl)
    -- the encoder's events
    have henc := encodeInternal_eq_tree part hpart P (by omega) pts hne
    generalize hevs : encodeInternal part P pts = evs at hs hsize hcount henc
    have hroot := box_root P
    have hin : ∀ p ∈ pts, InBox P (List.replicate P.dim 0) (List.replicate P.dim 0) p := by
      intro p hp
      obtain ⟨q1, q2⟩ := hpts p hp
      refine ⟨by omega, ?_⟩
      intro i hi
      rw [getD_replicate _ _ _ hi]
      have := q2 i (by omega)
      simp only [Nat.sub_zero, Nat.zero_add, Nat.zero_le, true_and, hPb]
      exact this
    have hvalid := enc_events_valid part hpart P (by omega) (by omega) (by omega) _ _ evs hroot hin
      (by simp only; omega) hne hn henc
    -- the reads
    have h1 := rdU32_ok s bitLength hbl32 _ hs
    have h2 := rdU32_ok { s with rest := writeLE 4 pts.length ++ (encodeNumbers tab zpr level (opsOf .num evs) ++
      (directEncode (opsOf .rem evs) ++ (directEncode (opsOf .axis evs) ++ (directEncode (opsOf .half evs) ++ rest)))) }
      pts.length hn _ rfl
    obtain ⟨cn, s3, n1, n2, n3, n4⟩ := startNumbers_ok tab hd zpr level
      { s with rest := encodeNumbers tab zpr level (opsOf .num evs) ++
        (directEncode (opsOf .rem evs) ++ (directEncode (opsOf .axis evs) ++ (directEncode (opsOf .half evs) ++ rest))) }
      (opsOf .num evs) (opsOf_valid _ _ hvalid) (hsize .num) hcount _ rfl
    obtain ⟨cr, s4, r1, r2, r3, r4⟩ := startDirect_ok s3 (opsOf .rem evs) (opsOf_valid _ _ hvalid) (hsize .rem) _ n2
    obtain ⟨ca, s5, a1, a2, a3, a4⟩ := startDirect_ok s4 (opsOf .axis evs) (opsOf_valid _ _ hvalid) (hsize .axis) _ r2
    obtain ⟨ch, s6, c1, c2, c3, c4⟩ := startDirect_ok s5 (opsOf .half evs) (opsOf_valid _ _ hvalid) (hsize .half) _ a2
    -- the tree
    have hdel : DelCoders ⟨cn, cr, ca, ch⟩ (evs ++ []) := by
      rw [List.append_nil]; exact ⟨n3, r3, a3, c3⟩
    have hrr : AxisInv P 0 (List.replicate P.dim 0) := fun _ => RR.init P.dim (by omega)
    obtain ⟨pts', st', t1, t2, _, t4⟩ := tree_roundtrip coders_spec part hpart P (by omega) (by omega)
      (by intro hs; rw [hPs] at hs; rw [hPd]; exact hsel (by simpa using hs)) (by omega)
      (encFuel P pts.length) ⟨pts, 0, List.replicate P.dim 0, List.replicate P.dim 0⟩ evs hroot hin hrr hne henc
      ⟨⟨cn, cr, ca, ch⟩, 0⟩ [] hdel (by simp only; omega)
    simp only at t1 t4
    have hdi := decodeInternal_eq_tree (coders false) P ⟨cn, cr, ca, ch⟩ (encFuel P pts.length)
      (by simp only [runFuel, encFuel, hPn]; omega)
    rw [hPn, t1] at hdi
    refine ⟨pts', s6, ?_, c2, t2, by rw [c4, a4, r4, n4]⟩
    unfold decodePoints
    simp only [bind_apply, h1, require, decide_eq_true hbl, if_true, ret, h2, h0, if_false,
      decide_eq_true hmax, n1, r1, a1, c1, hP, hdi, t4, Nat.zero_add]
    rfl

theorem decodePoints_encodePoints (part : Partition) (hpart : PartSpec part) (tab : List (Nat × Nat))
    (hd : DivOK tab) (zpr : Nat → Nat → Nat) (level dim bitLength maxPoints : Nat)
    (pts : List (List Nat)) (rest : Bytes) (s : DSt)
    (hdim : 1 ≤ dim) (hbl : bitLength ≤ 32) (hsel : level = 6 → dim ≤ 16) (hd32 : dim < 2^32)
    (hpts : ∀ p ∈ pts, p.length = dim ∧ ∀ i, i < dim → p.getD i 0 < 2^bitLength)
    (hn : pts.length < 2^32) (hmax : pts.length ≤ maxPoints)
    (hsize : ∀ w, (opsBits (opsOf w (encodeInternal part ⟨dim, bitLength, level == 6, pts.length⟩ pts))).length + 3 < 2^32)
    (hcount : (opsOf .num (encodeInternal part ⟨dim, bitLength, level == 6, pts.length⟩ pts)).length + 3 < 2^32)
    (hs : s.rest = encodePoints part tab zpr level dim bitLength pts ++ rest) :
    ∃ pts' s', decodePoints level dim maxPoints s = (some (pts.length, pts'), s') ∧ s'.rest = rest ∧
      pts'.Perm pts := by
  obtain ⟨pts', s', h1, h2, h3, _⟩ := decodePoints_encodePoints_v part hpart tab hd zpr level dim bitLength
    maxPoints pts rest s hdim hbl hsel hd32 hpts hn hmax hsize hcount hs
  exact ⟨pts', s', h1, h2, h3⟩

end Draco.Kd
