import DracoProofs.GeneratedCore
import DracoModel.Wrap
import DracoProofs.Wrap
import DracoProofs.Octahedron
/-
  DracoProofs.GeneratedFuncs — the octahedron tool box / octahedron transform / wrap transform functions of
  lean/Generated/Funcs.lean (translated mechanically from clang's typed AST of /repo's working tree on every run,
  tools/vlib/xlate.py) equal the hand-written model definitions that the theorems of C16 and C07 are about.
  Tactics, `I32`/`U32` and the C-arithmetic lemmas: DracoProofs.GeneratedCore.
-/
namespace Draco.Generated
open Draco Draco.CInt

/-! ### the model state as the generated structures -/

/-- the generated `OctahedronToolBox` value of a model tool box -/
def ofOctaT (t : OctaT) : OctahedronToolBox :=
  { quantization_bits_ := t.q, max_quantized_value_ := t.maxQ, max_value_ := t.maxV, center_value_ := t.center }

/-- the generated `PredictionSchemeWrapTransformBase` value of a model wrap transform
    (`num_components_` is not part of the arithmetic) -/
def ofWrapT (t : WrapT) (nc : Int := 1) : PredictionSchemeWrapTransformBase :=
  { num_components_ := nc, min_value_ := t.minV, max_value_ := t.maxV, max_dif_ := t.maxDif,
    max_correction_ := t.maxCorr, min_correction_ := t.minCorr }

/-! ### OctahedronToolBox (normal_compression_utils.h) -/

theorem ModMax_eq_model (t : OctaT) (x : Int) (hwf : t.WF) (hx : I32 x) :
    OctahedronToolBox.ModMax (ofOctaT t) x = Octa.modMax t x := by
  obtain ⟨h1, h2, h3, h4⟩ := hwf
  unfold I32 at hx
  dsimp only [OctahedronToolBox.ModMax, OctahedronToolBox.center_value, OctahedronToolBox.max_quantized_value,
    ofOctaT, Octa.modMax]
  c_eq

theorem MakePositive_eq_model (t : OctaT) (x : Int) (hwf : t.WF) (hx : I32 x) :
    OctahedronToolBox.MakePositive (ofOctaT t) x = Octa.makePositive t x := by
  obtain ⟨h1, h2, h3, h4⟩ := hwf
  unfold I32 at hx
  dsimp only [OctahedronToolBox.MakePositive, OctahedronToolBox.max_quantized_value, ofOctaT, Octa.makePositive]
  c_eq

theorem IsInDiamond_eq_model (t : OctaT) (s tt : Int) (hwf : t.WF) :
    OctahedronToolBox.IsInDiamond (ofOctaT t) s tt = Octa.isInDiamond t s tt := by
  obtain ⟨h1, h2, h3, h4⟩ := hwf
  rw [Bool.eq_iff_iff]
  simp only [OctahedronToolBox.IsInDiamond, Octa.isInDiamond, decide_eq_true_eq]
  simp only [ofOctaT, wrapI32, wrapU32, cAbs, u32, iabs]
  by_cases h : s < 0 <;> by_cases h' : tt < 0 <;> simp only [h, h', if_true, if_false] <;>
    constructor <;> intro hh <;> omega

theorem InvertDiamond_eq_model (t : OctaT) (s tt : Int) (hwf : t.WF) (hs : I32 s) (ht : I32 tt) :
    OctahedronToolBox.InvertDiamond (ofOctaT t) s tt = Octa.invertDiamond t (s, tt) := by
  obtain ⟨h1, h2, h3, h4⟩ := hwf
  unfold I32 at hs ht
  dsimp only [OctahedronToolBox.InvertDiamond, ofOctaT, Octa.invertDiamond, tdiv2]
  c_eq

theorem CanonicalizeOctahedralCoords_eq_model (t : OctaT) (s tt : Int) (hwf : t.WF) (hg : Octa.inGrid t (s, tt)) :
    OctahedronToolBox.CanonicalizeOctahedralCoords (ofOctaT t) s tt = Octa.canonicalize t (s, tt) := by
  obtain ⟨h1, h2, h3, h4⟩ := hwf
  unfold Octa.inGrid at hg
  dsimp only [OctahedronToolBox.CanonicalizeOctahedralCoords, ofOctaT, Octa.canonicalize] at hg ⊢
  c_eq

/-! ### PredictionSchemeNormalOctahedronCanonicalizedTransformBase -/

theorem GetRotationCount_eq_model (p : Int × Int) :
    PredictionSchemeNormalOctahedronCanonicalizedTransformBase.GetRotationCount p = (Octa.rotationCount p : Int) := by
  dsimp only [PredictionSchemeNormalOctahedronCanonicalizedTransformBase.GetRotationCount, Octa.rotationCount]
  c_eq

/-- `-x` on `int32_t` is undefined for `INT_MIN`: the components are `int32_t` values other than `INT_MIN` -/
theorem RotatePoint_eq_model (p : Int × Int) (r : Nat)
    (h1 : -2^31 < p.1 ∧ p.1 < 2^31) (h2 : -2^31 < p.2 ∧ p.2 < 2^31) :
    PredictionSchemeNormalOctahedronCanonicalizedTransformBase.RotatePoint p r = Octa.rotatePoint p r := by
  dsimp only [PredictionSchemeNormalOctahedronCanonicalizedTransformBase.RotatePoint]
  have e1 : Octa.rotatePoint p 1 = (p.2, -p.1) := rfl
  have e2 : Octa.rotatePoint p 2 = (-p.1, -p.2) := rfl
  have e3 : Octa.rotatePoint p 3 = (-p.2, p.1) := rfl
  obtain rfl | rfl | rfl | h : r = 1 ∨ r = 2 ∨ r = 3 ∨ (r ≠ 1 ∧ r ≠ 2 ∧ r ≠ 3) := by omega
  · rw [e1]; c_eq
  · rw [e2]; c_eq
  · rw [e3]; c_eq
  · have : Octa.rotatePoint p r = p := by
      unfold Octa.rotatePoint; split <;> first | rfl | omega
    rw [this]; c_eq

theorem IsInBottomLeft_eq_model (p : Int × Int) :
    PredictionSchemeNormalOctahedronCanonicalizedTransformBase.IsInBottomLeft p = Octa.isInBottomLeft p := by
  rw [Bool.eq_iff_iff]
  unfold PredictionSchemeNormalOctahedronCanonicalizedTransformBase.IsInBottomLeft Octa.isInBottomLeft
  simp only [decide_eq_true_eq, Bool.decide_or, Bool.decide_and, Bool.or_eq_true, Bool.and_eq_true, Bool.if_true_left,
    Bool.if_false_right, Bool.if_true_right, Bool.if_false_left]
  repeat' (first | omega | split)

/-! ### wrap transform (prediction_scheme_wrap_*.h) -/

theorem ClampPredictedValue_eq_model (t : WrapT) (nc p : Int) :
    PredictionSchemeWrapTransformBase.ClampPredictedValue_elem (ofWrapT t nc) p = Wrap.clamp t p := by
  dsimp only [PredictionSchemeWrapTransformBase.ClampPredictedValue_elem, ofWrapT, Wrap.clamp]
  c_eq

/-- the result of the model's `InitCorrectionBounds` in the shape of the generated function -/
def initResult (self : PredictionSchemeWrapTransformBase) : Bool × PredictionSchemeWrapTransformBase :=
  match Wrap.init self.min_value_ self.max_value_ with
  | none => (false, self)
  | some t => (true, ofWrapT t self.num_components_)

theorem InitCorrectionBounds_eq_model (self : PredictionSchemeWrapTransformBase)
    (hmin : I32 self.min_value_) (hmax : I32 self.max_value_) :
    PredictionSchemeWrapTransformBase.InitCorrectionBounds self = initResult self := by
  unfold I32 at *
  obtain ⟨nc, mn, mx, md, mc, mic⟩ := self
  dsimp only at hmin hmax
  by_cases hc : mx - mn < 0 ∨ mx - mn ≥ 2^31 - 1
  · have hi : Wrap.init mn mx = none := by unfold Wrap.init; simp only [hc, if_true]
    dsimp only [initResult]; rw [hi]
    dsimp only [PredictionSchemeWrapTransformBase.InitCorrectionBounds]
    c_eq
  · obtain ⟨t, hi⟩ := (Wrap.init_some_iff mn mx).2 (by omega)
    obtain ⟨⟨b1, b2, b3, b4, b5⟩, hd0, hd⟩ := Wrap.init_bounds hi
    dsimp only [initResult]; rw [hi]
    dsimp only [PredictionSchemeWrapTransformBase.InitCorrectionBounds, ofWrapT]
    split
    · c_leaf
    · refine Prod.ext rfl ?_
      dsimp only
      rw [PredictionSchemeWrapTransformBase.mk.injEq]
      refine ⟨rfl, ?_, ?_, ?_, ?_, ?_⟩ <;> c_eq

theorem ComputeOriginalValue_eq_model (t : WrapT) (nc pred corr : Int)
    (hmin : I32 t.minV) (hmax : I32 t.maxV) (hp : I32 pred) (hc : I32 corr) :
    PredictionSchemeWrapDecodingTransform.ComputeOriginalValue_elem (ofWrapT t nc) pred corr = Wrap.decOrig t pred corr := by
  unfold I32 at *
  dsimp only [PredictionSchemeWrapDecodingTransform.ComputeOriginalValue_elem,
    PredictionSchemeWrapTransformBase.ClampPredictedValue_elem,
    PredictionSchemeWrapTransformBase.max_value, PredictionSchemeWrapTransformBase.min_value,
    PredictionSchemeWrapTransformBase.max_dif, ofWrapT, Wrap.decOrig, Wrap.clamp]
  c_eq

theorem ComputeCorrection_eq_model (t : WrapT) (lo hi nc orig pred : Int) (hinit : Wrap.init lo hi = some t)
    (hlo : I32 lo) (hhi : I32 hi) (ho : I32 orig) (hp : I32 pred) :
    PredictionSchemeWrapEncodingTransform.ComputeCorrection_elem (ofWrapT t nc) orig pred = Wrap.encCorr t orig pred := by
  obtain ⟨⟨b1, b2, b3, b4, b5⟩, hd0, hd⟩ := Wrap.init_bounds hinit
  unfold I32 at *
  dsimp only [PredictionSchemeWrapEncodingTransform.ComputeCorrection_elem,
    PredictionSchemeWrapTransformBase.ClampPredictedValue_elem,
    PredictionSchemeWrapTransformBase.max_correction, PredictionSchemeWrapTransformBase.min_correction,
    PredictionSchemeWrapTransformBase.max_dif, ofWrapT, Wrap.encCorr, Wrap.clamp]
  c_eq

/-! ### canonicalized octahedron transform (prediction_scheme_normal_octahedron_canonicalized_{de,en}coding_transform.h)

  The two private `Point2` functions are translated as wholes (their calls of `IsInDiamond`, `InvertDiamond`,
  `ModMax`, … go through the translated wrappers of `PredictionSchemeNormalOctahedronTransformBase`).  The proofs
  name the `let`s of both sides (`extract_lets`) and identify them pairwise, using the equality theorems above for
  the called functions and range lemmas for the intermediate values. -/

/-- every output component of `invertDiamond` is half of an `int32_t` -/
theorem invertDiamond_bound (t : OctaT) (p : Int × Int) :
    (-2^30 ≤ (Octa.invertDiamond t p).1 ∧ (Octa.invertDiamond t p).1 ≤ 2^30) ∧
    (-2^30 ≤ (Octa.invertDiamond t p).2 ∧ (Octa.invertDiamond t p).2 ≤ 2^30) := by
  have key : ∀ x : Int, -2^30 ≤ tdiv2 (s32 (u32 x)) ∧ tdiv2 (s32 (u32 x)) ≤ 2^30 := by
    intro x; unfold tdiv2 s32 u32; rw [tdiv_two]; constructor <;> repeat' (first | omega | split)
  unfold Octa.invertDiamond
  exact ⟨key _, key _⟩

theorem modMax_bound (t : OctaT) (x : Int) (hwf : t.WF) (hx : I32 x) :
    -2^31 + 2 * t.center + 1 ≤ Octa.modMax t x ∧ Octa.modMax t x ≤ 2^31 - 2 * t.center - 2 := by
  obtain ⟨h1, h2, h3, h4⟩ := hwf
  unfold I32 at hx
  unfold Octa.modMax
  constructor <;> repeat' (first | omega | split)

theorem rotationCount_le (p : Int × Int) : Octa.rotationCount p ≤ 3 := by
  unfold Octa.rotationCount; dsimp only; repeat' (first | omega | split)

/-- `rotatePoint` permutes the components up to sign -/
theorem rotatePoint_bound (p : Int × Int) (r : Nat) (B : Int) (h1 : -B ≤ p.1 ∧ p.1 ≤ B) (h2 : -B ≤ p.2 ∧ p.2 ≤ B) :
    (-B ≤ (Octa.rotatePoint p r).1 ∧ (Octa.rotatePoint p r).1 ≤ B) ∧
    (-B ≤ (Octa.rotatePoint p r).2 ∧ (Octa.rotatePoint p r).2 ≤ B) := by
  unfold Octa.rotatePoint
  split <;> (constructor <;> constructor <;> (try dsimp only) <;> omega)

theorem wrap32_I32 (x : Int) : I32 (wrap32 x) := by unfold I32 wrap32; omega

theorem reverse_rotation (rc : Nat) (h : rc ≤ 3) :
    wrapI32 (Int.tmod (wrapI32 (4 - (rc : Int))) 4) = (((4 - rc) % 4 : Nat) : Int) := by
  have e : wrapI32 (4 - (rc : Int)) = 4 - (rc : Int) := by unfold wrapI32; omega
  rw [e, Int.tmod_eq_emod_of_nonneg (by omega)]
  unfold wrapI32; omega

/-- `…CanonicalizedDecodingTransform::ComputeOriginalValue(Point2, Point2)` is `Octa.decOrig`: prediction on the grid,
    any correction -/
theorem octaDecode_eq_model (t : OctaT) (pred corr : Int × Int) (hwf : t.WF) (hg : Octa.inGrid t pred) :
    PredictionSchemeNormalOctahedronCanonicalizedDecodingTransform.ComputeOriginalValue (ofOctaT t) pred corr =
      Octa.decOrig t pred corr := by
  have hwf' := hwf
  obtain ⟨h1, h2, h3, h4⟩ := hwf'
  unfold Octa.inGrid at hg
  unfold PredictionSchemeNormalOctahedronCanonicalizedDecodingTransform.ComputeOriginalValue Octa.decOrig
  extract_lets gc gp0 ginD gr1 gp1a gp1b gp1 ginBL grc grot gp2 go0 grrc gorot go1 gr2 go2a go2b go2 go3 mc mp0 minD mp1 minBL mrc mp2 mo0 mo1 mo2
  have egc : gc = (mc, mc) := rfl
  have ep0 : gp0 = mp0 := by
    simp only [gp0, mp0, egc, mc]
    rw [wrapI32_id _ (by omega) (by omega), wrapI32_id _ (by omega) (by omega)]
  have bp0 : (-t.center ≤ mp0.1 ∧ mp0.1 ≤ t.center) ∧ (-t.center ≤ mp0.2 ∧ mp0.2 ≤ t.center) := by
    simp only [mp0, mc]; omega
  have einD : ginD = minD := by
    simp only [ginD, minD, ep0]; exact IsInDiamond_eq_model t _ _ hwf
  have er1 : gr1 = Octa.invertDiamond t mp0 := by
    simp only [gr1, ep0]
    exact InvertDiamond_eq_model t _ _ hwf (by unfold I32; omega) (by unfold I32; omega)
  have ep1 : gp1 = mp1 := by
    simp only [gp1, gp1b, gp1a, mp1, er1, einD, ep0]
    cases minD <;> simp
  -- |components of the (possibly inverted) prediction| ≤ 2^30
  have bp1 : (-2^30 ≤ mp1.1 ∧ mp1.1 ≤ 2^30) ∧ (-2^30 ≤ mp1.2 ∧ mp1.2 ≤ 2^30) := by
    have := invertDiamond_bound t mp0
    simp only [mp1]; split <;> omega
  have einBL : ginBL = minBL := by
    simp only [ginBL, minBL, ep1]; exact IsInBottomLeft_eq_model _
  have erc : grc = (mrc : Int) := by
    simp only [grc, mrc, ep1]; exact GetRotationCount_eq_model _
  have hrc : mrc ≤ 3 := rotationCount_le _
  have erot : grot = Octa.rotatePoint mp1 mrc := by
    simp only [grot, ep1, erc]
    exact RotatePoint_eq_model _ _ (by omega) (by omega)
  have ep2 : gp2 = mp2 := by
    simp only [gp2, mp2, erot, einBL, ep1]
    cases minBL <;> simp
  have eo0 : go0 = mo0 := by
    simp only [go0, mo0, ep2, PredictionSchemeNormalOctahedronTransformBase.ModMax, AddAsUnsigned_eq_model]
    rw [ModMax_eq_model t _ hwf (wrap32_I32 _), ModMax_eq_model t _ hwf (wrap32_I32 _)]
  have bo0 := modMax_bound t (wrap32 (mp2.1 + corr.1)) hwf (wrap32_I32 _)
  have bo0' := modMax_bound t (wrap32 (mp2.2 + corr.2)) hwf (wrap32_I32 _)
  have errc : grrc = (((4 - mrc) % 4 : Nat) : Int) := by
    simp only [grrc, erc]; exact reverse_rotation _ hrc
  have bo0B : (-(2^31 - 2 * t.center - 1) ≤ mo0.1 ∧ mo0.1 ≤ 2^31 - 2 * t.center - 1) ∧
      (-(2^31 - 2 * t.center - 1) ≤ mo0.2 ∧ mo0.2 ≤ 2^31 - 2 * t.center - 1) := by
    simp only [mo0]; omega
  have eorot : gorot = Octa.rotatePoint mo0 ((4 - mrc) % 4) := by
    simp only [gorot, eo0, errc]
    exact RotatePoint_eq_model _ _ (by omega) (by omega)
  have eo1 : go1 = mo1 := by
    simp only [go1, mo1, eorot, einBL, eo0]
    cases minBL <;> simp
  have bo1 : (-(2^31 - 2 * t.center - 1) ≤ mo1.1 ∧ mo1.1 ≤ 2^31 - 2 * t.center - 1) ∧
      (-(2^31 - 2 * t.center - 1) ≤ mo1.2 ∧ mo1.2 ≤ 2^31 - 2 * t.center - 1) := by
    have := rotatePoint_bound mo0 ((4 - mrc) % 4) _ bo0B.1 bo0B.2
    simp only [mo1]; split <;> omega
  have er2 : gr2 = Octa.invertDiamond t mo1 := by
    simp only [gr2, eo1]
    exact InvertDiamond_eq_model t _ _ hwf (by unfold I32; omega) (by unfold I32; omega)
  have eo2 : go2 = mo2 := by
    simp only [go2, go2b, go2a, mo2, er2, einD, eo1]
    cases minD <;> simp
  have bo2 : (-(2^31 - 2 * t.center - 1) ≤ mo2.1 ∧ mo2.1 ≤ 2^31 - 2 * t.center - 1) ∧
      (-(2^31 - 2 * t.center - 1) ≤ mo2.2 ∧ mo2.2 ≤ 2^31 - 2 * t.center - 1) := by
    have := invertDiamond_bound t mo1
    simp only [mo2]; split <;> omega
  simp only [go3, eo2, egc, mc]
  rw [wrapI32_id _ (by omega) (by omega), wrapI32_id _ (by omega) (by omega)]
/-- `invertDiamond` keeps the box `[-c, c]²` -/
theorem invertDiamond_inBox (t : OctaT) (hwf : t.WF) (p : Int × Int) (h : Octa.InBox t.center p) :
    Octa.InBox t.center (Octa.invertDiamond t p) := by
  have h' := h
  unfold Octa.InBox at h'
  rw [Octa.invertDiamond_closed_form t hwf.2.2.2 p h'.1 h'.2.1 h'.2.2.1 h'.2.2.2]
  exact Octa.invD_inBox _ _ h

/-- the last step of `ComputeCorrection`: difference of two points of the box, made positive -/
theorem makePositive_diff (t : OctaT) (hwf : t.WF) (o p : Int × Int)
    (bo : Octa.InBox t.center o) (bp : Octa.InBox t.center p) :
    (OctahedronToolBox.MakePositive (ofOctaT t) (wrapI32 (o.1 - p.1)),
      OctahedronToolBox.MakePositive (ofOctaT t) (wrapI32 (o.2 - p.2))) =
    (Octa.makePositive t (o.1 - p.1), Octa.makePositive t (o.2 - p.2)) := by
  have h4 := hwf.2.2.2
  unfold Octa.InBox at bo bp
  rw [wrapI32_id _ (by omega) (by omega), wrapI32_id _ (by omega) (by omega),
    MakePositive_eq_model t _ hwf (by unfold I32; omega), MakePositive_eq_model t _ hwf (by unfold I32; omega)]

theorem octaEncode_eq_model (t : OctaT) (orig pred : Int × Int) (hwf : t.WF) (ho : Octa.inGrid t orig) (hg : Octa.inGrid t pred) :
    PredictionSchemeNormalOctahedronCanonicalizedEncodingTransform.ComputeCorrection (ofOctaT t) orig pred =
      Octa.encCorr t orig pred := by
  have hwf' := hwf
  obtain ⟨h1, h2, h3, h4⟩ := hwf'
  have bo0' := Octa.inGrid_inBox t hwf orig ho
  have bp0' := Octa.inGrid_inBox t hwf pred hg
  unfold Octa.inGrid at hg ho
  unfold PredictionSchemeNormalOctahedronCanonicalizedEncodingTransform.ComputeCorrection Octa.encCorr
  extract_lets gc go0 gp0 gr1 go1a go1b gr2 gp1a gp1b grc1 go2 gp2 gk1a gk1b gk1 gk2a gk2b gk2 grc2 go3 gp3 gk3a gk3b gk3
    gk4a gk4b gk4 mc mo0 mp0 minD mo1 mp1 minBL mrc mo2 mp2
  have egc : gc = (mc, mc) := rfl
  have eo0 : go0 = mo0 := by
    simp only [go0, mo0, egc, mc]; rw [wrapI32_id _ (by omega) (by omega), wrapI32_id _ (by omega) (by omega)]
  have ep0 : gp0 = mp0 := by
    simp only [gp0, mp0, egc, mc]; rw [wrapI32_id _ (by omega) (by omega), wrapI32_id _ (by omega) (by omega)]
  have bo0 : Octa.InBox t.center mo0 := bo0'
  have bp0 : Octa.InBox t.center mp0 := bp0'
  have bo0u := bo0
  have bp0u := bp0
  unfold Octa.InBox at bo0u bp0u
  have einD : PredictionSchemeNormalOctahedronTransformBase.IsInDiamond (ofOctaT t) gp0.1 gp0.2 = minD := by
    simp only [minD, ep0]; exact IsInDiamond_eq_model t _ _ hwf
  have eo1b : go1b = Octa.invertDiamond t mo0 := by
    simp only [go1b, go1a, gr1, eo0]
    exact InvertDiamond_eq_model t _ _ hwf (by unfold I32; omega) (by unfold I32; omega)
  have ep1b : gp1b = Octa.invertDiamond t mp0 := by
    simp only [gp1b, gp1a, gr2, ep0]
    exact InvertDiamond_eq_model t _ _ hwf (by unfold I32; omega) (by unfold I32; omega)
  have bio := invertDiamond_inBox t hwf mo0 bo0
  have bip := invertDiamond_inBox t hwf mp0 bp0
  -- the second stage, for any pair of points of the box
  have stage2 : ∀ o p : Int × Int, Octa.InBox t.center o → Octa.InBox t.center p →
      (let rc := PredictionSchemeNormalOctahedronCanonicalizedTransformBase.GetRotationCount p
       let o' := PredictionSchemeNormalOctahedronCanonicalizedTransformBase.RotatePoint o rc
       let p' := PredictionSchemeNormalOctahedronCanonicalizedTransformBase.RotatePoint p rc
       (OctahedronToolBox.MakePositive (ofOctaT t) (wrapI32 (o'.1 - p'.1)),
        OctahedronToolBox.MakePositive (ofOctaT t) (wrapI32 (o'.2 - p'.2)))) =
      (Octa.makePositive t ((Octa.rotatePoint o (Octa.rotationCount p)).1 - (Octa.rotatePoint p (Octa.rotationCount p)).1),
       Octa.makePositive t ((Octa.rotatePoint o (Octa.rotationCount p)).2 - (Octa.rotatePoint p (Octa.rotationCount p)).2)) := by
    intro o p bo bp
    have bo' := bo
    have bp' := bp
    unfold Octa.InBox at bo' bp'
    dsimp only
    rw [GetRotationCount_eq_model, RotatePoint_eq_model _ _ (by omega) (by omega),
      RotatePoint_eq_model _ _ (by omega) (by omega)]
    exact makePositive_diff t hwf _ _ (Octa.rotate_inBox _ _ _ bo) (Octa.rotate_inBox _ _ _ bp)
  have ek4 : gk4 = (Octa.makePositive t (mo0.1 - mp0.1), Octa.makePositive t (mo0.2 - mp0.2)) := by
    simp only [gk4, gk4b, gk4a, eo0, ep0]; exact makePositive_diff t hwf _ _ bo0 bp0
  have ek3 := stage2 mo0 mp0 bo0 bp0
  have ek2 : gk2 = (Octa.makePositive t ((Octa.invertDiamond t mo0).1 - (Octa.invertDiamond t mp0).1),
      Octa.makePositive t ((Octa.invertDiamond t mo0).2 - (Octa.invertDiamond t mp0).2)) := by
    simp only [gk2, gk2b, gk2a, eo1b, ep1b]
    exact makePositive_diff t hwf _ _ bio bip
  have ek1 := stage2 _ _ bio bip
  have ek3' : gk3 = (Octa.makePositive t ((Octa.rotatePoint mo0 (Octa.rotationCount mp0)).1 - (Octa.rotatePoint mp0 (Octa.rotationCount mp0)).1),
       Octa.makePositive t ((Octa.rotatePoint mo0 (Octa.rotationCount mp0)).2 - (Octa.rotatePoint mp0 (Octa.rotationCount mp0)).2)) := by
    simp only [gk3, gk3b, gk3a, go3, gp3, grc2, eo0, ep0]; exact ek3
  have ek1' : gk1 = (Octa.makePositive t ((Octa.rotatePoint (Octa.invertDiamond t mo0) (Octa.rotationCount (Octa.invertDiamond t mp0))).1 - (Octa.rotatePoint (Octa.invertDiamond t mp0) (Octa.rotationCount (Octa.invertDiamond t mp0))).1),
       Octa.makePositive t ((Octa.rotatePoint (Octa.invertDiamond t mo0) (Octa.rotationCount (Octa.invertDiamond t mp0))).2 - (Octa.rotatePoint (Octa.invertDiamond t mp0) (Octa.rotationCount (Octa.invertDiamond t mp0))).2)) := by
    simp only [gk1, gk1b, gk1a, go2, gp2, grc1, eo1b, ep1b]; exact ek1
  rw [einD, ek1', ek2, ek3', ek4, ep1b, ep0, IsInBottomLeft_eq_model, IsInBottomLeft_eq_model]
  simp only [mo2, mp2, mrc, minBL, mo1, mp1]
  cases minD <;> simp <;> split <;> simp_all
/-! ### integer vectors → octahedral coordinates (normal_compression_utils.h) -/

theorem IntegerVectorToQuantizedOctahedralCoords_eq_model (t : OctaT) (x y z : Int) (hwf : t.WF)
    (hsum : iabs x + iabs y + iabs z = t.center) :
    OctahedronToolBox.IntegerVectorToQuantizedOctahedralCoords (ofOctaT t) x y z = Octa.intVecToCoords t (x, y, z) := by
  have hwf' := hwf
  obtain ⟨h1, h2, h3, h4⟩ := hwf'
  have key : ∀ s tt, Octa.inGrid t (s, tt) →
      OctahedronToolBox.CanonicalizeOctahedralCoords (ofOctaT t) s tt = Octa.canonicalize t (s, tt) :=
    fun s tt hg => CanonicalizeOctahedralCoords_eq_model t s tt hwf hg
  unfold iabs at hsum
  unfold OctahedronToolBox.IntegerVectorToQuantizedOctahedralCoords Octa.intVecToCoords
  have ec : (ofOctaT t).center_value_ = t.center := rfl
  have em : (ofOctaT t).max_value_ = t.maxV := rfl
  simp only [ec, em, cAbs, iabs]
  by_cases hx : x ≥ 0 <;> by_cases hy : y < 0 <;> by_cases hz : z < 0 <;>
    simp only [hx, hy, hz, show (x < 0) = ¬ (x ≥ 0) by simp, if_true, if_false, not_true_eq_false, not_false_eq_true] at hsum ⊢ <;>
    simp (disch := omega) only [wrapI32_id] <;>
    (rw [key _ _ (by unfold Octa.inGrid; dsimp only; omega)])


theorem tdiv_mul_bound_nonneg (x c s : Int) (hs : 0 < s) (hc : 0 ≤ c) (h0 : 0 ≤ x) (h1 : x ≤ s) :
    0 ≤ Int.tdiv (x * c) s ∧ Int.tdiv (x * c) s ≤ c := by
  have hxc : 0 ≤ x * c := Int.mul_nonneg h0 hc
  rw [Int.tdiv_eq_ediv_of_nonneg hxc]
  refine ⟨Int.ediv_nonneg hxc (by omega), ?_⟩
  have : x * c ≤ c * s := by
    rw [Int.mul_comm c s]; exact Int.mul_le_mul_of_nonneg_right h1 hc
  calc x * c / s ≤ c * s / s := Int.ediv_le_ediv hs this
    _ = c := Int.mul_ediv_cancel c (by omega)

theorem tdiv_mul_bound (x c s : Int) (hs : 0 < s) (hc : 0 ≤ c) (h0 : -s ≤ x) (h1 : x ≤ s) :
    -c ≤ Int.tdiv (x * c) s ∧ Int.tdiv (x * c) s ≤ c := by
  by_cases hx : 0 ≤ x
  · have := tdiv_mul_bound_nonneg x c s hs hc hx h1; omega
  · have := tdiv_mul_bound_nonneg (-x) c s hs hc (by omega) (by omega)
    rw [Int.neg_mul, Int.neg_tdiv] at this; omega

theorem mul_bound (x c : Int) (hx : -2^31 < x ∧ x < 2^31) (hc : 0 ≤ c ∧ c < 2^29) :
    -2^63 ≤ x * c ∧ x * c < 2^63 := by
  have key : ∀ a : Int, 0 ≤ a → a < 2^31 → 0 ≤ a * c ∧ a * c ≤ 2^31 * 2^29 := by
    intro a h0 h1
    exact ⟨Int.mul_nonneg h0 hc.1, Int.mul_le_mul (by omega) (by omega) hc.1 (by omega)⟩
  by_cases h : 0 ≤ x
  · have := key x h hx.2; omega
  · have := key (-x) (by omega) (by omega)
    rw [Int.neg_mul] at this; omega

theorem CanonicalizeIntegerVector_eq_model (t : OctaT) (x y z : Int) (hwf : t.WF)
    (hx : -2^31 < x ∧ x < 2^31) (hy : -2^31 < y ∧ y < 2^31) (hz : -2^31 < z ∧ z < 2^31) :
    OctahedronToolBox.CanonicalizeIntegerVector (ofOctaT t) x y z = Octa.canonicalizeIntVec t (x, y, z) := by
  obtain ⟨h1, h2, h3, h4⟩ := hwf
  unfold OctahedronToolBox.CanonicalizeIntegerVector Octa.canonicalizeIntVec
  have ec : (ofOctaT t).center_value_ = t.center := rfl
  simp only [ec]
  have ax : wrapI32 (cAbs x) = iabs x := by unfold cAbs iabs; split <;> exact wrapI32_id _ (by omega) (by omega)
  have ay : wrapI32 (cAbs y) = iabs y := by unfold cAbs iabs; split <;> exact wrapI32_id _ (by omega) (by omega)
  have az : wrapI32 (cAbs z) = iabs z := by unfold cAbs iabs; split <;> exact wrapI32_id _ (by omega) (by omega)
  have bx : 0 ≤ iabs x ∧ iabs x < 2^31 ∧ -iabs x ≤ x ∧ x ≤ iabs x := by unfold iabs; split <;> omega
  have by' : 0 ≤ iabs y ∧ iabs y < 2^31 ∧ -iabs y ≤ y ∧ y ≤ iabs y := by unfold iabs; split <;> omega
  have bz : 0 ≤ iabs z ∧ iabs z < 2^31 := by unfold iabs; split <;> omega
  rw [ax, ay, az]
  have es : wrapI64 (wrapI64 (iabs x + iabs y) + iabs z) = iabs x + iabs y + iabs z := by
    have e1 : wrapI64 (iabs x + iabs y) = iabs x + iabs y := wrapI64_id _ (by omega) (by omega)
    rw [e1, wrapI64_id _ (by omega) (by omega)]
  rw [es]
  generalize hS : iabs x + iabs y + iabs z = S at *
  try dsimp only
  by_cases h0 : S = 0
  · simp only [h0, if_true]
  · simp only [h0, if_false]
    have hS0 : 0 < S := by omega
    have tx := tdiv_mul_bound x t.center S hS0 (by omega) (by omega) (by omega)
    have ty := tdiv_mul_bound y t.center S hS0 (by omega) (by omega) (by omega)
    have mx := mul_bound x t.center hx ⟨by omega, by omega⟩
    have my := mul_bound y t.center hy ⟨by omega, by omega⟩
    rw [wrapI64_id (x * t.center) mx.1 mx.2, wrapI64_id (y * t.center) my.1 my.2]
    generalize hX : Int.tdiv (x * t.center) S = X at *
    generalize hY : Int.tdiv (y * t.center) S = Y at *
    rw [wrapI64_id X (by omega) (by omega), wrapI64_id Y (by omega) (by omega),
      wrapI32_id X (by omega) (by omega), wrapI32_id Y (by omega) (by omega)]
    have aX : wrapI32 (cAbs X) = iabs X := by unfold cAbs iabs; split <;> exact wrapI32_id _ (by omega) (by omega)
    have aY : wrapI32 (cAbs Y) = iabs Y := by unfold cAbs iabs; split <;> exact wrapI32_id _ (by omega) (by omega)
    have bX : 0 ≤ iabs X ∧ iabs X ≤ t.center := by unfold iabs; split <;> omega
    have bY : 0 ≤ iabs Y ∧ iabs Y ≤ t.center := by unfold iabs; split <;> omega
    rw [aX, aY]
    have e1 : wrapI32 (t.center - iabs X) = t.center - iabs X := wrapI32_id _ (by omega) (by omega)
    rw [e1]
    have e2 : wrapI32 (t.center - iabs X - iabs Y) = t.center - iabs X - iabs Y := wrapI32_id _ (by omega) (by omega)
    rw [e2]
    have e3 : wrapI32 (-(t.center - iabs X - iabs Y)) = -(t.center - iabs X - iabs Y) := wrapI32_id _ (by omega) (by omega)
    rw [e3]


/-! ### legacy (non canonicalized) octahedron transform (prediction_scheme_normal_octahedron_{de,en}coding_transform.h) -/

theorem u32_sub (a b : Int) : wrapI32 (wrapU32 (wrapU32 a - wrapU32 b)) = wrap32 (a - b) := by
  unfold wrapI32 wrapU32 wrap32; omega
theorem u32_add (a b : Int) : wrapI32 (wrapU32 (wrapU32 a + wrapU32 b)) = wrap32 (a + b) := by
  unfold wrapI32 wrapU32 wrap32; omega

theorem legacyDecode_eq_model (t : OctaT) (pred corr : Int × Int) (hwf : t.WF) :
    PredictionSchemeNormalOctahedronDecodingTransform.ComputeOriginalValue (ofOctaT t) pred corr =
      Octa.legacyDecOrig t pred corr := by
  unfold PredictionSchemeNormalOctahedronDecodingTransform.ComputeOriginalValue Octa.legacyDecOrig
  extract_lets gc gp0 ginD gr1 gp1a gp1b gp1 go0 go1a go1b gr2 go2a go2b go2 go3 mc mp0 minD mp1 mo0 mo1 mo2
  have egc : gc = (mc, mc) := rfl
  have ep0 : gp0 = mp0 := by
    simp only [gp0, mp0, egc, mc, u32_sub]
  have ip0 : I32 mp0.1 ∧ I32 mp0.2 := ⟨wrap32_I32 _, wrap32_I32 _⟩
  have einD : ginD = minD := by
    simp only [ginD, minD, ep0]; exact IsInDiamond_eq_model t _ _ hwf
  have er1 : gr1 = Octa.invertDiamond t mp0 := by
    simp only [gr1, ep0]
    exact InvertDiamond_eq_model t _ _ hwf ip0.1 ip0.2
  have ep1 : gp1 = mp1 := by
    simp only [gp1, gp1b, gp1a, mp1, er1, einD, ep0]
    cases minD <;> simp
  have eo0 : go0 = mo0 := by
    simp only [go0, mo0, ep1, u32_add]
  have eo1 : go1b = mo1 := by
    simp only [go1b, go1a, mo1, eo0, PredictionSchemeNormalOctahedronTransformBase.ModMax]
    rw [ModMax_eq_model t _ hwf (by simp only [mo0]; exact wrap32_I32 _),
      ModMax_eq_model t _ hwf (by simp only [mo0]; exact wrap32_I32 _)]
  have io1 : I32 mo1.1 ∧ I32 mo1.2 := by
    have b1 := modMax_bound t mo0.1 hwf (by simp only [mo0]; exact wrap32_I32 _)
    have b2 := modMax_bound t mo0.2 hwf (by simp only [mo0]; exact wrap32_I32 _)
    obtain ⟨h1, h2, h3, h4⟩ := hwf
    simp only [mo1]; unfold I32; omega
  have er2 : gr2 = Octa.invertDiamond t mo1 := by
    simp only [gr2, eo1]
    exact InvertDiamond_eq_model t _ _ hwf io1.1 io1.2
  have eo2 : go2 = mo2 := by
    simp only [go2, go2b, go2a, mo2, er2, einD, eo1]
    cases minD <;> simp
  simp only [go3, eo2, egc, mc, u32_add]


theorem legacyEncode_eq_model (t : OctaT) (orig pred : Int × Int) (hwf : t.WF) (ho : Octa.inGrid t orig) (hg : Octa.inGrid t pred) :
    PredictionSchemeNormalOctahedronEncodingTransform.ComputeCorrection (ofOctaT t) orig pred =
      Octa.legacyEncCorr t orig pred := by
  have hwf' := hwf
  obtain ⟨h1, h2, h3, h4⟩ := hwf'
  have bo0' := Octa.inGrid_inBox t hwf orig ho
  have bp0' := Octa.inGrid_inBox t hwf pred hg
  unfold Octa.inGrid at hg ho
  unfold PredictionSchemeNormalOctahedronEncodingTransform.ComputeCorrection Octa.legacyEncCorr
  extract_lets gc go0 gp0 gr1 go1a go1b gr2 gp1a gp1b gk1 gk1a gk1b gk2 gk2a gk2b mc mo0 mp0 minD mo1 mp1
  have egc : gc = (mc, mc) := rfl
  have eo0 : go0 = mo0 := by
    simp only [go0, mo0, egc, mc]; rw [wrapI32_id _ (by omega) (by omega), wrapI32_id _ (by omega) (by omega)]
  have ep0 : gp0 = mp0 := by
    simp only [gp0, mp0, egc, mc]; rw [wrapI32_id _ (by omega) (by omega), wrapI32_id _ (by omega) (by omega)]
  have bo0 : Octa.InBox t.center mo0 := bo0'
  have bp0 : Octa.InBox t.center mp0 := bp0'
  have bo0u := bo0
  have bp0u := bp0
  unfold Octa.InBox at bo0u bp0u
  have einD : PredictionSchemeNormalOctahedronTransformBase.IsInDiamond (ofOctaT t) gp0.1 gp0.2 = minD := by
    simp only [minD, ep0]; exact IsInDiamond_eq_model t _ _ hwf
  have eo1b : go1b = Octa.invertDiamond t mo0 := by
    simp only [go1b, go1a, gr1, eo0]
    exact InvertDiamond_eq_model t _ _ hwf (by unfold I32; omega) (by unfold I32; omega)
  have ep1b : gp1b = Octa.invertDiamond t mp0 := by
    simp only [gp1b, gp1a, gr2, ep0]
    exact InvertDiamond_eq_model t _ _ hwf (by unfold I32; omega) (by unfold I32; omega)
  have ek2 : gk2b = (Octa.makePositive t (mo0.1 - mp0.1), Octa.makePositive t (mo0.2 - mp0.2)) := by
    simp only [gk2b, gk2a, gk2, eo0, ep0]; exact makePositive_diff t hwf _ _ bo0 bp0
  have ek1 : gk1b = (Octa.makePositive t ((Octa.invertDiamond t mo0).1 - (Octa.invertDiamond t mp0).1),
      Octa.makePositive t ((Octa.invertDiamond t mo0).2 - (Octa.invertDiamond t mp0).2)) := by
    simp only [gk1b, gk1a, gk1, eo1b, ep1b]
    exact makePositive_diff t hwf _ _ (invertDiamond_inBox t hwf mo0 bo0) (invertDiamond_inBox t hwf mp0 bp0)
  rw [einD, ek1, ek2]
  simp only [mo1, mp1]
  cases minD <;> simp


end Draco.Generated
