import Generated.Funcs
import DracoModel.Octahedron
import DracoModel.Wrap
import DracoModel.RansSymbol
import DracoModel.Varint
import DracoProofs.Wrap
import DracoProofs.Octahedron
/-
  DracoProofs.GeneratedFuncs — every definition of lean/Generated/Funcs.lean (translated mechanically
  from clang's typed AST of /repo's working tree on every run, tools/vlib/xlate.py) equals the
  hand-written model definition that the property theorems are about.

  Hypotheses are the ranges of the C types of the arguments / fields (`I32 x`: `x` is an `int32_t`
  value) or the documented preconditions of the model definition (`OctaT.WF`, `Octa.inGrid`, a
  successful `Wrap.init`): the ranges in which the C++ has no signed overflow.

  The proofs deliberately do not use `rfl`/`decide` on the generated terms: they unfold both sides, split
  on every `if`, and close the leaves with `omega`, so that a harmless rewrite of the C++ (operand
  order, an extra temporary, an equivalent comparison, a different nesting of the branches) still goes
  through, while a change of behaviour does not.
-/
namespace Draco.Generated
open Draco Draco.CInt

/-- `x` is a value of `int32_t` -/
def I32 (x : Int) : Prop := -2^31 ≤ x ∧ x < 2^31

/-- `x` is a value of `uint32_t` -/
def U32 (x : Int) : Prop := 0 ≤ x ∧ x < 2^32

instance (x : Int) : Decidable (I32 x) := by unfold I32; infer_instance
instance (x : Int) : Decidable (U32 x) := by unfold U32; infer_instance

/-! ### C operations in linear-arithmetic form -/

theorem tdiv_two (x : Int) : Int.tdiv x 2 = if 0 ≤ x then x / 2 else -((-x) / 2) := by
  split
  · rename_i h; exact Int.tdiv_eq_ediv_of_nonneg h
  · rename_i h
    have : x = -(-x) := by omega
    rw [this, Int.neg_tdiv, Int.tdiv_eq_ediv_of_nonneg (by omega)]; simp

theorem cAnd_one (x : Int) : cAnd 32 x 1 = x % 2 := by
  unfold cAnd pat
  have : ((1:Int) % 2^32).toNat = 1 := by decide
  rw [this, Nat.and_one_is_mod]
  omega

theorem cShl_one (a : Int) : cShl a 1 = a * 2 := by
  unfold cShl; simp

theorem cShr_one (a : Int) : cShr a 1 = a / 2 := by
  unfold cShr; simp

/-- `wrapI32 (x / 2) = y / 2` (C division) from `x = y` for an `int32_t` value `x` -/
theorem wrap_tdiv2 (a b : Int) (h : a = b) (h1 : -2^31 ≤ a) (h2 : a < 2^31) :
    wrapI32 (Int.tdiv a 2) = Int.tdiv b 2 := by
  subst h; rw [tdiv_two]; unfold wrapI32; split <;> omega

theorem wrapI32_id (x : Int) (h1 : -2^31 ≤ x) (h2 : x < 2^31) : wrapI32 x = x := by unfold wrapI32; omega
theorem wrapI64_id (x : Int) (h1 : -2^63 ≤ x) (h2 : x < 2^63) : wrapI64 x = x := by unfold wrapI64; omega
theorem wrapU32_id (x : Int) (h1 : 0 ≤ x) (h2 : x < 2^32) : wrapU32 x = x := by unfold wrapU32; omega
theorem wrapU64_id (x : Int) (h1 : 0 ≤ x) (h2 : x < 2^64) : wrapU64 x = x := by unfold wrapU64; omega

/-- leaves: drop the reductions to the C type that provably do nothing (innermost first), unfold the remaining C
    operations to `%`/`/` by literals, split the remaining `if`s, `omega` -/
macro "c_leaf" : tactic =>
  `(tactic| ((try simp only [cAnd_one, cShl_one, cShr_one, decide_eq_true_eq, ge_iff_le, gt_iff_lt] at *);
             (try simp (disch := omega) only [wrapI32_id, wrapI64_id, wrapU32_id, wrapU64_id] at *);
             (try simp only [tdiv_two, wrapI32, wrapU32, wrapI64, wrapU64, cAbs, wrap32, u32, s32, tdiv2, iabs] at *);
             (repeat' (first | omega | split | constructor)); done))

/-- both sides are decision trees over (tuples of) integers: split every `if`, compare the leaves -/
macro "c_eq" : tactic =>
  `(tactic| repeat' (first | with_reducible rfl | split | (apply Prod.ext <;> dsimp only) | (with_reducible apply wrap_tdiv2) | c_leaf))

/-! ### the model state as the generated structures -/

/-- the generated `OctahedronToolBox` value of a model tool box -/
def ofOctaT (t : OctaT) : OctahedronToolBox :=
  { quantization_bits_ := t.q, max_quantized_value_ := t.maxQ, max_value_ := t.maxV, center_value_ := t.center }

/-- the generated `PredictionSchemeWrapTransformBase` value of a model wrap transform
    (`num_components_` is not part of the arithmetic) -/
def ofWrapT (t : WrapT) (nc : Int := 1) : PredictionSchemeWrapTransformBase :=
  { num_components_ := nc, min_value_ := t.minV, max_value_ := t.maxV, max_dif_ := t.maxDif,
    max_correction_ := t.maxCorr, min_correction_ := t.minCorr }

/-! ### OctahedronToolBox (normal_compression_utils.h) -/

theorem ModMax_eq_model (t : OctaT) (x : Int) (hwf : t.WF) (hx : I32 x) :
    OctahedronToolBox.ModMax (ofOctaT t) x = Octa.modMax t x := by
  obtain ⟨h1, h2, h3, h4⟩ := hwf
  unfold I32 at hx
  dsimp only [OctahedronToolBox.ModMax, OctahedronToolBox.center_value, OctahedronToolBox.max_quantized_value,
    ofOctaT, Octa.modMax]
  c_eq

theorem MakePositive_eq_model (t : OctaT) (x : Int) (hwf : t.WF) (hx : I32 x) :
    OctahedronToolBox.MakePositive (ofOctaT t) x = Octa.makePositive t x := by
  obtain ⟨h1, h2, h3, h4⟩ := hwf
  unfold I32 at hx
  dsimp only [OctahedronToolBox.MakePositive, OctahedronToolBox.max_quantized_value, ofOctaT, Octa.makePositive]
  c_eq

theorem IsInDiamond_eq_model (t : OctaT) (s tt : Int) (hwf : t.WF) :
    OctahedronToolBox.IsInDiamond (ofOctaT t) s tt = Octa.isInDiamond t s tt := by
  obtain ⟨h1, h2, h3, h4⟩ := hwf
  rw [Bool.eq_iff_iff]
  simp only [OctahedronToolBox.IsInDiamond, Octa.isInDiamond, decide_eq_true_eq]
  simp only [ofOctaT, wrapI32, wrapU32, cAbs, u32, iabs]
  by_cases h : s < 0 <;> by_cases h' : tt < 0 <;> simp only [h, h', if_true, if_false] <;>
    constructor <;> intro hh <;> omega

theorem InvertDiamond_eq_model (t : OctaT) (s tt : Int) (hwf : t.WF) (hs : I32 s) (ht : I32 tt) :
    OctahedronToolBox.InvertDiamond (ofOctaT t) s tt = Octa.invertDiamond t (s, tt) := by
  obtain ⟨h1, h2, h3, h4⟩ := hwf
  unfold I32 at hs ht
  dsimp only [OctahedronToolBox.InvertDiamond, ofOctaT, Octa.invertDiamond, tdiv2]
  c_eq

theorem CanonicalizeOctahedralCoords_eq_model (t : OctaT) (s tt : Int) (hwf : t.WF) (hg : Octa.inGrid t (s, tt)) :
    OctahedronToolBox.CanonicalizeOctahedralCoords (ofOctaT t) s tt = Octa.canonicalize t (s, tt) := by
  obtain ⟨h1, h2, h3, h4⟩ := hwf
  unfold Octa.inGrid at hg
  dsimp only [OctahedronToolBox.CanonicalizeOctahedralCoords, ofOctaT, Octa.canonicalize] at hg ⊢
  c_eq

/-! ### PredictionSchemeNormalOctahedronCanonicalizedTransformBase -/

theorem GetRotationCount_eq_model (p : Int × Int) :
    PredictionSchemeNormalOctahedronCanonicalizedTransformBase.GetRotationCount p = (Octa.rotationCount p : Int) := by
  dsimp only [PredictionSchemeNormalOctahedronCanonicalizedTransformBase.GetRotationCount, Octa.rotationCount]
  c_eq

/-- `-x` on `int32_t` is undefined for `INT_MIN`: the components are `int32_t` values other than `INT_MIN` -/
theorem RotatePoint_eq_model (p : Int × Int) (r : Nat)
    (h1 : -2^31 < p.1 ∧ p.1 < 2^31) (h2 : -2^31 < p.2 ∧ p.2 < 2^31) :
    PredictionSchemeNormalOctahedronCanonicalizedTransformBase.RotatePoint p r = Octa.rotatePoint p r := by
  dsimp only [PredictionSchemeNormalOctahedronCanonicalizedTransformBase.RotatePoint]
  have e1 : Octa.rotatePoint p 1 = (p.2, -p.1) := rfl
  have e2 : Octa.rotatePoint p 2 = (-p.1, -p.2) := rfl
  have e3 : Octa.rotatePoint p 3 = (-p.2, p.1) := rfl
  obtain rfl | rfl | rfl | h : r = 1 ∨ r = 2 ∨ r = 3 ∨ (r ≠ 1 ∧ r ≠ 2 ∧ r ≠ 3) := by omega
  · rw [e1]; c_eq
  · rw [e2]; c_eq
  · rw [e3]; c_eq
  · have : Octa.rotatePoint p r = p := by
      unfold Octa.rotatePoint; split <;> first | rfl | omega
    rw [this]; c_eq

theorem IsInBottomLeft_eq_model (p : Int × Int) :
    PredictionSchemeNormalOctahedronCanonicalizedTransformBase.IsInBottomLeft p = Octa.isInBottomLeft p := by
  rw [Bool.eq_iff_iff]
  unfold PredictionSchemeNormalOctahedronCanonicalizedTransformBase.IsInBottomLeft Octa.isInBottomLeft
  simp only [decide_eq_true_eq, Bool.decide_or, Bool.decide_and, Bool.or_eq_true, Bool.and_eq_true, Bool.if_true_left,
    Bool.if_false_right, Bool.if_true_right, Bool.if_false_left]
  repeat' (first | omega | split)

/-! ### wrap transform (prediction_scheme_wrap_*.h) -/

theorem ClampPredictedValue_eq_model (t : WrapT) (nc p : Int) :
    PredictionSchemeWrapTransformBase.ClampPredictedValue_elem (ofWrapT t nc) p = Wrap.clamp t p := by
  dsimp only [PredictionSchemeWrapTransformBase.ClampPredictedValue_elem, ofWrapT, Wrap.clamp]
  c_eq

/-- the result of the model's `InitCorrectionBounds` in the shape of the generated function -/
def initResult (self : PredictionSchemeWrapTransformBase) : Bool × PredictionSchemeWrapTransformBase :=
  match Wrap.init self.min_value_ self.max_value_ with
  | none => (false, self)
  | some t => (true, ofWrapT t self.num_components_)

theorem InitCorrectionBounds_eq_model (self : PredictionSchemeWrapTransformBase)
    (hmin : I32 self.min_value_) (hmax : I32 self.max_value_) :
    PredictionSchemeWrapTransformBase.InitCorrectionBounds self = initResult self := by
  unfold I32 at *
  obtain ⟨nc, mn, mx, md, mc, mic⟩ := self
  dsimp only at hmin hmax
  by_cases hc : mx - mn < 0 ∨ mx - mn ≥ 2^31 - 1
  · have hi : Wrap.init mn mx = none := by unfold Wrap.init; simp only [hc, if_true]
    dsimp only [initResult]; rw [hi]
    dsimp only [PredictionSchemeWrapTransformBase.InitCorrectionBounds]
    c_eq
  · obtain ⟨t, hi⟩ := (Wrap.init_some_iff mn mx).2 (by omega)
    obtain ⟨⟨b1, b2, b3, b4, b5⟩, hd0, hd⟩ := Wrap.init_bounds hi
    dsimp only [initResult]; rw [hi]
    dsimp only [PredictionSchemeWrapTransformBase.InitCorrectionBounds, ofWrapT]
    split
    · c_leaf
    · refine Prod.ext rfl ?_
      dsimp only
      rw [PredictionSchemeWrapTransformBase.mk.injEq]
      refine ⟨rfl, ?_, ?_, ?_, ?_, ?_⟩ <;> c_eq

theorem ComputeOriginalValue_eq_model (t : WrapT) (nc pred corr : Int)
    (hmin : I32 t.minV) (hmax : I32 t.maxV) (hp : I32 pred) (hc : I32 corr) :
    PredictionSchemeWrapDecodingTransform.ComputeOriginalValue_elem (ofWrapT t nc) pred corr = Wrap.decOrig t pred corr := by
  unfold I32 at *
  dsimp only [PredictionSchemeWrapDecodingTransform.ComputeOriginalValue_elem,
    PredictionSchemeWrapTransformBase.ClampPredictedValue_elem,
    PredictionSchemeWrapTransformBase.max_value, PredictionSchemeWrapTransformBase.min_value,
    PredictionSchemeWrapTransformBase.max_dif, ofWrapT, Wrap.decOrig, Wrap.clamp]
  c_eq

theorem ComputeCorrection_eq_model (t : WrapT) (lo hi nc orig pred : Int) (hinit : Wrap.init lo hi = some t)
    (hlo : I32 lo) (hhi : I32 hi) (ho : I32 orig) (hp : I32 pred) :
    PredictionSchemeWrapEncodingTransform.ComputeCorrection_elem (ofWrapT t nc) orig pred = Wrap.encCorr t orig pred := by
  obtain ⟨⟨b1, b2, b3, b4, b5⟩, hd0, hd⟩ := Wrap.init_bounds hinit
  unfold I32 at *
  dsimp only [PredictionSchemeWrapEncodingTransform.ComputeCorrection_elem,
    PredictionSchemeWrapTransformBase.ClampPredictedValue_elem,
    PredictionSchemeWrapTransformBase.max_correction, PredictionSchemeWrapTransformBase.min_correction,
    PredictionSchemeWrapTransformBase.max_dif, ofWrapT, Wrap.encCorr, Wrap.clamp]
  c_eq

/-! ### core (bit_utils.h, math_utils.h) and rANS precision (rans_symbol_coding.h) -/

theorem AddAsUnsigned_eq_model (a b : Int) : AddAsUnsigned a b = wrap32 (a + b) := by
  dsimp only [AddAsUnsigned]
  c_eq

/-- `3 * n` is an `int` multiplication: no signed overflow for `3 n < 2^31` -/
theorem ComputeRAnsUnclampedPrecision_eq_model (n : Int) (h0 : 0 ≤ n) (h1 : 3 * n < 2^31) :
    ComputeRAnsUnclampedPrecision n = 3 * n / 2 := by
  dsimp only [ComputeRAnsUnclampedPrecision]
  c_eq

theorem ComputeRAnsPrecisionFromUniqueSymbolsBitLength_eq_model (n : Nat) (h1 : 3 * n < 2^31) :
    ComputeRAnsPrecisionFromUniqueSymbolsBitLength n = (ransPrecisionBits n : Int) := by
  dsimp only [ComputeRAnsPrecisionFromUniqueSymbolsBitLength, ransPrecisionBits]
  rw [ComputeRAnsUnclampedPrecision_eq_model n (by omega) (by omega)]
  c_eq

theorem ConvertSymbolToSignedInt_eq_model (v : Int) (hv : U32 v) :
    ConvertSymbolToSignedInt v = ofSymbol v.toNat := by
  unfold U32 at hv
  dsimp only [ConvertSymbolToSignedInt, ofSymbol]
  c_eq

theorem nat_or_one_even (n : Nat) (he : n % 2 = 0) : n ||| 1 = n + 1 := by
  have h := Nat.two_pow_add_eq_or_of_lt (i := 1) (b := 1) (by decide) (n / 2)
  have e : 2 ^ 1 * (n / 2) = n := by omega
  rw [e] at h; exact h.symm

theorem cOr_one_even (a : Int) (h0 : 0 ≤ a) (h1 : a < 2^32) (he : a % 2 = 0) : cOr 32 a 1 = a + 1 := by
  unfold cOr pat
  have e1 : ((1:Int) % 2^32).toNat = 1 := by decide
  have e2 : (a % 2^32).toNat = a.toNat := by congr 1; omega
  rw [e1, e2, nat_or_one_even _ (by omega)]; omega

theorem ConvertSignedIntToSymbol_eq_model (x : Int) (hx : I32 x) :
    ConvertSignedIntToSymbol x = (toSymbol 32 x : Int) := by
  unfold I32 at hx
  dsimp only [ConvertSignedIntToSymbol, toSymbol]
  split
  · c_leaf
  · rename_i hneg
    rw [nat_or_one_even _ (by omega)]
    rw [cOr_one_even _ (by c_leaf) (by c_leaf) (by c_leaf)]
    c_leaf

theorem xor31 : ∀ k : Fin 32, (31 ^^^ (31 - k.val)) = k.val := by decide

theorem MostSignificantBit_eq_model (n : Int) (hn : U32 n) (h0 : n ≠ 0) :
    MostSignificantBit n = (Octa.msb n.toNat : Int) := by
  unfold U32 at hn
  dsimp only [MostSignificantBit, Octa.msb, cClz32, cXor, pat]
  have hl : Nat.log2 n.toNat < 32 := (Nat.log2_lt (by omega)).2 (by omega)
  have e1 : ((31:Int) % 2^32).toNat = 31 := by decide
  have e2 : ((31 - (Nat.log2 n.toNat : Int)) % 2^32).toNat = 31 - Nat.log2 n.toNat := by omega
  rw [e1, e2, xor31 ⟨_, hl⟩]
  c_leaf
/-! ### canonicalized octahedron transform (prediction_scheme_normal_octahedron_canonicalized_{de,en}coding_transform.h)

  The two private `Point2` functions are translated as wholes (their calls of `IsInDiamond`, `InvertDiamond`,
  `ModMax`, … go through the translated wrappers of `PredictionSchemeNormalOctahedronTransformBase`).  The proofs
  name the `let`s of both sides (`extract_lets`) and identify them pairwise, using the equality theorems above for
  the called functions and range lemmas for the intermediate values. -/

/-- every output component of `invertDiamond` is half of an `int32_t` -/
theorem invertDiamond_bound (t : OctaT) (p : Int × Int) :
    (-2^30 ≤ (Octa.invertDiamond t p).1 ∧ (Octa.invertDiamond t p).1 ≤ 2^30) ∧
    (-2^30 ≤ (Octa.invertDiamond t p).2 ∧ (Octa.invertDiamond t p).2 ≤ 2^30) := by
  have key : ∀ x : Int, -2^30 ≤ tdiv2 (s32 (u32 x)) ∧ tdiv2 (s32 (u32 x)) ≤ 2^30 := by
    intro x; unfold tdiv2 s32 u32; rw [tdiv_two]; constructor <;> repeat' (first | omega | split)
  unfold Octa.invertDiamond
  exact ⟨key _, key _⟩

theorem modMax_bound (t : OctaT) (x : Int) (hwf : t.WF) (hx : I32 x) :
    -2^31 + 2 * t.center + 1 ≤ Octa.modMax t x ∧ Octa.modMax t x ≤ 2^31 - 2 * t.center - 2 := by
  obtain ⟨h1, h2, h3, h4⟩ := hwf
  unfold I32 at hx
  unfold Octa.modMax
  constructor <;> repeat' (first | omega | split)

theorem rotationCount_le (p : Int × Int) : Octa.rotationCount p ≤ 3 := by
  unfold Octa.rotationCount; dsimp only; repeat' (first | omega | split)

/-- `rotatePoint` permutes the components up to sign -/
theorem rotatePoint_bound (p : Int × Int) (r : Nat) (B : Int) (h1 : -B ≤ p.1 ∧ p.1 ≤ B) (h2 : -B ≤ p.2 ∧ p.2 ≤ B) :
    (-B ≤ (Octa.rotatePoint p r).1 ∧ (Octa.rotatePoint p r).1 ≤ B) ∧
    (-B ≤ (Octa.rotatePoint p r).2 ∧ (Octa.rotatePoint p r).2 ≤ B) := by
  unfold Octa.rotatePoint
  split <;> (constructor <;> constructor <;> (try dsimp only) <;> omega)

theorem wrap32_I32 (x : Int) : I32 (wrap32 x) := by unfold I32 wrap32; omega

theorem reverse_rotation (rc : Nat) (h : rc ≤ 3) :
    wrapI32 (Int.tmod (wrapI32 (4 - (rc : Int))) 4) = (((4 - rc) % 4 : Nat) : Int) := by
  have e : wrapI32 (4 - (rc : Int)) = 4 - (rc : Int) := by unfold wrapI32; omega
  rw [e, Int.tmod_eq_emod_of_nonneg (by omega)]
  unfold wrapI32; omega

/-- `…CanonicalizedDecodingTransform::ComputeOriginalValue(Point2, Point2)` is `Octa.decOrig`: prediction on the grid,
    any correction -/
theorem octaDecode_eq_model (t : OctaT) (pred corr : Int × Int) (hwf : t.WF) (hg : Octa.inGrid t pred) :
    PredictionSchemeNormalOctahedronCanonicalizedDecodingTransform.ComputeOriginalValue (ofOctaT t) pred corr =
      Octa.decOrig t pred corr := by
  have hwf' := hwf
  obtain ⟨h1, h2, h3, h4⟩ := hwf'
  unfold Octa.inGrid at hg
  unfold PredictionSchemeNormalOctahedronCanonicalizedDecodingTransform.ComputeOriginalValue Octa.decOrig
  extract_lets gc gp0 ginD gr1 gp1a gp1b gp1 ginBL grc grot gp2 go0 grrc gorot go1 gr2 go2a go2b go2 go3 mc mp0 minD mp1 minBL mrc mp2 mo0 mo1 mo2
  have egc : gc = (mc, mc) := rfl
  have ep0 : gp0 = mp0 := by
    simp only [gp0, mp0, egc, mc]
    rw [wrapI32_id _ (by omega) (by omega), wrapI32_id _ (by omega) (by omega)]
  have bp0 : (-t.center ≤ mp0.1 ∧ mp0.1 ≤ t.center) ∧ (-t.center ≤ mp0.2 ∧ mp0.2 ≤ t.center) := by
    simp only [mp0, mc]; omega
  have einD : ginD = minD := by
    simp only [ginD, minD, ep0]; exact IsInDiamond_eq_model t _ _ hwf
  have er1 : gr1 = Octa.invertDiamond t mp0 := by
    simp only [gr1, ep0]
    exact InvertDiamond_eq_model t _ _ hwf (by unfold I32; omega) (by unfold I32; omega)
  have ep1 : gp1 = mp1 := by
    simp only [gp1, gp1b, gp1a, mp1, er1, einD, ep0]
    cases minD <;> simp
  -- |components of the (possibly inverted) prediction| ≤ 2^30
  have bp1 : (-2^30 ≤ mp1.1 ∧ mp1.1 ≤ 2^30) ∧ (-2^30 ≤ mp1.2 ∧ mp1.2 ≤ 2^30) := by
    have := invertDiamond_bound t mp0
    simp only [mp1]; split <;> omega
  have einBL : ginBL = minBL := by
    simp only [ginBL, minBL, ep1]; exact IsInBottomLeft_eq_model _
  have erc : grc = (mrc : Int) := by
    simp only [grc, mrc, ep1]; exact GetRotationCount_eq_model _
  have hrc : mrc ≤ 3 := rotationCount_le _
  have erot : grot = Octa.rotatePoint mp1 mrc := by
    simp only [grot, ep1, erc]
    exact RotatePoint_eq_model _ _ (by omega) (by omega)
  have ep2 : gp2 = mp2 := by
    simp only [gp2, mp2, erot, einBL, ep1]
    cases minBL <;> simp
  have eo0 : go0 = mo0 := by
    simp only [go0, mo0, ep2, PredictionSchemeNormalOctahedronTransformBase.ModMax, AddAsUnsigned_eq_model]
    rw [ModMax_eq_model t _ hwf (wrap32_I32 _), ModMax_eq_model t _ hwf (wrap32_I32 _)]
  have bo0 := modMax_bound t (wrap32 (mp2.1 + corr.1)) hwf (wrap32_I32 _)
  have bo0' := modMax_bound t (wrap32 (mp2.2 + corr.2)) hwf (wrap32_I32 _)
  have errc : grrc = (((4 - mrc) % 4 : Nat) : Int) := by
    simp only [grrc, erc]; exact reverse_rotation _ hrc
  have bo0B : (-(2^31 - 2 * t.center - 1) ≤ mo0.1 ∧ mo0.1 ≤ 2^31 - 2 * t.center - 1) ∧
      (-(2^31 - 2 * t.center - 1) ≤ mo0.2 ∧ mo0.2 ≤ 2^31 - 2 * t.center - 1) := by
    simp only [mo0]; omega
  have eorot : gorot = Octa.rotatePoint mo0 ((4 - mrc) % 4) := by
    simp only [gorot, eo0, errc]
    exact RotatePoint_eq_model _ _ (by omega) (by omega)
  have eo1 : go1 = mo1 := by
    simp only [go1, mo1, eorot, einBL, eo0]
    cases minBL <;> simp
  have bo1 : (-(2^31 - 2 * t.center - 1) ≤ mo1.1 ∧ mo1.1 ≤ 2^31 - 2 * t.center - 1) ∧
      (-(2^31 - 2 * t.center - 1) ≤ mo1.2 ∧ mo1.2 ≤ 2^31 - 2 * t.center - 1) := by
    have := rotatePoint_bound mo0 ((4 - mrc) % 4) _ bo0B.1 bo0B.2
    simp only [mo1]; split <;> omega
  have er2 : gr2 = Octa.invertDiamond t mo1 := by
    simp only [gr2, eo1]
    exact InvertDiamond_eq_model t _ _ hwf (by unfold I32; omega) (by unfold I32; omega)
  have eo2 : go2 = mo2 := by
    simp only [go2, go2b, go2a, mo2, er2, einD, eo1]
    cases minD <;> simp
  have bo2 : (-(2^31 - 2 * t.center - 1) ≤ mo2.1 ∧ mo2.1 ≤ 2^31 - 2 * t.center - 1) ∧
      (-(2^31 - 2 * t.center - 1) ≤ mo2.2 ∧ mo2.2 ≤ 2^31 - 2 * t.center - 1) := by
    have := invertDiamond_bound t mo1
    simp only [mo2]; split <;> omega
  simp only [go3, eo2, egc, mc]
  rw [wrapI32_id _ (by omega) (by omega), wrapI32_id _ (by omega) (by omega)]
/-- `invertDiamond` keeps the box `[-c, c]²` -/
theorem invertDiamond_inBox (t : OctaT) (hwf : t.WF) (p : Int × Int) (h : Octa.InBox t.center p) :
    Octa.InBox t.center (Octa.invertDiamond t p) := by
  have h' := h
  unfold Octa.InBox at h'
  rw [Octa.invertDiamond_closed_form t hwf.2.2.2 p h'.1 h'.2.1 h'.2.2.1 h'.2.2.2]
  exact Octa.invD_inBox _ _ h

/-- the last step of `ComputeCorrection`: difference of two points of the box, made positive -/
theorem makePositive_diff (t : OctaT) (hwf : t.WF) (o p : Int × Int)
    (bo : Octa.InBox t.center o) (bp : Octa.InBox t.center p) :
    (OctahedronToolBox.MakePositive (ofOctaT t) (wrapI32 (o.1 - p.1)),
      OctahedronToolBox.MakePositive (ofOctaT t) (wrapI32 (o.2 - p.2))) =
    (Octa.makePositive t (o.1 - p.1), Octa.makePositive t (o.2 - p.2)) := by
  have h4 := hwf.2.2.2
  unfold Octa.InBox at bo bp
  rw [wrapI32_id _ (by omega) (by omega), wrapI32_id _ (by omega) (by omega),
    MakePositive_eq_model t _ hwf (by unfold I32; omega), MakePositive_eq_model t _ hwf (by unfold I32; omega)]

theorem octaEncode_eq_model (t : OctaT) (orig pred : Int × Int) (hwf : t.WF) (ho : Octa.inGrid t orig) (hg : Octa.inGrid t pred) :
    PredictionSchemeNormalOctahedronCanonicalizedEncodingTransform.ComputeCorrection (ofOctaT t) orig pred =
      Octa.encCorr t orig pred := by
  have hwf' := hwf
  obtain ⟨h1, h2, h3, h4⟩ := hwf'
  have bo0' := Octa.inGrid_inBox t hwf orig ho
  have bp0' := Octa.inGrid_inBox t hwf pred hg
  unfold Octa.inGrid at hg ho
  unfold PredictionSchemeNormalOctahedronCanonicalizedEncodingTransform.ComputeCorrection Octa.encCorr
  extract_lets gc go0 gp0 gr1 go1a go1b gr2 gp1a gp1b grc1 go2 gp2 gk1a gk1b gk1 gk2a gk2b gk2 grc2 go3 gp3 gk3a gk3b gk3
    gk4a gk4b gk4 mc mo0 mp0 minD mo1 mp1 minBL mrc mo2 mp2
  have egc : gc = (mc, mc) := rfl
  have eo0 : go0 = mo0 := by
    simp only [go0, mo0, egc, mc]; rw [wrapI32_id _ (by omega) (by omega), wrapI32_id _ (by omega) (by omega)]
  have ep0 : gp0 = mp0 := by
    simp only [gp0, mp0, egc, mc]; rw [wrapI32_id _ (by omega) (by omega), wrapI32_id _ (by omega) (by omega)]
  have bo0 : Octa.InBox t.center mo0 := bo0'
  have bp0 : Octa.InBox t.center mp0 := bp0'
  have bo0u := bo0
  have bp0u := bp0
  unfold Octa.InBox at bo0u bp0u
  have einD : PredictionSchemeNormalOctahedronTransformBase.IsInDiamond (ofOctaT t) gp0.1 gp0.2 = minD := by
    simp only [minD, ep0]; exact IsInDiamond_eq_model t _ _ hwf
  have eo1b : go1b = Octa.invertDiamond t mo0 := by
    simp only [go1b, go1a, gr1, eo0]
    exact InvertDiamond_eq_model t _ _ hwf (by unfold I32; omega) (by unfold I32; omega)
  have ep1b : gp1b = Octa.invertDiamond t mp0 := by
    simp only [gp1b, gp1a, gr2, ep0]
    exact InvertDiamond_eq_model t _ _ hwf (by unfold I32; omega) (by unfold I32; omega)
  have bio := invertDiamond_inBox t hwf mo0 bo0
  have bip := invertDiamond_inBox t hwf mp0 bp0
  -- the second stage, for any pair of points of the box
  have stage2 : ∀ o p : Int × Int, Octa.InBox t.center o → Octa.InBox t.center p →
      (let rc := PredictionSchemeNormalOctahedronCanonicalizedTransformBase.GetRotationCount p
       let o' := PredictionSchemeNormalOctahedronCanonicalizedTransformBase.RotatePoint o rc
       let p' := PredictionSchemeNormalOctahedronCanonicalizedTransformBase.RotatePoint p rc
       (OctahedronToolBox.MakePositive (ofOctaT t) (wrapI32 (o'.1 - p'.1)),
        OctahedronToolBox.MakePositive (ofOctaT t) (wrapI32 (o'.2 - p'.2)))) =
      (Octa.makePositive t ((Octa.rotatePoint o (Octa.rotationCount p)).1 - (Octa.rotatePoint p (Octa.rotationCount p)).1),
       Octa.makePositive t ((Octa.rotatePoint o (Octa.rotationCount p)).2 - (Octa.rotatePoint p (Octa.rotationCount p)).2)) := by
    intro o p bo bp
    have bo' := bo
    have bp' := bp
    unfold Octa.InBox at bo' bp'
    dsimp only
    rw [GetRotationCount_eq_model, RotatePoint_eq_model _ _ (by omega) (by omega),
      RotatePoint_eq_model _ _ (by omega) (by omega)]
    exact makePositive_diff t hwf _ _ (Octa.rotate_inBox _ _ _ bo) (Octa.rotate_inBox _ _ _ bp)
  have ek4 : gk4 = (Octa.makePositive t (mo0.1 - mp0.1), Octa.makePositive t (mo0.2 - mp0.2)) := by
    simp only [gk4, gk4b, gk4a, eo0, ep0]; exact makePositive_diff t hwf _ _ bo0 bp0
  have ek3 := stage2 mo0 mp0 bo0 bp0
  have ek2 : gk2 = (Octa.makePositive t ((Octa.invertDiamond t mo0).1 - (Octa.invertDiamond t mp0).1),
      Octa.makePositive t ((Octa.invertDiamond t mo0).2 - (Octa.invertDiamond t mp0).2)) := by
    simp only [gk2, gk2b, gk2a, eo1b, ep1b]
    exact makePositive_diff t hwf _ _ bio bip
  have ek1 := stage2 _ _ bio bip
  have ek3' : gk3 = (Octa.makePositive t ((Octa.rotatePoint mo0 (Octa.rotationCount mp0)).1 - (Octa.rotatePoint mp0 (Octa.rotationCount mp0)).1),
       Octa.makePositive t ((Octa.rotatePoint mo0 (Octa.rotationCount mp0)).2 - (Octa.rotatePoint mp0 (Octa.rotationCount mp0)).2)) := by
    simp only [gk3, gk3b, gk3a, go3, gp3, grc2, eo0, ep0]; exact ek3
  have ek1' : gk1 = (Octa.makePositive t ((Octa.rotatePoint (Octa.invertDiamond t mo0) (Octa.rotationCount (Octa.invertDiamond t mp0))).1 - (Octa.rotatePoint (Octa.invertDiamond t mp0) (Octa.rotationCount (Octa.invertDiamond t mp0))).1),
       Octa.makePositive t ((Octa.rotatePoint (Octa.invertDiamond t mo0) (Octa.rotationCount (Octa.invertDiamond t mp0))).2 - (Octa.rotatePoint (Octa.invertDiamond t mp0) (Octa.rotationCount (Octa.invertDiamond t mp0))).2)) := by
    simp only [gk1, gk1b, gk1a, go2, gp2, grc1, eo1b, ep1b]; exact ek1
  rw [einD, ek1', ek2, ek3', ek4, ep1b, ep0, IsInBottomLeft_eq_model, IsInBottomLeft_eq_model]
  simp only [mo2, mp2, mrc, minBL, mo1, mp1]
  cases minD <;> simp <;> split <;> simp_all
end Draco.Generated
