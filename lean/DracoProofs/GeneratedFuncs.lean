import Generated.Funcs
import DracoModel.Octahedron
import DracoModel.Wrap
import DracoModel.RansSymbol
import DracoModel.Varint
import DracoProofs.Wrap
/-
  DracoProofs.GeneratedFuncs — every definition of lean/Generated/Funcs.lean (translated mechanically
  from clang's typed AST of /repo's working tree on every run, tools/vlib/xlate.py) equals the
  hand-written model definition that the property theorems are about.

  Hypotheses are the ranges of the C types of the arguments / fields (`I32 x`: `x` is an `int32_t`
  value) or the documented preconditions of the model definition (`OctaT.WF`, `Octa.inGrid`, a
  successful `Wrap.init`): the ranges in which the C++ has no signed overflow.

  The proofs deliberately do not use `rfl`/`decide` on the generated terms: they unfold both sides, split
  on every `if`, and close the leaves with `omega`, so that a harmless rewrite of the C++ (operand
  order, an extra temporary, an equivalent comparison, a different nesting of the branches) still goes
  through, while a change of behaviour does not.
-/
namespace Draco.Generated
open Draco Draco.CInt

/-- `x` is a value of `int32_t` -/
def I32 (x : Int) : Prop := -2^31 ≤ x ∧ x < 2^31

/-- `x` is a value of `uint32_t` -/
def U32 (x : Int) : Prop := 0 ≤ x ∧ x < 2^32

instance (x : Int) : Decidable (I32 x) := by unfold I32; infer_instance
instance (x : Int) : Decidable (U32 x) := by unfold U32; infer_instance

/-! ### C operations in linear-arithmetic form -/

theorem tdiv_two (x : Int) : Int.tdiv x 2 = if 0 ≤ x then x / 2 else -((-x) / 2) := by
  split
  · rename_i h; exact Int.tdiv_eq_ediv_of_nonneg h
  · rename_i h
    have : x = -(-x) := by omega
    rw [this, Int.neg_tdiv, Int.tdiv_eq_ediv_of_nonneg (by omega)]; simp

theorem cAnd_one (x : Int) : cAnd 32 x 1 = x % 2 := by
  unfold cAnd pat
  have : ((1:Int) % 2^32).toNat = 1 := by decide
  rw [this, Nat.and_one_is_mod]
  omega

theorem cShl_one (a : Int) : cShl a 1 = a * 2 := by
  unfold cShl; simp

theorem cShr_one (a : Int) : cShr a 1 = a / 2 := by
  unfold cShr; simp

/-- `wrapI32 (x / 2) = y / 2` (C division) from `x = y` for an `int32_t` value `x` -/
theorem wrap_tdiv2 (a b : Int) (h : a = b) (h1 : -2^31 ≤ a) (h2 : a < 2^31) :
    wrapI32 (Int.tdiv a 2) = Int.tdiv b 2 := by
  subst h; rw [tdiv_two]; unfold wrapI32; split <;> omega

theorem wrapI32_id (x : Int) (h1 : -2^31 ≤ x) (h2 : x < 2^31) : wrapI32 x = x := by unfold wrapI32; omega
theorem wrapI64_id (x : Int) (h1 : -2^63 ≤ x) (h2 : x < 2^63) : wrapI64 x = x := by unfold wrapI64; omega
theorem wrapU32_id (x : Int) (h1 : 0 ≤ x) (h2 : x < 2^32) : wrapU32 x = x := by unfold wrapU32; omega
theorem wrapU64_id (x : Int) (h1 : 0 ≤ x) (h2 : x < 2^64) : wrapU64 x = x := by unfold wrapU64; omega

/-- leaves: drop the reductions to the C type that provably do nothing (innermost first), unfold the remaining C
    operations to `%`/`/` by literals, split the remaining `if`s, `omega` -/
macro "c_leaf" : tactic =>
  `(tactic| ((try simp only [cAnd_one, cShl_one, cShr_one, decide_eq_true_eq, ge_iff_le, gt_iff_lt] at *);
             (try simp (disch := omega) only [wrapI32_id, wrapI64_id, wrapU32_id, wrapU64_id] at *);
             (try simp only [tdiv_two, wrapI32, wrapU32, wrapI64, wrapU64, cAbs, wrap32, u32, s32, tdiv2, iabs] at *);
             (repeat' (first | omega | split | constructor)); done))

/-- both sides are decision trees over (tuples of) integers: split every `if`, compare the leaves -/
macro "c_eq" : tactic =>
  `(tactic| repeat' (first | with_reducible rfl | split | (apply Prod.ext <;> dsimp only) | (with_reducible apply wrap_tdiv2) | c_leaf))

/-! ### the model state as the generated structures -/

/-- the generated `OctahedronToolBox` value of a model tool box -/
def ofOctaT (t : OctaT) : OctahedronToolBox :=
  { quantization_bits_ := t.q, max_quantized_value_ := t.maxQ, max_value_ := t.maxV, center_value_ := t.center }

/-- the generated `PredictionSchemeWrapTransformBase` value of a model wrap transform
    (`num_components_` is not part of the arithmetic) -/
def ofWrapT (t : WrapT) (nc : Int := 1) : PredictionSchemeWrapTransformBase :=
  { num_components_ := nc, min_value_ := t.minV, max_value_ := t.maxV, max_dif_ := t.maxDif,
    max_correction_ := t.maxCorr, min_correction_ := t.minCorr }

/-! ### OctahedronToolBox (normal_compression_utils.h) -/

theorem ModMax_eq_model (t : OctaT) (x : Int) (hwf : t.WF) (hx : I32 x) :
    OctahedronToolBox.ModMax (ofOctaT t) x = Octa.modMax t x := by
  obtain ⟨h1, h2, h3, h4⟩ := hwf
  unfold I32 at hx
  dsimp only [OctahedronToolBox.ModMax, OctahedronToolBox.center_value, OctahedronToolBox.max_quantized_value,
    ofOctaT, Octa.modMax]
  c_eq

theorem MakePositive_eq_model (t : OctaT) (x : Int) (hwf : t.WF) (hx : I32 x) :
    OctahedronToolBox.MakePositive (ofOctaT t) x = Octa.makePositive t x := by
  obtain ⟨h1, h2, h3, h4⟩ := hwf
  unfold I32 at hx
  dsimp only [OctahedronToolBox.MakePositive, OctahedronToolBox.max_quantized_value, ofOctaT, Octa.makePositive]
  c_eq

theorem IsInDiamond_eq_model (t : OctaT) (s tt : Int) (hwf : t.WF) :
    OctahedronToolBox.IsInDiamond (ofOctaT t) s tt = Octa.isInDiamond t s tt := by
  obtain ⟨h1, h2, h3, h4⟩ := hwf
  rw [Bool.eq_iff_iff]
  simp only [OctahedronToolBox.IsInDiamond, Octa.isInDiamond, decide_eq_true_eq]
  simp only [ofOctaT, wrapI32, wrapU32, cAbs, u32, iabs]
  by_cases h : s < 0 <;> by_cases h' : tt < 0 <;> simp only [h, h', if_true, if_false] <;>
    constructor <;> intro hh <;> omega

theorem InvertDiamond_eq_model (t : OctaT) (s tt : Int) (hwf : t.WF) (hs : I32 s) (ht : I32 tt) :
    OctahedronToolBox.InvertDiamond (ofOctaT t) s tt = Octa.invertDiamond t (s, tt) := by
  obtain ⟨h1, h2, h3, h4⟩ := hwf
  unfold I32 at hs ht
  dsimp only [OctahedronToolBox.InvertDiamond, ofOctaT, Octa.invertDiamond, tdiv2]
  c_eq

theorem CanonicalizeOctahedralCoords_eq_model (t : OctaT) (s tt : Int) (hwf : t.WF) (hg : Octa.inGrid t (s, tt)) :
    OctahedronToolBox.CanonicalizeOctahedralCoords (ofOctaT t) s tt = Octa.canonicalize t (s, tt) := by
  obtain ⟨h1, h2, h3, h4⟩ := hwf
  unfold Octa.inGrid at hg
  dsimp only [OctahedronToolBox.CanonicalizeOctahedralCoords, ofOctaT, Octa.canonicalize] at hg ⊢
  c_eq

/-! ### PredictionSchemeNormalOctahedronCanonicalizedTransformBase -/

theorem GetRotationCount_eq_model (p : Int × Int) :
    PredictionSchemeNormalOctahedronCanonicalizedTransformBase.GetRotationCount p = (Octa.rotationCount p : Int) := by
  dsimp only [PredictionSchemeNormalOctahedronCanonicalizedTransformBase.GetRotationCount, Octa.rotationCount]
  c_eq

/-- `-x` on `int32_t` is undefined for `INT_MIN`: the components are `int32_t` values other than `INT_MIN` -/
theorem RotatePoint_eq_model (p : Int × Int) (r : Nat)
    (h1 : -2^31 < p.1 ∧ p.1 < 2^31) (h2 : -2^31 < p.2 ∧ p.2 < 2^31) :
    PredictionSchemeNormalOctahedronCanonicalizedTransformBase.RotatePoint p r = Octa.rotatePoint p r := by
  dsimp only [PredictionSchemeNormalOctahedronCanonicalizedTransformBase.RotatePoint]
  have e1 : Octa.rotatePoint p 1 = (p.2, -p.1) := rfl
  have e2 : Octa.rotatePoint p 2 = (-p.1, -p.2) := rfl
  have e3 : Octa.rotatePoint p 3 = (-p.2, p.1) := rfl
  obtain rfl | rfl | rfl | h : r = 1 ∨ r = 2 ∨ r = 3 ∨ (r ≠ 1 ∧ r ≠ 2 ∧ r ≠ 3) := by omega
  · rw [e1]; c_eq
  · rw [e2]; c_eq
  · rw [e3]; c_eq
  · have : Octa.rotatePoint p r = p := by
      unfold Octa.rotatePoint; split <;> first | rfl | omega
    rw [this]; c_eq

theorem IsInBottomLeft_eq_model (p : Int × Int) :
    PredictionSchemeNormalOctahedronCanonicalizedTransformBase.IsInBottomLeft p = Octa.isInBottomLeft p := by
  rw [Bool.eq_iff_iff]
  dsimp only [PredictionSchemeNormalOctahedronCanonicalizedTransformBase.IsInBottomLeft, Octa.isInBottomLeft]
  split <;> simp

/-! ### wrap transform (prediction_scheme_wrap_*.h) -/

theorem ClampPredictedValue_eq_model (t : WrapT) (nc p : Int) :
    PredictionSchemeWrapTransformBase.ClampPredictedValue_elem (ofWrapT t nc) p = Wrap.clamp t p := by
  dsimp only [PredictionSchemeWrapTransformBase.ClampPredictedValue_elem, ofWrapT, Wrap.clamp]
  c_eq

/-- the result of the model's `InitCorrectionBounds` in the shape of the generated function -/
def initResult (self : PredictionSchemeWrapTransformBase) : Bool × PredictionSchemeWrapTransformBase :=
  match Wrap.init self.min_value_ self.max_value_ with
  | none => (false, self)
  | some t => (true, ofWrapT t self.num_components_)

theorem InitCorrectionBounds_eq_model (self : PredictionSchemeWrapTransformBase)
    (hmin : I32 self.min_value_) (hmax : I32 self.max_value_) :
    PredictionSchemeWrapTransformBase.InitCorrectionBounds self = initResult self := by
  unfold I32 at *
  obtain ⟨nc, mn, mx, md, mc, mic⟩ := self
  dsimp only at hmin hmax
  by_cases hc : mx - mn < 0 ∨ mx - mn ≥ 2^31 - 1
  · have hi : Wrap.init mn mx = none := by unfold Wrap.init; simp only [hc, if_true]
    dsimp only [initResult]; rw [hi]
    dsimp only [PredictionSchemeWrapTransformBase.InitCorrectionBounds]
    c_eq
  · obtain ⟨t, hi⟩ := (Wrap.init_some_iff mn mx).2 (by omega)
    obtain ⟨⟨b1, b2, b3, b4, b5⟩, hd0, hd⟩ := Wrap.init_bounds hi
    dsimp only [initResult]; rw [hi]
    dsimp only [PredictionSchemeWrapTransformBase.InitCorrectionBounds, ofWrapT]
    split
    · c_leaf
    · refine Prod.ext rfl ?_
      dsimp only
      rw [PredictionSchemeWrapTransformBase.mk.injEq]
      refine ⟨rfl, ?_, ?_, ?_, ?_, ?_⟩ <;> c_eq

theorem ComputeOriginalValue_eq_model (t : WrapT) (nc pred corr : Int)
    (hmin : I32 t.minV) (hmax : I32 t.maxV) (hp : I32 pred) (hc : I32 corr) :
    PredictionSchemeWrapDecodingTransform.ComputeOriginalValue_elem (ofWrapT t nc) pred corr = Wrap.decOrig t pred corr := by
  unfold I32 at *
  dsimp only [PredictionSchemeWrapDecodingTransform.ComputeOriginalValue_elem,
    PredictionSchemeWrapTransformBase.ClampPredictedValue_elem,
    PredictionSchemeWrapTransformBase.max_value, PredictionSchemeWrapTransformBase.min_value,
    PredictionSchemeWrapTransformBase.max_dif, ofWrapT, Wrap.decOrig, Wrap.clamp]
  c_eq

theorem ComputeCorrection_eq_model (t : WrapT) (lo hi nc orig pred : Int) (hinit : Wrap.init lo hi = some t)
    (hlo : I32 lo) (hhi : I32 hi) (ho : I32 orig) (hp : I32 pred) :
    PredictionSchemeWrapEncodingTransform.ComputeCorrection_elem (ofWrapT t nc) orig pred = Wrap.encCorr t orig pred := by
  obtain ⟨⟨b1, b2, b3, b4, b5⟩, hd0, hd⟩ := Wrap.init_bounds hinit
  unfold I32 at *
  dsimp only [PredictionSchemeWrapEncodingTransform.ComputeCorrection_elem,
    PredictionSchemeWrapTransformBase.ClampPredictedValue_elem,
    PredictionSchemeWrapTransformBase.max_correction, PredictionSchemeWrapTransformBase.min_correction,
    PredictionSchemeWrapTransformBase.max_dif, ofWrapT, Wrap.encCorr, Wrap.clamp]
  c_eq

/-! ### core (bit_utils.h, math_utils.h) and rANS precision (rans_symbol_coding.h) -/

theorem AddAsUnsigned_eq_model (a b : Int) : AddAsUnsigned a b = wrap32 (a + b) := by
  dsimp only [AddAsUnsigned]
  c_eq

/-- `3 * n` is an `int` multiplication: no signed overflow for `3 n < 2^31` -/
theorem ComputeRAnsUnclampedPrecision_eq_model (n : Int) (h0 : 0 ≤ n) (h1 : 3 * n < 2^31) :
    ComputeRAnsUnclampedPrecision n = 3 * n / 2 := by
  dsimp only [ComputeRAnsUnclampedPrecision]
  c_eq

theorem ComputeRAnsPrecisionFromUniqueSymbolsBitLength_eq_model (n : Nat) (h1 : 3 * n < 2^31) :
    ComputeRAnsPrecisionFromUniqueSymbolsBitLength n = (ransPrecisionBits n : Int) := by
  dsimp only [ComputeRAnsPrecisionFromUniqueSymbolsBitLength, ransPrecisionBits]
  rw [ComputeRAnsUnclampedPrecision_eq_model n (by omega) (by omega)]
  c_eq

theorem ConvertSymbolToSignedInt_eq_model (v : Int) (hv : U32 v) :
    ConvertSymbolToSignedInt v = ofSymbol v.toNat := by
  unfold U32 at hv
  dsimp only [ConvertSymbolToSignedInt, ofSymbol]
  c_eq

theorem nat_or_one_even (n : Nat) (he : n % 2 = 0) : n ||| 1 = n + 1 := by
  have h := Nat.two_pow_add_eq_or_of_lt (i := 1) (b := 1) (by decide) (n / 2)
  have e : 2 ^ 1 * (n / 2) = n := by omega
  rw [e] at h; exact h.symm

theorem cOr_one_even (a : Int) (h0 : 0 ≤ a) (h1 : a < 2^32) (he : a % 2 = 0) : cOr 32 a 1 = a + 1 := by
  unfold cOr pat
  have e1 : ((1:Int) % 2^32).toNat = 1 := by decide
  have e2 : (a % 2^32).toNat = a.toNat := by congr 1; omega
  rw [e1, e2, nat_or_one_even _ (by omega)]; omega

theorem ConvertSignedIntToSymbol_eq_model (x : Int) (hx : I32 x) :
    ConvertSignedIntToSymbol x = (toSymbol 32 x : Int) := by
  unfold I32 at hx
  dsimp only [ConvertSignedIntToSymbol, toSymbol]
  split
  · c_leaf
  · rename_i hneg
    rw [nat_or_one_even _ (by omega)]
    rw [cOr_one_even _ (by c_leaf) (by c_leaf) (by c_leaf)]
    c_leaf

theorem xor31 : ∀ k : Fin 32, (31 ^^^ (31 - k.val)) = k.val := by decide

theorem MostSignificantBit_eq_model (n : Int) (hn : U32 n) (h0 : n ≠ 0) :
    MostSignificantBit n = (Octa.msb n.toNat : Int) := by
  unfold U32 at hn
  dsimp only [MostSignificantBit, Octa.msb, cClz32, cXor, pat]
  have hl : Nat.log2 n.toNat < 32 := (Nat.log2_lt (by omega)).2 (by omega)
  have e1 : ((31:Int) % 2^32).toNat = 31 := by decide
  have e2 : ((31 - (Nat.log2 n.toNat : Int)) % 2^32).toNat = 31 - Nat.log2 n.toNat := by omega
  rw [e1, e2, xor31 ⟨_, hl⟩]
  c_leaf
end Draco.Generated
