import DracoProofs.EbDecSim
import DracoProofs.EbTraceI
/-
  INTERIOR START FACES, decoder side, pure part: the step `stepI` (the `interior` branch of `Eb.connStart` as pure array
  expressions), the run `StI`, and the preservation of the simulation invariant (`OInv` + `VInv` of DracoProofs/EbDecSim.lean,
  which are stated for a general face index) under `stepI` for a `TraceI`.
-/
namespace Draco.EbEnc.DecSim
open Draco Draco.EbEnc
open Draco.Eb (inv)
open Draco.EbEnc.EncCounts (nextC_cf prevC_cf nextC_div3 prevC_div3 inv_eq prevC_lt_inv)
open Draco.EbEnc.Coverage (TblOK vget_eq)

theorem Earlier.mono {P : Array Nat} {j j' e : Nat} (h : Earlier P j e) (hjj : j ≤ j') : Earlier P j' e := by
  obtain ⟨h1, i, hi, hf⟩ := h
  exact ⟨h1, i, by omega, hf⟩

/-! ## the fan walk, for an arbitrary encoder corner `x` whose face is not decoded yet -/

/-- the fan of the vertex of `x`, walked with `SwingLeft` from `SwingLeft(x) = phi d1`, is present in the decoder's partial
    table and carries the decoder vertex of `d1` -/
theorem chainG {t : CT} {P : Array Nat} (hC : Ctx t P) {j : Nat} {dc2v dopp vc : Array Nat} (hO : OInv t P j dopp)
    (hV : VInv t P j dc2v dopp vc) (hj : j ≤ P.size) (x d1 : Nat) (hd1 : d1 < 3 * j) (h1 : phi P d1 = sL t x) (m : Nat)
    (hE : ∀ k, k < m → 0 < k → Earlier P j (sLk t k x)) :
    ∀ k, 0 < k → k < m → ∃ d, d < 3 * j ∧ phi P d = sLk t k x ∧ dc2v[d]! = dc2v[d1]! := by
  have hinv := hC.fits'
  have hnc := hC.nc_le
  intro k
  induction k with
  | zero => intro h; omega
  | succ k ih =>
    intro _ hk
    by_cases hk0 : k = 0
    · subst hk0
      exact ⟨d1, hd1, h1, rfl⟩
    · obtain ⟨d, hd, hphi, hv⟩ := ih (by omega) (by omega)
      obtain ⟨hne, i, hi, hf⟩ := hE (k + 1) hk (by omega)
      have hx : sLk t (k + 1) x = Eb.nextC (t.opp[Eb.nextC (sLk t k x)]!) := rfl
      rw [hx] at hne hf
      have i3 : 3 * j ≤ inv := by omega
      have hnd : Eb.nextC d < 3 * j := EncCounts.nextC_lt3 hd i3
      have hpn : phi P (Eb.nextC d) = Eb.nextC (sLk t k x) := by
        rw [phi_nextC P d (by omega) (hC.p_inv (by omega)), hphi]
      have hlt := hC.phi_lt (d := Eb.nextC d) (by omega)
      rw [hpn] at hlt
      have hene : t.opp[Eb.nextC (sLk t k x)]! ≠ inv := by
        intro e; rw [e] at hne; exact hne AttViews.nextC_inv
      obtain ⟨helt, _⟩ := hC.invol hlt hene
      have heinv : t.opp[Eb.nextC (sLk t k x)]! < inv := by omega
      obtain ⟨d', hd'i, hd'phi⟩ := hC.exists_phi (Eb.nextC_lt _ heinv) (by omega : i < P.size) hf
      have hd' : d' < 3 * j := by omega
      have hpd' : Eb.prevC d' < 3 * j := EncCounts.prevC_lt3 hd' i3
      have hpp : phi P (Eb.prevC d') = t.opp[Eb.nextC (sLk t k x)]! := by
        rw [phi_prevC P d' (by omega) (hC.p_inv (by omega)), hd'phi, Eb.prevC_nextC _ heinv]
      have hopp : dopp[Eb.nextC d]! = Eb.prevC d' := hO.o2 _ _ hnd hpd' (by rw [hpn, hpp])
      obtain ⟨e1, _⟩ := hV.hedge (Eb.nextC d) hnd (by rw [hopp]; omega)
      rw [hopp, Eb.nextC_prevC _ (by omega), Eb.prevC_nextC _ (by omega)] at e1
      exact ⟨d', hd', by rw [hd'phi, hx], by rw [e1, hv]⟩

/-- the last corner `l` of that walk: it is the recorded left-most corner of its decoder vertex, its `SwingLeft` in the
    encoder's table is `x`, and `Next(l)` is mapped to `Opposite(Previous(x))` -/
theorem leftG {t : CT} {P : Array Nat} (hC : Ctx t P) {j : Nat} {dc2v dopp vc : Array Nat} (hO : OInv t P j dopp)
    (hV : VInv t P j dc2v dopp vc) (hj : j ≤ P.size) (x d1 : Nat) (hd1 : d1 < 3 * j) (h1 : phi P d1 = sL t x)
    (hx : x < inv) (hxf : ∃ i, i < P.size ∧ j ≤ i ∧ x / 3 = P[i]! / 3)
    (m : Nat) (hm : 2 ≤ m) (hcl : sLk t m x = x) (hE : ∀ k, k < m → 0 < k → Earlier P j (sLk t k x)) :
    ∃ l, l < 3 * j ∧ vc[dc2v[d1]!]! = l ∧ dc2v[l]! = dc2v[d1]! ∧ phi P l = sLk t (m - 1) x ∧
      phi P (Eb.nextC l) = t.opp[Eb.prevC x]! ∧ t.opp[phi P (Eb.nextC l)]! = Eb.prevC x := by
  have hinv := hC.fits'
  have hnc := hC.nc_le
  obtain ⟨d, hd, hphi, hv⟩ := chainG hC hO hV hj x d1 hd1 h1 m hE (m - 1) (by omega) (by omega)
  have hxm : sLk t m x = Eb.nextC (t.opp[Eb.nextC (sLk t (m - 1) x)]!) := by
    have e : m = (m - 1) + 1 := by omega
    rw [e]; rfl
  rw [hxm] at hcl
  have i3 : 3 * j ≤ inv := by omega
  have hnd : Eb.nextC d < 3 * j := EncCounts.nextC_lt3 hd i3
  have hpn : phi P (Eb.nextC d) = Eb.nextC (sLk t (m - 1) x) := by
    rw [phi_nextC P d (by omega) (hC.p_inv (by omega)), hphi]
  have hlt := hC.phi_lt (d := Eb.nextC d) (by omega)
  rw [hpn] at hlt
  have hene : t.opp[Eb.nextC (sLk t (m - 1) x)]! ≠ inv := by
    intro e; rw [e, AttViews.nextC_inv] at hcl; omega
  obtain ⟨helt, hback⟩ := hC.invol hlt hene
  have heinv : t.opp[Eb.nextC (sLk t (m - 1) x)]! < inv := by omega
  have he : t.opp[Eb.nextC (sLk t (m - 1) x)]! = Eb.prevC x := by
    have := Eb.prevC_nextC _ heinv
    rw [hcl] at this
    exact this.symm
  obtain ⟨i, hi, hji, hf⟩ := hxf
  have hoinv : dopp[Eb.nextC d]! = inv := by
    refine hO.inv_of_later hC hj hnd (Or.inr ⟨i, hi, hji, ?_⟩)
    rw [hpn, he, prevC_div3 _ hx, hf]
  have hlm := hV.lm d hd hoinv
  rw [hv] at hlm
  refine ⟨d, hd, hlm, hv, hphi, ?_, ?_⟩
  · rw [hpn, ← he, hback]
  · rw [hpn, he]

/-! ## the interior start step and the run of the start phase -/

/-- the `interior` branch of `Eb.connStart` creating face `i`: the popped stack corner `a`, `corner_b`, `corner_c` are glued to
    the corners `3 i`, `3 i + 1`, `3 i + 2` -/
def stepI (i : Nat) (s : DS) : DS :=
  let a := s.stack.back!
  let vN := s.c2v[Eb.nextC a]!
  let b := Eb.nextC s.vc[vN]!
  let vX := s.c2v[Eb.nextC b]!
  let c := Eb.nextC s.vc[vX]!
  let vP := s.c2v[Eb.nextC c]!
  { c2v := ((s.c2v.set! (3 * i) vX).set! (3 * i + 1) vP).set! (3 * i + 2) vN
    opp := glue (glue (glue s.opp (3 * i) a) (3 * i + 1) b) (3 * i + 2) c
    vc := s.vc
    hole := ((s.hole.setIfInBounds vX false).setIfInBounds vP false).setIfInBounds vN false
    stack := s.stack.pop }

/-- a boundary start face: the stack is popped -/
def popS (s : DS) : DS := { s with stack := s.stack.pop }

/-- the start phase on the start-face flags (stack-pop order), `i` = the next face index -/
def runStarts : List Bool → Nat → DS → DS
  | [], _, s => s
  | true :: r, i, s => runStarts r (i + 1) (stepI i s)
  | false :: r, i, s => runStarts r i (popS s)

/-- the decoder's tables at the end: `n` = number of faces (symbols + interior start faces) -/
def StI (syms : List Nat) (starts : List (Bool × Nat)) (n maxV : Nat) : DS :=
  runStarts (starts.map (·.1)) syms.length (St syms n maxV syms.length)

/- (validated by evaluation: `connLoop` with start-face bits `starts.map (·.1)` against `StI` on the three instances of
   DracoProofs/EbTraceI.lean — tetrahedron, tetrahedron + triangle, triangle + octahedron: identical `c2v / opp / vc / hole`) -/

/-! ## the glued corners of an interior start face -/

/-- the facts about the three glued corners of the interior start face `i` on the stack corner `3 e`:
    `corner_b = Next(l1)`, `corner_c = Next(l2)` -/
structure IFacts (t : CT) (P : Array Nat) (i e : Nat) (s : DS) (l1 l2 : Nat) : Prop where
  eb : 3 * e + 2 < 3 * i
  ll1 : l1 < 3 * i
  ll2 : l2 < 3 * i
  hB : s.vc[s.c2v[3 * e + 1]!]! = l1
  vl1 : s.c2v[l1]! = s.c2v[3 * e + 1]!
  phiB : phi P (Eb.nextC l1) = t.opp[Eb.nextC P[i]!]!
  oppB : t.opp[phi P (Eb.nextC l1)]! = Eb.nextC P[i]!
  hC : s.vc[s.c2v[Eb.nextC (Eb.nextC l1)]!]! = l2
  vl2 : s.c2v[l2]! = s.c2v[Eb.nextC (Eb.nextC l1)]!
  phiC : phi P (Eb.nextC l2) = t.opp[Eb.prevC P[i]!]!
  oppC : t.opp[phi P (Eb.nextC l2)]! = Eb.prevC P[i]!
  vPA : s.c2v[3 * e + 2]! = s.c2v[Eb.nextC (Eb.nextC l2)]!
  oA : s.opp[3 * e]! = inv
  oB : s.opp[Eb.nextC l1]! = inv
  oC : s.opp[Eb.nextC l2]! = inv
  neAB : Eb.nextC l1 ≠ 3 * e
  neAC : Eb.nextC l2 ≠ 3 * e
  neBC : Eb.nextC l1 ≠ Eb.nextC l2

theorem ifacts {t : CT} {P : Array Nat} (hC : Ctx t P) {i n e : Nat} {s : DS}
    (hO : OInv t P i s.opp) (hV : VInv t P i s.c2v s.opp s.vc) (hi : i < P.size) (hn : n ≤ i) (hIA : InitAt t P n i e) :
    ∃ l1 l2, IFacts t P i e s l1 l2 := by
  have hinv := hC.fits'
  have hnc := hC.nc_le
  have hb := hC.tbl.base
  obtain ⟨hg, _, hen, hopg, ⟨m2, _, hm2, hcl2, hE2⟩, ⟨m3, _, hm3, hcl3, hE3⟩, ⟨m1, _, hm1, hcl1, hE1⟩⟩ := hIA
  have hgi : P[i]! < inv := by omega
  have hpe := hC.p_inv (i := e) (by omega)
  have hplt : Eb.prevC P[i]! < t.numCorners := AttViews.prevC_ltN hb.n3 hb.le hg
  have hnlt : Eb.nextC P[i]! < t.numCorners := AttViews.nextC_ltN hb.n3 hg
  have i3 : 3 * i ≤ inv := by omega
  have hji : i ≤ P.size := by omega
  -- fan 1: around `Previous(g)`, from `Next(3 e)`
  obtain ⟨l1, hl1, hvc1, hvl1, _, hphiB, hoppB⟩ := leftG hC hO hV hji (Eb.prevC P[i]!) (3 * e + 1) (by omega)
    (by rw [phi_1]; unfold sL; rw [Eb.nextC_prevC _ hgi, hopg]) (by omega)
    ⟨i, hi, Nat.le_refl _, prevC_div3 _ hgi⟩ m1 hm1 hcl1 (fun k h1 h2 => (hE1 k h1 h2).mono hn)
  rw [EncCounts.prevC_prevC' _ hgi] at hphiB hoppB
  have hnl1 : Eb.nextC l1 < 3 * i := EncCounts.nextC_lt3 hl1 i3
  have hnnl1 : Eb.nextC (Eb.nextC l1) < 3 * i := EncCounts.nextC_lt3 hnl1 i3
  -- fan 2: around `g`, from `Next(corner_b)`
  obtain ⟨l2, hl2, hvc2, hvl2, _, hphiC, hoppC⟩ := leftG hC hO hV hji P[i]! (Eb.nextC (Eb.nextC l1)) hnnl1
    (by rw [phi_nextC P _ (by omega) (hC.p_inv (by omega)), hphiB]; rfl) hgi
    ⟨i, hi, Nat.le_refl _, rfl⟩ m2 hm2 hcl2 (fun k h1 h2 => (hE2 k h1 h2).mono hn)
  have hnl2 : Eb.nextC l2 < 3 * i := EncCounts.nextC_lt3 hl2 i3
  have hnnl2 : Eb.nextC (Eb.nextC l2) < 3 * i := EncCounts.nextC_lt3 hnl2 i3
  -- fan 3: around `Next(g)`, from `Next(corner_c)`: it ends at `Previous(3 e)`
  obtain ⟨l3, hl3, _, hvl3, _, hphi3, _⟩ := leftG hC hO hV hji (Eb.nextC P[i]!) (Eb.nextC (Eb.nextC l2)) hnnl2
    (by rw [phi_nextC P _ (by omega) (hC.p_inv (by omega)), hphiC]; unfold sL; rw [EncCounts.nextC_nextC' _ hgi]) (by omega)
    ⟨i, hi, Nat.le_refl _, nextC_div3 _ hgi⟩ m3 hm3 hcl3 (fun k h1 h2 => (hE3 k h1 h2).mono hn)
  rw [Eb.prevC_nextC _ hgi, hopg] at hphi3
  have hnl3 : Eb.nextC l3 < 3 * i := EncCounts.nextC_lt3 hl3 i3
  have hl3A : Eb.nextC l3 = 3 * e := hC.phi_inj (by omega) (by omega) (by rw [hphi3, phi_0])
  have hl3' : l3 = 3 * e + 2 := by
    have := Eb.prevC_nextC l3 (by omega)
    rw [hl3A, pv0 _ (by omega)] at this
    exact this.symm
  rw [hl3'] at hvl3
  -- the encoder's opposite of the image of `3 e` is `g`
  have hopA : t.opp[phi P (3 * e)]! = P[i]! := by
    rw [phi_0, ← hopg]; exact (hC.invol hg (by rw [hopg]; omega)).2
  have hne1 : Eb.nextC P[i]! ≠ P[i]! := by rw [nextC_cf _ hgi]; split <;> omega
  have hne2 : Eb.prevC P[i]! ≠ P[i]! := by rw [prevC_cf _ hgi]; split <;> omega
  have hne3 : Eb.nextC P[i]! ≠ Eb.prevC P[i]! := by rw [nextC_cf _ hgi, prevC_cf _ hgi]; split <;> split <;> omega
  have later : ∀ d, d < 3 * i → (∃ y, t.opp[phi P d]! = y ∧ y / 3 = P[i]! / 3) → s.opp[d]! = inv := by
    intro d hd ⟨y, hy1, hy2⟩
    exact hO.inv_of_later hC hji hd (Or.inr ⟨i, hi, Nat.le_refl _, by rw [hy1, hy2]⟩)
  refine ⟨l1, l2, by omega, hl1, hl2, hvc1, hvl1, hphiB, hoppB, hvc2, hvl2, hphiC, hoppC, hvl3, ?_, ?_, ?_, ?_, ?_, ?_⟩
  · exact later _ (by omega) ⟨_, hopA, rfl⟩
  · exact later _ hnl1 ⟨_, hoppB, nextC_div3 _ hgi⟩
  · exact later _ hnl2 ⟨_, hoppC, prevC_div3 _ hgi⟩
  · intro e'; rw [e', hopA] at hoppB; exact hne1 hoppB.symm
  · intro e'; rw [e', hopA] at hoppC; exact hne2 hoppC.symm
  · intro e'; rw [e', hoppC] at hoppB; exact hne3 hoppB.symm

/-! ## the interior start step preserves the invariant -/

/-- the gluing map of an interior start face -/
def gI (i e l1 l2 a : Nat) : Nat :=
  if a = 3 * i then 3 * e else if a = 3 * i + 1 then Eb.nextC l1 else if a = 3 * i + 2 then Eb.nextC l2 else inv
theorem gI_0 (i e l1 l2 : Nat) : gI i e l1 l2 (3 * i) = 3 * e := by
  unfold gI; rw [if_pos rfl]
theorem gI_1 (i e l1 l2 : Nat) : gI i e l1 l2 (3 * i + 1) = Eb.nextC l1 := by
  unfold gI; rw [if_neg (by omega), if_pos rfl]
theorem gI_2 (i e l1 l2 : Nat) : gI i e l1 l2 (3 * i + 2) = Eb.nextC l2 := by
  unfold gI; rw [if_neg (by omega), if_neg (by omega), if_pos rfl]

theorem inv_stepI {t : CT} {P : Array Nat} (hC : Ctx t P) {i n e : Nat} {s : DS}
    (hO : OInv t P i s.opp) (hV : VInv t P i s.c2v s.opp s.vc) (hi : i < P.size) (hIA : InitAt t P n i e)
    (hA : s.stack.back! = 3 * e) {l1 l2 : Nat} (hF : IFacts t P i e s l1 l2) :
    OInv t P (i + 1) (stepI i s).opp ∧ VInv t P (i + 1) (stepI i s).c2v (stepI i s).opp (stepI i s).vc := by
  have hinv := hC.fits'
  have hnc := hC.nc_le
  have hcs := hV.csize
  have hos := hO.size
  obtain ⟨heb, hl1, hl2, hB, hvl1, hphiB, hoppB, hCc, hvl2, hphiC, hoppC, hvPA, hoA, hoB, hoC, hAB, hAC, hBC⟩ := hF
  obtain ⟨hg, _, _, hopg, _, _, _⟩ := hIA
  have hgi : P[i]! < inv := by omega
  have i3 : 3 * i ≤ inv := by omega
  have hnl1 : Eb.nextC l1 < 3 * i := EncCounts.nextC_lt3 hl1 i3
  have hnnl1 : Eb.nextC (Eb.nextC l1) < 3 * i := EncCounts.nextC_lt3 hnl1 i3
  have hnl2 : Eb.nextC l2 < 3 * i := EncCounts.nextC_lt3 hl2 i3
  have hnnl2 : Eb.nextC (Eb.nextC l2) < 3 * i := EncCounts.nextC_lt3 hnl2 i3
  have hnA : Eb.nextC (3 * e) = 3 * e + 1 := nx0 _ (by omega)
  have hpA : Eb.prevC (3 * e) = 3 * e + 2 := pv0 _ (by omega)
  have hnew : ∀ a, 3 * i ≤ a → a < 3 * i + 3 → a = 3 * i ∨ a = 3 * i + 1 ∨ a = 3 * i + 2 := by intros; omega
  have ho' : ∀ d, (stepI i s).opp[d]! = if d = Eb.nextC l2 then 3 * i + 2 else if d = 3 * i + 2 then Eb.nextC l2
      else if d = Eb.nextC l1 then 3 * i + 1 else if d = 3 * i + 1 then Eb.nextC l1
      else if d = 3 * e then 3 * i else if d = 3 * i then 3 * e else s.opp[d]! := by
    intro d
    have e0 : (stepI i s).opp = glue (glue (glue s.opp (3 * i) (3 * e)) (3 * i + 1) (Eb.nextC l1)) (3 * i + 2) (Eb.nextC l2) := by
      simp only [stepI]
      rw [hA, hnA, hB, hCc]
    rw [e0, glue_get _ _ _ _ (by rw [glue_size, glue_size]; omega) (by rw [glue_size, glue_size]; omega),
      glue_get _ _ _ _ (by rw [glue_size]; omega) (by rw [glue_size]; omega), glue_get _ _ _ _ (by omega) (by omega)]
  have hc' : ∀ d, (stepI i s).c2v[d]! = if d = 3 * i + 2 then s.c2v[3 * e + 1]! else if d = 3 * i + 1 then s.c2v[Eb.nextC (Eb.nextC l2)]!
      else if d = 3 * i then s.c2v[Eb.nextC (Eb.nextC l1)]! else s.c2v[d]! := by
    intro d
    have e0 : (stepI i s).c2v = ((s.c2v.set! (3 * i) s.c2v[Eb.nextC (Eb.nextC l1)]!).set! (3 * i + 1)
        s.c2v[Eb.nextC (Eb.nextC l2)]!).set! (3 * i + 2) s.c2v[3 * e + 1]! := by
      simp only [stepI]
      rw [hA, hnA, hB, hCc]
    rw [e0]
    exact gs3 _ _ _ _ _ _ _ d (by omega) (by omega) (by omega)
  have hvc' : (stepI i s).vc = s.vc := rfl
  have hold : ∀ d, d < 3 * i → (stepI i s).c2v[d]! = s.c2v[d]! := by
    intro d hd
    rw [hc', if_neg (by omega), if_neg (by omega), if_neg (by omega)]
  have g1 : ∀ a, 3 * i ≤ a → a < 3 * i + 3 → (stepI i s).opp[a]! = gI i e l1 l2 a := by
    intro a h1 h2
    rcases hnew a h1 h2 with rfl | rfl | rfl
    · rw [gI_0, ho', if_neg (by omega), if_neg (by omega), if_neg (by omega), if_neg (by omega), if_neg (by omega), if_pos rfl]
    · rw [gI_1, ho', if_neg (by omega), if_neg (by omega), if_neg (by omega), if_pos rfl]
    · rw [gI_2, ho', if_neg (by omega), if_pos rfl]
  have gA := gI_0 i e l1 l2
  have gB := gI_1 i e l1 l2
  have gC := gI_2 i e l1 l2
  have oA' : (stepI i s).opp[3 * e]! = 3 * i := by
    rw [ho', if_neg (fun h => hAC h.symm), if_neg (by omega), if_neg (fun h => hAB h.symm), if_neg (by omega), if_pos rfl]
  have oB' : (stepI i s).opp[Eb.nextC l1]! = 3 * i + 1 := by
    rw [ho', if_neg hBC, if_neg (by omega), if_pos rfl]
  have oC' : (stepI i s).opp[Eb.nextC l2]! = 3 * i + 2 := by
    rw [ho', if_pos rfl]
  have g4 : ∀ d, d < 3 * i → (∀ a, 3 * i ≤ a → a < 3 * i + 3 → gI i e l1 l2 a ≠ d) → (stepI i s).opp[d]! = s.opp[d]! := by
    intro d hd hex
    have k0 := hex (3 * i) (by omega) (by omega)
    have k1 := hex (3 * i + 1) (by omega) (by omega)
    have k2 := hex (3 * i + 2) (by omega) (by omega)
    rw [gA] at k0
    rw [gB] at k1
    rw [gC] at k2
    rw [ho', if_neg (fun h => k2 h.symm), if_neg (by omega), if_neg (fun h => k1 h.symm), if_neg (by omega),
      if_neg (fun h => k0 h.symm), if_neg (by omega)]
  -- encoder side
  have hb := hC.tbl.base
  have hplt : Eb.prevC P[i]! < t.numCorners := AttViews.prevC_ltN hb.n3 hb.le hg
  have hnlt : Eb.nextC P[i]! < t.numCorners := AttViews.nextC_ltN hb.n3 hg
  have hpe : P[e]! < inv := by rw [← hopg]; have := (hC.invol hg (by
    intro h
    have := hC.phi_inv (d := 3 * e) (by omega)
    rw [phi_0, ← hopg, h] at this; omega)).1; omega
  have hBinv : t.opp[Eb.nextC P[i]!]! ≠ inv := by
    rw [← hphiB]; have := hC.phi_inv (d := Eb.nextC l1) (by omega); omega
  have hCinv : t.opp[Eb.prevC P[i]!]! ≠ inv := by
    rw [← hphiC]; have := hC.phi_inv (d := Eb.nextC l2) (by omega); omega
  obtain ⟨_, eh0⟩ := hC.hedge hg (by rw [hopg]; omega)
  rw [hopg] at eh0
  obtain ⟨_, eh1⟩ := hC.hedge hnlt hBinv
  rw [Eb.prevC_nextC _ hgi] at eh1
  obtain ⟨_, eh2⟩ := hC.hedge hplt hCinv
  rw [EncCounts.prevC_prevC' _ hgi] at eh2
  refine ⟨?_, ?_, ?_, ?_, ?_, ?_, ?_⟩
  · refine OInv.step hC hO hi _ _ (by simp only [stepI]; rw [glue_size, glue_size, glue_size]) g1 ?_ ?_ g4 ?_
    · intro a h1 h2 hne
      rcases hnew a h1 h2 with rfl | rfl | rfl
      · rw [gA]; exact ⟨by omega, by rw [phi_0, phi_0, hopg], oA'⟩
      · rw [gB]; exact ⟨hnl1, by rw [phi_1, hphiB], oB'⟩
      · rw [gC]; exact ⟨hnl2, by rw [phi_2, hphiC], oC'⟩
    · intro a h1 h2 hgi'
      rcases hnew a h1 h2 with rfl | rfl | rfl
      · rw [gA] at hgi'; omega
      · rw [gB] at hgi'; omega
      · rw [gC] at hgi'; omega
    · intro d h1 h2
      rw [ho', if_neg (by omega), if_neg (by omega), if_neg (by omega), if_neg (by omega), if_neg (by omega), if_neg (by omega)]
      exact hO.o3 d (by omega) h2
  · simp only [stepI]
    rw [size_set, size_set, size_set]; exact hcs
  · have := hV.vsz
    rw [hvc']; omega
  · intro d hd
    rw [hc', hvc']
    split
    · exact hV.vlt _ (by omega)
    · split
      · exact hV.vlt _ hnnl2
      · split
        · exact hV.vlt _ hnnl1
        · exact hV.vlt d (by omega)
  · refine hedge_step hC hO hV hi _ _ _ g1 ?_ g4 hold ?_
    · intro a h1 h2 hne
      rcases hnew a h1 h2 with rfl | rfl | rfl
      · rw [gA]; exact ⟨by omega, oA'⟩
      · rw [gB]; exact ⟨hnl1, oB'⟩
      · rw [gC]; exact ⟨hnl2, oC'⟩
    · intro a h1 h2 hne
      rcases hnew a h1 h2 with rfl | rfl | rfl
      · rw [gA, hnA, hpA, nx0 _ (by omega), pv0 _ (by omega), hold (3 * e + 1) (by omega), hold (3 * e + 2) (by omega),
          hc' (3 * i + 2), hc' (3 * i + 1), if_pos rfl, if_neg (by omega), if_pos rfl]
        exact ⟨rfl, hvPA⟩
      · rw [gB, Eb.prevC_nextC _ (by omega), nx1 _ (by omega), pv1 _ (by omega), hold _ hnnl1, hold l1 hl1,
          hc' (3 * i), hc' (3 * i + 2), if_neg (by omega), if_neg (by omega), if_pos rfl, if_pos rfl]
        exact ⟨rfl, hvl1⟩
      · rw [gC, Eb.prevC_nextC _ (by omega), nx2 _ (by omega), pv2 _ (by omega), hold _ hnnl2, hold l2 hl2,
          hc' (3 * i + 1), hc' (3 * i), if_neg (by omega), if_pos rfl, if_neg (by omega), if_neg (by omega), if_pos rfl]
        exact ⟨rfl, hvl2⟩
  · intro d hd hne
    by_cases hdn : 3 * i ≤ d
    · rcases hnew d hdn (by omega) with rfl | rfl | rfl
      · rw [nx0 _ (by omega), g1 _ (by omega) (by omega), gB] at hne; omega
      · rw [nx1 _ (by omega), g1 _ (by omega) (by omega), gC] at hne; omega
      · rw [nx2 _ (by omega), g1 _ (by omega) (by omega), gA] at hne; omega
    · have hnd := EncCounts.nextC_lt3 (by omega : d < 3 * i) i3
      rw [ho'] at hne
      by_cases e2 : Eb.nextC d = Eb.nextC l2
      · rw [if_pos e2] at hne; omega
      · rw [if_neg e2, if_neg (by omega)] at hne
        by_cases e1 : Eb.nextC d = Eb.nextC l1
        · rw [if_pos e1] at hne; omega
        · rw [if_neg e1, if_neg (by omega)] at hne
          by_cases e0 : Eb.nextC d = 3 * e
          · rw [if_pos e0] at hne; omega
          · rw [if_neg e0, if_neg (by omega)] at hne
            rw [hold d (by omega), hvc']
            exact hV.lm d (by omega) hne
  · refine fine_step hV _ hold ?_
    intro a h1 h2
    right
    rcases hnew a h1 h2 with rfl | rfl | rfl
    · refine ⟨Eb.nextC (Eb.nextC l1), hnnl1, by rw [hc', if_neg (by omega), if_neg (by omega), if_pos rfl], ?_⟩
      rw [phi_0, phi_nextC P (Eb.nextC l1) (by omega) (hC.p_inv (by omega)), hphiB, eh1]
    · refine ⟨Eb.nextC (Eb.nextC l2), hnnl2, by rw [hc', if_neg (by omega), if_pos rfl], ?_⟩
      rw [phi_1, phi_nextC P (Eb.nextC l2) (by omega) (hC.p_inv (by omega)), hphiC, eh2]
    · refine ⟨3 * e + 1, by omega, by rw [hc', if_pos rfl], ?_⟩
      rw [phi_2, phi_1, eh0]

/-! ## the symbol phase under `TraceI` -/

/-- the `c`-th element satisfying `p`: its index -/
theorem filter_index (p : Bool × Nat → Bool) : ∀ (l : List (Bool × Nat)) (c : Nat), c < (l.filter p).length →
    ∃ k, k < l.length ∧ p l[k]! = true ∧ ((l.take k).filter p).length = c := by
  intro l
  induction l with
  | nil => intro c h; simp at h
  | cons a l ih =>
    intro c h
    by_cases hp : p a = true
    · rw [List.filter_cons_of_pos hp] at h
      cases c with
      | zero => exact ⟨0, by simp, by simpa using hp, by simp⟩
      | succ c =>
        obtain ⟨k, hk, h1, h2⟩ := ih c (by simpa using h)
        refine ⟨k + 1, by simpa using hk, by simpa using h1, ?_⟩
        rw [List.take_succ_cons, List.filter_cons_of_pos hp]
        simp [h2]
    · rw [List.filter_cons_of_neg hp] at h
      obtain ⟨k, hk, h1, h2⟩ := ih c h
      refine ⟨k + 1, by simpa using hk, by simpa using h1, ?_⟩
      rw [List.take_succ_cons, List.filter_cons_of_neg hp]
      exact h2

/-- every face index of an interior start face is the `initIndex` of an interior entry of `starts` -/
theorem TraceI.exists_init {t : CT} {P : Array Nat} {syms : List Nat} {starts : List (Bool × Nat)} (h : TraceI t P syms starts)
    {i : Nat} (hn : syms.length ≤ i) (hi : i < P.size) :
    ∃ k, k < starts.length ∧ starts[k]!.1 = true ∧ initIndex syms starts k = i := by
  have hs := h.size
  obtain ⟨k, hk, h1, h2⟩ := filter_index (·.1) starts (i - syms.length) (by omega)
  exact ⟨k, hk, h1, by unfold initIndex; omega⟩

theorem TraceI.ctx {t : CT} {P : Array Nat} {syms : List Nat} {starts : List (Bool × Nat)} (hT : TblOK t)
    (h : TraceI t P syms starts) : Ctx t P := by
  refine ⟨hT, fun i hi => ?_, h.distinct⟩
  by_cases hn : i < syms.length
  · exact (h.face i hn).1
  · obtain ⟨k, hk, h1, h2⟩ := h.exists_init (by omega) hi
    have := (h.init k hk h1).1
    rw [h2] at this
    exact this

/-- one symbol preserves the invariant, from the facts of the trace about the faces `j` and `j - 1` -/
theorem inv_step' {t : CT} {P : Array Nat} {syms : List Nat} (hC : Ctx t P) {j : Nat} {s : DS}
    (hfj : TraceAt t P syms j) (hfp : 0 < j → TraceAt t P syms (j - 1))
    (hI : Inv t P j s) (hj : j < P.size) : Inv t P (j + 1) (step syms[j]! j s) := by
  have hinv := hC.fits'
  obtain ⟨_, hg, _, hE, hR, hL, hCc, hsym⟩ := hfj
  have hgp : 0 < j → Later P (j - 1) t.opp[P[j - 1]!]! := fun h0 => (hfp h0).2.1
  unfold step
  by_cases h7 : syms[j]! = 7
  · rw [if_pos h7]
    obtain ⟨a, b⟩ := hE h7
    exact inv_stepE hC hI hj hg a b
  · rw [if_neg h7]
    by_cases h5 : syms[j]! = 5
    · rw [if_pos h5, stepR_eq]
      obtain ⟨h0, a, b⟩ := hR h5
      refine inv_stepQ hC hI hj h0 (hgp h0) _ _ _ (by omega) ⟨nx2 _ (by omega), pv2 _ (by omega), nx0 _ (by omega), nx1 _ (by omega)⟩
        (by rw [phi_2]; exact b) (by rw [phi_0]; exact hg) (by rw [phi_1]; exact a)
    · rw [if_neg h5]
      by_cases h3 : syms[j]! = 3
      · rw [if_pos h3, stepL_eq]
        obtain ⟨h0, a, b⟩ := hL h3
        refine inv_stepQ hC hI hj h0 (hgp h0) _ _ _ (by omega) ⟨nx1 _ (by omega), pv1 _ (by omega), nx2 _ (by omega), nx0 _ (by omega)⟩
          (by rw [phi_1]; exact a) (by rw [phi_2]; exact b) (by rw [phi_0]; exact hg)
      · rw [if_neg h3]
        have h0' : syms[j]! = 0 := by omega
        obtain ⟨h0, a, m, _, hm, hcl, hEar⟩ := hCc h0'
        obtain ⟨l, hF⟩ := hI.cfacts hC hj h0 (hgp h0) a m hm hcl hEar
        exact inv_stepC hC hI hj h0 hg a hF

/-- the invariant holds along the symbol phase -/
theorem inv_St_I {t : CT} {P : Array Nat} {syms : List Nat} {starts : List (Bool × Nat)} (hT : TblOK t)
    (hTr : TraceI t P syms starts) (maxV : Nat) : ∀ j, j ≤ syms.length → Inv t P j (St syms P.size maxV j)
  | 0, _ => Inv.init t P maxV
  | j+1, h => by
    have hs := hTr.size
    exact inv_step' (hTr.ctx hT) (hTr.face j (by omega)) (fun _ => hTr.face (j - 1) (by omega))
      (inv_St_I hT hTr maxV j (by omega)) (by omega)

/-! ## the start phase -/

theorem stack_top {a : Array Nat} {x : Nat} {r : List Nat} (h : a.toList.reverse = x :: r) :
    0 < a.size ∧ a.back! = x ∧ a.pop.toList.reverse = r := by
  have e : a = (r.reverse ++ [x]).toArray := by
    apply Array.ext'
    have := congrArg List.reverse h
    simpa using this
  subst e
  simp

theorem initIndex_zero (syms : List Nat) (starts : List (Bool × Nat)) : initIndex syms starts 0 = syms.length := by
  simp [initIndex]

theorem initIndex_succ (syms : List Nat) (starts : List (Bool × Nat)) (k : Nat) (hk : k < starts.length) :
    initIndex syms starts (k + 1) = initIndex syms starts k + (if starts[k]!.1 = true then 1 else 0) := by
  unfold initIndex
  rw [List.take_succ_eq_append_getElem hk, List.filter_append, List.length_append, getElem!_pos starts k hk]
  by_cases h : starts[k].1 = true
  · simp [h]; omega
  · simp [h]

theorem initIndex_le (syms : List Nat) (starts : List (Bool × Nat)) (k : Nat) :
    initIndex syms starts k ≤ syms.length + (starts.filter (·.1)).length := by
  unfold initIndex
  have := ((List.take_sublist k starts).filter (·.1)).length_le
  omega

theorem initIndex_length (syms : List Nat) (starts : List (Bool × Nat)) :
    initIndex syms starts starts.length = syms.length + (starts.filter (·.1)).length := by
  simp [initIndex]

/-- the start phase preserves the invariant and ends at face index `P.size` -/
theorem inv_runStarts {t : CT} {P : Array Nat} {syms : List Nat} {starts : List (Bool × Nat)} (hT : TblOK t)
    (hTr : TraceI t P syms starts) :
    ∀ (m k : Nat) (s : DS), starts.length - k = m → k ≤ starts.length →
      OInv t P (initIndex syms starts k) s.opp → VInv t P (initIndex syms starts k) s.c2v s.opp s.vc →
      s.stack.toList.reverse = (starts.drop k).map (fun x => 3 * x.2) →
      OInv t P P.size (runStarts ((starts.drop k).map (·.1)) (initIndex syms starts k) s).opp ∧
      VInv t P P.size (runStarts ((starts.drop k).map (·.1)) (initIndex syms starts k) s).c2v
        (runStarts ((starts.drop k).map (·.1)) (initIndex syms starts k) s).opp
        (runStarts ((starts.drop k).map (·.1)) (initIndex syms starts k) s).vc := by
  have hC := hTr.ctx hT
  have hsz := hTr.size
  intro m
  induction m with
  | zero =>
    intro k s hm hk hO hV _
    have e : k = starts.length := by omega
    subst e
    rw [List.drop_length, initIndex_length, hsz] at *
    exact ⟨hO, hV⟩
  | succ m ih =>
    intro k s hm hk hO hV hst
    have hk' : k < starts.length := by omega
    have hd : starts.drop k = starts[k] :: starts.drop (k + 1) := (List.drop_eq_getElem_cons hk')
    have hge : starts[k]! = starts[k] := getElem!_pos starts k hk'
    rw [hd] at hst ⊢
    simp only [List.map_cons] at hst ⊢
    obtain ⟨hs0, hback, hpop⟩ := stack_top hst
    have hsucc := initIndex_succ syms starts k hk'
    by_cases hb : starts[k].1 = true
    · rw [hb]
      have hb' : starts[k]!.1 = true := by rw [hge]; exact hb
      rw [if_pos hb'] at hsucc
      have hIA := hTr.init k hk' hb'
      rw [hge] at hIA
      have hile := initIndex_le syms starts (k + 1)
      have hn : syms.length ≤ initIndex syms starts k := by unfold initIndex; omega
      obtain ⟨l1, l2, hF⟩ := ifacts hC hO hV (by omega) hn hIA
      obtain ⟨hO', hV'⟩ := inv_stepI hC hO hV (by omega) hIA hback hF
      have er : ∀ r, runStarts (true :: r) (initIndex syms starts k) s =
          runStarts r (initIndex syms starts k + 1) (stepI (initIndex syms starts k) s) := fun _ => rfl
      rw [er]
      rw [← hsucc] at hO' hV' ⊢
      exact ih (k + 1) (stepI (initIndex syms starts k) s) (by omega) (by omega) hO' hV' hpop
    · have hb2 : starts[k].1 = false := by simpa using hb
      rw [hb2]
      have hb' : ¬ starts[k]!.1 = true := by rw [hge]; exact hb
      rw [if_neg hb'] at hsucc
      simp only [Nat.add_zero] at hsucc
      have er : ∀ r, runStarts (false :: r) (initIndex syms starts k) s = runStarts r (initIndex syms starts k) (popS s) :=
        fun _ => rfl
      rw [er]
      rw [← hsucc] at hO hV ⊢
      exact ih (k + 1) (popS s) (by omega) (by omega) hO hV hpop

/-! ## the conclusion: `CTIso` -/

/-- every neighbour of a processed face is processed -/
theorem TraceI.closed {t : CT} {P : Array Nat} {syms : List Nat} {starts : List (Bool × Nat)} (hT : TblOK t)
    (hTr : TraceI t P syms starts) :
    ∀ d, d < 3 * P.size → t.opp[phi P d]! ≠ inv → ∃ i, i < P.size ∧ t.opp[phi P d]! / 3 = P[i]! / 3 := by
  have hC := hTr.ctx hT
  have hsz := hTr.size
  have hnc := hC.nc_le
  intro d hd hne
  have hj : d / 3 < P.size := by omega
  have e : d = 3 * (d / 3) + d % 3 := by omega
  have h3 : d % 3 = 0 ∨ d % 3 = 1 ∨ d % 3 = 2 := by omega
  by_cases hn : d / 3 < syms.length
  · obtain ⟨_, hg, _, hE, hR, hL, hCc, hsym⟩ := hTr.face (d / 3) hn
    have ofLater : ∀ e, e ≠ inv → Later P (d / 3) e → ∃ i, i < P.size ∧ e / 3 = P[i]! / 3 := by
      intro e he h
      rcases h with h | ⟨i, hi, _, hf⟩
      · exact absurd h he
      · exact ⟨i, hi, hf⟩
    have ofPrev : ∀ e, 0 < d / 3 → e = P[d / 3 - 1]! → ∃ i, i < P.size ∧ e / 3 = P[i]! / 3 :=
      fun e h0 h => ⟨d / 3 - 1, by omega, by rw [h]⟩
    rcases h3 with h | h | h
    · rw [e, h, Nat.add_zero, phi_0] at hne ⊢
      exact ofLater _ hne hg
    · rw [e, h, phi_1] at hne ⊢
      rcases hsym with h7 | h5 | h3 | h0
      · exact ofLater _ hne (hE h7).1
      · exact ofLater _ hne (hR h5).2.1
      · exact ofPrev _ (hL h3).1 (hL h3).2.1
      · exact ofPrev _ (hCc h0).1 (hCc h0).2.1
    · rw [e, h, phi_2] at hne ⊢
      rcases hsym with h7 | h5 | h3 | h0
      · exact ofLater _ hne (hE h7).2
      · exact ofPrev _ (hR h5).1 (hR h5).2.2
      · exact ofLater _ hne (hL h3).2.2
      · obtain ⟨_, _, m, _, hm, hcl, hEar⟩ := hCc h0
        obtain ⟨i, hi, hf⟩ := fan_left hC hj m hm hcl hEar
        exact ⟨i, by omega, hf⟩
  · obtain ⟨k, hk, h1, h2⟩ := hTr.exists_init (by omega : syms.length ≤ d / 3) hj
    have hIA := hTr.init k hk h1
    rw [h2] at hIA
    obtain ⟨hg, _, hen, hopg, ⟨m, _, hm, hcl, hEar⟩, _, _⟩ := hIA
    have hEar' : ∀ k, k < m → 0 < k → Earlier P (d / 3) (sLk t k P[d / 3]!) := fun k h1 h2 => (hEar k h1 h2).mono (by omega)
    rcases h3 with h | h | h
    · rw [e, h, Nat.add_zero, phi_0, hopg]
      exact ⟨_, by omega, rfl⟩
    · rw [e, h, phi_1] at hne ⊢
      obtain ⟨_, i, hi, hf⟩ := hEar' 1 (by omega) (by omega)
      have hb := hC.tbl.base
      have hlt := (hC.invol (AttViews.nextC_ltN hb.n3 hg) hne).1
      refine ⟨i, by omega, ?_⟩
      rw [← hf]
      show _ = Eb.nextC (t.opp[Eb.nextC P[d / 3]!]!) / 3
      rw [nextC_div3 _ (by omega)]
    · rw [e, h, phi_2]
      obtain ⟨i, hi, hf⟩ := fan_left hC hj m hm hcl hEar'
      exact ⟨i, by omega, hf⟩

/-- from the invariant at the end to `CTIso` -/
theorem ctIso_of_OV {t : CT} {P : Array Nat} (hC : Ctx t P)
    (hcl : ∀ d, d < 3 * P.size → t.opp[phi P d]! ≠ inv → ∃ i, i < P.size ∧ t.opp[phi P d]! / 3 = P[i]! / 3) {s : DS}
    (hO : OInv t P P.size s.opp) (hV : VInv t P P.size s.c2v s.opp s.vc)
    (hcov : ∀ d, d < 3 * P.size → ∃ k, iter (AttViews.sRP t.opp) k t.vc[t.c2v[phi P d]!]! = phi P d)
    (hvlt : ∀ d, d < 3 * P.size → t.c2v[phi P d]! < t.numVertices) : CTIso t P P.size s.c2v s.opp := by
  have hinv := hC.fits'
  have hI : Inv t P P.size { s with stack := #[3 * (P.size - 1)] } := ⟨hO, hV, fun _ => ⟨by simp, by simp⟩⟩
  refine ⟨rfl, ⟨hV.csize, hO.size⟩, fun d hd => hC.phi_lt hd, fun d d' hd hd' e => hC.phi_inj hd hd' e, ?_,
    fun d hd hne => hO.o1 d hd hne, hvlt, ?_⟩
  · intro d hd
    constructor
    · intro h
      apply Classical.byContradiction
      intro hne
      obtain ⟨i, hi, hf⟩ := hcl d hd hne
      have helt := (hC.invol (hC.phi_lt hd) hne).1
      have := hC.nc_le
      obtain ⟨de, hdei, hdephi⟩ := hC.exists_phi (by omega : t.opp[phi P d]! < inv) hi hf
      have := hO.o2 d de hd (by omega) hdephi.symm
      omega
    · intro h
      exact hO.inv_of_later hC (Nat.le_refl _) hd (Or.inl h)
  · intro d d' hd hd'
    constructor
    · exact hV.fine d d' hd hd'
    · intro e
      obtain ⟨k, hk⟩ := hcov d hd
      obtain ⟨k', hk'⟩ := hcov d' hd'
      rw [← e] at hk'
      by_cases hkk : k ≤ k'
      · refine hI.sR_const hC hcl (k' - k) d d' hd hd' ?_
        rw [← hk, ← iter_add, show k + (k' - k) = k' by omega, hk']
      · refine (hI.sR_const hC hcl (k - k') d' d hd' hd ?_).symm
        rw [← hk', ← iter_add, show k' + (k - k') = k by omega, hk]

/-- the content of the active corner stack after the symbol loop: one corner `3 e` per component (`StackEnds`, proved below
    as `stackEnds_St`) -/
def StackEnds (syms : List Nat) (n maxV : Nat) : Prop :=
  (St syms n maxV syms.length).stack.toList.reverse = (compEnds syms).map (fun e => 3 * e)

/-- the invariant at the end of the start phase -/
theorem inv_StI {t : CT} {P : Array Nat} {syms : List Nat} {starts : List (Bool × Nat)} (hT : TblOK t)
    (hTr : TraceI t P syms starts) (maxV : Nat) (hstk : StackEnds syms P.size maxV) :
    OInv t P P.size (StI syms starts P.size maxV).opp ∧
      VInv t P P.size (StI syms starts P.size maxV).c2v (StI syms starts P.size maxV).opp (StI syms starts P.size maxV).vc := by
  have hI := inv_St_I hT hTr maxV syms.length (Nat.le_refl _)
  have h0 := initIndex_zero syms starts
  have := inv_runStarts hT hTr starts.length 0 (St syms P.size maxV syms.length) (by omega) (by omega)
    (by rw [h0]; exact hI.o) (by rw [h0]; exact hI.v)
    (by rw [List.drop_zero, hstk, ← hTr.comps, List.map_map]; rfl)
  rw [List.drop_zero, h0] at this
  exact this

/-- **the pure decoder half with interior start faces** -/
theorem ctIso_StI {t : CT} {P : Array Nat} {syms : List Nat} {starts : List (Bool × Nat)} (hT : TblOK t)
    (hTr : TraceI t P syms starts) (maxV : Nat) (hstk : StackEnds syms P.size maxV)
    (hcov : ∀ d, d < 3 * P.size → ∃ k, iter (AttViews.sRP t.opp) k t.vc[t.c2v[phi P d]!]! = phi P d)
    (hvlt : ∀ d, d < 3 * P.size → t.c2v[phi P d]! < t.numVertices) :
    CTIso t P P.size (StI syms starts P.size maxV).c2v (StI syms starts P.size maxV).opp := by
  obtain ⟨hO, hV⟩ := inv_StI hT hTr maxV hstk
  exact ctIso_of_OV (hTr.ctx hT) (hTr.closed hT) hO hV hcov hvlt

/-! ## the content of the stack after the symbol loop -/

/-- the last indices of the components among the first `j` symbols, first component first -/
def endsUpTo (syms : List Nat) : Nat → List Nat
  | 0 => []
  | j+1 => if syms[j]! = 7 then endsUpTo syms j ++ [j] else (endsUpTo syms j).dropLast ++ [j]

theorem endsUpTo_eq (syms : List Nat) : ∀ j, endsUpTo syms j =
    (List.range j).filter (fun a => decide (a + 1 = j ∨ syms[a + 1]! = 7)) := by
  intro j
  induction j with
  | zero => simp [endsUpTo]
  | succ j ih =>
    have hlast : (List.range (j + 1)).filter (fun a => decide (a + 1 = j + 1 ∨ syms[a + 1]! = 7)) =
        (List.range j).filter (fun a => decide (a + 1 = j + 1 ∨ syms[a + 1]! = 7)) ++ [j] := by
      rw [List.range_succ, List.filter_append]
      simp
    rw [hlast]
    unfold endsUpTo
    by_cases h7 : syms[j]! = 7
    · rw [if_pos h7, ih]
      congr 1
      apply List.filter_congr
      intro a ha
      have ha' : a < j := List.mem_range.mp ha
      by_cases e : a + 1 = j
      · subst e
        exact decide_eq_decide.mpr ⟨fun _ => Or.inr h7, fun _ => Or.inl rfl⟩
      · refine decide_eq_decide.mpr ⟨?_, ?_⟩
        · rintro (h | h)
          · exact absurd h e
          · exact Or.inr h
        · rintro (h | h)
          · omega
          · exact Or.inr h
    · rw [if_neg h7, ih]
      congr 1
      cases j with
      | zero => simp
      | succ j' =>
        rw [List.range_succ, List.filter_append, List.filter_append]
        have e1 : [j'].filter (fun a => decide (a + 1 = j' + 1 ∨ syms[a + 1]! = 7)) = [j'] :=
          List.filter_cons_of_pos (decide_eq_true (Or.inl rfl))
        have e2 : [j'].filter (fun a => decide (a + 1 = j' + 1 + 1 ∨ syms[a + 1]! = 7)) = [] :=
          List.filter_cons_of_neg (by
            intro h
            rcases of_decide_eq_true h with h | h
            · omega
            · exact h7 h)
        rw [e1, e2, List.append_nil, List.dropLast_concat]
        apply List.filter_congr
        intro a ha
        have ha' : a < j' := List.mem_range.mp ha
        refine decide_eq_decide.mpr ⟨?_, ?_⟩
        · rintro (h | h)
          · omega
          · exact Or.inr h
        · rintro (h | h)
          · omega
          · exact Or.inr h

theorem compEnds_eq (syms : List Nat) : compEnds syms = (endsUpTo syms syms.length).reverse := by
  rw [endsUpTo_eq]; rfl

theorem step_stack (sym j : Nat) (s : DS) : (step sym j s).stack =
    if sym = 7 then s.stack.push (3 * j) else s.stack.set! (s.stack.size - 1) (3 * j) := by
  unfold step
  split_ifs <;> rfl

theorem set_last_toList (a : Array Nat) (x : Nat) (h : 0 < a.size) :
    (a.set! (a.size - 1) x).toList = a.toList.dropLast ++ [x] := by
  have hl : a.toList ≠ [] := by
    intro e
    have : a.size = 0 := by rw [← Array.length_toList, e]; rfl
    omega
  obtain ⟨l', y, e⟩ := (List.eq_nil_or_concat a.toList).resolve_left hl
  have hs : a.size = l'.length + 1 := by rw [← Array.length_toList, e]; simp
  rw [Array.set!_eq_setIfInBounds, Array.toList_setIfInBounds, e, hs]
  simp

/-- the stack after `j` symbols, given that a symbol other than `E` finds the stack non-empty -/
theorem stack_St (syms : List Nat) (n maxV : Nat)
    (hne : ∀ j, j < syms.length → syms[j]! ≠ 7 → 0 < (St syms n maxV j).stack.size) :
    ∀ j, j ≤ syms.length → (St syms n maxV j).stack.toList = (endsUpTo syms j).map (fun e => 3 * e) := by
  intro j
  induction j with
  | zero => intro _; simp [St, DS.init, endsUpTo]
  | succ j ih =>
    intro hj
    have ih' := ih (by omega)
    show (step syms[j]! j (St syms n maxV j)).stack.toList = _
    rw [step_stack]
    unfold endsUpTo
    by_cases h7 : syms[j]! = 7
    · rw [if_pos h7, if_pos h7, Array.toList_push, ih']
      simp
    · rw [if_neg h7, if_neg h7, set_last_toList _ _ (hne j (by omega) h7), ih', List.map_append, List.map_dropLast]
      simp

/-- **`StackEnds` from the trace** -/
theorem stackEnds_St {t : CT} {P : Array Nat} {syms : List Nat} {starts : List (Bool × Nat)} (hT : TblOK t)
    (hTr : TraceI t P syms starts) (maxV : Nat) : StackEnds syms P.size maxV := by
  unfold StackEnds
  rw [stack_St syms P.size maxV ?_ syms.length (Nat.le_refl _), compEnds_eq, List.map_reverse]
  intro j hj h7
  obtain ⟨_, _, _, _, hR, hL, hCc, hsym⟩ := hTr.face j hj
  have h0 : 0 < j := by
    rcases hsym with h | h | h | h
    · exact absurd h h7
    · exact (hR h).1
    · exact (hL h).1
    · exact (hCc h).1
  exact ((inv_St_I hT hTr maxV j (by omega)).stk h0).1

/-- the pure decoder half with interior start faces, unconditionally on the stack -/
theorem ctIso_StI' {t : CT} {P : Array Nat} {syms : List Nat} {starts : List (Bool × Nat)} (hT : TblOK t)
    (hTr : TraceI t P syms starts) (maxV : Nat)
    (hcov : ∀ d, d < 3 * P.size → ∃ k, iter (AttViews.sRP t.opp) k t.vc[t.c2v[phi P d]!]! = phi P d)
    (hvlt : ∀ d, d < 3 * P.size → t.c2v[phi P d]! < t.numVertices) :
    CTIso t P P.size (StI syms starts P.size maxV).c2v (StI syms starts P.size maxV).opp :=
  ctIso_StI hT hTr maxV (stackEnds_St hT hTr maxV) hcov hvlt

end Draco.EbEnc.DecSim
