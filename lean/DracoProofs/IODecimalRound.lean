import DracoProofs.IODecimalParse
import Mathlib.Algebra.Order.Ring.Pow
/-
  DracoProofs.IODecimalRound — `parser::ParseFloat` under the standard rounding model.

  `DecRounding ops u`: `ops` is any oracle for the `double` operations on ℚ-valued numbers such that
  `+` and `*` return the exact result times `(1 + δ)`, `|δ| ≤ u`, the literals `0.0`, `1.0`, `10.0`
  and the digit conversions are exact and the literal `0.1` is `(1/10)(1 + δ)`.
  All quantities `ParseFloat` forms are non-negative, so the relative errors only compound:
  `Within u m a V` says `a` is `V` times at most `m` factors `(1 ± u)`.
-/
namespace Draco.IO.Dec

set_option linter.unusedSectionVars false

structure DecRounding (ops : DecOps ℚ) (u : ℚ) : Prop where
  zero : ops.zero = 0
  one : ops.one = 1
  ten : ops.ten = 10
  tenth : ∃ δ : ℚ, |δ| ≤ u ∧ ops.tenth = (1/10) * (1 + δ)
  ofDigit : ∀ d : Nat, d < 10 → ops.ofDigit d = (d : ℚ)
  add : ∀ a b, ∃ δ : ℚ, |δ| ≤ u ∧ ops.add a b = (a + b) * (1 + δ)
  mul : ∀ a b, ∃ δ : ℚ, |δ| ≤ u ∧ ops.mul a b = (a * b) * (1 + δ)

/-- `a` is `V` up to `m` rounding factors -/
def Within (u : ℚ) (m : ℕ) (a V : ℚ) : Prop := V * (1 - u)^m ≤ a ∧ a ≤ V * (1 + u)^m

section W
variable {u : ℚ} (hu0 : 0 ≤ u) (hu1 : u ≤ 1)
include hu0 hu1

theorem Within.exact (V : ℚ) : Within u 0 V V := by simp [Within]

theorem Within.nonneg {m : ℕ} {a V : ℚ} (hV : 0 ≤ V) (h : Within u m a V) : 0 ≤ a :=
  le_trans (mul_nonneg hV (pow_nonneg (by linarith) m)) h.1

theorem Within.mono {m m' : ℕ} {a V : ℚ} (hV : 0 ≤ V) (hm : m ≤ m') (h : Within u m a V) :
    Within u m' a V := by
  have h1 : (1 - u)^m' ≤ (1 - u)^m := pow_le_pow_of_le_one (by linarith) (by linarith) hm
  have h2 : (1 + u)^m ≤ (1 + u)^m' := pow_le_pow_right₀ (by linarith) hm
  exact ⟨le_trans (mul_le_mul_of_nonneg_left h1 hV) h.1, le_trans h.2 (mul_le_mul_of_nonneg_left h2 hV)⟩

theorem Within.round {m : ℕ} {a V δ : ℚ} (hV : 0 ≤ V) (hδ : |δ| ≤ u) (h : Within u m a V) :
    Within u (m + 1) (a * (1 + δ)) V := by
  have ha := Within.nonneg hu0 hu1 hV h
  obtain ⟨d1, d2⟩ := abs_le.mp hδ
  constructor
  · calc V * (1 - u)^(m+1) = (V * (1 - u)^m) * (1 - u) := by ring
      _ ≤ a * (1 - u) := mul_le_mul_of_nonneg_right h.1 (by linarith)
      _ ≤ a * (1 + δ) := mul_le_mul_of_nonneg_left (by linarith) ha
  · calc a * (1 + δ) ≤ a * (1 + u) := mul_le_mul_of_nonneg_left (by linarith) ha
      _ ≤ (V * (1 + u)^m) * (1 + u) := mul_le_mul_of_nonneg_right h.2 (by linarith)
      _ = V * (1 + u)^(m+1) := by ring

theorem Within.mul {m1 m2 : ℕ} {a1 a2 V1 V2 : ℚ} (hV1 : 0 ≤ V1) (hV2 : 0 ≤ V2)
    (h1 : Within u m1 a1 V1) (h2 : Within u m2 a2 V2) : Within u (m1 + m2) (a1 * a2) (V1 * V2) := by
  have ha1 := Within.nonneg hu0 hu1 hV1 h1
  have ha2 := Within.nonneg hu0 hu1 hV2 h2
  have p1 : 0 ≤ V1 * (1 - u)^m1 := mul_nonneg hV1 (pow_nonneg (by linarith) _)
  have p2 : 0 ≤ V2 * (1 - u)^m2 := mul_nonneg hV2 (pow_nonneg (by linarith) _)
  constructor
  · calc V1 * V2 * (1 - u)^(m1 + m2) = (V1 * (1 - u)^m1) * (V2 * (1 - u)^m2) := by ring
      _ ≤ a1 * a2 := mul_le_mul h1.1 h2.1 p2 ha1
  · calc a1 * a2 ≤ (V1 * (1 + u)^m1) * (V2 * (1 + u)^m2) :=
          mul_le_mul h1.2 h2.2 ha2 (le_trans ha1 h1.2)
      _ = V1 * V2 * (1 + u)^(m1 + m2) := by ring

theorem Within.add {m : ℕ} {a1 a2 V1 V2 : ℚ} (h1 : Within u m a1 V1) (h2 : Within u m a2 V2) :
    Within u m (a1 + a2) (V1 + V2) := by
  constructor
  · have := add_le_add h1.1 h2.1; linarith
  · have := add_le_add h1.2 h2.2; linarith

/-- distance form: `|a - V| ≤ V · ((1+u)^m - 1)` -/
theorem Within.abs_sub {m : ℕ} {a V : ℚ} (hV : 0 ≤ V) (h : Within u m a V) :
    |a - V| ≤ V * ((1 + u)^m - 1) := by
  have b1 : 1 + (m : ℚ) * u ≤ (1 + u)^m := one_add_mul_le_pow (by linarith) m
  have b2 : 1 + (m : ℚ) * (-u) ≤ (1 + -u)^m := one_add_mul_le_pow (by linarith) m
  have b3 : (1 - u)^m = (1 + -u)^m := by ring
  have hmu : 0 ≤ (m : ℚ) * u := mul_nonneg (Nat.cast_nonneg m) hu0
  rw [abs_le]
  constructor
  · have : V * (1 - (1 - u)^m) ≤ V * ((1 + u)^m - 1) := by
      apply mul_le_mul_of_nonneg_left _ hV
      rw [b3]; linarith
    have := h.1
    nlinarith
  · have := h.2
    nlinarith

end W

/-! ### the two loops -/

section Loops
variable (ops : DecOps ℚ) {u : ℚ} (hu0 : 0 ≤ u) (hu1 : u ≤ 1) (R : DecRounding ops u)
include hu0 hu1 R

theorem intFold_within (ds : List Nat) (hds : ∀ d ∈ ds, d < 10) (v V : ℚ) (m : ℕ) (hV : 0 ≤ V)
    (h : Within u m v V) :
    Within u (m + 2 * ds.length) (@intFold ℚ ops ds v) (V * 10^ds.length + (val ds : ℚ)) := by
  induction ds generalizing v V m with
  | nil => simpa [intFold, val] using h
  | cons d r ih =>
    have hd : d < 10 := hds d (by simp)
    obtain ⟨δ1, hδ1, e1⟩ := R.mul v ops.ten
    obtain ⟨δ2, hδ2, e2⟩ := R.add (ops.mul v ops.ten) (ops.ofDigit d)
    have w1 : Within u m (v * 10) (V * 10) := by
      have := Within.mul hu0 hu1 hV (by norm_num : (0:ℚ) ≤ 10) h (Within.exact hu0 hu1 10)
      simpa using this
    have hV10 : 0 ≤ V * 10 := by positivity
    have w2 := Within.round hu0 hu1 hV10 hδ1 w1
    have hdq : (0:ℚ) ≤ d := Nat.cast_nonneg d
    have w3 : Within u (m + 1) (d : ℚ) (d : ℚ) :=
      Within.mono hu0 hu1 hdq (Nat.zero_le _) (Within.exact hu0 hu1 _)
    have w4 := Within.round hu0 hu1 (by positivity : 0 ≤ V * 10 + (d:ℚ)) hδ2 (Within.add hu0 hu1 w2 w3)
    have step : ops.add (ops.mul v ops.ten) (ops.ofDigit d) = (v * 10 * (1 + δ1) + d) * (1 + δ2) := by
      rw [e2, e1, R.ten, R.ofDigit d hd]
    have := ih (fun x hx => hds x (by simp [hx])) _ (V * 10 + d) (m + 1 + 1) (by positivity) (step ▸ w4)
    rw [intFold]
    have e : m + 2 * (d :: r).length = m + 1 + 1 + 2 * r.length := by simp; ring
    rw [e, val_cons]
    convert this using 1
    simp only [List.length_cons]; push_cast; ring

/-- exact value of fraction digits starting at decimal place `j + 1` -/
def fracVal : List Nat → Nat → ℚ
  | [], _ => 0
  | d :: r, j => (d : ℚ) / 10^(j+1) + fracVal r (j+1)

omit hu0 hu1 R in
theorem fracVal_nonneg (fs : List Nat) (j : Nat) : 0 ≤ fracVal fs j := by
  induction fs generalizing j with
  | nil => simp [fracVal]
  | cons d r ih => rw [fracVal]; have := ih (j+1); positivity

omit hu0 hu1 R in
theorem fracVal_eq (fs : List Nat) (j : Nat) : fracVal fs j = (val fs : ℚ) / 10^(j + fs.length) := by
  induction fs generalizing j with
  | nil => simp [fracVal, val]
  | cons d r ih =>
    rw [fracVal, ih (j+1), val_cons]
    have e : j + (d :: r).length = j + 1 + r.length := by simp; ring
    rw [e]
    push_cast
    have h1 : (10:ℚ)^(j + 1 + r.length) = 10^(j+1) * 10^r.length := by rw [pow_add]
    rw [h1]
    field_simp

theorem fracFold_within (fs : List Nat) (hfs : ∀ d ∈ fs, d < 10) (v fr V : ℚ) (j m0 : ℕ) (hm0 : 1 ≤ m0)
    (hV : 0 ≤ V) (hfr : Within u (2 * j) fr (1 / 10^j)) (hv : Within u (m0 + 2 * j + 1) v V) :
    Within u (m0 + 2 * (j + fs.length) + 1) (@fracFold ℚ ops fs v fr) (V + fracVal fs j) := by
  induction fs generalizing v fr V j with
  | nil => simpa [fracFold, fracVal] using hv
  | cons d r ih =>
    have hd : d < 10 := hfs d (by simp)
    obtain ⟨δ0, hδ0, e0⟩ := R.tenth
    obtain ⟨δ1, hδ1, e1⟩ := R.mul fr ops.tenth
    obtain ⟨δ2, hδ2, e2⟩ := R.mul (ops.ofDigit d) (ops.mul fr ops.tenth)
    obtain ⟨δ3, hδ3, e3⟩ := R.add v (ops.mul (ops.ofDigit d) (ops.mul fr ops.tenth))
    have hp : (0:ℚ) ≤ 1 / 10^j := by positivity
    -- the literal 0.1
    have wt : Within u 1 ops.tenth (1/10) := by
      rw [e0]
      exact Within.round hu0 hu1 (by norm_num) hδ0 (Within.exact hu0 hu1 _)
    -- fraction *= 0.1
    have wf0 := Within.mul hu0 hu1 hp (by norm_num : (0:ℚ) ≤ 1/10) hfr wt
    have hp1 : (1:ℚ) / 10^j * (1/10) = 1 / 10^(j+1) := by rw [pow_succ]; field_simp
    rw [hp1] at wf0
    have hq : (0:ℚ) ≤ 1 / 10^(j+1) := by positivity
    have wf := Within.round hu0 hu1 hq hδ1 wf0
    rw [← e1] at wf
    have wf' : Within u (2 * (j + 1)) (ops.mul fr ops.tenth) (1 / 10^(j+1)) := by
      have e : 2 * j + 1 + 1 = 2 * (j + 1) := by ring
      rw [← e]; exact wf
    -- (ch - '0') * fraction
    have hdq : (0:ℚ) ≤ d := Nat.cast_nonneg d
    have wd0 := Within.mul hu0 hu1 hdq hq (Within.exact hu0 hu1 (d:ℚ)) wf'
    have hterm : (0:ℚ) ≤ (d:ℚ) * (1 / 10^(j+1)) := by positivity
    have wd := Within.round hu0 hu1 hterm hδ2 wd0
    have e2' : ops.mul (ops.ofDigit d) (ops.mul fr ops.tenth) =
        (d:ℚ) * ops.mul fr ops.tenth * (1 + δ2) := by rw [e2, R.ofDigit d hd]
    rw [← e2'] at wd
    -- v += …
    have wv' : Within u (m0 + 2 * j + 2) v V := Within.mono hu0 hu1 hV (by omega) hv
    have wd' : Within u (m0 + 2 * j + 2) (ops.mul (ops.ofDigit d) (ops.mul fr ops.tenth))
        ((d:ℚ) * (1 / 10^(j+1))) :=
      Within.mono (m := 0 + 2 * (j + 1) + 1) hu0 hu1 hterm (by omega) wd
    have ws := Within.round hu0 hu1 (by positivity : 0 ≤ V + (d:ℚ) * (1 / 10^(j+1))) hδ3
      (Within.add hu0 hu1 wv' wd')
    rw [← e3] at ws
    have ws' : Within u (m0 + 2 * (j + 1) + 1)
        (ops.add v (ops.mul (ops.ofDigit d) (ops.mul fr ops.tenth))) (V + (d:ℚ) * (1 / 10^(j+1))) := by
      have e : m0 + 2 * j + 2 + 1 = m0 + 2 * (j + 1) + 1 := by ring
      rw [← e]; exact ws
    have := ih (fun x hx => hfs x (by simp [hx])) _ _ _ (j + 1) (by positivity) wf' ws'
    rw [fracFold, fracVal]
    have e : m0 + 2 * (j + (d :: r).length) + 1 = m0 + 2 * (j + 1 + r.length) + 1 := by simp; ring
    rw [e]
    convert this using 1
    ring

end Loops

end Draco.IO.Dec
