import DracoProofs.KdEncExpected
/-
  `SameUpToPointOrder`: two geometries agree on everything except the order of the points — same
  kind, number of points, faces, attribute descriptors, and the same multiset of per-point value
  tuples.  The kd-tree decoder's geometry and `expectedKd g opts` are related in this way.
-/
namespace Draco.KdEnc
open Draco SeqEnc DecM Kd

/-- the value bytes of every attribute at point `p` (attributes with identity point maps) -/
def pointTuples (g : Geometry) : List (List Bytes) :=
  (List.range g.numPoints).map fun p => g.atts.map fun a => (a.values.drop (p * a.stride)).take a.stride

/-- equal up to the order of the points -/
def SameUpToPointOrder (g e : Geometry) : Prop :=
  g.isMesh = e.isMesh ∧ g.numPoints = e.numPoints ∧ g.faces = e.faces ∧
  g.atts.map (fun a => { a with values := [] }) = e.atts.map (fun a => { a with values := [] }) ∧
  (pointTuples g).Perm (pointTuples e)

theorem chunk_flatMap {α β : Type} (f : α → List β) (k : Nat) : ∀ (l : List α) (p : Nat),
    (∀ x ∈ l, (f x).length = k) → (h : p < l.length) →
    ((l.flatMap f).drop (p * k)).take k = f l[p] := by
  intro l
  induction l with
  | nil => intro p _ h; simp at h
  | cons x xs ih =>
    intro p hk h
    have hx := hk x (by simp)
    cases p with
    | zero =>
      simp only [Nat.zero_mul, List.drop_zero, List.flatMap_cons, List.getElem_cons_zero]
      rw [List.take_left' hx]
    | succ p =>
      simp only [List.flatMap_cons, List.getElem_cons_succ]
      rw [Nat.succ_mul, Nat.add_comm (p * k) k, ← List.drop_drop, List.drop_left' hx]
      exact ih p (fun y hy => hk y (by simp [hy])) (by simpa using h)

/-- the offsets of `kdAttsOf` stay inside the total dimension -/
theorem kdAttsOf_fits (n D : Nat) : ∀ (encs : List AttEnc) (off : Nat), (∀ e ∈ encs, EncFacts n e) →
    off + dimOf encs ≤ D →
    List.Forall₂ (fun (ka : KdAtt) (e : AttEnc) => EncFacts n e ∧ ka.desc = e.desc ∧ ka.dataSize = dsOf e ∧
      ka.offset + e.desc.numComponents ≤ D) (kdAttsOf off encs) encs := by
  intro encs
  induction encs with
  | nil => intro off _ _; exact List.Forall₂.nil
  | cons e es ih =>
    intro off hf hD
    simp only [dimOf, List.map_cons, List.sum_cons] at hD
    simp only [kdAttsOf]
    refine List.Forall₂.cons ⟨hf e (by simp), rfl, rfl, by simp only; omega⟩ ?_
    exact ih (off + e.desc.numComponents) (fun x hx => hf x (by simp [hx])) (by simp only [dimOf]; omega)

theorem mapRow_len {α : Type} (f : α → Nat → Nat) : ∀ (ms : List α) (vs : List Nat),
    ms.length = vs.length → (mapRow f ms vs).length = vs.length := by
  intro ms
  induction ms with
  | nil => intro vs h; cases vs <;> simp_all [mapRow]
  | cons m ms ih =>
    intro vs h
    cases vs with
    | nil => simp at h
    | cons v vs => simp only [mapRow, List.length_cons] at h ⊢; rw [ih vs (by omega)]

theorem flatMap_len_const {α β : Type} (g : α → List β) (c : Nat) : ∀ (l : List α),
    (∀ r ∈ l, (g r).length = c) → (l.flatMap g).length = l.length * c := by
  intro l
  induction l with
  | nil => intro _; simp
  | cons x xs ih =>
    intro h
    simp only [List.flatMap_cons, List.length_append, List.length_cons]
    rw [h x (by simp), ih (fun r hr => h r (by simp [hr])), Nat.add_mul]
    omega

/-- the value bytes of one point of one attribute fill exactly one stride -/
theorem finishRow_length (n : Nat) (e : AttEnc) (he : EncFacts n e) (ka : KdAtt) (hd : ka.desc = e.desc)
    (hds : ka.dataSize = dsOf e) (r : List Nat) (hr : r.length = e.desc.numComponents) :
    (finishRow ka e.transform r).length = (ka.desc.toAttribute n []).stride := by
  have ht := he.trans
  have hstride : (ka.desc.toAttribute n []).stride = dataTypeLength e.desc.dataType * e.desc.numComponents := by
    simp only [AttDesc.toAttribute, Attribute.stride, hd]
  rw [hstride]
  cases htr : e.transform with
  | none =>
    rw [htr] at ht
    simp only [TransWF] at ht
    simp only [finishRow]
    rw [flatMap_len_const _ ka.dataSize r (fun x _ => wle_length _ _), hr, hds, dsOf, ht]
    simp [Nat.mul_comm]
  | signed mins =>
    rw [htr] at ht
    simp only [TransWF] at ht
    simp only [finishRow]
    rw [flatMap_len_const _ ka.dataSize _ (fun x _ => wle_length _ _),
      mapRow_len _ _ _ (by rw [ht.2.1, hr]), hr, hds, dsOf, ht.1]
    simp [Nat.mul_comm]
  | quant q mins range =>
    rw [htr] at ht
    simp only [TransWF] at ht
    have h9 : e.desc.dataType = 9 := by
      rcases kindOf_cases _ _ he.kindDt with ⟨h, _⟩ | ⟨h, _⟩ | ⟨_, h⟩
      · omega
      · omega
      · exact h
    simp only [finishRow]
    rw [flatMap_len_const _ 4 _ (fun x _ => wle_length _ _),
      mapRow_len _ _ _ (by rw [ht.2.2.2.1, hr]), hr, h9]
    have : dataTypeLength 9 = 4 := by decide
    rw [this, Nat.mul_comm]

theorem attRow_len (ka : KdAtt) (nc D : Nat) (hnc : ka.desc.numComponents = nc) (hfit : ka.offset + nc ≤ D)
    (p : List Nat) (hp : p.length = D) : (attRow ka p).length = nc := by
  simp only [attRow, List.length_map, List.length_take, List.length_drop, hnc]
  omega

/-- attribute by attribute: chunk `i` of every buffer is point `i`'s value -/
theorem tuples_atts (n i D : Nat) (pts : List (List Nat)) (hi : i < pts.length)
    (hp : ∀ p ∈ pts, p.length = D) : ∀ (kas : List KdAtt) (encs : List AttEnc),
    List.Forall₂ (fun (ka : KdAtt) (e : AttEnc) => EncFacts n e ∧ ka.desc = e.desc ∧ ka.dataSize = dsOf e ∧
      ka.offset + e.desc.numComponents ≤ D) kas encs →
    (List.zipWith (fun ka (e : AttEnc) =>
        ka.desc.toAttribute n (pts.flatMap fun p => finishRow ka e.transform (attRow ka p))) kas encs).map
      (fun a => (a.values.drop (i * a.stride)).take a.stride) =
    List.zipWith (fun ka (e : AttEnc) => finishRow ka e.transform (attRow ka pts[i])) kas encs := by
  intro kas encs h
  induction h with
  | nil => rfl
  | @cons ka e kas encs' hke _ ih =>
    obtain ⟨he, hd, hds, hfit⟩ := hke
    simp only [List.zipWith_cons_cons, List.map_cons, List.cons.injEq]
    refine ⟨?_, ih⟩
    have hk : ∀ p ∈ pts, (finishRow ka e.transform (attRow ka p)).length = (ka.desc.toAttribute n []).stride := by
      intro p hpm
      exact finishRow_length n e he ka hd hds _ (attRow_len ka _ D (by rw [hd]) hfit p (hp p hpm))
    have hs : (ka.desc.toAttribute n (pts.flatMap fun p => finishRow ka e.transform (attRow ka p))).stride =
        (ka.desc.toAttribute n []).stride := rfl
    rw [hs]
    exact chunk_flatMap _ _ pts i hk hi

/-- the per-point tuples of the geometry assembled from `pts` are `tuplesOf encs pts` -/
theorem pointTuples_geometryOfPoints (n : Nat) (encs : List AttEnc) (hf : ∀ e ∈ encs, EncFacts n e)
    (pts : List (List Nat)) (hl : pts.length = n) (hp : ∀ p ∈ pts, p.length = dimOf encs) :
    pointTuples (geometryOfPoints n encs pts) = tuplesOf encs pts := by
  have hfit := kdAttsOf_fits n (dimOf encs) encs 0 hf (by omega)
  unfold pointTuples tuplesOf
  rw [geometryOfPoints_atts]
  simp only [geometryOfPoints]
  apply List.ext_getElem
  · simp [hl]
  · intro i h1 h2
    simp only [List.length_map, List.length_range] at h1
    have hi : i < pts.length := by omega
    simp only [List.getElem_map, List.getElem_range]
    exact tuples_atts n i (dimOf encs) pts hi hp _ _ hfit

/-- geometries assembled from the same integer points in different orders are equal up to the
    order of the points -/
theorem sameUpToPointOrder_of_perm (n : Nat) (encs : List AttEnc) (hf : ∀ e ∈ encs, EncFacts n e)
    (pts pts' : List (List Nat)) (hl : pts.length = n) (hp : ∀ p ∈ pts, p.length = dimOf encs)
    (hperm : pts'.Perm pts) :
    SameUpToPointOrder (geometryOfPoints n encs pts') (geometryOfPoints n encs pts) := by
  refine ⟨rfl, rfl, rfl, ?_, ?_⟩
  · rw [geometryOfPoints_atts, geometryOfPoints_atts, List.map_zipWith, List.map_zipWith]
    rfl
  · rw [pointTuples_geometryOfPoints n encs hf pts hl hp,
      pointTuples_geometryOfPoints n encs hf pts' (by rw [hperm.length_eq, hl])
        (fun p hpm => hp p (hperm.mem_iff.1 hpm))]
    exact perm_tuples encs pts pts' hperm

theorem encs_facts (ch : Choices) (g : Geometry) (md : Option GeometryMetadata) (opts : EncOpts)
    (bs : Bytes) (encs : List AttEnc) (hok : GeomOK g opts)
    (henc : encodeGeometryKdFull ch g md opts = some (bs, encs)) :
    ∀ e ∈ encs, EncFacts g.numPoints e := by
  have hall := encs_of_full ch g md opts bs encs henc
  have hrel := allSome_forall2 (fun i a => encodeAttribute opts g.numPoints i a)
    (fun a e => EncFacts g.numPoints e ∧ e.desc = descOf a) g.atts 0 encs (by
      intro j a e hj he
      rw [Nat.zero_add] at he
      exact encodeAttribute_facts opts g.numPoints j a e (hok.atts j a hj) he) hall
  intro e he
  obtain ⟨a, _, h⟩ := Kd.forall2_mem_right hrel e he
  exact h.1

/-- the composed round trip with the encoder states exposed -/
theorem kd_roundtrip_full (ch : Choices) (hpart : PartSpec ch.part) (g : Geometry)
    (md : Option GeometryMetadata) (opts : EncOpts) (bs : Bytes) (encs : List AttEnc)
    (hok : GeomOK g opts) (hmd : ∀ m, md = some m → m.WF')
    (henc : encodeGeometryKdFull ch g md opts = some (bs, encs)) (extra : Bytes) :
    ∃ pts' st, decodeGeometry {} { rest := bs ++ extra } =
        (some ⟨geometryOfPoints g.numPoints encs pts', md⟩, st) ∧ st.rest = extra ∧
      pts'.Perm (pointVector g.numPoints encs) ∧
      geometryOfPoints g.numPoints encs (pointVector g.numPoints encs) = expectedKd g opts := by
  obtain ⟨r, st, h1, h2, _, hmd', pts', hp1, hp2⟩ :=
    (runsP_decodeStreamWith Eb.decodeEdgebreaker ch hpart g md opts bs encs hok hmd henc).run
      { rest := bs ++ extra } extra rfl rfl
  refine ⟨pts', st, ?_, h2, hp1, geometryOfPoints_expected ch g md opts bs encs hok henc⟩
  unfold decodeGeometry
  rw [h1]
  obtain ⟨rg, rm⟩ := r
  simp only at hmd' hp2
  rw [hmd', hp2]

/-- … and in terms of the input alone -/
theorem kd_roundtrip (ch : Choices) (hpart : PartSpec ch.part) (g : Geometry)
    (md : Option GeometryMetadata) (opts : EncOpts) (bs : Bytes)
    (hok : GeomOK g opts) (hmd : ∀ m, md = some m → m.WF')
    (henc : encodeGeometryKd ch g md opts = some bs) (extra : Bytes) :
    ∃ g' st, decodeGeometry {} { rest := bs ++ extra } = (some ⟨g', md⟩, st) ∧ st.rest = extra ∧
      SameUpToPointOrder g' (expectedKd g opts) := by
  unfold encodeGeometryKd at henc
  cases hf : encodeGeometryKdFull ch g md opts with
  | none => rw [hf] at henc; cases henc
  | some r =>
    obtain ⟨bs', encs⟩ := r
    rw [hf] at henc
    simp only [Option.map_some, Option.some.injEq] at henc
    subst henc
    obtain ⟨pts', st, h1, h2, h3, h4⟩ := kd_roundtrip_full ch hpart g md opts bs' encs hok hmd hf extra
    have hfacts := encs_facts ch g md opts bs' encs hok hf
    obtain ⟨pvl, pvr⟩ := pointVector_spec g.numPoints encs hfacts
    refine ⟨_, st, h1, h2, ?_⟩
    rw [← h4]
    exact sameUpToPointOrder_of_perm g.numPoints encs hfacts _ _ pvl (fun p hp => (pvr p hp).1) h3

end Draco.KdEnc
