import DracoModel.EbCounts
/-
  Helper lemmas for C09 part 2: the seam count of `ComputeNumberOfEncodedPoints` and the point
  count of `AssignPointsToCorners` on one vertex fan.
-/
namespace Draco.Counts

/-! ### generic pair counting -/

/-- number of consecutive pairs related by `r` when walking `l` after `prev` -/
def cnt (r : FanCorner → FanCorner → Bool) (prev : FanCorner) : List FanCorner → Nat
  | [] => 0
  | c :: cs => (r prev c).toNat + cnt r c cs

theorem ite_toNat (b : Bool) : (if b then 1 else 0) = b.toNat := by cases b <;> rfl

/-- last corner of `x :: l` -/
def lastOf (x : FanCorner) : List FanCorner → FanCorner
  | [] => x
  | c :: cs => lastOf c cs

theorem lastOf_mem (x : FanCorner) (l : List FanCorner) : lastOf x l = x ∨ lastOf x l ∈ l := by
  induction l generalizing x with
  | nil => left; rfl
  | cons c cs ih =>
    right
    rcases ih c with h | h
    · simp [lastOf, h]
    · simp [lastOf, h]

theorem cnt_append (r : FanCorner → FanCorner → Bool) (l1 : List FanCorner) :
    ∀ (x y : FanCorner) (l2 : List FanCorner),
      cnt r x (l1 ++ y :: l2) = cnt r x (l1 ++ [y]) + cnt r y l2 := by
  induction l1 with
  | nil => intro x y l2; simp [cnt]
  | cons c cs ih =>
    intro x y l2
    simp only [List.cons_append, cnt, ih c y l2]
    omega

theorem cnt_snoc (r : FanCorner → FanCorner → Bool) (l : List FanCorner) :
    ∀ (x y : FanCorner),
      cnt r x (l ++ [y]) = cnt r x l + (r (lastOf x l) y).toNat := by
  induction l with
  | nil => intro x y; simp [cnt, lastOf]
  | cons c cs ih =>
    intro x y
    simp only [List.cons_append, cnt, ih c y, lastOf]
    omega

/-- starting the cyclic walk at a corner `y` that follows a change counts one change less -/
theorem cnt_rotate (r : FanCorner → FanCorner → Bool) (x y : FanCorner) (a b : List FanCorner)
    (h : r (lastOf x a) y = true) :
    1 + cnt r y (b ++ x :: a) = cnt r x (a ++ y :: (b ++ [x])) := by
  rw [cnt_append r a x y (b ++ [x]), cnt_append r b y x a, cnt_snoc r a x y, h]
  simp only [Bool.toNat_true]
  omega

theorem cnt_eq_countP (r : FanCorner → FanCorner → Bool) (l : List FanCorner) :
    ∀ x, cnt r x l = (consecPairs x l).countP (fun p => r p.1 p.2) := by
  induction l with
  | nil => intro x; rfl
  | cons c cs ih =>
    intro x
    simp only [cnt, consecPairs, List.countP_cons, ih c, ite_toNat]
    omega

theorem cnt_congr (r r' : FanCorner → FanCorner → Bool) (l : List FanCorner) :
    ∀ x, (∀ p ∈ consecPairs x l, r p.1 p.2 = r' p.1 p.2) → cnt r x l = cnt r' x l := by
  induction l with
  | nil => intro x _; rfl
  | cons c cs ih =>
    intro x h
    have h1 := h (x, c) (by simp [consecPairs])
    have h2 := ih c (fun p hp => h p (by simp [consecPairs, hp]))
    simp only [cnt, h2]
    simp only at h1
    rw [h1]

theorem consecPairs_mem (l : List FanCorner) :
    ∀ x p, p ∈ consecPairs x l → p.1 ∈ x :: l ∧ p.2 ∈ l := by
  induction l with
  | nil => intro x p h; simp [consecPairs] at h
  | cons c cs ih =>
    intro x p h
    simp only [consecPairs, List.mem_cons] at h
    rcases h with h | h
    · subst h; simp
    · have := ih c p h
      simp only [List.mem_cons] at this ⊢
      exact ⟨Or.inr this.1, Or.inr this.2⟩

/-! ### `avDiff` -/

theorem avDiff_eq_bne : ∀ (a b : List Nat), a.length = b.length → avDiff a b = (a != b)
  | [], [], _ => by simp [avDiff]
  | [], _ :: _, h => by simp at h
  | _ :: _, [], h => by simp at h
  | x :: xs, y :: ys, h => by
    have ih := avDiff_eq_bne xs ys (by simpa using h)
    simp only [avDiff, ih]
    rw [Bool.eq_iff_iff]
    simp only [Bool.or_eq_true, bne_iff_ne, ne_eq, List.cons.injEq, not_and]
    by_cases hxy : x = y <;> simp [hxy]

theorem avDiff_self (a : List Nat) : avDiff a a = false := by
  rw [avDiff_eq_bne a a rfl]; simp

theorem eq_of_getD : ∀ (a b : List Nat), a.length = b.length →
    (∀ j, j < a.length → a.getD j 0 = b.getD j 0) → a = b
  | [], [], _, _ => rfl
  | [], _ :: _, h, _ => by simp at h
  | _ :: _, [], h, _ => by simp at h
  | x :: xs, y :: ys, h, hj => by
    have h0 := hj 0 (by simp)
    simp only [List.getD_cons_zero] at h0
    have ih := eq_of_getD xs ys (by simpa using h) (fun j hjl => by
      have := hj (j + 1) (by simp; omega)
      simpa [List.getD_cons_succ] using this)
    rw [h0, ih]

/-! ### the three relations -/

/-- the decoder's test: some attribute vertex of `c` differs from the previous corner's -/
def chgR (prev c : FanCorner) : Bool := avDiff c.av prev.av
/-- the encoder's test before fix: commit 49d6567 -/
def encR (prev c : FanCorner) : Bool := if c.pid != prev.pid then true else avDiff c.av prev.av
/-- the specification's test -/
def specR (prev c : FanCorner) : Bool := prev.av != c.av

theorem decWalk_eq_cnt (l : List FanCorner) : ∀ x, decWalk x l = cnt chgR x l := by
  induction l with
  | nil => intro x; rfl
  | cons c cs ih => intro x; simp only [decWalk, cnt, chgR, ih c, ite_toNat]

theorem encWalk_eq_cnt (l : List FanCorner) : ∀ x, encWalk x l = cnt chgR x l := by
  induction l with
  | nil => intro x; rfl
  | cons c cs ih => intro x; simp only [encWalk, cnt, chgR, ih c, ite_toNat]

theorem encWalkPreFix_eq_cnt (l : List FanCorner) :
    ∀ x, encWalkPreFix x.pid x l = cnt encR x l := by
  induction l with
  | nil => intro x; rfl
  | cons c cs ih =>
    intro x
    by_cases h : c.pid = x.pid
    · simp only [encWalkPreFix, cnt, encR, h, bne_self_eq_false, Bool.false_eq_true, if_false,
        ite_toNat]
      rw [← h, ih c]
    · have hb : (c.pid != x.pid) = true := bne_iff_ne.2 h
      simp only [encWalkPreFix, cnt, encR, hb, if_true, ih c, Bool.toNat_true]

theorem avChanges_eq_cnt (f : Fan) (c0 : FanCorner) (cs : List FanCorner)
    (hc : f.corners = c0 :: cs) :
    f.avChanges = cnt specR c0 (if f.closed then cs ++ [c0] else cs) := by
  unfold Fan.avChanges Fan.pairs
  rw [hc, cnt_eq_countP]
  rfl

theorem chgR_eq_specR (a b : FanCorner) (h : a.av.length = b.av.length) :
    chgR a b = specR a b := by
  unfold chgR specR
  rw [avDiff_eq_bne _ _ h.symm]
  exact bne_comm

theorem cnt_chgR_eq_specR (n : Nat) (l : List FanCorner) (x : FanCorner)
    (hx : x.av.length = n) (hl : ∀ c ∈ l, c.av.length = n) :
    cnt chgR x l = cnt specR x l := by
  apply cnt_congr
  intro p hp
  obtain ⟨h1, h2⟩ := consecPairs_mem l x p hp
  apply chgR_eq_specR
  have e1 : p.1.av.length = n := by
    rcases List.mem_cons.1 h1 with h | h
    · rw [h]; exact hx
    · exact hl _ h
  rw [e1, hl _ h2]

theorem cnt_chgR_const (l : List FanCorner) :
    ∀ x, (∀ c ∈ l, c.av = x.av) → cnt chgR x l = 0 := by
  induction l with
  | nil => intro x _; rfl
  | cons c cs ih =>
    intro x h
    have hc : c.av = x.av := h c (by simp)
    have := ih c (fun d hd => by rw [hc]; exact h d (by simp [hd]))
    simp only [cnt, chgR, this, hc, avDiff_self]
    rfl

/-! ### the start corner search -/

theorem seamOffset_none (i vid : Nat) (l : List FanCorner) :
    seamOffset i vid l = none → ∀ c ∈ l, c.av.getD i 0 = vid := by
  induction l with
  | nil => intro _ c hc; simp at hc
  | cons d ds ih =>
    intro h c hc
    simp only [seamOffset] at h
    by_cases hb : (d.av.getD i 0 != vid) = true
    · rw [if_pos hb] at h; exact absurd h (by simp)
    · rw [if_neg hb] at h
      have hd : d.av.getD i 0 = vid :=
        Classical.byContradiction fun hne => hb (bne_iff_ne.2 hne)
      cases hs : seamOffset i vid ds with
      | some n => rw [hs] at h; simp at h
      | none =>
        rcases List.mem_cons.1 hc with e | e
        · rw [e]; exact hd
        · exact ih hs c e

theorem seamOffset_some (i vid : Nat) (l : List FanCorner) :
    ∀ n, seamOffset i vid l = some n →
      ∃ pre y post, l = pre ++ y :: post ∧ pre.length = n ∧
        (∀ c ∈ pre, c.av.getD i 0 = vid) ∧ y.av.getD i 0 ≠ vid := by
  induction l with
  | nil => intro n h; simp [seamOffset] at h
  | cons d ds ih =>
    intro n h
    simp only [seamOffset] at h
    by_cases hb : (d.av.getD i 0 != vid) = true
    case neg =>
      rw [if_neg hb] at h
      have hd : d.av.getD i 0 = vid :=
        Classical.byContradiction fun hne => hb (bne_iff_ne.2 hne)
      cases hs : seamOffset i vid ds with
      | none => rw [hs] at h; simp at h
      | some m =>
        rw [hs] at h
        simp only [Option.some.injEq] at h
        obtain ⟨pre, y, post, e, hl, hp, hy⟩ := ih m hs
        refine ⟨d :: pre, y, post, by rw [e]; rfl, by simp [hl, h], ?_, hy⟩
        intro c hc
        rcases List.mem_cons.1 hc with e' | e'
        · rw [e']; exact hd
        · exact hp c e'
    case pos =>
      rw [if_pos hb] at h
      simp only [Option.some.injEq] at h
      exact ⟨[], d, ds, rfl, by simp [h], by simp, bne_iff_ne.1 hb⟩

/-- a start corner different from c₀ follows a change of some attribute `j` -/
theorem dedupStart_succ (c0 : FanCorner) (cs : List FanCorner) (flags : List Bool) :
    ∀ i m, dedupStart c0 cs i flags = m + 1 →
      ∃ j pre y post, cs = pre ++ y :: post ∧ pre.length = m ∧
        (∀ c ∈ pre, c.av.getD j 0 = c0.av.getD j 0) ∧ y.av.getD j 0 ≠ c0.av.getD j 0 := by
  induction flags with
  | nil => intro i m h; simp [dedupStart] at h
  | cons flag fl ih =>
    intro i m h
    simp only [dedupStart] at h
    cases flag with
    | false => simp only [Bool.not_false, if_true] at h; exact ih _ _ h
    | true =>
      simp only [Bool.not_true, Bool.false_eq_true, if_false] at h
      cases hs : seamOffset i (c0.av.getD i 0) cs with
      | none => rw [hs] at h; exact ih _ _ h
      | some n =>
        rw [hs] at h
        simp only [Nat.add_right_cancel_iff] at h
        obtain ⟨pre, y, post, e, hl, hp, hy⟩ := seamOffset_some _ _ _ n hs
        exact ⟨i, pre, y, post, e, by omega, hp, hy⟩

/-- start corner c₀: every flagged attribute is constant around the fan -/
theorem dedupStart_zero (c0 : FanCorner) (cs : List FanCorner) (flags : List Bool) :
    ∀ i, dedupStart c0 cs i flags = 0 →
      ∀ t, flags.getD t false = true → ∀ c ∈ cs, c.av.getD (i + t) 0 = c0.av.getD (i + t) 0 := by
  induction flags with
  | nil => intro i _ t ht; simp at ht
  | cons flag fl ih =>
    intro i h t ht c hc
    simp only [dedupStart] at h
    cases flag with
    | false =>
      simp only [Bool.not_false, if_true] at h
      cases t with
      | zero => simp at ht
      | succ t' =>
        have := ih (i + 1) h t' (by simpa using ht) c hc
        have e : i + 1 + t' = i + (t' + 1) := by omega
        rw [e] at this; exact this
    | true =>
      simp only [Bool.not_true, Bool.false_eq_true, if_false] at h
      cases hs : seamOffset i (c0.av.getD i 0) cs with
      | some n => rw [hs] at h; simp at h
      | none =>
        rw [hs] at h
        cases t with
        | zero => exact seamOffset_none _ _ _ hs c hc
        | succ t' =>
          have := ih (i + 1) h t' (by simpa using ht) c hc
          have e : i + 1 + t' = i + (t' + 1) := by omega
          rw [e] at this; exact this

/-! ### encoder -/

theorem encR_eq_specR (a b : FanCorner) (hl : a.av.length = b.av.length)
    (h1 : a.pid ≠ b.pid → a.av ≠ b.av) : encR a b = specR a b := by
  by_cases hp : b.pid = a.pid
  · have : encR a b = chgR a b := by simp [encR, chgR, hp]
    rw [this, chgR_eq_specR a b hl]
  · have hb : (b.pid != a.pid) = true := bne_iff_ne.2 hp
    have hne := h1 (fun e => hp e.symm)
    unfold encR specR
    rw [if_pos hb, bne_iff_ne.2 hne]

/-- the encoder's seam count is the number of attribute-vertex changes -/
theorem encSeams_eq_avChanges (f : Fan)
    (hlen : ∀ c ∈ f.corners, c.av.length = f.onSeam.length) :
    encSeams f = f.avChanges := by
  cases hc : f.corners with
  | nil => simp [encSeams, Fan.avChanges, Fan.pairs, hc]
  | cons c0 cs =>
    rw [avChanges_eq_cnt f c0 cs hc]
    unfold encSeams
    rw [hc]
    simp only
    rw [encWalk_eq_cnt]
    apply cnt_chgR_eq_specR f.onSeam.length _ c0 (hlen _ (by simp [hc]))
    intro c hcm
    apply hlen
    rw [hc]
    by_cases hcl : f.closed = true
    · rw [if_pos hcl] at hcm
      rcases List.mem_append.1 hcm with h | h
      · exact List.mem_cons_of_mem _ h
      · rw [List.mem_singleton.1 h]; exact List.mem_cons_self
    · rw [if_neg hcl] at hcm
      exact List.mem_cons_of_mem _ hcm

/-- before fix: commit 49d6567 — under H1 the encoder's seam count was the number of
    attribute-vertex changes -/
theorem encSeamsPreFix_eq_avChanges (f : Fan)
    (hlen : ∀ c ∈ f.corners, c.av.length = f.onSeam.length)
    (h1 : ∀ p ∈ f.pairs, p.1.pid ≠ p.2.pid → p.1.av ≠ p.2.av) :
    encSeamsPreFix f = f.avChanges := by
  cases hc : f.corners with
  | nil => simp [encSeamsPreFix, Fan.avChanges, Fan.pairs, hc]
  | cons c0 cs =>
    rw [avChanges_eq_cnt f c0 cs hc]
    unfold encSeamsPreFix
    rw [hc]
    simp only
    rw [encWalkPreFix_eq_cnt]
    apply cnt_congr
    intro p hp
    have hpf : p ∈ f.pairs := by unfold Fan.pairs; rw [hc]; exact hp
    obtain ⟨m1, m2⟩ := consecPairs_mem _ _ _ hp
    have hall : ∀ c, c ∈ c0 :: (if f.closed then cs ++ [c0] else cs) → c ∈ f.corners := by
      intro c hcm
      rw [hc]
      rcases List.mem_cons.1 hcm with h | h
      · rw [h]; exact List.mem_cons_self
      · by_cases hcl : f.closed = true
        · rw [if_pos hcl] at h
          rcases List.mem_append.1 h with h | h
          · exact List.mem_cons_of_mem _ h
          · rw [List.mem_singleton.1 h]; exact List.mem_cons_self
        · rw [if_neg hcl] at h
          exact List.mem_cons_of_mem _ h
    apply encR_eq_specR _ _ _ (h1 p hpf)
    rw [hlen _ (hall _ m1), hlen _ (hall _ (List.mem_cons_of_mem _ m2))]

/-- on deduplicated inputs (H1) the pre-fix formula (commit 49d6567) agrees with the repaired one -/
theorem encPointsPreFix_eq (f : Fan)
    (hlen : ∀ c ∈ f.corners, c.av.length = f.onSeam.length)
    (h1 : ∀ p ∈ f.pairs, p.1.pid ≠ p.2.pid → p.1.av ≠ p.2.av) :
    encPointsPreFix f = encPoints f := by
  unfold encPointsPreFix encPoints
  rw [encSeamsPreFix_eq_avChanges f hlen h1, encSeams_eq_avChanges f hlen]

/-! ### decoder -/

theorem decPoints_open (f : Fan) (hne : f.corners ≠ []) (ho : f.closed = false)
    (hlen : ∀ c ∈ f.corners, c.av.length = f.onSeam.length) :
    decPoints f = f.avChanges + 1 := by
  cases hc : f.corners with
  | nil => exact absurd hc hne
  | cons c0 cs =>
    rw [avChanges_eq_cnt f c0 cs hc]
    unfold decPoints
    rw [hc]
    simp only [ho, Bool.false_eq_true, if_false]
    rw [decWalk_eq_cnt, cnt_chgR_eq_specR f.onSeam.length cs c0 (hlen _ (by simp [hc]))
      (fun c h => hlen _ (by simp [hc, h]))]
    omega

/-- closed fan: the decoder creates `s` points when `s > 0` and one point when `s = 0`, and the
    start corner is c₀ only when `s = 0` -/
theorem decPoints_closed (f : Fan) (hne : f.corners ≠ []) (hcl : f.closed = true)
    (hlen : ∀ c ∈ f.corners, c.av.length = f.onSeam.length)
    (h2 : ∀ i, i < f.onSeam.length →
      (∃ a ∈ f.corners, ∃ b ∈ f.corners, a.av.getD i 0 ≠ b.av.getD i 0) →
      f.onSeam.getD i false = true) :
    decPoints f = if f.avChanges > 0 then f.avChanges else 1 := by
  cases hc : f.corners with
  | nil => exact absurd hc hne
  | cons c0 cs =>
    have hl0 : c0.av.length = f.onSeam.length := hlen _ (by simp [hc])
    have hlcs : ∀ c ∈ cs, c.av.length = f.onSeam.length := fun c h => hlen _ (by simp [hc, h])
    have hs : f.avChanges = cnt chgR c0 (cs ++ [c0]) := by
      rw [avChanges_eq_cnt f c0 cs hc, hcl]
      simp only [if_true]
      rw [cnt_chgR_eq_specR f.onSeam.length _ c0 hl0]
      intro c hcm
      rcases List.mem_append.1 hcm with h | h
      · exact hlcs c h
      · simp only [List.mem_singleton] at h; rw [h]; exact hl0
    unfold decPoints
    rw [hc]
    simp only [hcl, if_true]
    cases hn : dedupStart c0 cs 0 f.onSeam with
    | zero =>
      -- every attribute is constant around the fan
      have hconst : ∀ c ∈ cs, c.av = c0.av := by
        intro c hcm
        apply eq_of_getD _ _ (by rw [hlcs c hcm, hl0])
        intro j hj
        rw [hlcs c hcm] at hj
        by_cases hflag : f.onSeam.getD j false = true
        · have := dedupStart_zero c0 cs f.onSeam 0 hn j hflag c hcm
          simpa using this
        · apply Classical.byContradiction
          intro hd
          exact hflag (h2 j hj ⟨c, by simp [hc, hcm], c0, by simp [hc], hd⟩)
      have hz : cnt chgR c0 (cs ++ [c0]) = 0 := by
        apply cnt_chgR_const
        intro c hcm
        rcases List.mem_append.1 hcm with h | h
        · exact hconst c h
        · simp only [List.mem_singleton] at h; rw [h]
      have hz' : cnt chgR c0 cs = 0 := cnt_chgR_const cs c0 hconst
      simp only [List.drop_zero, List.take_zero, List.append_nil]
      rw [hs, hz, decWalk_eq_cnt, hz']
      simp
    | succ m =>
      obtain ⟨j, pre, y, post, e, hl, hp, hy⟩ := dedupStart_succ c0 cs f.onSeam 0 m hn
      have hd : (c0 :: cs).drop (m + 1) = y :: post := by
        rw [e, List.drop_succ_cons, ← hl, List.drop_left]
      have ht : (c0 :: cs).take (m + 1) = c0 :: pre := by
        rw [e, List.take_succ_cons, ← hl, List.take_left]
      rw [hd, ht]
      simp only [List.cons_append]
      rw [decWalk_eq_cnt]
      -- the pair (last of c₀ :: pre, y) is a change
      have hlast : (lastOf c0 pre).av.getD j 0 = c0.av.getD j 0 := by
        rcases lastOf_mem c0 pre with h | h
        · rw [h]
        · exact hp _ h
      have hlastlen : (lastOf c0 pre).av.length = f.onSeam.length := by
        rcases lastOf_mem c0 pre with h | h
        · rw [h]; exact hl0
        · exact hlcs _ (by rw [e]; simp [h])
      have hylen : y.av.length = f.onSeam.length := hlcs _ (by rw [e]; simp)
      have hchg : chgR (lastOf c0 pre) y = true := by
        unfold chgR
        rw [avDiff_eq_bne _ _ (by rw [hylen, hlastlen])]
        have : y.av ≠ (lastOf c0 pre).av := by
          intro he
          apply hy
          rw [he, hlast]
        simp [bne, this]
      have hrot := cnt_rotate chgR c0 y pre post hchg
      have hs' : f.avChanges = cnt chgR c0 (pre ++ y :: (post ++ [c0])) := by
        rw [hs, e]; simp
      rw [hs', ← hrot]
      have : 1 + cnt chgR y (post ++ c0 :: pre) > 0 := by omega
      simp only [this, if_true]

end Draco.Counts
