import DracoProofs.EbCountsStream
/-
  INDEX ALIGNMENT of the attribute corner tables in the point counts.

  The encoder counts seams with the tables `used` of the attribute data that HAVE interior seams (controller order); the
  decoder's `AssignPointsToCorners` looks at ALL attribute data `attsD`.  Here:

  (b) `build_const_of_no_interior_seam`: a `buildAttConn` table with `noInteriorSeams` (all its seam corners are boundary
      corners) is constant on every fan of the decoder's table;
  (a) `SeamLinkσ`: the seam part of the link along an index map `σ` (entry `k` of `used` ↔ entry `σ k` of `attsD`), and
      `encPoints_fanOfD_sel`: the per-fan count does not change when the tables outside the image of `σ` are dropped,
      provided they are constant on the fan (the counts only see the equality pattern of the attribute vertices; on the
      decoder's side `decPoints = encPoints` on the full fan by `point_count_fan` + `seamFlagsSound_of_build`, so
      `dedupStart` / `onSeam` never have to be compared between the two table lists);
  (c) `eb_encoded_points_eq_decoded_of_run3`, `eb_encoded_counts_of_link'`: the count theorems with `SeamLinkσ` and
      `NoIntσ` (the dropped decoder tables have no interior seams) in place of the index-aligned `SeamLink`.
-/
namespace Draco.EbEnc.CountsIso
open Draco Draco.SeqEnc
open Draco.Eb hiding nextC prevC iabs
open Draco.Counts
open Draco.EbEnc.EncCounts AttViews Seams

/-! ## (b) tables without interior seams are constant on fans -/

/-- `buildAttConn_recompute` with the `no_interior_seams_` flag -/
theorem buildAttConn_recompute' (c2vBase opp vc sc : Array Nat) (a : AttConn)
    (h : buildAttConn c2vBase opp vc sc = .ok a) :
    ∃ s, markSeams c2vBase opp vc sc = .ok s ∧ a.edgeSeam = s.1 ∧ a.vertSeam = s.2.1 ∧ a.noInteriorSeams = s.2.2 ∧
      recomputeG c2vBase.size opp vc s.1 s.2.1 = .ok (a.c2v, a.lm) := by
  obtain ⟨s, h1, h2⟩ := (bind_ok_iff (α := Seams.BSt) (forIn sc ((Array.replicate c2vBase.size false,
    Array.replicate vc.size false, true) : Seams.BSt) (Seams.bacStep c2vBase opp)) _ a).mp h
  refine ⟨s, h1, ?_⟩
  obtain ⟨s2, h3, h4⟩ := (bind_ok_iff (α := Array Nat × Array Nat)
    (forIn [:vc.size] ((Array.replicate c2vBase.size inv, Array.mkEmpty vc.size) : Array Nat × Array Nat)
      (vBody c2vBase.size opp vc s.1 s.2.1)) _ a).mp h2
  cases h4
  refine ⟨rfl, rfl, rfl, ?_⟩
  show (forIn [:vc.size] ((Array.replicate c2vBase.size inv, Array.mkEmpty vc.size) : Array Nat × Array Nat)
      (vBody c2vBase.size opp vc s.1 s.2.1) >>= fun s => pure (s.1, s.2)) = _
  rw [h3]
  rfl

theorem bacStep_ni {c2vBase opp : Array Nat} (c : Nat) (st : BSt) (r : ForInStep BSt) (hsz : st.1.size ≤ inv)
    (h : bacStep c2vBase opp c st = .ok r) :
    ∃ st', r = .yield st' ∧ (st'.2.2 = true → st.2.2 = true ∧ opp[c]! = inv) := by
  unfold bacStep at h
  rw [bind_ok_iff] at h
  obtain ⟨es, h1, h⟩ := h
  rw [bind_ok_iff] at h
  obtain ⟨v1, _, h⟩ := h
  rw [bind_ok_iff] at h
  obtain ⟨vs1, _, h⟩ := h
  rw [bind_ok_iff] at h
  obtain ⟨v2, _, h⟩ := h
  rw [bind_ok_iff] at h
  obtain ⟨vs2, _, h⟩ := h
  rw [bind_ok_iff] at h
  obtain ⟨oc, ho, h⟩ := h
  obtain ⟨w1, _, _⟩ := wrB_ok h1
  have hoc := opposite_ok ho (by omega)
  subst hoc
  by_cases hne : (opp[c]! != inv) = true
  · rw [if_pos hne, bind_ok_iff] at h
    obtain ⟨es2, _, h⟩ := h
    rw [bind_ok_iff] at h
    obtain ⟨v3, _, h⟩ := h
    rw [bind_ok_iff] at h
    obtain ⟨vs3, _, h⟩ := h
    rw [bind_ok_iff] at h
    obtain ⟨v4, _, h⟩ := h
    rw [bind_ok_iff] at h
    obtain ⟨vs4, _, h⟩ := h
    simp only [pure, Except.pure] at h
    cases h
    exact ⟨_, rfl, fun hf => by cases hf⟩
  · rw [if_neg hne] at h
    simp only [pure, Except.pure] at h
    cases h
    have hne' : opp[c]! = inv := by simpa using hne
    exact ⟨_, rfl, fun hf => ⟨hf, hne'⟩⟩

theorem markLoop_flag (c2vBase opp : Array Nat) : ∀ (l : List Nat) (init s : BSt), init.1.size ≤ inv →
    forIn l init (bacStep c2vBase opp) = .ok s → s.2.2 = true → init.2.2 = true := by
  intro l
  induction l with
  | nil =>
    intro init s _ h hs
    simp only [List.forIn_nil, pure, Except.pure] at h
    cases h; exact hs
  | cons a l ih =>
    intro init s hsz h hs
    rw [List.forIn_cons, bind_ok_iff] at h
    obtain ⟨r, h1, h2⟩ := h
    obtain ⟨st', e, k1, _, _⟩ := bacStep_ok c2vBase opp a init r hsz h1
    obtain ⟨st'', e', j1⟩ := bacStep_ni a init r hsz h1
    subst e
    cases e'
    dsimp only at h2
    exact (j1 (ih st' s (by omega) h2 hs)).1

theorem markLoop_ni (c2vBase opp : Array Nat) : ∀ (l : List Nat) (init s : BSt), init.1.size ≤ inv →
    forIn l init (bacStep c2vBase opp) = .ok s → s.2.2 = true → ∀ c ∈ l, opp[c]! = inv := by
  intro l
  induction l with
  | nil => intro _ _ _ _ _ c hc; cases hc
  | cons a l ih =>
    intro init s hsz h hs
    rw [List.forIn_cons, bind_ok_iff] at h
    obtain ⟨r, h1, h2⟩ := h
    obtain ⟨st', e, k1, _, _⟩ := bacStep_ok c2vBase opp a init r hsz h1
    obtain ⟨st'', e', j1⟩ := bacStep_ni a init r hsz h1
    subst e
    cases e'
    dsimp only at h2
    have hrest := ih st' s (by omega) h2 hs
    have hst' : st'.2.2 = true := markLoop_flag c2vBase opp l st' s (by omega) h2 hs
    intro c hc
    rcases List.mem_cons.mp hc with rfl | hc'
    · exact (j1 hst').2
    · exact hrest c hc'

/-- **no interior seams**: every seam edge of such a table is a boundary edge of the base table -/
theorem buildAttConn_ni {N : Nat} {c2vBase opp vc sc : Array Nat} (hle : N ≤ inv) (hszc : c2vBase.size = N)
    {a : AttConn} (h : buildAttConn c2vBase opp vc sc = .ok a) (hni : a.noInteriorSeams = true) :
    ∀ d, d < N → a.edgeSeam[d]! = true → opp[d]! = inv := by
  obtain ⟨s, hs, e1, _, e3, _⟩ := buildAttConn_recompute' c2vBase opp vc sc a h
  unfold markSeams at hs
  rw [← Array.forIn_toList] at hs
  have hsz0 : (Array.replicate c2vBase.size false).size ≤ inv := by simp; omega
  obtain ⟨_, _, k3⟩ := Seams.markLoop_ok c2vBase opp sc.toList _ s hsz0 hs
  have hall := markLoop_ni c2vBase opp sc.toList _ s hsz0 hs (by rw [← e3]; exact hni)
  intro d hd hf
  rw [e1] at hf
  have hd' : d < c2vBase.size := by omega
  rw [k3 d (by simpa using hd')] at hf
  rcases hf with h0 | h0 | ⟨c, hc, hne, _⟩
  · exfalso
    simp only [] at h0
    rw [getElem!_pos _ d (by simpa using hd')] at h0
    simp at h0
  · exact hall d h0
  · exact absurd (hall c hc) hne

/-- `aL_iter_to_start` when only the corners WITH a left neighbour are known to have no seam on their left -/
theorem aL_iter_to_start' {N : Nat} {opp vc : Array Nat} {bv : Nat → Nat} (ht : FanTbl N opp vc bv) (es : Array Bool)
    {c0 : Nat} (hc0 : c0 < N) (hns : ∀ x, x < N → sLP opp x ≠ inv → es[Eb.nextC x]! = false) :
    ∀ i g, iter (sRP opp) i c0 = g → g ≠ inv → iter (aLP opp es) i g = c0 := by
  have hb := ht.toBaseTbl
  intro i
  induction i with
  | zero => intro g h _; exact h.symm
  | succ i ih =>
    intro g h hne
    rw [iter_succ'] at h
    have hg' : iter (sRP opp) i c0 ≠ inv := by
      intro e; rw [e, sRP_inv] at h; exact hne h.symm
    have hg'N : iter (sRP opp) i c0 < N := (ht.bv_iter hc0 i hg').1
    obtain ⟨hgN, hsl⟩ := hb.sR_sL hg'N h hne
    have hfl := hns g hgN (by rw [hsl]; exact hg')
    have hstep : aLP opp es g = iter (sRP opp) i c0 := by
      rcases hb.aL_cases es hgN with ⟨_, h1 | h1⟩ | ⟨_, _, h1⟩
      · rw [hfl] at h1; cases h1
      · rw [hsl] at h1; exact absurd h1 hg'
      · rw [h1, hsl]
    show iter (aLP opp es) i (aLP opp es g) = c0
    rw [hstep]
    exact ih _ rfl hg'

/-- **(b)** a `buildAttConn` table without interior seams gives all corners of a fan the same attribute vertex (`hlm`: the
    recorded left-most corner is left-most, or the fan is closed) -/
theorem build_const_of_no_interior_seam {N : Nat} {c2vBase opp vc sc : Array Nat}
    (ht : FanTbl N opp vc (fun c => c2vBase[c]!)) (hszc : c2vBase.size = N)
    {a : AttConn} (h : buildAttConn c2vBase opp vc sc = .ok a) (hni : a.noInteriorSeams = true)
    (v : Nat) (hv : v < vc.size) (hc0 : vc[v]! ≠ inv)
    (hlm : sLP opp vc[v]! ≠ inv → ∀ k, iter (sRP opp) k vc[v]! ≠ inv) :
    ∀ x y, InFan opp vc[v]! x → InFan opp vc[v]! y → a.c2v[x]! = a.c2v[y]! := by
  have hb := ht.toBaseTbl
  have hsv := buildAttConn_sv hb hszc h
  have hbnd := buildAttConn_ni hb.le hszc h hni
  obtain ⟨s, hs, e1, e2, hrun⟩ := buildAttConn_recompute c2vBase opp vc sc a h
  have hes : a.edgeSeam.size = N := by
    unfold markSeams at hs
    rw [← Array.forIn_toList] at hs
    have hle := hb.le
    obtain ⟨k1, _, _⟩ := Seams.markLoop_ok c2vBase opp sc.toList _ s (by simp; omega) hs
    rw [e1, k1]
    simpa using hszc
  rw [← e1, ← e2, hszc] at hrun
  obtain ⟨hcN, hbv0⟩ := ht.vcOK v hv hc0
  -- a corner with a left neighbour has no seam edge on its left
  have hns : ∀ x, x < N → sLP opp x ≠ inv → a.edgeSeam[Eb.nextC x]! = false := by
    intro x hx hsl
    cases hf : a.edgeSeam[Eb.nextC x]! with
    | false => rfl
    | true =>
      exfalso
      have := hbnd _ (nextC_ltN hb.n3 hx) hf
      apply hsl
      unfold sLP
      rw [if_neg (hb.ne_inv hx), this, nextC_inv]
  have hfan : FanHyp opp vc a.edgeSeam a.vertSeam v :=
    ⟨hlm, seamVert_of_flags ht a.edgeSeam a.vertSeam (fun c hc hf => (hsv c hc hf).1) v hv hc0⟩
  intro x y hx hy
  obtain ⟨hxN, hbx⟩ := ht.inFan_bv v hv hc0 x hx
  obtain ⟨hyN, hby⟩ := ht.inFan_bv v hv hc0 y hy
  have hbx : c2vBase[x]! = v := hbx
  have hby : c2vBase[y]! = v := hby
  rw [recomputeG_same_vertex ht a.edgeSeam a.vertSeam hes a.c2v a.lm hrun x y
    (by rw [hbx]; exact hv) (by rw [hby]; exact hv)
    (by rw [hbx]; exact hx) (by rw [hby]; exact hy)
    (by rw [hbx]; exact hfan) (by rw [hby]; exact hfan)]
  obtain ⟨hxne, i, hi⟩ := hx
  obtain ⟨hyne, j, hj⟩ := hy
  refine ⟨i, j, ?_, ?_⟩
  · rw [aL_iter_to_start' ht a.edgeSeam hcN hns i x hi hxne, aL_iter_to_start' ht a.edgeSeam hcN hns j y hj hyne]
  · rw [aL_iter_to_start' ht a.edgeSeam hcN hns i x hi hxne]; exact hc0

/-- the recorded left-most corners of the decoder's table are left-most (from `APHyp`) -/
theorem aphyp_lmost {n : Nat} {co : ConnOut} (hdec : APHyp n co) (v : Nat) (hv : v < co.vc.size)
    (hne : co.vc[v]! ≠ inv) : sLP co.opp co.vc[v]! ≠ inv → ∀ k, iter (sRP co.opp) k co.vc[v]! ≠ inv := by
  have ht := hdec.tbl
  obtain ⟨hcN, hbv⟩ := ht.vcOK v hv hne
  apply lmost_of_cover ht _ hcN
  intro y hy hyc
  obtain ⟨_, _, k, hk⟩ := hdec.cover y hy
  have : co.c2v[y]! = v := by
    have := ht.bvR y hy (by rw [hyc]; exact hne)
    simp only [hyc] at this
    rw [← this]; exact hbv
  rw [this] at hk
  exact ⟨k, hk⟩

/-! ## (a) dropping fan-constant tables does not change the per-fan count -/

theorem avDiff_map {α : Type} (p q : α → Nat) : ∀ l : List α,
    avDiff (l.map p) (l.map q) = l.any (fun a => p a != q a) := by
  intro l
  induction l with
  | nil => rfl
  | cons a l ih => simp only [List.map_cons, avDiff, List.any_cons, ih]

theorem encWalk_map_congr (f g : Nat → FanCorner) (S : Nat → Prop)
    (h : ∀ x y, S x → S y → avDiff (f x).av (f y).av = avDiff (g x).av (g y).av) :
    ∀ (L : List Nat) (last : Nat), S last → (∀ x ∈ L, S x) →
      encWalk (f last) (L.map f) = encWalk (g last) (L.map g) := by
  intro L
  induction L with
  | nil => intro _ _ _; rfl
  | cons c cs ih =>
    intro last hl hall
    simp only [List.map_cons, encWalk]
    rw [h c last (hall c List.mem_cons_self) hl, ih c (hall c List.mem_cons_self)
      (fun x hx => hall x (List.mem_cons_of_mem _ hx))]

/-- the encoder-style per-fan count only sees the `avDiff` pattern inside the fan -/
theorem encPoints_map_congr (f g : Nat → FanCorner) (S : Nat → Prop)
    (h : ∀ x y, S x → S y → avDiff (f x).av (f y).av = avDiff (g x).av (g y).av)
    (L : List Nat) (hall : ∀ x ∈ L, S x) (cl : Bool) (os os' : List Bool) :
    encPoints ⟨L.map f, cl, os⟩ = encPoints ⟨L.map g, cl, os'⟩ := by
  have hs : encSeams ⟨L.map f, cl, os⟩ = encSeams ⟨L.map g, cl, os'⟩ := by
    unfold encSeams
    cases L with
    | nil => rfl
    | cons c0 cs =>
      simp only [List.map_cons]
      have h0 := hall c0 List.mem_cons_self
      have hcs : ∀ x ∈ cs, S x := fun x hx => hall x (List.mem_cons_of_mem _ hx)
      cases cl with
      | false => exact encWalk_map_congr f g S h cs c0 h0 hcs
      | true =>
        simp only [if_true]
        have e1 : cs.map f ++ [f c0] = (cs ++ [c0]).map f := by simp
        have e2 : cs.map g ++ [g c0] = (cs ++ [c0]).map g := by simp
        rw [e1, e2]
        refine encWalk_map_congr f g S h (cs ++ [c0]) c0 h0 ?_
        intro x hx
        rcases List.mem_append.mp hx with hx | hx
        · exact hcs x hx
        · simp at hx; rw [hx]; exact h0
  unfold encPoints
  rw [hs]

/-- the decoder tables selected by the index map `σ`, in the order of the `m` encoder tables -/
def selAtts (σ : Nat → Nat) (attsD : Array AttConn) (m : Nat) : Array AttConn :=
  ((List.range m).map fun k => attsD[σ k]!).toArray

theorem selAtts_size (σ : Nat → Nat) (attsD : Array AttConn) (m : Nat) : (selAtts σ attsD m).size = m := by
  simp [selAtts]

theorem selAtts_get (σ : Nat → Nat) (attsD : Array AttConn) (m k : Nat) (hk : k < m) :
    (selAtts σ attsD m)[k]! = attsD[σ k]! := by
  have : k < (selAtts σ attsD m).size := by rw [selAtts_size]; exact hk
  rw [getElem!_pos _ k this]
  simp [selAtts]

/-- **(a)** the count `encPoints` on the decoder's fan of `v` is the same with all tables and with the `σ`-selected ones,
    when `σ` maps into the table indices and every table outside its image is constant on the fan -/
theorem encPoints_fanOfD_sel (co : ConnOut) (attsD : Array AttConn) (σ : Nat → Nat) (m : Nat) (v : Nat)
    (hσ : ∀ k, k < m → σ k < attsD.size)
    (hconst : ∀ j, j < attsD.size → (¬ ∃ k, k < m ∧ σ k = j) →
      ∀ x y, InFan co.opp co.vc[v]! x → InFan co.opp co.vc[v]! y → attsD[j]!.c2v[x]! = attsD[j]!.c2v[y]!) :
    encPoints (fanOfD co attsD v) = encPoints (fanOfD co (selAtts σ attsD m) v) := by
  show encPoints ⟨(fanCorners co.opp co.vc[v]!).map (fanCornerD attsD), _, _⟩ =
    encPoints ⟨(fanCorners co.opp co.vc[v]!).map (fanCornerD (selAtts σ attsD m)), _, _⟩
  refine encPoints_map_congr _ _ (InFan co.opp co.vc[v]!) ?_ _ (fun x hx => fanCorners_inFan hx) _ _ _
  intro x y hx hy
  show avDiff (attsD.toList.map fun a => a.c2v[x]!) (attsD.toList.map fun a => a.c2v[y]!) =
    avDiff ((selAtts σ attsD m).toList.map fun a => a.c2v[x]!) ((selAtts σ attsD m).toList.map fun a => a.c2v[y]!)
  rw [avDiff_map, avDiff_map, Bool.eq_iff_iff, List.any_eq_true, List.any_eq_true]
  constructor
  · rintro ⟨a, ha, hd⟩
    rw [Array.mem_toList_iff, Array.mem_iff_getElem] at ha
    obtain ⟨j, hj, rfl⟩ := ha
    by_cases him : ∃ k, k < m ∧ σ k = j
    · obtain ⟨k, hk, rfl⟩ := him
      refine ⟨attsD[σ k], ?_, hd⟩
      have : attsD[σ k] = attsD[σ k]! := by rw [getElem!_pos attsD (σ k) hj]
      rw [this]
      simp only [selAtts, List.mem_map, List.mem_range]
      exact ⟨k, hk, rfl⟩
    · exfalso
      have := hconst j hj him x y hx hy
      rw [getElem!_pos attsD j hj] at this
      simp [this] at hd
  · rintro ⟨a, ha, hd⟩
    simp only [selAtts, List.mem_map, List.mem_range] at ha
    obtain ⟨k, hk, rfl⟩ := ha
    have hj := hσ k hk
    refine ⟨attsD[σ k]!, ?_, hd⟩
    rw [getElem!_pos attsD (σ k) hj]
    exact Array.getElem_mem_toList hj

/-! ## (c) the count theorems along an index map -/

/-- **the seam part of the link along `σ`**: encoder table `k` corresponds to decoder table `σ k` -/
def SeamLinkσ (n : Nat) (attsD used : Array AttConn) (φ σ : Nat → Nat) : Prop :=
  (∀ k, k < used.size → σ k < attsD.size) ∧
    ∀ k, k < used.size → ∀ d, d < 3 * n → attsD[σ k]!.edgeSeam[d]! = used[k]!.edgeSeam[φ d]!

/-- the decoder tables that correspond to no encoder table have no interior seams -/
def NoIntσ (attsD : Array AttConn) (m : Nat) (σ : Nat → Nat) : Prop :=
  ∀ j, j < attsD.size → (¬ ∃ k, k < m ∧ σ k = j) → attsD[j]!.noInteriorSeams = true

theorem seamLink_sel {n : Nat} {attsD used : Array AttConn} {φ σ : Nat → Nat} (h : SeamLinkσ n attsD used φ σ) :
    SeamLink n (selAtts σ attsD used.size) used φ := by
  refine ⟨(selAtts_size _ _ _).symm, ?_⟩
  intro i hi d hd
  rw [selAtts_size] at hi
  rw [selAtts_get σ attsD used.size i hi]
  exact h.2 i hi d hd

section run
variable {ch : ConnChoices} {valence : Bool} {posFaces : Faces} {acv : Array (Nat × Array Nat)} {conn : ConnEnc}

/-- **C09, Edgebreaker points, tables matched by an index map.**  As `eb_encoded_points_eq_decoded_of_run2`, but the
    encoder's tables `used` correspond to the decoder's tables `attsD` along `σ` (`SeamLinkσ`), and the decoder tables
    that are not matched have no interior seams (`NoIntσ`). -/
theorem eb_encoded_points_eq_decoded_of_run3 (atts : Array Attribute) (used : Array AttConn) (nE : Nat)
    (co : ConnOut) (n : Nat) (attsD : Array AttConn) (c2p : Array Nat) (nD tags : Nat) (ψ σ : Nat → Nat)
    (hatts : atts.size > 1)
    (hrunE : computeNumberOfEncodedPoints atts conn used = .ok nE)
    (henc : encodeConnectivity ch valence posFaces acv = .ok conn)
    (hne : attsD.isEmpty = false)
    (hrunD : assignPoints co n attsD = .ok (c2p, nD, tags))
    (hn : n = conn.processed.size)
    (hiso : TVIso (baseViewD n co.c2v co.opp co.vc) conn.ct.view (phi conn.processed) ψ)
    (hdec : APHyp n co) (hszc : co.c2v.size = 3 * n)
    (hhole : ∀ v, v < co.vc.size → co.vc[v]! ≠ inv → co.hole[v]! = true → ∃ k, iter (sRP co.opp) k co.vc[v]! = inv)
    (hbuild : ∀ i (hi : i < attsD.size), ∃ sc, buildAttConn co.c2v co.opp co.vc sc = .ok attsD[i])
    (hinit : ∀ i (hi : i < used.size), ∃ cv, initFromAttribute conn.ct cv = .ok used[i])
    (hlink : SeamLinkσ n attsD used (phi conn.processed) σ)
    (hnoint : NoIntσ attsD used.size σ) :
    nE = nD := by
  have hF := fanHyps_of_run henc hn hiso hdec hhole
  have hcov : Coverage n conn.ct (phi conn.processed) := by rw [hn]; exact coverage_of_run henc
  -- the selected decoder tables are built by `buildAttConn` as well
  have hbuildS : ∀ i (hi : i < (selAtts σ attsD used.size).size), ∃ sc,
      buildAttConn co.c2v co.opp co.vc sc = .ok (selAtts σ attsD used.size)[i] := by
    intro i hi
    have hi' : i < used.size := by rw [selAtts_size] at hi; exact hi
    have hσi : σ i < attsD.size := hlink.1 i hi'
    obtain ⟨sc, hsc⟩ := hbuild (σ i) hσi
    refine ⟨sc, ?_⟩
    have e : (selAtts σ attsD used.size)[i] = attsD[σ i] := by
      have := selAtts_get σ attsD used.size i hi'
      rw [getElem!_pos _ i hi, getElem!_pos attsD (σ i) hσi] at this
      exact this
    rw [e]; exact hsc
  have hiffS := attVertIff_of_run henc hn hiso hdec hszc hbuildS hinit (seamLink_sel hlink)
  apply encoded_points_eq_decoded_of_corr atts conn used nE co n attsD c2p nD tags ψ hatts hrunE hF.encB
    (fun v hv hne => (hF.encVc v hv hne).1) hF.encLm hdec hne hrunD (seamFlagsSound_of_build hdec hszc hbuild)
    (usedVerts_count_of_run henc) (vertCorr hF hcov)
  intro v hv
  obtain ⟨hv1, hv2⟩ := mem_usedVerts.mp hv
  rw [fan_corr hF hiffS hv1 hv2]
  symm
  apply encPoints_fanOfD_sel co attsD σ used.size v hlink.1
  intro j hj hnim
  obtain ⟨sc, hsc⟩ := hbuild j hj
  have hni := hnoint j hj hnim
  rw [getElem!_pos attsD j hj] at hni ⊢
  exact build_const_of_no_interior_seam hdec.tbl hszc hsc hni v hv1 hv2 (aphyp_lmost hdec v hv1 hv2)

end run

section stream
variable {ch : EbChoices} {g : Geometry} {md : Option GeometryMetadata} {o : EbOpts} {enc : Encoded}

/-- **The reported counts agree, more than one attribute, tables matched by an index map `σ`**: entry `k` of `usedOf enc`
    (the `k`-th controller that encodes on its attribute corner table) corresponds to the decoder's attribute data `σ k`;
    the decoder's attribute data that are not matched have no interior seams. -/
theorem eb_encoded_counts_of_link' (henc : encodeEdgebreaker ch g md o = .ok enc)
    {mesh : Mesh} {co : ConnOut} (hst : DecStagesOf mesh co) (ψ σ : Nat → Nat)
    (hatts : g.atts.length > 1)
    (hne : mesh.atts.isEmpty = false)
    (hn : mesh.numFaces = enc.conn.processed.size)
    (hiso : TVIso (baseViewD mesh.numFaces co.c2v co.opp co.vc) enc.conn.ct.view (phi enc.conn.processed) ψ)
    (hdec : APHyp mesh.numFaces co) (hszc : co.c2v.size = 3 * mesh.numFaces)
    (hhole : ∀ v, v < co.vc.size → co.vc[v]! ≠ inv → co.hole[v]! = true → ∃ k, iter (sRP co.opp) k co.vc[v]! = inv)
    (hlink : SeamLinkσ mesh.numFaces mesh.atts (usedOf enc) (phi enc.conn.processed) σ)
    (hnoint : NoIntσ mesh.atts (usedOf enc).size σ) :
    enc.numEncodedPoints = mesh.numPoints ∧ enc.numEncodedFaces = mesh.numFaces := by
  obtain ⟨coder, posFaces, acv, hconn, _, _, hnp⟩ := encoded_points_run henc
  refine ⟨?_, by rw [encoded_faces_eq henc, hn]⟩
  obtain ⟨_, _, _, tags, _, _, _, _, _, _, hap⟩ := id hst
  exact eb_encoded_points_eq_decoded_of_run3 g.atts.toArray (usedOf enc) enc.numEncodedPoints co mesh.numFaces mesh.atts
    mesh.faces mesh.numPoints tags ψ σ (by simpa using hatts) hnp hconn hne hap hn hiso hdec hszc hhole hst.build
    (usedOf_init henc) hlink hnoint

end stream

end Draco.EbEnc.CountsIso
