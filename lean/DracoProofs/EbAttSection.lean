import DracoProofs.EbLayer
import DracoProofs.SeqAttrs
/-
  The attribute section of an Edgebreaker stream (`PointCloudDecoder::DecodePointAttributes` of the mesh decoder,
  `Draco.Eb.decodeAttributes`, bitstream 2.2), compositionally: a plain data description of the section (`AttPlan`: per
  attributes decoder its identifier triple, point sequence, point → value map and attributes; per attribute the
  descriptor, decoder type, value bytes, portable values, parameter bytes, transform), its byte layout
  (`AttPlan.bytes`), the attributes the decoder returns (`AttPlan.attributes`) and the side conditions (`PlanOK`, with
  the value blocks and the transform parameters as `Runs` HYPOTHESES about `decodeIntegerValuesEb` /
  `decodeTransformParams`), and the theorem `runs_decodeAttributes`:
      PlanOK opts mesh plan → Runs (decodeAttributes opts 514 mesh) 514 plan.bytes (plan.attributes opts) 514.
  Also: `Runs` rules for `for` loops in `DecM` (`RunsLoop`, `Runs.forIn_list`, `Runs.forIn_range_indexed`).
-/
open Draco Draco.Eb DecM

namespace Draco.EbEnc

inductive RunsLoop {β σ : Type} (f : β → σ → DecM (ForInStep σ)) (v : Nat) : List β → σ → Bytes → σ → Prop
  | nil (s : σ) : RunsLoop f v [] s [] s
  | cons {x : β} {xs : List β} {s s' s'' : σ} {b bs : Bytes} :
      Runs (f x s) v b (ForInStep.yield s') v → RunsLoop f v xs s' bs s'' → RunsLoop f v (x :: xs) s (b ++ bs) s''

theorem RunsLoop.forIn {β σ : Type} {f : β → σ → DecM (ForInStep σ)} {v : Nat} {xs : List β} {s s' : σ} {bs : Bytes}
    (h : RunsLoop f v xs s bs s') : Runs (forIn xs s f) v bs s' v := by
  induction h with
  | nil s => rw [List.forIn_nil]; exact Runs.pure _ v
  | cons h1 _ ih =>
    rw [List.forIn_cons]
    exact Runs.bind h1 ih

/-- functional form: the next state and the chunk are functions of the element and the state -/
theorem Runs.forIn_list {β σ : Type} (f : β → σ → DecM (ForInStep σ)) (v : Nat) (Inv : σ → Prop)
    (next : β → σ → σ) (B : β → σ → Bytes) :
    ∀ (xs : List β) (init : σ),
    (∀ x ∈ xs, ∀ s, Inv s → Runs (f x s) v (B x s) (ForInStep.yield (next x s)) v ∧ Inv (next x s)) → Inv init →
    Runs (forIn xs init f) v
      (xs.foldl (fun (acc : Bytes × σ) x => (acc.1 ++ B x acc.2, next x acc.2)) ([], init)).1
      (xs.foldl (fun s x => next x s) init) v := by
  have key : ∀ (xs : List β) (init : σ) (pre : Bytes),
      (xs.foldl (fun (acc : Bytes × σ) x => (acc.1 ++ B x acc.2, next x acc.2)) (pre, init)).1 =
        pre ++ (xs.foldl (fun (acc : Bytes × σ) x => (acc.1 ++ B x acc.2, next x acc.2)) ([], init)).1 := by
    intro xs
    induction xs with
    | nil => intro init pre; simp
    | cons x xs ih =>
      intro init pre
      simp only [List.foldl_cons, List.nil_append]
      rw [ih _ (pre ++ _), ih _ (B x init), List.append_assoc]
  intro xs
  induction xs with
  | nil => intro init _ _; rw [List.forIn_nil]; exact Runs.pure _ v
  | cons x xs ih =>
    intro init h hinv
    obtain ⟨h1, h2⟩ := h x (by simp) init hinv
    rw [List.forIn_cons]
    simp only [List.foldl_cons, List.nil_append]
    rw [key]
    exact Runs.bind h1 (ih _ (fun y hy => h y (by simp [hy])) h2)

theorem Runs.forIn_range {σ : Type} {f : Nat → σ → DecM (ForInStep σ)} {v n : Nat} {s s' : σ} {bs : Bytes}
    (h : RunsLoop f v (List.range' 0 n) s bs s') : Runs (forIn [0:n] s f) v bs s' v := by
  rw [Std.Legacy.Range.forIn_eq_forIn_range']
  have : ([0:n] : Std.Legacy.Range).size = n := by simp [Std.Legacy.Range.size]
  rw [this]
  exact h.forIn

/-- a counting loop whose state after `j` iterations is `S j` and whose iteration `j` consumes `B j` -/
theorem RunsLoop.range' {σ : Type} {f : Nat → σ → DecM (ForInStep σ)} {v : Nat} (S : Nat → σ) (B : Nat → Bytes) :
    ∀ (k i : Nat), (∀ j, i ≤ j → j < i + k → Runs (f j (S j)) v (B j) (ForInStep.yield (S (j + 1))) v) →
    RunsLoop f v (List.range' i k) (S i) ((List.range' i k).flatMap B) (S (i + k)) := by
  intro k
  induction k with
  | zero => intro i _; exact RunsLoop.nil _
  | succ k ih =>
    intro i h
    rw [List.range'_succ, List.flatMap_cons]
    have := ih (i + 1) (fun j h1 h2 => h j (by omega) (by omega))
    rw [show i + 1 + k = i + (k + 1) by omega] at this
    exact RunsLoop.cons (h i (Nat.le_refl _) (by omega)) this

theorem Runs.forIn_range_indexed {σ : Type} {f : Nat → σ → DecM (ForInStep σ)} {v : Nat} (S : Nat → σ) (B : Nat → Bytes)
    (n : Nat) (h : ∀ j, j < n → Runs (f j (S j)) v (B j) (ForInStep.yield (S (j + 1))) v) :
    Runs (forIn [0:n] (S 0) f) v ((List.range n).flatMap B) (S n) v := by
  have := RunsLoop.range' (f := f) (v := v) S B n 0 (fun j _ h2 => h j (by omega))
  rw [Nat.zero_add, ← List.range_eq_range'] at this
  exact Runs.forIn_range (by rw [← List.range_eq_range']; exact this)

theorem range_flatMap_getElem! {α : Type} [Inhabited α] (l : List α) (g : α → Bytes) :
    (List.range l.length).flatMap (fun j => g l[j]!) = l.flatMap g := by
  have : (List.range l.length).map (fun j => l[j]!) = l := by
    apply List.ext_getElem
    · simp
    · intro i h1 h2
      simp at h1
      simp [h1]
  conv => rhs; rw [← this]
  rw [List.flatMap_map]


/-! ### the data description of an attribute section -/

/-- one attribute of one attributes decoder -/
structure AttItem where
  desc : AttDesc
  /-- sequential decoder type: 0 generic, 1 integer, 2 quantization, 3 normals -/
  decoderType : Nat
  /-- type 0: the raw values; types 1–3: the value block read by `decodeIntegerValuesEb` -/
  valueBytes : Bytes
  /-- types 1–3: what the value block decodes to -/
  portable : Array Int
  /-- what `decodeTransformParams` reads (nothing for types 0, 1) -/
  paramBytes : Bytes
  /-- what `decodeTransformParams` returns -/
  transform : TransformData
deriving Inhabited

/-- one attributes decoder (`SequentialAttributeDecodersController` with a mesh traversal sequencer) -/
structure DecoderItem where
  dec : AttDecoder
  /-- `sequenceOfDecoder mesh dec` -/
  seq : SeqOut
  /-- `pointToValueMap (viewOfDecoder mesh dec) mesh.faces mesh.numPoints seq.v2d` -/
  map : Array Nat
  items : List AttItem
deriving Inhabited

abbrev AttPlan := List DecoderItem

/-- number of values of every attribute of the decoder -/
def DecoderItem.n (d : DecoderItem) : Nat := d.seq.pointIds.size

/-- `(att_data_id, decoder type, traversal method)` -/
def DecoderItem.idBytes (d : DecoderItem) : Bytes :=
  [toUnsigned 8 d.dec.attDataId, if d.dec.cornerDecoder then 1 else 0, d.dec.traversalMethod]

/-- attribute count, descriptors, sequential decoder types -/
def DecoderItem.headBytes (d : DecoderItem) : Bytes :=
  encVarint d.items.length ++ d.items.flatMap (fun it => SeqEnc.descBytes it.desc) ++ d.items.map (·.decoderType)

/-- the values of every attribute, then the transform parameters of every attribute -/
def DecoderItem.dataBytes (d : DecoderItem) : Bytes :=
  d.items.flatMap (·.valueBytes) ++ d.items.flatMap (·.paramBytes)

/-- the byte layout of the attribute section -/
def AttPlan.bytes (plan : AttPlan) : Bytes :=
  plan.length :: (plan.flatMap DecoderItem.idBytes ++ (plan.flatMap DecoderItem.headBytes ++ plan.flatMap DecoderItem.dataBytes))

/-- the transform of the attribute after `DecodeDataNeededByPortableTransform` -/
def AttItem.finalTransform (it : AttItem) : TransformData :=
  if it.decoderType == 2 || it.decoderType == 3 then it.transform else .none

/-- the public attribute (`finishSeqAttribute`) -/
def AttItem.attribute (opts : DecOpts) (n : Nat) (map : Array Nat) (it : AttItem) : Attribute :=
  let d := it.desc
  if it.decoderType == 0 then { d.toAttribute n it.valueBytes with map := some map.toList }
  else if opts.skip.contains d.attType then
    { attType := d.attType, dataType := Generated.DT_INT32.toNat,
      numComponents := if it.decoderType == 3 then 2 else d.numComponents,
      normalized := false, uniqueId := d.uniqueId, numValues := n, map := some map.toList,
      values := (it.portable.toList.map (intToLE 4)).flatten, transform := it.finalTransform }
  else
    match it.decoderType with
    | 1 => { d.toAttribute n (it.portable.toList.map (intToLE (dataTypeLength d.dataType))).flatten with map := some map.toList }
    | 2 =>
      match it.transform with
      | .quantization bits mins range =>
        { d.toAttribute n (dequantAll range bits.toNat mins it.portable.toList mins []).flatten with map := some map.toList }
      | _ => { d.toAttribute n [] with map := some map.toList }
    | _ =>
      match it.transform with
      | .octahedron bits => { d.toAttribute n (octaAll bits.toNat it.portable.toList []).flatten with map := some map.toList }
      | _ => { d.toAttribute n [] with map := some map.toList }

def DecoderItem.attributes (opts : DecOpts) (d : DecoderItem) : List Attribute :=
  d.items.map (AttItem.attribute opts d.n d.map)

/-- what `decodeAttributes` returns -/
def AttPlan.attributes (opts : DecOpts) (plan : AttPlan) : List Attribute :=
  plan.flatMap (DecoderItem.attributes opts)

/-! ### the parent (POSITION) attribute -/

/-- the attributes in stream order, each with the point → value map of its decoder -/
def AttPlan.flat (plan : AttPlan) : List (Array Nat × AttItem) :=
  plan.flatMap fun d => d.items.map fun it => (d.map, it)

/-- number of attributes of the decoders before decoder `i` -/
def AttPlan.offset (plan : AttPlan) (i : Nat) : Nat := ((plan.take i).map (·.items.length)).sum

/-- global id of the first attribute of type POSITION -/
def AttPlan.posAtt (plan : AttPlan) : Option Nat :=
  (List.range plan.flat.length).find? fun k => (plan.flat[k]!).2.desc.attType == Generated.geometryAttribute_POSITION.toNat

/-- the portable attribute of a decoded attribute as a prediction scheme sees it through `SetParentAttribute` -/
def parentOfItem (m : Array Nat) (it : AttItem) : Option Parent :=
  if it.decoderType == 0 then none
  else some { numComponents := if it.decoderType == 3 then 2 else it.desc.numComponents, map := m, ints := it.portable,
              intsOk := true, floats := it.portable.map Float32.ofInt, floatsOk := true }

/-- the parent attribute at the moment attribute `k` of decoder `i` is decoded: the portable form of the first POSITION
    attribute if it has been decoded already (and not by the generic decoder) -/
def parentAt (plan : AttPlan) (i k : Nat) : Option Parent :=
  match plan.posAtt with
  | none => none
  | some pk => if pk < plan.offset i + k then parentOfItem (plan.flat[pk]!).1 (plan.flat[pk]!).2 else none

/-! ### side conditions -/

structure DecoderOK (mesh : Mesh) (d : DecoderItem) : Prop where
  idRange : -128 ≤ d.dec.attDataId ∧ d.dec.attDataId < 128
  idAtt : 0 ≤ d.dec.attDataId → d.dec.attDataId.toNat < mesh.atts.size
  traversal : d.dec.traversalMethod < 2
  corner : d.dec.cornerDecoder = true → d.dec.traversalMethod = 0 ∧ 0 ≤ d.dec.attDataId
  seq : sequenceOfDecoder mesh d.dec = .ok d.seq
  map : pointToValueMap (viewOfDecoder mesh d.dec) mesh.faces mesh.numPoints d.seq.v2d = .ok d.map
  nonempty : d.items ≠ []
  count : d.items.length < 2 ^ 32

/-- what `decodeAttDescs` and `Init` of the sequential decoders check -/
structure DescOK (it : AttItem) : Prop where
  attType : it.desc.attType < 5
  dataType : 1 ≤ it.desc.dataType ∧ it.desc.dataType ≤ 11
  numComponents : 1 ≤ it.desc.numComponents ∧ it.desc.numComponents ≤ 255
  uniqueId : it.desc.uniqueId < 2 ^ 32
  decoderType : it.decoderType ≤ 3
  ty2 : it.decoderType = 2 → it.desc.dataType = 9
  ty3 : it.decoderType = 3 → it.desc.numComponents = 3 ∧ it.desc.dataType = 9

/-- the transform parameters and the checks of `TransformAttributeToOriginalFormat` -/
structure ParamOK (opts : DecOpts) (it : AttItem) : Prop where
  /-- the PARAMETER hypothesis -/
  params : Runs (decodeTransformParams it.decoderType it.desc.numComponents) 514 it.paramBytes it.transform 514
  tr2 : it.decoderType = 2 → ∃ bits mins range, it.transform = .quantization bits mins range
  tr3 : it.decoderType = 3 → ∃ bits, it.transform = .octahedron bits ∧
    (opts.skip.contains it.desc.attType = false → 2 ≤ bits ∧ bits ≤ 30)
  store1 : it.decoderType = 1 → opts.skip.contains it.desc.attType = false → it.desc.dataType ≤ 6

/-- the values of one attribute, `parent` being the parent attribute at that moment -/
structure ValuesOK (mesh : Mesh) (d : DecoderItem) (parent : Option Parent) (it : AttItem) : Prop where
  /-- generic decoder: the raw values -/
  raw : it.decoderType = 0 → it.valueBytes.length = d.n * (dataTypeLength it.desc.dataType * it.desc.numComponents)
  /-- the VALUE BLOCK hypothesis -/
  values : it.decoderType ≠ 0 →
    Runs (decodeIntegerValuesEb it.decoderType d.n (if it.decoderType == 3 then 2 else it.desc.numComponents)
        it.desc.numComponents ⟨viewOfDecoder mesh d.dec, d.seq.d2c, d.seq.v2d⟩ d.seq.pointIds parent) 514
      it.valueBytes (it.portable, TransformData.none) 514

structure ItemOK (opts : DecOpts) (mesh : Mesh) (d : DecoderItem) (parent : Option Parent) (it : AttItem) : Prop
    extends DescOK it, ParamOK opts it, ValuesOK mesh d parent it

structure PlanOK (opts : DecOpts) (mesh : Mesh) (plan : AttPlan) : Prop where
  count : plan.length < 256
  /-- every non-negative `att_data_id` is used once, at most one decoder has a negative one -/
  ids : plan.Pairwise fun a b =>
    (0 ≤ b.dec.attDataId → a.dec.attDataId ≠ b.dec.attDataId) ∧ (b.dec.attDataId < 0 → 0 ≤ a.dec.attDataId)
  decoder : ∀ d ∈ plan, DecoderOK mesh d
  item : ∀ (i k : Nat) (hi : i < plan.length) (hk : k < plan[i].items.length),
    ItemOK opts mesh plan[i] (parentAt plan i k) plan[i].items[k]


/-! ### loop 1: `createAttributeDecoders` -/

def createStep (i : Nat) (d : AttDecoder) (s : Array Int × Int × Array AttDecoder) :
    Array Int × Int × Array AttDecoder :=
  if d.attDataId ≥ 0 then (s.1.set! d.attDataId.toNat (i : Int), s.2.1, s.2.2.push d) else (s.1, (i : Int), s.2.2.push d)

/-- the loop state of `createAttributeDecoders` after `i` iterations -/
def createState (numAtt : Nat) (plan : AttPlan) : Nat → Array Int × Int × Array AttDecoder
  | 0 => (Array.replicate numAtt (-1), -1, #[])
  | i + 1 => createStep i (plan[i]!).dec (createState numAtt plan i)

theorem getElem!_set!_ne (arr : Array Int) (k a : Nat) (v : Int) (h : k ≠ a) : (arr.set! k v)[a]! = arr[a]! := by
  rw [getElem!_def, getElem!_def, Array.set!, Array.getElem?_setIfInBounds_ne h]

theorem createState_decoders (numAtt : Nat) (plan : AttPlan) : ∀ i, i ≤ plan.length →
    (createState numAtt plan i).2.2 = ((plan.take i).map (·.dec)).toArray := by
  intro i
  induction i with
  | zero => intro _; rfl
  | succ i ih =>
    intro hi
    have hlt : i < plan.length := by omega
    have e : (createState numAtt plan (i + 1)).2.2 = (createState numAtt plan i).2.2.push (plan[i]!).dec := by
      simp only [createState, createStep]
      split <;> rfl
    have e2 : plan[i]! = plan[i] := by simp [hlt]
    rw [e, ih (by omega), List.take_succ_eq_append_getElem hlt, e2]
    simp only [List.map_append, List.map_cons, List.map_nil, List.push_toArray]

theorem createState_unused (numAtt : Nat) (plan : AttPlan) (a : Nat) (ha : a < numAtt) : ∀ i,
    (∀ j, j < i → 0 ≤ (plan[j]!).dec.attDataId → (plan[j]!).dec.attDataId.toNat ≠ a) →
    (createState numAtt plan i).1[a]! = -1 := by
  intro i
  induction i with
  | zero => intro _; simp [createState, ha]
  | succ i ih =>
    intro h
    have h1 := ih (fun j hj => h j (by omega))
    simp only [createState, createStep]
    split
    · rename_i hge
      rw [getElem!_set!_ne _ _ _ _ (h i (by omega) hge)]
      exact h1
    · exact h1

theorem createState_pos (numAtt : Nat) (plan : AttPlan) : ∀ i,
    (∀ j, j < i → 0 ≤ (plan[j]!).dec.attDataId) → (createState numAtt plan i).2.1 = -1 := by
  intro i
  induction i with
  | zero => intro _; rfl
  | succ i ih =>
    intro h
    have h1 := ih (fun j hj => h j (by omega))
    simp only [createState, createStep]
    rw [if_pos (h i (by omega))]
    exact h1

theorem toSigned_toUnsigned8 (x : Int) (h1 : -128 ≤ x) (h2 : x < 128) : toSigned 8 (toUnsigned 8 x) = x := by
  unfold toSigned toUnsigned
  have e : ((2:Nat)^8 : Nat) = 256 := by decide
  have e' : ((2:Nat)^(8-1) : Nat) = 128 := by decide
  simp only [e, e']
  omega

theorem runs_createAttributeDecoders (mesh : Mesh) (plan : AttPlan)
    (hids : plan.Pairwise fun a b =>
      (0 ≤ b.dec.attDataId → a.dec.attDataId ≠ b.dec.attDataId) ∧ (b.dec.attDataId < 0 → 0 ≤ a.dec.attDataId))
    (hdec : ∀ d ∈ plan, DecoderOK mesh d) :
    Runs (createAttributeDecoders 514 mesh.atts.size plan.length) 514 (plan.flatMap DecoderItem.idBytes)
      (plan.map (·.dec)).toArray 514 := by
  unfold createAttributeDecoders
  simp only []
  rw [← List.append_nil (plan.flatMap DecoderItem.idBytes), ← range_flatMap_getElem!]
  refine Runs.bind (Runs.forIn_range_indexed (createState mesh.atts.size plan) _ plan.length (fun j hj => ?_)) ?_
  · have hj' : plan[j]! = plan[j] := by simp [hj]
    obtain ⟨⟨r1, r2⟩, hatt, htr, hcorner, -⟩ := hdec plan[j] (List.getElem_mem hj)
    have hprev : ∀ i, i < j → (0 ≤ plan[j].dec.attDataId → (plan[i]!).dec.attDataId ≠ plan[j].dec.attDataId) ∧
        (plan[j].dec.attDataId < 0 → 0 ≤ (plan[i]!).dec.attDataId) := by
      intro i hi
      have hi' : plan[i]! = plan[i] := by simp [show i < plan.length by omega]
      rw [hi']
      exact List.pairwise_iff_getElem.mp hids i j (by omega) hj hi
    rw [hj']
    unfold DecoderItem.idBytes
    refine Runs.bind1 (Runs.rdI8 _ 514) ?_
    rw [toSigned_toUnsigned8 _ r1 r2]
    refine Runs.bind1 (Runs.rdU8 _ 514) ?_
    have hS : createState mesh.atts.size plan (j + 1) =
        createStep j plan[j].dec (createState mesh.atts.size plan j) := by
      simp only [createState, hj']
    have hun : 0 ≤ plan[j].dec.attDataId →
        (createState mesh.atts.size plan j).1[plan[j].dec.attDataId.toNat]! = -1 := fun h0 =>
      createState_unused _ plan _ (hatt h0) j (fun i hi hi0 heq => (hprev i hi).1 h0 (by omega))
    have hpos : plan[j].dec.attDataId < 0 → (createState mesh.atts.size plan j).2.1 = -1 := fun h0 =>
      createState_pos _ plan j (fun i hi => (hprev i hi).2 h0)
    rw [hS]
    generalize createState mesh.atts.size plan j = S at hun hpos ⊢
    generalize plan[j].dec = d at *
    obtain ⟨id, cd, tm⟩ := d
    simp only at *
    have h514 : 514 ≥ bsVersion 1 2 := by decide
    have htm : decide (tm < Generated.NUM_TRAVERSAL_METHODS.toNat) = true := decide_eq_true htr
    by_cases h0 : id ≥ 0
    · rw [if_pos h0]
      refine Runs.bind0 (Runs.require (decide_eq_true (hatt h0)) 514) ?_
      refine Runs.bind0 (Runs.require (by rw [hun h0]; rfl) 514) ?_
      rw [if_pos h514]
      refine Runs.bind' (Runs.rdU8 _ 514) rfl ?_
      refine Runs.bind0 (Runs.require htm 514) ?_
      cases cd
      · rw [if_pos (by rfl)]
        refine Runs.of_eq (Runs.pure _ 514) rfl rfl ?_
        simp [createStep, h0]
      · rw [if_neg (by simp)]
        obtain ⟨c1, c2⟩ := hcorner rfl
        subst c1
        refine Runs.bind0 (Runs.require (by rfl) 514) ?_
        refine Runs.bind0 (Runs.require (decide_eq_true h0) 514) ?_
        refine Runs.of_eq (Runs.pure _ 514) rfl rfl ?_
        simp [createStep, h0]
    · rw [if_neg h0]
      refine Runs.bind0 (Runs.require (by rw [hpos (by omega)]; rfl) 514) ?_
      rw [if_pos h514]
      refine Runs.bind' (Runs.rdU8 _ 514) rfl ?_
      refine Runs.bind0 (Runs.require htm 514) ?_
      cases cd
      · rw [if_pos (by rfl)]
        refine Runs.of_eq (Runs.pure _ 514) rfl rfl ?_
        simp [createStep, h0]
      · exact absurd (hcorner rfl).2 (by omega)
  · refine Runs.of_eq (Runs.pure _ 514) rfl rfl ?_
    rw [createState_decoders _ _ _ (Nat.le_refl _), List.take_length]


/-! ### loop 2: `decodeDecoderDescs` -/

/-- an attribute as `DecodeAttributesDecoderData` of decoder `i` leaves it -/
def st0 (i : Nat) (it : AttItem) : EbAttState := { desc := it.desc, decoderType := it.decoderType, decoder := i }

def st0Lists : Nat → AttPlan → List (List EbAttState)
  | _, [] => []
  | i, d :: ds => d.items.map (st0 i) :: st0Lists (i + 1) ds

theorem runs_decodeDecoderDescs (i : Nat) (d : DecoderItem) (hne : d.items ≠ []) (hcount : d.items.length < 2 ^ 32)
    (hit : ∀ it ∈ d.items, DescOK it) :
    Runs (decodeDecoderDescs i) 514 d.headBytes (d.items.map (st0 i)) 514 := by
  unfold decodeDecoderDescs DecoderItem.headBytes
  have hdescs := runs_decodeAttDescs 514 (by decide) (d.items.map (·.desc))
    (by simpa using hne) (by simpa using hcount) (by
      intro x hx
      simp only [List.mem_map] at hx
      obtain ⟨it, hi, rfl⟩ := hx
      have := hit it hi
      exact ⟨this.attType, this.dataType.1, this.dataType.2, this.numComponents.1, this.numComponents.2, this.uniqueId⟩)
  rw [List.length_map, List.flatMap_map] at hdescs
  refine Runs.bind hdescs ?_
  refine Runs.bind0 (Runs.alloc _ _ 514) ?_
  rw [← map_singleton_flatten]
  refine RunsAll.mapM' (RunsAll.of_map d.items (·.desc) (fun it => [it.decoderType]) (st0 i) (fun it hi => ?_))
  have h := hit it hi
  refine Runs.bind1 (Runs.rdU8 _ 514) ?_
  refine Runs.bind0 (Runs.require (by simpa using h.decoderType) 514) ?_
  by_cases h2 : it.decoderType = 2
  · rw [if_pos (by simp [h2])]
    refine Runs.bind0 (Runs.require (by rw [h.ty2 h2]; rfl) 514) ?_
    rw [if_neg (by simp [h2])]
    exact Runs.pure _ 514
  · rw [if_neg (by simpa using h2)]
    by_cases h3 : it.decoderType = 3
    · rw [if_pos (by simp [h3])]
      refine Runs.bind0 (Runs.require (by rw [(h.ty3 h3).1, (h.ty3 h3).2]; rfl) 514) ?_
      exact Runs.pure _ 514
    · rw [if_neg (by simpa using h3)]
      exact Runs.pure _ 514

theorem runsAll_decoderDescs : ∀ (ds : AttPlan) (i : Nat),
    (∀ d ∈ ds, d.items ≠ [] ∧ d.items.length < 2 ^ 32 ∧ ∀ it ∈ d.items, DescOK it) →
    RunsAll decodeDecoderDescs 514 (List.range' i ds.length) (ds.map DecoderItem.headBytes) (st0Lists i ds) := by
  intro ds
  induction ds with
  | nil => intro i _; exact .nil
  | cons d ds ih =>
    intro i h
    obtain ⟨h1, h2, h3⟩ := h d (by simp)
    simp only [List.length_cons, List.range'_succ, List.map_cons, st0Lists]
    exact .cons (runs_decodeDecoderDescs i d h1 h2 h3) (ih (i + 1) (fun d' hd' => h d' (by simp [hd'])))


/-! ### loop 3: the values and transform parameters of one decoder -/

/-- the attribute after `DecodePortableAttribute` -/
def st1 (i n : Nat) (m : Array Nat) (it : AttItem) : EbAttState :=
  { desc := it.desc, decoderType := it.decoderType, decoder := i,
    rawValues := if it.decoderType == 0 then it.valueBytes else [],
    portable := if it.decoderType == 0 then #[] else it.portable,
    hasPortable := it.decoderType != 0, decoded := true, map := m, numValues := n }

/-- … after `DecodeDataNeededByPortableTransform` -/
def st2 (i n : Nat) (m : Array Nat) (it : AttItem) : EbAttState :=
  { st1 i n m it with transform := it.finalTransform }

/-- … after `TransformAttributeToOriginalFormat` -/
def st3 (i n : Nat) (m : Array Nat) (it : AttItem) : EbAttState :=
  { st2 i n m it with finished := true }

/-- the parent attribute `decodePortable` computes when `done` is what has been decoded so far -/
def parentExpr (opts : DecOpts) (posAtt : Option Nat) (all : Array EbAttState) (done : List EbAttState) : Option Parent :=
  match posAtt with
  | none => none
  | some pk => parentOf 514 opts.skip (lookupState all done pk)

theorem runs_decodePortable (opts : DecOpts) (posAtt : Option Nat) (all : Array EbAttState) (mesh : Mesh)
    (d : DecoderItem) (i : Nat) (done : List EbAttState) (it : AttItem)
    (h : ValuesOK mesh d (parentExpr opts posAtt all done) it) :
    Runs (decodePortable 514 opts.skip posAtt all ⟨viewOfDecoder mesh d.dec, d.seq.d2c, d.seq.v2d⟩ d.seq.pointIds d.map
      done (st0 i it)) 514 it.valueBytes (st1 i d.n d.map it) 514 := by
  unfold decodePortable
  simp only []
  refine Runs.bind0 (Runs.alloc _ _ 514) ?_
  by_cases h0 : it.decoderType = 0
  · rw [if_pos (by simp [st0, h0])]
    refine Runs.bind' (Runs.bytes _ _ 514 (h.raw h0)) (List.append_nil _).symm ?_
    refine Runs.of_eq (Runs.pure _ 514) rfl rfl ?_
    simp [st1, st0, h0, DecoderItem.n]
  · rw [if_neg (by simpa [st0] using h0)]
    refine Runs.bind' (h.values h0) (List.append_nil _).symm ?_
    simp only []
    rw [if_neg (by decide)]
    refine Runs.of_eq (Runs.pure _ 514) rfl rfl ?_
    simp [st1, st0, h0, DecoderItem.n]


theorem runs_decodePortables (opts : DecOpts) (posAtt : Option Nat) (all : Array EbAttState) (mesh : Mesh)
    (d : DecoderItem) (i : Nat) (done : List EbAttState) : ∀ (suf pre : List AttItem),
    (∀ k (hk : k < suf.length), ValuesOK mesh d
      (parentExpr opts posAtt all (done ++ (pre ++ suf.take k).map (st1 i d.n d.map))) suf[k]) →
    Runs (decodePortables 514 opts.skip posAtt all ⟨viewOfDecoder mesh d.dec, d.seq.d2c, d.seq.v2d⟩ d.seq.pointIds d.map
      done (suf.map (st0 i)) (pre.map (st1 i d.n d.map))) 514 (suf.flatMap (·.valueBytes))
      ((pre ++ suf).map (st1 i d.n d.map)) 514 := by
  intro suf
  induction suf with
  | nil =>
    intro pre _
    simp only [List.map_nil, decodePortables, List.flatMap_nil, List.append_nil]
    exact Runs.pure _ 514
  | cons it suf ih =>
    intro pre h
    simp only [List.map_cons, decodePortables, List.flatMap_cons]
    have h0 := h 0 (by simp)
    simp only [List.take_zero, List.append_nil, List.getElem_cons_zero] at h0
    refine Runs.bind (runs_decodePortable opts posAtt all mesh d i _ it h0) ?_
    have := ih (pre ++ [it]) (fun k hk => by
      have := h (k + 1) (by simp; omega)
      simpa using this)
    simpa using this

theorem flatten_map_nil {α : Type} (l : List α) : (l.map fun _ => ([] : Bytes)).flatten = [] := by
  induction l with
  | nil => rfl
  | cons x xs ih => simp

theorem runs_decodeDataNeeded (opts : DecOpts) (i n : Nat) (m : Array Nat) (it : AttItem) (h : ParamOK opts it) :
    Runs (decodeDataNeeded 514 (st1 i n m it)) 514 it.paramBytes (st2 i n m it) 514 := by
  unfold decodeDataNeeded
  rw [if_pos (by decide)]
  refine Runs.bind' (h.params) (List.append_nil _).symm ?_
  by_cases h23 : (it.decoderType == 2 || it.decoderType == 3) = true
  · rw [if_pos (by simpa [st1] using h23)]
    refine Runs.of_eq (Runs.pure _ 514) rfl rfl ?_
    simp only [st2, AttItem.finalTransform, h23, if_true]
  · rw [if_neg (by simpa [st1] using h23)]
    refine Runs.of_eq (Runs.pure _ 514) rfl rfl ?_
    simp only [st2, AttItem.finalTransform, h23, Bool.false_eq_true, if_false]
    rfl

theorem runs_storeValuesCheck (opts : DecOpts) (i n : Nat) (m : Array Nat) (it : AttItem) (hd : DescOK it)
    (h : ParamOK opts it) (hs : opts.skip.contains it.desc.attType = false) :
    Runs (storeValuesCheck (st2 i n m it).toSeq) 514 [] () 514 := by
  unfold storeValuesCheck
  by_cases h1 : it.decoderType = 1
  · rw [if_pos (by simp [EbAttState.toSeq, st2, st1, h1])]
    refine Runs.require ?_ 514
    have := h.store1 h1 hs
    have := hd.dataType.1
    simp [EbAttState.toSeq, st2, st1]
    omega
  · rw [if_neg (by simpa [EbAttState.toSeq, st2, st1] using h1)]
    by_cases h3 : it.decoderType = 3
    · rw [if_pos (by simp [EbAttState.toSeq, st2, st1, h3])]
      obtain ⟨bits, hb, hr⟩ := h.tr3 h3
      have ht : (st2 i n m it).toSeq.transform = .octahedron bits := by
        simp [EbAttState.toSeq, st2, AttItem.finalTransform, h3, hb]
      rw [ht]
      simp only []
      refine Runs.require ?_ 514
      have := hr hs
      simp
      omega
    · rw [if_neg (by simpa [EbAttState.toSeq, st2, st1] using h3)]
      exact Runs.pure _ 514

theorem runs_transformCheck (opts : DecOpts) (i n : Nat) (m : Array Nat) (it : AttItem) (hd : DescOK it)
    (h : ParamOK opts it) :
    Runs (transformCheck opts 514 (st2 i n m it)) 514 [] (st3 i n m it) 514 := by
  unfold transformCheck
  simp only []
  by_cases hc : (decide (514 ≥ bsVersion 2 0) && (st2 i n m it).decoderType != 0 &&
      !opts.skip.contains (st2 i n m it).desc.attType) = true
  · rw [if_pos hc]
    have hs : opts.skip.contains it.desc.attType = false := by
      simp only [Bool.and_eq_true, Bool.not_eq_true'] at hc
      exact hc.2
    refine Runs.bind0 (runs_storeValuesCheck opts i n m it hd h hs) ?_
    exact Runs.pure _ 514
  · rw [if_neg hc]
    exact Runs.pure _ 514


/-- **one attributes decoder** (`SequentialAttributeDecodersController::DecodeAttributes`) -/
theorem runs_decodeOneDecoder (opts : DecOpts) (mesh : Mesh) (posAtt : Option Nat) (all : Array EbAttState)
    (i : Nat) (d : DecoderItem) (done : List EbAttState) (hd : DecoderOK mesh d)
    (hdesc : ∀ it ∈ d.items, DescOK it ∧ ParamOK opts it)
    (hvals : ∀ k (hk : k < d.items.length), ValuesOK mesh d
      (parentExpr opts posAtt all (done ++ (d.items.take k).map (st1 i d.n d.map))) d.items[k]) :
    Runs (decodeOneDecoder opts 514 mesh posAtt all i d.dec (d.items.map (st0 i)) done) 514 d.dataBytes
      (done ++ d.items.map (st3 i d.n d.map)) 514 := by
  unfold decodeOneDecoder DecoderItem.dataBytes
  simp only []
  refine Runs.bind0 (Runs.alloc _ _ 514) ?_
  refine Runs.bind0 (Runs.liftR hd.seq 514) ?_
  refine Runs.bind0 (Runs.tag _ 514) ?_
  have hne : ¬ (List.map (st0 i) d.items).isEmpty = true := by
    have := hd.nonempty
    cases hitems : d.items with
    | nil => exact absurd hitems this
    | cons x xs => simp
  have hport := runs_decodePortables opts posAtt all mesh d i done d.items [] (by simpa using hvals)
  by_cases hi : i > 0
  on_goal 1 => rw [if_pos hi]; refine Runs.bind0 (Runs.tag _ 514) ?_
  on_goal 2 => rw [if_neg hi]
  all_goals
    rw [if_neg hne]
    refine Runs.bind0 (Runs.alloc _ _ 514) ?_
    refine Runs.bind0 (Runs.liftR hd.map 514) ?_
    refine Runs.bind hport ?_
    rw [List.nil_append, List.flatMap_def]
    refine Runs.bind' (RunsAll.mapM' (RunsAll.of_map d.items (st1 i d.n d.map) (·.paramBytes) (st2 i d.n d.map)
      (fun it hit => runs_decodeDataNeeded opts i d.n d.map it (hdesc it hit).2))) (List.append_nil _).symm ?_
    refine Runs.bind' (RunsAll.mapM' (RunsAll.of_map d.items (st2 i d.n d.map) (fun _ => []) (st3 i d.n d.map)
      (fun it hit => runs_transformCheck opts i d.n d.map it (hdesc it hit).1 (hdesc it hit).2)))
      (by rw [flatten_map_nil]; rfl) ?_
    exact Runs.pure _ 514


/-! ### loop 3: all decoders -/

/-- the attributes of the decoders `i, i+1, …` after `DecodeAttributes` -/
def st3All : Nat → AttPlan → List EbAttState
  | _, [] => []
  | i, d :: ds => d.items.map (st3 i d.n d.map) ++ st3All (i + 1) ds

/-- the work list of `decodeAttributes` -/
def workOf : Nat → AttPlan → List (Nat × AttDecoder × List EbAttState)
  | _, [] => []
  | i, d :: ds => (i, d.dec, d.items.map (st0 i)) :: workOf (i + 1) ds

/-- the hypotheses of the decoders `i, i+1, …` when `done` has been decoded before them -/
def DecodersOK (opts : DecOpts) (mesh : Mesh) (posAtt : Option Nat) (all : Array EbAttState) :
    Nat → List EbAttState → AttPlan → Prop
  | _, _, [] => True
  | i, done, d :: ds =>
    DecoderOK mesh d ∧ (∀ it ∈ d.items, DescOK it ∧ ParamOK opts it) ∧
    (∀ k (hk : k < d.items.length), ValuesOK mesh d
      (parentExpr opts posAtt all (done ++ (d.items.take k).map (st1 i d.n d.map))) d.items[k]) ∧
    DecodersOK opts mesh posAtt all (i + 1) (done ++ d.items.map (st3 i d.n d.map)) ds

theorem runs_decodeDecoders (opts : DecOpts) (mesh : Mesh) (posAtt : Option Nat) (all : Array EbAttState) :
    ∀ (ds : AttPlan) (i : Nat) (done : List EbAttState), DecodersOK opts mesh posAtt all i done ds →
    Runs (decodeDecoders opts 514 mesh posAtt all (workOf i ds) done) 514 (ds.flatMap DecoderItem.dataBytes)
      (done ++ st3All i ds) 514 := by
  intro ds
  induction ds with
  | nil =>
    intro i done _
    simp only [workOf, decodeDecoders, List.flatMap_nil, st3All, List.append_nil]
    exact Runs.pure _ 514
  | cons d ds ih =>
    intro i done h
    obtain ⟨h1, h2, h3, h4⟩ := h
    simp only [workOf, decodeDecoders, List.flatMap_cons, st3All]
    refine Runs.bind (runs_decodeOneDecoder opts mesh posAtt all i d done h1 h2 h3) ?_
    rw [← List.append_assoc]
    exact ih (i + 1) _ h4

theorem work_eq : ∀ (ds : AttPlan) (i : Nat),
    (List.range' i ds.length).zip ((ds.map (·.dec)).zip (st0Lists i ds)) = workOf i ds := by
  intro ds
  induction ds with
  | nil => intro i; rfl
  | cons d ds ih =>
    intro i
    simp only [List.length_cons, List.range'_succ, List.map_cons, st0Lists, List.zip_cons_cons, workOf, ih]


/-! ### the public attributes -/

theorem runs_finish (opts : DecOpts) (i n : Nat) (m : Array Nat) (it : AttItem) (hd : DescOK it) (h : ParamOK opts it) :
    Runs (finishSeqAttribute opts (st3 i n m it).toSeq (st3 i n m it).numValues (some (st3 i n m it).map.toList)) 514 []
      (it.attribute opts n m) 514 := by
  unfold finishSeqAttribute AttItem.attribute
  simp only []
  have e1 : (st3 i n m it).toSeq.decoderType = it.decoderType := rfl
  have e2 : (st3 i n m it).toSeq.desc = it.desc := rfl
  have e3 : (st3 i n m it).numValues = n := rfl
  have e4 : (st3 i n m it).map = m := rfl
  have e5 : (st3 i n m it).toSeq.transform = it.finalTransform := rfl
  rw [e1, e2, e3, e4, e5]
  by_cases h0 : it.decoderType = 0
  · have : (it.decoderType == 0) = true := by simp [h0]
    rw [if_pos this, if_pos this]
    refine Runs.of_eq (Runs.pure _ 514) rfl rfl ?_
    simp [EbAttState.toSeq, st3, st2, st1, h0]
  · have hb : (it.decoderType == 0) = false := by simpa using h0
    have e6 : (st3 i n m it).toSeq.portable = it.portable.toList := by
      simp [EbAttState.toSeq, st3, st2, st1, hb]
    have hb' : ¬ (it.decoderType == 0) = true := by simp [hb]
    rw [if_neg hb', if_neg hb', e6]
    by_cases hs : opts.skip.contains it.desc.attType = true
    · rw [if_pos hs, if_pos hs]
      exact Runs.pure _ 514
    · rw [if_neg hs, if_neg hs]
      have hty := hd.decoderType
      by_cases h1 : it.decoderType = 1
      · rw [h1]
        exact Runs.pure _ 514
      · by_cases h2 : it.decoderType = 2
        · obtain ⟨bits, mins, range, ht⟩ := h.tr2 h2
          have : it.finalTransform = it.transform := by simp [AttItem.finalTransform, h2]
          rw [this, h2, ht]
          exact Runs.pure _ 514
        · have h3 : it.decoderType = 3 := by omega
          obtain ⟨bits, ht, -⟩ := h.tr3 h3
          have : it.finalTransform = it.transform := by simp [AttItem.finalTransform, h3]
          rw [this, h3, ht]
          exact Runs.pure _ 514

theorem RunsAll.append {α β : Type} {f : α → DecM β} {v : Nat} {xs xs' : List α} {bs bs' : List Bytes} {ys ys' : List β}
    (h : RunsAll f v xs bs ys) (h' : RunsAll f v xs' bs' ys') : RunsAll f v (xs ++ xs') (bs ++ bs') (ys ++ ys') := by
  induction h with
  | nil => exact h'
  | cons h1 _ ih => exact .cons h1 ih

theorem runsAll_finish (opts : DecOpts) : ∀ (ds : AttPlan) (i : Nat),
    (∀ d ∈ ds, ∀ it ∈ d.items, DescOK it ∧ ParamOK opts it) →
    RunsAll (fun (s : EbAttState) => finishSeqAttribute opts s.toSeq s.numValues (some s.map.toList)) 514
      (st3All i ds) ((st3All i ds).map fun _ => []) (ds.flatMap (DecoderItem.attributes opts)) := by
  intro ds
  induction ds with
  | nil => intro i _; exact .nil
  | cons d ds ih =>
    intro i h
    simp only [st3All, List.map_append, List.flatMap_cons, List.map_map]
    refine RunsAll.append ?_ (ih (i + 1) (fun d' hd' => h d' (by simp [hd'])))
    exact RunsAll.of_map d.items (st3 i d.n d.map) (fun _ => []) (AttItem.attribute opts d.n d.map)
      (fun it hit => runs_finish opts i d.n d.map it (h d (by simp) it hit).1 (h d (by simp) it hit).2)


/-! ### the composition -/

/-- every attribute as `DecodeAttributesDecoderData` leaves it, by global id -/
def AttPlan.all (plan : AttPlan) : Array EbAttState := (st0Lists 0 plan).flatten.toArray

/-- `GetNamedAttributeId(POSITION)` as `decodeAttributes` computes it -/
def codePosAtt (all : Array EbAttState) : Option Nat :=
  (List.range all.size).find? fun k => (all[k]!).desc.attType == Generated.geometryAttribute_POSITION.toNat

theorem find?_congr' {α : Type} (p q : α → Bool) : ∀ (l : List α), (∀ x ∈ l, p x = q x) → l.find? p = l.find? q := by
  intro l
  induction l with
  | nil => intro _; rfl
  | cons x xs ih =>
    intro h
    simp only [List.find?_cons, h x (by simp), ih (fun y hy => h y (by simp [hy]))]

theorem find_range_congr {α β : Type} [Inhabited α] [Inhabited β] (l1 : List α) (l2 : List β) (p : α → Bool)
    (q : β → Bool) (h : l1.map p = l2.map q) :
    (List.range l1.length).find? (fun k => p l1[k]!) = (List.range l2.length).find? (fun k => q l2[k]!) := by
  have hlen : l1.length = l2.length := by simpa using congrArg List.length h
  rw [hlen]
  apply find?_congr'
  intro k hk
  have hk2 : k < l2.length := by simpa using hk
  have hk1 : k < l1.length := by omega
  have : (l1.map p)[k]'(by simpa using hk1) = (l2.map q)[k]'(by simpa using hk2) := by simp only [h]
  simpa [hk1, hk2] using this

theorem parentOf_st1 (opts : DecOpts) (i n : Nat) (m : Array Nat) (it : AttItem) :
    parentOf 514 opts.skip (st1 i n m it) = parentOfItem m it := by
  unfold parentOf parentOfItem
  simp only []
  rw [if_pos (by decide)]
  by_cases h0 : it.decoderType = 0
  · simp [st1, h0]
  · simp [st1, h0]

theorem parentOf_st3 (opts : DecOpts) (i n : Nat) (m : Array Nat) (it : AttItem) :
    parentOf 514 opts.skip (st3 i n m it) = parentOfItem m it := parentOf_st1 opts i n m it

theorem st3All_map_parent (opts : DecOpts) : ∀ (ds : AttPlan) (i : Nat),
    (st3All i ds).map (parentOf 514 opts.skip) = (AttPlan.flat ds).map (fun p => parentOfItem p.1 p.2) := by
  intro ds
  induction ds with
  | nil => intro i; rfl
  | cons d ds ih =>
    intro i
    simp only [st3All, List.map_append, AttPlan.flat, List.flatMap_cons, List.map_map]
    rw [← AttPlan.flat, ← ih (i + 1)]
    congr 1
    apply List.map_congr_left
    intro it _
    exact parentOf_st3 opts i d.n d.map it

theorem st0Lists_flatten_map {β : Type} (g : EbAttState → β) (g' : AttItem → β) (hg : ∀ i it, g (st0 i it) = g' it) :
    ∀ (ds : AttPlan) (i : Nat), (st0Lists i ds).flatten.map g = ds.flatMap (fun d => d.items.map g') := by
  intro ds
  induction ds with
  | nil => intro i; rfl
  | cons d ds ih =>
    intro i
    simp only [st0Lists, List.flatten_cons, List.map_append, List.flatMap_cons, ih (i + 1), List.map_map]
    congr 1
    apply List.map_congr_left
    intro it _
    exact hg i it

theorem flat_map {β : Type} (g : AttItem → β) (ds : AttPlan) :
    (AttPlan.flat ds).map (fun p => g p.2) = ds.flatMap (fun d => d.items.map g) := by
  simp only [AttPlan.flat, List.map_flatMap, List.map_map]
  rfl

theorem codePosAtt_eq (plan : AttPlan) : codePosAtt plan.all = plan.posAtt := by
  unfold codePosAtt AttPlan.posAtt AttPlan.all
  have := find_range_congr (st0Lists 0 plan).flatten plan.flat
    (fun s => s.desc.attType == Generated.geometryAttribute_POSITION.toNat)
    (fun p => p.2.desc.attType == Generated.geometryAttribute_POSITION.toNat) (by
      rw [st0Lists_flatten_map _ (fun it => it.desc.attType == Generated.geometryAttribute_POSITION.toNat) (fun _ _ => rfl),
        flat_map (fun it => it.desc.attType == Generated.geometryAttribute_POSITION.toNat)])
  simpa using this

theorem all_hasPortable (plan : AttPlan) (k : Nat) (hk : k < plan.all.size) : (plan.all[k]!).hasPortable = false := by
  have h := st0Lists_flatten_map (fun s => s.hasPortable) (fun _ => false) (fun _ _ => rfl) plan 0
  unfold AttPlan.all at hk ⊢
  have hk' : k < (st0Lists 0 plan).flatten.length := by simpa using hk
  have h1 : ((st0Lists 0 plan).flatten.map fun s => s.hasPortable)[k]'(by rw [List.length_map]; exact hk') = false := by
    simp only [h]
    have : ∀ x ∈ plan.flatMap (fun d => d.items.map fun _ => false), x = false := by
      intro x hx
      simp only [List.mem_flatMap, List.mem_map] at hx
      obtain ⟨_, _, _, _, rfl⟩ := hx
      rfl
    exact this _ (List.getElem_mem _)
  rw [List.getElem_map] at h1
  have e : (st0Lists 0 plan).flatten.toArray[k]! = (st0Lists 0 plan).flatten[k] := by
    rw [getElem!_pos _ k (by simpa using hk')]
    rfl
  rw [e]
  exact h1

theorem flat_append (a b : AttPlan) : AttPlan.flat (a ++ b) = AttPlan.flat a ++ AttPlan.flat b := by
  simp [AttPlan.flat]

theorem flat_cons (d : DecoderItem) (ds : AttPlan) :
    AttPlan.flat (d :: ds) = d.items.map (fun it => (d.map, it)) ++ AttPlan.flat ds := by
  simp [AttPlan.flat]

theorem offset_eq (pre suf : AttPlan) : AttPlan.offset (pre ++ suf) pre.length = (AttPlan.flat pre).length := by
  unfold AttPlan.offset
  rw [List.take_left']
  · induction pre with
    | nil => rfl
    | cons d ds ih => simp [flat_cons, ih]
  · rfl

theorem st3All_append : ∀ (a b : AttPlan) (i : Nat), st3All i (a ++ b) = st3All i a ++ st3All (i + a.length) b := by
  intro a
  induction a with
  | nil => intro b i; simp [st3All]
  | cons d ds ih =>
    intro b i
    simp only [List.cons_append, st3All, ih, List.append_assoc, List.length_cons]
    rw [show i + 1 + ds.length = i + (ds.length + 1) by omega]

/-- the parent attribute `decodePortable` computes is `parentAt` -/
theorem parentExpr_eq (opts : DecOpts) (pre suf : AttPlan) (d : DecoderItem) (k : Nat) (hk : k ≤ d.items.length) :
    parentExpr opts (codePosAtt (pre ++ d :: suf).all) (pre ++ d :: suf).all
      (st3All 0 pre ++ (d.items.take k).map (st1 pre.length d.n d.map)) = parentAt (pre ++ d :: suf) pre.length k := by
  unfold parentExpr parentAt
  rw [codePosAtt_eq, offset_eq]
  generalize hD : st3All 0 pre ++ (d.items.take k).map (st1 pre.length d.n d.map) = D
  generalize hplan : pre ++ d :: suf = plan
  generalize hg : (AttPlan.flat pre).length + k = g
  have hmap : D.map (parentOf 514 opts.skip) = (plan.flat.take g).map (fun p => parentOfItem p.1 p.2) := by
    have ht : plan.flat.take g = AttPlan.flat pre ++ (d.items.take k).map (fun it => (d.map, it)) := by
      rw [← hplan, ← hg, flat_append, flat_cons, List.take_length_add_append,
        List.take_append_of_le_length (by simpa using hk), List.map_take]
    rw [ht, ← hD, List.map_append, List.map_append, st3All_map_parent, List.map_map, List.map_map]
    congr 1
    apply List.map_congr_left
    intro it _
    exact parentOf_st1 opts pre.length d.n d.map it
  have hgle : g ≤ plan.flat.length := by
    rw [← hplan, ← hg, flat_append, flat_cons]
    simp
    omega
  have hDlen : D.length = g := by
    have := congrArg List.length hmap
    simp only [List.length_map, List.length_take] at this
    omega
  cases hp : plan.posAtt with
  | none => rfl
  | some pk =>
    simp only []
    have hpk : pk < plan.flat.length := by
      unfold AttPlan.posAtt at hp
      have := List.mem_of_find?_eq_some hp
      simpa using this
    unfold lookupState
    by_cases hlt : pk < g
    · rw [if_pos hlt]
      have h1 : (D[pk]?).map (parentOf 514 opts.skip) =
          ((plan.flat.take g)[pk]?).map (fun p => parentOfItem p.1 p.2) := by
        rw [← List.getElem?_map, ← List.getElem?_map, hmap]
      rw [List.getElem?_take, if_pos hlt, List.getElem?_eq_getElem hpk,
        List.getElem?_eq_getElem (by omega)] at h1
      simp only [Option.map_some, Option.some.injEq] at h1
      rw [List.getElem?_eq_getElem (by omega), Option.getD_some, h1]
      simp [hpk]
    · rw [if_neg hlt, List.getElem?_eq_none (by omega), Option.getD_none]
      have hsz : plan.all.size = plan.flat.length := by
        have h1 := st0Lists_flatten_map (fun _ => ()) (fun _ => ()) (fun _ _ => rfl) plan 0
        have h2 := flat_map (fun _ => ()) plan
        have := congrArg List.length (h1.trans h2.symm)
        rw [List.length_map, List.length_map] at this
        simpa [AttPlan.all] using this
      have := all_hasPortable plan pk (by omega)
      unfold parentOf
      simp only []
      rw [if_pos (by decide), this]
      rfl

/-- `parentAt` when the POSITION attribute has been decoded by an integer / quantization / normal decoder -/
theorem parentAt_some (plan : AttPlan) (i k pk : Nat) (hp : plan.posAtt = some pk) (hlt : pk < plan.offset i + k)
    (h0 : (plan.flat[pk]!).2.decoderType ≠ 0) :
    parentAt plan i k = some
      { numComponents := if (plan.flat[pk]!).2.decoderType == 3 then 2 else (plan.flat[pk]!).2.desc.numComponents,
        map := (plan.flat[pk]!).1, ints := (plan.flat[pk]!).2.portable, intsOk := true,
        floats := (plan.flat[pk]!).2.portable.map Float32.ofInt, floatsOk := true } := by
  unfold parentAt
  rw [hp]
  simp only []
  rw [if_pos hlt]
  unfold parentOfItem
  rw [if_neg (by simpa using h0)]

/-- `parentAt` when there is no POSITION attribute or it has not been decoded yet -/
theorem parentAt_none (plan : AttPlan) (i k : Nat)
    (h : ∀ pk, plan.posAtt = some pk → plan.offset i + k ≤ pk) : parentAt plan i k = none := by
  unfold parentAt
  cases hp : plan.posAtt with
  | none => rfl
  | some pk =>
    simp only []
    rw [if_neg (by have := h pk hp; omega)]

theorem decodersOK_aux (opts : DecOpts) (mesh : Mesh) (plan : AttPlan) (h : PlanOK opts mesh plan) :
    ∀ (suf pre : AttPlan), plan = pre ++ suf →
    DecodersOK opts mesh (codePosAtt plan.all) plan.all pre.length (st3All 0 pre) suf := by
  intro suf
  induction suf with
  | nil => intro pre _; trivial
  | cons d suf ih =>
    intro pre hplan
    have hi : pre.length < plan.length := by rw [hplan]; simp
    have hd : plan[pre.length] = d := by simp [hplan]
    refine ⟨h.decoder d (by rw [hplan]; simp), fun it hit => ?_, fun k hk => ?_, ?_⟩
    · obtain ⟨k, hk, rfl⟩ := List.getElem_of_mem hit
      have := h.item pre.length k hi (by rw [hd]; exact hk)
      simp only [hd] at this
      exact ⟨this.toDescOK, this.toParamOK⟩
    · have := (h.item pre.length k hi (by rw [hd]; exact hk)).toValuesOK
      simp only [hd] at this
      have e := parentExpr_eq opts pre suf d k (by omega)
      rw [← hplan] at e
      rw [e]
      exact this
    · have := ih (pre ++ [d]) (by rw [hplan]; simp)
      rw [st3All_append, List.length_append] at this
      simpa [st3All] using this

theorem decodersOK_of_planOK (opts : DecOpts) (mesh : Mesh) (plan : AttPlan) (h : PlanOK opts mesh plan) :
    DecodersOK opts mesh (codePosAtt plan.all) plan.all 0 [] plan :=
  decodersOK_aux opts mesh plan h plan [] rfl

theorem runs_decodeAttributes (opts : DecOpts) (mesh : Mesh) (plan : AttPlan) (h : PlanOK opts mesh plan) :
    Runs (decodeAttributes opts 514 mesh) 514 plan.bytes (plan.attributes opts) 514 := by
  have hitems : ∀ d ∈ plan, ∀ it ∈ d.items, DescOK it ∧ ParamOK opts it := by
    intro d hd it hit
    obtain ⟨i, hi, rfl⟩ := List.getElem_of_mem hd
    obtain ⟨k, hk, rfl⟩ := List.getElem_of_mem hit
    have := h.item i k hi hk
    exact ⟨this.toDescOK, this.toParamOK⟩
  unfold decodeAttributes AttPlan.bytes
  refine Runs.remaining_bind (fun rem0 _ => ?_)
  refine Runs.bind0 (Runs.tag _ 514) ?_
  refine Runs.bind1 (Runs.rdU8 _ 514) ?_
  refine Runs.bind (runs_createAttributeDecoders mesh plan h.ids h.decoder) ?_
  refine Runs.bind0 (Runs.alloc _ _ 514) ?_
  rw [List.flatMap_def (l := plan) (f := DecoderItem.headBytes), List.range_eq_range']
  refine Runs.bind (RunsAll.mapM' (runsAll_decoderDescs plan 0 (fun d hd =>
    ⟨(h.decoder d hd).nonempty, (h.decoder d hd).count, fun it hit => (hitems d hd it hit).1⟩))) ?_
  simp only []
  rw [work_eq]
  refine Runs.bind' (runs_decodeDecoders opts mesh _ _ plan 0 [] (decodersOK_of_planOK opts mesh plan h))
    (List.append_nil _).symm ?_
  rw [List.nil_append]
  have := RunsAll.mapM' (runsAll_finish opts plan 0 hitems)
  rw [flatten_map_nil] at this
  exact this

end Draco.EbEnc
