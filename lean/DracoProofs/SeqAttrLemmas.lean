import DracoProofs.SeqLemmas
import DracoProofs.Octahedron
import Mathlib.Tactic.IntervalCases
/-
  Portable attributes of the sequential encoders: value rows, integer conversion, quantized and
  octahedral values — lengths, ranges and the identity `StoreValues ∘ PrepareValues = id`.
-/
namespace Draco
open SeqEnc

/-! ### value rows -/

theorem valueAt_length (vals : Array Nat) (stride idx : Nat) (h : idx * stride + stride ≤ vals.size) :
    (valueAt vals stride idx).length = stride := by
  unfold valueAt
  rw [Array.length_toList, Array.size_extract]
  omega

theorem pointRows_spec (a : Attribute) (n : Nat) (hv : a.valid n = true) :
    (pointRows a n).length = n ∧ ∀ r ∈ pointRows a n, r.length = a.stride := by
  unfold Attribute.valid at hv
  simp only [Bool.and_eq_true, decide_eq_true_eq] at hv
  obtain ⟨⟨⟨_, _⟩, hlen⟩, hmap⟩ := hv
  have hrow : ∀ idx, idx < a.numValues → (valueAt a.values.toArray a.stride idx).length = a.stride := by
    intro idx hi
    apply valueAt_length
    rw [List.size_toArray]
    have : (idx + 1) * a.stride ≤ a.numValues * a.stride := Nat.mul_le_mul_right _ hi
    rw [Nat.succ_mul] at this
    omega
  unfold pointRows
  cases hm : a.map with
  | none =>
    rw [hm] at hmap
    simp only [ge_iff_le, decide_eq_true_eq] at hmap
    refine ⟨by simp, fun r hr => ?_⟩
    simp only [List.mem_map, List.mem_range] at hr
    obtain ⟨p, hp, rfl⟩ := hr
    exact hrow p (by omega)
  | some m =>
    rw [hm] at hmap
    simp only [Bool.and_eq_true, beq_iff_eq, List.all_eq_true, decide_eq_true_eq] at hmap
    obtain ⟨hml, hmall⟩ := hmap
    refine ⟨by simp [hml], fun r hr => ?_⟩
    simp only [List.mem_map] at hr
    obtain ⟨p, hp, rfl⟩ := hr
    exact hrow p (hmall p (List.mem_of_mem_take hp))

theorem flatten_length_uniform {α : Type} (k : Nat) : ∀ (ls : List (List α)), (∀ e ∈ ls, e.length = k) →
    ls.flatten.length = ls.length * k := by
  intro ls
  induction ls with
  | nil => simp
  | cons e es ih =>
    intro h
    simp only [List.flatten_cons, List.length_append, h e (by simp), List.length_cons,
      ih (fun x hx => h x (by simp [hx])), Nat.succ_mul]
    omega

/-! ### integer conversion -/

theorem leValue_lt : ∀ (b : Bytes), IsBytes b → leValue b < 256 ^ b.length := by
  intro b
  induction b with
  | nil => intro _; simp [leValue]
  | cons x xs ih =>
    intro h
    have hx : x < 256 := h x (by simp)
    have := ih (fun y hy => h y (by simp [hy]))
    simp only [leValue, List.length_cons, Nat.pow_succ]
    omega

theorem writeLE_leValue : ∀ (b : Bytes), IsBytes b → writeLE b.length (leValue b) = b := by
  intro b
  induction b with
  | nil => intro _; rfl
  | cons x xs ih =>
    intro h
    have hx : x < 256 := h x (by simp)
    have := ih (fun y hy => h y (by simp [hy]))
    simp only [leValue, List.length_cons, writeLE, List.cons.injEq]
    refine ⟨by omega, ?_⟩
    have e : (x + 256 * leValue xs) / 256 = leValue xs := by omega
    rw [e, this]

theorem writeLE_mod (n : Nat) : ∀ w, writeLE n (w % 256 ^ n) = writeLE n w := by
  induction n with
  | zero => intro w; rfl
  | succ n ih =>
    intro w
    simp only [writeLE, List.cons.injEq]
    have h1 : w % 256 ^ (n + 1) % 256 = w % 256 := by
      rw [Nat.pow_succ, Nat.mul_comm]; exact Nat.mod_mul_right_mod _ _ _
    have h2 : w % 256 ^ (n + 1) / 256 = (w / 256) % 256 ^ n := by
      rw [Nat.pow_succ, Nat.mul_comm, Nat.mod_mul_right_div_self]
    rw [h1, h2, ih]
    exact ⟨rfl, rfl⟩

theorem signed_roundtrip (len : Nat) (hl : len = 1 ∨ len = 2 ∨ len = 4) (u : Nat) (hu : u < 256 ^ len) :
    toUnsigned 32 (toSigned (8 * len) u) % 256 ^ len = u ∧
      -2 ^ 31 ≤ toSigned (8 * len) u ∧ toSigned (8 * len) u < 2 ^ 31 := by
  unfold toUnsigned toSigned
  rcases hl with rfl | rfl | rfl
  · have e1 : (2:Nat) ^ (8 * 1) = 256 := by decide
    have e2 : (2:Nat) ^ (8 * 1 - 1) = 128 := by decide
    have e3 : (2:Nat) ^ 32 = 4294967296 := by decide
    have e4 : (256:Nat) ^ 1 = 256 := by decide
    rw [e4] at hu
    simp only [e1, e2, e4]
    split <;> omega
  · have e1 : (2:Nat) ^ (8 * 2) = 65536 := by decide
    have e2 : (2:Nat) ^ (8 * 2 - 1) = 32768 := by decide
    have e3 : (2:Nat) ^ 32 = 4294967296 := by decide
    have e4 : (256:Nat) ^ 2 = 65536 := by decide
    rw [e4] at hu
    simp only [e1, e2, e3, e4]
    split <;> omega
  · have e1 : (2:Nat) ^ (8 * 4) = 4294967296 := by decide
    have e2 : (2:Nat) ^ (8 * 4 - 1) = 2147483648 := by decide
    have e3 : (2:Nat) ^ 32 = 4294967296 := by decide
    have e4 : (256:Nat) ^ 4 = 4294967296 := by decide
    rw [e4] at hu
    simp only [e1, e2, e4]
    split <;> omega

theorem unsigned_roundtrip (u : Nat) (hu : ¬ u > 2 ^ 31 - 1) : toUnsigned 32 (u : Int) = u := by
  unfold toUnsigned
  have e3 : (2:Nat) ^ 32 = 4294967296 := by decide
  simp only [e3]
  omega

theorem convertComponent_spec (dt : Nat) (hdt : 1 ≤ dt ∧ dt ≤ 6) (b : Bytes)
    (hb : b.length = dataTypeLength dt) (hB : IsBytes b) (v : Int)
    (h : convertComponent dt b = some v) :
    intToLE (dataTypeLength dt) v = b ∧ -2 ^ 31 ≤ v ∧ v < 2 ^ 31 := by
  have hu := leValue_lt b hB
  have hw := writeLE_leValue b hB
  have key : ∀ w : Nat, w % 256 ^ b.length = leValue b → writeLE b.length w = b := by
    intro w hw'
    rw [← writeLE_mod, hw', hw]
  unfold convertComponent at h
  unfold intToLE
  rw [← hb]
  have hlen : b.length = 1 ∨ b.length = 2 ∨ b.length = 4 := by
    obtain ⟨h1, h6⟩ := hdt
    rw [hb]
    interval_cases dt <;> decide
  by_cases hs : isSignedType dt = true
  · simp only [hs, if_true, Option.some.injEq] at h
    subst h
    obtain ⟨r1, r2, r3⟩ := signed_roundtrip b.length hlen (leValue b) hu
    exact ⟨key _ r1, r2, r3⟩
  · simp only [hs, Bool.false_eq_true, if_false] at h
    split at h
    · cases h
    · rename_i hgt
      simp only [Option.some.injEq] at h
      subst h
      rw [unsigned_roundtrip _ hgt]
      refine ⟨key _ (Nat.mod_eq_of_lt hu), by omega, by omega⟩

theorem convertRow_spec (dt : Nat) (hdt : 1 ≤ dt ∧ dt ≤ 6) : ∀ (nc : Nat) (row : Bytes) (vs : List Int),
    row.length = nc * dataTypeLength dt → IsBytes row →
    convertRow dt (dataTypeLength dt) nc row = some vs →
    vs.length = nc ∧ (vs.map (intToLE (dataTypeLength dt))).flatten = row ∧
      ∀ x ∈ vs, -2 ^ 31 ≤ x ∧ x < 2 ^ 31 := by
  intro nc
  induction nc with
  | zero =>
    intro row vs hl _ h
    simp only [convertRow, Option.some.injEq] at h
    subst h
    have : row = [] := by simpa using hl
    subst this
    simp
  | succ nc ih =>
    intro row vs hl hB h
    simp only [convertRow] at h
    split at h
    · rename_i v vs' hv hvs
      simp only [Option.some.injEq] at h
      subst h
      have hlt : dataTypeLength dt ≤ row.length := by rw [hl, Nat.succ_mul]; omega
      obtain ⟨c1, c2, c3⟩ := convertComponent_spec dt hdt (row.take (dataTypeLength dt))
        (by rw [List.length_take]; omega) (fun x hx => hB x (List.mem_of_mem_take hx)) v hv
      obtain ⟨i1, i2, i3⟩ := ih (row.drop (dataTypeLength dt)) vs'
        (by rw [List.length_drop, hl, Nat.succ_mul]; omega)
        (fun x hx => hB x (List.mem_of_mem_drop hx)) hvs
      refine ⟨by simp [i1], ?_, ?_⟩
      · simp only [List.map_cons, List.flatten_cons, c1, i2, List.take_append_drop]
      · intro x hx
        simp only [List.mem_cons] at hx
        rcases hx with rfl | hx
        · exact ⟨c2, c3⟩
        · exact i3 x hx
    · cases h

/-- `PrepareValues` followed by `StoreValues` is the identity on the value bytes -/
theorem integerPortable_spec (a : Attribute) (hdt : 1 ≤ a.dataType ∧ a.dataType ≤ 6) (n : Nat) :
    ∀ (rows : List Bytes) (portable : List Int), rows.length = n →
    (∀ r ∈ rows, r.length = a.stride ∧ IsBytes r) →
    integerPortable a rows = some portable →
    portable.length = n * a.numComponents ∧
      (portable.map (intToLE (dataTypeLength a.dataType))).flatten = rows.flatten ∧
      ∀ x ∈ portable, -2 ^ 31 ≤ x ∧ x < 2 ^ 31 := by
  intro rows portable hn hrows h
  unfold integerPortable at h
  split at h
  · cases h
  · rename_i vss hvss
    simp only [Option.some.injEq] at h
    subst h
    obtain ⟨hl, hk⟩ := allSome_map _ rows vss hvss
    have hrow : ∀ k (hk1 : k < rows.length) (hk2 : k < vss.length),
        vss[k].length = a.numComponents ∧
        (vss[k].map (intToLE (dataTypeLength a.dataType))).flatten = rows[k] ∧
        ∀ x ∈ vss[k], -2 ^ 31 ≤ x ∧ x < 2 ^ 31 := by
      intro k hk1 hk2
      have hr := hrows rows[k] (List.getElem_mem hk1)
      exact convertRow_spec a.dataType hdt a.numComponents rows[k] vss[k]
        (by rw [hr.1, Attribute.stride, Nat.mul_comm]) hr.2 (hk k hk1 hk2)
    refine ⟨?_, ?_, ?_⟩
    · rw [flatten_length_uniform a.numComponents vss, hl, hn]
      intro e he
      obtain ⟨k, hk2, rfl⟩ := List.getElem_of_mem he
      exact (hrow k (by omega) hk2).1
    · rw [List.map_flatten, List.flatten_flatten]
      congr 1
      apply List.ext_getElem
      · simp [hl]
      · intro k h1 h2
        simp only [List.getElem_map]
        exact (hrow k (by simpa using h2) (by simpa using h1)).2.1
    · intro x hx
      simp only [List.mem_flatten] at hx
      obtain ⟨e, he, hxe⟩ := hx
      obtain ⟨k, hk2, rfl⟩ := List.getElem_of_mem he
      exact (hrow k (by omega) hk2).2.2 x hxe

/-! ### quantized values -/

theorem floorToInt_range (x : Float32) :
    -2 ^ 31 ≤ (FloatOps.floorToInt x : Int) ∧ (FloatOps.floorToInt x : Int) < 2 ^ 31 := by
  show -2 ^ 31 ≤ (if _ then _ else _ : Int) ∧ (if _ then _ else _ : Int) < 2 ^ 31
  split
  · decide
  · exact ⟨Int32.le_toInt _, Int32.toInt_lt _⟩

theorem quantizeBits_range (mins : List Nat) (range q c x : Nat) :
    -2 ^ 31 ≤ Quant.quantizeBits mins range q c x ∧ Quant.quantizeBits mins range q c x < 2 ^ 31 := by
  unfold Quant.quantizeBits Quant.quantize Quant.quantizeFloat
  exact floorToInt_range _

theorem rowF32s_length : ∀ (nc : Nat) (row : Bytes), (rowF32s nc row).length = nc := by
  intro nc
  induction nc with
  | zero => intro row; rfl
  | succ nc ih => intro row; simp [rowF32s, ih]

theorem quantizeRow_spec (mins : List Nat) (range q : Nat) : ∀ (xs : List Nat) (c : Nat),
    (quantizeRow mins range q c xs).length = xs.length ∧
      ∀ v ∈ quantizeRow mins range q c xs, -2 ^ 31 ≤ v ∧ v < 2 ^ 31 := by
  intro xs
  induction xs with
  | nil => intro c; simp [quantizeRow]
  | cons x xs ih =>
    intro c
    obtain ⟨i1, i2⟩ := ih (c + 1)
    refine ⟨by simp [quantizeRow, i1], fun v hv => ?_⟩
    simp only [quantizeRow, List.mem_cons] at hv
    rcases hv with rfl | hv
    · exact quantizeBits_range _ _ _ _ _
    · exact i2 v hv

theorem quantizedPortable_spec (mins : List Nat) (range q nc : Nat) (rows : List Bytes) :
    (quantizedPortable mins range q nc rows).length = rows.length * nc ∧
      ∀ v ∈ quantizedPortable mins range q nc rows, -2 ^ 31 ≤ v ∧ v < 2 ^ 31 := by
  unfold quantizedPortable
  constructor
  · rw [flatten_length_uniform nc]
    · simp
    · intro e he
      simp only [List.mem_map] at he
      obtain ⟨r, _, rfl⟩ := he
      rw [(quantizeRow_spec mins range q _ 0).1, rowF32s_length]
  · intro v hv
    simp only [List.mem_flatten, List.mem_map] at hv
    obtain ⟨e, ⟨r, _, rfl⟩, hve⟩ := hv
    exact (quantizeRow_spec mins range q _ 0).2 v hve

/-! ### `ComputeParameters`: one minimum per component -/

section
variable {F : Type} [FloatOps F]
open Quant

theorem scanRow_length : ∀ (k : Nat) (mn mx v a b : List F), mn.length = k → mx.length = k → v.length = k →
    scanRow mn mx v = some (a, b) → a.length = k ∧ b.length = k := by
  intro k
  induction k with
  | zero =>
    intro mn mx v a b h1 h2 h3 h
    have e1 : mn = [] := by simpa using h1
    subst e1
    simp only [scanRow, Option.some.injEq, Prod.mk.injEq] at h
    obtain ⟨rfl, rfl⟩ := h
    simp
  | succ k ih =>
    intro mn mx v a b h1 h2 h3 h
    match mn, mx, v, h1, h2, h3 with
    | m :: mns, x :: mxs, y :: vs, h1, h2, h3 =>
      simp only [scanRow] at h
      split at h
      · cases h
      · rename_i p q _
        split at h
        · cases h
        · rename_i as bs hrec
          simp only [Option.some.injEq, Prod.mk.injEq] at h
          obtain ⟨rfl, rfl⟩ := h
          obtain ⟨i1, i2⟩ := ih mns mxs vs as bs (by simpa using h1) (by simpa using h2) (by simpa using h3) hrec
          simp [i1, i2]

theorem scanRows_length (k : Nat) : ∀ (rows : List (List F)) (mn mx a b : List F), mn.length = k → mx.length = k →
    (∀ r ∈ rows, r.length = k) → scanRows mn mx rows = some (a, b) → a.length = k := by
  intro rows
  induction rows with
  | nil =>
    intro mn mx a b h1 _ _ h
    simp only [scanRows, Option.some.injEq, Prod.mk.injEq] at h
    obtain ⟨rfl, rfl⟩ := h
    exact h1
  | cons r rs ih =>
    intro mn mx a b h1 h2 hr h
    simp only [scanRows] at h
    split at h
    · cases h
    · rename_i mn' mx' hrow
      obtain ⟨l1, l2⟩ := scanRow_length k mn mx r mn' mx' h1 h2 (hr r (by simp)) hrow
      exact ih mn' mx' a b l1 l2 (fun x hx => hr x (by simp [hx])) h

theorem computeParameters_length (k : Nat) (rows : List (List F)) (p : QParams F)
    (hr : ∀ r ∈ rows, r.length = k) (h : computeParameters k rows = some p) :
    p.minValues.length = k := by
  unfold computeParameters at h
  split at h
  · cases h
  · rename_i first rest
    have hf : (first.take k).length = k := by
      rw [List.length_take, hr first (by simp)]; simp
    dsimp only at h
    split at h
    · cases h
    · rename_i mn mx hs
      split at h
      · cases h
      · simp only [Option.some.injEq] at h
        subst h
        exact scanRows_length k rest _ _ mn mx hf hf (fun r hx => hr r (by simp [hx])) hs
end

theorem bitsOfF32_lt (x : Float32) : Quant.bitsOfF32 x < 2 ^ 32 := by
  show x.toBits.toNat < 2 ^ 32
  exact UInt32.toNat_lt _

/-- the quantization parameters written to the stream are `num_components` float32 patterns, one
    float32 pattern and a bit count in 1..30 — provided explicitly configured parameters are
    float32 patterns -/
theorem quantizationParams_spec (a : Attribute) (o : AttOpts) (mins : List Nat) (range q : Nat)
    (hopt : ∀ org r, o.explicitQuant = some (org, r) → r < 2 ^ 32 ∧ ∀ m ∈ org, m < 2 ^ 32)
    (h : quantizationParams a o = some (mins, range, q)) :
    1 ≤ q ∧ q ≤ 30 ∧ (q : Int) = o.quantBits ∧ mins.length = a.numComponents ∧ range < 2 ^ 32 ∧
      ∀ m ∈ mins, m < 2 ^ 32 := by
  unfold quantizationParams at h
  split at h
  · cases h
  · split at h
    · cases h
    · rename_i h1 hvalid
      have hq : 1 ≤ o.quantBits ∧ o.quantBits ≤ 30 := by
        unfold Quant.isQuantizationValid at hvalid
        simpa using hvalid
      split at h
      · rename_i origin r hex
        simp only [Option.some.injEq, Prod.mk.injEq] at h
        obtain ⟨rfl, rfl, rfl⟩ := h
        obtain ⟨g1, g2⟩ := hopt origin r hex
        refine ⟨by omega, by omega, by omega, ?_, g1, ?_⟩
        · simp only [List.length_append, List.length_take, List.length_replicate]; omega
        · intro m hm
          simp only [List.mem_append, List.mem_replicate] at hm
          rcases hm with hm | ⟨_, rfl⟩
          · exact g2 m (List.mem_of_mem_take hm)
          · decide
      · dsimp only at h
        split at h
        · cases h
        · rename_i mins' range' hc
          simp only [Option.some.injEq, Prod.mk.injEq] at h
          obtain ⟨rfl, rfl, rfl⟩ := h
          unfold Quant.computeParametersBits at hc
          split at hc
          · cases hc
          · rename_i p hp
            simp only [Option.some.injEq, Prod.mk.injEq] at hc
            obtain ⟨rfl, rfl⟩ := hc
            have hl := computeParameters_length a.numComponents _ p (by
              intro r hr
              simp only [List.mem_map, List.mem_range] at hr
              obtain ⟨r', ⟨i, _, rfl⟩, rfl⟩ := hr
              rw [List.length_map, rowF32s_length]) hp
            refine ⟨by omega, by omega, by omega, by simpa using hl, bitsOfF32_lt _, ?_⟩
            intro m hm
            simp only [List.mem_map] at hm
            obtain ⟨x, _, rfl⟩ := hm
            exact bitsOfF32_lt x

/-! ### octahedral values -/

theorem octaRow_entry (t : OctaT) (hwf : t.WF) (row : Bytes) (h : octaRowOK t row = true) :
    OctaEntry t (octaRow t row) := by
  unfold octaRowOK at h
  unfold octaRow
  have e : rowF32s 3 row = [leValue (row.take 4), leValue ((row.drop 4).take 4),
      leValue (((row.drop 4).drop 4).take 4)] := rfl
  rw [e] at h ⊢
  simp only [decide_eq_true_eq] at h ⊢
  unfold Octa.floatVecToCoords
  generalize Octa.floatVecRound t _ = r at h ⊢
  have hs := Octa.fixIntVec_abs_sum t r.1 r.2.1 r.2.2 h
  obtain ⟨g, c⟩ := Octa.intVecToCoords_inGrid_canonical t hwf _ hs
  exact ⟨_, _, rfl, g, c⟩

theorem octaEntry_of_ok (t : OctaT) (e : List Int) (h : octaEntryOK t e = true) : OctaEntry t e := by
  unfold octaEntryOK at h
  split at h
  · rename_i a b
    simp only [Bool.and_eq_true, decide_eq_true_eq] at h
    exact ⟨a, b, rfl, h.1, h.2⟩
  · cases h

/-- the float oracle hypothesis `octaRowOK` implies the output-level hypothesis -/
theorem octaEntryOK_of_rowOK (t : OctaT) (hwf : t.WF) (row : Bytes) (h : octaRowOK t row = true) :
    octaEntryOK t (octaRow t row) = true := by
  obtain ⟨a, b, he, hg, hc⟩ := octaRow_entry t hwf row h
  rw [he]
  simp [octaEntryOK, hg, hc]

theorem entriesOf_flatten (nc : Nat) (hnc : 0 < nc) : ∀ (ls : List (List Int)) (fuel : Nat),
    (∀ e ∈ ls, e.length = nc) → ls.length ≤ fuel → entriesOf nc fuel ls.flatten = ls := by
  intro ls
  induction ls with
  | nil => intro fuel _ _; cases fuel <;> simp [entriesOf]
  | cons e es ih =>
    intro fuel h hf
    cases fuel with
    | zero => simp at hf
    | succ f =>
      have hl := h e (by simp)
      have hne : (e ++ es.flatten).isEmpty = false := by
        cases e with
        | nil => simp at hl; omega
        | cons _ _ => rfl
      simp only [List.flatten_cons, entriesOf, hne, Bool.false_eq_true, if_false]
      rw [List.take_left' hl, List.drop_left' hl, ih f (fun x hx => h x (by simp [hx])) (by simpa using hf)]

theorem octaPortable_spec (t : OctaT) (hwf : t.WF) (rows : List Bytes)
    (hok : ∀ r ∈ rows, octaEntryOK t (octaRow t r) = true) :
    (octaPortable t rows).length = rows.length * 2 ∧
      (∀ x ∈ octaPortable t rows, -2 ^ 31 ≤ x ∧ x < 2 ^ 31) ∧
      ∀ e ∈ entriesOf 2 (octaPortable t rows).length (octaPortable t rows), OctaEntry t e := by
  have hent : ∀ e ∈ rows.map (octaRow t), OctaEntry t e := by
    intro e he
    simp only [List.mem_map] at he
    obtain ⟨r, hr, rfl⟩ := he
    exact octaEntry_of_ok t _ (hok r hr)
  have hlen2 : ∀ e ∈ rows.map (octaRow t), e.length = 2 := by
    intro e he
    obtain ⟨a, b, rfl, _, _⟩ := hent e he
    rfl
  have hL : (octaPortable t rows).length = rows.length * 2 := by
    unfold octaPortable
    rw [flatten_length_uniform 2 _ hlen2]; simp
  refine ⟨hL, ?_, ?_⟩
  · intro x hx
    unfold octaPortable at hx
    simp only [List.mem_flatten] at hx
    obtain ⟨e, he, hxe⟩ := hx
    obtain ⟨a, b, rfl, g, _⟩ := hent e he
    obtain ⟨w1, w2, w3, w4⟩ := hwf
    unfold Octa.inGrid at g
    simp only [List.mem_cons, List.not_mem_nil, or_false] at hxe
    rcases hxe with rfl | rfl <;> omega
  · rw [hL]
    unfold octaPortable
    rw [entriesOf_flatten 2 (by decide) _ _ hlen2 (by simp; omega)]
    exact hent

end Draco
