import DracoProofs.EbAssembly
/-
  NON-VACUITY of the connectivity link `hconn` of `eb_stream_decodes` / `eb_roundtrip_conditional`
  (DracoProofs/EbAssembly.lean): for ONE triangle with one int32 POSITION attribute, default options and the choices
  `exCh`, the encoder model runs (`exEncode`), writes the explicit stream `exBytes` with the connectivity bytes
  `[3, 1, 0, 1, 0, 0, 1, 7, 255, 1, 17]` behind the traversal-coder byte `0`, and the decoder's connectivity stage, started in
  ANY state whose input begins with these 12 bytes (bitstream 2.2), returns the explicit mesh `exMesh` and consumes exactly
  them: `exConnLink : Runs decodeConnectivity 514 exConnBytes exMesh 514`, `exHconn` (the hypothesis in its literal
  form).  `exIso`: this `exMesh` is `ctIso` to the encoder's corner table.

  Method.  `decodeConnectivity` hands the WHOLE remaining input to a bit reader (`peekRest` in `startTraversal`), so the
  intermediate result `Trav` depends on what follows the connectivity bytes and `Runs` (result independent of the
  trailing bytes) cannot describe that step.  `RunsX` is `Runs` with the trailing bytes `extra` FIXED (results may
  depend on them; `Runs m v bs a v' ↔ ∀ extra, RunsX m v bs extra a v'`); the decoder is stepped through with its
  rules, the pure stages (`connLoop`, `decodeSeams`, `assignPoints`) are evaluated by `simp` with `extra` symbolic.
  The encoder's run is a closed term: evaluated by the kernel (`decide +kernel`).
-/
namespace Draco.EbEnc.ConnExample
open Draco Draco.SeqEnc DecM
open Draco.Eb hiding iabs nextC prevC

/-- `Runs` for ONE given continuation `extra` of the input: the result may depend on `extra` -/
structure RunsX {α : Type} (m : DecM α) (v : Nat) (bs extra : Bytes) (a : α) (v' : Nat) : Prop where
  run : ∀ s : DSt, s.rest = bs ++ extra → s.version = v → ∃ s', m s = (some a, s') ∧ s'.rest = extra ∧ s'.version = v'

namespace RunsX
variable {α β : Type}

theorem ofRuns {m : DecM α} {v v' : Nat} {bs : Bytes} {a : α} (h : Runs m v bs a v') (extra : Bytes) :
    RunsX m v bs extra a v' := ⟨fun s hs hv => h.run s extra hs hv⟩

theorem toRuns {m : DecM α} {v v' : Nat} {bs : Bytes} {a : α} (h : ∀ extra, RunsX m v bs extra a v') :
    Runs m v bs a v' := ⟨fun s extra hs hv => (h extra).run s hs hv⟩

theorem bind {m : DecM α} {f : α → DecM β} {v v1 v2 : Nat} {b1 b2 extra : Bytes} {a : α} {c : β}
    (h1 : RunsX m v b1 (b2 ++ extra) a v1) (h2 : RunsX (f a) v1 b2 extra c v2) :
    RunsX (m >>= f) v (b1 ++ b2) extra c v2 := by
  constructor
  intro s hs hv
  obtain ⟨s1, e1, r1, w1⟩ := h1.run s (by rw [hs, List.append_assoc]) hv
  obtain ⟨s2, e2, r2, w2⟩ := h2.run s1 r1 w1
  refine ⟨s2, ?_, r2, w2⟩
  show DecM.andThen m f s = _
  simp only [DecM.andThen, e1, e2]

theorem bind0 {m : DecM α} {f : α → DecM β} {v v1 v2 : Nat} {bs extra : Bytes} {a : α} {c : β}
    (h1 : RunsX m v [] (bs ++ extra) a v1) (h2 : RunsX (f a) v1 bs extra c v2) :
    RunsX (m >>= f) v bs extra c v2 := bind (b1 := []) h1 h2

theorem bind1 {m : DecM α} {f : α → DecM β} {v v1 v2 : Nat} {b : Nat} {bs extra : Bytes} {a : α} {c : β}
    (h1 : RunsX m v [b] (bs ++ extra) a v1) (h2 : RunsX (f a) v1 bs extra c v2) :
    RunsX (m >>= f) v (b :: bs) extra c v2 := bind (b1 := [b]) h1 h2

theorem pure (a : α) (v : Nat) (extra : Bytes) : RunsX (Pure.pure a : DecM α) v [] extra a v :=
  ofRuns (Runs.pure a v) extra

theorem peekRest (v : Nat) (extra : Bytes) : RunsX Eb.peekRest v [] extra extra v :=
  ⟨fun s hs hv => ⟨s, by simp [Eb.peekRest] at hs ⊢; exact hs, by simpa using hs, hv⟩⟩

theorem remaining (v : Nat) (extra : Bytes) : RunsX DecM.remaining v [] extra extra.length v :=
  ⟨fun s hs hv => ⟨s, by simp [DecM.remaining] at hs ⊢; rw [hs], by simpa using hs, hv⟩⟩

end RunsX

/-- traversal coder 0 (standard) · 3 encoded vertices · 1 face · 0 attribute data · 1 symbol · 0 split symbols ·
    0 topology split events · symbol buffer: size 1, `7` (= TOPOLOGY_E, bits 1 11) · start faces: rANS bit coder,
    prob_zero 255, size 1, `17` (one bit `0`: boundary configuration) -/
def exConnBytes : Bytes := [0, 3, 1, 0, 1, 0, 0, 1, 7, 255, 1, 17]
/-- what `decodeConnectivity` builds: one face, corners 0 1 2 ↦ vertices 0 1 2, no opposite corners, no attribute
    connectivity data, points = vertices; tags = `sym:E | start:boundary | seam:boundary` -/
def exMesh : Eb.Mesh :=
  { numFaces := 1, c2v := #[0, 1, 2], opp := #[inv, inv, inv], vc := #[0, 1, 2], atts := #[], faces := #[0, 1, 2],
    numPoints := 3, tags := 33808 }

theorem exLeg : (514 < 2 * 256 + 2) = False := by decide
theorem exLeg1 : (514 < 2 * 256 + 1) = False := by decide

theorem exCountV : countV 514 = DecM.varint 32 := rfl
theorem decVarint_small (w b : Nat) (rest : Bytes) (h : b < 128) : decVarint w (b :: rest) = some (b, rest) := by
  have : varintMaxDepth w = (w / 8 + (w / 8) / 8) + 1 := by unfold varintMaxDepth; omega
  rw [decVarint, this, decVarintAux, if_neg (by omega)]
theorem rdVar (b v : Nat) (h : b < 128) : Runs (DecM.varint 32) v [b] b v :=
  Runs.lift (fun extra => decVarint_small 32 b extra h) v

theorem exSplits : Runs (decodeTopologySplits 514 1) 514 [0] [] 514 :=
  Runs.of_eq (split_events_runs [] 1 trivial (by decide) (by decide)) rfl (by decide) rfl

/-- `ans_read_init` on `[17]` -/
def exAns : AnsDecoder := ⟨4113, []⟩

/-- the traversal decoder after `Start`: its symbol bit reader holds the whole rest of the input -/
def exTrav (extra : Bytes) : Trav :=
  { kind := 0, legacy := false, sym := BitReader.start ([7, 255, 1, 17] ++ extra), startFace := ⟨255, exAns⟩,
    startFaceBits := BitReader.start [], seams := #[] }

theorem exStart (extra : Bytes) : RunsX (startTraversal 514 0 0 3 1) 514 [1, 7, 255, 1, 17] extra (exTrav extra) 514 := by
  unfold startTraversal
  simp only [exLeg, ↓reduceIte, decide_false]
  refine RunsX.bind0 (RunsX.remaining _ _) ?_
  refine RunsX.bind0 (RunsX.ofRuns (Runs.tag _ 514) _) ?_
  rw [if_pos (by decide)]
  refine RunsX.bind1 (RunsX.ofRuns (Runs.lift (a := 1) (fun e => decVarint_small 64 1 e (by decide)) 514) _) ?_
  refine RunsX.bind0 (RunsX.peekRest _ _) ?_
  refine RunsX.bind0 (RunsX.ofRuns (Runs.require (by simp) 514) _) ?_
  refine RunsX.bind1 (RunsX.ofRuns (Runs.lift (a := ()) (fun e => by simp [skipBytes]) 514) _) ?_
  refine RunsX.bind0 (RunsX.remaining _ _) ?_
  refine RunsX.bind (b1 := [255, 1, 17]) (b2 := []) (a := (⟨255, exAns⟩ : RAnsBitDec))
    (RunsX.ofRuns (Runs.lift (fun e => ransBitStart_bytes 255 [1] [17] e exAns (decVarint_small 32 1 _ (by decide)) (by decide)) 514) _) ?_
  refine RunsX.bind0 (RunsX.remaining _ _) ?_
  refine RunsX.bind0 (RunsX.ofRuns (Runs.tag _ 514) _) ?_
  refine RunsX.bind0 (a := []) (RunsX.pure _ _ _) ?_
  rw [if_pos (by decide)]
  exact RunsX.pure _ _ _

/-- the result of `DecodeConnectivity(num_symbols)` -/
def exCo : ConnOut :=
  { c2v := #[0, 1, 2], opp := #[inv, inv, inv], vc := #[0, 1, 2], hole := #[true, true, true], numConnVerts := 3,
    tags := 1040, startFaces := [false] }

theorem exTopoC : topoC = 0 := by decide
theorem exTopoS : topoS = 1 := by decide
theorem exTopoL : topoL = 3 := by decide
theorem exTopoR : topoR = 5 := by decide
theorem exTopoE : topoE = 7 := by decide

set_option maxRecDepth 100000 in
set_option maxHeartbeats 4000000 in
/-- the connectivity loop reads three bits of the first byte of the symbol buffer, whatever follows -/
theorem exConn (extra : Bytes) : connLoop ⟨1, 3, 1, [], true⟩ (exTrav extra) = .ok exCo := by
  simp [connLoop, exTrav, exCo, exAns, decodeSymbolStd, BitReader.getBit, BitReader.getBitsAux, BitReader.start,
    Trav.valence, Trav.tracksValences, exTopoC, exTopoS, exTopoL, exTopoR, exTopoE, RAnsBitDec.nextBit, rabsRead,
    setOpp, rd, wr, rdB, wrB, Eb.vertex, Eb.opposite, Eb.leftMost, Eb.setLeftMost, Eb.swingLeft, Eb.swingRight,
    inv, Eb.nextC, Eb.prevC, tg_sym_E, tg_start_boundary, tg_start_interior, ansP8, ansCompl, ansL, ansIO,
    Std.Legacy.Range.forIn_eq_forIn_range', Std.Legacy.Range.size, bind, Except.bind, pure, Except.pure, List.range'_succ]
  exact ⟨rfl, rfl, rfl⟩

set_option maxRecDepth 100000 in
set_option maxHeartbeats 4000000 in
theorem exSeams : decodeSeams false exCo.opp 1 0 #[] = .ok (#[], 32768) := by
  simp [decodeSeams, exCo, rd, Eb.opposite, inv, Eb.nextC, Eb.prevC, tg_seam_boundary,
    Std.Legacy.Range.forIn_eq_forIn_range', Std.Legacy.Range.size, bind, Except.bind, pure, Except.pure, List.range'_succ]

theorem exAttConns : (Array.mapM (fun sc => buildAttConn exCo.c2v exCo.opp exCo.vc sc) (#[] : Array (Array Nat))) = .ok #[] := by
  simp [pure, Except.pure]

theorem exAssignPts : assignPoints exCo 1 #[] = .ok (#[0, 1, 2], 3, 0) := by
  simp [assignPoints, exCo, pure, Except.pure]

/-- **the connectivity link for the triangle** -/
theorem exConnLink : Runs Draco.Eb.decodeConnectivity 514 exConnBytes exMesh 514 := by
  refine RunsX.toRuns fun extra => ?_
  unfold decodeConnectivity exConnBytes
  refine RunsX.bind0 (RunsX.ofRuns (Runs.version 514) _) ?_
  simp only [exLeg, exLeg1, ↓reduceIte, decide_false]
  refine RunsX.bind1 (RunsX.ofRuns (Runs.rdU8 _ 514) _) ?_
  simp only [show ((0 : Nat) == 1) = false from rfl, Bool.false_eq_true, ↓reduceIte]
  refine RunsX.bind0 (RunsX.remaining _ _) ?_
  refine RunsX.bind0 (RunsX.ofRuns (Runs.tag _ 514) _) ?_
  refine RunsX.bind0 (RunsX.ofRuns (Runs.require (by decide) 514) _) ?_
  simp only [exCountV]
  refine RunsX.bind1 (RunsX.ofRuns (rdVar 3 514 (by decide)) _) ?_
  refine RunsX.bind1 (RunsX.ofRuns (rdVar 1 514 (by decide)) _) ?_
  refine RunsX.bind0 (RunsX.ofRuns (Runs.require (by decide) 514) _) ?_
  refine RunsX.bind0 (RunsX.ofRuns (Runs.require (by decide) 514) _) ?_
  refine RunsX.bind0 (RunsX.ofRuns (Runs.require (by decide) 514) _) ?_
  refine RunsX.bind1 (RunsX.ofRuns (Runs.rdU8 _ 514) _) ?_
  refine RunsX.bind1 (RunsX.ofRuns (rdVar 1 514 (by decide)) _) ?_
  refine RunsX.bind0 (RunsX.ofRuns (Runs.require (by decide) 514) _) ?_
  refine RunsX.bind0 (RunsX.ofRuns (Runs.require (by decide) 514) _) ?_
  refine RunsX.bind1 (RunsX.ofRuns (rdVar 0 514 (by decide)) _) ?_
  refine RunsX.bind0 (RunsX.ofRuns (Runs.require (by decide) 514) _) ?_
  refine RunsX.bind0 (RunsX.ofRuns (Runs.alloc _ _ 514) _) ?_
  refine RunsX.bind0 (RunsX.ofRuns (Runs.require (by decide) 514) _) ?_
  refine RunsX.bind0 (RunsX.ofRuns (Runs.declare _ 514) _) ?_
  refine RunsX.bind0 (RunsX.ofRuns (Runs.alloc _ _ 514) _) ?_
  refine RunsX.bind0 (RunsX.ofRuns (Runs.alloc _ _ 514) _) ?_
  refine RunsX.bind0 (RunsX.ofRuns (Runs.alloc _ _ 514) _) ?_
  refine RunsX.bind0 (RunsX.ofRuns (Runs.alloc _ _ 514) _) ?_
  rw [if_neg (by decide)]
  refine RunsX.bind0 (RunsX.remaining _ _) ?_
  refine RunsX.bind1 (RunsX.ofRuns exSplits _) ?_
  refine RunsX.bind0 (RunsX.remaining _ _) ?_
  refine RunsX.bind0 (RunsX.ofRuns (Runs.tag _ 514) _) ?_
  refine RunsX.bind (b2 := []) (exStart extra) ?_
  refine RunsX.bind0 (RunsX.remaining _ _) ?_
  refine RunsX.bind0 (RunsX.ofRuns (Runs.tag _ 514) _) ?_
  refine RunsX.bind0 (RunsX.ofRuns (Runs.liftR (exConn extra) 514) _) ?_
  refine RunsX.bind0 (RunsX.ofRuns (Runs.tag _ 514) _) ?_
  refine RunsX.bind0 (RunsX.ofRuns (Runs.liftR exSeams 514) _) ?_
  refine RunsX.bind0 (RunsX.ofRuns (Runs.liftR exAttConns 514) _) ?_
  refine RunsX.bind0 (RunsX.ofRuns (Runs.alloc _ _ 514) _) ?_
  refine RunsX.bind0 (RunsX.ofRuns (Runs.liftR exAssignPts 514) _) ?_
  exact RunsX.pure _ _ _

/-! ### the encoder's run on the triangle -/

def exCh : EbChoices :=
  ⟨⟨fun n0 tot => (512 * n0 + tot) / (2 * tot), ProbOracle.exact, fun _ => .tagged⟩, fun _ => .tagged, fun _ => #[]⟩

/-- one triangle, points 0 1 2, one int32 POSITION attribute with the values (0,0,0) (4,0,0) (0,4,0), identity map -/
def exG : Geometry :=
  { isMesh := true, numPoints := 3, faces := [(0, 1, 2)],
    atts := [
      { attType := 0, dataType := 5, numComponents := 3, normalized := false, uniqueId := 0,
        numValues := 3, map := none,
        values := [0, 0, 0, 0, 0, 0, 0, 0, 0, 0, 0, 0, 4, 0, 0, 0, 0, 0, 0, 0, 0, 0, 0, 0, 0, 0, 0, 0, 4, 0, 0, 0, 0, 0, 0, 0] } ] }

/-- default options: speed 5, `edgebreaker_method` unset (standard traversal), no single connectivity -/
def exO : EbOpts := {}

def exBytes : Bytes :=
  [68, 82, 65, 67, 79, 2, 2, 1, 1, 0, 0, 0, 3, 1, 0, 1, 0, 0, 1, 7, 255, 1, 17, 1, 255, 0, 0, 1, 0, 5, 3, 0, 0, 1, 1, 1,
   1, 0, 3, 3, 85, 21, 173, 42, 3, 4, 112, 129, 49, 16, 0, 0, 0, 0, 4, 0, 0, 0]

/-- the encoder's result (the value of the closed term; its fields are read off by kernel evaluation below) -/
def exEnc : Encoded :=
  match encodeEdgebreaker exCh exG none exO with
  | .ok e => e
  | .error _ => default

theorem exEncode : encodeEdgebreaker exCh exG none exO = .ok exEnc := by
  have h : (match encodeEdgebreaker exCh exG none exO with | .ok _ => true | .error _ => false) = true := by
    decide +kernel
  unfold exEnc
  split at h
  · rename_i e he; rw [he]
  · exact absurd h (by decide)

/-- the requested form: the run succeeds, the stream, the connectivity bytes and the coder byte are explicit -/
theorem exEncode' : ∃ enc, encodeEdgebreaker exCh exG none exO = .ok enc ∧ enc.bytes = exBytes ∧
    enc.conn.bytes = [3, 1, 0, 1, 0, 0, 1, 7, 255, 1, 17] ∧ traversalCoder exO 1 = some 0 := by
  refine ⟨exEnc, exEncode, ?_, ?_, ?_⟩ <;> decide +kernel

theorem exG_valid : exG.atts.all (·.valid exG.numPoints) = true := by decide +kernel
theorem exCoder : traversalCoder exO exG.faces.length = some 0 := by decide +kernel
theorem exEnc_bytes : exEnc.bytes = exBytes := by decide +kernel
theorem exEnc_conn_bytes : exEnc.conn.bytes = [3, 1, 0, 1, 0, 0, 1, 7, 255, 1, 17] := by decide +kernel
theorem exEnc_counts : exEnc.numEncodedPoints = 3 ∧ exEnc.numEncodedFaces = 1 ∧ exEnc.couts.size = 1 ∧
    exEnc.order = #[0] ∧ exEnc.conn.processed = #[0] ∧ exEnc.conn.symbols = #[7] := by decide +kernel
/-- the decoded table is isomorphic to the encoder's (the checker `ctIso` the op evaluates as `iso-ok`) -/
theorem exIso : ctIso exEnc.conn.ct exEnc.conn.processed exMesh.numFaces exMesh.c2v exMesh.opp = true := by
  decide +kernel

/-- **the connectivity link of `eb_roundtrip_conditional` / `eb_stream_decodes` for the triangle**, in the form of the
    hypothesis `hconn` -/
theorem exHconn : ∀ coder, traversalCoder exO exG.faces.length = some coder →
    Runs decodeConnectivity 514 ([coder] ++ exEnc.conn.bytes) exMesh 514 := by
  intro coder h
  rw [exCoder] at h
  cases h
  rw [exEnc_conn_bytes]
  exact exConnLink

end Draco.EbEnc.ConnExample

