import DracoProofs.KdTreeCell
import DracoProofs.KdTreeStack
/-
  Round trip of the tree coding, independent of the entropy coders: decoding what the encoder
  model emitted yields a permutation of the points.  The bit decoders are abstract (`Src`) and
  described by `Del s evs`: "the decoders in joint state `s` are going to deliver the values of
  the encoder calls `evs`".
-/
namespace Draco.Kd
open TreeStack

/-- what the tree decoder needs of its four bit decoders, relative to the encoder calls -/
structure SrcSpec {σ : Type} (S : Src σ) (Del : σ → List Ev → Prop) : Prop where
  number : ∀ s n v more, 1 ≤ n → n ≤ 32 → v < 2^32 → Del s ((Which.num, BitOp.lsb32 n v) :: more) →
    (S.number s n).1 = v % 2^n ∧ Del (S.number s n).2 more
  remBits : ∀ s n v more, 1 ≤ n → n ≤ 32 → v < 2^32 → Del s ((Which.rem, BitOp.lsb32 n v) :: more) →
    (S.remBits s n).1 = some (v % 2^n) ∧ Del (S.remBits s n).2 more
  axis : ∀ s v more, v < 2^32 → Del s ((Which.axis, BitOp.lsb32 4 v) :: more) →
    (S.axis s).1 = v % 2^4 ∧ Del (S.axis s).2 more
  half : ∀ s b more, Del s ((Which.half, BitOp.bit b) :: more) →
    (S.half s).1 = b ∧ Del (S.half s).2 more
  /-- calls on different coders commute -/
  swap : ∀ s e1 e2 more, e1.1 ≠ e2.1 → Del s (e1 :: e2 :: more) → Del s (e2 :: e1 :: more)

/-- what the standard promises of `std::partition` -/
structure PartSpec (part : Partition) : Prop where
  perm : ∀ p l, ((part p l).1 ++ (part p l).2).Perm l
  left : ∀ p l x, x ∈ (part p l).1 → p x = true
  right : ∀ p l x, x ∈ (part p l).2 → p x = false

/-- `base` / `levels` describe an aligned box of side `2^(bit_length - level)` per axis -/
structure Box (P : Params) (base levels : List Nat) : Prop where
  lenB : base.length = P.dim
  lenL : levels.length = P.dim
  lvl : ∀ i, i < P.dim → levels.getD i 0 ≤ P.bitLength
  align : ∀ i, i < P.dim → base.getD i 0 % 2^(P.bitLength - levels.getD i 0) = 0
  top : ∀ i, i < P.dim → base.getD i 0 + 2^(P.bitLength - levels.getD i 0) ≤ 2^P.bitLength

/-- a point of the right dimension inside the box -/
def InBox (P : Params) (base levels p : List Nat) : Prop :=
  p.length = P.dim ∧ ∀ i, i < P.dim → base.getD i 0 ≤ p.getD i 0 ∧
    p.getD i 0 < base.getD i 0 + 2^(P.bitLength - levels.getD i 0)

/-- the policy's invariant on `(last_axis, levels)`: nothing for the explicit axis choice of
    level 6, the round-robin invariant otherwise -/
def AxisInv (P : Params) (last : Nat) (levels : List Nat) : Prop :=
  P.selectAxis = false → RR P.dim last levels

variable {σ : Type} {S : Src σ} {Del : σ → List Ev → Prop}

theorem two_pow_le_32 {k : Nat} (h : k ≤ 32) : 2^k ≤ 2^32 := Nat.pow_le_pow_right (by decide) h

/-- encoder and decoder choose the same axis; if it cannot be split, no axis can -/
theorem axis_agree (hS : SrcSpec S Del) (P : Params) (hdim : 1 ≤ P.dim)
    (hsel : P.selectAxis = true → P.dim ≤ 16) (pts : List (List Nat)) (base levels : List Nat)
    (last : Nat) (hne : pts ≠ []) (hinv : AxisInv P last levels) (s : σ) (more : List Ev)
    (hdel : Del s ((encAxis P pts base levels last).2 ++ more)) :
    (getAxis S P s pts.length levels last).1 = (encAxis P pts base levels last).1 ∧
    Del (getAxis S P s pts.length levels last).2 more ∧
    (encAxis P pts base levels last).1 < P.dim ∧
    (P.bitLength - levels.getD (encAxis P pts base levels last).1 0 = 0 →
      ∀ i, i < P.dim → P.bitLength - levels.getD i 0 = 0) ∧
    (P.selectAxis = false → (encAxis P pts base levels last).1 = incMod last P.dim) := by
  unfold encAxis getAxis at *
  by_cases hs : P.selectAxis = true
  · simp only [hs, Bool.not_true, Bool.false_eq_true, if_false] at hdel ⊢
    by_cases h64 : pts.length < 64
    · simp only [h64, if_true] at hdel ⊢
      refine ⟨trivial, by simpa using hdel, minLevelAxis_lt _ _ hdim, ?_, by simp⟩
      intro h0 i hi
      have := minLevelAxis_le levels P.dim i hi
      omega
    · simp only [h64, if_false] at hdel ⊢
      have hb := bestAxis_lt P pts base levels hne hdim
      have hd := hsel hs
      obtain ⟨a1, a2⟩ := hS.axis s (bestAxis P pts base levels) more (by omega) (by simpa using hdel)
      refine ⟨?_, a2, hb, bestAxis_full P pts base levels hne hdim, by simp⟩
      rw [a1]
      exact Nat.mod_eq_of_lt (by omega)
  · have hs' : P.selectAxis = false := by simpa using hs
    simp only [hs', Bool.not_false, if_true] at hdel ⊢
    have hrr := hinv hs'
    refine ⟨trivial, by simpa using hdel, incMod_lt _ _ hrr.last_lt, ?_, by simp⟩
    intro h0 i hi
    have := hrr.min i hi
    omega

/-- the `for j` loop of the fast path reads back the coordinates of one point -/
theorem leafPoint_spec (hS : SrcSpec S Del) (P : Params) (hbl : P.bitLength ≤ 32)
    (base levels p : List Nat) (hbox : Box P base levels) (hp : InBox P base levels p) :
    ∀ (axes q : List Nat) (s : σ) (more : List Ev), (∀ a ∈ axes, a < P.dim) → q.length = P.dim →
    Del s (leafEvents P levels p axes ++ more) →
    ∃ q' s', leafPoint S P base levels axes q s = some (q', s') ∧ Del s' more ∧ q'.length = P.dim ∧
      (∀ a ∈ axes, q'.getD a 0 = p.getD a 0) ∧ (∀ i, i ∉ axes → q'.getD i 0 = q.getD i 0) := by
  intro axes
  induction axes with
  | nil =>
    intro q s more _ hq hdel
    exact ⟨q, s, rfl, by simpa [leafEvents] using hdel, hq, by simp, fun _ _ => rfl⟩
  | cons a axes ih =>
    intro q s more hax hq hdel
    have ha : a < P.dim := hax a (by simp)
    have hax' : ∀ x ∈ axes, x < P.dim := fun x hx => hax x (by simp [hx])
    obtain ⟨hp1, hp2⟩ := hp.2 a ha
    have halign := hbox.align a ha
    have htop := hbox.top a ha
    have h32 := two_pow_le_32 hbl
    -- the value stored for this axis is the point's coordinate in both branches
    have hfinish : ∀ (s1 : σ), Del s1 (leafEvents P levels p axes ++ more) →
        ∃ q' s', leafPoint S P base levels axes (q.set a (p.getD a 0)) s1 = some (q', s') ∧
          Del s' more ∧ q'.length = P.dim ∧
          (∀ x ∈ a :: axes, q'.getD x 0 = p.getD x 0) ∧ (∀ i, i ∉ a :: axes → q'.getD i 0 = q.getD i 0) := by
      intro s1 hd1
      obtain ⟨q', s', e1, e2, e3, e4, e5⟩ := ih (q.set a (p.getD a 0)) s1 more hax'
        (by rw [List.length_set]; exact hq) hd1
      refine ⟨q', s', e1, e2, e3, ?_, ?_⟩
      · intro x hx
        simp only [List.mem_cons] at hx
        by_cases hxa : x ∈ axes
        · exact e4 x hxa
        · rcases hx with hx | hx
          · subst hx
            rw [e5 x hxa, getD_set_self _ _ _ (by omega)]
          · exact absurd hx hxa
      · intro i hi
        simp only [List.mem_cons, not_or] at hi
        rw [e5 i hi.2, getD_set_ne _ _ _ _ (Ne.symm hi.1)]
    simp only [leafPoint, leafEvents] at hdel ⊢
    by_cases hn : P.bitLength - levels.getD a 0 = 0
    · simp only [hn, if_true] at hdel ⊢
      rw [hn] at hp2
      have : base.getD a 0 = p.getD a 0 := by simp only [Nat.pow_zero] at hp2; omega
      rw [Nat.or_zero, this]
      exact hfinish s hdel
    · simp only [hn, if_false] at hdel ⊢
      simp only [List.cons_append] at hdel
      obtain ⟨r1, r2⟩ := hS.remBits s _ (p.getD a 0) _ (by omega) (by omega) (by omega) hdel
      have hval : base.getD a 0 ||| p.getD a 0 % 2^(P.bitLength - levels.getD a 0) = p.getD a 0 := by
        rw [mod_cell _ _ _ halign hp1 hp2, or_low _ _ _ halign (by omega)]
        omega
      generalize S.remBits s (P.bitLength - levels.getD a 0) = rb at r1 r2
      obtain ⟨v, s1⟩ := rb
      simp only at r1 r2
      subst r1
      simp only [hval]
      exact hfinish s1 r2

/-- the fast path (1 or 2 points) reads back the points -/
theorem leafPoints_spec (hS : SrcSpec S Del) (P : Params) (hbl : P.bitLength ≤ 32)
    (base levels : List Nat) (hbox : Box P base levels) (axis : Nat) (hax : axis < P.dim) :
    ∀ (pts : List (List Nat)) (s : σ) (more : List Ev), (∀ p ∈ pts, InBox P base levels p) →
    Del s ((pts.flatMap fun p => leafEvents P levels p (axesFrom axis P.dim P.dim)) ++ more) →
    ∃ s', leafPoints S P base levels (axesFrom axis P.dim P.dim) pts.length s = some (pts, s') ∧
      Del s' more := by
  intro pts
  induction pts with
  | nil => intro s more _ hdel; exact ⟨s, rfl, by simpa using hdel⟩
  | cons p pts ih =>
    intro s more hin hdel
    have hp := hin p (by simp)
    simp only [List.flatMap_cons, List.append_assoc] at hdel
    obtain ⟨q', s1, e1, e2, e3, e4, _⟩ := leafPoint_spec hS P hbl base levels p hbox hp
      (axesFrom axis P.dim P.dim) (List.replicate P.dim 0) s _
      (axesFrom_lt P.dim P.dim axis hax) (by simp) hdel
    have hq : q' = p := by
      apply ext_getD q' p P.dim e3 hp.1
      intro i hi
      exact e4 i (mem_axesFrom_all P.dim axis i hax hi)
    subst hq
    obtain ⟨s2, f1, f2⟩ := ih s1 more (fun x hx => hin x (by simp [hx])) e2
    refine ⟨s2, ?_, f2⟩
    simp only [List.length_cons, leafPoints, e1, f1]

/-! ### the two halves of a box -/

theorem pow_pred_double (k : Nat) (hk : 1 ≤ k) : 2^(k-1) + 2^(k-1) = 2^k := by
  obtain ⟨m, rfl⟩ : ∃ m, k = m + 1 := ⟨k - 1, by omega⟩
  simp only [Nat.add_sub_cancel, Nat.pow_succ]; omega

/-- `base_stack_[stack_pos + 1]` -/
def upperBase (P : Params) (base levels : List Nat) (axis : Nat) : List Nat :=
  base.set axis ((base.getD axis 0 + 2 ^ (P.bitLength - levels.getD axis 0 - 1)) % 2^32)

/-- `levels_stack_` after `+= 1` -/
def nextLevels (levels : List Nat) (axis : Nat) : List Nat :=
  levels.set axis (levels.getD axis 0 + 1)

theorem upperBase_axis (P : Params) (hbl : P.bitLength ≤ 32) (base levels : List Nat)
    (hbox : Box P base levels) (axis : Nat) (hax : axis < P.dim)
    (hlv : levels.getD axis 0 < P.bitLength) :
    (upperBase P base levels axis).getD axis 0 =
      base.getD axis 0 + 2 ^ (P.bitLength - levels.getD axis 0 - 1) := by
  unfold upperBase
  rw [getD_set_self _ _ _ (by rw [hbox.lenB]; exact hax)]
  apply Nat.mod_eq_of_lt
  have h1 := hbox.top axis hax
  have h2 := pow_pred_double (P.bitLength - levels.getD axis 0) (by omega)
  have h3 := two_pow_le_32 hbl
  have h4 : 0 < 2 ^ (P.bitLength - levels.getD axis 0 - 1) := Nat.pow_pos (by decide)
  omega

theorem box_lower (P : Params) (base levels : List Nat) (hbox : Box P base levels) (axis : Nat)
    (hax : axis < P.dim) (hlv : levels.getD axis 0 < P.bitLength) :
    Box P base (nextLevels levels axis) := by
  have hself : (nextLevels levels axis).getD axis 0 = levels.getD axis 0 + 1 :=
    getD_set_self _ _ _ (by rw [hbox.lenL]; exact hax)
  have hne : ∀ i, i ≠ axis → (nextLevels levels axis).getD i 0 = levels.getD i 0 :=
    fun i hi => getD_set_ne _ _ _ _ (Ne.symm hi)
  have h2 := pow_pred_double (P.bitLength - levels.getD axis 0) (by omega)
  refine ⟨hbox.lenB, by simp only [nextLevels, List.length_set]; exact hbox.lenL, ?_, ?_, ?_⟩
  · intro i hi
    by_cases hia : i = axis
    · subst hia; rw [hself]; omega
    · rw [hne i hia]; exact hbox.lvl i hi
  · intro i hi
    by_cases hia : i = axis
    · subst hia
      rw [hself, show P.bitLength - (levels.getD i 0 + 1) = P.bitLength - levels.getD i 0 - 1 by omega]
      exact align_half _ _ (by omega) (hbox.align i hi)
    · rw [hne i hia]; exact hbox.align i hi
  · intro i hi
    by_cases hia : i = axis
    · subst hia
      rw [hself, show P.bitLength - (levels.getD i 0 + 1) = P.bitLength - levels.getD i 0 - 1 by omega]
      have := hbox.top i hi
      have h4 : 0 < 2 ^ (P.bitLength - levels.getD i 0 - 1) := Nat.pow_pos (by decide)
      omega
    · rw [hne i hia]; exact hbox.top i hi

theorem box_upper (P : Params) (hbl : P.bitLength ≤ 32) (base levels : List Nat)
    (hbox : Box P base levels) (axis : Nat) (hax : axis < P.dim)
    (hlv : levels.getD axis 0 < P.bitLength) :
    Box P (upperBase P base levels axis) (nextLevels levels axis) := by
  have hself : (nextLevels levels axis).getD axis 0 = levels.getD axis 0 + 1 :=
    getD_set_self _ _ _ (by rw [hbox.lenL]; exact hax)
  have hne : ∀ i, i ≠ axis → (nextLevels levels axis).getD i 0 = levels.getD i 0 :=
    fun i hi => getD_set_ne _ _ _ _ (Ne.symm hi)
  have hbne : ∀ i, i ≠ axis → (upperBase P base levels axis).getD i 0 = base.getD i 0 :=
    fun i hi => getD_set_ne _ _ _ _ (Ne.symm hi)
  have hbself := upperBase_axis P hbl base levels hbox axis hax hlv
  have h2 := pow_pred_double (P.bitLength - levels.getD axis 0) (by omega)
  refine ⟨by simp only [upperBase, List.length_set]; exact hbox.lenB,
    by simp only [nextLevels, List.length_set]; exact hbox.lenL, ?_, ?_, ?_⟩
  · intro i hi
    by_cases hia : i = axis
    · subst hia; rw [hself]; omega
    · rw [hne i hia]; exact hbox.lvl i hi
  · intro i hi
    by_cases hia : i = axis
    · subst hia
      rw [hself, hbself, show P.bitLength - (levels.getD i 0 + 1) = P.bitLength - levels.getD i 0 - 1 by omega]
      exact align_upper _ _ (by omega) (hbox.align i hi)
    · rw [hne i hia, hbne i hia]; exact hbox.align i hi
  · intro i hi
    by_cases hia : i = axis
    · subst hia
      rw [hself, hbself, show P.bitLength - (levels.getD i 0 + 1) = P.bitLength - levels.getD i 0 - 1 by omega]
      have := hbox.top i hi
      omega
    · rw [hne i hia, hbne i hia]; exact hbox.top i hi

theorem inBox_lower (P : Params) (hbl : P.bitLength ≤ 32) (base levels : List Nat)
    (hbox : Box P base levels) (axis : Nat) (hax : axis < P.dim)
    (hlv : levels.getD axis 0 < P.bitLength) (p : List Nat) (hp : InBox P base levels p)
    (hlt : p.getD axis 0 < (upperBase P base levels axis).getD axis 0) :
    InBox P base (nextLevels levels axis) p := by
  rw [upperBase_axis P hbl base levels hbox axis hax hlv] at hlt
  refine ⟨hp.1, ?_⟩
  intro i hi
  by_cases hia : i = axis
  · subst hia
    rw [show (nextLevels levels i).getD i 0 = levels.getD i 0 + 1 from
      getD_set_self _ _ _ (by rw [hbox.lenL]; exact hax),
      show P.bitLength - (levels.getD i 0 + 1) = P.bitLength - levels.getD i 0 - 1 by omega]
    exact ⟨(hp.2 i hi).1, hlt⟩
  · rw [show (nextLevels levels axis).getD i 0 = levels.getD i 0 from
      getD_set_ne _ _ _ _ (Ne.symm hia)]
    exact hp.2 i hi

theorem inBox_upper (P : Params) (hbl : P.bitLength ≤ 32) (base levels : List Nat)
    (hbox : Box P base levels) (axis : Nat) (hax : axis < P.dim)
    (hlv : levels.getD axis 0 < P.bitLength) (p : List Nat) (hp : InBox P base levels p)
    (hge : ¬ p.getD axis 0 < (upperBase P base levels axis).getD axis 0) :
    InBox P (upperBase P base levels axis) (nextLevels levels axis) p := by
  have hb := upperBase_axis P hbl base levels hbox axis hax hlv
  have h2 := pow_pred_double (P.bitLength - levels.getD axis 0) (by omega)
  refine ⟨hp.1, ?_⟩
  intro i hi
  by_cases hia : i = axis
  · subst hia
    rw [hb] at hge ⊢
    rw [show (nextLevels levels i).getD i 0 = levels.getD i 0 + 1 from
      getD_set_self _ _ _ (by rw [hbox.lenL]; exact hax),
      show P.bitLength - (levels.getD i 0 + 1) = P.bitLength - levels.getD i 0 - 1 by omega]
    have := (hp.2 i hi).2
    omega
  · rw [show (nextLevels levels axis).getD i 0 = levels.getD i 0 from
      getD_set_ne _ _ _ _ (Ne.symm hia),
      show (upperBase P base levels axis).getD i 0 = base.getD i 0 from
      getD_set_ne _ _ _ _ (Ne.symm hia)]
    exact hp.2 i hi

/-- in a box that cannot be split any more every point is the base point -/
theorem inBox_full (P : Params) (base levels : List Nat) (hbox : Box P base levels)
    (hfull : ∀ i, i < P.dim → P.bitLength - levels.getD i 0 = 0) (p : List Nat)
    (hp : InBox P base levels p) : p = base := by
  apply ext_getD p base P.dim hp.1 hbox.lenB
  intro i hi
  have := hp.2 i hi
  rw [hfull i hi] at this
  simp only [Nat.pow_zero] at this
  omega

/-! ### one split -/

theorem log2_bounds (n : Nat) (h3 : 2 < n) (h32 : n < 2^32) :
    1 ≤ Nat.log2 n ∧ Nat.log2 n ≤ 32 ∧ n / 2 < 2 ^ Nat.log2 n := by
  have h1 : n < 2 ^ (Nat.log2 n + 1) := Nat.lt_log2_self
  have h2 : Nat.log2 n < 32 := (Nat.log2_lt (by omega)).2 h32
  refine ⟨?_, by omega, ?_⟩
  · by_cases h0 : Nat.log2 n = 0
    · rw [h0] at h1; simp at h1; omega
    · omega
  · rw [Nat.pow_succ] at h1; omega

/-- `DecodeNumber`, the halves and the optional swap invert the encoder's two calls -/
theorem splitNode_spec (hS : SrcSpec S Del) (P : Params) (fr : Frame) (axis : Nat) (s : σ)
    (decoded first second : Nat) (hsum : first + second = fr.n) (hn : 2 < fr.n)
    (hn32 : fr.n < 2^32) (more : List Ev) (hdel : Del s (splitEvents fr.n first second ++ more)) :
    ∃ s', splitNode S P fr axis s decoded =
        some (pushChildren P fr axis first second ⟨s', decoded⟩) ∧ Del s' more := by
  obtain ⟨l1, l2, l3⟩ := log2_bounds fr.n hn hn32
  unfold splitEvents at hdel
  simp only at hdel
  unfold splitNode
  simp only
  by_cases hne : first ≠ second
  · simp only [hne, ne_eq, not_false_eq_true, if_true, List.cons_append, List.nil_append] at hdel
    have hsw := hS.swap s _ _ _ (by simp) hdel
    by_cases hleft : first < second
    · simp only [hleft, decide_true, if_true] at hsw
      obtain ⟨n1, n2⟩ := hS.number s _ (fr.n / 2 - first) _ l1 l2 (by omega) hsw
      rw [Nat.mod_eq_of_lt (by omega)] at n1
      obtain ⟨b1, b2⟩ := hS.half _ _ _ n2
      refine ⟨_, ?_, b2⟩
      rw [n1]
      have e1 : ¬ fr.n / 2 < fr.n / 2 - first := by omega
      have e2 : fr.n / 2 - (fr.n / 2 - first) = first := by omega
      have e3 : fr.n - first = second := by omega
      simp only [e1, if_false, e2, e3, hne, ne_eq, not_false_eq_true, if_true, b1]
    · simp only [hleft, decide_false, Bool.false_eq_true, if_false] at hsw
      obtain ⟨n1, n2⟩ := hS.number s _ (fr.n / 2 - second) _ l1 l2 (by omega) hsw
      rw [Nat.mod_eq_of_lt (by omega)] at n1
      obtain ⟨b1, b2⟩ := hS.half _ _ _ n2
      refine ⟨_, ?_, b2⟩
      rw [n1]
      have e1 : ¬ fr.n / 2 < fr.n / 2 - second := by omega
      have e2 : fr.n / 2 - (fr.n / 2 - second) = second := by omega
      have e3 : fr.n - second = first := by omega
      have e4 : second ≠ first := by omega
      simp only [e1, if_false, e2, e3, e4, ne_eq, not_false_eq_true, if_true, b1, Bool.false_eq_true]
  · have heq : first = second := by omega
    subst heq
    simp only [ne_eq, not_true_eq_false, if_false, List.nil_append, Nat.lt_irrefl, decide_false,
      Bool.false_eq_true, List.cons_append] at hdel
    obtain ⟨n1, n2⟩ := hS.number s _ (fr.n / 2 - first) _ l1 l2 (by omega) hdel
    rw [Nat.mod_eq_of_lt (by omega)] at n1
    refine ⟨_, ?_, n2⟩
    rw [n1]
    have e1 : ¬ fr.n / 2 < fr.n / 2 - first := by omega
    have e2 : fr.n / 2 - (fr.n / 2 - first) = first := by omega
    have e3 : fr.n - first = first := by omega
    simp only [e1, if_false, e2, e3, ne_eq, not_true_eq_false]

/-! ### the whole tree -/

theorem tree_roundtrip (hS : SrcSpec S Del) (part : Partition) (hpart : PartSpec part) (P : Params)
    (hbl : P.bitLength ≤ 32) (hdim : 1 ≤ P.dim) (hsel : P.selectAxis = true → P.dim ≤ 16)
    (hnp : P.numPoints < 2^32) :
    ∀ (d : Nat) (ef : EFrame) (evs : List Ev), Box P ef.base ef.levels →
    (∀ p ∈ ef.pts, InBox P ef.base ef.levels p) → AxisInv P ef.lastAxis ef.levels → ef.pts ≠ [] →
    TreeStack.tree (encNode part P) d ef () = some (evs, ()) →
    ∀ (st : St σ) (more : List Ev), Del st.src (evs ++ more) →
    st.decoded + ef.pts.length ≤ P.numPoints →
    ∃ pts' st', tree S P d ⟨ef.pts.length, ef.lastAxis, ef.base, ef.levels⟩ st = some (pts', st') ∧
      pts'.Perm ef.pts ∧ Del st'.src more ∧ st'.decoded = st.decoded + ef.pts.length := by
  intro d
  induction d with
  | zero => intro ef evs _ _ _ _ h; simp [TreeStack.tree] at h
  | succ d ih =>
    intro ef evs hbox hin hinv hne henc st more hdel hdec
    obtain ⟨pts, last, base, levels⟩ := ef
    simp only at hbox hin hinv hne hdec ⊢
    rw [tree_succ] at henc
    unfold tree
    rw [tree_succ]
    simp only [encNode] at henc
    simp only [node, if_neg (show ¬ pts.length > P.numPoints by omega)]
    -- the axis
    have hagree := fun more' => axis_agree hS P hdim hsel pts base levels last hne hinv st.src more'
    generalize encAxis P pts base levels last = e at henc hagree
    obtain ⟨axis, evA⟩ := e
    generalize getAxis S P st.src pts.length levels last = g at hagree ⊢
    obtain ⟨ga, gs⟩ := g
    simp only at henc hagree ⊢
    unfold nodeAt
    by_cases hfull0 : P.bitLength - levels.getD axis 0 = 0
    · -- no axis can be split: all points equal the base point
      have hstep : encNodeAt part P ⟨pts, last, base, levels⟩ axis evA = .leaf evA () := by
        simp only [encNodeAt, hfull0, if_true]
      rw [hstep] at henc
      simp only [Option.some.injEq, Prod.mk.injEq, and_true] at henc
      subst henc
      obtain ⟨rfl, hd1, haxlt, hfull, _⟩ := hagree more hdel
      simp only [if_neg (show ¬ ga ≥ P.dim by omega), hfull0, if_true]
      refine ⟨_, _, rfl, ?_, hd1, rfl⟩
      have : pts = List.replicate pts.length base := by
        rw [List.eq_replicate_iff]
        exact ⟨rfl, fun p hp => inBox_full P base levels hbox (hfull hfull0) p (hin p hp)⟩
      rw [← this]
    · by_cases hsmall : pts.length ≤ 2
      · -- fast path
        have hstep : encNodeAt part P ⟨pts, last, base, levels⟩ axis evA =
            .leaf (evA ++ pts.flatMap fun p => leafEvents P levels p (axesFrom axis P.dim P.dim)) () := by
          simp only [encNodeAt, hfull0, if_false, hsmall, if_true]
        rw [hstep] at henc
        simp only [Option.some.injEq, Prod.mk.injEq, and_true] at henc
        subst henc
        rw [List.append_assoc] at hdel
        obtain ⟨rfl, hd1, haxlt, _, _⟩ := hagree _ hdel
        obtain ⟨s', l1, l2⟩ := leafPoints_spec hS P hbl base levels hbox ga haxlt pts gs more hin hd1
        simp only [if_neg (show ¬ ga ≥ P.dim by omega), hfull0, if_false, hsmall, if_true, l1]
        exact ⟨_, _, rfl, List.Perm.refl _, l2, rfl⟩
      · -- split
        have hlv : levels.getD axis 0 < P.bitLength := by omega
        have hstep : encNodeAt part P ⟨pts, last, base, levels⟩ axis evA =
            .split (evA ++ splitEvents pts.length
                (part (fun p => p.getD axis 0 < (upperBase P base levels axis).getD axis 0) pts).1.length
                (part (fun p => p.getD axis 0 < (upperBase P base levels axis).getD axis 0) pts).2.length)
              (if (part (fun p => p.getD axis 0 < (upperBase P base levels axis).getD axis 0) pts).1.isEmpty
                then none
                else some ⟨(part (fun p => p.getD axis 0 < (upperBase P base levels axis).getD axis 0) pts).1,
                  axis, base, nextLevels levels axis⟩)
              (if (part (fun p => p.getD axis 0 < (upperBase P base levels axis).getD axis 0) pts).2.isEmpty
                then none
                else some ⟨(part (fun p => p.getD axis 0 < (upperBase P base levels axis).getD axis 0) pts).2,
                  axis, upperBase P base levels axis, nextLevels levels axis⟩) () := by
          simp only [encNodeAt, hfull0, if_false, hsmall]
          rfl
        rw [hstep] at henc
        have hperm := hpart.perm (fun p => p.getD axis 0 < (upperBase P base levels axis).getD axis 0) pts
        have hleft := hpart.left (fun p => p.getD axis 0 < (upperBase P base levels axis).getD axis 0) pts
        have hright := hpart.right (fun p => p.getD axis 0 < (upperBase P base levels axis).getD axis 0) pts
        generalize part (fun p => p.getD axis 0 < (upperBase P base levels axis).getD axis 0) pts = lr
          at henc hperm hleft hright
        obtain ⟨l, r⟩ := lr
        simp only at henc hperm hleft hright
        have hlen : l.length + r.length = pts.length := by
          have := hperm.length_eq; simpa using this
        have hmem : ∀ p, p ∈ l ∨ p ∈ r → p ∈ pts := by
          intro p hp
          exact hperm.subset (by simpa using hp)
        -- the encoder's two subtrees
        cases h2 : sub (encNode part P) d
            (if r.isEmpty then none else some ⟨r, axis, upperBase P base levels axis, nextLevels levels axis⟩) () with
        | none => rw [h2] at henc; cases henc
        | some r2 =>
          obtain ⟨o2, u2⟩ := r2
          cases u2
          rw [h2] at henc
          simp only at henc
          cases h1 : sub (encNode part P) d
              (if l.isEmpty then none else some ⟨l, axis, base, nextLevels levels axis⟩) () with
          | none => rw [h1] at henc; cases henc
          | some r1 =>
            obtain ⟨o1, u1⟩ := r1
            cases u1
            rw [h1] at henc
            simp only [Option.some.injEq, Prod.mk.injEq, and_true] at henc
            subst henc
            -- the decoder's node
            rw [show (evA ++ splitEvents pts.length l.length r.length ++ (o2 ++ o1)) ++ more =
              evA ++ (splitEvents pts.length l.length r.length ++ ((o2 ++ o1) ++ more)) by
              simp only [List.append_assoc]] at hdel
            obtain ⟨rfl, hd1, haxlt, _, hrr⟩ := hagree _ hdel
            obtain ⟨s', sp1, sp2⟩ := splitNode_spec hS P ⟨pts.length, last, base, levels⟩ ga gs st.decoded
              l.length r.length hlen (by simp only; omega) (by simp only; omega) _ hd1
            simp only [if_neg (show ¬ ga ≥ P.dim by omega), hfull0, if_false, hsmall,
              if_neg (show ¬ st.decoded > P.numPoints by omega), sp1]
            -- the children
            have hinv' : AxisInv P ga (nextLevels levels ga) := by
              intro hs
              have := RR.step (hinv hs) hbox.lenL
              rw [← hrr hs] at this
              exact this
            have hsub : ∀ (c : List (List Nat)) (b : List Nat) (o : List Ev) (st0 : St σ) (more0 : List Ev),
                Box P b (nextLevels levels ga) → (∀ p ∈ c, InBox P b (nextLevels levels ga) p) →
                sub (encNode part P) d
                  (if c.isEmpty then none else some ⟨c, ga, b, nextLevels levels ga⟩) () = some (o, ()) →
                Del st0.src (o ++ more0) → st0.decoded + c.length ≤ P.numPoints →
                ∃ pc stc, sub (node S P) d
                    (if c.length ≠ 0 then some ⟨c.length, ga, b, nextLevels levels ga⟩ else none) st0 =
                      some (pc, stc) ∧
                  pc.Perm c ∧ Del stc.src more0 ∧ stc.decoded = st0.decoded + c.length := by
              intro c b o st0 more0 hb hc hsubenc hd0 hdec0
              cases c with
              | nil =>
                simp only [List.isEmpty_nil, if_true, sub, Option.some.injEq, Prod.mk.injEq, and_true] at hsubenc
                subst hsubenc
                exact ⟨[], st0, by simp [sub], List.Perm.refl _, by simpa using hd0, by simp⟩
              | cons x xs =>
                simp only [List.isEmpty_cons, Bool.false_eq_true, if_false, sub] at hsubenc
                obtain ⟨pc, stc, t1, t2, t3, t4⟩ := ih ⟨x :: xs, ga, b, nextLevels levels ga⟩ o hb hc hinv'
                  (by simp) hsubenc st0 more0 hd0 hdec0
                refine ⟨pc, stc, ?_, t2, t3, t4⟩
                simp only [List.length_cons, ne_eq, Nat.add_one_ne_zero, not_false_eq_true, if_true, sub]
                exact t1
            obtain ⟨p2, st2, q1, q2, q3, q4⟩ := hsub r (upperBase P base levels ga) o2 ⟨s', st.decoded⟩
              (o1 ++ more) (box_upper P hbl base levels hbox ga haxlt hlv)
              (fun p hp => inBox_upper P hbl base levels hbox ga haxlt hlv p (hin p (hmem p (Or.inr hp)))
                (by have := hright p hp; simpa using this))
              h2 (by simpa only [List.append_assoc] using sp2) (by simp only; omega)
            obtain ⟨p1, st1, w1, w2, w3, w4⟩ := hsub l base o1 st2 more
              (box_lower P base levels hbox ga haxlt hlv)
              (fun p hp => inBox_lower P hbl base levels hbox ga haxlt hlv p (hin p (hmem p (Or.inl hp)))
                (by have := hleft p hp; simpa using this))
              h1 q3 (by rw [q4]; simp only; omega)
            refine ⟨[] ++ (p2 ++ p1), st1, ?_, ?_, w3, ?_⟩
            · simp only [pushChildren, upperBase, nextLevels] at q1 w1 ⊢
              rw [q1]
              simp only
              rw [w1]
            · simp only [List.nil_append]
              exact (List.perm_append_comm.trans (w2.append q2)).trans hperm
            · rw [w4, q4]; simp only; omega

end Draco.Kd
