import DracoProofs.EbPosAgree
import DracoProofs.EbAssignPoints
/-
  `decParent` is no longer an evaluated hypothesis: the hypothesis `DecParentOK` of the conditional value-block theorems
  follows from the STRUCTURE of the two sides (`ParentSetup`: base views isomorphic, traversal runs, the decoder's
  `pointToValueMap`, the encoder's `parentMap`, `CornerTable.create`) — `decParentOK_of_setup` — and the decoder
  invariant "points refine vertices" is a theorem about `assignPoints` (`assignPoints_consistent`).
-/
namespace Draco.EbEnc
open Draco Draco.SeqEnc DecM
open Draco.Eb hiding iabs nextC prevC
open PosAgreeP

/-- the `refines` field of `ParentSetup` / `TupleSetup` from a successful `assignPoints` run: base view -/
theorem pointsRefine_base (co : ConnOut) (n : Nat) (atts : Array AttConn) (c2p : Array Nat) (np tags : Nat)
    (hH : APHyp n co) (hne : atts.isEmpty = false) (hrun : assignPoints co n atts = .ok (c2p, np, tags))
    (lm : Array Nat) :
    PointsRefineVertices { c2v := co.c2v, opp := co.opp, seam := #[], lm := lm, isAtt := false, numFaces := n } c2p := by
  intro c c' hc hc' h
  exact ((assignPoints_consistent co n atts c2p np tags hH hne hrun).2.2 c c' hc hc' h).1

/-- … and for the attribute view of an attribute table `a ∈ atts` -/
theorem pointsRefine_att (co : ConnOut) (n : Nat) (atts : Array AttConn) (c2p : Array Nat) (np tags : Nat)
    (hH : APHyp n co) (hne : atts.isEmpty = false) (hrun : assignPoints co n atts = .ok (c2p, np, tags))
    (a : AttConn) (ha : a ∈ atts) :
    PointsRefineVertices { c2v := a.c2v, opp := co.opp, seam := a.edgeSeam, lm := a.lm, isAtt := true, numFaces := n }
      c2p := by
  intro c c' hc hc' h
  exact ((assignPoints_consistent co n atts c2p np tags hH hne hrun).2.2 c c' hc hc' h).2 a ha

/-- without attribute tables the points ARE the base vertices -/
theorem pointsRefine_empty (co : ConnOut) (n : Nat) (lm : Array Nat) :
    PointsRefineVertices { c2v := co.c2v, opp := co.opp, seam := #[], lm := lm, isAtt := false, numFaces := n } co.c2v :=
  fun _ _ _ _ h => h

/-- **the value block with the parent hypothesis discharged structurally**: `runs_valueBlock_views` with `DecParentOK`
    replaced by `ParentSetup` (whenever the scheme needs the parent) -/
theorem runs_valueBlock_views_struct (ch : EbChoices) (o : EncOpts) (attId kind nc numValues attComponents : Nat)
    (scheme : PScheme) (d e : TView) (processed : Array Nat) (ψ : Nat → Nat) (h : TVIso d e (phi processed) ψ)
    (hg : Hedge d) (hinvol : OppInvol d) (hsize : processed.size = d.numFaces)
    (facesD facesE v2dInit : Array Nat) (v2dSize : Nat) (outD outE : SeqOut)
    (htrav : TraversalRuns d e facesD facesE processed v2dInit v2dSize outD outE)
    (parentE : Option ParentAtt) (parentD : Option Parent) (portable : Array Int) (sch' : PScheme) (bs : Bytes)
    (hnv : numValues ≠ 0) (hk : SchemeKindOK kind scheme)
    (hpar : (effectiveScheme scheme portable).needsParent = true →
      ∃ (a : Attribute) (np : Nat) (dB eB : TView) (ψB : Nat → Nat) (seqPD seqP : SeqOut) (npD : Nat)
        (portableP : Array Int) (pmap mapD : Array Nat) (pe : ParentAtt) (pd : Parent),
        ParentSetup a np facesE dB eB (phi processed) ψB seqPD seqP facesD npD outD outE portableP pmap mapD ∧
        parentE = some pe ∧ pe.map = pmap ∧ pe.values = portableP ∧
        parentD = some pd ∧ pd.numComponents = 3 ∧ pd.intsOk = true ∧ pd.map = mapD ∧ pd.ints = portableP)
    (hnc : 0 < nc) (hn : 0 < outD.pointIds.size) (hlen : portable.size = outD.pointIds.size * nc)
    (hd : outD.d2c.size = outD.pointIds.size) (h32 : outD.pointIds.size * nc < 2 ^ 32)
    (hr : ∀ x ∈ portable.toList, -2 ^ 31 ≤ x ∧ x < 2 ^ 31)
    (hk3 : kind = 3 → NormalsOK o attId nc outD.pointIds.size portable)
    (hF : 3 * d.numFaces + 3 < 2 ^ 31) (hcorners : outD.pointIds.size ≤ 3 * d.numFaces)
    (hcrease : scheme = .constrainedMulti → CreaseCountOK ch attId nc ⟨d, outD.d2c, outD.v2d⟩ portable)
    (henc : encodeIntegerValuesEb ch o attId kind nc numValues scheme ⟨e, outE.d2c, outE.v2d⟩ outE.pointIds parentE
      portable = .ok (sch', bs)) :
    Runs (decodeIntegerValuesEb kind outD.pointIds.size nc attComponents ⟨d, outD.d2c, outD.v2d⟩ outD.pointIds parentD)
      514 bs (portable, TransformData.none) 514 := by
  refine runs_valueBlock_views ch o attId kind nc numValues attComponents scheme d e processed ψ h hg hinvol hsize facesD
    facesE v2dInit v2dSize outD outE htrav parentE parentD portable sch' bs hnv hk ?_ hnc hn hlen hd h32 hr hk3 hF hcorners
    hcrease henc
  intro posE hpos hneed
  obtain ⟨a, np, dB, eB, ψB, seqPD, seqP, npD, portableP, pmap, mapD, pe, pd, hsetup, rfl, h1, h2, rfl, h3, h4, h5, h6⟩ :=
    hpar hneed
  exact decParentOK_of_setup hsetup _ pe pd posE h1 h2 h3 h4 h5 h6 hpos hneed

end Draco.EbEnc
