import DracoProofs.EbConnSplitFree
/-
  The CONNECTIVITY LINK for runs WITHOUT the symbol `S` and with ARBITRARY start faces (interior configurations allowed),
  generalising `ConnSplitFree.eb_connectivity_roundtrip_splitfree`: everything about the DECODER LOOP is ONE hypothesis
  (`DecLoopIso conn`: `connLoop` on every delivering traversal state returns one `co`, `CTIso` to the encoder's table);
  everything else is derived from the run.

  * `sy_of_main` / `symbols_of_run`: one traversal symbol (C / S / L / R / E) per corner pushed to
    `processed_connectivity_corners_` (invariant `SymInv` through `innerTail`, `innerBody`, `stackBody`, `outerTail`,
    `outerBody`) — replaces `EncTrace.trace_of_run` (which needs boundary start faces) as the source of `IsTopo` and of
    `symbols.size ≤ processed.size`.
  * `processed_size_of_run`: `processed.size = symbols.size + #(interior start faces)` (invariant `IfcInv`).
  * `eb_connectivity_roundtrip_noS` (and `…'` with the interior-start count): named domain hypotheses `hnf`, `hnv`, `hedge`
    and `hsz2` (`num_faces ≤ num_symbols + num_symbols / 3`, a check of the DECODER that the encoder does not guarantee: an
    interior start face whose neighbour is already visited contributes a face without any symbol).
  * `eb_connectivity_roundtrip_splitfree'`: the all-boundary case re-derived (sanity).
-/
namespace Draco.EbEnc.ConnSplitFreeI
open Draco Draco.SeqEnc DecM
open Draco.Eb hiding nextC prevC iabs
open Draco.EbEnc.EncCounts Draco.EbEnc.Coverage Draco.EbEnc.ConnTri Draco.EbEnc.ConnGlue Draco.EbEnc.ConnSplitFree AttViews

/-! ## one traversal symbol per processed corner -/

/-- one symbol per corner pushed to `processed_connectivity_corners_`, each a traversal symbol -/
def SymInv (sy P : Array Nat) : Prop := sy.size = P.size ∧ ∀ x, x ∈ sy.toList → IsTopo x

/-- … while the symbol of the corner pushed last is still to come -/
def SymPre (sy P : Array Nat) : Prop := sy.size + 1 = P.size ∧ ∀ x, x ∈ sy.toList → IsTopo x

theorem SymPre.push {sy P : Array Nat} {x : Nat} (h : SymPre sy P) (hx : IsTopo x) : SymInv (sy.push x) P := by
  refine ⟨by simp [h.1], fun y hy => ?_⟩
  rw [Array.toList_push, List.mem_append, List.mem_singleton] at hy
  rcases hy with hy | rfl
  · exact h.2 y hy
  · exact hx

theorem SymInv.pre {sy P : Array Nat} (h : SymInv sy P) (c : Nat) : SymPre sy (P.push c) :=
  ⟨by simp [h.1], h.2⟩

def SYin (s : InSt) : Prop := SymInv s.2.2.2.2.1 s.2.2.2.2.2.1
def SYst (s : StSt) : Prop := SymInv s.2.2.2.2.1 s.2.2.2.2.2.1
def SYo (s : OSt) : Prop := SymInv s.2.2.2.2.1 s.2.2.2.2.2.2.2.1

theorem innerTail_sy {t : CT} {holeId : Array Nat} {valence : Bool} {vf' vh : Array Bool} {P' : Array Nat}
    {splits : Array TopoSplit} {f2s : Array Nat} {lsid : Int} {nss : Nat} {stack : Array Nat}
    {nv face lastCorner vertId : Nat} {onB : Bool} {vv1 : Array Bool} {val : ValEnc} {sy : Array Nat}
    {c : Nat} {r : ForInStep InSt} (h : SymPre sy P')
    (hb : innerTail t holeId valence vf' vh P' splits f2s lsid nss stack nv face lastCorner vertId onB () vv1 val sy c
      = .ok r) : SYin (stepVal r) := by
  unfold innerTail at hb
  obtain ⟨rc, _, hb⟩ := (bind_ok_iff _ _ _).mp hb
  obtain ⟨lc, _, hb⟩ := (bind_ok_iff _ _ _).mp hb
  obtain ⟨rv, hb, _, _⟩ := visited_absorb hb
  obtain ⟨lv, hb, _, _⟩ := visited_absorb hb
  rcases ite_ok hb with ⟨_, hb⟩ | ⟨_, hb⟩
  · splits3 hb s1 hs1 hne1 =>
        (rcases ite_ok hb with ⟨_, hb⟩ | ⟨_, hb⟩
         · over_splits hb =>
             obtain ⟨val1, hb⟩ := ite_bind_absorb hb
             rw [pure_ok hb]; exact h.push (by decide)
         · obtain ⟨val1, hb⟩ := ite_bind_absorb hb
           rw [pure_ok hb]; exact h.push (by decide))
      | (rcases ite_ok hb with ⟨_, hb⟩ | ⟨_, hb⟩
         · splits3 hb s2 hs2 hne2 =>
               (obtain ⟨val1, hb⟩ := ite_bind_absorb hb
                rw [pure_ok hb]; exact h.push (by decide))
             | (obtain ⟨val1, hb⟩ := ite_bind_absorb hb
                rw [pure_ok hb]; exact h.push (by decide))
         · obtain ⟨val1, hb⟩ := ite_bind_absorb hb
           rw [pure_ok hb]; exact h.push (by decide))
  · rcases ite_ok hb with ⟨_, hb⟩ | ⟨_, hb⟩
    · splits3 hb s2 hs2 hne2 =>
          (obtain ⟨val1, hb⟩ := ite_bind_absorb hb
           rw [pure_ok hb]; exact h.push (by decide))
        | (obtain ⟨val1, hb⟩ := ite_bind_absorb hb
           rw [pure_ok hb]; exact h.push (by decide))
    · -- S
      obtain ⟨val1, hb⟩ := ite_bind_absorb hb
      rcases ite_ok hb with ⟨_, hb⟩ | ⟨_, hb⟩
      · obtain ⟨hole, _, hb⟩ := (bind_ok_iff _ _ _).mp hb
        obtain ⟨hv, _, hb⟩ := (bind_ok_iff _ _ _).mp hb
        rcases ite_ok hb with ⟨_, hb⟩ | ⟨_, hb⟩
        · obtain ⟨x, _, hb⟩ := (bind_ok_iff _ _ _).mp hb
          obtain ⟨f2s', _, hb⟩ := (bind_ok_iff _ _ _).mp hb
          rw [pure_ok hb]; exact h.push (by decide)
        · obtain ⟨f2s', _, hb⟩ := (bind_ok_iff _ _ _).mp hb
          rw [pure_ok hb]; exact h.push (by decide)
      · obtain ⟨f2s', _, hb⟩ := (bind_ok_iff _ _ _).mp hb
        rw [pure_ok hb]; exact h.push (by decide)

theorem innerBody_sy {t : CT} {holeId : Array Nat} {valence : Bool} {NF : Nat} (x : Nat) (s : InSt) (r : ForInStep InSt)
    (h : SYin s) (hb : innerBody t holeId valence NF x s = .ok r) : SYin (stepVal r) := by
  obtain ⟨vf, vv, vh, val, sy, P, sp, f2s, ls, nss, st, c, nv⟩ := s
  have h' : SymInv sy P := h
  unfold innerBody at hb
  rcases ite_ok hb with ⟨_, hb⟩ | ⟨_, hb⟩
  · rw [pure_ok hb]; exact h
  obtain ⟨vf', _, hb⟩ := (bind_ok_iff _ _ _).mp hb
  obtain ⟨vertId, _, hb⟩ := (bind_ok_iff _ _ _).mp hb
  obtain ⟨hid, _, hb⟩ := (bind_ok_iff _ _ _).mp hb
  obtain ⟨vis, _, hb⟩ := (bind_ok_iff _ _ _).mp hb
  rcases ite_ok hb with ⟨_, hb⟩ | ⟨_, hb⟩
  · obtain ⟨vv', _, hb⟩ := (bind_ok_iff _ _ _).mp hb
    rcases ite_ok hb with ⟨_, hb⟩ | ⟨_, hb⟩
    · obtain ⟨val1, hb⟩ := ite_bind_absorb hb
      obtain ⟨o, _, hb⟩ := (bind_ok_iff _ _ _).mp hb
      rw [pure_ok hb]; exact (h'.pre c).push (by decide)
    · exact innerTail_sy (h'.pre c) hb
  · exact innerTail_sy (h'.pre c) hb

theorem stackBody_sy {t : CT} {holeId : Array Nat} {valence : Bool} {NF : Nat} (x : Nat) (s : StSt) (r : ForInStep StSt)
    (h : SYst s) (hb : stackBody t holeId valence NF x s = .ok r) : SYst (stepVal r) := by
  obtain ⟨vf, vv, vh, val, sy, P, sp, f2s, ls, nss, st, fin⟩ := s
  unfold stackBody at hb
  rcases ite_ok hb with ⟨_, hb⟩ | ⟨_, hb⟩
  · rw [pure_ok hb]; exact h
  rcases ite_ok hb with ⟨_, hb⟩ | ⟨_, hb⟩
  · rw [pure_ok hb]; exact h
  obtain ⟨b, _, hb⟩ := (bind_ok_iff _ _ _).mp hb
  rcases ite_ok hb with ⟨_, hb⟩ | ⟨_, hb⟩
  · rw [pure_ok hb]; exact h
  obtain ⟨s2, hloop, hb⟩ := (bind_ok_iff _ _ _).mp hb
  have h' : SymInv sy P := h
  have h2 : SYin s2 := range_forIn_inv NF (innerBody t holeId valence NF) SYin
    (fun a s r hI hr => innerBody_sy a s r hI hr)
    (vf, vv, vh, val, sy, P, sp, f2s, ls, nss, st, st.back!, 0) s2 h' hloop
  obtain ⟨vf2, vv2, vh2, val2, sy2, P2, sp2, f2s2, ls2, nss2, st2, c2, nv2⟩ := s2
  rw [pure_ok hb]; exact h2

theorem outerTail_sy {t : CT} {holeId : Array Nat} {valence : Bool} {nfa : Nat} {val : ValEnc} {sy : Array Nat}
    {sf : RAnsBitEnc} {sfs : Array Bool} {P : Array Nat} {sp : Array TopoSplit} {f2s : Array Nat} {ls : Int} {nss : Nat}
    {vf vv vh : Array Bool} {I : Array Nat} {from_ : Nat} {r : ForInStep OSt} (h : SymInv sy P)
    (hb : outerTail t holeId valence nfa val sy sf sfs P sp f2s ls nss () vf vv vh I from_ = .ok r) :
    SYo (stepVal r) := by
  unfold outerTail at hb
  rcases ite_ok hb with ⟨_, hb⟩ | ⟨_, hb⟩
  · rw [pure_ok hb]; exact h
  obtain ⟨s2, hloop, hb⟩ := (bind_ok_iff _ _ _).mp hb
  have h2 : SYst s2 := range_forIn_inv _ (stackBody t holeId valence nfa) SYst
    (fun a s r hI hr => stackBody_sy a s r hI hr)
    (vf, vv, vh, val, sy, P, sp, f2s, ls, nss, #[from_], false) s2 h hloop
  obtain ⟨vf2, vv2, vh2, val2, sy2, P2, sp2, f2s2, ls2, nss2, st2, fin2⟩ := s2
  rcases ite_ok hb with ⟨_, hb⟩ | ⟨_, hb⟩
  · exact (throw_bind_ne hb).elim
  · rw [pure_ok hb]; exact h2

theorem outerBody_sy {t : CT} {holeId : Array Nat} {valence : Bool} {nfa : Nat}
    (cId : Nat) (s : OSt) (r : ForInStep OSt) (hI : SYo s)
    (hb : outerBody t holeId valence nfa cId s = .ok r) : SYo (stepVal r) := by
  obtain ⟨vf, vv, vh, val, sy, sf, sfs, P, ifc, sp, f2s, ls, nss⟩ := s
  have hI' : SymInv sy P := hI
  unfold outerBody at hb
  obtain ⟨b, hb1, hb⟩ := (bind_ok_iff _ _ _).mp hb
  rcases ite_ok hb with ⟨_, hb⟩ | ⟨hnv, hb⟩
  · rw [pure_ok hb]; exact hI
  obtain ⟨d, hd, hb⟩ := (bind_ok_iff _ _ _).mp hb
  rcases ite_ok hb with ⟨_, hb⟩ | ⟨hnd, hb⟩
  · rw [pure_ok hb]; exact hI
  obtain ⟨x, hx, hb⟩ := (bind_ok_iff _ _ _).mp hb
  obtain ⟨interior, sc⟩ := x
  simp only [] at hb
  rcases ite_ok hb with ⟨hint, hb⟩ | ⟨hnint, hb⟩
  · obtain ⟨v0, hv0, hb⟩ := (bind_ok_iff _ _ _).mp hb
    obtain ⟨v1, hv1, hb⟩ := (bind_ok_iff _ _ _).mp hb
    obtain ⟨v2, hv2, hb⟩ := (bind_ok_iff _ _ _).mp hb
    obtain ⟨vv1, hvv1, hb⟩ := (bind_ok_iff _ _ _).mp hb
    obtain ⟨vv2, hvv2, hb⟩ := (bind_ok_iff _ _ _).mp hb
    obtain ⟨vv3, hvv3, hb⟩ := (bind_ok_iff _ _ _).mp hb
    obtain ⟨vf', hvf', hb⟩ := (bind_ok_iff _ _ _).mp hb
    obtain ⟨oppId, hopp, hb⟩ := (bind_ok_iff _ _ _).mp hb
    obtain ⟨b2, _, hb⟩ := (bind_ok_iff _ _ _).mp hb
    rcases ite_ok hb with ⟨_, hb⟩ | ⟨_, hb⟩
    · exact outerTail_sy hI' hb
    · exact outerTail_sy hI' hb
  · obtain ⟨x2, hx2, hb⟩ := (bind_ok_iff _ _ _).mp hb
    obtain ⟨vv', vh'⟩ := x2
    simp only [] at hb
    exact outerTail_sy hI' hb

/-- **one traversal symbol per processed corner**: in the result of the main loop there are as many symbols as corners in
    `processed_connectivity_corners_` (before the init-face corners are appended), each one of C / S / L / R / E -/
theorem sy_of_main (t : CT) (holeId : Array Nat) (nh : Nat) (s : OSt)
    (hmain : forIn [:t.numCorners] (initO t nh) (outerBody t holeId false t.numFaces) = .ok s) :
    s.2.2.2.2.1.size = s.2.2.2.2.2.2.2.1.size ∧ ∀ x, x ∈ s.2.2.2.2.1.toList → IsTopo x :=
  range_forIn_inv t.numCorners (outerBody t holeId false t.numFaces) SYo
    (fun a s r hI hr => outerBody_sy a s r hI hr) (initO t nh) s
    ⟨rfl, fun x hx => by simp [initO] at hx⟩ hmain

/-! ## the init-face corners: one per interior start face -/

def IfcInv (s : OSt) : Prop := s.2.2.2.2.2.2.2.2.1.size = s.2.2.2.2.2.2.1.toList.countP (fun b => b)

set_option linter.unusedVariables false in
theorem outerTail_ifc {t : CT} {holeId : Array Nat} {valence : Bool} {nfa : Nat} {val : ValEnc} {sy : Array Nat}
    {sf : RAnsBitEnc} {sfs : Array Bool} {P : Array Nat} {sp : Array TopoSplit} {f2s : Array Nat} {ls : Int} {nss : Nat}
    {vf vv vh : Array Bool} {I : Array Nat} {from_ : Nat} {r : ForInStep OSt}
    (hb : outerTail t holeId valence nfa val sy sf sfs P sp f2s ls nss () vf vv vh I from_ = .ok r) :
    (stepVal r).2.2.2.2.2.2.2.2.1 = I ∧ (stepVal r).2.2.2.2.2.2.1 = sfs := by
  unfold outerTail at hb
  rcases ite_ok hb with ⟨_, hb⟩ | ⟨_, hb⟩
  · rw [pure_ok hb]; exact ⟨rfl, rfl⟩
  obtain ⟨s2, hloop, hb⟩ := (bind_ok_iff _ _ _).mp hb
  rcases ite_ok hb with ⟨_, hb⟩ | ⟨_, hb⟩
  · exact (throw_bind_ne hb).elim
  · rw [pure_ok hb]; exact ⟨rfl, rfl⟩

theorem outerBody_ifc {t : CT} {holeId : Array Nat} {valence : Bool} {nfa : Nat}
    (cId : Nat) (s : OSt) (r : ForInStep OSt) (hI : IfcInv s)
    (hb : outerBody t holeId valence nfa cId s = .ok r) : IfcInv (stepVal r) := by
  obtain ⟨vf, vv, vh, val, sy, sf, sfs, P, ifc, sp, f2s, ls, nss⟩ := s
  have hI' : ifc.size = sfs.toList.countP (fun b => b) := hI
  have fin : ∀ {b : Bool} {vf vv vh I from_}, I.size = ifc.size + (if b then 1 else 0) →
      outerTail t holeId valence nfa val sy (sf.encodeBit b) (sfs.push b) P sp f2s ls nss () vf vv vh I from_ = .ok r →
      IfcInv (stepVal r) := by
    intro b vf vv vh I from_ hsz h
    obtain ⟨h1, h2⟩ := outerTail_ifc h
    unfold IfcInv
    rw [h1, h2, hsz, hI', Array.toList_push, List.countP_append]
    cases b <;> simp
  unfold outerBody at hb
  obtain ⟨b, hb1, hb⟩ := (bind_ok_iff _ _ _).mp hb
  rcases ite_ok hb with ⟨_, hb⟩ | ⟨hnv, hb⟩
  · rw [pure_ok hb]; exact hI
  obtain ⟨d, hd, hb⟩ := (bind_ok_iff _ _ _).mp hb
  rcases ite_ok hb with ⟨_, hb⟩ | ⟨hnd, hb⟩
  · rw [pure_ok hb]; exact hI
  obtain ⟨x, hx, hb⟩ := (bind_ok_iff _ _ _).mp hb
  obtain ⟨interior, sc⟩ := x
  simp only [] at hb
  rcases ite_ok hb with ⟨hint, hb⟩ | ⟨hnint, hb⟩
  · obtain ⟨v0, hv0, hb⟩ := (bind_ok_iff _ _ _).mp hb
    obtain ⟨v1, hv1, hb⟩ := (bind_ok_iff _ _ _).mp hb
    obtain ⟨v2, hv2, hb⟩ := (bind_ok_iff _ _ _).mp hb
    obtain ⟨vv1, hvv1, hb⟩ := (bind_ok_iff _ _ _).mp hb
    obtain ⟨vv2, hvv2, hb⟩ := (bind_ok_iff _ _ _).mp hb
    obtain ⟨vv3, hvv3, hb⟩ := (bind_ok_iff _ _ _).mp hb
    obtain ⟨vf', hvf', hb⟩ := (bind_ok_iff _ _ _).mp hb
    obtain ⟨oppId, hopp, hb⟩ := (bind_ok_iff _ _ _).mp hb
    obtain ⟨b2, _, hb⟩ := (bind_ok_iff _ _ _).mp hb
    rcases ite_ok hb with ⟨_, hb⟩ | ⟨_, hb⟩
    · exact fin (by simp [hint]) hb
    · exact fin (by simp [hint]) hb
  · obtain ⟨x2, hx2, hb⟩ := (bind_ok_iff _ _ _).mp hb
    obtain ⟨vv', vh'⟩ := x2
    simp only [] at hb
    have hf : interior = false := by simpa using hnint
    exact fin (by simp [hf]) hb

/-- **faces = symbols + interior start faces**: `processed_connectivity_corners_` consists of one corner per symbol and one
    init-face corner per interior start face -/
theorem processed_size_of_run (ch : ConnChoices) (pf : Faces) (conn : ConnEnc)
    (h : encodeConnectivity ch false pf #[] = .ok conn) :
    conn.processed.size = conn.symbols.size + conn.startFaces.toList.countP (fun b => b) := by
  obtain ⟨tbl, holeId, nh, s, hc, hnd, hh, hmain, e_ct, e_P, e_sy, e_sfs⟩ := stages_of_run ch pf conn h
  obtain ⟨h1, _⟩ := sy_of_main _ holeId nh s hmain
  have h2 : IfcInv s := range_forIn_inv _ (outerBody (CT.ofTable tbl) holeId false (CT.ofTable tbl).numFaces) IfcInv
    (fun a s r hI hr => outerBody_ifc a s r hI hr) (initO (CT.ofTable tbl) nh) s rfl hmain
  rw [e_P, e_sy, e_sfs, ← h2]
  simp
  omega

/-! ## the connectivity link for runs without `S` (arbitrary start faces) -/

/-- **everything about the decoder loop, in one hypothesis**: on every traversal state that delivers the symbols
    (decoding order) and the start-face bits, the connectivity loop returns ONE `co`, whose corner table is isomorphic to
    the encoder's along `processed` -/
def DecLoopIso (conn : ConnEnc) : Prop :=
  ∃ co : ConnOut,
    (∀ tr, Delivers tr conn.symbols.toList.reverse conn.startFaces.toList →
      connLoop ⟨conn.processed.size, conn.ct.numVertices - conn.ct.numIsolated, conn.symbols.size, [], true⟩ tr = .ok co) ∧
    CTIso conn.ct conn.processed conn.processed.size co.c2v co.opp

/-- `symbols.size ≤ processed.size` (the init-face corners are the rest), all symbols are traversal symbols -/
theorem symbols_of_run (ch : ConnChoices) (pf : Faces) (conn : ConnEnc)
    (h : encodeConnectivity ch false pf #[] = .ok conn) :
    conn.symbols.size ≤ conn.processed.size ∧ ∀ x, x ∈ conn.symbols.toList → IsTopo x := by
  obtain ⟨tbl, holeId, nh, s, hc, hnd, hh, hmain, e_ct, e_P, e_sy, e_sfs⟩ := stages_of_run ch pf conn h
  obtain ⟨h1, h2⟩ := sy_of_main _ holeId nh s hmain
  rw [e_sy, e_P]
  exact ⟨by simp; omega, h2⟩

/-- **eb_connectivity_roundtrip_noS**: standard traversal, no attribute data; a successful run of the encoder without a
    symbol `S`, start faces ARBITRARY (interior configurations allowed).  Domain hypotheses (checked by the decoder, not
    by the encoder): `hnf`, `hnv`, `hedge`, and `hsz2` (`num_faces ≤ num_symbols + num_symbols / 3`: every interior start
    face comes with at least three symbols; trivial when there is no interior start face).  `hrun`: the decoder loop
    (`DecLoopIso`).  Everything else is derived from the run. -/
theorem eb_connectivity_roundtrip_noS (ch : ConnChoices) (pf : Faces) (conn : ConnEnc)
    (h : encodeConnectivity ch false pf #[] = .ok conn)
    (hnoS : ∀ x, x ∈ conn.symbols.toList → x ≠ topoS)
    (hnf : conn.processed.size ≤ 2 ^ 21)
    (hnv : conn.ct.numVertices - conn.ct.numIsolated ≤ 3 * 2 ^ 21)
    (hedge : 3 * conn.processed.size / 2 ≤
      (conn.ct.numVertices - conn.ct.numIsolated) * (conn.ct.numVertices - conn.ct.numIsolated - 1) / 2)
    (hsz2 : conn.processed.size ≤ conn.symbols.size + conn.symbols.size / 3)
    (hrun : DecLoopIso conn) :
    ∃ mesh, Runs decodeConnectivity 514 ([0] ++ conn.bytes) mesh 514 ∧
      CTIso conn.ct conn.processed mesh.numFaces mesh.c2v mesh.opp ∧ mesh.atts.size = conn.atts.size := by
  obtain ⟨tbl, holeId, nh, s, hc, hnd, hh, hmain, e_ct, e_P, e_sy, e_sfs⟩ := stages_of_run ch pf conn h
  obtain ⟨hsp, hns⟩ := noS_of_main _ holeId nh s hmain (by rw [← e_sy]; exact hnoS)
  have hsize := Coverage.encodeConnectivity_size ch false pf #[] conn h
  have hnv3 := nv_le_of_run ch false pf #[] conn h
  obtain ⟨hsz1, hs⟩ := symbols_of_run ch pf conn h
  obtain ⟨co, hloop, hiso⟩ := hrun
  have hfits := create_fits hc
  have hsfb : s.2.2.2.2.2.2.1.size + 3 < 2 ^ 32 := by
    have := sfsize_of_main _ holeId nh s hmain
    have hnc : (CT.ofTable tbl).numCorners = 3 * pf.size := create_c2v_size hc
    have := create_numCorners_lt hc
    omega
  have hlink := link_of_loop' ch pf tbl hc hnd holeId nh hh s hmain hns hsp
    (conn.ct.numVertices - conn.ct.numIsolated) conn.processed.size (by rw [e_ct])
    (by rw [hsize, e_ct]) (by rw [← e_sy]; exact hs) hnf hnv (by omega) hedge (by rw [← e_sy]; exact hsz1)
    (by rw [← e_sy]; exact hsz2) hsfb co
    (by rw [← e_sy, ← e_sfs]; exact hloop) (by rw [← e_ct, ← e_P]; exact hiso)
  exact hlink conn h

/-- the same with `hsz2` stated as a bound on the number of interior start faces -/
theorem eb_connectivity_roundtrip_noS' (ch : ConnChoices) (pf : Faces) (conn : ConnEnc)
    (h : encodeConnectivity ch false pf #[] = .ok conn)
    (hnoS : ∀ x, x ∈ conn.symbols.toList → x ≠ topoS)
    (hnf : conn.processed.size ≤ 2 ^ 21)
    (hnv : conn.ct.numVertices - conn.ct.numIsolated ≤ 3 * 2 ^ 21)
    (hedge : 3 * conn.processed.size / 2 ≤
      (conn.ct.numVertices - conn.ct.numIsolated) * (conn.ct.numVertices - conn.ct.numIsolated - 1) / 2)
    (hint : conn.startFaces.toList.countP (fun b => b) ≤ conn.symbols.size / 3)
    (hrun : DecLoopIso conn) :
    ∃ mesh, Runs decodeConnectivity 514 ([0] ++ conn.bytes) mesh 514 ∧
      CTIso conn.ct conn.processed mesh.numFaces mesh.c2v mesh.opp ∧ mesh.atts.size = conn.atts.size :=
  eb_connectivity_roundtrip_noS ch pf conn h hnoS hnf hnv hedge
    (by rw [processed_size_of_run ch pf conn h]; omega) hrun

/-- sanity: the all-boundary case (`ConnSplitFree.eb_connectivity_roundtrip_splitfree`) re-derived from the general
    theorem: `hsz2` from `symbols.size = processed.size`, `DecLoopIso` from `DecLoopSt` and `EncTrace.ctIso_St_of_run` -/
theorem eb_connectivity_roundtrip_splitfree' (ch : ConnChoices) (pf : Faces) (conn : ConnEnc)
    (h : encodeConnectivity ch false pf #[] = .ok conn)
    (hnoS : ∀ x, x ∈ conn.symbols.toList → x ≠ topoS)
    (hstart : ∀ b, b ∈ conn.startFaces.toList → b = false)
    (hnf : conn.processed.size ≤ 2 ^ 21)
    (hnv : conn.ct.numVertices - conn.ct.numIsolated ≤ 3 * 2 ^ 21)
    (hedge : 3 * conn.processed.size / 2 ≤
      (conn.ct.numVertices - conn.ct.numIsolated) * (conn.ct.numVertices - conn.ct.numIsolated - 1) / 2)
    (hrun : DecLoopSt conn.processed.size (conn.ct.numVertices - conn.ct.numIsolated) conn.symbols
      conn.startFaces.toList) :
    ∃ mesh, Runs decodeConnectivity 514 ([0] ++ conn.bytes) mesh 514 ∧
      CTIso conn.ct conn.processed mesh.numFaces mesh.c2v mesh.opp ∧ mesh.atts.size = conn.atts.size := by
  have hcnt : conn.startFaces.toList.countP (fun b => b) = 0 := by
    rw [List.countP_eq_zero]
    intro b hb
    simp [hstart b hb]
  obtain ⟨co, hloop, hc2v, hopp⟩ := hrun
  have hiso := EncTrace.ctIso_St_of_run ch pf conn h hnoS hstart (conn.ct.numVertices - conn.ct.numIsolated)
  rw [← hc2v, ← hopp] at hiso
  exact eb_connectivity_roundtrip_noS' ch pf conn h hnoS hnf hnv hedge (by rw [hcnt]; omega) ⟨co, hloop, hiso⟩

end Draco.EbEnc.ConnSplitFreeI
