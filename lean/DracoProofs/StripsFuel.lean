import DracoProofs.StripsGrow
/-
  DracoProofs.StripsFuel — the fuel `numFaces + 1` of the `while (!is_face_visited_[fi])` loop
  (`Strips.growLoop`) is never exhausted: every iteration marks a face that was unmarked, so more
  fuel gives the same result.
-/
namespace Draco
namespace Strips

/-- number of unmarked faces -/
def falseCount (vis : Array Bool) : Nat := vis.toList.count false

theorem count_set_true (l : List Bool) (i : Nat) (h : l[i]? = some false) :
    (l.set i true).count false + 1 = l.count false := by
  induction l generalizing i with
  | nil => simp at h
  | cons b l ih =>
    cases i with
    | zero =>
      simp at h
      subst h
      simp
    | succ k =>
      simp at h
      have := ih k h
      cases b <;> simp <;> omega

theorem falseCount_set {vis : Array Bool} {f : Nat} (h : vis.getD f true = false) :
    falseCount (vis.setIfInBounds f true) + 1 = falseCount vis := by
  unfold falseCount
  rw [Array.toList_setIfInBounds]
  apply count_set_true
  simp only [Array.getD_eq_getD_getElem?] at h
  rw [Array.getElem?_toList]
  cases hv : vis[f]? with
  | none => simp [hv] at h
  | some b => simp [hv] at h; simp [h]

theorem falseCount_le (vis : Array Bool) : falseCount vis ≤ vis.size := by
  unfold falseCount
  have := List.count_le_length (a := false) (l := vis.toList)
  simpa using this

/-- one more unit of fuel changes nothing once the fuel exceeds the number of unmarked faces -/
theorem growCorners_fuel_succ (cx : Ctx) (fuel j ci : Nat) (vis : Array Bool) (h : falseCount vis < fuel) :
    growCorners cx (fuel + 1) j ci vis = growCorners cx fuel j ci vis := by
  induction fuel generalizing j ci vis with
  | zero => omega
  | succ fuel ih =>
    rw [growCorners, growCorners]
    by_cases hv : vis.getD (ci / 3) true = true
    · simp [hv]
    · have hv' : vis.getD (ci / 3) true = false := by simpa using hv
      simp only [hv, if_false, Bool.false_eq_true]
      cases cx.getOpp (zz j ci) with
      | none => rfl
      | some o =>
        simp only
        rw [ih]
        have := falseCount_set hv'
        omega

theorem growCorners_fuel_add (cx : Ctx) (fuel k j ci : Nat) (vis : Array Bool) (h : falseCount vis < fuel) :
    growCorners cx (fuel + k) j ci vis = growCorners cx fuel j ci vis := by
  induction k with
  | zero => rfl
  | succ k ih =>
    rw [← Nat.add_assoc, growCorners_fuel_succ cx (fuel + k) j ci vis (by omega), ih]

/-- **fuel adequacy**: with a visited array of `numFaces` flags the loop of
    `GenerateStripsFromCorner` run with fuel `numFaces + 1` never runs out of fuel — any larger fuel
    produces the same state -/
theorem growLoop_fuel_adequate (cx : Ctx) (back : Bool) (ci k : Nat) (st : Grow)
    (hsz : st.visited.size ≤ cx.faces.size) :
    growLoop cx back (cx.faces.size + 1 + k) ci st = growLoop cx back (cx.faces.size + 1) ci st := by
  have := falseCount_le st.visited
  rw [growLoop_spec, growLoop_spec, growCorners_fuel_add cx (cx.faces.size + 1) k _ _ _ (by omega)]

end Strips
end Draco
