import DracoProofs.IOPlyHeader
/-
  DracoProofs.IOPlyBody — the binary little-endian body written by `PlyEncoder` is split back into
  the same per-vertex / per-face items by `PlyReader::ParseElementData`.
-/
namespace Draco.IO.Ply
open Draco Draco.IO

/-! ### chunks -/

theorem chunks_length (sz n : Nat) (bs : Bytes) : (chunks sz n bs).length = n := by
  induction n generalizing bs with
  | zero => rfl
  | succ n ih => simp [chunks, ih]

theorem chunks_flatten (sz n : Nat) (bs : Bytes) (h : bs.length = sz * n) : (chunks sz n bs).flatten = bs := by
  induction n generalizing bs with
  | zero => simp at h; simp [chunks, h]
  | succ n ih =>
    simp only [chunks, List.flatten_cons]
    rw [ih (bs.drop sz) (by rw [List.length_drop, h, Nat.mul_succ]; omega)]
    exact List.take_append_drop sz bs

/-! ### one entry of scalar properties -/

theorem readEntry_scalars (dt : Nat) (names : List String) : ∀ (v rest : Bytes),
    v.length = dataTypeLength dt * names.length →
    readEntry (scalarProps dt names) (v ++ rest) =
      .ok ((chunks (dataTypeLength dt) names.length v).map (fun x => [x]), rest) := by
  induction names with
  | nil => intro v rest h; simp at h; simp [scalarProps, readEntry, chunks, h]
  | cons nm ns ih =>
    intro v rest h
    have hlen : dataTypeLength dt ≤ v.length := by
      rw [h, List.length_cons, Nat.mul_succ]; omega
    have h1 : ¬ (v ++ rest).length < dataTypeLength dt := by simp; omega
    have ht : (v ++ rest).take (dataTypeLength dt) = v.take (dataTypeLength dt) :=
      List.take_append_of_le_length hlen
    have hd : (v ++ rest).drop (dataTypeLength dt) = v.drop (dataTypeLength dt) ++ rest :=
      List.drop_append_of_le_length hlen
    have ih' := ih (v.drop (dataTypeLength dt)) rest (by
      rw [List.length_drop, h, List.length_cons, Nat.mul_succ]; omega)
    simp only [scalarProps, List.map_cons, readEntry, readProp, if_true, h1, if_false, ht, hd]
    simp only [scalarProps] at ih'
    rw [ih']
    simp [chunks]

theorem readEntry_append (ps1 ps2 : List PProp) (bs : Bytes) :
    readEntry (ps1 ++ ps2) bs =
      match readEntry ps1 bs with
      | .error e => .error e
      | .ok (a, r) =>
        match readEntry ps2 r with
        | .error e => .error e
        | .ok (b, r') => .ok (a ++ b, r') := by
  induction ps1 generalizing bs with
  | nil =>
    simp only [List.nil_append, readEntry]
    cases readEntry ps2 bs with
    | error e => rfl
    | ok x => obtain ⟨b, r'⟩ := x; rfl
  | cons p ps ih =>
    simp only [List.cons_append, readEntry]
    cases hp : readProp p bs with
    | error e => rfl
    | ok x =>
      obtain ⟨v, bs1⟩ := x
      simp only
      rw [ih bs1]
      cases readEntry ps bs1 with
      | error e => rfl
      | ok y =>
        obtain ⟨a, r⟩ := y
        simp only
        cases readEntry ps2 r with
        | error e => rfl
        | ok z => obtain ⟨b, r'⟩ := z; simp

/-- reading a list of entries whose bytes are given per index -/
theorem readEntries_ids (ps : List PProp) (vb : Nat → Bytes) (items : Nat → List (List Bytes))
    (h : ∀ p rest, readEntry ps (vb p ++ rest) = .ok (items p, rest)) :
    ∀ (ids : List Nat) (rest : Bytes),
      readEntries ps ids.length ((ids.map vb).flatten ++ rest) = .ok (ids.map items, rest) := by
  intro ids
  induction ids with
  | nil => intro rest; simp [readEntries]
  | cons p ps' ih =>
    intro rest
    simp only [List.length_cons, List.map_cons, List.flatten_cons, List.append_assoc, readEntries]
    rw [h p]
    simp only
    rw [ih rest]

/-! ### a vertex entry -/

def optChunks (o : Option Attribute) (k : Attribute → Nat) (p : Nat) : List (List Bytes) :=
  match o with
  | none => []
  | some a => (chunks (dataTypeLength a.dataType) (k a) (a.ioPointValue p)).map (fun x => [x])

/-- the items `ParseElementData` stores for vertex `p` -/
def vertexItems (s : Sel) (p : Nat) : List (List Bytes) :=
  (chunks (dataTypeLength s.pos.dataType) 3 (s.pos.ioPointValue p)).map (fun x => [x]) ++
  optChunks s.nrm (fun _ => 3) p ++
  optChunks s.col (fun c => (colourNames.take c.numComponents).length) p

/-- value lengths the body proof needs: every written value has exactly `byte_stride` bytes and the
    stride matches the number of properties declared for it -/
structure Shapes (g : Geometry) (s : Sel) : Prop where
  posLen : ∀ p, p < g.numPoints → (s.pos.ioPointValue p).length = dataTypeLength s.pos.dataType * 3
  nrmLen : ∀ n, s.nrm = some n → ∀ p, p < g.numPoints → (n.ioPointValue p).length = dataTypeLength n.dataType * 3
  colLen : ∀ c, s.col = some c → ∀ p, p < g.numPoints →
    (c.ioPointValue p).length = dataTypeLength c.dataType * (colourNames.take c.numComponents).length

theorem readEntry_opt (o : Option Attribute) (names : Attribute → List String) (p : Nat)
    (hl : ∀ a, o = some a → (a.ioPointValue p).length = dataTypeLength a.dataType * (names a).length)
    (rest : Bytes) :
    readEntry (optProps o names) (optValue o p ++ rest) = .ok (optChunks o (fun a => (names a).length) p, rest) := by
  cases o with
  | none => simp [optProps, optValue, optChunks, readEntry]
  | some a =>
    simp only [optProps, optValue, optChunks]
    exact readEntry_scalars a.dataType (names a) _ rest (hl a rfl)

theorem readEntry_vertex (g : Geometry) (s : Sel) (hS : Shapes g s) (p : Nat) (hp : p < g.numPoints)
    (rest : Bytes) :
    readEntry (vertexProps s) (vertexBytes s p ++ rest) = .ok (vertexItems s p, rest) := by
  unfold vertexProps vertexBytes vertexItems
  rw [List.append_assoc (scalarProps _ _), readEntry_append]
  have h1 := readEntry_scalars s.pos.dataType ["x", "y", "z"] (s.pos.ioPointValue p)
    (optValue s.nrm p ++ optValue s.col p ++ rest) (by simpa using hS.posLen p hp)
  rw [List.append_assoc, List.append_assoc, ← List.append_assoc (optValue s.nrm p), h1]
  simp only
  rw [readEntry_append]
  have h2 := readEntry_opt s.nrm (fun _ => ["nx", "ny", "nz"]) p
    (fun a ha => by simpa using hS.nrmLen a ha p hp) (optValue s.col p ++ rest)
  rw [List.append_assoc, h2]
  simp only
  have h3 := readEntry_opt s.col (fun c => colourNames.take c.numComponents) p
    (fun a ha => hS.colLen a ha p hp) rest
  rw [h3]
  simp [List.append_assoc]

theorem readEntries_vertices (g : Geometry) (s : Sel) (hS : Shapes g s) (rest : Bytes) :
    readEntries (vertexProps s) g.numPoints
      (((List.range g.numPoints).map (vertexBytes s)).flatten ++ rest) =
      .ok ((List.range g.numPoints).map (vertexItems s), rest) := by
  -- `readEntries_ids` needs the per-entry fact for all indices; restrict to the range by
  -- induction over an arbitrary sub-list of valid ids
  have key : ∀ (ids : List Nat), (∀ p ∈ ids, p < g.numPoints) → ∀ rest : Bytes,
      readEntries (vertexProps s) ids.length ((ids.map (vertexBytes s)).flatten ++ rest) =
        .ok (ids.map (vertexItems s), rest) := by
    intro ids
    induction ids with
    | nil => intro _ rest; simp [readEntries]
    | cons p ps ih =>
      intro hall rest
      simp only [List.length_cons, List.map_cons, List.flatten_cons, List.append_assoc, readEntries]
      rw [readEntry_vertex g s hS p (hall p (by simp))]
      simp only
      rw [ih (fun q hq => hall q (by simp [hq])) rest]
  have := key (List.range g.numPoints) (by intro p hp; simpa using hp) rest
  simpa using this

/-! ### a face entry -/

theorem chunks_append (sz n : Nat) (d rest : Bytes) (h : d.length = sz * n) :
    chunks sz n (d ++ rest) = chunks sz n d := by
  induction n generalizing d with
  | zero => rfl
  | succ n ih =>
    have hlen : sz ≤ d.length := by rw [h, Nat.mul_succ]; omega
    simp only [chunks]
    rw [List.take_append_of_le_length hlen, List.drop_append_of_le_length hlen,
      ih (d.drop sz) (by rw [List.length_drop, h, Nat.mul_succ]; omega)]

/-- a list property with a one-byte count -/
theorem readProp_list (nm : Bytes) (dt k : Nat) (d rest : Bytes) (hk : k < 256)
    (hd : d.length = dataTypeLength dt * k) :
    readProp ⟨nm, dt, dtUINT8⟩ (k :: (d ++ rest)) = .ok (chunks (dataTypeLength dt) k d, rest) := by
  unfold readProp
  have h0 : ¬ (dtUINT8 = 0) := by decide
  simp only [h0, if_false, dataTypeLength_u8]
  have h1 : ¬ (k :: (d ++ rest)).length < 1 := by simp
  simp only [h1, if_false, List.take_succ_cons, List.take_zero, List.drop_succ_cons, List.drop_zero, leVal]
  have h2 : ¬ (k + 256 * 0 ≥ 2 ^ 63) := by omega
  have h3 : ¬ (d ++ rest).length < dataTypeLength dt * (k + 256 * 0) := by simp; omega
  simp only [h2, h3, if_false]
  have e : k + 256 * 0 = k := by omega
  rw [e, chunks_append _ _ _ _ hd, ← hd, List.drop_left]

/-- the items stored for face `f` -/
def faceItems (s : Sel) (f : Nat × Nat × Nat) : List (List Bytes) :=
  [leBytes 4 f.1, leBytes 4 f.2.1, leBytes 4 f.2.2] ::
  (match s.tex with
   | none => []
   | some t => [chunks (dataTypeLength t.dataType) 6 (t.ioPointValue f.1 ++ t.ioPointValue f.2.1 ++ t.ioPointValue f.2.2)])

theorem readEntry_face (s : Sel) (f : Nat × Nat × Nat)
    (ht : ∀ t, s.tex = some t → (t.ioPointValue f.1 ++ t.ioPointValue f.2.1 ++ t.ioPointValue f.2.2).length =
      dataTypeLength t.dataType * 6) (rest : Bytes) :
    readEntry (faceProps s) (faceBytes s f ++ rest) = .ok (faceItems s f, rest) := by
  unfold faceProps faceBytes faceItems
  have hvi : ∀ tail : Bytes, readProp ⟨ascii "vertex_indices", dtINT32, dtUINT8⟩
      ([3] ++ leBytes 4 f.1 ++ leBytes 4 f.2.1 ++ leBytes 4 f.2.2 ++ tail) =
      .ok ([leBytes 4 f.1, leBytes 4 f.2.1, leBytes 4 f.2.2], tail) := by
    intro tail
    have := readProp_list (ascii "vertex_indices") dtINT32 3 (leBytes 4 f.1 ++ leBytes 4 f.2.1 ++ leBytes 4 f.2.2)
      tail (by omega) (by simp [leBytes_length])
    have e : [3] ++ leBytes 4 f.1 ++ leBytes 4 f.2.1 ++ leBytes 4 f.2.2 ++ tail =
        3 :: ((leBytes 4 f.1 ++ leBytes 4 f.2.1 ++ leBytes 4 f.2.2) ++ tail) := by simp [List.append_assoc]
    rw [e, this]
    have c : chunks (dataTypeLength dtINT32) 3 (leBytes 4 f.1 ++ leBytes 4 f.2.1 ++ leBytes 4 f.2.2) =
        [leBytes 4 f.1, leBytes 4 f.2.1, leBytes 4 f.2.2] := by
      simp only [dataTypeLength_i32, chunks]
      rw [List.append_assoc, take_left_eq _ _ 4 (leBytes_length 4 _), drop_left_eq _ _ 4 (leBytes_length 4 _),
        take_left_eq _ _ 4 (leBytes_length 4 _), drop_left_eq _ _ 4 (leBytes_length 4 _),
        List.take_of_length_le (by rw [leBytes_length]; exact Nat.le_refl 4)]
    rw [c]
  cases htex : s.tex with
  | none =>
    simp only [List.append_nil, readEntry]
    rw [hvi rest]
  | some t =>
    have hl := ht t htex
    simp only [readEntry]
    have e : [3] ++ leBytes 4 f.1 ++ leBytes 4 f.2.1 ++ leBytes 4 f.2.2 ++
        ([6] ++ t.ioPointValue f.1 ++ t.ioPointValue f.2.1 ++ t.ioPointValue f.2.2) ++ rest =
        [3] ++ leBytes 4 f.1 ++ leBytes 4 f.2.1 ++ leBytes 4 f.2.2 ++
        (6 :: ((t.ioPointValue f.1 ++ t.ioPointValue f.2.1 ++ t.ioPointValue f.2.2) ++ rest)) := by
      simp [List.append_assoc]
    rw [e, hvi]
    simp only
    rw [readProp_list (ascii "texcoord") t.dataType 6 _ rest (by omega) hl]

theorem readEntries_faces (s : Sel) (faces : List (Nat × Nat × Nat))
    (ht : ∀ f ∈ faces, ∀ t, s.tex = some t →
      (t.ioPointValue f.1 ++ t.ioPointValue f.2.1 ++ t.ioPointValue f.2.2).length = dataTypeLength t.dataType * 6)
    (rest : Bytes) :
    readEntries (faceProps s) faces.length ((faces.map (faceBytes s)).flatten ++ rest) =
      .ok (faces.map (faceItems s), rest) := by
  induction faces with
  | nil => simp [readEntries]
  | cons f fs ih =>
    simp only [List.length_cons, List.map_cons, List.flatten_cons, List.append_assoc, readEntries]
    rw [readEntry_face s f (ht f (by simp))]
    simp only
    rw [ih (fun g hg => ht g (by simp [hg]))]

end Draco.IO.Ply
