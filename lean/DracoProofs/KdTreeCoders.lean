import DracoProofs.KdTreeRoundtrip
import DracoProofs.Direct
import DracoProofs.RansBit
import DracoProofs.BitTwiddle
import DracoProofs.Folded
import DracoProofs.FoldedInst
/-
  The bit decoders of the kd-tree policies (`Kd.coders`) deliver what the bit encoders were
  given: instances of `SrcSpec`, and the `StartDecoding` calls on the encoders' output.
-/
namespace Draco.Kd

/-! ### projections of the event list -/

theorem opsOf_cons (w : Which) (e : Ev) (more : List Ev) :
    opsOf w (e :: more) = if e.1 = w then e.2 :: opsOf w more else opsOf w more := by
  by_cases h : e.1 = w <;> simp [opsOf, List.filterMap_cons, h]

theorem opsOf_append (w : Which) (a b : List Ev) : opsOf w (a ++ b) = opsOf w a ++ opsOf w b := by
  simp only [opsOf, List.filterMap_append]

theorem opsOf_swap (w : Which) (e1 e2 : Ev) (more : List Ev) (h : e1.1 ≠ e2.1) :
    opsOf w (e1 :: e2 :: more) = opsOf w (e2 :: e1 :: more) := by
  simp only [opsOf_cons]
  by_cases h1 : e1.1 = w
  · by_cases h2 : e2.1 = w
    · exact absurd (h1.trans h2.symm) h
    · simp [h1, h2]
  · by_cases h2 : e2.1 = w <;> simp [h1, h2]

/-! ### `DirectBitDecoder` -/

/-- the decoder is going to deliver the values of `ops` -/
def DelDirect (d : DirectDec) (ops : List BitOp) : Prop :=
  d.Inv ∧ ∃ S, d.stream = opsBits ops ++ S

theorem DelDirect.lsb32 {d : DirectDec} {n v : Nat} {ops : List BitOp}
    (h : DelDirect d (.lsb32 n v :: ops)) (h1 : 1 ≤ n) (h2 : n ≤ 32) :
    (d.lsb32 n).1 = some (v % 2^n) ∧ DelDirect (d.lsb32 n).2 ops := by
  obtain ⟨hi, S, hs⟩ := h
  simp only [opsBits, List.flatMap_cons, BitOp.bits, List.append_assoc] at hs
  obtain ⟨r1, r2, r3⟩ := DirectDec.lsb32_spec d hi n v h1 h2 _ hs
  exact ⟨r1, r3, S, r2⟩

theorem DelDirect.bit {d : DirectDec} {b : Bool} {ops : List BitOp}
    (h : DelDirect d (.bit b :: ops)) :
    (d.nextBit).1 = b ∧ DelDirect (d.nextBit).2 ops := by
  obtain ⟨hi, S, hs⟩ := h
  simp only [opsBits, List.flatMap_cons, BitOp.bits, List.cons_append, List.nil_append] at hs
  obtain ⟨r1, r2, r3⟩ := DirectDec.nextBit_spec d hi b _ hs
  exact ⟨r1, r3, S, r2⟩

/-- `EndEncoding` followed by `StartDecoding` -/
theorem directStart_encode (ops : List BitOp) (hv : ∀ op ∈ ops, op.Valid)
    (hlen : (opsBits ops).length + 3 < 2^32) (rest : Bytes) :
    ∃ d, directStart (directEncode ops ++ rest) = some (d, rest) ∧ DelDirect d ops := by
  obtain ⟨f1, f2⟩ := DirectEnc.foldl_op_spec ops DirectEnc.start DirectEnc.start_inv hv
  rw [DirectEnc.start_flat, List.nil_append] at f1
  unfold directEncode
  generalize ops.foldl DirectEnc.op DirectEnc.start = e at f1 f2 ⊢
  obtain ⟨d, pad, h1, h2, h3⟩ := direct_start_finish e f2 (by rw [f1]; exact hlen) rest
  exact ⟨d, h1, h2, pad, by rw [h3, f1]⟩

/-! ### `Policy::NumbersDecoder` -/

def DelNum : NumDec → List BitOp → Prop
  | .direct d, ops => DelDirect d ops
  | .rans d, ops => Yields RAnsBitDec.nextBit d (opsBits ops)
  | .folded d, ops =>
    List.Forall₂ (Yields (ransBitDecIface false).next) d.nums (cols ops) ∧
      Yields (ransBitDecIface false).next d.bitDec (bitCol ops)

theorem DelNum.number {c : NumDec} {n v : Nat} {ops : List BitOp}
    (h : DelNum c (.lsb32 n v :: ops)) (h1 : 1 ≤ n) (h2 : n ≤ 32) :
    (c.number false n).1 = v % 2^n ∧ DelNum (c.number false n).2 ops := by
  cases c with
  | direct d =>
    obtain ⟨r1, r2⟩ := DelDirect.lsb32 (d := d) h h1 h2
    simp only [NumDec.number, directOr0]
    generalize d.lsb32 n = x at r1 r2
    obtain ⟨o, d1⟩ := x
    simp only at r1 r2
    subst r1
    exact ⟨rfl, r2⟩
  | rans d =>
    simp only [DelNum, opsBits, List.flatMap_cons, BitOp.bits] at h
    obtain ⟨y1, y2⟩ := yields_append RAnsBitDec.nextBit (msbBits n v) d _ h 0
    rw [msbBits_length] at y1 y2
    simp only [NumDec.number, RAnsBitDec.lsb32]
    exact ⟨by rw [y1, foldl_shlAdd32_value n v h2], y2⟩
  | folded d =>
    obtain ⟨hc, hb⟩ := h
    simp only [cols] at hc
    simp only [bitCol] at hb
    have hlen : (msbBits n v).length ≤ (cols ops).length := by
      rw [msbBits_length, cols_length]; exact h2
    obtain ⟨g1, g2⟩ := foldedGet_spec (D := ransBitDecIface false) (msbBits n v) d.nums (cols ops) 0 hc hlen
    rw [msbBits_length] at g1 g2
    simp only [NumDec.number, FoldedDec.req]
    exact ⟨by rw [g1, foldl_shlAdd32_value n v h2], g2, hb⟩

/-! ### the four decoders together -/

def DelCoders (c : Coders) (evs : List Ev) : Prop :=
  DelNum c.num (opsOf .num evs) ∧ DelDirect c.rem (opsOf .rem evs) ∧
    DelDirect c.axis (opsOf .axis evs) ∧ DelDirect c.half (opsOf .half evs)

theorem coders_spec : SrcSpec (coders false) DelCoders := by
  constructor
  · intro s n v more h1 h2 _ h
    obtain ⟨a, b, c, d⟩ := h
    simp only [opsOf_cons, if_true, reduceCtorEq, if_false] at a b c d
    obtain ⟨r1, r2⟩ := DelNum.number a h1 h2
    exact ⟨r1, r2, b, c, d⟩
  · intro s n v more h1 h2 _ h
    obtain ⟨a, b, c, d⟩ := h
    simp only [opsOf_cons, if_true, reduceCtorEq, if_false] at a b c d
    obtain ⟨r1, r2⟩ := DelDirect.lsb32 b h1 h2
    exact ⟨r1, a, r2, c, d⟩
  · intro s v more _ h
    obtain ⟨a, b, c, d⟩ := h
    simp only [opsOf_cons, if_true, reduceCtorEq, if_false] at a b c d
    obtain ⟨r1, r2⟩ := DelDirect.lsb32 c (by decide) (by decide)
    simp only [coders, directOr0]
    generalize s.axis.lsb32 4 = x at r1 r2
    obtain ⟨o, d1⟩ := x
    simp only at r1 r2
    subst r1
    exact ⟨rfl, a, b, r2, d⟩
  · intro s b more h
    obtain ⟨a, b', c, d⟩ := h
    simp only [opsOf_cons, if_true, reduceCtorEq, if_false] at a b' c d
    obtain ⟨r1, r2⟩ := DelDirect.bit d
    exact ⟨r1, a, b', c, r2⟩
  · intro s e1 e2 more hne h
    obtain ⟨a, b, c, d⟩ := h
    exact ⟨by rw [opsOf_swap _ _ _ _ hne.symm]; exact a, by rw [opsOf_swap _ _ _ _ hne.symm]; exact b,
      by rw [opsOf_swap _ _ _ _ hne.symm]; exact c, by rw [opsOf_swap _ _ _ _ hne.symm]; exact d⟩

/-! ### `StartDecoding` of the numbers decoder on the numbers encoder's output -/

/-- `FoldedBit32Encoder::EndEncoding` followed by `FoldedBit32Decoder::StartDecoding` -/
theorem foldedStart_encode {ε δ : Type} {E : BitEncIface ε} {D : BitDecIface δ} {flat : ε → List Bool}
    {inv : ε → Prop} (hok : CoderOK E D flat inv) (ops : List BitOp) (hlen : ops.length + 3 < 2^32)
    (rest : Bytes) :
    ∃ d, foldedStart D (foldedEncode E ops ++ rest) = some (d, rest) ∧
      List.Forall₂ (Yields D.next) d.nums (cols ops) ∧ Yields D.next d.bitDec (bitCol ops) := by
  obtain ⟨hn, hb⟩ := folded_enc_final hok ops
  unfold foldedEncode FoldedEnc.finish
  generalize ops.foldl (FoldedEnc.op E) (FoldedEnc.start E) = fin at hn hb
  obtain ⟨fs, fb⟩ := fin
  simp only at hn hb ⊢
  have hfl : fs.length = 32 := by rw [forall2_length hn, cols_length]
  obtain ⟨hbi, hbf⟩ := hb
  obtain ⟨db, b1, b2⟩ := hok.dec fb rest hbi (by
    rw [hbf]; have := bitCol_bound ops; omega)
  obtain ⟨ds, s1, s2⟩ := startMany_spec hok fs (cols ops) hn
    (fun c hc => by have := cols_bound ops c hc; omega) (E.finish fb ++ rest)
  rw [hfl] at s1
  refine ⟨⟨ds, db⟩, ?_, s2, by rw [← hbf]; exact b2⟩
  rw [List.append_assoc]
  generalize fs.flatMap E.finish ++ (E.finish fb ++ rest) = input at s1 ⊢
  generalize E.finish fb ++ rest = input2 at s1 b1
  unfold foldedStart
  rw [s1]
  simp only [b1]

theorem numbersStart_direct (tab : List (Nat × Nat)) (zpr : Nat → Nat → Nat)
    (level : Nat) (ops : List BitOp) (hv : ∀ op ∈ ops, op.Valid)
    (hlen : (opsBits ops).length + 3 < 2^32) (rest : Bytes) (hl : level < 2) :
    ∃ d, directStart (encodeNumbers tab zpr level ops ++ rest) = some (d, rest) ∧
      DelNum (.direct d) ops := by
  simp only [encodeNumbers, hl, if_true]
  exact directStart_encode ops hv hlen rest

theorem numbersStart_rans (tab : List (Nat × Nat)) (hd : DivOK tab) (zpr : Nat → Nat → Nat)
    (level : Nat) (ops : List BitOp) (hv : ∀ op ∈ ops, op.Valid)
    (hlen : (opsBits ops).length + 3 < 2^32) (rest : Bytes) (hl : ¬ level < 2) (hl2 : level < 4) :
    ∃ d, ransBitStart false (encodeNumbers tab zpr level ops ++ rest) = some (d, rest) ∧
      DelNum (.rans d) ops := by
  simp only [encodeNumbers, hl, if_false, hl2, if_true]
  obtain ⟨f1, _⟩ := RAnsBitEnc.foldl_op_spec ops RAnsBitEnc.start RAnsBitEnc.start_inv hv
  rw [RAnsBitEnc.start_flat, List.nil_append] at f1
  unfold ransBitEncode
  generalize ops.foldl RAnsBitEnc.op RAnsBitEnc.start = e at f1 ⊢
  obtain ⟨d, h1, h2⟩ := ransBit_start_finish tab hd zpr e (by rw [f1]; exact hlen) rest
  exact ⟨d, h1, by simp only [DelNum]; rw [← f1]; exact h2⟩

theorem numbersStart_folded (tab : List (Nat × Nat)) (hd : DivOK tab) (zpr : Nat → Nat → Nat)
    (level : Nat) (ops : List BitOp) (hcount : ops.length + 3 < 2^32) (rest : Bytes)
    (hl : ¬ level < 2) (hl2 : ¬ level < 4) :
    ∃ d, foldedStart (ransBitDecIface false) (encodeNumbers tab zpr level ops ++ rest) = some (d, rest) ∧
      DelNum (.folded d) ops := by
  simp only [encodeNumbers, hl, if_false, hl2]
  exact foldedStart_encode (ransBit_coderOK tab hd zpr) ops hcount rest

end Draco.Kd
