import DracoProofs.EbCoverage
import DracoProofs.EbCreateVc
import DracoProofs.EbCTIso
/-
  `CountsIso.eb_encoded_points_eq_decoded` with every ENCODER-side hypothesis discharged from the encoder run
  `encodeConnectivity ch valence posFaces acv = .ok conn`:

  * `FanHyps.encB / encVc / encLm / encCov`: `fanHyps_of_create` + `ofTable_hvcE` (EbCreateVc) + `phi_nondeg_of_run`
    (the images `phi processed d` lie in the non-degenerate faces of `processed`, `encodeConnectivity_faces`);
  * `hiso` (count): `ofTable_hiso` (EbCreateVc);
  * `Coverage n conn.ct (phi conn.processed)`: `coverage_of_run` — a recorded left-most corner lies in a non-degenerate
    face (`create_vertexCorners_nondeg`: only visited corners are recorded, only corners of non-degenerate faces are
    visited), that face is a face of `processed` (`Coverage.encodeConnectivity_coverage`), and the three rotations of
    `processed[i]` are the three corners of its face.

  What remains are the connectivity link `TVIso … (phi conn.processed) ψ`, the decoder-side facts `APHyp`, `hhole`,
  `SeamFlagsSound`, and the attribute link `AttVertIff`.
-/
namespace Draco
namespace CornerTable

/-- a recorded `vertex_corners_[v]` is a corner of a NON-DEGENERATE input face: `ComputeVertexCorners` only records
    corners it visits, and it only visits corners of non-degenerate faces (`DInv`) -/
theorem create_vertexCorners_nondeg {faces : Faces} {table : CornerTable} (hc : create faces = some table)
    (v c : Nat) (h : oget table.vertexCorners v = some c) : faceDegenerate faces (c / 3) = false := by
  have hlt := (create_vertexCorners_vertex hc v c h).1
  obtain ⟨_, _, h3, _, _⟩ := createF_eq hc
  have hsz := size_initCtv faces
  have hinv := computeVertexCornersF_ginv hsz (finalOpp_inv (initCtv faces) (3 * faces.size + 1))
    (3 * faces.size + 1) (by rw [hsz]; omega)
  obtain ⟨_, hD⟩ := computeVertexCornersF_dinv hsz (finalOpp_inv (initCtv faces) (3 * faces.size + 1))
    (3 * faces.size + 1)
  rw [h3] at h
  have g1 := (hinv.ginv v c h).1
  rw [← isDegenA_initCtv faces (c / 3) (by omega)]
  exact hD c g1

end CornerTable
end Draco

namespace Draco.EbEnc.CountsIso
open Draco
open Draco.Eb hiding nextC prevC iabs
open Draco.Counts
open Draco.EbEnc.EncCounts AttViews

/-! ### the corner map `phi` -/

theorem phi_0 (p : Array Nat) (i : Nat) : phi p (3 * i) = p[i]! := by
  unfold phi
  have e1 : 3 * i / 3 = i := by omega
  have e2 : 3 * i % 3 = 0 := by omega
  simp [e1, e2]

theorem phi_1 (p : Array Nat) (i : Nat) : phi p (3 * i + 1) = Eb.nextC p[i]! := by
  unfold phi
  have e1 : (3 * i + 1) / 3 = i := by omega
  have e2 : (3 * i + 1) % 3 = 1 := by omega
  simp [e1, e2]

theorem phi_2 (p : Array Nat) (i : Nat) : phi p (3 * i + 2) = Eb.prevC p[i]! := by
  unfold phi
  have e1 : (3 * i + 2) / 3 = i := by omega
  have e2 : (3 * i + 2) % 3 = 2 := by omega
  simp [e1, e2]

/-- `phi p d` stays in the face of `p[d / 3]` -/
theorem phi_face (p : Array Nat) (d : Nat) (h : p[d / 3]! ≠ inv) : phi p d / 3 = p[d / 3]! / 3 := by
  unfold phi
  simp only []
  split
  · rfl
  · split
    · exact Eb.nextC_face _ h
    · exact Eb.prevC_face _ h

/-- degeneracy of a face of the encoder's table, in terms of the input -/
theorem isDegenerated_ofTable {faces : Faces} {table : CornerTable} (hc : CornerTable.create faces = some table)
    (f : Nat) (hf : f < faces.size) :
    isDegenerated (CT.ofTable table) f = .ok (faceDegenerate faces f) := by
  have hk := ctok_ofTable hc
  have hf' : f < (CT.ofTable table).numFaces := by rw [← ofTable_view_numFaces hc] at hf; exact hf
  rw [isDegenerated_eq hk hf']
  have := CornerTable.createF_isDegenerated hc f hf
  exact congrArg Except.ok this

section run
variable {ch : ConnChoices} {valence : Bool} {posFaces : Faces} {acv : Array (Nat × Array Nat)} {conn : ConnEnc}

/-- **hnd from the run**: the image of every decoder corner lies in a non-degenerate input face -/
theorem phi_nondeg_of_run (henc : encodeConnectivity ch valence posFaces acv = .ok conn)
    {table : CornerTable} (hcreate : CornerTable.create posFaces = some table) (hct : conn.ct = CT.ofTable table) :
    ∀ d, d < 3 * conn.processed.size → faceDegenerate posFaces (phi conn.processed d / 3) = false := by
  intro d hd
  have hi : d / 3 < conn.processed.size := by omega
  have hmem : conn.processed[d / 3]! ∈ conn.processed.toList := by
    rw [getElem!_pos conn.processed (d / 3) hi]
    exact Array.getElem_mem_toList hi
  obtain ⟨hlt, hdeg⟩ := (encodeConnectivity_faces ch valence posFaces acv conn henc).2.1 _ hmem
  rw [hct] at hlt hdeg
  have hnc : (CT.ofTable table).numCorners = 3 * posFaces.size := create_c2v_size hcreate
  have hfit := create_fits hcreate
  rw [hnc] at hlt
  rw [phi_face _ _ (by omega)]
  rw [isDegenerated_ofTable hcreate _ (by omega)] at hdeg
  injection hdeg

/-- **`Coverage` from the run**: every recorded left-most corner of the encoder's table is the image of a decoder
    corner -/
theorem coverage_of_run (henc : encodeConnectivity ch valence posFaces acv = .ok conn) :
    Coverage conn.processed.size conn.ct (phi conn.processed) := by
  obtain ⟨table, _, hcreate, hct, _⟩ := encodeConnectivity_visited ch valence posFaces acv conn henc
  have hcovF := Coverage.encodeConnectivity_coverage ch valence posFaces acv conn henc
  rw [hct] at hcovF
  rw [hct]
  intro w hw hne
  have hnc : (CT.ofTable table).numCorners = 3 * posFaces.size := create_c2v_size hcreate
  have hfit := create_fits hcreate
  have hsz : (CT.ofTable table).vc.size = table.vertexCorners.size := by
    show (table.vertexCorners.map fun o => o.getD inv).size = _
    rw [Array.size_map]
  have hget := ofTable_vc_get table w (by omega)
  -- the recorded corner
  cases ho : oget table.vertexCorners w with
  | none => rw [hget, ho] at hne; exact absurd rfl hne
  | some c =>
    rw [hget, ho]
    simp only [Option.getD_some]
    have hclt := (CornerTable.create_vertexCorners_vertex hcreate w c ho).1
    have hnd := CornerTable.create_vertexCorners_nondeg hcreate w c ho
    have hfl : c / 3 < posFaces.size := by omega
    have hf' : c / 3 < (CT.ofTable table).numFaces := by
      rw [← ofTable_view_numFaces hcreate] at hfl; exact hfl
    have hmem := hcovF (c / 3) hf' (by rw [isDegenerated_ofTable hcreate _ hfl, hnd])
    rw [List.mem_map] at hmem
    obtain ⟨x, hx, hxf⟩ := hmem
    rw [Array.mem_toList_iff, Array.mem_iff_getElem] at hx
    obtain ⟨i, hi, hxi⟩ := hx
    have hpi : conn.processed[i]! = x := by rw [getElem!_pos conn.processed i hi]; exact hxi
    have hxinv : x < inv := by omega
    have hcases : c = x ∨ c = Eb.nextC x ∨ c = Eb.prevC x := by
      rw [Eb.nextC_eq x hxinv, prevC_eq x hxinv]
      split <;> split <;> omega
    rcases hcases with e | e | e
    · exact ⟨3 * i, by omega, by rw [phi_0, hpi, e]⟩
    · exact ⟨3 * i + 1, by omega, by rw [phi_1, hpi, e]⟩
    · exact ⟨3 * i + 2, by omega, by rw [phi_2, hpi, e]⟩

/-- **`FanHyps` from the run**: only the connectivity link and the decoder-side facts remain -/
theorem fanHyps_of_run (henc : encodeConnectivity ch valence posFaces acv = .ok conn)
    {n : Nat} {co : ConnOut} {ψ : Nat → Nat} (hn : n = conn.processed.size)
    (hiso : TVIso (baseViewD n co.c2v co.opp co.vc) conn.ct.view (phi conn.processed) ψ)
    (hdec : APHyp n co)
    (hhole : ∀ v, v < co.vc.size → co.vc[v]! ≠ inv → co.hole[v]! = true → ∃ k, iter (sRP co.opp) k co.vc[v]! = inv) :
    FanHyps n co conn.ct (phi conn.processed) ψ := by
  obtain ⟨table, _, hcreate, hct, _⟩ := encodeConnectivity_visited ch valence posFaces acv conn henc
  have hnd := phi_nondeg_of_run henc hcreate hct
  rw [hct] at hiso ⊢
  exact fanHyps_of_create hcreate hiso hdec hhole (ofTable_hvcE hcreate) (by rw [hn]; exact hnd)

/-- `APHyp.tbl` of the decoder's table is a consequence of the connectivity link (transport of the created table's
    structure through the `TVIso`, `AttViews.fanTbl_dec`); what stays decoder-side in `APHyp` are the sizes, `hvcD`
    (a recorded left-most corner is a corner of its vertex), `cover` and `closed` (the latter is about the decoder's
    own `is_vert_hole_` flags, which no isomorphism determines) -/
theorem aphyp_of_run (henc : encodeConnectivity ch valence posFaces acv = .ok conn)
    {n : Nat} {co : ConnOut} {φ ψ : Nat → Nat}
    (hiso : TVIso (baseViewD n co.c2v co.opp co.vc) conn.ct.view φ ψ)
    (hszc : co.c2v.size = 3 * n) (hszo : co.opp.size = 3 * n)
    (hvcD : ∀ v, v < co.vc.size → co.vc[v]! ≠ inv → co.vc[v]! < 3 * n ∧ co.c2v[co.vc[v]!]! = v)
    (hcover : ∀ c, c < 3 * n → co.c2v[c]! < co.vc.size ∧ InFan co.opp co.vc[co.c2v[c]!]! c)
    (hclosed : ∀ v, v < co.vc.size → co.vc[v]! ≠ inv → co.hole[v]! = false → ∀ k, iter (sRP co.opp) k co.vc[v]! ≠ inv) :
    APHyp n co := by
  obtain ⟨table, _, hcreate, hct, _⟩ := encodeConnectivity_visited ch valence posFaces acv conn henc
  rw [hct] at hiso
  exact ⟨fanTbl_dec hcreate hiso hszc hszo hvcD, hcover, hclosed⟩

/-- **`hiso` (count) from the run** -/
theorem usedVerts_count_of_run (henc : encodeConnectivity ch valence posFaces acv = .ok conn) :
    conn.ct.numVertices - conn.ct.numIsolated = (usedVerts conn.ct.vc).length := by
  obtain ⟨table, _, hcreate, hct, _⟩ := encodeConnectivity_visited ch valence posFaces acv conn henc
  rw [hct]
  exact ofTable_hiso hcreate

/-- **C09, Edgebreaker points, from the encoder run**: `num_encoded_points` = the number of points of the decoded mesh
    (more than one attribute).  Nothing is assumed about the encoder's corner table: it is the one
    `EncodeConnectivity` builds. -/
theorem eb_encoded_points_eq_decoded_of_run (atts : Array Attribute) (used : Array AttConn) (nE : Nat)
    (co : ConnOut) (n : Nat) (attsD : Array AttConn) (c2p : Array Nat) (nD tags : Nat) (ψ : Nat → Nat)
    (hatts : atts.size > 1)
    (hrunE : computeNumberOfEncodedPoints atts conn used = .ok nE)
    (henc : encodeConnectivity ch valence posFaces acv = .ok conn)
    (hne : attsD.isEmpty = false)
    (hrunD : assignPoints co n attsD = .ok (c2p, nD, tags))
    (hn : n = conn.processed.size)
    (hiso : TVIso (baseViewD n co.c2v co.opp co.vc) conn.ct.view (phi conn.processed) ψ)
    (hdec : APHyp n co)
    (hhole : ∀ v, v < co.vc.size → co.vc[v]! ≠ inv → co.hole[v]! = true → ∃ k, iter (sRP co.opp) k co.vc[v]! = inv)
    (hiff : AttVertIff n attsD used (phi conn.processed))
    (h2 : SeamFlagsSound co attsD) :
    nE = nD :=
  eb_encoded_points_eq_decoded atts conn used nE co n attsD c2p nD tags (phi conn.processed) ψ hatts hrunE hne hrunD
    (fanHyps_of_run henc hn hiso hdec hhole) hiff h2 (by rw [hn]; exact coverage_of_run henc)
    (usedVerts_count_of_run henc)

/-- the position-only configuration, from the encoder run -/
theorem eb_encoded_points_eq_decoded_single_of_run (atts : Array Attribute) (used : Array AttConn) (nE : Nat)
    (co : ConnOut) (n : Nat) (attsD : Array AttConn) (c2p : Array Nat) (nD tags : Nat) (ψ : Nat → Nat)
    (hatts : atts.size ≤ 1)
    (hrunE : computeNumberOfEncodedPoints atts conn used = .ok nE)
    (henc : encodeConnectivity ch valence posFaces acv = .ok conn)
    (hne : attsD.isEmpty = true)
    (hrunD : assignPoints co n attsD = .ok (c2p, nD, tags))
    (hn : n = conn.processed.size)
    (hiso : TVIso (baseViewD n co.c2v co.opp co.vc) conn.ct.view (phi conn.processed) ψ)
    (hdec : APHyp n co)
    (hhole : ∀ v, v < co.vc.size → co.vc[v]! ≠ inv → co.hole[v]! = true → ∃ k, iter (sRP co.opp) k co.vc[v]! = inv)
    (hconn : co.numConnVerts = (usedVerts co.vc).length) :
    nE = nD :=
  eb_encoded_points_eq_decoded_single atts conn used nE co n attsD c2p nD tags (phi conn.processed) ψ hatts hrunE hne
    hrunD (fanHyps_of_run henc hn hiso hdec hhole) (by rw [hn]; exact coverage_of_run henc)
    (usedVerts_count_of_run henc) hconn

end run

end Draco.EbEnc.CountsIso
