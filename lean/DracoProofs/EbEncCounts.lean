import DracoModel.EbEncoder
import DracoModel.EbCounts
import DracoProofs.EbCreateProps
import DracoProofs.EbAttViews
import DracoProofs.EbCounts
/-
  C09, encoder half: the element counts the Edgebreaker encoder reports, against its own corner table.

  PART A (`MeshEdgebreakerEncoder::ComputeNumberOfEncodedFaces` = `num_faces - NumDegeneratedFaces`, against
  `processed_connectivity_corners_` of `EbEnc.encodeConnectivity`).

  PART B (`MeshEdgebreakerEncoder::ComputeNumberOfEncodedPoints` against the abstract per-vertex model
  `Counts.encPoints` of DracoModel/EbCounts.lean, the fan being read off the corner table).
-/
namespace Draco.EbEnc.EncCounts
open Draco
open Draco.Eb hiding nextC prevC iabs

/-! ### checked accessors -/

theorem rdB_get {site : String} {a : Array Bool} {i : Nat} {b : Bool} (h : rdB site a i = .ok b) :
    i < a.size ∧ a.getD i false = b := by
  unfold rdB at h
  split at h
  · rename_i hi
    simp only [pure, Except.pure] at h
    cases h
    exact ⟨hi, by simp [hi]⟩
  · simp [throw, throwThe, MonadExceptOf.throw] at h

theorem wrB_get {site : String} {a : Array Bool} {i : Nat} {v : Bool} {r : Array Bool} (h : wrB site a i v = .ok r) :
    i < a.size ∧ r = a.setIfInBounds i v := by
  unfold wrB at h
  split at h
  · rename_i hi
    simp only [pure, Except.pure] at h
    cases h
    exact ⟨hi, by simp [Array.setIfInBounds, hi]⟩
  · simp [throw, throwThe, MonadExceptOf.throw] at h

theorem rd_get {site : String} {a : Array Nat} {i v : Nat} (h : rd site a i = .ok v) :
    i < a.size ∧ vget a i = v := by
  unfold rd at h
  split at h
  · rename_i hi
    simp only [pure, Except.pure] at h
    cases h
    exact ⟨hi, by simp [vget, hi]⟩
  · simp [throw, throwThe, MonadExceptOf.throw] at h

theorem ne_inv_beq {c : Nat} (h : c ≠ inv) : (c == inv) = false := by simpa using h

theorem vertex_get {c2v : Array Nat} {c v : Nat} (hc : c ≠ inv) (h : vertex c2v c = .ok v) :
    c < c2v.size ∧ vget c2v c = v := by
  unfold vertex at h
  rw [ne_inv_beq hc] at h
  exact rd_get h

theorem opposite_get {opp : Array Nat} {c o : Nat} (hc : c ≠ inv) (h : opposite opp c = .ok o) :
    c < opp.size ∧ vget opp c = o := by
  unfold opposite at h
  rw [ne_inv_beq hc] at h
  exact rd_get h

theorem bget_set' (a : Array Bool) (i j : Nat) (v : Bool) (hi : i < a.size) :
    (a.setIfInBounds i v).getD j false = if j = i then v else a.getD j false := by
  rw [bget_set]
  by_cases e : i = j
  · subst e; simp [hi]
  · have : ¬ j = i := fun h => e h.symm
    simp [e, this]

/-! ### corner arithmetic below the invalid index -/

theorem nextC_cf (c : Nat) (h : c < inv) : Eb.nextC c = if c % 3 = 2 then c - 2 else c + 1 := Eb.nextC_eq c h

theorem prevC_cf (c : Nat) (h : c < inv) : Eb.prevC c = if c % 3 = 0 then c + 2 else c - 1 := by
  unfold Eb.prevC inv at *
  have e1 : (c == 4294967295) = false := by simp; omega
  simp [e1]

/-- the three corners of the face of `c` are `c`, `Next(c)`, `Previous(c)` -/
theorem face_corners (c : Nat) (h : c < inv) (k : Nat) (hk : k < 3) :
    3 * (c / 3) + k = c ∨ 3 * (c / 3) + k = Eb.nextC c ∨ 3 * (c / 3) + k = Eb.prevC c := by
  rw [nextC_cf c h, prevC_cf c h]
  split <;> split <;> omega

theorem nextC_div3 (c : Nat) (h : c < inv) : Eb.nextC c / 3 = c / 3 := Eb.nextC_face c (by omega)
theorem prevC_div3 (c : Nat) (h : c < inv) : Eb.prevC c / 3 = c / 3 := Eb.prevC_face c (by omega)

theorem nextC_lt3 {c n : Nat} (h : c < 3 * n) (hn : 3 * n ≤ inv) : Eb.nextC c < 3 * n := by
  rw [nextC_cf c (by omega)]; split <;> omega

theorem prevC_lt3 {c n : Nat} (h : c < 3 * n) (hn : 3 * n ≤ inv) : Eb.prevC c < 3 * n := by
  rw [prevC_cf c (by omega)]; split <;> omega

theorem inv_eq : inv = 4294967295 := rfl

theorem prevC_nextC' (c : Nat) (h : c < inv) : Eb.prevC (Eb.nextC c) = c := Eb.prevC_nextC c h
theorem nextC_prevC' (c : Nat) (h : c < inv) : Eb.nextC (Eb.prevC c) = c := Eb.nextC_prevC c h

theorem nextC_nextC' (c : Nat) (h : c < inv) : Eb.nextC (Eb.nextC c) = Eb.prevC c := by
  have h1 : Eb.nextC c < inv := Eb.nextC_lt c h
  rw [nextC_cf _ h1, nextC_cf c h, prevC_cf c h]
  rw [inv_eq] at h
  split <;> split <;> split <;> omega

theorem prevC_prevC' (c : Nat) (h : c < inv) : Eb.prevC (Eb.prevC c) = Eb.nextC c := by
  have h1 : Eb.prevC c < inv := by rw [prevC_cf c h, inv_eq]; rw [inv_eq] at h; split <;> omega
  rw [prevC_cf _ h1, nextC_cf c h, prevC_cf c h]
  rw [inv_eq] at h
  split <;> split <;> split <;> omega

/-! ### what the face count uses of the corner table -/

/-- properties of the encoder's corner table used by the face count (all hold of `CT.ofTable` of a table made by
    `CornerTable.create`: `ctok_ofTable`) -/
structure CTOK (t : CT) : Prop where
  three : t.c2v.size = 3 * t.numFaces
  fits : t.c2v.size ≤ inv
  oppsz : t.opp.size = t.c2v.size
  opp_lt : ∀ c, c < t.c2v.size → vget t.opp c ≠ inv → vget t.opp c < t.c2v.size
  /-- the two other corners of the face opposite to an edge carry the vertices of the edge -/
  hedge : ∀ c, c < t.c2v.size → vget t.opp c ≠ inv →
    vget t.c2v (Eb.nextC c) = vget t.c2v (Eb.prevC (vget t.opp c)) ∧
    vget t.c2v (Eb.prevC c) = vget t.c2v (Eb.nextC (vget t.opp c))
  /-- degenerate faces have no neighbours -/
  oppnd : ∀ c, c < t.c2v.size → vget t.opp c ≠ inv → isDegenA t.c2v (vget t.opp c / 3) = false
  oppface : ∀ c, c < t.c2v.size → vget t.opp c ≠ inv → vget t.opp c / 3 ≠ c / 3

theorem ctok_ofTable {faces : Faces} {table : CornerTable} (hc : CornerTable.create faces = some table) :
    CTOK (CT.ofTable table) := by
  have hsz : (CT.ofTable table).c2v.size = 3 * faces.size := create_c2v_size hc
  have hf := create_fits hc
  have hget : ∀ c, c < 3 * faces.size → vget (CT.ofTable table).opp c = (table.opposite (some c)).getD inv := by
    intro c hlt
    rw [← AttViews.ofTable_opp_get hc c hlt]
    show Array.getD _ c 0 = _
    rw [Array.getElem!_eq_getD]
    rfl
  have hsome : ∀ c, c < 3 * faces.size → vget (CT.ofTable table).opp c ≠ inv →
      table.opposite (some c) = some (vget (CT.ofTable table).opp c) := by
    intro c hlt hne
    rw [hget c hlt] at hne ⊢
    cases hx : table.opposite (some c) with
    | none => rw [hx] at hne; exact absurd rfl hne
    | some o => rfl
  have hcv : ∀ c, vget (CT.ofTable table).c2v c = vget table.cornerToVertex c := fun _ => rfl
  refine ⟨?_, ?_, ?_, ?_, ?_, ?_, ?_⟩
  · show _ = 3 * ((CT.ofTable table).c2v.size / 3)
    omega
  · omega
  · show (Array.map _ table.oppositeCorners).size = _
    rw [Array.size_map, create_opp_size hc, hsz]
  · intro c hlt hne
    rw [hsz] at hlt ⊢
    exact (CornerTable.createF_opposite_symm hc c _ (hsome c hlt hne)).2.1
  · intro c hlt hne
    rw [hsz] at hlt
    have hto := hsome c hlt hne
    obtain ⟨_, holt, _, _, _⟩ := CornerTable.createF_opposite_symm hc c _ hto
    obtain ⟨e1, e2⟩ := CornerTable.create_opposite_edge_strong hc c _ hto
    rw [eb_nextC_eq c (by omega), eb_prevC_eq c (by omega), eb_nextC_eq _ (by omega), eb_prevC_eq _ (by omega)]
    exact ⟨e1, e2⟩
  · intro c hlt hne
    rw [hsz] at hlt
    have hto := hsome c hlt hne
    obtain ⟨_, holt, hoc, _, _⟩ := CornerTable.createF_opposite_symm hc c _ hto
    have hd := CornerTable.createF_isDegenerated hc (vget (CT.ofTable table).opp c / 3) (by omega)
    show isDegenA table.cornerToVertex _ = false
    have hd' : isDegenA table.cornerToVertex (vget (CT.ofTable table).opp c / 3) =
        faceDegenerate faces (vget (CT.ofTable table).opp c / 3) := hd
    rw [hd']
    cases hx : faceDegenerate faces (vget (CT.ofTable table).opp c / 3) with
    | false => rfl
    | true =>
      have := (CornerTable.createF_degenerate_unlinked hc _ hx).1
      rw [hoc] at this
      cases this
  · intro c hlt hne
    rw [hsz] at hlt
    exact (CornerTable.createF_opposite_symm hc c _ (hsome c hlt hne)).2.2.2.2


/-! ### the invariant of `EncodeConnectivity` -/

/-- `visitedVerts` only grows -/
def Mono (a b : Array Bool) : Prop := b.size = a.size ∧ ∀ i, a.getD i false = true → b.getD i false = true

theorem Mono.refl (a : Array Bool) : Mono a a := ⟨rfl, fun _ h => h⟩

theorem Mono.trans {a b c : Array Bool} (h1 : Mono a b) (h2 : Mono b c) : Mono a c :=
  ⟨h2.1.trans h1.1, fun i h => h2.2 i (h1.2 i h)⟩

theorem Mono.set (a : Array Bool) (i : Nat) : Mono a (a.setIfInBounds i true) :=
  ⟨by simp, fun j h => bget_set_true_mono a i j h⟩

/-- `visited_faces_` marks exactly the faces of the corners in `processed_connectivity_corners_` (`P`) and
    `init_face_connectivity_corners_` (`I`), each once; no degenerate face is marked; the vertices of a marked face are
    marked in `visited_vertex_ids_` -/
structure Inv (t : CT) (vf vv : Array Bool) (P I : Array Nat) : Prop where
  vfsz : vf.size = t.numFaces
  cnt : ∀ f, (P.toList ++ I.toList).countP (fun c => c / 3 == f) = if vf.getD f false = true then 1 else 0
  nd : ∀ f, vf.getD f false = true → isDegenA t.c2v f = false
  verts : ∀ f, vf.getD f false = true → ∀ k, k < 3 → vv.getD (vget t.c2v (3 * f + k)) false = true

theorem Inv.mono {t : CT} {vf vv vv' : Array Bool} {P I : Array Nat} (h : Inv t vf vv P I) (hm : Mono vv vv') :
    Inv t vf vv' P I :=
  ⟨h.vfsz, h.cnt, h.nd, fun f hf k hk => hm.2 _ (h.verts f hf k hk)⟩

/-- marking a new face -/
theorem Inv.visit {t : CT} {vf vv vv' : Array Bool} {P I P' I' : Array Nat} (h : Inv t vf vv P I) (c : Nat)
    (hlt : c / 3 < vf.size) (hun : vf.getD (c / 3) false = false) (hnd : isDegenA t.c2v (c / 3) = false)
    (hm : Mono vv vv') (hv : ∀ k, k < 3 → vv'.getD (vget t.c2v (3 * (c / 3) + k)) false = true)
    (hPI : ∀ f, (P'.toList ++ I'.toList).countP (fun x => x / 3 == f) =
      (P.toList ++ I.toList).countP (fun x => x / 3 == f) + if c / 3 = f then 1 else 0) :
    Inv t (vf.setIfInBounds (c / 3) true) vv' P' I' := by
  refine ⟨by simp [h.vfsz], ?_, ?_, ?_⟩
  · intro f
    rw [hPI f, h.cnt f, bget_set' _ _ _ _ hlt]
    by_cases e : f = c / 3
    · subst e; simp [hun]
    · have : ¬ c / 3 = f := fun h => e h.symm
      simp [e, this]
  · intro f hf
    rw [bget_set' _ _ _ _ hlt] at hf
    by_cases e : f = c / 3
    · subst e; exact hnd
    · rw [if_neg e] at hf; exact h.nd f hf
  · intro f hf k hk
    rw [bget_set' _ _ _ _ hlt] at hf
    by_cases e : f = c / 3
    · subst e; exact hv k hk
    · rw [if_neg e] at hf; exact hm.2 _ (h.verts f hf k hk)

theorem countP_pushP (P I : Array Nat) (c f : Nat) :
    ((P.push c).toList ++ I.toList).countP (fun x => x / 3 == f) =
      (P.toList ++ I.toList).countP (fun x => x / 3 == f) + if c / 3 = f then 1 else 0 := by
  simp only [Array.toList_push, List.countP_append, List.countP_cons, List.countP_nil, beq_iff_eq]
  omega

theorem countP_pushI (P I : Array Nat) (c f : Nat) :
    (P.toList ++ (I.push c).toList).countP (fun x => x / 3 == f) =
      (P.toList ++ I.toList).countP (fun x => x / 3 == f) + if c / 3 = f then 1 else 0 := by
  simp only [Array.toList_push, List.countP_append, List.countP_cons, List.countP_nil, beq_iff_eq]
  omega

/-- a corner the traversal may still enter: valid, in a non-degenerate face, the end points of its gate edge visited -/
def CornerOK (t : CT) (vv : Array Bool) (c : Nat) : Prop :=
  c = inv ∨ (c < t.c2v.size ∧ isDegenA t.c2v (c / 3) = false ∧
    vv.getD (vget t.c2v (Eb.nextC c)) false = true ∧ vv.getD (vget t.c2v (Eb.prevC c)) false = true)

theorem CornerOK.mono {t : CT} {vv vv' : Array Bool} {c : Nat} (h : CornerOK t vv c) (hm : Mono vv vv') :
    CornerOK t vv' c := by
  rcases h with h | ⟨h1, h2, h3, h4⟩
  · exact Or.inl h
  · exact Or.inr ⟨h1, h2, hm.2 _ h3, hm.2 _ h4⟩

/-- the corner the traversal is at: additionally its face is not visited -/
def CurOK (t : CT) (vf vv : Array Bool) (c : Nat) : Prop :=
  c = inv ∨ (CornerOK t vv c ∧ vf.getD (c / 3) false = false)

def StackOK (t : CT) (vv : Array Bool) (stack : Array Nat) : Prop := ∀ c ∈ stack.toList, CornerOK t vv c

theorem StackOK.mono {t : CT} {vv vv' : Array Bool} {st : Array Nat} (h : StackOK t vv st) (hm : Mono vv vv') :
    StackOK t vv' st := fun c hc => (h c hc).mono hm

theorem StackOK.pop {t : CT} {vv : Array Bool} {st : Array Nat} (h : StackOK t vv st) : StackOK t vv st.pop := by
  intro c hc
  rw [Array.toList_pop] at hc
  exact h c (List.mem_of_mem_dropLast hc)

theorem StackOK.split {t : CT} {vv : Array Bool} {st : Array Nat} {l r : Nat} (h : StackOK t vv st)
    (hl : CornerOK t vv l) (hr : CornerOK t vv r) : StackOK t vv ((st.set! (st.size - 1) l).push r) := by
  intro c hc
  rw [Array.toList_push, List.mem_append] at hc
  rcases hc with hc | hc
  · rw [Array.set!_eq_setIfInBounds, Array.toList_setIfInBounds] at hc
    rcases List.mem_or_eq_of_mem_set hc with hc | hc
    · exact h c hc
    · rw [hc]; exact hl
  · simp only [List.mem_singleton] at hc
    rw [hc]; exact hr

theorem StackOK.single {t : CT} {vv : Array Bool} {c : Nat} (h : CornerOK t vv c) : StackOK t vv #[c] := by
  intro x hx
  simp only [List.mem_singleton] at hx
  rw [hx]; exact h

theorem StackOK.back {t : CT} {vv : Array Bool} {st : Array Nat} (h : StackOK t vv st) (hne : st.isEmpty = false) :
    CornerOK t vv st.back! := by
  apply h
  have hpos : 0 < st.size := by
    rcases Nat.eq_zero_or_pos st.size with e | e
    · rw [Array.isEmpty_iff_size_eq_zero.mpr e] at hne; cases hne
    · exact e
  rw [Array.back!_eq_back?, Array.back?_eq_getElem?]
  simp [hpos]


/-! ### the steps of the traversal on the invariant -/

theorem CTOK.numFaces_lt {t : CT} (hk : CTOK t) : t.numFaces < inv := by
  have h1 := hk.three
  have h2 := hk.fits
  rw [inv_eq] at h2 ⊢
  omega

theorem CTOK.next_lt {t : CT} (hk : CTOK t) {c : Nat} (hc : c < t.c2v.size) : Eb.nextC c < t.c2v.size := by
  have h1 := hk.three
  have h2 := hk.fits
  rw [h1] at hc h2 ⊢
  exact nextC_lt3 hc h2

theorem CTOK.prev_lt {t : CT} (hk : CTOK t) {c : Nat} (hc : c < t.c2v.size) : Eb.prevC c < t.c2v.size := by
  have h1 := hk.three
  have h2 := hk.fits
  rw [h1] at hc h2 ⊢
  exact prevC_lt3 hc h2

theorem faceOf_ne {c : Nat} (h : c ≠ inv) : faceOf c = c / 3 := by
  unfold faceOf
  rw [ne_inv_beq h]
  rfl

/-- the corner opposite to `Next(c)` or `Previous(c)` can be entered once the three vertices of the face of `c` are
    visited; it lies in another face -/
theorem opp_cornerOK {t : CT} (hk : CTOK t) {vv : Array Bool} {c x o : Nat} (hc : c < t.c2v.size)
    (hx : x = Eb.nextC c ∨ x = Eb.prevC c) (ho : opposite t.opp x = .ok o)
    (h0 : vv.getD (vget t.c2v c) false = true) (h1 : vv.getD (vget t.c2v (Eb.nextC c)) false = true)
    (h2 : vv.getD (vget t.c2v (Eb.prevC c)) false = true) :
    CornerOK t vv o ∧ (o ≠ inv → o / 3 ≠ c / 3) := by
  by_cases hoi : o = inv
  · exact ⟨Or.inl hoi, fun h => absurd hoi h⟩
  have hfit := hk.fits
  have hci : c < inv := by omega
  have hxlt : x < t.c2v.size := by
    rcases hx with e | e
    · rw [e]; exact hk.next_lt hc
    · rw [e]; exact hk.prev_lt hc
  have hxd : x / 3 = c / 3 := by
    rcases hx with e | e
    · rw [e]; exact nextC_div3 c hci
    · rw [e]; exact prevC_div3 c hci
  obtain ⟨_, hox⟩ := opposite_get (by omega) ho
  rw [← hox] at hoi
  have hlt := hk.opp_lt x hxlt hoi
  have hnd := hk.oppnd x hxlt hoi
  have hfc := hk.oppface x hxlt hoi
  obtain ⟨e1, e2⟩ := hk.hedge x hxlt hoi
  rw [hox] at hlt hnd hfc e1 e2
  refine ⟨Or.inr ⟨hlt, hnd, ?_, ?_⟩, fun _ => by rw [← hxd]; exact hfc⟩
  · rw [← e2]
    rcases hx with e | e
    · rw [e, prevC_nextC' c hci]; exact h0
    · rw [e, prevC_prevC' c hci]; exact h1
  · rw [← e1]
    rcases hx with e | e
    · rw [e, nextC_nextC' c hci]; exact h2
    · rw [e, nextC_prevC' c hci]; exact h0

/-- the vertex of `Next(o)` for `o = Opposite(Next(c))` is the vertex of `c` -/
theorem opp_next_vertex {t : CT} (hk : CTOK t) {c o : Nat} (hc : c < t.c2v.size)
    (ho : opposite t.opp (Eb.nextC c) = .ok o) (hoi : o ≠ inv) : vget t.c2v (Eb.nextC o) = vget t.c2v c := by
  have hfit := hk.fits
  have hci : c < inv := by omega
  have hxlt := hk.next_lt hc
  obtain ⟨_, hox⟩ := opposite_get (by omega) ho
  rw [← hox] at hoi
  obtain ⟨_, e2⟩ := hk.hedge _ hxlt hoi
  rw [hox, prevC_nextC' c hci] at e2
  exact e2.symm

/-- marking the face of the current corner -/
theorem cur_visit {t : CT} (hk : CTOK t) {vf vv vv' vf' : Array Bool} {P I : Array Nat} {c vertId : Nat} {site : String}
    (h : Inv t vf vv P I) (hcur : CurOK t vf vv c) (hw : wrB site vf (faceOf c) true = .ok vf') (hm : Mono vv vv')
    (hvert : vertex t.c2v c = .ok vertId) (hv : vv'.getD vertId false = true) :
    c ≠ inv ∧ c < t.c2v.size ∧ vget t.c2v c = vertId ∧ vf' = vf.setIfInBounds (c / 3) true ∧
      Inv t vf' vv' (P.push c) I ∧
      vv'.getD (vget t.c2v (Eb.nextC c)) false = true ∧ vv'.getD (vget t.c2v (Eb.prevC c)) false = true := by
  obtain ⟨hlt, hvf⟩ := wrB_get hw
  have hne : c ≠ inv := by
    intro e
    rw [e] at hlt
    have : faceOf inv = inv := rfl
    rw [this, h.vfsz] at hlt
    have := hk.numFaces_lt
    omega
  rw [faceOf_ne hne] at hlt hvf
  obtain ⟨_, evert⟩ := vertex_get hne hvert
  rcases hcur with e | ⟨hok, hun⟩
  · exact absurd e hne
  rcases hok with e | ⟨hc, hnd, g1, g2⟩
  · exact absurd e hne
  have hfit := hk.fits
  refine ⟨hne, hc, evert, hvf, ?_, hm.2 _ g1, hm.2 _ g2⟩
  rw [hvf]
  apply h.visit c hlt hun hnd hm ?_ (countP_pushP P I c)
  intro k hk3
  rcases face_corners c (by omega) k hk3 with e | e | e
  · rw [e, evert]; exact hv
  · rw [e]; exact hm.2 _ g1
  · rw [e]; exact hm.2 _ g2

/-- symbol `C`: the face to the right of a vertex reached for the first time is not visited -/
theorem next_C {t : CT} (hk : CTOK t) {vf vv vv' : Array Bool} {P I : Array Nat} {c o : Nat}
    (h : Inv t vf vv P I) (hc : c < t.c2v.size) (hvis : vv.getD (vget t.c2v c) false = false)
    (ho : opposite t.opp (Eb.nextC c) = .ok o)
    (h0 : vv'.getD (vget t.c2v c) false = true) (h1 : vv'.getD (vget t.c2v (Eb.nextC c)) false = true)
    (h2 : vv'.getD (vget t.c2v (Eb.prevC c)) false = true) :
    CurOK t (vf.setIfInBounds (c / 3) true) vv' o := by
  by_cases hoi : o = inv
  · exact Or.inl hoi
  obtain ⟨hok, hface⟩ := opp_cornerOK hk hc (Or.inl rfl) ho h0 h1 h2
  refine Or.inr ⟨hok, ?_⟩
  have hface := hface hoi
  rw [bget_set]
  have : ¬ (c / 3 = o / 3 ∧ c / 3 < vf.size) := fun e => hface e.1.symm
  rw [if_neg this]
  cases hvo : vf.getD (o / 3) false with
  | false => rfl
  | true =>
    rcases hok with e | ⟨holt, _, _, _⟩
    · exact absurd e hoi
    have hfit := hk.fits
    have hoinv : o < inv := by omega
    have hv := h.verts (o / 3) hvo (Eb.nextC o % 3) (Nat.mod_lt _ (by omega))
    have hd := nextC_div3 o hoinv
    have e : 3 * (o / 3) + Eb.nextC o % 3 = Eb.nextC o := by omega
    rw [e, opp_next_vertex hk hc ho hoi, hvis] at hv
    cases hv

/-- symbols `L`, `R` (and the corners pushed at `S`): a neighbour whose face is found unvisited -/
theorem next_side {t : CT} (hk : CTOK t) {vf' vv' : Array Bool} {c x o : Nat} {site : String} (hc : c < t.c2v.size)
    (hx : x = Eb.nextC c ∨ x = Eb.prevC c) (ho : opposite t.opp x = .ok o) (hoi : o ≠ inv)
    (hr : rdB site vf' (faceOf o) = .ok false)
    (h0 : vv'.getD (vget t.c2v c) false = true) (h1 : vv'.getD (vget t.c2v (Eb.nextC c)) false = true)
    (h2 : vv'.getD (vget t.c2v (Eb.prevC c)) false = true) :
    CurOK t vf' vv' o := by
  obtain ⟨hok, _⟩ := opp_cornerOK hk hc hx ho h0 h1 h2
  rw [faceOf_ne hoi] at hr
  exact Or.inr ⟨hok, (rdB_get hr).2⟩


/-! ### `encodeConnectivity` over named loop bodies

The three nested loops of `EncodeConnectivity` / `EncodeConnectivityFromCorner` (the loop over the faces, the loop over
`corner_traversal_stack_`, the traversal loop) as `forIn` loops over named bodies.  The bodies (and two of their join
points, `innerTail` and `outerTail`) are the elaborated bodies of `EbEnc.encodeConnectivity` as printed by `#print` (the
state tuples are those of the `do` notation); `encodeConnectivity_eq` holds by `rfl`. -/

/-- state of the traversal loop: visited faces, visited vertices, visited holes, valence encoder, symbols,
    `processed_connectivity_corners_`, split events, `face_to_split_symbol_map_`, last symbol id, number of split symbols,
    `corner_traversal_stack_`, the current corner, number of faces visited by this loop -/
abbrev InSt := Array Bool × Array Bool × Array Bool × ValEnc × Array Nat × Array Nat × Array TopoSplit × Array Nat × Int × Nat ×
  Array Nat × Nat × Nat

/-- state of the stack loop: as `InSt` up to the stack, then the termination flag -/
abbrev StSt := Array Bool × Array Bool × Array Bool × ValEnc × Array Nat × Array Nat × Array TopoSplit × Array Nat × Int × Nat ×
  Array Nat × Bool

/-- state of the loop over the faces: visited faces, visited vertices, visited holes, valence encoder, symbols, start face
    encoder, start faces, `processed_connectivity_corners_`, `init_face_connectivity_corners_`, split events,
    `face_to_split_symbol_map_`, last symbol id, number of split symbols -/
abbrev OSt := Array Bool × Array Bool × Array Bool × ValEnc × Array Nat × RAnsBitEnc × Array Bool × Array Nat × Array Nat ×
  Array TopoSplit × Array Nat × Int × Nat

set_option linter.unusedVariables false in
/-- the traversal step after the `C` case: the symbols `S`, `L`, `R`, `E` -/
def innerTail (t : CT) (holeId : Array Nat) (valence : Bool) (visitedFaces visitedHoles : Array Bool) (processed : Array Nat)
    (splits : Array TopoSplit) (faceToSplit : Array Nat) (lastSymbolId : Int) (numSplitSymbols : Nat) (stack : Array Nat)
    (numVisited face lastCorner vertId : Nat) (onBoundary : Bool) :
    Unit → Array Bool → ValEnc → Array Nat → Nat → R (ForInStep InSt) :=
  fun __r visitedVerts val symbols cornerId => do
  let rightCorner ← Eb.opposite t.opp (Eb.nextC cornerId)
  let leftCorner ← Eb.opposite t.opp (Eb.prevC cornerId)
  have rightFace : Nat := faceOf rightCorner
  have leftFace : Nat := faceOf leftCorner
  have __do_jp :
    Bool →
      Eb.R
        (ForInStep
          (Array Bool ×
            Array Bool ×
              Array Bool ×
                ValEnc ×
                  Array Nat ×
                    Array Nat ×
                      Array Eb.TopoSplit ×
                        Array Nat ×
                          Int × Nat × Array Nat × Nat × Nat)) :=
    fun rightVisited =>
    have __do_jp := fun leftVisited =>
      have symId := toUnsigned 32 lastSymbolId;
      if rightVisited = true then
        have __do_jp := fun __r splits =>
          if leftVisited = true then
            have __do_jp := fun __r splits =>
              have symbols := Array.push symbols Eb.topoE;
              have __do_jp := fun __r val =>
                have stack := Array.pop stack;
                pure
                  (ForInStep.done
                    (visitedFaces, visitedVerts, visitedHoles,
                      val, symbols, processed, splits,
                      faceToSplit, lastSymbolId,
                      numSplitSymbols, stack, cornerId,
                      numVisited));
              if valence = true then do
                let val ←
                  ValEnc.encodeSymbol t visitedFaces val
                      lastCorner Eb.topoE
                __do_jp () val
              else __do_jp () val;
            if (leftFace != Eb.inv) = true then do
              let s ←
                Eb.rd "face_to_split_symbol_map_" faceToSplit
                    leftFace
              if (s != Eb.inv) = true then
                  have splits :=
                    Array.push splits
                      { source := symId, split := s,
                        edge := 0 };
                  __do_jp () splits
                else __do_jp () splits
            else __do_jp () splits
          else
            have symbols := Array.push symbols Eb.topoR;
            have __do_jp := fun __r val =>
              have cornerId := leftCorner;
              pure
                (ForInStep.yield
                  (visitedFaces, visitedVerts, visitedHoles,
                    val, symbols, processed, splits,
                    faceToSplit, lastSymbolId, numSplitSymbols,
                    stack, cornerId, numVisited));
            if valence = true then do
              let val ←
                ValEnc.encodeSymbol t visitedFaces val
                    lastCorner Eb.topoR
              __do_jp () val
            else __do_jp () val;
        if (rightFace != Eb.inv) = true then do
          let s ←
            Eb.rd "face_to_split_symbol_map_" faceToSplit
                rightFace
          if (s != Eb.inv) = true then
              have splits :=
                Array.push splits
                  { source := symId, split := s, edge := 1 };
              __do_jp () splits
            else __do_jp () splits
        else __do_jp () splits
      else
        if leftVisited = true then
          have __do_jp := fun __r splits =>
            have symbols := Array.push symbols Eb.topoL;
            have __do_jp := fun __r val =>
              have cornerId := rightCorner;
              pure
                (ForInStep.yield
                  (visitedFaces, visitedVerts, visitedHoles,
                    val, symbols, processed, splits,
                    faceToSplit, lastSymbolId, numSplitSymbols,
                    stack, cornerId, numVisited));
            if valence = true then do
              let val ←
                ValEnc.encodeSymbol t visitedFaces val
                    lastCorner Eb.topoL
              __do_jp () val
            else __do_jp () val;
          if (leftFace != Eb.inv) = true then do
            let s ←
              Eb.rd "face_to_split_symbol_map_" faceToSplit
                  leftFace
            if (s != Eb.inv) = true then
                have splits :=
                  Array.push splits
                    { source := symId, split := s, edge := 0 };
                __do_jp () splits
              else __do_jp () splits
          else __do_jp () splits
        else
          have symbols := Array.push symbols Eb.topoS;
          have __do_jp := fun __r val =>
            have numSplitSymbols := numSplitSymbols + 1;
            have __do_jp := fun __r visitedVerts visitedHoles =>
              do
              let faceToSplit ←
                Eb.wr "face_to_split_symbol_map_" faceToSplit
                    face symId
              have stack : Array Nat :=
                Array.set! stack (Array.size stack - 1)
                  leftCorner
              have stack : Array Nat :=
                Array.push stack rightCorner
              pure
                  (ForInStep.done
                    (visitedFaces, visitedVerts, visitedHoles,
                      val, symbols, processed, splits,
                      faceToSplit, lastSymbolId,
                      numSplitSymbols, stack, cornerId,
                      numVisited));
            if onBoundary = true then do
              let hole ← Eb.rd "vertex_hole_id_" holeId vertId
              let __do_lift ←
                Eb.rdB "visited_holes_" visitedHoles hole
              if (!__do_lift) = true then do
                  let __x ←
                    encodeHole t holeId visitedVerts
                        visitedHoles cornerId false
                  match __x with
                    | (vv, vh) =>
                      have visitedVerts := vv;
                      have visitedHoles := vh;
                      __do_jp () visitedVerts visitedHoles
                else __do_jp () visitedVerts visitedHoles
            else __do_jp () visitedVerts visitedHoles;
          if valence = true then do
            let val ←
              ValEnc.encodeSymbol t visitedFaces val lastCorner
                  Eb.topoS
            __do_jp () val
          else __do_jp () val;
    if (leftCorner != Eb.inv) = true then do
      let leftVisited ←
        Eb.rdB "visited_faces_" visitedFaces leftFace
      __do_jp leftVisited
    else do
      let leftVisited ← pure true
      __do_jp leftVisited
  if (rightCorner != Eb.inv) = true then do
      let rightVisited ←
        Eb.rdB "visited_faces_" visitedFaces rightFace
      __do_jp rightVisited
    else do
      let rightVisited ← pure true
      __do_jp rightVisited

set_option linter.unusedVariables false in
/-- one step of the traversal loop of `EncodeConnectivityFromCorner` -/
def innerBody (t : CT) (holeId : Array Nat) (valence : Bool) (numFacesAll : Nat) : Nat → InSt → R (ForInStep InSt) :=
  fun x __s =>
  have visitedFaces := __s.fst;
  have __s := __s.snd;
  have visitedVerts := __s.fst;
  have __s := __s.snd;
  have visitedHoles := __s.fst;
  have __s := __s.snd;
  have val := __s.fst;
  have __s := __s.snd;
  have symbols := __s.fst;
  have __s := __s.snd;
  have processed := __s.fst;
  have __s := __s.snd;
  have splits := __s.fst;
  have __s := __s.snd;
  have faceToSplit := __s.fst;
  have __s := __s.snd;
  have lastSymbolId := __s.fst;
  have __s := __s.snd;
  have numSplitSymbols := __s.fst;
  have __s := __s.snd;
  have stack := __s.fst;
  have __s := __s.snd;
  have cornerId := __s.fst;
  have numVisited := __s.snd;
  if numVisited ≥ numFacesAll then
    pure
      (ForInStep.done
        (visitedFaces, visitedVerts, visitedHoles, val, symbols,
          processed, splits, faceToSplit, lastSymbolId,
          numSplitSymbols, stack, cornerId, numVisited))
  else
    have numVisited := numVisited + 1;
    have lastSymbolId := lastSymbolId + 1;
    have face := faceOf cornerId;
    do
    let visitedFaces ←
      Eb.wrB "visited_faces_" visitedFaces face true
    have processed : Array Nat := Array.push processed cornerId
    have lastCorner : Nat := cornerId
    let vertId ← Eb.vertex t.c2v cornerId
    let __do_lift ← Eb.rd "vertex_hole_id_" holeId vertId
    have onBoundary : Bool := __do_lift != Eb.inv
    let __do_lift ← Eb.rdB "visited_vertex_ids_" visitedVerts vertId
    have __do_jp := innerTail t holeId valence visitedFaces visitedHoles processed splits faceToSplit lastSymbolId numSplitSymbols stack numVisited face lastCorner vertId onBoundary
    if (!__do_lift) = true then do
        let visitedVerts ←
          Eb.wrB "visited_vertex_ids_" visitedVerts vertId true
        if (!onBoundary) = true then
            have symbols := Array.push symbols Eb.topoC;
            have __do_jp := fun __r val => do
              let cornerId ← Eb.opposite t.opp (Eb.nextC cornerId)
              pure
                  (ForInStep.yield
                    (visitedFaces, visitedVerts, visitedHoles, val,
                      symbols, processed, splits, faceToSplit,
                      lastSymbolId, numSplitSymbols, stack,
                      cornerId, numVisited));
            if valence = true then do
              let val ←
                ValEnc.encodeSymbol t visitedFaces val lastCorner
                    Eb.topoC
              __do_jp () val
            else __do_jp () val
          else __do_jp () visitedVerts val symbols cornerId
      else __do_jp () visitedVerts val symbols cornerId

set_option linter.unusedVariables false in
/-- one step of the loop over `corner_traversal_stack_` -/
def stackBody (t : CT) (holeId : Array Nat) (valence : Bool) (numFacesAll : Nat) : Nat → StSt → R (ForInStep StSt) :=
  fun x __s =>
  have visitedFaces := __s.fst;
  have __s := __s.snd;
  have visitedVerts := __s.fst;
  have __s := __s.snd;
  have visitedHoles := __s.fst;
  have __s := __s.snd;
  have val := __s.fst;
  have __s := __s.snd;
  have symbols := __s.fst;
  have __s := __s.snd;
  have processed := __s.fst;
  have __s := __s.snd;
  have splits := __s.fst;
  have __s := __s.snd;
  have faceToSplit := __s.fst;
  have __s := __s.snd;
  have lastSymbolId := __s.fst;
  have __s := __s.snd;
  have numSplitSymbols := __s.fst;
  have __s := __s.snd;
  have stack := __s.fst;
  have finS := __s.snd;
  if Array.isEmpty stack = true then
    have finS := true;
    pure
      (ForInStep.done
        (visitedFaces, visitedVerts, visitedHoles, val, symbols, processed,
          splits, faceToSplit, lastSymbolId, numSplitSymbols, stack, finS))
  else
    have cornerId := Array.back! stack;
    if (cornerId == Eb.inv) = true then
      have stack := Array.pop stack;
      pure
        (ForInStep.yield
          (visitedFaces, visitedVerts, visitedHoles, val, symbols, processed,
            splits, faceToSplit, lastSymbolId, numSplitSymbols, stack, finS))
    else do
      let __do_lift ← Eb.rdB "visited_faces_" visitedFaces (cornerId / 3)
      if __do_lift = true then
          have stack := Array.pop stack;
          pure
            (ForInStep.yield
              (visitedFaces, visitedVerts, visitedHoles, val, symbols, processed,
                splits, faceToSplit, lastSymbolId, numSplitSymbols, stack, finS))
        else
          have numVisited := 0;
          do
          let __s ←
            forIn [:numFacesAll]
                (visitedFaces, visitedVerts, visitedHoles, val, symbols,
                  processed, splits, faceToSplit, lastSymbolId, numSplitSymbols,
                  stack, cornerId, numVisited)
                (innerBody t holeId valence numFacesAll)
          have visitedFaces : Array Bool := __s.fst
          have __s :
            Array Bool ×
              Array Bool ×
                ValEnc ×
                  Array Nat ×
                    Array Nat ×
                      Array Eb.TopoSplit ×
                        Array Nat × Int × Nat × Array Nat × Nat × Nat :=
            __s.snd
          have visitedVerts : Array Bool := __s.fst
          have __s :
            Array Bool ×
              ValEnc ×
                Array Nat ×
                  Array Nat ×
                    Array Eb.TopoSplit ×
                      Array Nat × Int × Nat × Array Nat × Nat × Nat :=
            __s.snd
          have visitedHoles : Array Bool := __s.fst
          have __s :
            ValEnc ×
              Array Nat ×
                Array Nat ×
                  Array Eb.TopoSplit ×
                    Array Nat × Int × Nat × Array Nat × Nat × Nat :=
            __s.snd
          have val : ValEnc := __s.fst
          have __s :
            Array Nat ×
              Array Nat ×
                Array Eb.TopoSplit ×
                  Array Nat × Int × Nat × Array Nat × Nat × Nat :=
            __s.snd
          have symbols : Array Nat := __s.fst
          have __s :
            Array Nat ×
              Array Eb.TopoSplit ×
                Array Nat × Int × Nat × Array Nat × Nat × Nat :=
            __s.snd
          have processed : Array Nat := __s.fst
          have __s :
            Array Eb.TopoSplit × Array Nat × Int × Nat × Array Nat × Nat × Nat :=
            __s.snd
          have splits : Array Eb.TopoSplit := __s.fst
          have __s : Array Nat × Int × Nat × Array Nat × Nat × Nat := __s.snd
          have faceToSplit : Array Nat := __s.fst
          have __s : Int × Nat × Array Nat × Nat × Nat := __s.snd
          have lastSymbolId : Int := __s.fst
          have __s : Nat × Array Nat × Nat × Nat := __s.snd
          have numSplitSymbols : Nat := __s.fst
          have __s : Array Nat × Nat × Nat := __s.snd
          have stack : Array Nat := __s.fst
          pure
              (ForInStep.yield
                (visitedFaces, visitedVerts, visitedHoles, val, symbols,
                  processed, splits, faceToSplit, lastSymbolId, numSplitSymbols,
                  stack, finS))

set_option linter.unusedVariables false in
/-- `EncodeConnectivityFromCorner(from_)` (nothing for the invalid corner) at the end of a step of the loop over the faces -/
def outerTail (t : CT) (holeId : Array Nat) (valence : Bool) (numFacesAll : Nat) (val : ValEnc) (symbols : Array Nat)
    (startFace : RAnsBitEnc) (startFaces : Array Bool) (processed : Array Nat) (splits : Array TopoSplit)
    (faceToSplit : Array Nat) (lastSymbolId : Int) (numSplitSymbols : Nat) :
    Unit → Array Bool → Array Bool → Array Bool → Array Nat → Nat → R (ForInStep OSt) :=
  fun __r visitedFaces visitedVerts visitedHoles initFaceCorners from_ =>
  if (from_ == Eb.inv) = true then
    pure
      (ForInStep.yield
        (visitedFaces, visitedVerts, visitedHoles, val, symbols, startFace, startFaces,
          processed, initFaceCorners, splits, faceToSplit, lastSymbolId, numSplitSymbols))
  else
    have stack := #[from_];
    have finS := false;
    do
    let __s ←
      forIn [:4 * numFacesAll + 16]
          (visitedFaces, visitedVerts, visitedHoles, val, symbols, processed, splits,
            faceToSplit, lastSymbolId, numSplitSymbols, stack, finS)
          (stackBody t holeId valence numFacesAll)
    have visitedFaces : Array Bool := __s.fst
    have __s :
      Array Bool ×
        Array Bool ×
          ValEnc ×
            Array Nat ×
              Array Nat × Array Eb.TopoSplit × Array Nat × Int × Nat × Array Nat × Bool :=
      __s.snd
    have visitedVerts : Array Bool := __s.fst
    have __s :
      Array Bool ×
        ValEnc ×
          Array Nat ×
            Array Nat × Array Eb.TopoSplit × Array Nat × Int × Nat × Array Nat × Bool :=
      __s.snd
    have visitedHoles : Array Bool := __s.fst
    have __s :
      ValEnc ×
        Array Nat ×
          Array Nat × Array Eb.TopoSplit × Array Nat × Int × Nat × Array Nat × Bool :=
      __s.snd
    have val : ValEnc := __s.fst
    have __s :
      Array Nat ×
        Array Nat × Array Eb.TopoSplit × Array Nat × Int × Nat × Array Nat × Bool :=
      __s.snd
    have symbols : Array Nat := __s.fst
    have __s :
      Array Nat × Array Eb.TopoSplit × Array Nat × Int × Nat × Array Nat × Bool := __s.snd
    have processed : Array Nat := __s.fst
    have __s : Array Eb.TopoSplit × Array Nat × Int × Nat × Array Nat × Bool := __s.snd
    have splits : Array Eb.TopoSplit := __s.fst
    have __s : Array Nat × Int × Nat × Array Nat × Bool := __s.snd
    have faceToSplit : Array Nat := __s.fst
    have __s : Int × Nat × Array Nat × Bool := __s.snd
    have lastSymbolId : Int := __s.fst
    have __s : Nat × Array Nat × Bool := __s.snd
    have numSplitSymbols : Nat := __s.fst
    have __s : Array Nat × Bool := __s.snd
    have stack : Array Nat := __s.fst
    have finS : Bool := __s.snd
    if (!finS) = true then do
        throw (Eb.Err.fuel "EncodeConnectivityFromCorner: stack loop")
        pure
            (ForInStep.yield
              (visitedFaces, visitedVerts, visitedHoles, val, symbols, startFace,
                startFaces, processed, initFaceCorners, splits, faceToSplit, lastSymbolId,
                numSplitSymbols))
      else
        pure
          (ForInStep.yield
            (visitedFaces, visitedVerts, visitedHoles, val, symbols, startFace,
              startFaces, processed, initFaceCorners, splits, faceToSplit, lastSymbolId,
              numSplitSymbols))

set_option linter.unusedVariables false in
/-- one step of the loop over the corners (faces) of `EncodeConnectivity` -/
def outerBody (t : CT) (holeId : Array Nat) (valence : Bool) (numFacesAll : Nat) : Nat → OSt → R (ForInStep OSt) :=
  fun cId __s =>
  have visitedFaces := __s.fst;
  have __s := __s.snd;
  have visitedVerts := __s.fst;
  have __s := __s.snd;
  have visitedHoles := __s.fst;
  have __s := __s.snd;
  have val := __s.fst;
  have __s := __s.snd;
  have symbols := __s.fst;
  have __s := __s.snd;
  have startFace := __s.fst;
  have __s := __s.snd;
  have startFaces := __s.fst;
  have __s := __s.snd;
  have processed := __s.fst;
  have __s := __s.snd;
  have initFaceCorners := __s.fst;
  have __s := __s.snd;
  have splits := __s.fst;
  have __s := __s.snd;
  have faceToSplit := __s.fst;
  have __s := __s.snd;
  have lastSymbolId := __s.fst;
  have numSplitSymbols := __s.snd;
  have faceId := cId / 3;
  do
  let __do_lift ← Eb.rdB "visited_faces_" visitedFaces faceId
  if __do_lift = true then
      pure
        (ForInStep.yield
          (visitedFaces, visitedVerts, visitedHoles, val, symbols, startFace, startFaces, processed,
            initFaceCorners, splits, faceToSplit, lastSymbolId, numSplitSymbols))
    else do
      let __do_lift ← isDegenerated t faceId
      if __do_lift = true then
          pure
            (ForInStep.yield
              (visitedFaces, visitedVerts, visitedHoles, val, symbols, startFace, startFaces, processed,
                initFaceCorners, splits, faceToSplit, lastSymbolId, numSplitSymbols))
        else do
          let __x ← findInitFaceConfiguration t holeId faceId
          match __x with
            | (interior, startCorner) =>
              have startFace := RAnsBitEnc.encodeBit startFace interior;
              have startFaces := Array.push startFaces interior;
              have from_ := Eb.inv;
              have __do_jp := outerTail t holeId valence numFacesAll val symbols startFace startFaces processed splits faceToSplit lastSymbolId numSplitSymbols;
              if interior = true then do
                let vertId ← Eb.vertex t.c2v startCorner
                let nextVert ← Eb.vertex t.c2v (Eb.nextC startCorner)
                let prevVert ← Eb.vertex t.c2v (Eb.prevC startCorner)
                let visitedVerts ← Eb.wrB "visited_vertex_ids_" visitedVerts vertId true
                let visitedVerts ← Eb.wrB "visited_vertex_ids_" visitedVerts nextVert true
                let visitedVerts ← Eb.wrB "visited_vertex_ids_" visitedVerts prevVert true
                let visitedFaces ← Eb.wrB "visited_faces_" visitedFaces faceId true
                have initFaceCorners : Array Nat := Array.push initFaceCorners (Eb.nextC startCorner)
                let oppId ← Eb.opposite t.opp (Eb.nextC startCorner)
                have oppFace : Nat := faceOf oppId
                let __do_lift ← Eb.rdB "visited_faces_" visitedFaces oppFace
                if (oppFace != Eb.inv && !__do_lift) = true then
                    have from_ := oppId;
                    __do_jp () visitedFaces visitedVerts visitedHoles initFaceCorners from_
                  else __do_jp () visitedFaces visitedVerts visitedHoles initFaceCorners from_
              else do
                let __x ← encodeHole t holeId visitedVerts visitedHoles (Eb.nextC startCorner) true
                match __x with
                  | (vv, vh) =>
                    have visitedVerts := vv;
                    have visitedHoles := vh;
                    have from_ := startCorner;
                    __do_jp () visitedFaces visitedVerts visitedHoles initFaceCorners from_

set_option linter.unusedVariables false in
theorem encodeConnectivity_eq (ch : ConnChoices) (valence : Bool) (posFaces : Faces)
    (attCornerValues : Array (Nat × Array Nat)) :
    encodeConnectivity ch valence posFaces attCornerValues =
    (
    match CornerTable.create posFaces with
    | some table =>
      have t : CT := CT.ofTable table;
      have numFacesAll : Nat := CT.numFaces t;
      have __do_jp : Unit → Eb.R ConnEnc := fun __r =>
        have nc : Nat := CT.numCorners t;
        have nv : Nat := CT.numVertices t;
        have head : Bytes :=
          encVarint ((nv - t.numIsolated) % 2 ^ 32) ++ encVarint ((numFacesAll - t.numDegenerated) % 2 ^ 32);
        have visitedFaces : Array Bool := Array.replicate numFacesAll false;
        have visitedVerts : Array Bool := Array.replicate nv false;
        do
        let __x ← findHoles t
        match __x with
          | (holeId, numHoles) =>
            have visitedHoles : Array Bool := Array.replicate numHoles false;
            have atts : Array AttData := Array.mkEmpty (Array.size attCornerValues);
            do
            let __s ←
              forIn attCornerValues atts fun x __s =>
                  have atts : Array AttData := __s;
                  match x with
                  | (attIndex, cv) => do
                    let __do_lift ← initFromAttribute t cv
                    have atts : Array AttData := Array.push atts { attIndex := attIndex, conn := __do_lift }
                    pure (ForInStep.yield atts)
            have atts : Array AttData := __s
            have numAttData : Nat := Array.size atts % 256
            have __do_jp : ValEnc → Eb.R ConnEnc := fun val =>
              have symbols : Array Nat := Array.mkEmpty numFacesAll;
              have startFace : RAnsBitEnc := RAnsBitEnc.start;
              have startFaces : Array Bool := #[];
              have processed : Array Nat := Array.mkEmpty numFacesAll;
              have initFaceCorners : Array Nat := #[];
              have splits : Array Eb.TopoSplit := #[];
              have faceToSplit : Array Nat := Array.replicate numFacesAll Eb.inv;
              have lastSymbolId : Int := -1;
              have numSplitSymbols : Nat := 0;
              do
              let __s ←
                forIn [:nc]
                    (visitedFaces, visitedVerts, visitedHoles, val, symbols, startFace, startFaces, processed,
                      initFaceCorners, splits, faceToSplit, lastSymbolId, numSplitSymbols)
                    (outerBody t holeId valence numFacesAll)
              have visitedFaces : Array Bool := __s.fst
              have __s :
                Array Bool ×
                  Array Bool ×
                    ValEnc ×
                      Array Nat ×
                        RAnsBitEnc × Array Bool × Array Nat × Array Nat × Array Eb.TopoSplit × Array Nat × Int × Nat :=
                __s.snd
              have visitedVerts : Array Bool := __s.fst
              have __s :
                Array Bool ×
                  ValEnc ×
                    Array Nat ×
                      RAnsBitEnc × Array Bool × Array Nat × Array Nat × Array Eb.TopoSplit × Array Nat × Int × Nat :=
                __s.snd
              have visitedHoles : Array Bool := __s.fst
              have __s :
                ValEnc ×
                  Array Nat ×
                    RAnsBitEnc × Array Bool × Array Nat × Array Nat × Array Eb.TopoSplit × Array Nat × Int × Nat :=
                __s.snd
              have val : ValEnc := __s.fst
              have __s :
                Array Nat ×
                  RAnsBitEnc × Array Bool × Array Nat × Array Nat × Array Eb.TopoSplit × Array Nat × Int × Nat :=
                __s.snd
              have symbols : Array Nat := __s.fst
              have __s : RAnsBitEnc × Array Bool × Array Nat × Array Nat × Array Eb.TopoSplit × Array Nat × Int × Nat :=
                __s.snd
              have startFace : RAnsBitEnc := __s.fst
              have __s : Array Bool × Array Nat × Array Nat × Array Eb.TopoSplit × Array Nat × Int × Nat := __s.snd
              have startFaces : Array Bool := __s.fst
              have __s : Array Nat × Array Nat × Array Eb.TopoSplit × Array Nat × Int × Nat := __s.snd
              have processed : Array Nat := __s.fst
              have __s : Array Nat × Array Eb.TopoSplit × Array Nat × Int × Nat := __s.snd
              have initFaceCorners : Array Nat := __s.fst
              have __s : Array Eb.TopoSplit × Array Nat × Int × Nat := __s.snd
              have splits : Array Eb.TopoSplit := __s.fst
              have __s : Array Nat × Int × Nat := __s.snd
              have faceToSplit : Array Nat := __s.fst
              have __s : Int × Nat := __s.snd
              have lastSymbolId : Int := __s.fst
              have numSplitSymbols : Nat := __s.snd
              have processed : Array Nat := Array.reverse processed ++ initFaceCorners
              let __x ← encodeSeamBits t processed (Array.map (fun a => a.conn.edgeSeam) atts)
              match __x with
                | (seamEnc, seamBits) =>
                  have startFaceBytes : Bytes := finishBits ch startFace;
                  have seamBytes : List Nat := List.flatMap (finishBits ch) seamEnc.toList;
                  have traversal : Bytes := [];
                  have __do_jp : Unit → Bytes → Eb.R ConnEnc := fun __r traversal =>
                    have bytes : Bytes :=
                      head ++ [numAttData] ++ encVarint (Array.size symbols % 2 ^ 32) ++
                            encVarint (numSplitSymbols % 2 ^ 32) ++
                          encodeSplitData splits ++
                        traversal;
                    pure
                      { ct := t, bytes := bytes, processed := processed, atts := atts, symbols := symbols,
                        startFaces := startFaces, splits := splits, numSplitSymbols := numSplitSymbols,
                        seamBits := seamBits, holeId := holeId };
                  if valence = true then
                    have ctxBytes : Bytes := [];
                    do
                    let __s ←
                      forIn [:Array.size val.ctx] ctxBytes fun i __s =>
                          have ctxBytes : Bytes := __s;
                          have syms : List Nat := val.ctx[i]!.toList;
                          have ctxBytes : Bytes := ctxBytes ++ encVarint (List.length syms % 2 ^ 32);
                          if (!List.isEmpty syms) = true then
                            match encodeSymbolsWith ch.oracle (ch.ctxScheme i) 7 1 syms with
                            | none => do
                              throw Eb.Err.fail
                              pure (ForInStep.yield ctxBytes)
                            | some bs =>
                              have ctxBytes : Bytes := ctxBytes ++ bs;
                              pure (ForInStep.yield ctxBytes)
                          else pure (ForInStep.yield ctxBytes)
                    have ctxBytes : Bytes := __s
                    have traversal : Bytes := startFaceBytes ++ seamBytes ++ ctxBytes
                    __do_jp () traversal
                  else
                    have traversal : Bytes := encodeTraversalSymbols symbols ++ startFaceBytes ++ seamBytes;
                    __do_jp () traversal
            if valence = true then do
                let val ← ValEnc.init t
                __do_jp val
              else do
                let val ← pure { c2v := #[], valences := #[] }
                __do_jp val;
      if (numFacesAll == t.numDegenerated) = true then do
        let __r ← throw Eb.Err.fail
        __do_jp __r
      else __do_jp ()
    | x => throw (Eb.Err.ub "CornerTable::Create outside its domain")) := by
  rfl

/-! ### generic facts about `for` loops and join points in `R` -/

def stepVal {σ : Type} : ForInStep σ → σ
  | .yield s => s
  | .done s => s

/-- an invariant kept by every step (yield or break) of a successful loop holds at its end -/
theorem forIn_inv' {σ : Type} (l : List Nat) (f : Nat → σ → R (ForInStep σ)) (I : σ → Prop)
    (h : ∀ a s r, I s → f a s = .ok r → I (stepVal r)) :
    ∀ init out, I init → forIn l init f = .ok out → I out := by
  induction l with
  | nil =>
    intro init out hi hf
    simp [pure, Except.pure] at hf
    subst hf; exact hi
  | cons a l ih =>
    intro init out hi hf
    rw [List.forIn_cons, bind_ok_iff] at hf
    obtain ⟨r, h1, h2⟩ := hf
    have := h a init r hi h1
    cases r with
    | done b =>
      simp [pure, Except.pure] at h2
      subst h2; exact this
    | yield b => exact ih b out this h2

theorem range_forIn_inv {σ : Type} (n : Nat) (f : Nat → σ → R (ForInStep σ)) (I : σ → Prop)
    (h : ∀ a s r, I s → f a s = .ok r → I (stepVal r)) (init out : σ) (hi : I init)
    (hf : forIn [:n] init f = .ok out) : I out := by
  rw [Std.Legacy.Range.forIn_eq_forIn_range'] at hf
  exact forIn_inv' _ f I h init out hi hf

theorem ite_ok {β : Type} {c : Prop} [Decidable c] {a b : R β} {r : β} (h : (if c then a else b) = .ok r) :
    (c ∧ a = .ok r) ∨ (¬ c ∧ b = .ok r) := by
  by_cases hc : c
  · rw [if_pos hc] at h; exact Or.inl ⟨hc, h⟩
  · rw [if_neg hc] at h; exact Or.inr ⟨hc, h⟩

theorem throw_bind_ne {α β : Type} {e : Err} {k : α → R β} {r : β} (h : ((throw e : R α) >>= k) = .ok r) : False := by
  simp [throw, throwThe, MonadExceptOf.throw, bind, Except.bind] at h

theorem pure_ok {β : Type} {a r : β} (h : (pure a : R β) = .ok r) : r = a := by
  simp only [pure, Except.pure] at h
  cases h; rfl

/-- `if c then x >>= k else k a`: the continuation ran on some value -/
theorem ite_bind_absorb {α β : Type} {c : Prop} [Decidable c] {x : R α} {a : α} {k : α → R β} {r : β}
    (h : (if c then x >>= k else k a) = .ok r) : ∃ a', k a' = .ok r := by
  rcases ite_ok h with ⟨_, h⟩ | ⟨_, h⟩
  · obtain ⟨a', _, h⟩ := (bind_ok_iff _ _ _).mp h
    exact ⟨a', h⟩
  · exact ⟨a, h⟩

/-- the `face_to_split_symbol_map_` lookup in front of a continuation that takes the split events -/
theorem split_absorb {α β : Type} {c : Prop} [Decidable c] {x : R Nat} {d : Nat → Prop} [DecidablePred d] {g : Nat → α}
    {a : α} {k : α → R β} {r : β}
    (h : (if c then x >>= fun s => if d s then k (g s) else k a else k a) = .ok r) : ∃ a', k a' = .ok r := by
  rcases ite_ok h with ⟨_, h⟩ | ⟨_, h⟩
  · obtain ⟨s, _, h⟩ := (bind_ok_iff _ _ _).mp h
    rcases ite_ok h with ⟨_, h⟩ | ⟨_, h⟩
    · exact ⟨_, h⟩
    · exact ⟨_, h⟩
  · exact ⟨a, h⟩

/-- `IsRightFaceVisited` / `IsLeftFaceVisited` in front of a continuation -/
theorem visited_absorb {β : Type} {c : Prop} [Decidable c] {x : R Bool} {k : Bool → R β} {r : β}
    (h : (if c then x >>= k else pure true >>= k) = .ok r) :
    ∃ b, k b = .ok r ∧ (c → x = .ok b) ∧ (¬ c → b = true) := by
  rcases ite_ok h with ⟨hc, h⟩ | ⟨hc, h⟩
  · obtain ⟨b, hb, h⟩ := (bind_ok_iff _ _ _).mp h
    exact ⟨b, h, fun _ => hb, fun h' => absurd hc h'⟩
  · obtain ⟨b, hb, h⟩ := (bind_ok_iff _ _ _).mp h
    have := pure_ok hb
    exact ⟨b, h, fun h' => absurd h' hc, fun _ => this⟩

/-- a successful `for` loop over `[:n]` with an indexed invariant `I` for the states it continues with and `Q` for the
    states it breaks with -/
theorem range_loop {σ : Type} (n : Nat) (f : Nat → σ → R (ForInStep σ)) (I : Nat → σ → Prop) (Q : σ → Prop)
    (h : ∀ j s r, j < n → I j s → f j s = .ok r →
      (∃ s', r = .yield s' ∧ I (j + 1) s') ∨ (∃ s', r = .done s' ∧ Q s'))
    (init out : σ) (hi : I 0 init) (hf : forIn [:n] init f = .ok out) : I n out ∨ Q out := by
  rw [Seams.range_forIn] at hf
  have := AttViews.forIn_range_done f I Q n 0 (fun j s r _ hj hI hr => h j s r (by omega) hI hr) init out hi hf
  simpa using this

theorem isDegenerated_ok {t : CT} (hk : CTOK t) {f : Nat} {b : Bool} (hf : f < t.numFaces)
    (h : isDegenerated t f = .ok b) : b = isDegenA t.c2v f := by
  have h1 := hk.three
  have h2 := hk.fits
  rw [inv_eq] at h2
  unfold isDegenerated at h
  have e : (f == inv) = false := by rw [inv_eq]; simp; omega
  rw [e] at h
  simp only [Bool.false_eq_true, ↓reduceIte] at h
  obtain ⟨v0, hv0, h⟩ := (bind_ok_iff _ _ _).mp h
  obtain ⟨v1, hv1, h⟩ := (bind_ok_iff _ _ _).mp h
  obtain ⟨v2, hv2, h⟩ := (bind_ok_iff _ _ _).mp h
  obtain ⟨_, e0⟩ := vertex_get (by rw [inv_eq]; omega) hv0
  obtain ⟨_, e1⟩ := vertex_get (by rw [inv_eq]; omega) hv1
  obtain ⟨_, e2⟩ := vertex_get (by rw [inv_eq]; omega) hv2
  have := pure_ok h
  rw [this, ← e0, ← e1, ← e2]
  rfl

/-- on a boundary edge the walk to the boundary stays -/
theorem walkToBoundary_fix {t : CT} {c c' : Nat} (ho : opposite t.opp c = .ok inv)
    (h : walkToBoundary t c = .ok c') : c' = c := by
  unfold walkToBoundary at h
  simp only [Seams.range_forIn, List.range'_succ, List.forIn_cons, ho] at h
  simp [bind, Except.bind, pure, Except.pure] at h
  exact h.symm


theorem prevC_lt_inv (c : Nat) (h : c < inv) : Eb.prevC c < inv := by
  rw [prevC_cf c h]
  rw [inv_eq] at h ⊢
  split <;> omega

/-- `if c then x >>= k else k a`: the continuation ran on the value of `x` resp. on `a` -/
theorem ite_bind_absorb' {α β : Type} {c : Prop} [Decidable c] {x : R α} {a : α} {k : α → R β} {r : β}
    (h : (if c then x >>= k else k a) = .ok r) : ∃ a', k a' = .ok r ∧ (c → x = .ok a') ∧ (¬ c → a' = a) := by
  rcases ite_ok h with ⟨hc, h⟩ | ⟨hc, h⟩
  · obtain ⟨a', hx, h⟩ := (bind_ok_iff _ _ _).mp h
    exact ⟨a', h, fun _ => hx, fun h' => absurd hc h'⟩
  · exact ⟨a, h, fun h' => absurd h' hc, fun _ => rfl⟩

/-- `EncodeHole` only marks vertices; started (with `encode_first_vertex`) on a boundary edge it marks the two end points
    of that edge -/
theorem encodeHole_spec {t : CT} {holeId : Array Nat} {vv vh vv' vh' : Array Bool} {sc : Nat} {first : Bool}
    (h : encodeHole t holeId vv vh sc first = .ok (vv', vh')) :
    Mono vv vv' ∧ (first = true → sc < inv → opposite t.opp (Eb.prevC sc) = .ok inv →
      vv'.getD (vget t.c2v sc) false = true ∧ vv'.getD (vget t.c2v (Eb.prevC (Eb.prevC sc))) false = true) := by
  unfold encodeHole at h
  simp only [] at h
  obtain ⟨c0, hc0, h⟩ := (bind_ok_iff _ _ _).mp h
  obtain ⟨sv, hsv, h⟩ := (bind_ok_iff _ _ _).mp h
  obtain ⟨vv1, h, hv1a, hv1b⟩ := ite_bind_absorb' h
  have hm1 : Mono vv vv1 := by
    by_cases hf : first = true
    · obtain ⟨_, e⟩ := wrB_get (hv1a hf)
      rw [e]; exact Mono.set _ _
    · rw [hv1b hf]; exact Mono.refl _
  have hf1 : first = true → sc < inv → vv1.getD (vget t.c2v sc) false = true := by
    intro hf hlt'
    have hne : sc ≠ inv := by omega
    obtain ⟨hlt, e⟩ := wrB_get (hv1a hf)
    obtain ⟨_, esv⟩ := vertex_get hne hsv
    rw [e, esv, bget_set' _ _ _ _ hlt, if_pos rfl]
  obtain ⟨hid, _, h⟩ := (bind_ok_iff _ _ _).mp h
  obtain ⟨vh1, _, h⟩ := (bind_ok_iff _ _ _).mp h
  obtain ⟨act0, hact0, h⟩ := (bind_ok_iff _ _ _).mp h
  obtain ⟨s, hloop, h⟩ := (bind_ok_iff _ _ _).mp h
  rcases ite_ok h with ⟨_, h⟩ | ⟨hfin, h⟩
  · exact (throw_bind_ne h).elim
  have hres := pure_ok h
  have hfin' : s.2.2.2 = true := by simpa using hfin
  have hI := range_loop _ _
    (fun _ (s : Array Bool × Nat × Nat × Bool) => Mono vv1 s.1 ∧ (s.1.getD act0 false = true ∨ s.2.2.1 = act0) ∧ s.2.2.2 = false)
    (fun (s : Array Bool × Nat × Nat × Bool) => Mono vv1 s.1 ∧ (s.1.getD act0 false = true ∨ act0 = sv))
    (by
      intro j s r _ ⟨hm, hact, hf⟩ hr
      rcases ite_ok hr with ⟨he, hr⟩ | ⟨he, hr⟩
      · right
        refine ⟨_, pure_ok hr, hm, ?_⟩
        rcases hact with e | e
        · exact Or.inl e
        · right; rw [← e]; simpa using he
      · left
        obtain ⟨vvn, hvvn, hr⟩ := (bind_ok_iff _ _ _).mp hr
        obtain ⟨cn, _, hr⟩ := (bind_ok_iff _ _ _).mp hr
        obtain ⟨actn, _, hr⟩ := (bind_ok_iff _ _ _).mp hr
        refine ⟨_, pure_ok hr, ?_, ?_, hf⟩
        · obtain ⟨_, e⟩ := wrB_get hvvn
          rw [e]; exact hm.trans (Mono.set _ _)
        · left
          obtain ⟨hlt, e⟩ := wrB_get hvvn
          show vvn.getD act0 false = true
          rw [e, bget_set' _ _ _ _ hlt]
          rcases hact with e' | e'
          · split
            · rfl
            · exact e'
          · rw [if_pos e'.symm])
    (vv1, c0, act0, false) s ⟨Mono.refl _, Or.inr rfl, rfl⟩ hloop
  have hQ : Mono vv1 s.1 ∧ (s.1.getD act0 false = true ∨ act0 = sv) := by
    rcases hI with ⟨_, _, hf⟩ | hQ
    · rw [hfin'] at hf; cases hf
    · exact hQ
  have e1 : vv' = s.1 := congrArg Prod.fst hres
  rw [e1]
  refine ⟨hm1.trans hQ.1, fun hfirst hlt hopp => ?_⟩
  have hne : sc ≠ inv := by omega
  have hsc := hf1 hfirst hlt
  have hc0' : c0 = Eb.prevC sc := walkToBoundary_fix hopp hc0
  obtain ⟨_, esv⟩ := vertex_get hne hsv
  refine ⟨hQ.1.2 _ hsc, ?_⟩
  have hp : Eb.prevC (Eb.prevC sc) ≠ inv := by
    have h1 := prevC_lt_inv sc hlt
    have h2 := prevC_lt_inv _ h1
    omega
  rw [hc0'] at hact0
  obtain ⟨_, eact⟩ := vertex_get hp hact0
  rw [eact]
  rcases hQ.2 with e | e
  · exact e
  · rw [e, ← esv]; exact hQ.1.2 _ hsc


/-- run `t` in the three branches of the `face_to_split_symbol_map_` lookup in front of a join point -/
macro "over_splits " h:ident " => " t:tacticSeq : tactic => `(tactic| (
  rcases ite_ok $h with ⟨_, $h⟩ | ⟨_, $h⟩
  · obtain ⟨_, _, $h⟩ := (bind_ok_iff _ _ _).mp $h
    rcases ite_ok $h with ⟨_, $h⟩ | ⟨_, $h⟩
    · $t
    · $t
  · $t))

/-! ### the traversal loop -/

/-- invariant of the traversal loop while it continues -/
def IIn (t : CT) (I : Array Nat) (s : InSt) : Prop :=
  Inv t s.1 s.2.1 s.2.2.2.2.2.1 I ∧ StackOK t s.2.1 s.2.2.2.2.2.2.2.2.2.2.1 ∧ CurOK t s.1 s.2.1 s.2.2.2.2.2.2.2.2.2.2.2.1

/-- … and when it is left -/
def IInQ (t : CT) (I : Array Nat) (s : InSt) : Prop :=
  Inv t s.1 s.2.1 s.2.2.2.2.2.1 I ∧ StackOK t s.2.1 s.2.2.2.2.2.2.2.2.2.2.1

/-- result of one step: continue with `I`, break with `Q` -/
def StepOK {σ : Type} (I Q : σ → Prop) (r : ForInStep σ) : Prop :=
  (∃ s', r = .yield s' ∧ I s') ∨ (∃ s', r = .done s' ∧ Q s')

theorem innerTail_inv {t : CT} (hk : CTOK t) {holeId : Array Nat} {valence : Bool} {vf' vh : Array Bool} {P' : Array Nat}
    {splits : Array TopoSplit} {f2s : Array Nat} {lsid : Int} {nss : Nat} {stack : Array Nat}
    {nv face lastCorner vertId : Nat} {onB : Bool} {I : Array Nat} {vv1 : Array Bool} {val : ValEnc} {sy : Array Nat}
    {c : Nat} {r : ForInStep InSt}
    (hInv : Inv t vf' vv1 P' I) (hst : StackOK t vv1 stack) (hc : c < t.c2v.size)
    (h0 : vv1.getD (vget t.c2v c) false = true) (h1 : vv1.getD (vget t.c2v (Eb.nextC c)) false = true)
    (h2 : vv1.getD (vget t.c2v (Eb.prevC c)) false = true)
    (hb : innerTail t holeId valence vf' vh P' splits f2s lsid nss stack nv face lastCorner vertId onB () vv1 val sy c
      = .ok r) :
    StepOK (IIn t I) (IInQ t I) r := by
  unfold innerTail at hb
  try simp only [] at hb
  obtain ⟨rc, hR, hb⟩ := (bind_ok_iff _ _ _).mp hb
  obtain ⟨lc, hL, hb⟩ := (bind_ok_iff _ _ _).mp hb
  obtain ⟨rv, hb, hrv1, hrv2⟩ := visited_absorb hb
  obtain ⟨lv, hb, hlv1, hlv2⟩ := visited_absorb hb
  -- what an unvisited neighbour gives
  have hRok : rv = false → CurOK t vf' vv1 rc := by
    intro e
    have hne : (rc != inv) = true := by
      apply Classical.byContradiction
      intro hn
      have := hrv2 hn
      rw [e] at this; cases this
    have hr := hrv1 hne
    rw [e] at hr
    exact next_side hk hc (Or.inl rfl) hR (by simpa using hne) hr h0 h1 h2
  have hLok : lv = false → CurOK t vf' vv1 lc := by
    intro e
    have hne : (lc != inv) = true := by
      apply Classical.byContradiction
      intro hn
      have := hlv2 hn
      rw [e] at this; cases this
    have hr := hlv1 hne
    rw [e] at hr
    exact next_side hk hc (Or.inr rfl) hL (by simpa using hne) hr h0 h1 h2
  rcases ite_ok hb with ⟨hrvt, hb⟩ | ⟨hrvf, hb⟩
  · over_splits hb =>
      rcases ite_ok hb with ⟨hlvt, hb⟩ | ⟨hlvf, hb⟩
      · -- E
        over_splits hb =>
          obtain ⟨val1, hb⟩ := ite_bind_absorb hb
          exact Or.inr ⟨_, pure_ok hb, hInv, hst.pop⟩
      · -- rc
        obtain ⟨val1, hb⟩ := ite_bind_absorb hb
        exact Or.inl ⟨_, pure_ok hb, hInv, hst, hLok (by simpa using hlvf)⟩
  · rcases ite_ok hb with ⟨hlvt, hb⟩ | ⟨hlvf, hb⟩
    · -- lc
      over_splits hb =>
        obtain ⟨val1, hb⟩ := ite_bind_absorb hb
        exact Or.inl ⟨_, pure_ok hb, hInv, hst, hRok (by simpa using hrvf)⟩
    · -- S
      obtain ⟨val1, hb⟩ := ite_bind_absorb hb
      have hRc : CornerOK t vv1 rc := by
        rcases hRok (by simpa using hrvf) with e | e
        · exact Or.inl e
        · exact e.1
      have hLc : CornerOK t vv1 lc := by
        rcases hLok (by simpa using hlvf) with e | e
        · exact Or.inl e
        · exact e.1
      -- the continuation after the hole has been encoded
      have fin : ∀ (vv2 vh2 : Array Bool), Mono vv1 vv2 → ∀ {x : Eb.R (ForInStep InSt)}, x = .ok r →
          (∀ f2s', x = pure (ForInStep.done (vf', vv2, vh2, val1, sy.push topoS, P', splits, f2s', lsid, nss + 1,
            (stack.set! (stack.size - 1) lc).push rc, c, nv)) → StepOK (IIn t I) (IInQ t I) r) := by
        intro vv2 vh2 hm x hx f2s' e
        rw [e] at hx
        exact Or.inr ⟨_, pure_ok hx, hInv.mono hm, (hst.mono hm).split (hLc.mono hm) (hRc.mono hm)⟩
      rcases ite_ok hb with ⟨_, hb⟩ | ⟨_, hb⟩
      · obtain ⟨hole, _, hb⟩ := (bind_ok_iff _ _ _).mp hb
        obtain ⟨hv, _, hb⟩ := (bind_ok_iff _ _ _).mp hb
        rcases ite_ok hb with ⟨_, hb⟩ | ⟨_, hb⟩
        · obtain ⟨x, hx, hb⟩ := (bind_ok_iff _ _ _).mp hb
          obtain ⟨vv2, vh2⟩ := x
          obtain ⟨hm, _⟩ := encodeHole_spec hx
          obtain ⟨f2s', _, hb⟩ := (bind_ok_iff _ _ _).mp hb
          exact fin vv2 vh2 hm hb f2s' rfl
        · obtain ⟨f2s', _, hb⟩ := (bind_ok_iff _ _ _).mp hb
          exact fin vv1 vh (Mono.refl _) hb f2s' rfl
      · obtain ⟨f2s', _, hb⟩ := (bind_ok_iff _ _ _).mp hb
        exact fin vv1 vh (Mono.refl _) hb f2s' rfl

theorem innerBody_inv {t : CT} (hk : CTOK t) {holeId : Array Nat} {valence : Bool} {NF : Nat} {I : Array Nat}
    (x : Nat) (s : InSt) (r : ForInStep InSt) (hI : IIn t I s) (hb : innerBody t holeId valence NF x s = .ok r) :
    StepOK (IIn t I) (IInQ t I) r := by
  obtain ⟨vf, vv, vh, val, sy, P, sp, f2s, ls, nss, st, c, nv⟩ := s
  obtain ⟨hInv, hSt, hCur⟩ := hI
  dsimp only at hInv hSt hCur
  unfold innerBody at hb
  rcases ite_ok hb with ⟨_, hb⟩ | ⟨_, hb⟩
  · exact Or.inr ⟨_, pure_ok hb, hInv, hSt⟩
  obtain ⟨vf', hvf, hb⟩ := (bind_ok_iff _ _ _).mp hb
  obtain ⟨vertId, hvert, hb⟩ := (bind_ok_iff _ _ _).mp hb
  obtain ⟨hid, _, hb⟩ := (bind_ok_iff _ _ _).mp hb
  obtain ⟨vis, hvis, hb⟩ := (bind_ok_iff _ _ _).mp hb
  obtain ⟨_, evis⟩ := rdB_get hvis
  rcases ite_ok hb with ⟨hnv, hb⟩ | ⟨hv, hb⟩
  · obtain ⟨vv', hvv', hb⟩ := (bind_ok_iff _ _ _).mp hb
    obtain ⟨hlt, evv⟩ := wrB_get hvv'
    have hm : Mono vv vv' := by rw [evv]; exact Mono.set _ _
    have hv' : vv'.getD vertId false = true := by rw [evv, bget_set' _ _ _ _ hlt, if_pos rfl]
    obtain ⟨hne, hc, evert, evf, hInv', g1, g2⟩ := cur_visit hk hInv hCur hvf hm hvert hv'
    have h0 : vv'.getD (vget t.c2v c) false = true := by rw [evert]; exact hv'
    rcases ite_ok hb with ⟨hnb, hb⟩ | ⟨_, hb⟩
    · -- C
      obtain ⟨val1, hb⟩ := ite_bind_absorb hb
      obtain ⟨o, ho, hb⟩ := (bind_ok_iff _ _ _).mp hb
      refine Or.inl ⟨_, pure_ok hb, hInv', hSt.mono hm, ?_⟩
      show CurOK t vf' vv' o
      rw [evf]
      have hvis' : vv.getD (vget t.c2v c) false = false := by
        rw [evert, evis]; simpa using hnv
      exact next_C hk hInv hc hvis' ho h0 g1 g2
    · exact innerTail_inv hk hInv' (hSt.mono hm) hc h0 g1 g2 hb
  · have hv' : vv.getD vertId false = true := by
      rw [evis]; simpa using hv
    obtain ⟨hne, hc, evert, evf, hInv', g1, g2⟩ := cur_visit hk hInv hCur hvf (Mono.refl _) hvert hv'
    have h0 : vv.getD (vget t.c2v c) false = true := by rw [evert]; exact hv'
    exact innerTail_inv hk hInv' hSt hc h0 g1 g2 hb


/-! ### the loop over the stack -/

def ISt (t : CT) (I : Array Nat) (s : StSt) : Prop :=
  Inv t s.1 s.2.1 s.2.2.2.2.2.1 I ∧ StackOK t s.2.1 s.2.2.2.2.2.2.2.2.2.2.1

theorem stackBody_inv {t : CT} (hk : CTOK t) {holeId : Array Nat} {valence : Bool} {I : Array Nat}
    (x : Nat) (s : StSt) (r : ForInStep StSt) (hI : ISt t I s)
    (hb : stackBody t holeId valence t.numFaces x s = .ok r) :
    StepOK (ISt t I) (ISt t I) r := by
  obtain ⟨vf, vv, vh, val, sy, P, sp, f2s, ls, nss, st, fin⟩ := s
  obtain ⟨hInv, hSt⟩ := hI
  dsimp only at hInv hSt
  unfold stackBody at hb
  rcases ite_ok hb with ⟨_, hb⟩ | ⟨hne, hb⟩
  · exact Or.inr ⟨_, pure_ok hb, hInv, hSt⟩
  rcases ite_ok hb with ⟨_, hb⟩ | ⟨hninv, hb⟩
  · exact Or.inl ⟨_, pure_ok hb, hInv, hSt.pop⟩
  obtain ⟨b, hb1, hb⟩ := (bind_ok_iff _ _ _).mp hb
  rcases ite_ok hb with ⟨_, hb⟩ | ⟨hnvis, hb⟩
  · exact Or.inl ⟨_, pure_ok hb, hInv, hSt.pop⟩
  obtain ⟨s2, hloop, hb⟩ := (bind_ok_iff _ _ _).mp hb
  have hcur : CurOK t vf vv st.back! := by
    refine Or.inr ⟨hSt.back (by simpa using hne), ?_⟩
    rw [(rdB_get hb1).2]
    simpa using hnvis
  have h2 := range_loop t.numFaces (innerBody t holeId valence t.numFaces) (fun _ => IIn t I) (IInQ t I)
    (fun j s r _ hI hr => innerBody_inv hk j s r hI hr) _ s2 ⟨hInv, hSt, hcur⟩ hloop
  have hQ : IInQ t I s2 := by
    rcases h2 with h | h
    · exact ⟨h.1, h.2.1⟩
    · exact h
  obtain ⟨vf2, vv2, vh2, val2, sy2, P2, sp2, f2s2, ls2, nss2, st2, c2, nv2⟩ := s2
  exact Or.inl ⟨_, pure_ok hb, hQ.1, hQ.2⟩


/-! ### the start configuration of a face -/

/-- a corner from which `EncodeConnectivityFromCorner` is started at a hole: a valid corner opposite to a boundary edge,
    in face `f` or in a face with a neighbour -/
def StartOK (t : CT) (f sc : Nat) : Prop :=
  sc < t.c2v.size ∧ opposite t.opp sc = .ok inv ∧ (sc / 3 = f ∨ isDegenA t.c2v (sc / 3) = false)

theorem swingRight_step {t : CT} (hk : CTOK t) {c c' : Nat} (hc : c < t.c2v.size) (h : swingRight t.opp c = .ok c') :
    (c' = inv ∧ opposite t.opp (Eb.prevC c) = .ok inv) ∨ (c' < t.c2v.size ∧ isDegenA t.c2v (c' / 3) = false) := by
  unfold swingRight at h
  obtain ⟨o, ho, h⟩ := (bind_ok_iff _ _ _).mp h
  have e := pure_ok h
  have hfit := hk.fits
  have hp := hk.prev_lt hc
  obtain ⟨_, eo⟩ := opposite_get (by omega) ho
  by_cases hoi : o = inv
  · left
    rw [hoi] at e ho
    exact ⟨by rw [e]; rfl, ho⟩
  · right
    rw [← eo] at hoi
    have h1 := hk.opp_lt _ hp hoi
    have h2 := hk.oppnd _ hp hoi
    rw [eo] at h1 h2
    rw [e]
    exact ⟨hk.prev_lt h1, by rw [prevC_div3 o (by omega)]; exact h2⟩

theorem findInit_spec {t : CT} (hk : CTOK t) {holeId : Array Nat} {f sc : Nat} {b : Bool} (hf : f < t.numFaces)
    (h : findInitFaceConfiguration t holeId f = .ok (b, sc)) :
    (b = true → sc = 3 * f) ∧ (b = false → StartOK t f sc) := by
  have h3 := hk.three
  have hfit := hk.fits
  unfold findInitFaceConfiguration at h
  obtain ⟨s, hloop, h⟩ := (bind_ok_iff _ _ _).mp h
  have hI := range_loop 3 _
    (fun k (s : Option (Bool × Nat) × Nat) => s.1 = none ∧ s.2 = (if k < 3 then 3 * f + k else 3 * f))
    (fun (s : Option (Bool × Nat) × Nat) => ∃ sc, s.1 = some (false, sc) ∧ StartOK t f sc)
    (by
      intro j s r hj ⟨hs1, hs2⟩ hr
      rw [if_pos hj] at hs2
      obtain ⟨o, ho, hr⟩ := (bind_ok_iff _ _ _).mp hr
      rw [hs2] at ho hr
      have hclt : 3 * f + j < t.c2v.size := by omega
      rcases ite_ok hr with ⟨hoi, hr⟩ | ⟨hoi, hr⟩
      · right
        refine ⟨_, pure_ok hr, _, rfl, hclt, ?_, Or.inl (by omega)⟩
        have : o = inv := by simpa using hoi
        rw [this] at ho; exact ho
      · obtain ⟨v, _, hr⟩ := (bind_ok_iff _ _ _).mp hr
        obtain ⟨hid, _, hr⟩ := (bind_ok_iff _ _ _).mp hr
        rcases ite_ok hr with ⟨_, hr⟩ | ⟨_, hr⟩
        · right
          obtain ⟨s2, hl2, hr⟩ := (bind_ok_iff _ _ _).mp hr
          rcases ite_ok hr with ⟨_, hr⟩ | ⟨hfin, hr⟩
          · exact (throw_bind_ne hr).elim
          have hJ := range_loop (t.numCorners + 1) _
            (fun _ (s : Nat × Nat × Bool) => s.2.2 = false ∧
              (s.1 < t.c2v.size ∧ (s.1 / 3 = f ∨ isDegenA t.c2v (s.1 / 3) = false)) ∧
              (s.2.1 = s.1 ∨ (s.2.1 = inv ∧ opposite t.opp (Eb.prevC s.1) = .ok inv) ∨
                (s.2.1 < t.c2v.size ∧ isDegenA t.c2v (s.2.1 / 3) = false)))
            (fun (s : Nat × Nat × Bool) => s.1 < t.c2v.size ∧ (s.1 / 3 = f ∨ isDegenA t.c2v (s.1 / 3) = false) ∧
              opposite t.opp (Eb.prevC s.1) = .ok inv)
            (by
              intro j2 s r _ ⟨hfalse, hc, hright⟩ hr
              rcases ite_ok hr with ⟨hri, hr⟩ | ⟨hri, hr⟩
              · right
                have hri' : s.2.1 = inv := by simpa using hri
                refine ⟨_, pure_ok hr, hc.1, hc.2, ?_⟩
                rcases hright with e | ⟨_, e⟩ | ⟨e, _⟩
                · rw [hri'] at e; omega
                · exact e
                · rw [hri'] at e; omega
              · left
                have hri' : s.2.1 ≠ inv := by simpa using hri
                obtain ⟨r', hr', hr⟩ := (bind_ok_iff _ _ _).mp hr
                have hrc : s.2.1 < t.c2v.size ∧ (s.2.1 / 3 = f ∨ isDegenA t.c2v (s.2.1 / 3) = false) := by
                  rcases hright with e | ⟨e, _⟩ | ⟨e1, e2⟩
                  · rw [e]; exact hc
                  · exact absurd e hri'
                  · exact ⟨e1, Or.inr e2⟩
                refine ⟨_, pure_ok hr, hfalse, hrc, Or.inr ?_⟩
                exact swingRight_step hk hrc.1 hr')
            (3 * f + j, 3 * f + j, false) s2 ⟨rfl, ⟨hclt, Or.inl (by omega)⟩, Or.inl rfl⟩ hl2
          have hQ : s2.1 < t.c2v.size ∧ (s2.1 / 3 = f ∨ isDegenA t.c2v (s2.1 / 3) = false) ∧
              opposite t.opp (Eb.prevC s2.1) = .ok inv := by
            rcases hJ with ⟨hf2, _⟩ | hQ
            · have : s2.2.2 = true := by simpa using hfin
              rw [this] at hf2; cases hf2
            · exact hQ
          refine ⟨_, pure_ok hr, _, rfl, hk.prev_lt hQ.1, hQ.2.2, ?_⟩
          rw [prevC_div3 _ (by omega)]
          exact hQ.2.1
        · left
          refine ⟨_, pure_ok hr, rfl, ?_⟩
          show Eb.nextC (3 * f + j) = _
          rw [nextC_cf _ (by omega)]
          split <;> split <;> omega)
    (none, 3 * f) s ⟨rfl, by simp⟩ hloop
  rcases hI with ⟨e1, e2⟩ | ⟨sc', e1, hsc⟩
  · rw [e1] at h
    have := pure_ok h
    simp only [Nat.lt_irrefl, ↓reduceIte] at e2
    rw [e2] at this
    cases this
    exact ⟨fun _ => rfl, fun hb => (by cases hb)⟩
  · rw [e1] at h
    have := pure_ok h
    cases this
    exact ⟨fun hb => (by cases hb), fun _ => hsc⟩


/-! ### the loop over the faces -/

def IO (t : CT) (s : OSt) : Prop := Inv t s.1 s.2.1 s.2.2.2.2.2.2.2.1 s.2.2.2.2.2.2.2.2.1

theorem outerTail_inv {t : CT} (hk : CTOK t) {holeId : Array Nat} {valence : Bool} {val : ValEnc} {sy : Array Nat}
    {sf : RAnsBitEnc} {sfs : Array Bool} {P : Array Nat} {sp : Array TopoSplit} {f2s : Array Nat} {ls : Int} {nss : Nat}
    {vf vv vh : Array Bool} {I : Array Nat} {from_ : Nat} {r : ForInStep OSt}
    (hInv : Inv t vf vv P I) (hfrom : CornerOK t vv from_)
    (hb : outerTail t holeId valence t.numFaces val sy sf sfs P sp f2s ls nss () vf vv vh I from_ = .ok r) :
    ∃ s', r = .yield s' ∧ IO t s' := by
  unfold outerTail at hb
  rcases ite_ok hb with ⟨_, hb⟩ | ⟨_, hb⟩
  · exact ⟨_, pure_ok hb, hInv⟩
  obtain ⟨s2, hloop, hb⟩ := (bind_ok_iff _ _ _).mp hb
  have h2 := range_loop (4 * t.numFaces + 16) (stackBody t holeId valence t.numFaces) (fun _ => ISt t I) (ISt t I)
    (fun j s r _ hI hr => stackBody_inv hk j s r hI hr) _ s2 ⟨hInv, StackOK.single hfrom⟩ hloop
  have hQ : ISt t I s2 := by
    rcases h2 with h | h <;> exact h
  obtain ⟨vf2, vv2, vh2, val2, sy2, P2, sp2, f2s2, ls2, nss2, st2, fin2⟩ := s2
  rcases ite_ok hb with ⟨_, hb⟩ | ⟨_, hb⟩
  · exact (throw_bind_ne hb).elim
  · exact ⟨_, pure_ok hb, hQ.1⟩

theorem outerBody_inv {t : CT} (hk : CTOK t) {holeId : Array Nat} {valence : Bool}
    (cId : Nat) (s : OSt) (r : ForInStep OSt) (hcId : cId < t.numCorners) (hI : IO t s)
    (hb : outerBody t holeId valence t.numFaces cId s = .ok r) :
    ∃ s', r = .yield s' ∧ IO t s' := by
  obtain ⟨vf, vv, vh, val, sy, sf, sfs, P, ifc, sp, f2s, ls, nss⟩ := s
  have hInv : Inv t vf vv P ifc := hI
  have h3 := hk.three
  have hfit := hk.fits
  have hf : cId / 3 < t.numFaces := by
    have : cId < t.c2v.size := hcId
    omega
  unfold outerBody at hb
  obtain ⟨b, hb1, hb⟩ := (bind_ok_iff _ _ _).mp hb
  rcases ite_ok hb with ⟨_, hb⟩ | ⟨hnv, hb⟩
  · exact ⟨_, pure_ok hb, hI⟩
  obtain ⟨d, hd, hb⟩ := (bind_ok_iff _ _ _).mp hb
  rcases ite_ok hb with ⟨_, hb⟩ | ⟨hnd, hb⟩
  · exact ⟨_, pure_ok hb, hI⟩
  have hun : vf.getD (cId / 3) false = false := by
    rw [(rdB_get hb1).2]; simpa using hnv
  have hnd' : isDegenA t.c2v (cId / 3) = false := by
    rw [← isDegenerated_ok hk hf hd]; simpa using hnd
  obtain ⟨x, hx, hb⟩ := (bind_ok_iff _ _ _).mp hb
  obtain ⟨interior, sc⟩ := x
  obtain ⟨hsp1, hsp2⟩ := findInit_spec hk hf hx
  simp only [] at hb
  rcases ite_ok hb with ⟨hint, hb⟩ | ⟨hnint, hb⟩
  · -- interior configuration: the face becomes an init face
    have hsc := hsp1 hint
    have hsclt : sc < t.c2v.size := by omega
    have hsci : sc < inv := by omega
    have en : Eb.nextC sc = 3 * (cId / 3) + 1 := by rw [nextC_cf sc hsci, hsc]; split <;> omega
    have ep : Eb.prevC sc = 3 * (cId / 3) + 2 := by rw [prevC_cf sc hsci, hsc]; split <;> omega
    obtain ⟨v0, hv0, hb⟩ := (bind_ok_iff _ _ _).mp hb
    obtain ⟨v1, hv1, hb⟩ := (bind_ok_iff _ _ _).mp hb
    obtain ⟨v2, hv2, hb⟩ := (bind_ok_iff _ _ _).mp hb
    obtain ⟨vv1, hvv1, hb⟩ := (bind_ok_iff _ _ _).mp hb
    obtain ⟨vv2, hvv2, hb⟩ := (bind_ok_iff _ _ _).mp hb
    obtain ⟨vv3, hvv3, hb⟩ := (bind_ok_iff _ _ _).mp hb
    obtain ⟨vf', hvf', hb⟩ := (bind_ok_iff _ _ _).mp hb
    obtain ⟨oppId, hopp, hb⟩ := (bind_ok_iff _ _ _).mp hb
    obtain ⟨b2, _, hb⟩ := (bind_ok_iff _ _ _).mp hb
    obtain ⟨_, e0⟩ := vertex_get (by omega) hv0
    obtain ⟨_, e1⟩ := vertex_get (by rw [en, inv_eq]; rw [inv_eq] at hfit; omega) hv1
    obtain ⟨_, e2⟩ := vertex_get (by rw [ep, inv_eq]; rw [inv_eq] at hfit; omega) hv2
    obtain ⟨l1, s1⟩ := wrB_get hvv1
    obtain ⟨l2, s2⟩ := wrB_get hvv2
    obtain ⟨l3, s3⟩ := wrB_get hvv3
    obtain ⟨lf, sf'⟩ := wrB_get hvf'
    have m1 : Mono vv vv1 := by rw [s1]; exact Mono.set _ _
    have m2 : Mono vv1 vv2 := by rw [s2]; exact Mono.set _ _
    have m3 : Mono vv2 vv3 := by rw [s3]; exact Mono.set _ _
    have g0 : vv3.getD (vget t.c2v sc) false = true := by
      apply m3.2; apply m2.2
      rw [s1, e0, bget_set' _ _ _ _ l1, if_pos rfl]
    have g1 : vv3.getD (vget t.c2v (Eb.nextC sc)) false = true := by
      apply m3.2
      rw [s2, e1, bget_set' _ _ _ _ l2, if_pos rfl]
    have g2 : vv3.getD (vget t.c2v (Eb.prevC sc)) false = true := by
      rw [s3, e2, bget_set' _ _ _ _ l3, if_pos rfl]
    have hdiv : Eb.nextC sc / 3 = cId / 3 := by rw [en]; omega
    have hInv' : Inv t vf' vv3 P (ifc.push (Eb.nextC sc)) := by
      rw [sf', ← hdiv]
      apply hInv.visit (Eb.nextC sc) (by rw [hdiv]; exact lf) (by rw [hdiv]; exact hun) (by rw [hdiv]; exact hnd')
        (m1.trans (m2.trans m3)) ?_ (countP_pushI P ifc (Eb.nextC sc))
      intro k hk3
      rw [hdiv]
      have : k = 0 ∨ k = 1 ∨ k = 2 := by omega
      rcases this with e | e | e
      · rw [e, Nat.add_zero, ← hsc]; exact g0
      · rw [e, ← en]; exact g1
      · rw [e, ← ep]; exact g2
    have hco : CornerOK t vv3 oppId := (opp_cornerOK hk hsclt (Or.inl rfl) hopp g0 g1 g2).1
    rcases ite_ok hb with ⟨_, hb⟩ | ⟨_, hb⟩
    · exact outerTail_inv hk hInv' hco hb
    · exact outerTail_inv hk hInv' (Or.inl rfl) hb
  · -- a face at a hole: the traversal starts at the boundary edge
    have hst := hsp2 (by simpa using hnint)
    obtain ⟨hsclt, hso, hsnd⟩ := hst
    have hsci : sc < inv := by omega
    obtain ⟨x2, hx2, hb⟩ := (bind_ok_iff _ _ _).mp hb
    obtain ⟨vv', vh'⟩ := x2
    obtain ⟨hm, hg⟩ := encodeHole_spec hx2
    have hnl : Eb.nextC sc < inv := Eb.nextC_lt sc hsci
    obtain ⟨g1, g2⟩ := hg rfl hnl (by rw [prevC_nextC' sc hsci]; exact hso)
    rw [prevC_nextC' sc hsci] at g2
    have hco : CornerOK t vv' sc := by
      refine Or.inr ⟨hsclt, ?_, g1, g2⟩
      rcases hsnd with e | e
      · rw [e]; exact hnd'
      · exact e
    simp only [] at hb
    exact outerTail_inv hk (hInv.mono hm) hco hb

/-! ### `EncodeConnectivity` -/

theorem ite_bind_both {α β : Type} {c : Prop} [Decidable c] {x y : R α} {k : α → R β} {r : β}
    (h : (if c then x >>= k else y >>= k) = .ok r) : ∃ a, k a = .ok r := by
  rcases ite_ok h with ⟨_, h⟩ | ⟨_, h⟩
  · obtain ⟨a, _, h⟩ := (bind_ok_iff _ _ _).mp h; exact ⟨a, h⟩
  · obtain ⟨a, _, h⟩ := (bind_ok_iff _ _ _).mp h; exact ⟨a, h⟩

theorem inv_init (t : CT) (nv : Nat) (P : Array Nat) (hP : P = #[]) :
    Inv t (Array.replicate t.numFaces false) (Array.replicate nv false) P #[] := by
  subst hP
  have hfalse : ∀ (n f : Nat), (Array.replicate n false).getD f false = false := by
    intro n f
    simp only [Array.getD_eq_getD_getElem?, Array.getElem?_replicate]
    by_cases h : f < n <;> simp [h]
  refine ⟨by simp, ?_, ?_, ?_⟩
  · intro f
    rw [hfalse]; simp
  · intro f hf
    rw [hfalse] at hf; cases hf
  · intro f hf
    rw [hfalse] at hf; cases hf

/-- **the visited faces at the end of `EncodeConnectivity`**: there is a flag array `vf` (the final `visited_faces_`)
    that marks exactly the faces of the corners of `processed_connectivity_corners_`, each of which occurs once, and no
    degenerate face -/
theorem encodeConnectivity_visited (ch : ConnChoices) (valence : Bool) (posFaces : Faces)
    (acv : Array (Nat × Array Nat)) (conn : ConnEnc)
    (h : encodeConnectivity ch valence posFaces acv = .ok conn) :
    ∃ (table : CornerTable) (vf : Array Bool), CornerTable.create posFaces = some table ∧ conn.ct = CT.ofTable table ∧ vf.size = conn.ct.numFaces ∧
      (∀ f, conn.processed.toList.countP (fun c => c / 3 == f) = if vf.getD f false = true then 1 else 0) ∧
      (∀ f, vf.getD f false = true → isDegenA conn.ct.c2v f = false) := by
  rw [encodeConnectivity_eq] at h
  split at h
  · rename_i table hcreate
    have hk := ctok_ofTable hcreate
    simp only [] at h
    rcases ite_ok h with ⟨_, h⟩ | ⟨_, h⟩
    · exact (throw_bind_ne h).elim
    obtain ⟨x, _, h⟩ := (bind_ok_iff _ _ _).mp h
    obtain ⟨atts, _, h⟩ := (bind_ok_iff _ _ _).mp h
    obtain ⟨val, h⟩ := ite_bind_both h
    obtain ⟨s, hloop, h⟩ := (bind_ok_iff _ _ _).mp h
    have hInv : IO (CT.ofTable table) s := by
      have hI : IO (CT.ofTable table) s ∨ False := by
        refine range_loop _ _ (fun _ => IO (CT.ofTable table)) (fun _ => False) ?_ _ s ?_ hloop
        · intro j s r hj hI hr
          exact Or.inl (outerBody_inv hk j s r hj hI hr)
        · exact inv_init (CT.ofTable table) _ _ rfl
      rcases hI with h | h
      · exact h
      · exact h.elim
    obtain ⟨vf, vv, vh, val2, sy, sf, sfs, P, ifc, sp, f2s, ls, nss⟩ := s
    have hInv' : Inv (CT.ofTable table) vf vv P ifc := hInv
    obtain ⟨sb, _, h⟩ := (bind_ok_iff _ _ _).mp h
    have hconn : conn.ct = CT.ofTable table ∧ conn.processed = P.reverse ++ ifc := by
      rcases ite_ok h with ⟨_, h⟩ | ⟨_, h⟩
      · obtain ⟨cb, _, h⟩ := (bind_ok_iff _ _ _).mp h
        have := pure_ok h
        rw [this]
        exact ⟨rfl, rfl⟩
      · have := pure_ok h
        rw [this]
        exact ⟨rfl, rfl⟩
    refine ⟨table, vf, hcreate, hconn.1, ?_, ?_, ?_⟩
    · rw [hconn.1]; exact hInv'.vfsz
    · intro f
      rw [hconn.2, ← hInv'.cnt f]
      simp [List.countP_append, List.countP_reverse]
    · rw [hconn.1]; exact hInv'.nd
  · simp only [throw, throwThe, MonadExceptOf.throw] at h
    cases h


/-! ### counting -/

theorem coc_count (ctv : Array Nat) (l : List Nat) (acc : HEState × Nat) :
    (l.foldl (cocFace ctv) acc).2 = acc.2 + l.countP (fun f => isDegenA ctv f) := by
  induction l generalizing acc with
  | nil => simp
  | cons a l ih =>
    rw [List.foldl_cons, ih, List.countP_cons]
    unfold cocFace
    by_cases h : isDegenA ctv a = true
    · simp [h]; omega
    · simp [h]

/-- `NumDegeneratedFaces()` of a created table is the number of faces `IsDegenerated` holds of -/
theorem numDegenerated_eq {faces : Faces} {table : CornerTable} (hc : CornerTable.create faces = some table) :
    table.numDegeneratedFaces = (List.range faces.size).countP (fun f => isDegenA table.cornerToVertex f) := by
  have h1 : table.numDegeneratedFaces = (computeOppositeCorners (initCtv faces)).2 := by
    have h := hc
    unfold CornerTable.create CornerTable.createF at h
    split at h
    · injection h with h
      subst h
      rfl
    · cases h
  rw [h1]
  unfold computeOppositeCorners
  simp only []
  rw [coc_count, size_initCtv, show 3 * faces.size / 3 = faces.size by omega, Nat.zero_add]
  apply List.countP_congr
  intro f hf
  have hf' : f < faces.size := List.mem_range.mp hf
  have e1 := isDegenA_initCtv faces f hf'
  have e2 : isDegenA table.cornerToVertex f = faceDegenerate faces f := CornerTable.createF_isDegenerated hc f hf'
  rw [e1, e2]

theorem isDegenerated_eq {t : CT} (hk : CTOK t) {f : Nat} (hf : f < t.numFaces) :
    isDegenerated t f = .ok (isDegenA t.c2v f) := by
  have h1 := hk.three
  have h2 := hk.fits
  rw [inv_eq] at h2
  have e : (f == inv) = false := by rw [inv_eq]; simp; omega
  have e0 : (3 * f == inv) = false := by rw [inv_eq]; simp; omega
  have e1 : (3 * f + 1 == inv) = false := by rw [inv_eq]; simp; omega
  have e2 : (3 * f + 2 == inv) = false := by rw [inv_eq]; simp; omega
  have l0 : 3 * f < t.c2v.size := by omega
  have l1 : 3 * f + 1 < t.c2v.size := by omega
  have l2 : 3 * f + 2 < t.c2v.size := by omega
  unfold isDegenerated vertex rd
  simp only [e, e0, e1, e2, Bool.false_eq_true, ↓reduceIte, l0, l1, l2, ↓reduceDIte]
  simp [isDegenA, vget, bind, Except.bind, pure, Except.pure, l0, l1, l2]

theorem countP_eq_of_imp {α : Type} (p q : α → Bool) (l : List α) (himp : ∀ x ∈ l, p x = true → q x = true)
    (heq : l.countP p = l.countP q) : ∀ x ∈ l, q x = true → p x = true := by
  induction l with
  | nil => intro x hx; simp at hx
  | cons a l ih =>
    have hle : l.countP p ≤ l.countP q := List.countP_mono_left (fun x hx => himp x (List.mem_cons_of_mem _ hx))
    rw [List.countP_cons, List.countP_cons] at heq
    have ha := himp a (List.mem_cons_self)
    intro x hx hq
    by_cases hpa : p a = true
    · have hqa := ha hpa
      rw [if_pos hpa, if_pos hqa] at heq
      rcases List.mem_cons.mp hx with e | e
      · rw [e]; exact hpa
      · exact ih (fun y hy => himp y (List.mem_cons_of_mem _ hy)) (by omega) x e hq
    · rw [if_neg hpa] at heq
      by_cases hqa : q a = true
      · rw [if_pos hqa] at heq; omega
      · rw [if_neg hqa] at heq
        rcases List.mem_cons.mp hx with e | e
        · rw [e] at hq; exact absurd hq hqa
        · exact ih (fun y hy => himp y (List.mem_cons_of_mem _ hy)) (by omega) x e hq

/-- **C09, faces (encoder side).**  After a successful `EncodeConnectivity`, the faces of
    `processed_connectivity_corners_` (what the traversal symbols and start faces describe, hence what a decoder rebuilds)
    are pairwise different, valid and not degenerate; so there are at most `num_faces − NumDegeneratedFaces()` of them —
    the number `ComputeNumberOfEncodedFaces` reports —, with equality exactly when every non-degenerate face was reached
    by the traversal. -/
theorem encodeConnectivity_faces (ch : ConnChoices) (valence : Bool) (posFaces : Faces)
    (acv : Array (Nat × Array Nat)) (conn : ConnEnc)
    (h : encodeConnectivity ch valence posFaces acv = .ok conn) :
    (conn.processed.toList.map (· / 3)).Nodup ∧
    (∀ c ∈ conn.processed.toList, c < conn.ct.numCorners ∧ isDegenerated conn.ct (c / 3) = .ok false) ∧
    conn.ct.numDegenerated = (List.range conn.ct.numFaces).countP (fun f => isDegenA conn.ct.c2v f) ∧
    conn.processed.size ≤ conn.ct.numFaces - conn.ct.numDegenerated ∧
    (conn.processed.size = conn.ct.numFaces - conn.ct.numDegenerated ↔
      ∀ f, f < conn.ct.numFaces → isDegenerated conn.ct f = .ok false → f ∈ conn.processed.toList.map (· / 3)) := by
  obtain ⟨table, vf, hcreate, hct, hsz, hcnt, hnd⟩ := encodeConnectivity_visited ch valence posFaces acv conn h
  have hk : CTOK conn.ct := by rw [hct]; exact ctok_ofTable hcreate
  have h3 := hk.three
  -- membership and multiplicity of faces
  have hcount : ∀ f, (conn.processed.toList.map (· / 3)).count f = if vf.getD f false = true then 1 else 0 := by
    intro f
    rw [List.count_eq_countP, List.countP_map, ← hcnt f]
    apply List.countP_congr
    intro c _
    simp [Function.comp]
  have hnodup : (conn.processed.toList.map (· / 3)).Nodup := by
    rw [List.nodup_iff_count_le_one]
    intro f
    rw [hcount f]
    split <;> omega
  have hmem : ∀ f, f ∈ conn.processed.toList.map (· / 3) ↔ vf.getD f false = true := by
    intro f
    rw [← List.count_pos_iff, hcount f]
    split <;> simp_all
  have hvlt : ∀ f, vf.getD f false = true → f < conn.ct.numFaces := by
    intro f hf
    rw [← hsz]
    apply Classical.byContradiction
    intro hge
    rw [Array.getD_eq_getD_getElem?, Array.getElem?_eq_none (by omega)] at hf
    cases hf
  -- the visited faces as a list
  have hperm : (conn.processed.toList.map (· / 3)).Perm ((List.range conn.ct.numFaces).filter (fun f => vf.getD f false)) := by
    rw [List.perm_ext_iff_of_nodup hnodup (List.nodup_range.filter _)]
    intro f
    rw [hmem f, List.mem_filter, List.mem_range]
    constructor
    · intro hf; exact ⟨hvlt f hf, hf⟩
    · intro hf; exact hf.2
  have hlen : conn.processed.size = (List.range conn.ct.numFaces).countP (fun f => vf.getD f false) := by
    have := hperm.length_eq
    rw [List.length_map, Array.length_toList] at this
    rw [this, List.countP_eq_length_filter]
  have hdeg : conn.ct.numDegenerated = (List.range conn.ct.numFaces).countP (fun f => isDegenA conn.ct.c2v f) := by
    rw [hct]
    show table.numDegeneratedFaces = _
    have e : (CT.ofTable table).numFaces = posFaces.size := by
      show table.cornerToVertex.size / 3 = _
      rw [create_c2v_size hcreate]; omega
    rw [e]
    exact numDegenerated_eq hcreate
  have hsplit : (List.range conn.ct.numFaces).countP (fun f => !isDegenA conn.ct.c2v f) =
      conn.ct.numFaces - conn.ct.numDegenerated := by
    have := List.length_eq_countP_add_countP (fun f => isDegenA conn.ct.c2v f) (l := List.range conn.ct.numFaces)
    rw [List.length_range] at this
    rw [hdeg]
    have e : (List.range conn.ct.numFaces).countP (fun f => !isDegenA conn.ct.c2v f) =
        (List.range conn.ct.numFaces).countP (fun f => ¬ (isDegenA conn.ct.c2v f = true)) := by
      apply List.countP_congr
      intro f _
      simp
    omega
  have himp : ∀ f ∈ List.range conn.ct.numFaces, vf.getD f false = true → (!isDegenA conn.ct.c2v f) = true := by
    intro f _ hf
    rw [hnd f hf]; rfl
  refine ⟨hnodup, ?_, hdeg, ?_, ?_⟩
  · intro c hc
    have hf : vf.getD (c / 3) false = true := (hmem (c / 3)).mp (List.mem_map.mpr ⟨c, hc, rfl⟩)
    have hlt := hvlt _ hf
    refine ⟨?_, ?_⟩
    · show c < conn.ct.c2v.size
      omega
    · rw [isDegenerated_eq hk hlt, hnd _ hf]
  · rw [hlen, ← hsplit]
    exact List.countP_mono_left himp
  · rw [hlen, ← hsplit]
    constructor
    · intro heq f hf hd
      rw [hmem f]
      apply countP_eq_of_imp _ _ _ himp heq f (List.mem_range.mpr hf)
      rw [isDegenerated_eq hk hf] at hd
      injection hd with hd
      rw [hd]; rfl
    · intro hall
      apply List.countP_congr
      intro f hf
      have hf' := List.mem_range.mp hf
      constructor
      · exact himp f hf
      · intro hd
        rw [← hmem f]
        apply hall f hf'
        rw [isDegenerated_eq hk hf']
        have : isDegenA conn.ct.c2v f = false := by simpa using hd
        rw [this]

end Draco.EbEnc.EncCounts
