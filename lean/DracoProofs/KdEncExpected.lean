import DracoProofs.KdEncGeometry
/-
  What the kd-tree decoder assembles from the encoder's point vector in its original order is
  `expectedKd g opts`: every point map resolved, integer attributes bit-identical, float
  attributes dequantized quantizations.
-/
namespace Draco.KdEnc
open Draco SeqEnc DecM Kd

/-- `attRow`'s cut to `data_size` bytes -/
def modRow (ds : Nat) (r : List Nat) : List Nat := r.map (· % 2 ^ (8 * ds))

def dsOf (e : AttEnc) : Nat := if e.kind = 2 then 4 else dataTypeLength e.desc.dataType

/-- the attribute the decoder builds for encoder state `e` from `e`'s own coordinate rows -/
def decodedAttr (n : Nat) (e : AttEnc) : Attribute :=
  finishAttribute {} n ⟨e.desc, e.kind, 0, dsOf e⟩ e.transform (e.coords.map (modRow (dsOf e)))

theorem finishAttribute_offset (opts : DecOpts) (n : Nat) (d : AttDesc) (k o1 o2 ds : Nat) (t : KdTransform)
    (rows : List (List Nat)) :
    finishAttribute opts n ⟨d, k, o1, ds⟩ t rows = finishAttribute opts n ⟨d, k, o2, ds⟩ t rows := by
  cases t <;> rfl

theorem zipWith_assoc_append : ∀ (a b c : List (List Nat)),
    List.zipWith (· ++ ·) a (List.zipWith (· ++ ·) b c) =
      List.zipWith (· ++ ·) (List.zipWith (· ++ ·) a b) c := by
  intro a
  induction a with
  | nil => intro b c; simp
  | cons x xs ih =>
    intro b c
    cases b with
    | nil => simp
    | cons y ys =>
      cases c with
      | nil => simp
      | cons z zs => simp [ih, List.append_assoc]

theorem attRow_head (d : AttDesc) (k off ds : Nat) : ∀ (pres coords rest : List (List Nat)),
    pres.length = coords.length → coords.length = rest.length →
    (∀ p ∈ pres, p.length = off) → (∀ r ∈ coords, r.length = d.numComponents) →
    (List.zipWith (· ++ ·) pres (List.zipWith (· ++ ·) coords rest)).map (attRow ⟨d, k, off, ds⟩) =
      coords.map (modRow ds) := by
  intro pres
  induction pres with
  | nil =>
    intro coords rest h1 _ _ _
    cases coords with
    | nil => rfl
    | cons _ _ => simp at h1
  | cons p ps ih =>
    intro coords rest h1 h2 hp hc
    cases coords with
    | nil => simp at h1
    | cons r rs =>
      cases rest with
      | nil => simp at h2
      | cons q qs =>
        simp only [List.zipWith_cons_cons, List.map_cons, List.cons.injEq]
        refine ⟨?_, ih rs qs (by simpa using h1) (by simpa using h2)
          (fun x hx => hp x (by simp [hx])) (fun x hx => hc x (by simp [hx]))⟩
        have hpl := hp p (by simp)
        have hrl := hc r (by simp)
        simp only [attRow, modRow]
        rw [List.drop_left' hpl, List.take_left' hrl]

theorem zipWith_append_length : ∀ (a b : List (List Nat)) (k1 k2 : Nat), a.length = b.length →
    (∀ x ∈ a, x.length = k1) → (∀ x ∈ b, x.length = k2) →
    (List.zipWith (· ++ ·) a b).length = a.length ∧ ∀ x ∈ List.zipWith (· ++ ·) a b, x.length = k1 + k2 := by
  intro a b k1 k2 hl ha hb
  refine ⟨by simp [hl], ?_⟩
  intro x hx
  obtain ⟨u, hu, w, hw, rfl⟩ := mem_zipWith' _ _ _ x hx
  simp [ha u hu, hb w hw]

/-- the attributes the decoder assembles from the encoder's point vector (extended by arbitrary
    prefixes of the running offset) are the per-attribute `decodedAttr`s -/
theorem decodedAtts_pointVector (n : Nat) : ∀ (encs : List AttEnc) (pres : List (List Nat)) (off : Nat),
    (∀ e ∈ encs, EncFacts n e) → pres.length = n → (∀ p ∈ pres, p.length = off) →
    zip3With (finishAttribute {} n) (kdAttsOf off encs) (encs.map (·.transform))
      ((kdAttsOf off encs).map fun ka => (List.zipWith (· ++ ·) pres (pointVector n encs)).map (attRow ka))
      = encs.map (decodedAttr n) := by
  intro encs
  induction encs with
  | nil => intro pres off _ _ _; rfl
  | cons e es ih =>
    intro pres off hf hpl hpo
    have he := hf e (by simp)
    have hes : ∀ x ∈ es, EncFacts n x := fun x hx => hf x (by simp [hx])
    obtain ⟨pvl, _⟩ := pointVector_spec n es hes
    simp only [kdAttsOf, List.map_cons, zip3With, pointVector, List.cons.injEq]
    constructor
    · rw [attRow_head e.desc e.kind off _ pres e.coords (pointVector n es) (by rw [hpl, he.rows])
        (by rw [he.rows, pvl]) hpo he.rowLen]
      exact finishAttribute_offset _ _ _ _ _ _ _ _ _
    · rw [zipWith_assoc_append]
      obtain ⟨zl, zr⟩ := zipWith_append_length pres e.coords off e.desc.numComponents
        (by rw [hpl, he.rows]) hpo he.rowLen
      exact ih (List.zipWith (· ++ ·) pres e.coords) (off + e.desc.numComponents) hes
        (by rw [zl, hpl]) zr

theorem zipWith_nil_append (l : List (List Nat)) :
    List.zipWith (· ++ ·) (List.replicate l.length ([] : List Nat)) l = l := by
  induction l with
  | nil => rfl
  | cons x xs ih => simp [List.replicate_succ, ih]

theorem geometryOfPoints_pointVector (n : Nat) (encs : List AttEnc) (hf : ∀ e ∈ encs, EncFacts n e) :
    (geometryOfPoints n encs (pointVector n encs)).atts = encs.map (decodedAttr n) := by
  obtain ⟨pvl, _⟩ := pointVector_spec n encs hf
  have hz : List.zipWith (· ++ ·) (List.replicate n ([] : List Nat)) (pointVector n encs) = pointVector n encs := by
    have := zipWith_nil_append (pointVector n encs)
    rw [pvl] at this
    exact this
  have := decodedAtts_pointVector n encs (List.replicate n []) 0 hf (by simp) (by
    intro p hp; rw [List.eq_of_mem_replicate hp]; rfl)
  rw [hz] at this
  exact this

/-! ### one attribute -/

theorem modRow_id (ds : Nat) (r : List Nat) (h : ∀ x ∈ r, x < 2 ^ (8 * ds)) : modRow ds r = r := by
  unfold modRow
  induction r with
  | nil => rfl
  | cons x xs ih =>
    simp only [List.map_cons, List.cons.injEq]
    exact ⟨Nat.mod_eq_of_lt (h x (by simp)), ih (fun y hy => h y (by simp [hy]))⟩

theorem writeLE_rowComps (len : Nat) : ∀ (nc : Nat) (row : Bytes), IsBytes row → row.length = nc * len →
    (rowComps len nc row).flatMap (writeLE len) = row := by
  intro nc
  induction nc with
  | zero =>
    intro row _ hl
    simp only [Nat.zero_mul] at hl
    simp [rowComps, List.eq_nil_of_length_eq_zero hl]
  | succ nc ih =>
    intro row hb hl
    have hge : len ≤ row.length := by rw [hl, Nat.succ_mul]; omega
    have htl : (row.take len).length = len := by rw [List.length_take]; omega
    simp only [rowComps, List.flatMap_cons]
    have h1 := writeLE_leValue (row.take len) (isBytes_take row len hb)
    rw [htl] at h1
    rw [h1, ih (row.drop len) (isBytes_drop row len hb) (by rw [List.length_drop, hl, Nat.succ_mul]; omega)]
    exact List.take_append_drop len row

/-- one signed component: offset by the minimum, cut to the type, minimum added back -/
theorem signed_component (len : Nat) (hl : len = 1 ∨ len = 2 ∨ len = 4) (u : Nat) (hu : u < 256 ^ len)
    (m : Int) (hm1 : -2^31 ≤ m) (hm2 : m < 2^31) :
    writeLE len (((toUnsigned 32 (toSigned (8 * len) u) + 2^32 - toUnsigned 32 m) % 2^32 % 2^(8 * len)
      + toUnsigned 32 m) % 2^32) = writeLE len u := by
  rw [← writeLE_mod len, ← writeLE_mod len u]
  congr 1
  unfold toUnsigned toSigned
  rcases hl with rfl | rfl | rfl
  · have e1 : (2:Nat) ^ (8 * 1) = 256 := by decide
    have e2 : (2:Nat) ^ (8 * 1 - 1) = 128 := by decide
    have e3 : (2:Nat) ^ 32 = 4294967296 := by decide
    have e4 : (256:Nat) ^ 1 = 256 := by decide
    rw [e4] at hu
    simp only [e1, e2, e3, e4]
    split <;> omega
  · have e1 : (2:Nat) ^ (8 * 2) = 65536 := by decide
    have e2 : (2:Nat) ^ (8 * 2 - 1) = 32768 := by decide
    have e3 : (2:Nat) ^ 32 = 4294967296 := by decide
    have e4 : (256:Nat) ^ 2 = 65536 := by decide
    rw [e4] at hu
    simp only [e1, e2, e3, e4]
    split <;> omega
  · have e1 : (2:Nat) ^ (8 * 4) = 4294967296 := by decide
    have e2 : (2:Nat) ^ (8 * 4 - 1) = 2147483648 := by decide
    have e3 : (2:Nat) ^ 32 = 4294967296 := by decide
    have e4 : (256:Nat) ^ 4 = 4294967296 := by decide
    rw [e4] at hu
    simp only [e1, e2, e3, e4]
    split <;> omega

theorem signed_row (len : Nat) (hl : len = 1 ∨ len = 2 ∨ len = 4) : ∀ (comps : List Nat) (mins : List Int),
    comps.length = mins.length → (∀ u ∈ comps, u < 256 ^ len) → (∀ m ∈ mins, -2^31 ≤ m ∧ m < 2^31) →
    (mapRow (fun (m : Int) v => (v + toUnsigned 32 m) % 2^32) mins
      (modRow len (signedCoords len mins comps))).flatMap (writeLE len) = comps.flatMap (writeLE len) := by
  intro comps
  induction comps with
  | nil => intro mins _ _ _; cases mins <;> rfl
  | cons u us ih =>
    intro mins hlen hu hm
    cases mins with
    | nil => simp at hlen
    | cons m ms =>
      simp only [signedCoords, List.zipWith_cons_cons, modRow, List.map_cons, mapRow, List.flatMap_cons]
      rw [signed_component len hl u (hu u (by simp)) m (hm m (by simp)).1 (hm m (by simp)).2]
      congr 1
      exact ih ms (by simpa using hlen) (fun x hx => hu x (by simp [hx])) (fun x hx => hm x (by simp [hx]))

theorem flatMap_map_eq {α β γ : Type} (f : α → β) (g : β → List γ) (l : List α) :
    (l.map f).flatMap g = l.flatMap (fun x => g (f x)) := by
  induction l with
  | nil => rfl
  | cons x xs ih => simp [ih]

theorem flatMap_congr' {α β : Type} (f g : α → List β) (l : List α) (h : ∀ x ∈ l, f x = g x) :
    l.flatMap f = l.flatMap g := by
  induction l with
  | nil => rfl
  | cons x xs ih =>
    simp only [List.flatMap_cons]
    rw [h x (by simp), ih (fun y hy => h y (by simp [hy]))]

theorem flatMap_id_flatten {α : Type} (l : List (List α)) : l.flatMap (fun r => r) = l.flatten := by
  induction l with
  | nil => rfl
  | cons x xs ih => simp [ih]

/-- the decoder's attribute for one encoder state = the expected attribute -/
theorem decodedAttr_eq (opts : EncOpts) (n i : Nat) (a : Attribute) (e : AttEnc)
    (hok : AttOK a (opts.att i) n) (h : encodeAttribute opts n i a = some e) :
    decodedAttr n e = expectedAttributeOf opts n i a := by
  obtain ⟨hrl, hrs⟩ := pointRows_spec a n hok.valid
  have hrb := pointRows_bytes a n hok.bytes
  unfold encodeAttribute at h
  simp only at h
  cases hk : kindOf a.dataType with
  | none => rw [hk] at h; cases h
  | some k =>
    rw [hk] at h
    have hkc := kindOf_cases a.dataType k hk
    match k, hk, hkc, h with
    | 0, hk, hkc, h =>
      simp only [Option.some.injEq] at h
      subst h
      have hl := len_of_kind _ _ hk (by decide)
      have hne9 : ¬ a.dataType = Generated.DT_FLOAT32.toNat := by
        rcases hkc with ⟨_, h | h | h⟩ | ⟨h, _⟩ | ⟨h, _⟩ <;> first | (rw [h]; decide) | omega
      simp only [decodedAttr, dsOf, finishAttribute, expectedAttributeOf, descOf, hne9, if_false,
        show ¬ ((0:Nat) = 2) by decide]
      congr 1
      rw [flatMap_map_eq, flatMap_map_eq, ← flatMap_id_flatten]
      apply flatMap_congr'
      intro row hrow
      have hlen : row.length = a.numComponents * dataTypeLength a.dataType := by
        rw [hrs row hrow, Attribute.stride, Nat.mul_comm]
      rw [modRow_id _ _ (fun x hx => by
        have := rowComps_lt _ _ _ (hrb row hrow) x hx
        rwa [pow256] at this)]
      exact writeLE_rowComps _ _ row (hrb row hrow) hlen
    | 1, hk, hkc, h =>
      simp only [Option.some.injEq] at h
      subst h
      have hl := len_of_kind _ _ hk (by decide)
      obtain ⟨m1, m2⟩ := signedMins_spec a hok.bytes hl
      have hne9 : ¬ a.dataType = Generated.DT_FLOAT32.toNat := by
        rcases hkc with ⟨h, _⟩ | ⟨_, h | h | h⟩ | ⟨h, _⟩ <;> first | (rw [h]; decide) | omega
      simp only [decodedAttr, dsOf, finishAttribute, expectedAttributeOf, descOf, hne9, if_false,
        show ¬ ((1:Nat) = 2) by decide]
      congr 1
      rw [flatMap_map_eq, flatMap_map_eq, ← flatMap_id_flatten]
      apply flatMap_congr'
      intro row hrow
      have hlen : row.length = a.numComponents * dataTypeLength a.dataType := by
        rw [hrs row hrow, Attribute.stride, Nat.mul_comm]
      rw [signed_row _ hl _ _ (by rw [rowComps_length, m1]) (rowComps_lt _ _ _ (hrb row hrow)) m2]
      exact writeLE_rowComps _ _ row (hrb row hrow) hlen
    | k + 2, hk, hkc, h =>
      have hk2 : k = 0 := by
        rcases hkc with ⟨h0, _⟩ | ⟨h0, _⟩ | ⟨h0, _⟩ <;> omega
      subst hk2
      have h9 : a.dataType = Generated.DT_FLOAT32.toNat := by
        rcases hkc with ⟨h0, _⟩ | ⟨h0, _⟩ | ⟨_, h⟩
        · omega
        · omega
        · rw [h]; rfl
      simp only at h
      cases hq : quantizationParams a (opts.att i) with
      | none => rw [hq] at h; cases h
      | some r =>
        obtain ⟨mins, range, q⟩ := r
        rw [hq] at h
        simp only [Option.some.injEq] at h
        subst h
        simp only [decodedAttr, dsOf, finishAttribute, expectedAttributeOf, descOf, h9, if_true, hq,
          show ((0:Nat) + 2 = 2) by decide]
        have hskip : (({} : DecOpts).skip.contains a.attType) = false := rfl
        simp only [hskip, Bool.false_eq_true, if_false]
        congr 1
        rw [flatMap_map_eq, flatMap_map_eq]
        apply flatMap_congr'
        intro row _
        rw [modRow_id 4 _ (fun x hx => by
          simp only [List.mem_map] at hx
          obtain ⟨y, _, rfl⟩ := hx
          exact toUnsigned32_lt' y)]

/-! ### the whole geometry -/

theorem allSome_map_eq {α β γ : Type} (f : Nat → α → Option β) (G : β → γ) (H : Nat → α → γ) :
    ∀ (l : List α) (k : Nat) (r : List β),
    (∀ j a b, l[j]? = some a → f (k + j) a = some b → G b = H (k + j) a) →
    allSome ((zipIdxFrom k l).map fun ia => f ia.1 ia.2) = some r →
    r.map G = (zipIdxFrom k l).map fun ia => H ia.1 ia.2 := by
  intro l
  induction l with
  | nil =>
    intro k r _ h
    simp only [zipIdxFrom, List.map_nil, allSome, Option.some.injEq] at h
    subst h; rfl
  | cons a as ih =>
    intro k r hR h
    simp only [zipIdxFrom, List.map_cons] at h
    cases hb : f k a with
    | none => rw [hb] at h; simp [allSome] at h
    | some b =>
      rw [hb] at h
      simp only [allSome] at h
      split at h
      · cases h
      · rename_i bs hbs
        simp only [Option.some.injEq] at h
        subst h
        simp only [List.map_cons, zipIdxFrom, List.cons.injEq]
        refine ⟨by simpa using hR 0 a b (by simp) (by simpa using hb), ih (k + 1) bs ?_ hbs⟩
        intro j a' b' hj hf
        have := hR (j + 1) a' b' (by simpa using hj) (by rw [← hf]; congr 1; omega)
        rw [this]; congr 1; omega

/-- the encoder states of a successful run come from `encodeAttribute`, attribute by attribute -/
theorem encs_of_full (ch : Choices) (g : Geometry) (md : Option GeometryMetadata) (opts : EncOpts)
    (bs : Bytes) (encs : List AttEnc) (henc : encodeGeometryKdFull ch g md opts = some (bs, encs)) :
    allSome ((zipIdxFrom 0 g.atts).map fun ia => encodeAttribute opts g.numPoints ia.1 ia.2) = some encs := by
  unfold encodeGeometryKdFull at henc
  split at henc
  · cases henc
  · split at henc
    · cases henc
    · rename_i ab encs' hab
      simp only [Option.some.injEq, Prod.mk.injEq] at henc
      obtain ⟨_, rfl⟩ := henc
      unfold encodePointAttributes at hab
      split at hab
      · rename_i hemp
        simp only [Option.some.injEq, Prod.mk.injEq] at hab
        obtain ⟨_, rfl⟩ := hab
        have : g.atts = [] := by simpa using hemp
        rw [this]; rfl
      · split at hab
        · cases hab
        · rename_i kb encs'' hkb
          simp only [Option.some.injEq, Prod.mk.injEq] at hab
          obtain ⟨_, rfl⟩ := hab
          unfold encodeKdAttributes at hkb
          split at hkb
          · cases hkb
          · rename_i encs3 hall
            simp only at hkb
            split at hkb
            · cases hkb
            · simp only [Option.some.injEq, Prod.mk.injEq] at hkb
              obtain ⟨_, rfl⟩ := hkb
              exact hall

/-- with the points in their original order the decoder's geometry is `expectedKd g opts` -/
theorem geometryOfPoints_expected (ch : Choices) (g : Geometry) (md : Option GeometryMetadata)
    (opts : EncOpts) (bs : Bytes) (encs : List AttEnc) (hok : GeomOK g opts)
    (henc : encodeGeometryKdFull ch g md opts = some (bs, encs)) :
    geometryOfPoints g.numPoints encs (pointVector g.numPoints encs) = expectedKd g opts := by
  have hall := encs_of_full ch g md opts bs encs henc
  have hrel := allSome_forall2 (fun i a => encodeAttribute opts g.numPoints i a)
    (fun a e => EncFacts g.numPoints e ∧ e.desc = descOf a) g.atts 0 encs (by
      intro j a e hj he
      rw [Nat.zero_add] at he
      exact encodeAttribute_facts opts g.numPoints j a e (hok.atts j a hj) he) hall
  have hf : ∀ e ∈ encs, EncFacts g.numPoints e := by
    intro e he
    obtain ⟨a, _, h⟩ := Kd.forall2_mem_right hrel e he
    exact h.1
  have hatts := geometryOfPoints_pointVector g.numPoints encs hf
  have hexp := allSome_map_eq (fun i a => encodeAttribute opts g.numPoints i a) (decodedAttr g.numPoints)
    (fun i a => expectedAttributeOf opts g.numPoints i a) g.atts 0 encs (by
      intro j a e hj he
      rw [Nat.zero_add] at he ⊢
      exact decodedAttr_eq opts g.numPoints j a e (hok.atts j a hj) he) hall
  unfold expectedKd
  rw [← hexp, ← hatts]
  rfl

/-! ### per-point value tuples -/

theorem perm_tuples (encs : List AttEnc) (pts pts' : List (List Nat)) (h : pts'.Perm pts) :
    (tuplesOf encs pts').Perm (tuplesOf encs pts) :=
  List.Perm.map _ h

theorem finishAttribute_finishRow (n : Nat) (ka : KdAtt) (t : KdTransform) (rows : List (List Nat)) :
    finishAttribute {} n ka t rows = ka.desc.toAttribute n (rows.flatMap (finishRow ka t)) := by
  cases t <;> rfl

theorem zip3With_maps {α β γ δ ε : Type} (f : α → γ → δ → ε) (tr : β → γ) (g : α → δ) :
    ∀ (as : List α) (bs : List β),
    zip3With f as (bs.map tr) (as.map g) = List.zipWith (fun a b => f a (tr b) (g a)) as bs := by
  intro as
  induction as with
  | nil => intro bs; cases bs <;> rfl
  | cons a as ih =>
    intro bs
    cases bs with
    | nil => rfl
    | cons b bs => simp [zip3With, ih]

/-- every attribute buffer of the decoder's geometry is the concatenation, over the points in
    their decoded order, of that point's value bytes — the entries of `tuplesOf` -/
theorem geometryOfPoints_atts (n : Nat) (encs : List AttEnc) (pts : List (List Nat)) :
    (geometryOfPoints n encs pts).atts =
      List.zipWith (fun ka (e : AttEnc) =>
        ka.desc.toAttribute n (pts.flatMap fun p => finishRow ka e.transform (attRow ka p)))
        (kdAttsOf 0 encs) encs := by
  simp only [geometryOfPoints]
  rw [zip3With_maps]
  congr 1
  funext ka e
  rw [finishAttribute_finishRow, flatMap_map_eq]

end Draco.KdEnc
