import DracoProofs.QuantFloat
import DracoProofs.QuantSpecial
/-
  Concrete oracles used for the non-vacuity examples:
  * `biasedOps e` — every arithmetic operation returns the exact result times `(1 + e)`;
    it satisfies `RoundingModel _ u` for `|e| ≤ u` and is not exact.
  * `XQ` — rationals extended by `+∞`, `-∞`, `NaN` with the IEEE comparison; it satisfies
    `SpecialOrder`.
-/
namespace Draco
namespace Quant

@[reducible] def biasedOps (e : ℚ) : FloatOps ℚ where
  add a b := (a + b) * (1 + e)
  sub a b := (a - b) * (1 + e)
  mul a b := (a * b) * (1 + e)
  div a b := (a / b) * (1 + e)
  ofInt k := (k : ℚ)
  floorToInt x := ⌊x⌋
  lt a b := decide (a < b)
  eq a b := decide (a = b)
  isNaN _ := false
  isInf _ := false
  zero := 0
  one := 1
  half := 1/2
  ofBits _ := 0
  toBits _ := 0

theorem biasedOps_model (e u : ℚ) (h : |e| ≤ u) : RoundingModel (biasedOps e) u where
  add a b := ⟨e, h, rfl⟩
  sub a b := ⟨e, h, rfl⟩
  mul a b := ⟨e, h, rfl⟩
  div a b _ := ⟨e, h, rfl⟩
  ofInt k := ⟨0, by simpa using le_trans (abs_nonneg e) h, by show (k:ℚ) = (k:ℚ) * (1 + 0); ring⟩
  floor _ := rfl
  half := rfl

theorem exactOps_model (u : ℚ) (h : 0 ≤ u) : RoundingModel exactOps u where
  add a b := ⟨0, by simpa using h, by show a + b = (a + b) * (1 + 0); ring⟩
  sub a b := ⟨0, by simpa using h, by show a - b = (a - b) * (1 + 0); ring⟩
  mul a b := ⟨0, by simpa using h, by show a * b = (a * b) * (1 + 0); ring⟩
  div a b _ := ⟨0, by simpa using h, by show a / b = (a / b) * (1 + 0); ring⟩
  ofInt k := ⟨0, by simpa using h, by show (k:ℚ) = (k:ℚ) * (1 + 0); ring⟩
  floor _ := rfl
  half := rfl

/-- extended rationals -/
inductive XQ where
  | fin (q : ℚ)
  | pinf
  | ninf
  | nan

namespace XQ

/-- arithmetic is exact on finite values; anything involving a special value is mapped to
    `nan` (the rejection argument only looks at comparisons and classification) -/
def lift2 (f : ℚ → ℚ → ℚ) : XQ → XQ → XQ
  | fin a, fin b => fin (f a b)
  | _, _ => nan

def ltb : XQ → XQ → Bool
  | fin a, fin b => decide (a < b)
  | fin _, pinf => true
  | ninf, fin _ => true
  | ninf, pinf => true
  | _, _ => false

@[reducible] def ops : FloatOps XQ where
  add := lift2 (· + ·)
  sub := lift2 (· - ·)
  mul := lift2 (· * ·)
  div := lift2 (· / ·)
  ofInt k := fin k
  floorToInt x := match x with | fin a => ⌊a⌋ | _ => -2147483648
  lt := ltb
  eq a b := match a, b with
    | fin a, fin b => decide (a = b) | pinf, pinf => true | ninf, ninf => true | _, _ => false
  isNaN x := match x with | nan => true | _ => false
  isInf x := match x with | pinf => true | ninf => true | _ => false
  zero := fin 0
  one := fin 1
  half := fin (1/2)
  ofBits _ := fin 0
  toBits _ := 0

theorem specialOrder : SpecialOrder ops (· = pinf) (· = ninf) where
  inf_of_pinf x h := by subst h; rfl
  inf_of_ninf x h := by subst h; rfl
  inf_cases x h := by
    cases x with
    | fin q => exact absurd h Bool.false_ne_true
    | pinf => exact Or.inl rfl
    | ninf => exact Or.inr rfl
    | nan => exact absurd h Bool.false_ne_true
  lt_nan_left a b h := by
    cases a with
    | nan => cases b <;> rfl
    | _ => exact absurd h Bool.false_ne_true
  lt_nan_right a b h := by
    cases b with
    | nan => cases a <;> rfl
    | _ => exact absurd h Bool.false_ne_true
  lt_ninf_right a b h := by subst h; cases a <;> rfl
  lt_pinf_left a b h := by subst h; cases b <;> rfl
  lt_pinf_right a b h hn hp := by
    subst h
    cases a with
    | fin q => rfl
    | pinf => exact absurd rfl hp
    | ninf => rfl
    | nan => exact absurd hn.symm Bool.false_ne_true
  lt_ninf_left a b h hn hp := by
    subst h
    cases b with
    | fin q => rfl
    | pinf => rfl
    | ninf => exact absurd rfl hp
    | nan => exact absurd hn.symm Bool.false_ne_true

end XQ
end Quant
end Draco
