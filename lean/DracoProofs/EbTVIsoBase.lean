import DracoProofs.EbMDIso
/-
  `CTIso` (the Prop `ctIso` decides, DracoProofs/EbCTIso.lean) gives the isomorphism `TVIso` of the BASE views:
  the step from the connectivity to what the per-vertex attribute sequencers / prediction schemes see.
-/
namespace Draco.EbEnc
open Draco
open Draco.Eb hiding iabs nextC prevC

/-- the decoder's base table as a view -/
def baseViewD (n : Nat) (dc2v dopp dvc : Array Nat) : TView :=
  { c2v := dc2v, opp := dopp, seam := #[], lm := dvc, isAtt := false, numFaces := n }

theorem getElem!_eq {a : Array Nat} {i : Nat} (h : i < a.size) : a[i]! = a[i] := by simp [h]

theorem rd_ok' (site : String) (a : Array Nat) (i : Nat) (h : i < a.size) : rd site a i = .ok a[i]! := by
  unfold rd
  rw [dif_pos h, getElem!_eq h]
  rfl

/-- **CTIso ⇒ TVIso of the base views**: the Prop-level isomorphism of the corner tables (what `ctIso` decides) is
    an isomorphism of the views the per-vertex attribute decoders / encoders traverse and predict on.  Side
    conditions: the encoder's arrays are consistent (`3 ∣ corners`, one opposite per corner), the decoder's
    vertex ids index its `vertex_corners_`, and `IsOnBoundary` — which goes through the left-most corner of a vertex,
    not covered by CTIso — agrees (`hbd`; evaluated by `tvIsoCheck`). -/
theorem tviso_of_ctiso (t : CT) (p : Array Nat) (n : Nat) (dc2v dopp dvc : Array Nat)
    (h : CTIso t p n dc2v dopp) (hC : t.numCorners ≤ inv) (h3 : t.c2v.size % 3 = 0) (hopp : t.opp.size = t.c2v.size)
    (hdv : ∀ d, d < 3 * n → dc2v[d]! < dvc.size)
    (hbd : ∀ d, d < 3 * n → ∃ b, (baseViewD n dc2v dopp dvc).isOnBoundary dc2v[d]! = .ok b ∧
      t.view.isOnBoundary (psi t p n dc2v dc2v[d]!) = .ok b) :
    TVIso (baseViewD n dc2v dopp dvc) t.view (phi p) (psi t p n dc2v) := by
  have hle := h.corners_le
  have hnc : t.numCorners = t.c2v.size := rfl
  have hnf : 3 * t.view.numFaces = t.c2v.size := by
    show 3 * (t.c2v.size / 3) = t.c2v.size
    omega
  obtain ⟨hs1, hs2⟩ := h.sizes
  have hi : inv = 4294967295 := rfl
  have dop : ∀ c, c < 3 * n → (baseViewD n dc2v dopp dvc).opposite c = .ok dopp[c]! := by
    intro c hc
    have hci : (c == inv) = false := by simp; omega
    have hlt : c < dopp.size := by omega
    simp only [TView.opposite, baseViewD, hci, Bool.false_eq_true, if_false]
    exact rd_ok' _ _ _ hlt
  have dvx : ∀ c, c < 3 * n → (baseViewD n dc2v dopp dvc).vertex c = .ok dc2v[c]! := by
    intro c hc
    have hci : (c == inv) = false := by simp; omega
    have hlt : c < dc2v.size := by omega
    simp only [TView.vertex, baseViewD, hci, Bool.not_false, Bool.and_false, Bool.false_eq_true, if_false]
    exact rd_ok' _ _ _ hlt
  have eop : ∀ c, c < t.c2v.size → t.view.opposite c = .ok t.opp[c]! := by
    intro c hc
    have hci : (c == inv) = false := by simp; omega
    have hlt : c < t.opp.size := by omega
    simp only [TView.opposite, CT.view, hci, Bool.false_eq_true, if_false]
    exact rd_ok' _ _ _ hlt
  have evx : ∀ c, c < t.c2v.size → t.view.vertex c = .ok t.c2v[c]! := by
    intro c hc
    have hci : (c == inv) = false := by simp; omega
    simp only [TView.vertex, CT.view, hci, Bool.not_false, Bool.and_false, Bool.false_eq_true, if_false]
    exact rd_ok' _ _ _ hc
  refine ⟨rfl, ⟨by show 3 * n ≤ inv; omega, by omega, by show dc2v.size ≤ inv; omega, by show t.c2v.size ≤ inv; omega⟩,
    fun c hc => by have := h.corner_lt c hc; omega, fun c c' a b e => h.inj c c' a b e,
    fun c hc => h.phi_nextC hC c hc, ?_, ?_, ?_, ?_⟩
  · intro c hc
    refine ⟨dopp[c]!, dop c hc, ?_, ?_⟩
    · by_cases ho : dopp[c]! = inv
      · exact Or.inl ho
      · exact Or.inr (h.opp_map c hc ho).1
    · rw [eop _ (h.corner_lt c hc)]
      by_cases ho : dopp[c]! = inv
      · rw [ho, ext_inv, (h.opp_inv c hc).mp ho]
      · rw [ext_of_ne _ ho, (h.opp_map c hc ho).2]
  · intro c hc
    refine ⟨dc2v[c]!, dvx c hc, hdv c hc, ?_, h.psi_lt c hc⟩
    rw [evx _ (h.corner_lt c hc), h.psi_vertex c hc]
  · intro c c' v v' hc hc' hv hv' e
    rw [dvx c hc] at hv
    rw [dvx c' hc'] at hv'
    cases hv; cases hv'
    exact h.psi_inj c c' hc hc' e
  · intro c v hc hv
    rw [dvx c hc] at hv
    cases hv
    exact hbd c hc

end Draco.EbEnc
