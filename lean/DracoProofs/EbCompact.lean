import DracoProofs.EbCTIsoComplete
import DracoProofs.EbDecSimStart
/-
  The COMPACTION phase of the decoder's connectivity (`connCompact`, DracoModel/EbConnectivity.lean) and the corner
  table isomorphism: compaction renumbers vertices, and `CTIso` only sees decoder vertex ids through the equalities
  `dc2v[d] = dc2v[d']`, so it is invariant under any renumbering that is injective on the ids in use.

  (1) `ctIso_renumber`; (3) `ctIso_compact` (with the spec of `connCompact` as ONE named hypothesis `CompactSpec`);
  (2) only the case `m.invalid = #[]` of the spec is proved here (`compactSpec_nil`, from `connCompact_ok`).
-/
namespace Draco.EbEnc
open Draco Draco.Eb

namespace Compact
open CTIsoComplete

/-- **(1) `CTIso` is invariant under a renumbering of the decoder's vertices** that is injective on the vertex ids of the
    corners.  (The decoder's vertex ids enter `CTIso` only through `sizes` and the equalities of `vertex`; there is no bound
    such as `dc2v[d] ≠ inv` among its fields.) -/
theorem ctIso_renumber {t : CT} {P : Array Nat} {n : Nat} {c2v opp : Array Nat} (h : CTIso t P n c2v opp)
    (c2v' : Array Nat) (ρ : Nat → Nat) (hsz : c2v'.size = c2v.size)
    (hmap : ∀ d, d < 3 * n → c2v'[d]! = ρ c2v[d]!)
    (hinj : ∀ d d', d < 3 * n → d' < 3 * n → ρ c2v[d]! = ρ c2v[d']! → c2v[d]! = c2v[d']!) :
    CTIso t P n c2v' opp :=
  { faces := h.faces
    sizes := ⟨by rw [hsz]; exact h.sizes.1, h.sizes.2⟩
    corner_lt := h.corner_lt
    inj := h.inj
    opp_inv := h.opp_inv
    opp_map := h.opp_map
    vertex_lt := h.vertex_lt
    vertex := fun d d' hd hd' => by
      rw [hmap d hd, hmap d' hd', ← h.vertex d d' hd hd']
      exact ⟨hinj d d' hd hd', fun e => by rw [e]⟩ }

/-- **the specification of `connCompact` that the isomorphism needs** (ONE named hypothesis of `ctIso_compact`): the
    compaction succeeds, keeps the opposite corners, and relabels the vertices of the corners by a map `ρ` that is
    injective on the vertex ids in use.  Proved here only for `m.invalid = #[]` (`compactSpec_nil`); in general it is the
    loop invariant of `connCompact` (each round moves the corners of the last live vertex — the fan its
    `VertexCornersIterator` walks — to a dead id that no corner carries). -/
structure CompactSpec (ci : ConnIn) (m : ConnMain) (s : ConnStart) (co : ConnOut) : Prop where
  run : connCompact ci m s = .ok co
  opp : co.opp = s.opp
  size : co.c2v.size = s.c2v.size
  renumber : ∃ ρ : Nat → Nat, (∀ d, d < 3 * ci.numFaces → co.c2v[d]! = ρ s.c2v[d]!) ∧
    ∀ d d', d < 3 * ci.numFaces → d' < 3 * ci.numFaces → ρ s.c2v[d]! = ρ s.c2v[d']! → s.c2v[d]! = s.c2v[d']!

/-- **(2), the case without merged vertices** -/
theorem compactSpec_nil (ci : ConnIn) (m : ConnMain) (s : ConnStart) (hinv : m.invalid = #[]) :
    CompactSpec ci m s (DecSim.compactOf m s) :=
  { run := DecSim.connCompact_ok ci m s hinv
    opp := rfl
    size := rfl
    renumber := ⟨id, fun _ _ => rfl, fun _ _ _ _ e => e⟩ }

/-- **(3) the isomorphism survives the compaction**, Prop form and checker form -/
theorem ctIso_compact {t : CT} {P : Array Nat} {ci : ConnIn} {m : ConnMain} {s : ConnStart} {co : ConnOut}
    (h : CTIso t P ci.numFaces s.c2v s.opp) (hc : CompactSpec ci m s co) :
    CTIso t P ci.numFaces co.c2v co.opp ∧ ctIso t P ci.numFaces co.c2v co.opp = true := by
  obtain ⟨ρ, hmap, hinj⟩ := hc.renumber
  have h' : CTIso t P ci.numFaces co.c2v co.opp := by
    rw [hc.opp]
    exact ctIso_renumber h co.c2v ρ hc.size hmap hinj
  exact ⟨h', ctIso_complete h'⟩

/-! ### the pure core of the loop invariant of `connCompact` (for the general case of (2)) -/

/-- a renumbering of the corners' vertex ids that is injective on the ids in use -/
def Renumbers (n : Nat) (c2v c2v' : Array Nat) : Prop :=
  ∃ ρ : Nat → Nat, (∀ d, d < 3 * n → c2v'[d]! = ρ c2v[d]!) ∧
    ∀ d d', d < 3 * n → d' < 3 * n → ρ c2v[d]! = ρ c2v[d']! → c2v[d]! = c2v[d']!

theorem Renumbers.refl (n : Nat) (c2v : Array Nat) : Renumbers n c2v c2v :=
  ⟨id, fun _ _ => rfl, fun _ _ _ _ e => e⟩

/-- renumberings compose (the rounds of the compaction loop) -/
theorem Renumbers.trans {n : Nat} {a b c : Array Nat} (h1 : Renumbers n a b) (h2 : Renumbers n b c) :
    Renumbers n a c := by
  obtain ⟨ρ1, m1, i1⟩ := h1
  obtain ⟨ρ2, m2, i2⟩ := h2
  refine ⟨ρ2 ∘ ρ1, fun d hd => by rw [m2 d hd, m1 d hd]; rfl, ?_⟩
  intro d d' hd hd' e
  apply i1 d d' hd hd'
  have := i2 d d' hd hd' (by rw [m1 d hd, m1 d' hd']; exact e)
  rw [m1 d hd, m1 d' hd'] at this
  exact this

/-- **one round of the compaction**: relabelling every corner of the vertex `src` to an id `dst` that no corner carries
    is a renumbering (what the `VertexCornersIterator` loop does when it reaches exactly the corners of `src`: `hfan`) -/
theorem relabel_renumbers (n : Nat) (c2v c2v' : Array Nat) (src dst : Nat)
    (hdead : ∀ d, d < 3 * n → c2v[d]! ≠ dst)
    (hrel : ∀ d, d < 3 * n → c2v'[d]! = if c2v[d]! = src then dst else c2v[d]!) :
    Renumbers n c2v c2v' := by
  refine ⟨fun x => if x = src then dst else x, fun d hd => hrel d hd, ?_⟩
  intro d d' hd hd' e
  simp only [] at e
  have h1 := hdead d hd
  have h2 := hdead d' hd'
  by_cases a : c2v[d]! = src
  · by_cases b : c2v[d']! = src
    · rw [a, b]
    · rw [if_pos a, if_neg b] at e
      exact absurd e.symm h2
  · by_cases b : c2v[d']! = src
    · rw [if_neg a, if_pos b] at e
      exact absurd e h1
    · rw [if_neg a, if_neg b] at e
      exact e

/-- `CompactSpec` from its run and a `Renumbers` fact -/
theorem compactSpec_of_renumbers {ci : ConnIn} {m : ConnMain} {s : ConnStart} {co : ConnOut}
    (hrun : connCompact ci m s = .ok co) (hopp : co.opp = s.opp) (hsz : co.c2v.size = s.c2v.size)
    (hren : Renumbers ci.numFaces s.c2v co.c2v) : CompactSpec ci m s co :=
  ⟨hrun, hopp, hsz, hren⟩

end Compact

end Draco.EbEnc
