import DracoProofs.IODedup
import DracoProofs.IODedupSep
/-
  DracoProofs.IODedupPoints — point-level view of the two deduplication passes (used for point
  clouds, where there are no faces to speak about): every source point is found again, with all its
  attribute values, at some point of the result, and every point of the result comes from a source
  point.
-/
namespace Draco.IO
open Draco

section Table
variable {α : Type} [BEq α] [LawfulBEq α]

/-- every entry of the unique table is the image of some input entry -/
theorem dedupTable_surj (vals : List α) (k : Nat) (hk : k < (dedupTable vals).1.length) :
    ∃ i, i < vals.length ∧ (dedupTable vals).2.getD i 0 = k := by
  have inv := dedupTable_inv vals
  have hmem : (dedupTable vals).1[k] ∈ vals := inv.sub.subset (List.getElem_mem hk)
  obtain ⟨i, hi, hie⟩ := List.getElem_of_mem hmem
  obtain ⟨k', h1, h2⟩ := dedupTable_get vals i hi
  have hk' : k' < (dedupTable vals).1.length := by
    by_contra hc; rw [List.getElem?_eq_none (by omega)] at h2; cases h2
  rw [List.getElem?_eq_getElem hk'] at h2
  have e : (dedupTable vals).1[k'] = (dedupTable vals).1[k] := by
    rw [Option.some.inj h2, hie]
  have : k' = k := (List.Nodup.getElem_inj_iff inv.nodup).mp e
  refine ⟨i, hi, ?_⟩
  simp [List.getD_eq_getElem?_getD, h1, this]

theorem dedupTable_index_lt (vals : List α) (i : Nat) (hi : i < vals.length) :
    (dedupTable vals).2.getD i 0 < (dedupTable vals).1.length := by
  obtain ⟨k, h1, h2⟩ := dedupTable_get vals i hi
  have : k < (dedupTable vals).1.length := by
    by_contra hc; rw [List.getElem?_eq_none (by omega)] at h2; cases h2
  simpa [List.getD_eq_getElem?_getD, h1] using this

end Table

/-- `DeduplicateAttributeValues` keeps the value tuple of every point -/
theorem dedupValues_pointTuple (g : Geometry) (hnp : g.numPoints ≠ 0)
    (hatts : ∀ a ∈ g.atts, AttOk a g.numPoints) (p : Nat) (hp : p < g.numPoints) :
    pointTuple g.ioDedupValues p = pointTuple g p := by
  obtain ⟨hA, -⟩ := geometry_dedupValues_atts g hnp
  unfold pointTuple
  rw [hA, List.map_map]
  apply List.map_congr_left
  intro a ha
  have hok := hatts a ha
  simp only [Function.comp]
  rw [(dedupValues_static a).1,
    dedupValues_pointValue a hok.stored p (fun m hm => by rw [hok.mapLen m hm]; exact hp) (hok.inRange p hp)]

/-- **`DeduplicatePointIds`, point by point**: there is a map `φ` from old to new point ids that
    keeps the value tuple of every point and reaches every new point. -/
theorem dedupPointIds_points (g : Geometry) :
    ∃ φ : Nat → Nat,
      (∀ p, p < g.numPoints → φ p < g.ioDedupPointIds.numPoints ∧
        pointTuple g.ioDedupPointIds (φ p) = pointTuple g p) ∧
      (∀ q, q < g.ioDedupPointIds.numPoints → ∃ p, p < g.numPoints ∧ φ p = q) := by
  unfold Geometry.ioDedupPointIds
  simp only
  generalize htup : (List.range g.numPoints).map (fun p => g.atts.map (·.ioMappedIndex p)) = tuples
  have hlen : tuples.length = g.numPoints := by rw [← htup]; simp
  by_cases hc : ((dedupTable tuples).1.length == g.numPoints) = true
  · simp only [hc, if_true]
    exact ⟨id, fun p hp => ⟨hp, rfl⟩, fun q hq => ⟨q, hq, rfl⟩⟩
  · simp only [hc, Bool.false_eq_true, if_false]
    refine ⟨fun p => (dedupTable tuples).2.getD p 0, ?_, ?_⟩
    · intro p hp
      have hpl : p < tuples.length := by omega
      refine ⟨dedupTable_index_lt tuples p hpl, ?_⟩
      obtain ⟨q, hq1, hq2⟩ := dedupTable_get tuples p hpl
      have htp : tuples[p] = g.atts.map (·.ioMappedIndex p) := by
        subst htup; simp
      unfold pointTuple
      simp only
      apply List.ext_getElem?
      intro k
      simp only [List.getElem?_map, List.getElem?_zipIdx]
      cases hk : g.atts[k]? with
      | none => simp
      | some a =>
        simp only [Option.map_some, Nat.zero_add, Option.some.injEq, Prod.mk.injEq, true_and]
        unfold Attribute.ioPointValue Attribute.ioValueAt
        simp only [Attribute.stride]
        have : ({ a with map := some ((dedupTable tuples).1.map (fun tp => tp.getD k 0)) } : Attribute).ioMappedIndex
            ((dedupTable tuples).2.getD p 0) = a.ioMappedIndex p := by
          simp only [Attribute.ioMappedIndex, List.getD_eq_getElem?_getD, hq1, Option.getD_some,
            List.getElem?_map, hq2, Option.map_some, htp]
          rw [hk]
          simp
        rw [this]
    · intro q hq
      obtain ⟨i, hi, hie⟩ := dedupTable_surj tuples q hq
      exact ⟨i, by omega, hie⟩

/-- **Both passes, point by point.** -/
theorem dedup_points (g : Geometry) (hnp : g.numPoints ≠ 0) (hatts : ∀ a ∈ g.atts, AttOk a g.numPoints) :
    ∃ φ : Nat → Nat,
      (∀ p, p < g.numPoints → φ p < g.ioDedupValues.ioDedupPointIds.numPoints ∧
        pointTuple g.ioDedupValues.ioDedupPointIds (φ p) = pointTuple g p) ∧
      (∀ q, q < g.ioDedupValues.ioDedupPointIds.numPoints → ∃ p, p < g.numPoints ∧ φ p = q) := by
  obtain ⟨-, hN⟩ := geometry_dedupValues_atts g hnp
  obtain ⟨φ, h1, h2⟩ := dedupPointIds_points g.ioDedupValues
  refine ⟨φ, ?_, ?_⟩
  · intro p hp
    obtain ⟨a, b⟩ := h1 p (by rw [hN]; exact hp)
    exact ⟨a, by rw [b]; exact dedupValues_pointTuple g hnp hatts p hp⟩
  · intro q hq
    obtain ⟨p, hp, e⟩ := h2 q hq
    exact ⟨p, by rw [hN] at hp; exact hp, e⟩

/-- static fields of every attribute of the deduplicated geometry come from an attribute of the
    source at the same position -/
theorem dedup_att_static (g : Geometry) (k : Nat) (a' : Attribute)
    (h : g.ioDedupValues.ioDedupPointIds.atts[k]? = some a') :
    ∃ a, g.atts[k]? = some a ∧ a'.attType = a.attType ∧ a'.dataType = a.dataType ∧
      a'.numComponents = a.numComponents := by
  obtain ⟨a1, h1, -, -, hdt, hnc, hty, -⟩ := dedupPointIds_att g.ioDedupValues k a' h
  unfold Geometry.ioDedupValues at h1
  by_cases h0 : (g.numPoints == 0) = true
  · simp only [h0, if_true] at h1
    exact ⟨a1, h1, hty, hdt, hnc⟩
  · simp only [h0, Bool.false_eq_true, if_false, List.getElem?_map] at h1
    cases hk : g.atts[k]? with
    | none => rw [hk] at h1; cases h1
    | some a =>
      rw [hk] at h1
      simp only [Option.map_some, Option.some.injEq] at h1
      subst h1
      obtain ⟨s1, s2, s3, -⟩ := dedupValues_static a
      exact ⟨a, rfl, by rw [hty, s1], by rw [hdt, s2], by rw [hnc, s3]⟩

end Draco.IO
